import Dashu.Model.Int.Repr
import Dashu.Proofs.Int.Word
/-
  Refinement of the dispatch layer (`repr.rs` from_buffer/from_dword, `add_ops.rs mod repr`) to
  arithmetic on `Nat`, for every word size `W ≥ 1`.
-/
namespace Dashu.Model

-- ------------------------------------------------------------------ trimLen / popZeros

theorem trimLen_le (ws : List Nat) : trimLen ws ≤ ws.length := by
  induction ws with
  | nil => simp [trimLen]
  | cons w ws ih =>
    simp only [trimLen, List.length_cons]
    split <;> (try split) <;> omega

theorem val_zero_of_trimLen_zero (W : Nat) (ws : List Nat) (h : trimLen ws = 0) : val W ws = 0 := by
  induction ws with
  | nil => rfl
  | cons w ws ih =>
    simp only [trimLen] at h
    split at h
    · rename_i h0
      split at h
      · rename_i hw; simp [ih h0, hw]
      · omega
    · omega

theorem val_popZeros (W : Nat) (ws : List Nat) : val W (popZeros ws) = val W ws := by
  unfold popZeros
  induction ws with
  | nil => simp [trimLen]
  | cons w ws ih =>
    simp only [trimLen]
    split
    · rename_i h0
      have hz := val_zero_of_trimLen_zero W ws h0
      split
      · rename_i hw; simp [hw, hz]
      · simp [hz]
    · simp only [List.take_succ_cons, val_cons, ih]

theorem popZeros_isWords {W : Nat} {ws : List Nat} (h : IsWords W ws) : IsWords W (popZeros ws) :=
  h.take _

theorem popZeros_length (ws : List Nat) : (popZeros ws).length = trimLen ws := by
  unfold popZeros; simp [List.length_take, Nat.min_eq_left (trimLen_le ws)]

theorem popZeros_getLast (ws : List Nat) : (popZeros ws).getLast? ≠ some 0 := by
  unfold popZeros
  induction ws with
  | nil => simp [trimLen]
  | cons w ws ih =>
    simp only [trimLen]
    split
    · rename_i h0
      split
      · simp
      · rename_i hw; simp [hw]
    · rename_i h0
      rw [List.take_succ_cons]
      have hne : List.take (trimLen ws) ws ≠ [] := by
        intro hnil
        have := congrArg List.length hnil
        simp [List.length_take, Nat.min_eq_left (trimLen_le ws)] at this
        exact h0 this
      rw [List.getLast?_cons_of_ne_nil hne] <;> exact ih

-- ------------------------------------------------------------------ fromBuffer

theorem fromBuffer_value (W : Nat) (ws : List Nat) : (fromBuffer W ws).value W = val W ws := by
  rw [← val_popZeros W ws]
  unfold fromBuffer
  split <;> simp_all [TRepr.value]

theorem fromBuffer_canon (W : Nat) (ws : List Nat) (h : IsWords W ws) :
    (fromBuffer W ws).Canon W := by
  have hw := popZeros_isWords h
  have hl := popZeros_getLast ws
  unfold fromBuffer
  split
  · simp [TRepr.Canon, Nat.two_pow_pos]
  · rename_i a he
    rw [he] at hw
    have := hw.head
    simp only [TRepr.Canon]
    calc a < 2 ^ W := this
      _ ≤ 2 ^ (2 * W) := Nat.pow_le_pow_right (by omega) (by omega)
  · rename_i a b he
    rw [he] at hw
    have ha := hw.head
    have hb := hw.tail.head
    simp only [TRepr.Canon]
    have : 2 ^ (2 * W) = 2 ^ W * 2 ^ W := by rw [← Nat.pow_add]; congr 1; omega
    rw [this]
    nlinarith [Nat.two_pow_pos W]
  · rename_i l h0 h1 h2
    refine ⟨?_, hw, hl⟩
    match hp : popZeros ws with
    | [] => exact absurd hp h0
    | [a] => exact absurd hp (h1 a)
    | [a, b] => exact absurd hp (h2 a b)
    | _ :: _ :: _ :: _ => simp

-- ------------------------------------------------------------------ addDword / addLargeDword / addLarge

theorem addDword_value (W a b : Nat) (ha : a < 2 ^ (2 * W)) (hb : b < 2 ^ (2 * W)) :
    (addDword W a b).value W = a + b := by
  unfold addDword
  have hp : 0 < 2 ^ (2 * W) := Nat.two_pow_pos _
  have hpw : 0 < 2 ^ W := Nat.two_pow_pos _
  have hsq : 2 ^ (2 * W) = 2 ^ W * 2 ^ W := by rw [← Nat.pow_add]; congr 1; omega
  by_cases h : (a + b) / 2 ^ (2 * W) = 0
  · simp [h, TRepr.value]
  · simp only [h, if_false, fromBuffer_value, val_cons, val_nil]
    have hq : (a + b) / 2 ^ (2 * W) = 1 := by
      have hlt : a + b < 2 * 2 ^ (2 * W) := by
        have := ha; have := hb; clear hsq; omega
      have : (a + b) / 2 ^ (2 * W) < 2 := (Nat.div_lt_iff_lt_mul hp).mpr hlt
      generalize (a + b) / 2 ^ (2 * W) = q at *
      omega
    have h1 := Nat.div_add_mod (a + b) (2 ^ (2 * W))
    have h2 := Nat.div_add_mod ((a + b) % 2 ^ (2 * W)) (2 ^ W)
    rw [hq] at h1
    rw [hsq] at h1 h2 ⊢
    nlinarith [h1, h2]

theorem addDword_canon (W a b : Nat) (ha : a < 2 ^ (2 * W)) (hb : b < 2 ^ (2 * W)) :
    (addDword W a b).Canon W := by
  unfold addDword
  have hp : 0 < 2 ^ (2 * W) := Nat.two_pow_pos _
  have hpw : 0 < 2 ^ W := Nat.two_pow_pos _
  have hsq : 2 ^ (2 * W) = 2 ^ W * 2 ^ W := by rw [← Nat.pow_add]; congr 1; omega
  by_cases h : (a + b) / 2 ^ (2 * W) = 0
  · simp only [h, if_true, TRepr.Canon]
    exact (Nat.div_eq_zero_iff_lt hp).mp h
  · simp only [h, if_false]
    apply fromBuffer_canon
    have hr : (a + b) % 2 ^ (2 * W) < 2 ^ W * 2 ^ W := by rw [← hsq]; exact Nat.mod_lt _ hp
    refine IsWords.cons (Nat.mod_lt _ hpw) (IsWords.cons ?_ (IsWords.cons ?_ (IsWords.nil W)))
    · exact (Nat.div_lt_iff_lt_mul hpw).mpr hr
    · exact Nat.one_lt_two_pow (by
        intro hW; subst hW; simp at ha hb; subst ha; subst hb; simp at h)


-- ------------------------------------------------------------------ small helpers

@[simp] theorem TRepr.value_small (W d : Nat) : (TRepr.small d).value W = d := rfl
@[simp] theorem TRepr.value_large (W : Nat) (ws : List Nat) : (TRepr.large ws).value W = val W ws := rfl

theorem exists_cons_cons {l : List Nat} (h : 2 ≤ l.length) : ∃ a b t, l = a :: b :: t := by
  match l, h with
  | [], h => simp at h
  | [_], h => simp at h
  | a :: b :: t, _ => exact ⟨a, b, t, rfl⟩

theorem val_dword (W d : Nat) : val W [d % 2 ^ W, d / 2 ^ W] = d := by
  simp only [val_cons, val_nil, Nat.mul_zero, Nat.add_zero]
  exact Nat.mod_add_div d (2 ^ W)

theorem isWords_dword (W d : Nat) (hd : d < 2 ^ (2 * W)) : IsWords W [d % 2 ^ W, d / 2 ^ W] := by
  have hp : 0 < 2 ^ W := Nat.two_pow_pos W
  refine IsWords.cons (Nat.mod_lt _ hp) (IsWords.cons ?_ (IsWords.nil W))
  rw [Nat.div_lt_iff_lt_mul hp, ← two_pow_two_mul]; exact hd

theorem isWords_one (W : Nat) (hW : 1 ≤ W) : IsWords W [1] :=
  IsWords.cons (Nat.one_lt_two_pow (by omega)) (IsWords.nil W)

/-- a non-empty word list whose top word is non-zero is at least `B^(len-1)` -/
theorem val_ge_of_getLast (W : Nat) (ws : List Nat) (hne : ws ≠ []) (hl : ws.getLast? ≠ some 0) :
    2 ^ (W * (ws.length - 1)) ≤ val W ws := by
  induction ws with
  | nil => exact absurd rfl hne
  | cons w ws ih =>
    cases ws with
    | nil =>
      have : w ≠ 0 := by simpa using hl
      simp only [List.length_cons, List.length_nil, val_cons, val_nil]
      simp; omega
    | cons x xs =>
      have hl' : (x :: xs).getLast? ≠ some 0 := by
        rwa [List.getLast?_cons_cons] at hl
      have h := ih (by simp) hl'
      simp only [List.length_cons, Nat.add_sub_cancel] at h ⊢
      rw [pow_mul_succ, val_cons]
      calc 2 ^ W * 2 ^ (W * xs.length) ≤ 2 ^ W * val W (x :: xs) := Nat.mul_le_mul_left _ h
        _ ≤ w + 2 ^ W * val W (x :: xs) := Nat.le_add_left _ _

theorem TRepr.Canon.large_ge {W : Nat} {ws : List Nat} (h : (TRepr.large ws).Canon W) :
    2 ^ (2 * W) ≤ val W ws := by
  obtain ⟨h3, _, hl⟩ := h
  have hne : ws ≠ [] := by intro e; subst e; simp at h3
  refine Nat.le_trans (Nat.pow_le_pow_right (by omega) ?_) (val_ge_of_getLast W ws hne hl)
  rw [Nat.mul_comm 2 W]; exact Nat.mul_le_mul_left _ (by omega)

theorem TRepr.Canon.small_lt {W d : Nat} (h : (TRepr.small d).Canon W) : d < 2 ^ (2 * W) := h

theorem TRepr.Canon.large_words {W : Nat} {ws : List Nat} (h : (TRepr.large ws).Canon W) :
    IsWords W ws := h.2.1

theorem TRepr.Canon.large_len {W : Nat} {ws : List Nat} (h : (TRepr.large ws).Canon W) :
    3 ≤ ws.length := h.1

-- ------------------------------------------------------------------ add_dword_in_place / add_large_dword

theorem addDwordInPlace_eq (W w0 w1 : Nat) (hi : List Nat) (d : Nat) :
    addDwordInPlace W (w0 :: w1 :: hi) d
      = addInPlace W (w0 :: w1 :: hi) [d % 2 ^ W, d / 2 ^ W] := by
  simp [addDwordInPlace, addInPlace, addSameLen]

theorem addDwordInPlace_spec (W : Nat) (ws : List Nat) (d : Nat)
    (hw : IsWords W ws) (hlen : 2 ≤ ws.length) (hd : d < 2 ^ (2 * W)) :
    let r := addDwordInPlace W ws d
    val W r.1 + 2 ^ (W * ws.length) * r.2 = val W ws + d ∧
    r.1.length = ws.length ∧ IsWords W r.1 ∧ r.2 ≤ 1 := by
  obtain ⟨w0, w1, hi, rfl⟩ := exists_cons_cons hlen
  have hs := addInPlace_spec W (w0 :: w1 :: hi) [d % 2 ^ W, d / 2 ^ W] hw (isWords_dword W d hd)
    (by simp)
  rw [val_dword] at hs
  rw [addDwordInPlace_eq]
  exact hs

theorem addLargeDword_value (W : Nat) (buf : List Nat) (d : Nat)
    (hb : IsWords W buf) (hlen : 2 ≤ buf.length) (hd : d < 2 ^ (2 * W)) :
    (addLargeDword W buf d).value W = val W buf + d := by
  have hs := addDwordInPlace_spec W buf d hb hlen hd
  unfold addLargeDword
  generalize addDwordInPlace W buf d = res at hs
  obtain ⟨r, c⟩ := res
  obtain ⟨s1, s2, s3, s4⟩ := hs
  simp only at s1 s2 s3 s4 ⊢
  rw [fromBuffer_value]
  by_cases hc : c = 0
  · subst hc
    simp only [if_true]
    simp only [Nat.mul_zero, Nat.add_zero] at s1
    exact s1
  · have : c = 1 := by omega
    subst this
    simp only [hc, if_false, val_append, val_cons, val_nil, s2, Nat.mul_zero, Nat.add_zero]
    exact s1

theorem addLargeDword_canon (W : Nat) (hW : 1 ≤ W) (buf : List Nat) (d : Nat)
    (hb : IsWords W buf) (hlen : 2 ≤ buf.length) (hd : d < 2 ^ (2 * W)) :
    (addLargeDword W buf d).Canon W := by
  have hs := addDwordInPlace_spec W buf d hb hlen hd
  unfold addLargeDword
  generalize addDwordInPlace W buf d = res at hs
  obtain ⟨r, c⟩ := res
  obtain ⟨s1, s2, s3, s4⟩ := hs
  simp only at s1 s2 s3 s4 ⊢
  apply fromBuffer_canon
  split
  · exact s3
  · exact s3.append (isWords_one W hW)

-- ------------------------------------------------------------------ add_large

/-- the tail that `add_large` keeps: exactly one of the two `drop`s is non-empty -/
theorem addLarge_hi_val (W : Nat) (buffer rhs : List Nat) :
    val W (if rhs.length > min buffer.length rhs.length then rhs.drop (min buffer.length rhs.length)
      else buffer.drop (min buffer.length rhs.length))
    = val W (buffer.drop (min buffer.length rhs.length))
      + val W (rhs.drop (min buffer.length rhs.length)) := by
  by_cases h : rhs.length > min buffer.length rhs.length
  · have hm : min buffer.length rhs.length = buffer.length := by omega
    rw [if_pos h, hm, List.drop_length, val_nil, Nat.zero_add]
  · have hm : min buffer.length rhs.length = rhs.length := by omega
    rw [if_neg h, hm, List.drop_length, val_nil, Nat.add_zero]

theorem addLarge_hi_words (W : Nat) (buffer rhs : List Nat) (hb : IsWords W buffer)
    (hr : IsWords W rhs) :
    IsWords W (if rhs.length > min buffer.length rhs.length
      then rhs.drop (min buffer.length rhs.length)
      else buffer.drop (min buffer.length rhs.length)) := by
  split
  · exact hr.drop _
  · exact hb.drop _

theorem addLarge_spec (W : Nat) (hW : 1 ≤ W) (buffer rhs : List Nat)
    (hb : IsWords W buffer) (hr : IsWords W rhs) :
    (addLarge W buffer rhs).value W = val W buffer + val W rhs ∧ (addLarge W buffer rhs).Canon W := by
  have hn1 : min buffer.length rhs.length ≤ buffer.length := Nat.min_le_left _ _
  have hn2 : min buffer.length rhs.length ≤ rhs.length := Nat.min_le_right _ _
  have hl1 := length_take_of_le hn1
  have hl2 := length_take_of_le hn2
  have hs := addSameLen_spec W (buffer.take (min buffer.length rhs.length))
    (rhs.take (min buffer.length rhs.length)) 0 (hb.take _) (hr.take _) (by rw [hl1, hl2]) (by omega)
  have hv := addLarge_hi_val W buffer rhs
  have hw := addLarge_hi_words W buffer rhs hb hr
  have hsb := val_take_add_drop W buffer (min buffer.length rhs.length)
  have hsr := val_take_add_drop W rhs (min buffer.length rhs.length)
  simp only [addLarge]
  generalize (if rhs.length > min buffer.length rhs.length
      then rhs.drop (min buffer.length rhs.length)
      else buffer.drop (min buffer.length rhs.length)) = hi at hv hw
  have ho := addOne_spec W hi hw
  generalize addSameLen W (buffer.take (min buffer.length rhs.length))
    (rhs.take (min buffer.length rhs.length)) 0 = res at hs
  obtain ⟨lo, c⟩ := res
  generalize addOne W hi = res2 at ho
  obtain ⟨hi', c'⟩ := res2
  obtain ⟨s1, s2, s3, s4⟩ := hs
  obtain ⟨o1, o2, o3, o4⟩ := ho
  simp only [hl1, hl2] at s1 s2 s3 s4 o1 o2 o3 o4 hsb hsr ⊢
  generalize min buffer.length rhs.length = n at *
  by_cases hc : c = 0
  · subst hc
    simp only [if_true, Nat.mul_zero, Nat.add_zero] at s1 ⊢
    refine ⟨?_, fromBuffer_canon W _ (s3.append hw)⟩
    rw [fromBuffer_value, val_append, s2]
    have e : 2 ^ (W * n) * val W hi
        = 2 ^ (W * n) * (val W (buffer.drop n) + val W (rhs.drop n)) := by rw [hv]
    linarith [e, s1, hsb, hsr]
  · have hc1 : c = 1 := by omega
    subst hc1
    simp only [hc, if_false]
    have e : 2 ^ (W * n) * (val W hi' + 2 ^ (W * hi.length) * c')
        = 2 ^ (W * n) * (val W (buffer.drop n) + val W (rhs.drop n) + 1) := by rw [o1, hv]
    by_cases hc' : c' = 0
    · subst hc'
      simp only [if_true]
      refine ⟨?_, fromBuffer_canon W _ (s3.append o3)⟩
      rw [fromBuffer_value, val_append, s2]
      linarith [e, s1, hsb, hsr]
    · have hc1' : c' = 1 := by omega
      subst hc1'
      simp only [hc', if_false]
      refine ⟨?_, fromBuffer_canon W _ ((s3.append o3).append (isWords_one W hW))⟩
      rw [fromBuffer_value, List.append_assoc, val_append, val_append, s2, o2]
      simp only [val_cons, val_nil, Nat.mul_zero, Nat.add_zero]
      linarith [e, s1, hsb, hsr]

-- ------------------------------------------------------------------ TypedRepr + TypedRepr

theorem TRepr.add_spec (W : Nat) (hW : 1 ≤ W) (a b : TRepr) (form : Nat)
    (ha : a.Canon W) (hb : b.Canon W) :
    (a.add W b form).value W = a.value W + b.value W ∧ (a.add W b form).Canon W := by
  cases a with
  | small x =>
    cases b with
    | small y => exact ⟨addDword_value W x y ha hb, addDword_canon W x y ha hb⟩
    | large ws =>
      have h2 : 2 ≤ ws.length := by have := hb.large_len; omega
      refine ⟨?_, addLargeDword_canon W hW ws x hb.large_words h2 ha⟩
      simp only [TRepr.add, TRepr.value_small, TRepr.value_large]
      rw [addLargeDword_value W ws x hb.large_words h2 ha]; omega
  | large ws =>
    cases b with
    | small y =>
      have h2 : 2 ≤ ws.length := by have := ha.large_len; omega
      exact ⟨addLargeDword_value W ws y ha.large_words h2 hb,
        addLargeDword_canon W hW ws y ha.large_words h2 hb⟩
    | large w1 =>
      have h01 := addLarge_spec W hW ws w1 ha.large_words hb.large_words
      have h10 := addLarge_spec W hW w1 ws hb.large_words ha.large_words
      simp only [TRepr.add, TRepr.value_small, TRepr.value_large]
      split
      · exact ⟨by rw [h10.1]; omega, h10.2⟩
      · split
        · exact h01
        · split
          · exact h01
          · exact ⟨by rw [h10.1]; omega, h10.2⟩

theorem TRepr.add_value (W : Nat) (hW : 1 ≤ W) (a b : TRepr) (form : Nat)
    (ha : a.Canon W) (hb : b.Canon W) : (a.add W b form).value W = a.value W + b.value W :=
  (TRepr.add_spec W hW a b form ha hb).1

theorem TRepr.add_canon (W : Nat) (hW : 1 ≤ W) (a b : TRepr) (form : Nat)
    (ha : a.Canon W) (hb : b.Canon W) : (a.add W b form).Canon W :=
  (TRepr.add_spec W hW a b form ha hb).2


-- ------------------------------------------------------------------ sub_dword_in_place / sub_large_dword

theorem subDwordInPlace_eq (W w0 w1 : Nat) (hi : List Nat) (d : Nat)
    (h0 : w0 < 2 ^ W) (h1 : w1 < 2 ^ W) (hd : d < 2 ^ (2 * W)) :
    subDwordInPlace W (w0 :: w1 :: hi) d
      = subInPlace W (w0 :: w1 :: hi) [d % 2 ^ W, d / 2 ^ W] := by
  have hp : 0 < 2 ^ W := Nat.two_pow_pos W
  have hb0 : d % 2 ^ W < 2 ^ W := Nat.mod_lt _ hp
  have hb1 : d / 2 ^ W < 2 ^ W := by rw [Nat.div_lt_iff_lt_mul hp, ← two_pow_two_mul]; exact hd
  simp only [subDwordInPlace]
  generalize d % 2 ^ W = b0 at *
  generalize d / 2 ^ W = b1 at *
  have hq1 : (w1 + 2 ^ W - b1 - (1 - (w0 + 2 ^ W - b0) / 2 ^ W)) / 2 ^ W ≤ 1 := by
    have hx : w1 + 2 ^ W - b1 - (1 - (w0 + 2 ^ W - b0) / 2 ^ W) < 2 * 2 ^ W := by omega
    have := (Nat.div_lt_iff_lt_mul hp).mpr hx
    omega
  have hcond : ((w1 + 2 ^ W - b1 - (1 - (w0 + 2 ^ W - b0) / 2 ^ W)) / 2 ^ W = 1)
      = (1 - (w1 + 2 ^ W - b1 - (1 - (w0 + 2 ^ W - b0) / 2 ^ W)) / 2 ^ W = 0) := by
    apply propext
    generalize (w1 + 2 ^ W - b1 - (1 - (w0 + 2 ^ W - b0) / 2 ^ W)) / 2 ^ W = q at hq1 ⊢
    omega
  simp only [hcond]
  simp [subInPlace, subSameLen]

theorem subDwordInPlace_spec (W : Nat) (ws : List Nat) (d : Nat)
    (hw : IsWords W ws) (hlen : 2 ≤ ws.length) (hd : d < 2 ^ (2 * W)) :
    let r := subDwordInPlace W ws d
    val W r.1 + d = val W ws + 2 ^ (W * ws.length) * r.2 ∧
    r.1.length = ws.length ∧ IsWords W r.1 ∧ r.2 ≤ 1 := by
  obtain ⟨w0, w1, hi, rfl⟩ := exists_cons_cons hlen
  have hs := subInPlace_spec W (w0 :: w1 :: hi) [d % 2 ^ W, d / 2 ^ W] hw (isWords_dword W d hd)
    (by simp)
  rw [val_dword] at hs
  rw [subDwordInPlace_eq W w0 w1 hi d hw.head hw.tail.head hd]
  exact hs

/-- `sub_large_dword`: the `debug_assert!(!overflow)` holds and the result is exact and canonical -/
theorem subLargeDword_spec (W : Nat) (lhs : List Nat) (d : Nat)
    (hc : (TRepr.large lhs).Canon W) (hd : d < 2 ^ (2 * W)) :
    (subDwordInPlace W lhs d).2 = 0 ∧
    (subLargeDword W lhs d).value W + d = val W lhs ∧ (subLargeDword W lhs d).Canon W := by
  have hw := hc.large_words
  have hge := hc.large_ge
  have hs := subDwordInPlace_spec W lhs d hw (by have := hc.large_len; omega) hd
  unfold subLargeDword
  generalize subDwordInPlace W lhs d = res at hs
  obtain ⟨r, c⟩ := res
  obtain ⟨s1, s2, s3, s4⟩ := hs
  simp only at s1 s2 s3 s4 ⊢
  have hlt := val_lt W r s3
  rw [s2] at hlt
  have hc0 : c = 0 := by
    rcases (by omega : c = 0 ∨ c = 1) with h | h
    · exact h
    · subst h; simp only [Nat.mul_one] at s1; omega
  subst hc0
  refine ⟨rfl, ?_, fromBuffer_canon W r s3⟩
  rw [fromBuffer_value]; simpa using s1

-- ------------------------------------------------------------------ sub_large / sub_large_ref_val

theorem val_lt_of_length_lt (W : Nat) (a b : List Nat) (ha : IsWords W a) (hne : b ≠ [])
    (hb : b.getLast? ≠ some 0) (h : a.length < b.length) : val W a < val W b := by
  have h1 := val_lt W a ha
  have h2 := val_ge_of_getLast W b hne hb
  have h3 : 2 ^ (W * a.length) ≤ 2 ^ (W * (b.length - 1)) :=
    Nat.pow_le_pow_right (by omega) (Nat.mul_le_mul_left _ (by omega))
  omega

theorem subLarge_ok (W : Nat) (lhs rhs : List Nat) (hl : IsWords W lhs) (hr : IsWords W rhs)
    (hlen : rhs.length ≤ lhs.length) (h : val W rhs ≤ val W lhs) :
    ∃ r, subLarge W lhs rhs = .ok r ∧ r.value W + val W rhs = val W lhs ∧ r.Canon W := by
  have hs := subInPlace_spec W lhs rhs hl hr hlen
  have hb := (subInPlace_borrow_iff W lhs rhs hl hr hlen).mpr h
  unfold subLarge
  rw [if_neg (by omega)]
  generalize subInPlace W lhs rhs = res at hs hb
  obtain ⟨r, c⟩ := res
  simp only at hs hb ⊢
  subst hb
  obtain ⟨s1, s2, s3, s4⟩ := hs
  refine ⟨fromBuffer W r, by simp, ?_, fromBuffer_canon W r s3⟩
  rw [fromBuffer_value]; simpa using s1

theorem subLarge_err (W : Nat) (lhs rhs : List Nat) (hl : IsWords W lhs) (hr : IsWords W rhs)
    (h : val W lhs < val W rhs) : subLarge W lhs rhs = .error .negativeUBig := by
  unfold subLarge
  by_cases hlen : lhs.length < rhs.length
  · rw [if_pos hlen]
  · rw [if_neg hlen]
    have hb := subInPlace_borrow_iff W lhs rhs hl hr (by omega)
    generalize subInPlace W lhs rhs = res at hb
    obtain ⟨r, c⟩ := res
    simp only at hb ⊢
    have : c ≠ 0 := by intro hc; have := hb.mp hc; omega
    simp [this]

/-- `sub_large_ref_val` computes the same thing as `sub_large` (in the other buffer) -/
theorem subLargeRefVal_eq (W : Nat) (lhs rhs : List Nat) :
    subLargeRefVal W lhs rhs = subLarge W lhs rhs := by
  unfold subLargeRefVal subLarge
  by_cases hlen : lhs.length < rhs.length
  · simp [hlen]
  · have htl : (lhs.take rhs.length).length = rhs.length := length_take_of_le (by omega)
    simp only [hlen, if_false, subInPlace]
    rw [subSameLenSwap_eq W _ _ 0 htl]
    generalize subSameLen W (lhs.take rhs.length) rhs 0 = res
    obtain ⟨lo, c⟩ := res
    simp only
    by_cases hc : c = 0
    · simp [hc]
    · simp only [hc, if_false]

-- ------------------------------------------------------------------ TypedRepr - TypedRepr (UBig)

theorem TRepr.Canon.large_ne_nil {W : Nat} {ws : List Nat} (h : (TRepr.large ws).Canon W) :
    ws ≠ [] := by
  intro e; subst e; have := h.large_len; simp at this

theorem TRepr.sub_ok (W : Nat) (a b : TRepr) (refVal : Bool) (ha : a.Canon W) (hb : b.Canon W)
    (h : b.value W ≤ a.value W) :
    ∃ r, a.sub W b refVal = .ok r ∧ r.value W + b.value W = a.value W ∧ r.Canon W := by
  cases a with
  | small x =>
    cases b with
    | small y =>
      simp only [TRepr.value_small] at h
      refine ⟨.small (x - y), by simp [TRepr.sub, h], ?_, ?_⟩
      · simp only [TRepr.value_small]; omega
      · show x - y < 2 ^ (2 * W)
        have := ha.small_lt; omega
    | large ws =>
      exfalso
      have := hb.large_ge; have := ha.small_lt
      simp only [TRepr.value_small, TRepr.value_large] at h; omega
  | large ws =>
    cases b with
    | small y =>
      have hs := subLargeDword_spec W ws y ha hb
      exact ⟨subLargeDword W ws y, by simp [TRepr.sub], hs.2.1, hs.2.2⟩
    | large w1 =>
      simp only [TRepr.value_large] at h ⊢
      have hlen : w1.length ≤ ws.length := by
        apply Nat.le_of_not_lt
        intro hcon
        have := val_lt_of_length_lt W ws w1 ha.large_words hb.large_ne_nil hb.2.2 hcon
        omega
      have hs := subLarge_ok W ws w1 ha.large_words hb.large_words hlen h
      simp only [TRepr.sub, subLargeRefVal_eq]
      cases refVal <;> simpa using hs

theorem TRepr.sub_err (W : Nat) (a b : TRepr) (refVal : Bool) (ha : a.Canon W) (hb : b.Canon W)
    (h : a.value W < b.value W) : a.sub W b refVal = .error .negativeUBig := by
  cases a with
  | small x =>
    cases b with
    | small y =>
      simp only [TRepr.value_small] at h
      simp only [TRepr.sub]
      rw [if_neg (by omega)]
    | large ws => rfl
  | large ws =>
    cases b with
    | small y =>
      exfalso
      have := ha.large_ge; have := hb.small_lt
      simp only [TRepr.value_small, TRepr.value_large] at h; omega
    | large w1 =>
      simp only [TRepr.value_large] at h
      have hs := subLarge_err W ws w1 ha.large_words hb.large_words h
      simp only [TRepr.sub, subLargeRefVal_eq]
      cases refVal <;> simpa using hs


-- ------------------------------------------------------------------ list helpers for sub_in_place_with_sign

theorem take_succ_getD (l : List Nat) (n : Nat) (h : n < l.length) :
    l.take (n + 1) = l.take n ++ [l.getD n 0] := by
  induction l generalizing n with
  | nil => simp at h
  | cons x xs ih =>
    cases n with
    | zero => simp
    | succ n =>
      have h' : n < xs.length := by simpa using h
      simp only [List.take_succ_cons, List.cons_append, List.getD_cons_succ]
      rw [ih n h']

theorem IsWords.getD {W : Nat} {l : List Nat} (h : IsWords W l) (n : Nat) : l.getD n 0 < 2 ^ W := by
  induction l generalizing n with
  | nil => simp [Nat.two_pow_pos]
  | cons x xs ih =>
    cases n with
    | zero => simpa using h.head
    | succ n => simpa using ih h.tail n

theorem IsWords.set {W : Nat} {l : List Nat} (h : IsWords W l) (n x : Nat) (hx : x < 2 ^ W) :
    IsWords W (l.set n x) := by
  intro y hy
  rcases List.mem_or_eq_of_mem_set hy with h' | h'
  · exact h y h'
  · rw [h']; exact hx

theorem set_take_drop (l : List Nat) (n x : Nat) (h : n < l.length) :
    (l.set n x).take n = l.take n ∧ (l.set n x).drop n = x :: l.drop (n + 1) ∧
    l.drop n = l.getD n 0 :: l.drop (n + 1) := by
  induction l generalizing n with
  | nil => simp at h
  | cons y ys ih =>
    cases n with
    | zero => simp
    | succ n =>
      have h' : n < ys.length := by simpa using h
      have := ih n h'
      simpa using this

theorem getLast?_drop_of_lt (l : List Nat) (n : Nat) (h : n < l.length) :
    (l.drop n).getLast? = l.getLast? := by
  induction l generalizing n with
  | nil => simp at h
  | cons x xs ih =>
    cases n with
    | zero => simp
    | succ n =>
      have h' : n < xs.length := by simpa using h
      rw [List.drop_succ_cons, ih n h']
      cases xs with
      | nil => simp at h'
      | cons y ys => rw [List.getLast?_cons_cons]

theorem val_drop_zero (W : Nat) (l : List Nat) (k : Nat) (h : val W l = 0) :
    val W (l.drop k) = 0 := by
  induction l generalizing k with
  | nil => simp
  | cons w ws ih =>
    cases k with
    | zero => simpa using h
    | succ k =>
      simp only [List.drop_succ_cons]
      apply ih
      simp only [val_cons] at h
      have hp : 0 < 2 ^ W := Nat.two_pow_pos W
      have h2 : 2 ^ W * val W ws = 0 := by omega
      rcases Nat.mul_eq_zero.mp h2 with h' | h'
      · omega
      · exact h'

theorem val_drop_trimLen (W : Nat) (ws : List Nat) : val W (ws.drop (trimLen ws)) = 0 := by
  have h1 := val_take_add_drop W ws (trimLen ws)
  have h2 : val W (ws.take (trimLen ws)) = val W ws := val_popZeros W ws
  have hp : 0 < 2 ^ (W * (ws.take (trimLen ws)).length) := Nat.two_pow_pos _
  have h3 : 2 ^ (W * (ws.take (trimLen ws)).length) * val W (ws.drop (trimLen ws)) = 0 := by omega
  rcases Nat.mul_eq_zero.mp h3 with h' | h'
  · omega
  · exact h'

theorem val_drop_of_trimLen_le (W : Nat) (ws : List Nat) (n : Nat) (h : trimLen ws ≤ n) :
    val W (ws.drop n) = 0 := by
  have e : ws.drop n = (ws.drop (trimLen ws)).drop (n - trimLen ws) := by
    rw [List.drop_drop]; congr 1; omega
  rw [e]; exact val_drop_zero W _ _ (val_drop_trimLen W ws)

-- ------------------------------------------------------------------ sub_in_place_with_sign

theorem subWithSignEq_spec (W : Nat) (n : Nat) : ∀ (lhs rhs : List Nat), IsWords W lhs →
    IsWords W rhs → n ≤ lhs.length → n ≤ rhs.length →
    (subWithSignEq W lhs rhs n).2.length = lhs.length ∧ IsWords W (subWithSignEq W lhs rhs n).2 ∧
    ((subWithSignEq W lhs rhs n).1 = false →
      val W (rhs.take n) ≤ val W (lhs.take n) ∧
      val W (subWithSignEq W lhs rhs n).2 + val W (rhs.take n) = val W lhs) ∧
    ((subWithSignEq W lhs rhs n).1 = true →
      val W (lhs.take n) < val W (rhs.take n) ∧
      val W (subWithSignEq W lhs rhs n).2 + val W (lhs.take n)
        = val W (rhs.take n) + 2 ^ (W * n) * val W (lhs.drop n)) := by
  induction n with
  | zero =>
    intro lhs rhs hl hr _ _
    simp [subWithSignEq, hl]
  | succ n ih =>
    intro lhs rhs hl hr hnl hnr
    have hnl' : n < lhs.length := by omega
    have hnr' : n < rhs.length := by omega
    have hP : 0 < 2 ^ (W * n) := Nat.two_pow_pos _
    have hl_n : (lhs.take n).length = n := length_take_of_le (by omega)
    have hr_n : (rhs.take n).length = n := length_take_of_le (by omega)
    have hl_n1 : (lhs.take (n + 1)).length = n + 1 := length_take_of_le hnl
    have hr_n1 : (rhs.take (n + 1)).length = n + 1 := length_take_of_le hnr
    have hvl : val W (lhs.take (n + 1)) = val W (lhs.take n) + 2 ^ (W * n) * lhs.getD n 0 := by
      rw [take_succ_getD lhs n hnl', val_append, hl_n]
      simp
    have hvr : val W (rhs.take (n + 1)) = val W (rhs.take n) + 2 ^ (W * n) * rhs.getD n 0 := by
      rw [take_succ_getD rhs n hnr', val_append, hr_n]
      simp
    have hLn := val_lt W (lhs.take n) (hl.take n)
    rw [hl_n] at hLn
    have hRn := val_lt W (rhs.take n) (hr.take n)
    rw [hr_n] at hRn
    have hsplit := val_take_add_drop W lhs (n + 1)
    rw [hl_n1] at hsplit
    have hpow := pow_mul_succ W n
    have ha := hl.getD n
    have hb := hr.getD n
    obtain ⟨hst, hsd, hld⟩ := set_take_drop lhs n 0 hnl'
    have hsetv := val_take_add_drop W (lhs.set n 0) n
    rw [hst, hsd, hl_n] at hsetv
    have hlhsv := val_take_add_drop W lhs n
    rw [hld, hl_n] at hlhsv
    simp only [val_cons] at hsetv hlhsv
    have hsetd : val W ((lhs.set n 0).drop n) = 2 ^ W * val W (lhs.drop (n + 1)) := by
      rw [hsd]; simp
    have hsetw : IsWords W (lhs.set n 0) := hl.set n 0 (Nat.two_pow_pos W)
    have hih := ih (lhs.set n 0) rhs hsetw hr (by rw [List.length_set]; omega) (by omega)
    rw [hst, hsetd, List.length_set] at hih
    simp only [subWithSignEq]
    generalize lhs.getD n 0 = a at *
    generalize rhs.getD n 0 = b at *
    by_cases hab : a > b
    · simp only [hab, if_true]
      have hs := subSameLen_spec W (lhs.take (n + 1)) (rhs.take (n + 1)) 0 (hl.take _) (hr.take _)
        (by rw [hl_n1, hr_n1]) (by omega)
      generalize subSameLen W (lhs.take (n + 1)) (rhs.take (n + 1)) 0 = res at hs
      obtain ⟨lo, c⟩ := res
      obtain ⟨s1, s2, s3, s4⟩ := hs
      simp only [hl_n1] at s1 s2 ⊢
      have hlo := val_lt W lo s3
      rw [s2] at hlo
      have h1 := Nat.mul_le_mul_left (2 ^ (W * n)) (show b + 1 ≤ a from hab)
      rw [Nat.mul_add, Nat.mul_one] at h1
      have hle : val W (rhs.take (n + 1)) ≤ val W (lhs.take (n + 1)) := by omega
      have hc0 : c = 0 := by
        rcases (by omega : c = 0 ∨ c = 1) with h | h
        · exact h
        · subst h; simp only [Nat.mul_one] at s1; omega
      subst hc0
      simp only [Nat.mul_zero, Nat.add_zero] at s1
      refine ⟨?_, s3.append (hl.drop _), ?_, by simp⟩
      · rw [List.length_append, s2, List.length_drop]; omega
      · intro _
        refine ⟨hle, ?_⟩
        rw [val_append, s2]; omega
    · by_cases hba : a < b
      · simp only [hab, hba, if_false, if_true]
        rw [subSameLenSwap_eq W _ _ 0 (by rw [hl_n1, hr_n1])]
        have hs := subSameLen_spec W (rhs.take (n + 1)) (lhs.take (n + 1)) 0 (hr.take _) (hl.take _)
          (by rw [hl_n1, hr_n1]) (by omega)
        generalize subSameLen W (rhs.take (n + 1)) (lhs.take (n + 1)) 0 = res at hs
        obtain ⟨lo, c⟩ := res
        obtain ⟨s1, s2, s3, s4⟩ := hs
        simp only [hr_n1] at s1 s2 ⊢
        have hlo := val_lt W lo s3
        rw [s2] at hlo
        have h1 := Nat.mul_le_mul_left (2 ^ (W * n)) (show a + 1 ≤ b from hba)
        rw [Nat.mul_add, Nat.mul_one] at h1
        have hlt : val W (lhs.take (n + 1)) < val W (rhs.take (n + 1)) := by omega
        have hc0 : c = 0 := by
          rcases (by omega : c = 0 ∨ c = 1) with h | h
          · exact h
          · subst h; simp only [Nat.mul_one] at s1; omega
        subst hc0
        simp only [Nat.mul_zero, Nat.add_zero] at s1
        refine ⟨?_, s3.append (hl.drop _), by simp, ?_⟩
        · rw [List.length_append, s2, List.length_drop]; omega
        · intro _
          refine ⟨hlt, ?_⟩
          rw [val_append, s2]; omega
      · have heq : a = b := by omega
        subst heq
        simp only [hab, hba, if_false]
        generalize subWithSignEq W (lhs.set n 0) rhs n = res at hih
        obtain ⟨neg, r⟩ := res
        obtain ⟨i1, i2, i3, i4⟩ := hih
        simp only at i1 i2 i3 i4 ⊢
        refine ⟨i1, i2, ?_, ?_⟩
        · intro hneg
          obtain ⟨j1, j2⟩ := i3 hneg
          exact ⟨by omega, by linarith⟩
        · intro hneg
          obtain ⟨j1, j2⟩ := i4 hneg
          refine ⟨by omega, ?_⟩
          rw [hpow]; linarith

/-- `sub_in_place_with_sign`: same length, still words (equal top words are zeroed, not dropped),
    magnitude of the difference, and the sign is negative exactly when `lhs < rhs` -/
theorem subInPlaceWithSign_spec (W : Nat) (lhs rhs : List Nat) (hl : IsWords W lhs)
    (hr : IsWords W rhs) (hlen : rhs.length ≤ lhs.length) :
    (subInPlaceWithSign W lhs rhs).2.length = lhs.length ∧
    IsWords W (subInPlaceWithSign W lhs rhs).2 ∧
    ((subInPlaceWithSign W lhs rhs).1 = false →
      val W (subInPlaceWithSign W lhs rhs).2 + val W rhs = val W lhs) ∧
    ((subInPlaceWithSign W lhs rhs).1 = true →
      val W (subInPlaceWithSign W lhs rhs).2 + val W lhs = val W rhs ∧ val W lhs < val W rhs) := by
  have hll := trimLen_le lhs
  have hrl := trimLen_le rhs
  have hvl : val W (lhs.take (trimLen lhs)) = val W lhs := val_popZeros W lhs
  have hvr : val W (rhs.take (trimLen rhs)) = val W rhs := val_popZeros W rhs
  have hl_l : (lhs.take (trimLen lhs)).length = trimLen lhs := length_take_of_le hll
  have hr_r : (rhs.take (trimLen rhs)).length = trimLen rhs := length_take_of_le hrl
  simp only [subInPlaceWithSign]
  by_cases hgt : trimLen lhs > trimLen rhs
  · -- lhs has more significant words: plain subtraction, no borrow
    simp only [hgt, if_true]
    have hlen' : (rhs.take (trimLen rhs)).length ≤ (lhs.take (trimLen lhs)).length := by
      rw [hl_l, hr_r]; omega
    have hs := subInPlace_spec W (lhs.take (trimLen lhs)) (rhs.take (trimLen rhs)) (hl.take _)
      (hr.take _) hlen'
    have hne : lhs.take (trimLen lhs) ≠ [] := by
      intro e; have := congrArg List.length e; rw [hl_l] at this; simp at this; omega
    have hlt : val W (rhs.take (trimLen rhs)) < val W (lhs.take (trimLen lhs)) :=
      val_lt_of_length_lt W _ _ (hr.take _) hne (popZeros_getLast lhs) (by rw [hl_l, hr_r]; omega)
    have hb := (subInPlace_borrow_iff W _ _ (hl.take _) (hr.take _) hlen').mpr (by omega)
    generalize subInPlace W (lhs.take (trimLen lhs)) (rhs.take (trimLen rhs)) = res at hs hb
    obtain ⟨lo, c⟩ := res
    simp only at hs hb ⊢
    subst hb
    obtain ⟨s1, s2, s3, _⟩ := hs
    rw [hl_l] at s2
    have hd := val_drop_trimLen W lhs
    simp only [Nat.mul_zero, Nat.add_zero] at s1
    refine ⟨?_, s3.append (hl.drop _), ?_, by simp⟩
    · rw [List.length_append, s2, List.length_drop]; omega
    · intro _
      rw [val_append, hd]; omega
  · by_cases hlt : trimLen lhs < trimLen rhs
    · -- rhs has more significant words: rhs - lhs, copy the middle, borrow into it
      simp only [hgt, hlt, if_false, if_true]
      have hl1 : (rhs.take (trimLen lhs)).length = trimLen lhs := length_take_of_le (by omega)
      rw [subSameLenSwap_eq W _ _ 0 (by rw [hl1, hl_l])]
      have hs := subSameLen_spec W (rhs.take (trimLen lhs)) (lhs.take (trimLen lhs)) 0 (hr.take _)
        (hl.take _) (by rw [hl1, hl_l]) (by omega)
      have hmidw : IsWords W ((rhs.take (trimLen rhs)).drop (trimLen lhs)) := (hr.take _).drop _
      have hmidlen : ((rhs.take (trimLen rhs)).drop (trimLen lhs)).length
          = trimLen rhs - trimLen lhs := by rw [List.length_drop, hr_r]
      have htt : (rhs.take (trimLen rhs)).take (trimLen lhs) = rhs.take (trimLen lhs) := by
        rw [List.take_take]; congr 1; omega
      have hsplit := val_take_add_drop W (rhs.take (trimLen rhs)) (trimLen lhs)
      rw [htt, hl1, hvr] at hsplit
      have hmidlast : ((rhs.take (trimLen rhs)).drop (trimLen lhs)).getLast? ≠ some 0 := by
        rw [getLast?_drop_of_lt _ _ (by rw [hr_r]; exact hlt)]; exact popZeros_getLast rhs
      have hmidne : (rhs.take (trimLen rhs)).drop (trimLen lhs) ≠ [] := by
        intro e; have := congrArg List.length e; rw [hmidlen] at this; simp at this; omega
      have hmidge := val_ge_of_getLast W _ hmidne hmidlast
      have hmidpos : 1 ≤ val W ((rhs.take (trimLen rhs)).drop (trimLen lhs)) :=
        Nat.le_trans Nat.one_le_two_pow hmidge
      have ho := subOne_spec W _ hmidw
      have hd : val W (lhs.drop (trimLen rhs)) = 0 := val_drop_of_trimLen_le W lhs _ (by omega)
      have hLl := val_lt W _ (hl.take (trimLen lhs))
      rw [hl_l, hvl] at hLl
      rw [hvl] at hs
      generalize subSameLen W (rhs.take (trimLen lhs)) (lhs.take (trimLen lhs)) 0 = res at hs
      obtain ⟨lo, c⟩ := res
      obtain ⟨s1, s2, s3, s4⟩ := hs
      generalize (rhs.take (trimLen rhs)).drop (trimLen lhs) = mid at *
      generalize subOne W mid = res2 at ho
      obtain ⟨mid1, c1⟩ := res2
      obtain ⟨o1, o2, o3, o4⟩ := ho
      simp only [hl1] at s1 s2 o1 o2 o3 o4 ⊢
      have hm1 := val_lt W mid1 o3
      rw [o2] at hm1
      have hPM : 2 ^ (W * trimLen lhs) ≤ 2 ^ (W * trimLen lhs) * val W mid :=
        Nat.le_mul_of_pos_right _ hmidpos
      by_cases hc : c = 0
      · subst hc
        simp only [if_true, Nat.mul_zero, Nat.add_zero] at s1 ⊢
        refine ⟨?_, (s3.append hmidw).append (hl.drop _), by simp, ?_⟩
        · rw [List.length_append, List.length_append, s2, hmidlen, List.length_drop]; omega
        · intro _
          rw [val_append, val_append, s2, hd]
          constructor
          · simp only [Nat.mul_zero, Nat.add_zero]; omega
          · omega
      · have hc1 : c = 1 := by omega
        subst hc1
        simp only [hc, if_false] at s1 ⊢
        have hc10 : c1 = 0 := by
          rcases (by omega : c1 = 0 ∨ c1 = 1) with h | h
          · exact h
          · subst h; simp only [Nat.mul_one] at o1; omega
        subst hc10
        simp only [Nat.mul_zero, Nat.add_zero, Nat.mul_one] at o1 s1
        refine ⟨?_, (s3.append o3).append (hl.drop _), by simp, ?_⟩
        · rw [List.length_append, List.length_append, s2, o2, hmidlen, List.length_drop]; omega
        · intro _
          rw [val_append, val_append, s2, hd]
          have e : 2 ^ (W * trimLen lhs) * (val W mid1 + 1) = 2 ^ (W * trimLen lhs) * val W mid := by
            rw [o1]
          constructor
          · simp only [Nat.mul_zero, Nat.add_zero]; linarith
          · omega
    · -- same number of significant words: compare from the top
      have heq : trimLen lhs = trimLen rhs := by omega
      simp only [hgt, hlt, if_false]
      have hs := subWithSignEq_spec W (trimLen lhs) lhs rhs hl hr hll (by omega)
      have hvr' : val W (rhs.take (trimLen lhs)) = val W rhs := by rw [heq]; exact hvr
      have hd := val_drop_trimLen W lhs
      rw [hvl, hvr', hd] at hs
      generalize subWithSignEq W lhs rhs (trimLen lhs) = res at hs
      obtain ⟨neg, r⟩ := res
      obtain ⟨s1, s2, s3, s4⟩ := hs
      simp only at s1 s2 s3 s4 ⊢
      refine ⟨s1, s2, fun h => (s3 h).2, fun h => ⟨?_, (s4 h).1⟩⟩
      have := (s4 h).2
      simpa using this


-- ------------------------------------------------------------------ natWords / ofNat

theorem natWords_zero (W : Nat) : natWords W 0 = [] := by
  rw [natWords]; simp

theorem natWords_spec (W : Nat) (hW : 1 ≤ W) (n : Nat) :
    val W (natWords W n) = n ∧ IsWords W (natWords W n) ∧ (natWords W n).getLast? ≠ some 0 := by
  induction n using Nat.strongRecOn with
  | _ n ih =>
    by_cases h0 : n = 0
    · subst h0; rw [natWords_zero]; simp [IsWords.nil]
    · have hW0 : ¬ W = 0 := by omega
      have hp : 0 < 2 ^ W := Nat.two_pow_pos W
      have hlt : n / 2 ^ W < n :=
        Nat.div_lt_self (Nat.pos_of_ne_zero h0) (Nat.one_lt_two_pow hW0)
      have hunf : natWords W n = n % 2 ^ W :: natWords W (n / 2 ^ W) := by
        rw [natWords]; simp [h0, hW0]
      obtain ⟨i1, i2, i3⟩ := ih (n / 2 ^ W) hlt
      rw [hunf]
      refine ⟨?_, IsWords.cons (Nat.mod_lt _ hp) i2, ?_⟩
      · rw [val_cons, i1]; exact Nat.mod_add_div n (2 ^ W)
      · by_cases hq : n / 2 ^ W = 0
        · rw [hq, natWords_zero]
          have hm : n % 2 ^ W ≠ 0 := by
            have := Nat.mod_add_div n (2 ^ W); rw [hq] at this; omega
          simpa using hm
        · have hne : natWords W (n / 2 ^ W) ≠ [] := by
            have hlt2 : n / 2 ^ W / 2 ^ W < n / 2 ^ W :=
              Nat.div_lt_self (Nat.pos_of_ne_zero hq) (Nat.one_lt_two_pow hW0)
            rw [natWords]; simp [hq, hW0]
          rw [List.getLast?_cons_of_ne_nil hne]; exact i3

theorem ofNat_value (W : Nat) (hW : 1 ≤ W) (n : Nat) : (ofNat W n).value W = n := by
  unfold ofNat
  split
  · rfl
  · exact (natWords_spec W hW n).1

theorem ofNat_canon (W : Nat) (hW : 1 ≤ W) (n : Nat) : (ofNat W n).Canon W := by
  unfold ofNat
  split
  · assumption
  · rename_i h
    obtain ⟨h1, h2, h3⟩ := natWords_spec W hW n
    refine ⟨?_, h2, h3⟩
    have hlt := val_lt W _ h2
    rw [h1] at hlt
    apply Nat.le_of_not_lt
    intro hlen
    have : 2 ^ (W * (natWords W n).length) ≤ 2 ^ (2 * W) :=
      Nat.pow_le_pow_right (by omega)
        (by rw [Nat.mul_comm 2 W]; exact Nat.mul_le_mul_left _ (by omega))
    omega

-- ------------------------------------------------------------------ signs: with_sign / neg / of_int

/-- well-formed signed value: canonical magnitude and never "negative zero" -/
def SRepr.WF (W : Nat) (r : SRepr) : Prop := r.mag.Canon W ∧ (r.neg = true → r.mag.value W ≠ 0)

theorem TRepr.isZero_iff (m : TRepr) : m.isZero = true ↔ m = .small 0 := by
  cases m with
  | small d =>
    cases d with
    | zero => simp [TRepr.isZero]
    | succ k => simp [TRepr.isZero]
  | large ws => simp [TRepr.isZero]

theorem TRepr.value_ne_zero_of_not_isZero {W : Nat} {m : TRepr} (hc : m.Canon W)
    (hz : ¬ m.isZero = true) : m.value W ≠ 0 := by
  cases m with
  | small d =>
    intro h
    simp only [TRepr.value_small] at h
    subst h
    exact hz ((TRepr.isZero_iff _).mpr rfl)
  | large ws =>
    have := hc.large_ge
    have hp : 0 < 2 ^ (2 * W) := Nat.two_pow_pos _
    simp only [TRepr.value_large]; omega

theorem withSign_mag (m : TRepr) (neg : Bool) : (withSign m neg).mag = m := by
  unfold withSign; split <;> rfl

theorem withSign_value (W : Nat) (m : TRepr) (neg : Bool) :
    (withSign m neg).value W = if neg then -(m.value W : Int) else (m.value W : Int) := by
  unfold withSign
  split
  · rename_i hz
    have hm := (TRepr.isZero_iff m).mp hz
    subst hm
    cases neg <;> simp [SRepr.value]
  · cases neg <;> simp [SRepr.value]

theorem withSign_wf (W : Nat) (m : TRepr) (neg : Bool) (hc : m.Canon W) :
    (withSign m neg).WF W := by
  unfold withSign
  split
  · exact ⟨hc, by simp⟩
  · rename_i hz
    exact ⟨hc, fun _ => TRepr.value_ne_zero_of_not_isZero hc hz⟩

theorem SRepr.negate_value (W : Nat) (r : SRepr) : r.negate.value W = - r.value W := by
  unfold SRepr.negate
  rw [withSign_value]
  unfold SRepr.value
  cases r.neg <;> simp

theorem SRepr.negate_wf (W : Nat) (r : SRepr) (h : r.WF W) : r.negate.WF W :=
  withSign_wf W r.mag _ h.1

-- ------------------------------------------------------------------ sub_signed

theorem subDwordSigned_spec (W : Nat) (a b : Nat) (ha : a < 2 ^ (2 * W)) (hb : b < 2 ^ (2 * W)) :
    (subDwordSigned a b).value W = (a : Int) - b ∧ (subDwordSigned a b).WF W := by
  unfold subDwordSigned
  split
  · rename_i h
    refine ⟨?_, withSign_wf W _ _ (show a - b < 2 ^ (2 * W) by omega)⟩
    rw [withSign_value]; simp only [TRepr.value_small]; simp <;> omega
  · rename_i h
    refine ⟨?_, withSign_wf W _ _ (show b - a < 2 ^ (2 * W) by omega)⟩
    rw [withSign_value]; simp only [TRepr.value_small]; simp <;> omega

theorem subLargeSigned_spec (W : Nat) (lhs rhs : List Nat) (hl : (TRepr.large lhs).Canon W)
    (hr : (TRepr.large rhs).Canon W) :
    (subLargeSigned W lhs rhs).value W = (val W lhs : Int) - val W rhs ∧
    (subLargeSigned W lhs rhs).WF W := by
  unfold subLargeSigned
  split
  · rename_i hlen
    have hs := subInPlaceWithSign_spec W lhs rhs hl.large_words hr.large_words hlen
    generalize subInPlaceWithSign W lhs rhs = res at hs
    obtain ⟨neg, r⟩ := res
    obtain ⟨s1, s2, s3, s4⟩ := hs
    simp only at s1 s2 s3 s4 ⊢
    refine ⟨?_, withSign_wf W _ _ (fromBuffer_canon W r s2)⟩
    rw [withSign_value, fromBuffer_value]
    cases neg with
    | false => have := s3 rfl; simp <;> omega
    | true => have := (s4 rfl).1; simp <;> omega
  · rename_i hlen
    have hlt : val W lhs < val W rhs :=
      val_lt_of_length_lt W lhs rhs hl.large_words hr.large_ne_nil hr.2.2 (by omega)
    obtain ⟨m, hm1, hm2, hm3⟩ := subLarge_ok W rhs lhs hr.large_words hl.large_words (by omega)
      (by omega)
    rw [subLargeRefVal_eq, hm1]
    simp only
    refine ⟨?_, withSign_wf W _ _ hm3⟩
    rw [withSign_value]; simp <;> omega

theorem TRepr.subSigned_spec (W : Nat) (a b : TRepr) (form : Nat) (ha : a.Canon W)
    (hb : b.Canon W) :
    (a.subSigned W b form).value W = (a.value W : Int) - b.value W ∧
    (a.subSigned W b form).WF W := by
  cases a with
  | small x =>
    cases b with
    | small y => exact subDwordSigned_spec W x y ha hb
    | large ws =>
      have hs := subLargeDword_spec W ws x hb ha
      simp only [TRepr.subSigned, TRepr.value_small, TRepr.value_large]
      refine ⟨?_, SRepr.negate_wf W _ (withSign_wf W _ _ hs.2.2)⟩
      rw [SRepr.negate_value, withSign_value]
      have := hs.2.1
      simp <;> omega
  | large ws =>
    cases b with
    | small y =>
      have hs := subLargeDword_spec W ws y ha hb
      simp only [TRepr.subSigned, TRepr.value_small, TRepr.value_large]
      refine ⟨?_, withSign_wf W _ _ hs.2.2⟩
      rw [withSign_value]
      have := hs.2.1
      simp <;> omega
    | large w1 =>
      have h01 := subLargeSigned_spec W ws w1 ha hb
      have h10 := subLargeSigned_spec W w1 ws hb ha
      have hn : (subLargeSigned W w1 ws).negate.value W = (val W ws : Int) - val W w1 ∧
          (subLargeSigned W w1 ws).negate.WF W := by
        refine ⟨?_, SRepr.negate_wf W _ h10.2⟩
        rw [SRepr.negate_value, h10.1]; omega
      simp only [TRepr.subSigned, TRepr.value_large]
      split
      · exact hn
      · split
        · exact h01
        · split
          · exact h01
          · exact hn

end Dashu.Model
