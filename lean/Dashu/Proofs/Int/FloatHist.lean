import Dashu.Model.Int.FloatHist
import Dashu.Proofs.Int.FloatProducers
/-
  Soundness of float histories (`Model/Int/FloatHist.lean`): every register is normalised, finite and fits its
  precision with at most one spare digit.
-/
namespace Dashu.Model
open Dashu.Model.Float Dashu.Model.Trans

/-- finite: a zero significand comes with exponent 0 (no infinity) -/
def FFin (r : Float.FRepr) : Prop := r.signif = 0 → r.exp = 0

/-- what every register of a float history satisfies -/
def FGood (B : Nat) (x : FReg) : Prop := FCanon B (ofFloatRepr x.r) ∧ FFin x.r ∧ FitsP1 B x.p x.r

theorem new_ffin (B : Nat) (s e : Int) : FFin (Float.FRepr.new B s e) := by
  unfold FFin Float.FRepr.new
  by_cases hs : s = 0
  · simp [hs]
  · simp only [hs, if_false]
    intro h0
    exfalso
    obtain ⟨j, hj⟩ := stripAux_int B (s.natAbs.log2 + 1) s e
    rw [h0, Int.zero_mul] at hj
    exact hs hj

theorem ffin_neg (r : Float.FRepr) (h : FFin r) : FFin r.neg := by
  intro h0
  have : r.signif = 0 := by
    have h0' : -r.signif = 0 := h0
    omega
  exact h this

theorem reprRound_ffin (B : Nat) (m : Mode) (c : Coarse) (p : Nat) (r : Float.FRepr) (hr : FFin r) :
    FFin (reprRound B m c p r).1 := by
  unfold reprRound
  split
  · exact hr
  · simp only
    split
    · exact new_ffin B _ _
    · exact hr

theorem reprRoundSum_ffin (B : Nat) (m : Mode) (c : Coarse) (p : Nat) (s e : Int) (low : Int × Nat)
    (isSub : Bool) : FFin (reprRoundSum B m c p s e low isSub).1 := by
  obtain ⟨s', e', h⟩ := reprRoundSum_shape B m c p s e low isSub
  rw [h]; exact new_ffin B _ _

theorem reprAddLargeSmall_ffin (B : Nat) (m : Mode) (c : Coarse) (dub : Int → Nat) (p : Nat)
    (lhs rhs : Float.FRepr) (rs : Int) : FFin (reprAddLargeSmall B m c dub p lhs rhs rs).1 := by
  obtain ⟨s, e, l, b, h⟩ := reprAddLargeSmall_shape B m c dub p lhs rhs rs
  rw [h]; exact reprRoundSum_ffin B m c p _ _ _ _

theorem ctxAddSub_ffin (B : Nat) (m : Mode) (c : Coarse) (dub : Int → Nat) (p : Nat)
    (lhs rhs : Float.FRepr) (rs : Int) (hl : FFin lhs) (hr : FFin rhs) :
    FFin (ctxAddSub B m c dub p lhs rhs rs).1 := by
  unfold ctxAddSub
  by_cases h1 : lhs.isZero = true
  · simp only [h1, if_true]
    by_cases h2 : rs = 1
    · simp only [h2, if_true]; exact reprRound_ffin B m c p _ hr
    · simp only [h2, if_false]; exact reprRound_ffin B m c p _ (ffin_neg _ hr)
  · simp only [h1, if_false]
    by_cases h2 : rhs.isZero = true
    · simp only [h2, if_true]; exact reprRound_ffin B m c p _ hl
    · simp only [h2, if_false]
      by_cases h3 : lhs.exp = rhs.exp
      · simp only [h3, if_true]; exact reprRound_ffin B m c p _ (new_ffin B _ _)
      · simp only [h3, if_false]
        by_cases h4 : lhs.exp > rhs.exp
        · simp only [h4, if_true]; exact reprAddLargeSmall_ffin B m c dub p _ _ _
        · simp only [h4, if_false]; exact reprAddLargeSmall_ffin B m c dub p _ _ _

theorem reprDiv_ffin (B : Nat) (m : Mode) (p : Nat) (lhs rhs : Float.FRepr) (r : Rounded Float.FRepr)
    (h : reprDiv B m p lhs rhs = .ok r) : FFin r.1 := by
  unfold reprDiv at h
  split at h
  · cases h
  · split at h
    · cases h
    · simp only at h
      split at h
      · cases h; exact new_ffin B _ _
      · split at h <;> (cases h; exact new_ffin B _ _)

theorem powLoop_ffin (fixed : Bool) (B : Nat) (m : Mode) (c : Coarse) (q : Nat) (base : Float.FRepr)
    (bs : List Bool) (cur : Float.FRepr) (hc : FFin cur) : FFin (powLoop fixed B m c q base bs cur) := by
  induction bs generalizing cur with
  | nil => exact hc
  | cons b bs ih =>
    unfold powLoop
    apply ih
    cases b
    · unfold ctxSqr; exact reprRound_ffin B m c q _ (new_ffin B _ _)
    · unfold ctxMul; exact reprRound_ffin B m c q _ (new_ffin B _ _)

/-- results that exist fit: `Context::div` -/
theorem ctxDiv_ok_good (B : Nat) (hB : 2 ≤ B) (m : Mode) (c : Coarse) (dub dlb : Int → Nat)
    (hdub : DubSound B dub) (hdlb : DlbSound B dlb) (p : Nat) (hp : 1 ≤ p) (x y : Float.FRepr)
    (r : Rounded Float.FRepr) (h : ctxDiv B m c dub dlb p x y = .ok r) :
    FCanon B (ofFloatRepr r.1) ∧ FFin r.1 ∧ FitsP1 B p r.1 := by
  refine ⟨ctxDiv_fcanon B hB m c dub dlb p x y r h, ?_, ?_⟩
  · unfold ctxDiv at h; exact reprDiv_ffin B m p _ y r h
  · by_cases hy : y.signif = 0
    · exfalso
      unfold ctxDiv reprDiv at h
      have hp0 : p ≠ 0 := by omega
      simp only [hp0, hy, if_true, if_false] at h
      cases h
    · obtain ⟨r', h', hf⟩ := ctxDiv_fits B hB m c dub dlb hdub hdlb p hp x y hy
      rw [h'] at h; cases h; exact hf

theorem ctxInv_ok_good (B : Nat) (hB : 2 ≤ B) (m : Mode) (p : Nat) (hp : 1 ≤ p) (y : Float.FRepr)
    (r : Rounded Float.FRepr) (h : ctxInv B m p y = .ok r) :
    FCanon B (ofFloatRepr r.1) ∧ FFin r.1 ∧ FitsP1 B p r.1 := by
  refine ⟨ctxInv_fcanon B hB m p y r h, ?_, ?_⟩
  · unfold ctxInv at h; exact reprDiv_ffin B m p _ y r h
  · by_cases hy : y.signif = 0
    · exfalso
      unfold ctxInv reprDiv at h
      have hp0 : p ≠ 0 := by omega
      simp only [hp0, hy, if_true, if_false] at h
      cases h
    · obtain ⟨r', h', hf⟩ := ctxInv_fits B hB m p hp y hy
      rw [h'] at h; cases h; exact hf

theorem ctxSqrt_ok_good (B : Nat) (hB : 2 ≤ B) (m : Mode) (c : Coarse) (sr : Nat → Nat × Nat) (p : Nat) (hp : 1 ≤ p)
    (x : Float.FRepr) (r : Rounded Float.FRepr) (h : ctxSqrt B m c sr p x = .ok r) :
    FCanon B (ofFloatRepr r.1) ∧ FFin r.1 ∧ FitsP1 B p r.1 := by
  refine ⟨ctxSqrt_fcanon B hB m c sr p x r h, ?_, ?_⟩
  · unfold ctxSqrt at h
    split at h
    · cases h
    · split at h
      · cases h
      · cases h
        exact reprRound_ffin B m c p _ (new_ffin B _ _)
  · by_cases hs : 0 ≤ x.signif
    · obtain ⟨r', h', hf⟩ := ctxSqrt_fits B hB m c sr p hp x hs
      rw [h'] at h; cases h; exact hf
    · exfalso
      unfold ctxSqrt at h
      have hp0 : p ≠ 0 := by omega
      have hneg : x.signif < 0 := by omega
      simp only [hp0, hneg, if_true, if_false] at h
      cases h

theorem getElem?_mem' {α} {env : List α} {i : Nat} {a : α} (h : env[i]? = some a) : a ∈ env :=
  List.mem_of_getElem? h

/-- one instruction: the result (if there is one) is good -/
theorem fstep_good (k : FCfg) (hB : 2 ≤ k.B) (hdub : DubSound k.B k.dub) (hdlb : DlbSound k.B k.dlb)
    (env : List FReg) (henv : ∀ x ∈ env, FGood k.B x) (op : FOp) (hok : op.Ok) (r : FReg)
    (h : fstep k env op = some r) : FGood k.B r := by
  cases op with
  | fromParts s e =>
    simp only [fstep, Option.some.injEq] at h; subst h
    obtain ⟨hd, hc⟩ := fromParts_fits k.B hB s e
    exact ⟨hc, new_ffin k.B s e, Nat.le_succ_of_le hd⟩
  | fromFloat man e =>
    simp only [fstep, Option.some.injEq] at h; subst h
    obtain ⟨hd, hc⟩ := fromParts_fits k.B hB man e
    exact ⟨hc, new_ffin k.B man e, by show (Float.FRepr.new k.B man e).digits k.B ≤ digitsI k.B man + 1; omega⟩
  | convertInt n p =>
    simp only [fstep, Option.some.injEq] at h; subst h
    obtain ⟨hf, hc⟩ := convertInt_fits k.B hB k.m k.c p hok n
    exact ⟨hc, reprRound_ffin k.B k.m k.c p _ (new_ffin k.B n 0), hf⟩
  | withPrecision i p =>
    simp only [fstep] at h
    cases hi : env[i]? with
    | none => simp [hi] at h
    | some a =>
      simp only [hi, Option.map_some, Option.some.injEq] at h; subst h
      obtain ⟨hc, hfin, _⟩ := henv a (getElem?_mem' hi)
      exact ⟨reprRound_fcanon k.B hB k.m k.c p a.r hc, reprRound_ffin k.B k.m k.c p a.r hfin,
        Nat.le_succ_of_le (reprRound_digits_le k.B hB k.m k.c p hok a.r)⟩
  | neg i =>
    simp only [fstep] at h
    cases hi : env[i]? with
    | none => simp [hi] at h
    | some a =>
      simp only [hi, Option.map_some, Option.some.injEq] at h; subst h
      obtain ⟨hc, hfin, hfit⟩ := henv a (getElem?_mem' hi)
      refine ⟨fcanon_neg k.B a.r hc, ffin_neg a.r hfin, ?_⟩
      show a.r.neg.digits k.B ≤ a.p + 1
      rw [digits_neg]; exact hfit
  | clone i =>
    simp only [fstep] at h
    exact henv r (getElem?_mem' h)
  | add i j p =>
    simp only [fstep] at h
    cases hi : env[i]? <;> cases hj : env[j]? <;> simp only [hi, hj] at h <;> try cases h
    rename_i a b
    obtain ⟨hca, hfa, _⟩ := henv a (getElem?_mem' hi)
    obtain ⟨hcb, hfb, _⟩ := henv b (getElem?_mem' hj)
    exact ⟨ctxAddSub_fcanon k.B hB k.m k.c k.dub p a.r b.r 1 hca hcb, ctxAddSub_ffin k.B k.m k.c k.dub p a.r b.r 1 hfa hfb,
      (ctxAddSub_digits_le k.B hB k.m k.c k.dub p hok a.r b.r 1 (Or.inl rfl) hfa hfb).1⟩
  | sub i j p =>
    simp only [fstep] at h
    cases hi : env[i]? <;> cases hj : env[j]? <;> simp only [hi, hj] at h <;> try cases h
    rename_i a b
    obtain ⟨hca, hfa, _⟩ := henv a (getElem?_mem' hi)
    obtain ⟨hcb, hfb, _⟩ := henv b (getElem?_mem' hj)
    exact ⟨ctxAddSub_fcanon k.B hB k.m k.c k.dub p a.r b.r (-1) hca hcb,
      ctxAddSub_ffin k.B k.m k.c k.dub p a.r b.r (-1) hfa hfb,
      (ctxAddSub_digits_le k.B hB k.m k.c k.dub p hok a.r b.r (-1) (Or.inr rfl) hfa hfb).1⟩
  | mul i j p =>
    simp only [fstep] at h
    cases hi : env[i]? <;> cases hj : env[j]? <;> simp only [hi, hj] at h <;> try cases h
    rename_i a b
    exact ⟨ctxMul_fcanon false k.B hB k.m k.c p a.r b.r,
      by unfold ctxMul; exact reprRound_ffin k.B k.m k.c p _ (new_ffin k.B _ _),
      Nat.le_succ_of_le (ctxMul_digits_le false k.B hB k.m k.c p hok a.r b.r)⟩
  | opMul i j p =>
    simp only [fstep] at h
    cases hi : env[i]? <;> cases hj : env[j]? <;> simp only [hi, hj] at h <;> try cases h
    rename_i a b
    refine ⟨?_, ?_, ?_⟩
    · unfold Float.opMul; exact reprRound_fcanon k.B hB k.m k.c p _ (new_fcanon k.B hB _ _)
    · unfold Float.opMul; exact reprRound_ffin k.B k.m k.c p _ (new_ffin k.B _ _)
    · unfold Float.opMul; exact Nat.le_succ_of_le (reprRound_digits_le k.B hB k.m k.c p hok _)
  | sqr i p =>
    simp only [fstep] at h
    cases hi : env[i]? with
    | none => simp [hi] at h
    | some a =>
      simp only [hi, Option.map_some, Option.some.injEq] at h; subst h
      exact ⟨ctxSqr_fcanon false k.B hB k.m k.c p a.r,
        by unfold ctxSqr; exact reprRound_ffin k.B k.m k.c p _ (new_ffin k.B _ _),
        Nat.le_succ_of_le (ctxSqr_digits_le false k.B hB k.m k.c p hok a.r)⟩
  | cubic i p =>
    simp only [fstep] at h
    cases hi : env[i]? with
    | none => simp [hi] at h
    | some a =>
      simp only [hi, Option.map_some, Option.some.injEq] at h; subst h
      refine ⟨?_, ?_, Nat.le_succ_of_le (ctxCubic_digits_le false k.B hB k.m k.c p hok a.r)⟩
      · unfold ctxCubic; exact reprRound_fcanon k.B hB k.m k.c p _ (new_fcanon k.B hB _ _)
      · unfold ctxCubic; exact reprRound_ffin k.B k.m k.c p _ (new_ffin k.B _ _)
  | div i j p =>
    simp only [fstep] at h
    cases hi : env[i]? <;> cases hj : env[j]? <;> simp only [hi, hj] at h <;> try cases h
    rename_i a b
    cases hd : ctxDiv k.B k.m k.c k.dub k.dlb p a.r b.r with
    | error e => simp [hd, ofExc] at h
    | ok q =>
      simp only [hd, ofExc, Option.some.injEq] at h; subst h
      exact ctxDiv_ok_good k.B hB k.m k.c k.dub k.dlb hdub hdlb p hok a.r b.r q hd
  | inv i p =>
    simp only [fstep] at h
    cases hi : env[i]? with
    | none => simp [hi] at h
    | some a =>
      simp only [hi] at h
      cases hd : ctxInv k.B k.m p a.r with
      | error e => simp [hd, ofExc] at h
      | ok q =>
        simp only [hd, ofExc, Option.some.injEq] at h; subst h
        exact ctxInv_ok_good k.B hB k.m p hok a.r q hd
  | sqrt i p =>
    simp only [fstep] at h
    cases hi : env[i]? with
    | none => simp [hi] at h
    | some a =>
      simp only [hi] at h
      cases hd : ctxSqrt k.B k.m k.c k.sr p a.r with
      | error e => simp [hd, ofExc] at h
      | ok q =>
        simp only [hd, ofExc, Option.some.injEq] at h; subst h
        exact ctxSqrt_ok_good k.B hB k.m k.c k.sr p hok a.r q hd
  | powi i bs p =>
    simp only [fstep] at h
    cases hi : env[i]? with
    | none => simp [hi] at h
    | some a =>
      simp only [hi, Option.map_some, Option.some.injEq] at h; subst h
      obtain ⟨hc, hfin, _⟩ := henv a (getElem?_mem' hi)
      refine ⟨powiNonneg_fcanon false k.B hB k.m k.c p a.r hc bs, ?_, powiNonneg_fits false k.B hB k.m k.c p hok a.r bs⟩
      unfold powiNonneg
      exact reprRound_ffin k.B k.m k.c p _ (powLoop_ffin false k.B k.m k.c _ a.r bs a.r hfin)
  | powiNeg i n p =>
    simp only [fstep] at h
    cases hi : env[i]? with
    | none => simp [hi] at h
    | some a =>
      simp only [hi] at h
      cases hd : powiNeg false k.B k.m k.c p a.r n with
      | error e => simp [hd] at h
      | ok q =>
        simp only [hd, Option.some.injEq] at h; subst h
        refine ⟨powiNeg_fcanon false k.B hB k.m k.c p a.r n q hd, ?_, powiNeg_fits false k.B hB k.m k.c p hok a.r n q hd⟩
        unfold powiNeg at hd
        simp only at hd
        split at hd
        · cases hd
        · rename_i inv hinv
          cases hd
          exact reprRound_ffin k.B k.m k.c p _ (reprDiv_ffin k.B _ _ _ _ inv hinv)

theorem frun_good (k : FCfg) (hB : 2 ≤ k.B) (hdub : DubSound k.B k.dub) (hdlb : DlbSound k.B k.dlb)
    (ops : List FOp) (hok : ∀ op ∈ ops, op.Ok) (env : List FReg) (henv : ∀ x ∈ env, FGood k.B x) :
    ∀ x ∈ frun k ops env, FGood k.B x := by
  induction ops generalizing env with
  | nil => exact henv
  | cons op ops ih =>
    simp only [frun]
    cases hs : fstep k env op with
    | none => exact henv
    | some r =>
      simp only []
      apply ih (fun o ho => hok o (List.mem_cons_of_mem _ ho))
      intro x hx
      rcases List.mem_append.mp hx with h | h
      · exact henv x h
      · simp at h; rw [h]
        exact fstep_good k hB hdub hdlb env henv op (hok op (List.mem_cons_self ..)) r hs

end Dashu.Model
