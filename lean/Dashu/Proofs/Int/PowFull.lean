import Dashu.Model.Int.PowFull
import Dashu.Proofs.Int.PowBuf
import Dashu.Proofs.Int.PowCompose
/-
  The buffer-level `pow` never panics and returns exactly the `Repr` of the value-level model, hence
  `base ^ exp`.
-/
namespace Dashu.Model

theorem powWordBaseRepr_eq (W : Nat) (hW : 4 ≤ W) (base exp : Nat) (hlt : base < 2 ^ W) :
    powWordBaseRepr W base exp = .ok (ofNat W (powWordBase W base exp)) := by
  unfold powWordBaseRepr
  split
  · rfl
  · rename_i h
    have h3 : 2 < base := by
      rcases Nat.lt_or_ge 2 base with h' | h'
      · exact h'
      · exfalso; apply h
        rcases (by omega : base = 0 ∨ base = 1 ∨ base = 2) with e | e | e
        · exact Or.inl e
        · exact Or.inr (Or.inl e)
        · exact Or.inr (Or.inr (Or.inl e))
    have he : 2 * (maxExpInWord W base).1 ≤ exp := by
      apply Nat.le_of_not_lt; intro hc; apply h
      exact Or.inr (Or.inr (Or.inr (Or.inr hc)))
    obtain ⟨b, e1, e2⟩ := powWordBaseBuf_repr W hW base exp h3 hlt he
    rw [e1, bind_ok', e2]

theorem powDwordBaseRepr_eq (W : Nat) (hW : 4 ≤ W) (base exp : Nat) (hlt : base < 2 ^ (2 * W))
    (hexp : 2 ≤ exp) : powDwordBaseRepr W base exp = .ok (ofNat W (powDwordBase base exp)) := by
  obtain ⟨b, e1, e2⟩ := powDwordBaseBuf_repr W hW base exp hlt hexp
  unfold powDwordBaseRepr
  rw [e1, bind_ok', e2]

/-- **`TypedReprRef::pow` with real buffers** never panics and is the value-level `TRepr.pow` -/
theorem TRepr.powBuf_eq (W : Nat) (hW : 4 ≤ W) (a : TRepr) (exp : Nat) (ha : a.Canon W) :
    a.powBuf W exp = .ok (a.pow W exp) := by
  unfold TRepr.powBuf TRepr.pow
  split
  · rfl
  · split
    · rfl
    · split
      · rfl
      · cases a with
        | small d =>
          simp only
          split
          · rename_i hd
            exact powWordBaseRepr_eq W hW d exp hd
          · exact powDwordBaseRepr_eq W hW d exp ha (by omega)
        | large ws => rfl

theorem ubigPowFull_eq (W : Nat) (hW : 4 ≤ W) (a : TRepr) (exp : Nat) (ha : a.Canon W) :
    ubigPowFull W a exp = ubigPowKernels W a exp := by
  unfold ubigPowFull ubigPowKernels
  have hshr : ∀ s, (a.shr W s true).powBuf W exp = .ok ((a.shr W s true).pow W exp) :=
    fun s => TRepr.powBuf_eq W hW _ exp (TRepr.shr_spec W (by omega) a s true ha).2
  simp only [hshr, TRepr.powBuf_eq W hW a exp ha, bind_ok']

theorem ibigPowFull_eq (W : Nat) (hW : 4 ≤ W) (a : SRepr) (exp : Nat) (ha : a.WF W) :
    ibigPowFull W a exp = ibigPowKernels W a exp := by
  unfold ibigPowFull ibigPowKernels
  rw [ubigPowFull_eq W hW a.mag exp ha.1]

end Dashu.Model
