import Dashu.Proofs.Int.Cmp
import Dashu.Proofs.Float.Closing
/-
  Bridge between the float arithmetic model of C03 (`Dashu.Model.Float`, builder-float) and the
  comparison model of C05: every modelled producer returns at most `p + 1` significant digits
  (`Proofs/Float/Closing.lean`), which is exactly the hypothesis of `reprCmpSameBase_spec`.
-/
namespace Dashu.Model

/-- the C03 representation seen by the C05 comparison model (same two fields) -/
def ofFloatRepr (r : Dashu.Model.Float.FRepr) : FRepr := ⟨r.signif, r.exp⟩

/-- "fits precision `p` with one spare digit" — what every arithmetic result satisfies -/
def FitsP1 (B p : Nat) (r : Dashu.Model.Float.FRepr) : Prop := r.digits B ≤ p + 1

theorem FitsP1.bound {B p : Nat} (hB : 2 ≤ B) {r : Dashu.Model.Float.FRepr} (h : FitsP1 B p r) :
    (ofFloatRepr r).signif.natAbs < B ^ (p + 1) := by
  have h1 := Dashu.Model.Float.digitsI_abs_lt B hB r.signif
  have h2 : B ^ Dashu.Model.Float.digitsI B r.signif ≤ B ^ (p + 1) := Nat.pow_le_pow_right (by omega) h
  have : ((r.signif.natAbs : Nat) : Int) < ((B ^ (p + 1) : Nat) : Int) := by
    rw [Int.natCast_natAbs]
    exact lt_of_lt_of_le h1 (by exact_mod_cast h2)
  exact_mod_cast this

/-- `FitsP1` at a precision below the clamp of case 4 (`isize::MAX`) gives the memory bound for free -/
theorem FitsP1.mem_of_le {B p : Nat} {r : Dashu.Model.Float.FRepr} (hp : p ≤ cmpIsizeMax) (h : FitsP1 B p r) :
    FitsP1 B cmpIsizeMax r := by
  unfold FitsP1 at *; omega

/-- comparison of two arithmetic results of precisions `pa`, `pb` is the order of their values.
    `hma`/`hmb` ("at most 2^63 digits") are the Nat/usize gap of the model: since /repo ee43486 the code clamps the
    precisions to `isize::MAX` before the shortcut; they follow from `ha`/`hb` whenever the precision is `≤ isize::MAX`
    (`FitsP1.mem_of_le`), and a longer significand does not fit a 64-bit address space. -/
theorem reprCmp_of_fits (B : Nat) (hB : 2 ≤ B) (digitsUb : Int → Nat)
    (hub : ∀ s : Int, s.natAbs < B ^ digitsUb s) (a b : Dashu.Model.Float.FRepr) (pa pb : Nat)
    (ha : FitsP1 B pa a) (hb : FitsP1 B pb b)
    (hma : FitsP1 B cmpIsizeMax a) (hmb : FitsP1 B cmpIsizeMax b) :
    reprCmpSameBase B digitsUb (ofFloatRepr a) (ofFloatRepr b) (some (pa, pb))
      = specFCmp B (ofFloatRepr a) (ofFloatRepr b) := by
  apply reprCmpSameBase_spec B hB digitsUb hub
  intro lp rp h
  cases h
  exact ⟨fun _ => fits_min B _ _ (ha.bound hB) (hma.bound hB), fun _ => fits_min B _ _ (hb.bound hB) (hmb.bound hB)⟩


-- ================================================================== producers return the canonical representation

open Dashu.Model.Float in
section
theorem new_fcanon (B : Nat) (hB : 2 ≤ B) (s e : Int) : FCanon B (ofFloatRepr (Float.FRepr.new B s e)) := by
  have hn := Float.FRepr.new_normalized B hB s e
  unfold Float.Normalized at hn
  unfold Float.FRepr.new at hn ⊢
  by_cases hs : s = 0
  · simp [hs, ofFloatRepr, FCanon]
  · simp only [hs, if_false, ofFloatRepr, FCanon] at hn ⊢
    have hmod : (Float.stripAux B (s.natAbs.log2 + 1) s e).1 % (B : Int) ≠ 0 := by
      rcases hn with h | h
      · exfalso
        -- a stripped non-zero significand is non-zero: s = n * B^j
        obtain ⟨j, hj⟩ := Float.stripAux_int B (s.natAbs.log2 + 1) s e
        rw [h, Int.zero_mul] at hj; exact hs hj
      · exact h
    generalize (Float.stripAux B (s.natAbs.log2 + 1) s e).1 = n at *
    refine ⟨fun h0 => by rw [h0] at hmod; simp at hmod, fun _ => ?_⟩
    intro hz
    apply hmod
    have : (B : Int) ∣ n := by
      rw [← Int.natAbs_dvd_natAbs]; simpa using Nat.dvd_of_mod_eq_zero hz
    exact Int.emod_eq_zero_of_dvd this

theorem reprRound_fcanon (B : Nat) (hB : 2 ≤ B) (m : Mode) (c : Coarse) (p : Nat) (r : Float.FRepr)
    (hr : FCanon B (ofFloatRepr r)) : FCanon B (ofFloatRepr (reprRound B m c p r).1) := by
  unfold reprRound
  split
  · exact hr
  · simp only
    split
    · exact new_fcanon B hB _ _
    · exact hr

theorem ctxMul_fcanon (fixed : Bool) (B : Nat) (hB : 2 ≤ B) (m : Mode) (c : Coarse) (p : Nat) (a b : Float.FRepr) :
    FCanon B (ofFloatRepr (ctxMul fixed B m c p a b).1) := by
  unfold ctxMul
  exact reprRound_fcanon B hB m c p _ (new_fcanon B hB _ _)

theorem roundSum_stage (B : Nat) (m : Mode) (c : Coarse) (t : Int × Int × (Int × Nat)) :
    ∃ s' e', (if t.2.2.1 = 0 then ((Float.FRepr.new B t.1 t.2.1, none) : Rounded Float.FRepr)
      else (Float.FRepr.new B (t.1 + rInt (roundFract B m c t.1 t.2.2.1 t.2.2.2)) t.2.1,
        some (roundFract B m c t.1 t.2.2.1 t.2.2.2))).1 = Float.FRepr.new B s' e' := by
  split <;> exact ⟨_, _, rfl⟩

theorem reprRoundSum_shape (B : Nat) (m : Mode) (c : Coarse) (p : Nat) (s e : Int) (low : Int × Nat)
    (isSub : Bool) : ∃ s' e', (reprRoundSum B m c p s e low isSub).1 = Float.FRepr.new B s' e' := by
  unfold reprRoundSum
  by_cases hp : p = 0
  · simp only [hp, if_true]; exact ⟨_, _, rfl⟩
  · simp only [hp, if_false]
    exact roundSum_stage B m c _

theorem reprRoundSum_fcanon (B : Nat) (hB : 2 ≤ B) (m : Mode) (c : Coarse) (p : Nat) (s e : Int) (low : Int × Nat)
    (isSub : Bool) : FCanon B (ofFloatRepr (reprRoundSum B m c p s e low isSub).1) := by
  obtain ⟨s', e', h⟩ := reprRoundSum_shape B m c p s e low isSub
  rw [h]; exact new_fcanon B hB _ _

theorem fcanon_neg (B : Nat) (r : Float.FRepr) (h : FCanon B (ofFloatRepr r)) : FCanon B (ofFloatRepr r.neg) := by
  obtain ⟨sg, ex⟩ := r
  obtain ⟨h1, h2⟩ := h
  constructor
  · intro h0
    have : sg = 0 := by
      have h0' : -sg = 0 := h0
      omega
    exact h1 this
  · intro hn
    have hn' : sg ≠ 0 := by
      intro h; apply hn; show -sg = 0; omega
    show (-sg).natAbs % B ≠ 0
    rw [Int.natAbs_neg]; exact h2 hn'

theorem reprAddLargeSmall_shape (B : Nat) (m : Mode) (c : Coarse) (dub : Int → Nat) (p : Nat)
    (lhs rhs : Float.FRepr) (rs : Int) :
    ∃ s e l b, reprAddLargeSmall B m c dub p lhs rhs rs = reprRoundSum B m c p s e l b := by
  unfold reprAddLargeSmall
  simp only []
  split_ifs <;> exact ⟨_, _, _, _, rfl⟩

theorem reprAddLargeSmall_fcanon (B : Nat) (hB : 2 ≤ B) (m : Mode) (c : Coarse) (dub : Int → Nat) (p : Nat)
    (lhs rhs : Float.FRepr) (rs : Int) :
    FCanon B (ofFloatRepr (reprAddLargeSmall B m c dub p lhs rhs rs).1) := by
  obtain ⟨s, e, l, b, h⟩ := reprAddLargeSmall_shape B m c dub p lhs rhs rs
  rw [h]; exact reprRoundSum_fcanon B hB m c p _ _ _ _

theorem ctxAddSub_fcanon (B : Nat) (hB : 2 ≤ B) (m : Mode) (c : Coarse) (dub : Int → Nat) (p : Nat)
    (lhs rhs : Float.FRepr) (rs : Int) (hl : FCanon B (ofFloatRepr lhs)) (hr : FCanon B (ofFloatRepr rhs)) :
    FCanon B (ofFloatRepr (ctxAddSub B m c dub p lhs rhs rs).1) := by
  unfold ctxAddSub
  by_cases h1 : lhs.isZero = true
  · simp only [h1, if_true]
    by_cases h2 : rs = 1
    · simp only [h2, if_true]; exact reprRound_fcanon B hB m c p _ hr
    · simp only [h2, if_false]; exact reprRound_fcanon B hB m c p _ (fcanon_neg B _ hr)
  · simp only [h1, if_false]
    by_cases h2 : rhs.isZero = true
    · simp only [h2, if_true]; exact reprRound_fcanon B hB m c p _ hl
    · simp only [h2, if_false]
      by_cases h3 : lhs.exp = rhs.exp
      · simp only [h3, if_true]; exact reprRound_fcanon B hB m c p _ (new_fcanon B hB _ _)
      · simp only [h3, if_false]
        by_cases h4 : lhs.exp > rhs.exp
        · simp only [h4, if_true]; exact reprAddLargeSmall_fcanon B hB m c dub p _ _ _
        · simp only [h4, if_false]; exact reprAddLargeSmall_fcanon B hB m c dub p _ _ _

theorem reprDiv_fcanon (B : Nat) (hB : 2 ≤ B) (m : Mode) (p : Nat) (lhs rhs : Float.FRepr) (r : Rounded Float.FRepr)
    (h : reprDiv B m p lhs rhs = .ok r) : FCanon B (ofFloatRepr r.1) := by
  unfold reprDiv at h
  split at h
  · cases h
  · split at h
    · cases h
    · simp only at h
      split at h
      · cases h; exact new_fcanon B hB _ _
      · split at h <;> (cases h; exact new_fcanon B hB _ _)

end

end Dashu.Model
