import Dashu.Proofs.Int.Cmp
import Dashu.Proofs.Float.Closing
/-
  Bridge between the float arithmetic model of C03 (`Dashu.Model.Float`, builder-float) and the
  comparison model of C05: every modelled producer returns at most `p + 1` significant digits
  (`Proofs/Float/Closing.lean`), which is exactly the hypothesis of `reprCmpSameBase_spec`.
-/
namespace Dashu.Model

/-- the C03 representation seen by the C05 comparison model (same two fields) -/
def ofFloatRepr (r : Dashu.Model.Float.FRepr) : FRepr := ⟨r.signif, r.exp⟩

/-- "fits precision `p` with one spare digit" — what every arithmetic result satisfies -/
def FitsP1 (B p : Nat) (r : Dashu.Model.Float.FRepr) : Prop := r.digits B ≤ p + 1

theorem FitsP1.bound {B p : Nat} (hB : 2 ≤ B) {r : Dashu.Model.Float.FRepr} (h : FitsP1 B p r) :
    (ofFloatRepr r).signif.natAbs < B ^ (p + 1) := by
  have h1 := Dashu.Model.Float.digitsI_abs_lt B hB r.signif
  have h2 : B ^ Dashu.Model.Float.digitsI B r.signif ≤ B ^ (p + 1) := Nat.pow_le_pow_right (by omega) h
  have : ((r.signif.natAbs : Nat) : Int) < ((B ^ (p + 1) : Nat) : Int) := by
    rw [Int.natCast_natAbs]
    exact lt_of_lt_of_le h1 (by exact_mod_cast h2)
  exact_mod_cast this

/-- comparison of two arithmetic results of precisions `pa`, `pb` is the order of their values -/
theorem reprCmp_of_fits (B : Nat) (hB : 2 ≤ B) (digitsUb : Int → Nat)
    (hub : ∀ s : Int, s.natAbs < B ^ digitsUb s) (a b : Dashu.Model.Float.FRepr) (pa pb : Nat)
    (ha : FitsP1 B pa a) (hb : FitsP1 B pb b) :
    reprCmpSameBase B digitsUb (ofFloatRepr a) (ofFloatRepr b) (some (pa, pb))
      = specFCmp B (ofFloatRepr a) (ofFloatRepr b) := by
  apply reprCmpSameBase_spec B hB digitsUb hub
  intro lp rp h
  cases h
  exact ⟨fun _ => ha.bound hB, fun _ => hb.bound hB⟩

end Dashu.Model
