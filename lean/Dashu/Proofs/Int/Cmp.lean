import Dashu.Model.Int.Cmp
import Dashu.Proofs.Int.Bits
/-
  C05, integer part: `cmp` of canonical values is the order of the values; the canonical form of a
  value is unique, hence `==`, `Hash` and `cmp == Equal` all coincide with equality of values.
-/
namespace Dashu.Model

theorem cmp_of_lt {a b : Nat} (h : a < b) : compare a b = .lt := Nat.compare_eq_lt.mpr h
theorem cmp_of_eq {a b : Nat} (h : a = b) : compare a b = .eq := Nat.compare_eq_eq.mpr h
theorem cmp_of_gt {a b : Nat} (h : b < a) : compare a b = .gt := Nat.compare_eq_gt.mpr h

theorem cmpSameLen_spec (W : Nat) (a b : List Nat) (ha : IsWords W a) (hb : IsWords W b)
    (hl : a.length = b.length) : cmpSameLen a b = compare (val W a) (val W b) := by
  induction a generalizing b with
  | nil =>
    cases b with
    | nil => simp [cmpSameLen]
    | cons y ys => simp at hl
  | cons x xs ih =>
    cases b with
    | nil => simp at hl
    | cons y ys =>
      have hx := ha.head
      have hy := hb.head
      have hp : 0 < 2 ^ W := Nat.two_pow_pos W
      simp only [cmpSameLen, val_cons]
      rw [ih ys ha.tail hb.tail (by simpa using hl)]
      rcases Nat.lt_trichotomy (val W xs) (val W ys) with h | h | h
      · rw [cmp_of_lt h]
        have : x + 2 ^ W * val W xs < y + 2 ^ W * val W ys := by
          have : 2 ^ W * (val W xs + 1) ≤ 2 ^ W * val W ys := Nat.mul_le_mul_left _ h
          rw [Nat.mul_add] at this; omega
        rw [cmp_of_lt this]; rfl
      · rw [cmp_of_eq h, h]
        rcases Nat.lt_trichotomy x y with h' | h' | h'
        · rw [cmp_of_lt h', cmp_of_lt (by omega)]; rfl
        · rw [cmp_of_eq h', cmp_of_eq (by omega)]; rfl
        · rw [cmp_of_gt h', cmp_of_gt (by omega)]; rfl
      · rw [cmp_of_gt h]
        have : y + 2 ^ W * val W ys < x + 2 ^ W * val W xs := by
          have : 2 ^ W * (val W ys + 1) ≤ 2 ^ W * val W xs := Nat.mul_le_mul_left _ h
          rw [Nat.mul_add] at this; omega
        rw [cmp_of_gt this]; rfl

theorem val_lt_of_shorter (W : Nat) (a b : List Nat) (ha : IsWords W a) (hbne : b ≠ [])
    (hbl : b.getLast? ≠ some 0) (hl : a.length < b.length) : val W a < val W b := by
  have h1 := val_lt W a ha
  have h2 := val_ge_of_getLast W b hbne hbl
  have : 2 ^ (W * a.length) ≤ 2 ^ (W * (b.length - 1)) :=
    Nat.pow_le_pow_right (by omega) (Nat.mul_le_mul_left _ (by omega))
  omega

/-- `Ord for TypedReprRef` on canonical values is the order of the values -/
theorem TRepr.cmp_spec (W : Nat) (a b : TRepr) (ha : a.Canon W) (hb : b.Canon W) :
    a.cmp b = compare (a.value W) (b.value W) := by
  cases a with
  | small x =>
    cases b with
    | small y => rfl
    | large vs =>
      have hx : x < 2 ^ (2 * W) := ha
      have := hb.large_ge
      simp only [TRepr.cmp, TRepr.value_small, TRepr.value_large]
      rw [cmp_of_lt (by omega)]
  | large ws =>
    cases b with
    | small y =>
      have hy : y < 2 ^ (2 * W) := hb
      have := ha.large_ge
      simp only [TRepr.cmp, TRepr.value_small, TRepr.value_large]
      rw [cmp_of_gt (by omega)]
    | large vs =>
      obtain ⟨h3a, hwa, hla⟩ := ha
      obtain ⟨h3b, hwb, hlb⟩ := hb
      have hane : ws ≠ [] := by intro e; subst e; simp at h3a
      have hbne : vs ≠ [] := by intro e; subst e; simp at h3b
      simp only [TRepr.cmp, cmpInPlace, TRepr.value_large]
      rcases Nat.lt_trichotomy ws.length vs.length with h | h | h
      · rw [cmp_of_lt h, cmp_of_lt (val_lt_of_shorter W ws vs hwa hbne hlb h)]; rfl
      · rw [cmp_of_eq h, cmpSameLen_spec W ws vs hwa hwb h]; rfl
      · rw [cmp_of_gt h, cmp_of_gt (val_lt_of_shorter W vs ws hwb hane hla h)]; rfl

theorem int_cmp_natCast (x y : Nat) : compare (x : Int) (y : Int) = compare x y := by
  rcases Nat.lt_trichotomy x y with h | h | h
  · rw [cmp_of_lt h, Int.compare_eq_lt]; omega
  · rw [cmp_of_eq h, Int.compare_eq_eq]; omega
  · rw [cmp_of_gt h, Int.compare_eq_gt]; omega

theorem int_cmp_neg_natCast (x y : Nat) : compare (-(x : Int)) (-(y : Int)) = compare y x := by
  rcases Nat.lt_trichotomy y x with h | h | h
  · rw [cmp_of_lt h, Int.compare_eq_lt]; omega
  · rw [cmp_of_eq h, Int.compare_eq_eq]; omega
  · rw [cmp_of_gt h, Int.compare_eq_gt]; omega

/-- `Ord for IBig` on canonical values is the order of the values -/
theorem SRepr.cmp_spec (W : Nat) (a b : SRepr) (ha : SCanon W a) (hb : SCanon W b) :
    a.cmp b = compare (a.value W) (b.value W) := by
  obtain ⟨an, am⟩ := a
  obtain ⟨bn, bm⟩ := b
  obtain ⟨hca, hza⟩ := ha
  obtain ⟨hcb, hzb⟩ := hb
  cases an <;> cases bn <;> simp only [SRepr.cmp, SRepr.value_mk_false, SRepr.value_mk_true]
  · rw [TRepr.cmp_spec W am bm hca hcb, int_cmp_natCast]
  · have : bm.value W ≠ 0 := hzb rfl
    symm; rw [Int.compare_eq_gt]; omega
  · have : am.value W ≠ 0 := hza rfl
    symm; rw [Int.compare_eq_lt]; omega
  · rw [TRepr.cmp_spec W bm am hcb hca, int_cmp_neg_natCast]

-- ================================================================== uniqueness of the canonical form

theorem words_unique (W : Nat) (a b : List Nat) (ha : IsWords W a) (hb : IsWords W b)
    (hla : a.getLast? ≠ some 0) (hlb : b.getLast? ≠ some 0) (hv : val W a = val W b) : a = b := by
  induction a generalizing b with
  | nil =>
    cases b with
    | nil => rfl
    | cons y ys =>
      have := val_ge_of_getLast W (y :: ys) (by simp) hlb
      have hp := Nat.two_pow_pos (W * ((y :: ys).length - 1))
      simp only [val_nil] at hv; omega
  | cons x xs ih =>
    cases b with
    | nil =>
      have := val_ge_of_getLast W (x :: xs) (by simp) hla
      have hp := Nat.two_pow_pos (W * ((x :: xs).length - 1))
      simp only [val_nil] at hv; omega
    | cons y ys =>
      have hx := ha.head
      have hy := hb.head
      have hp : 0 < 2 ^ W := Nat.two_pow_pos W
      simp only [val_cons] at hv
      have hxy : x = y := by
        have h1 : (x + 2 ^ W * val W xs) % 2 ^ W = x := by
          rw [Nat.add_mul_mod_self_left]; exact Nat.mod_eq_of_lt hx
        have h2 : (y + 2 ^ W * val W ys) % 2 ^ W = y := by
          rw [Nat.add_mul_mod_self_left]; exact Nat.mod_eq_of_lt hy
        rw [← h1, ← h2, hv]
      subst hxy
      have hvv : val W xs = val W ys := by
        have : 2 ^ W * val W xs = 2 ^ W * val W ys := by omega
        exact Nat.eq_of_mul_eq_mul_left hp this
      have tl : ∀ (z : Nat) (zs : List Nat), (z :: zs).getLast? ≠ some 0 → zs.getLast? ≠ some 0 := by
        intro z zs h
        cases zs with
        | nil => simp
        | cons u us => rwa [List.getLast?_cons_cons] at h
      rw [ih ys ha.tail hb.tail (tl _ _ hla) (tl _ _ hlb) hvv]

/-- a value has exactly one canonical representation -/
theorem TRepr.canon_unique (W : Nat) (a b : TRepr) (ha : a.Canon W) (hb : b.Canon W)
    (hv : a.value W = b.value W) : a = b := by
  cases a with
  | small x =>
    cases b with
    | small y => simpa using hv
    | large vs =>
      have hx : x < 2 ^ (2 * W) := ha
      have := hb.large_ge
      simp only [TRepr.value_small, TRepr.value_large] at hv; omega
  | large ws =>
    cases b with
    | small y =>
      have hy : y < 2 ^ (2 * W) := hb
      have := ha.large_ge
      simp only [TRepr.value_small, TRepr.value_large] at hv; omega
    | large vs =>
      rw [words_unique W ws vs ha.2.1 hb.2.1 ha.2.2 hb.2.2 hv]

theorem SRepr.canon_unique (W : Nat) (a b : SRepr) (ha : SCanon W a) (hb : SCanon W b)
    (hv : a.value W = b.value W) : a = b := by
  obtain ⟨an, am⟩ := a
  obtain ⟨bn, bm⟩ := b
  obtain ⟨hca, hza⟩ := ha
  obtain ⟨hcb, hzb⟩ := hb
  cases an <;> cases bn <;> simp only [SRepr.value_mk_false, SRepr.value_mk_true] at hv
  · rw [TRepr.canon_unique W am bm hca hcb (by omega)]
  · have : bm.value W ≠ 0 := hzb rfl
    omega
  · have : am.value W ≠ 0 := hza rfl
    omega
  · rw [TRepr.canon_unique W am bm hca hcb (by omega)]

/-- `as_sign_slice` words carry the value -/
theorem val_words (W : Nat) (m : TRepr) : val W (m.words W) = m.value W := by
  cases m with
  | small d =>
    simp only [TRepr.words, TRepr.value_small]
    split
    · rename_i h; subst h; rfl
    · split
      · simp
      · exact val_dword W d
  | large ws => rfl

/-- `==` (slice comparison of `as_sign_slice`) is equality of values, for canonical operands -/
theorem SRepr.beq_iff (W : Nat) (a b : SRepr) (ha : SCanon W a) (hb : SCanon W b) :
    a.beq W b = true ↔ a.value W = b.value W := by
  constructor
  · intro h
    simp only [SRepr.beq, Bool.and_eq_true, beq_iff_eq] at h
    obtain ⟨hn, hw⟩ := h
    have hv : a.mag.value W = b.mag.value W := by rw [← val_words, ← val_words, hw]
    unfold SRepr.value; rw [hn, hv]
  · intro h
    rw [SRepr.canon_unique W a b ha hb h]
    simp [SRepr.beq]

/-- equal values feed the same sequence to the hasher — and only equal values do -/
theorem SRepr.hashFeed_iff (W : Nat) (a b : SRepr) (ha : SCanon W a) (hb : SCanon W b) :
    a.hashFeed W = b.hashFeed W ↔ a.value W = b.value W := by
  constructor
  · intro h
    simp only [SRepr.hashFeed, HashFeed.mk.injEq] at h
    obtain ⟨hn, _, hw⟩ := h
    have hv : a.mag.value W = b.mag.value W := by rw [← val_words, ← val_words, hw]
    unfold SRepr.value; rw [hn, hv]
  · intro h
    rw [SRepr.canon_unique W a b ha hb h]

theorem SRepr.cmp_eq_iff (W : Nat) (a b : SRepr) (ha : SCanon W a) (hb : SCanon W b) :
    a.cmp b = .eq ↔ a.beq W b = true := by
  rw [SRepr.cmp_spec W a b ha hb, SRepr.beq_iff W a b ha hb, Int.compare_eq_eq]


-- ================================================================== rationals (rational/src/cmp.rs)

theorem bitLenNat_ge {v k : Nat} (h : 2 ^ k ≤ v) : k + 1 ≤ bitLenNat v := by
  have h1 := (bitLenNat_spec v).1
  have : 2 ^ k < 2 ^ bitLenNat v := Nat.lt_of_le_of_lt h h1
  have := (Nat.pow_lt_pow_iff_right (by omega : 1 < 2)).mp this
  omega

/-- bit length of a product of positive numbers -/
theorem bitLen_mul_bounds (x y : Nat) (hx : 0 < x) (hy : 0 < y) :
    bitLenNat x + bitLenNat y ≤ bitLenNat (x * y) + 1 ∧ bitLenNat (x * y) ≤ bitLenNat x + bitLenNat y := by
  have ⟨hx1, hx2⟩ := bitLenNat_spec x
  have ⟨hy1, hy2⟩ := bitLenNat_spec y
  have hx2 := hx2 (by omega)
  have hy2 := hy2 (by omega)
  have hbx : 1 ≤ bitLenNat x := bitLenNat_ge (k := 0) (by rw [Nat.pow_zero]; omega)
  have hby : 1 ≤ bitLenNat y := bitLenNat_ge (k := 0) (by rw [Nat.pow_zero]; omega)
  constructor
  · have : 2 ^ (bitLenNat x - 1 + (bitLenNat y - 1)) ≤ x * y := by
      rw [Nat.pow_add]; exact Nat.mul_le_mul hx2 hy2
    have := bitLenNat_ge this
    omega
  · apply bitLenNat_le
    rw [Nat.pow_add]
    exact Nat.mul_lt_mul_of_lt_of_le hx1 (Nat.le_of_lt hy1) (by omega)

/-- the bit-length filter of `repr_cmp` step 3: a gap of more than one in
    `bits(num) - bits(den)` decides the order of the absolute values -/
theorem bits_gap_lt (n1 d1 n2 d2 : Nat) (hn1 : 0 < n1) (hd1 : 0 < d1) (hn2 : 0 < n2) (hd2 : 0 < d2)
    (h : (bitLenNat n1 : Int) - bitLenNat d1 > (bitLenNat n2 : Int) - bitLenNat d2 + 1) :
    n2 * d1 < n1 * d2 := by
  have ⟨_, a2⟩ := bitLenNat_spec n1
  have ⟨_, b2⟩ := bitLenNat_spec d2
  have ⟨c1, _⟩ := bitLenNat_spec n2
  have ⟨e1, _⟩ := bitLenNat_spec d1
  have a2 := a2 (by omega)
  have b2 := b2 (by omega)
  have hb1 : 1 ≤ bitLenNat n1 := bitLenNat_ge (k := 0) (by rw [Nat.pow_zero]; omega)
  have hb2 : 1 ≤ bitLenNat d2 := bitLenNat_ge (k := 0) (by rw [Nat.pow_zero]; omega)
  have lo : 2 ^ (bitLenNat n1 - 1 + (bitLenNat d2 - 1)) ≤ n1 * d2 := by
    rw [Nat.pow_add]; exact Nat.mul_le_mul a2 b2
  have hi : n2 * d1 < 2 ^ (bitLenNat n2 + bitLenNat d1) := by
    rw [Nat.pow_add]; exact Nat.mul_lt_mul_of_lt_of_le c1 (Nat.le_of_lt e1) (by omega)
  have : 2 ^ (bitLenNat n2 + bitLenNat d1) ≤ 2 ^ (bitLenNat n1 - 1 + (bitLenNat d2 - 1)) :=
    Nat.pow_le_pow_right (by omega) (by omega)
  omega

theorem int_cmp_of_lt {a b : Int} (h : a < b) : compare a b = .lt := Int.compare_eq_lt.mpr h
theorem int_cmp_of_gt {a b : Int} (h : b < a) : compare a b = .gt := Int.compare_eq_gt.mpr h
theorem int_cmp_of_eq {a b : Int} (h : a = b) : compare a b = .eq := Int.compare_eq_eq.mpr h

/-- `repr_cmp::<false>` (Relaxed and RBig `cmp`) is comparison by cross multiplication, i.e. the order
    of the values `num/den`, for any (not necessarily reduced) fractions with positive denominators -/
theorem reprCmp_spec (a b : QRepr) (ha : 0 < a.den) (hb : 0 < b.den) :
    reprCmp a b = specQCmp a b := by
  obtain ⟨an, ad⟩ := a
  obtain ⟨bn, bd⟩ := b
  simp only at ha hb
  have hadI : (0 : Int) < (ad : Int) := by exact_mod_cast ha
  have hbdI : (0 : Int) < (bd : Int) := by exact_mod_cast hb
  unfold reprCmp specQCmp
  simp only
  by_cases h1 : an < 0 <;> by_cases h2 : bn < 0 <;>
    simp only [h1, h2, decide_true, decide_false, Bool.not_true, Bool.not_false, Bool.and_true,
      Bool.and_false, Bool.true_and, Bool.false_and, Bool.false_eq_true, if_true, if_false]
  -- both negative
  · have hne1 : an ≠ 0 := by omega
    have hne2 : bn ≠ 0 := by omega
    split
    · rename_i h; obtain ⟨rfl, rfl⟩ := h; simp
    · simp only [hne1, hne2, false_and, if_false]
      have hx : 0 < an.natAbs := by omega
      have hy : 0 < bn.natAbs := by omega
      split
      · rename_i hg
        have := bits_gap_lt an.natAbs ad bn.natAbs bd hx ha hy hb hg
        have e1 : an * (bd : Int) = -((an.natAbs * bd : Nat) : Int) := by
          push_cast; rw [abs_of_neg h1]; ring
        have e2 : bn * (ad : Int) = -((bn.natAbs * ad : Nat) : Int) := by
          push_cast; rw [abs_of_neg h2]; ring
        rw [e1, e2]; symm; apply int_cmp_of_lt; omega
      · split
        · rename_i hg1 hg2; omega
        · rfl
  -- a negative, b non-negative
  · symm; apply int_cmp_of_lt
    have : an * (bd : Int) < 0 := Int.mul_neg_of_neg_of_pos h1 hbdI
    have : 0 ≤ bn * (ad : Int) := Int.mul_nonneg (by omega) (by omega)
    omega
  -- a non-negative, b negative
  · symm; apply int_cmp_of_gt
    have : bn * (ad : Int) < 0 := Int.mul_neg_of_neg_of_pos h2 hadI
    have : 0 ≤ an * (bd : Int) := Int.mul_nonneg (by omega) (by omega)
    omega
  -- both non-negative
  · split
    · rename_i h; obtain ⟨rfl, rfl⟩ := h; simp
    · split
      · rename_i h; obtain ⟨rfl, rfl⟩ := h; simp
      · split
        · rename_i h0 h; subst h
          have hbn : 0 < bn := by omega
          symm; apply int_cmp_of_lt
          have := Int.mul_pos hbn hadI
          simpa using this
        · split
          · rename_i h0 h; subst h
            have han : 0 < an := by omega
            symm; apply int_cmp_of_gt
            have := Int.mul_pos han hbdI
            simpa using this
          · rename_i hz1 hz2
            have hx : 0 < an.natAbs := by omega
            have hy : 0 < bn.natAbs := by omega
            split
            · rename_i hg
              have := bits_gap_lt an.natAbs ad bn.natAbs bd hx ha hy hb hg
              have e1 : an * (bd : Int) = ((an.natAbs * bd : Nat) : Int) := by
                push_cast; rw [abs_of_nonneg (by omega)]
              have e2 : bn * (ad : Int) = ((bn.natAbs * ad : Nat) : Int) := by
                push_cast; rw [abs_of_nonneg (by omega)]
              rw [e1, e2]; symm; apply int_cmp_of_gt; omega
            · split
              · rename_i hg1 hg2; omega
              · rfl

/-- `repr_eq::<false>` (Relaxed `==`) is equality of the values -/
theorem reprEq_spec (a b : QRepr) (ha : 0 < a.den) (hb : 0 < b.den) :
    reprEq a b = specQEq a b := by
  obtain ⟨an, ad⟩ := a
  obtain ⟨bn, bd⟩ := b
  simp only at ha hb
  have hadI : (0 : Int) < (ad : Int) := by exact_mod_cast ha
  have hbdI : (0 : Int) < (bd : Int) := by exact_mod_cast hb
  unfold reprEq specQEq
  simp only
  -- sign of the cross products
  have sgn1 : an * (bd : Int) < 0 ↔ an < 0 := by
    constructor
    · intro h; by_contra hc
      have : 0 ≤ an * (bd : Int) := Int.mul_nonneg (by omega) (by omega)
      omega
    · intro h; exact Int.mul_neg_of_neg_of_pos h hbdI
  have sgn2 : bn * (ad : Int) < 0 ↔ bn < 0 := by
    constructor
    · intro h; by_contra hc
      have : 0 ≤ bn * (ad : Int) := Int.mul_nonneg (by omega) (by omega)
      omega
    · intro h; exact Int.mul_neg_of_neg_of_pos h hadI
  split
  · rename_i hs
    -- different signs: the cross products differ
    symm
    rw [beq_eq_false_iff_ne]
    intro he
    have : (an < 0) ↔ (bn < 0) := by rw [← sgn1, ← sgn2, he]
    simp [this] at hs
  · rename_i hs
    have hsame : (an < 0) ↔ (bn < 0) := by
      by_cases h1 : an < 0 <;> by_cases h2 : bn < 0
      · simp [h1, h2]
      · simp [h1, h2] at hs
      · simp [h1, h2] at hs
      · simp [h1, h2]
    split
    · rename_i h0; subst h0
      simp only [Int.zero_mul]
      by_cases hb0 : bn = 0
      · subst hb0; simp
      · have : bn * (ad : Int) ≠ 0 := Int.mul_ne_zero hb0 (by omega)
        simp only [hb0, decide_false]
        symm; rw [beq_eq_false_iff_ne]; exact fun h => this h.symm
    · rename_i h0
      -- equality of the cross products as naturals
      have key : (an * (bd : Int) = bn * (ad : Int)) ↔ an.natAbs * bd = bn.natAbs * ad := by
        constructor
        · intro h
          have := congrArg Int.natAbs h
          simpa [Int.natAbs_mul] using this
        · intro h
          have h' : (an * (bd : Int)).natAbs = (bn * (ad : Int)).natAbs := by
            simpa [Int.natAbs_mul] using h
          rcases Int.natAbs_eq_natAbs_iff.mp h' with e | e
          · exact e
          · -- opposite signs are impossible
            by_cases h1 : an < 0
            · have : bn * (ad : Int) < 0 := sgn2.mpr (hsame.mp h1)
              have : an * (bd : Int) < 0 := sgn1.mpr h1
              omega
            · have h2 : ¬ bn < 0 := fun h => h1 (hsame.mpr h)
              have : 0 ≤ bn * (ad : Int) := Int.mul_nonneg (by omega) (by omega)
              have : 0 ≤ an * (bd : Int) := Int.mul_nonneg (by omega) (by omega)
              omega
      split
      · rename_i hg
        -- filtered: the products cannot be equal
        symm; rw [beq_eq_false_iff_ne]
        intro he
        have hnat := key.mp he
        have hx : 0 < an.natAbs := by omega
        have hbn0 : bn ≠ 0 := by
          intro h; subst h
          simp only [Int.natAbs_zero, Nat.zero_mul] at hnat
          have := Nat.mul_pos hx hb
          omega
        have hy : 0 < bn.natAbs := by omega
        have ⟨l1, u1⟩ := bitLen_mul_bounds an.natAbs bd hx hb
        have ⟨l2, u2⟩ := bitLen_mul_bounds bn.natAbs ad hy ha
        rw [hnat] at l1 u1
        omega
      · have : ((an * (bd : Int)).natAbs == (bn * (ad : Int)).natAbs) = (an * (bd : Int) == bn * (ad : Int)) := by
          by_cases he : an * (bd : Int) = bn * (ad : Int)
          · simp [he]
          · have : ¬ (an.natAbs * bd = bn.natAbs * ad) := fun h => he (key.mpr h)
            have hn : ¬ ((an * (bd : Int)).natAbs = (bn * (ad : Int)).natAbs) := by
              simpa [Int.natAbs_mul] using this
            simp [he, hn]
        exact this

/-- `RBig ==` is structural; on reduced fractions (`Repr::reduce`: gcd 1, positive denominator) it is
    equality of values -/
theorem rbigEq_spec (a b : QRepr) (ha : 0 < a.den) (hb : 0 < b.den)
    (hra : Nat.gcd a.num.natAbs a.den = 1) (hrb : Nat.gcd b.num.natAbs b.den = 1) :
    rbigEq a b = specQEq a b := by
  obtain ⟨an, ad⟩ := a
  obtain ⟨bn, bd⟩ := b
  simp only at ha hb hra hrb
  unfold rbigEq specQEq
  simp only
  by_cases he : an * (bd : Int) = bn * (ad : Int)
  · -- equal values of reduced fractions have equal components
    have hnat : an.natAbs * bd = bn.natAbs * ad := by
      have := congrArg Int.natAbs he
      simpa [Int.natAbs_mul] using this
    have hd1 : ad ∣ bd := by
      have : ad ∣ an.natAbs * bd := ⟨bn.natAbs, by rw [hnat, Nat.mul_comm]⟩
      exact Nat.Coprime.dvd_of_dvd_mul_left (show Nat.Coprime ad an.natAbs by
        unfold Nat.Coprime; rw [Nat.gcd_comm]; exact hra) this
    have hd2 : bd ∣ ad := by
      have : bd ∣ bn.natAbs * ad := ⟨an.natAbs, by rw [← hnat, Nat.mul_comm]⟩
      exact Nat.Coprime.dvd_of_dvd_mul_left (show Nat.Coprime bd bn.natAbs by
        unfold Nat.Coprime; rw [Nat.gcd_comm]; exact hrb) this
    have hden : ad = bd := Nat.dvd_antisymm hd1 hd2
    subst hden
    have hadI : (0 : Int) < (ad : Int) := by exact_mod_cast ha
    have hnum : an = bn := Int.eq_of_mul_eq_mul_right (by omega) he
    subst hnum
    simp
  · have : ¬ (an = bn ∧ ad = bd) := by
      rintro ⟨rfl, rfl⟩; exact he rfl
    have h1 : (an * (bd : Int) == bn * (ad : Int)) = false := by simpa using he
    rw [h1]
    by_cases hn : an = bn
    · have : ad ≠ bd := fun h => this ⟨hn, h⟩
      simp [hn, this]
    · simp [hn]


-- ================================================================== floats (float/src/cmp.rs)

theorem specFCmp_finite (B : Nat) (a b : FRepr) (ha : a.isInfinite = false) (hb : b.isInfinite = false) :
    specFCmp B a b = cmpCase6 B a.signif a.exp b.signif b.exp := by
  unfold specFCmp cmpCase6
  simp only [ha, hb, Bool.false_and, Bool.false_eq_true, if_false]
  by_cases h1 : a.exp = b.exp
  · simp [h1]
  · by_cases h2 : a.exp > b.exp
    · have hm : min a.exp b.exp = b.exp := by omega
      simp [h1, h2, hm]
    · have hm : min a.exp b.exp = a.exp := by omega
      simp [h1, h2, hm]

theorem pow_cast (B k : Nat) : ((B ^ k : Nat) : Int) = (B : Int) ^ k := by push_cast; rfl

theorem dominate_pos (B d k : Nat) (s1 s2 : Int) (hB : 2 ≤ B) (h1 : 0 < s1) (h2 : s2.natAbs < B ^ d)
    (hk : d ≤ k) : s2 < s1 * (B : Int) ^ k := by
  have hlt : B ^ d ≤ B ^ k := Nat.pow_le_pow_right (by omega) hk
  have hpos : 0 < B ^ k := Nat.pow_pos (by omega)
  rw [← pow_cast]
  have : ((B ^ k : Nat) : Int) ≤ s1 * ((B ^ k : Nat) : Int) := by
    have := Int.mul_le_mul_of_nonneg_right (show (1 : Int) ≤ s1 by omega) (show (0 : Int) ≤ ((B ^ k : Nat) : Int) by omega)
    simpa using this
  omega

theorem dominate_neg (B d k : Nat) (s1 s2 : Int) (hB : 2 ≤ B) (h1 : s1 < 0) (h2 : s2.natAbs < B ^ d)
    (hk : d ≤ k) : s1 * (B : Int) ^ k < s2 := by
  have := dominate_pos B d k (-s1) (-s2) hB (by omega) (by simpa using h2) hk
  have e : -s1 * (B : Int) ^ k = -(s1 * (B : Int) ^ k) := by ring
  omega

theorem fcmp3_dominate_left (B d : Nat) (hB : 2 ≤ B) (s1 e1 s2 e2 : Int) (hs1 : s1 ≠ 0)
    (hsame : (s1 < 0) ↔ (s2 < 0)) (h2 : s2.natAbs < B ^ (d + 1)) (he : e1 > e2 + d) :
    cmpCase6 B s1 e1 s2 e2 = mulOrd (decide (s1 < 0)) .gt := by
  unfold cmpCase6
  have h1 : ¬ e1 = e2 := by omega
  have h3 : e1 > e2 := by omega
  simp only [h1, h3, if_false, if_true]
  have hk : d + 1 ≤ (e1 - e2).toNat := by omega
  by_cases hn : s1 < 0
  · simp only [hn, decide_true, mulOrd, if_true]
    exact int_cmp_of_lt (dominate_neg B (d + 1) _ s1 s2 hB hn h2 hk)
  · simp only [hn, decide_false, mulOrd, Bool.false_eq_true, if_false]
    exact int_cmp_of_gt (dominate_pos B (d + 1) _ s1 s2 hB (by omega) h2 hk)

theorem fcmp3_dominate_right (B d : Nat) (hB : 2 ≤ B) (s1 e1 s2 e2 : Int) (hs2 : s2 ≠ 0)
    (hsame : (s1 < 0) ↔ (s2 < 0)) (h1 : s1.natAbs < B ^ (d + 1)) (he : e2 > e1 + d) :
    cmpCase6 B s1 e1 s2 e2 = mulOrd (decide (s1 < 0)) .lt := by
  unfold cmpCase6
  have h1' : ¬ e1 = e2 := by omega
  have h3 : ¬ e1 > e2 := by omega
  simp only [h1', h3, if_false]
  have hk : d + 1 ≤ (e2 - e1).toNat := by omega
  by_cases hn : s1 < 0
  · have hn2 : s2 < 0 := hsame.mp hn
    simp only [hn, decide_true, mulOrd, if_true]
    exact int_cmp_of_gt (dominate_neg B (d + 1) _ s2 s1 hB hn2 h1 hk)
  · have hn2 : ¬ s2 < 0 := fun h => hn (hsame.mpr h)
    simp only [hn, decide_false, mulOrd, Bool.false_eq_true, if_false]
    exact int_cmp_of_lt (dominate_pos B (d + 1) _ s2 s1 hB (by omega) h1 hk)

theorem int_pow_pos' (B k : Nat) (hB : 2 ≤ B) : (0 : Int) < (B : Int) ^ k := by
  rw [← pow_cast]; exact_mod_cast Nat.pow_pos (by omega)

theorem fcmp3_signs (B : Nat) (hB : 2 ≤ B) (s1 e1 s2 e2 : Int) (h1 : ¬ s1 < 0) (h2 : s2 < 0) :
    cmpCase6 B s1 e1 s2 e2 = .gt := by
  unfold cmpCase6
  have hp := int_pow_pos' B (e1 - e2).toNat hB
  have hq := int_pow_pos' B (e2 - e1).toNat hB
  split
  · exact int_cmp_of_gt (by omega)
  · split
    · have : 0 ≤ s1 * (B : Int) ^ (e1 - e2).toNat := Int.mul_nonneg (by omega) (by omega)
      exact int_cmp_of_gt (by omega)
    · have : s2 * (B : Int) ^ (e2 - e1).toNat < 0 := Int.mul_neg_of_neg_of_pos h2 hq
      exact int_cmp_of_gt (by omega)

theorem fcmp3_signs' (B : Nat) (hB : 2 ≤ B) (s1 e1 s2 e2 : Int) (h1 : s1 < 0) (h2 : ¬ s2 < 0) :
    cmpCase6 B s1 e1 s2 e2 = .lt := by
  unfold cmpCase6
  have hp := int_pow_pos' B (e1 - e2).toNat hB
  have hq := int_pow_pos' B (e2 - e1).toNat hB
  split
  · exact int_cmp_of_lt (by omega)
  · split
    · have : s1 * (B : Int) ^ (e1 - e2).toNat < 0 := Int.mul_neg_of_neg_of_pos h1 hp
      exact int_cmp_of_lt (by omega)
    · have : 0 ≤ s2 * (B : Int) ^ (e2 - e1).toNat := Int.mul_nonneg (by omega) (by omega)
      exact int_cmp_of_lt (by omega)

theorem fcmp3_zero_left (B : Nat) (hB : 2 ≤ B) (e1 s2 e2 : Int) (h2 : 0 < s2) :
    cmpCase6 B 0 e1 s2 e2 = .lt := by
  unfold cmpCase6
  have hq := int_pow_pos' B (e2 - e1).toNat hB
  split
  · exact int_cmp_of_lt h2
  · split
    · rw [Int.zero_mul]; exact int_cmp_of_lt h2
    · exact int_cmp_of_lt (Int.mul_pos h2 hq)

theorem fcmp3_zero_right (B : Nat) (hB : 2 ≤ B) (s1 e1 e2 : Int) (h1 : 0 < s1) :
    cmpCase6 B s1 e1 0 e2 = .gt := by
  unfold cmpCase6
  have hp := int_pow_pos' B (e1 - e2).toNat hB
  split
  · exact int_cmp_of_gt h1
  · split
    · exact int_cmp_of_gt (Int.mul_pos h1 hp)
    · rw [Int.zero_mul]; exact int_cmp_of_gt h1

theorem pow_succ_bound (B : Nat) (hB : 2 ≤ B) (n d : Nat) (h : n < B ^ d) : n < B ^ (d + 1) :=
  Nat.lt_of_lt_of_le h (Nat.pow_le_pow_right (by omega) (by omega))

theorem cmpCase56_spec (B : Nat) (hB : 2 ≤ B) (digitsUb : Int → Nat)
    (hub : ∀ s : Int, s.natAbs < B ^ digitsUb s) (s1 e1 s2 e2 : Int) (hs1 : s1 ≠ 0) (hs2 : s2 ≠ 0)
    (hsame : (s1 < 0) ↔ (s2 < 0)) :
    cmpCase56 B digitsUb (decide (s1 < 0)) s1 e1 s2 e2 = cmpCase6 B s1 e1 s2 e2 := by
  unfold cmpCase56
  split
  · rename_i h; exact (fcmp3_dominate_left B _ hB s1 e1 s2 e2 hs1 hsame (pow_succ_bound B hB _ _ (hub s2)) h).symm
  · split
    · rename_i h; exact (fcmp3_dominate_right B _ hB s1 e1 s2 e2 hs2 hsame (pow_succ_bound B hB _ _ (hub s1)) h).symm
    · rfl

/-- the clamped digit bound from the unclamped one plus "fewer than 2^63 + 1 digits" -/
theorem fits_min (B n p : Nat) (h1 : n < B ^ (p + 1)) (h2 : n < B ^ (cmpIsizeMax + 1)) :
    n < B ^ (min p cmpIsizeMax + 1) := by
  rcases Nat.le_total p cmpIsizeMax with h | h
  · rw [Nat.min_eq_left h]; exact h1
  · rw [Nat.min_eq_right h]; exact h2

/-- below the clamp nothing changes -/
theorem fits_min_of_le (B n p : Nat) (hp : p ≤ cmpIsizeMax) (h1 : n < B ^ (p + 1)) :
    n < B ^ (min p cmpIsizeMax + 1) := by
  rw [Nat.min_eq_left hp]; exact h1

theorem cmpCase4_spec (B : Nat) (hB : 2 ≤ B) (s1 e1 s2 e2 : Int) (hs1 : s1 ≠ 0) (hs2 : s2 ≠ 0)
    (hsame : (s1 < 0) ↔ (s2 < 0)) (prec : Option (Nat × Nat))
    (hprec : ∀ lp rp, prec = some (lp, rp) →
      (lp ≠ 0 → s1.natAbs < B ^ (min lp cmpIsizeMax + 1)) ∧ (rp ≠ 0 → s2.natAbs < B ^ (min rp cmpIsizeMax + 1)))
    (o : Ordering) (h : cmpCase4 (decide (s1 < 0)) e1 e2 prec = some o) :
    o = cmpCase6 B s1 e1 s2 e2 := by
  cases prec with
  | none => simp [cmpCase4] at h
  | some pr =>
    obtain ⟨lp, rp⟩ := pr
    have ⟨hp1, hp2⟩ := hprec lp rp rfl
    simp only [cmpCase4] at h
    split at h
    · rename_i hnz
      split at h
      · rename_i hc
        cases h
        exact (fcmp3_dominate_left B (min rp cmpIsizeMax) hB s1 e1 s2 e2 hs1 hsame (hp2 hnz.2) hc).symm
      · split at h
        · rename_i hc
          cases h
          exact (fcmp3_dominate_right B (min lp cmpIsizeMax) hB s1 e1 s2 e2 hs2 hsame (hp1 hnz.1) hc).symm
        · cases h
    · cases h

theorem cmp_tail_spec (B : Nat) (hB : 2 ≤ B) (digitsUb : Int → Nat)
    (hub : ∀ s : Int, s.natAbs < B ^ digitsUb s) (s1 e1 s2 e2 : Int) (hs1 : s1 ≠ 0) (hs2 : s2 ≠ 0)
    (hsame : (s1 < 0) ↔ (s2 < 0)) (prec : Option (Nat × Nat))
    (hprec : ∀ lp rp, prec = some (lp, rp) →
      (lp ≠ 0 → s1.natAbs < B ^ (min lp cmpIsizeMax + 1)) ∧ (rp ≠ 0 → s2.natAbs < B ^ (min rp cmpIsizeMax + 1))) :
    (match cmpCase4 (decide (s1 < 0)) e1 e2 prec with
      | some o => o
      | none => cmpCase56 B digitsUb (decide (s1 < 0)) s1 e1 s2 e2) = cmpCase6 B s1 e1 s2 e2 := by
  split
  · rename_i o h; exact cmpCase4_spec B hB s1 e1 s2 e2 hs1 hs2 hsame prec hprec o h
  · exact cmpCase56_spec B hB digitsUb hub s1 e1 s2 e2 hs1 hs2 hsame

/-- `repr_cmp_same_base` is the order of the values `signif · B^exp` (infinities at the ends),
    PROVIDED each operand's significand has at most `precision + 1` digits whenever a non-zero
    precision is supplied (what the arithmetic guarantees: C03 "no result carries more than p+1
    significant digits"; the strict `>` of the shortcut leaves exactly this one digit of slack), and
    for ANY digit estimator that is an upper bound.  Since /repo ee43486 the code clamps each precision to
    `isize::MAX` before the shortcut, so the digit bound reads `min precision isize::MAX + 1`: for every precision
    `≤ isize::MAX` that is the old `precision + 1`; above it, it says "at most 2^63 digits", which every significand
    that fits a 64-bit address space satisfies (the Nat/usize gap of the model — `fits_min` splits it that way). -/
theorem reprCmpSameBase_spec (B : Nat) (hB : 2 ≤ B) (digitsUb : Int → Nat)
    (hub : ∀ s : Int, s.natAbs < B ^ digitsUb s)
    (lhs rhs : FRepr) (prec : Option (Nat × Nat))
    (hprec : ∀ lp rp, prec = some (lp, rp) →
      (lp ≠ 0 → lhs.signif.natAbs < B ^ (min lp cmpIsizeMax + 1)) ∧
      (rp ≠ 0 → rhs.signif.natAbs < B ^ (min rp cmpIsizeMax + 1))) :
    reprCmpSameBase B digitsUb lhs rhs prec = specFCmp B lhs rhs := by
  unfold reprCmpSameBase
  by_cases hli : lhs.isInfinite = true
  · by_cases hri : rhs.isInfinite = true
    · simp [specFCmp, hli, hri]
    · simp [specFCmp, hli, hri]
  · by_cases hri : rhs.isInfinite = true
    · simp [specFCmp, hli, hri]
    · have hli' : lhs.isInfinite = false := by simpa using hli
      have hri' : rhs.isInfinite = false := by simpa using hri
      rw [specFCmp_finite B lhs rhs hli' hri']
      simp only [hli', hri', Bool.false_and, Bool.false_eq_true, if_false]
      obtain ⟨s1, e1⟩ := lhs
      obtain ⟨s2, e2⟩ := rhs
      simp only [FRepr.isInfinite, Bool.and_eq_false_imp, beq_iff_eq, bne_eq_false_iff_eq] at hli' hri'
      simp only [FRepr.isZero] at *
      by_cases hn1 : s1 < 0 <;> by_cases hn2 : s2 < 0
      · -- both negative: non-zero
        have z1 : (s1 == 0) = false := by simp; omega
        have z2 : (s2 == 0) = false := by simp; omega
        have hsame : (s1 < 0) ↔ (s2 < 0) := by simp [hn1, hn2]
        have key := cmp_tail_spec B hB digitsUb hub s1 e1 s2 e2 (by omega) (by omega) hsame prec hprec
        simp only [hn1, decide_true] at key
        simp only [hn1, hn2, decide_true, Bool.not_true, Bool.and_true, Bool.false_and, Bool.and_false,
          Bool.false_eq_true, if_false, z1, z2]
        exact key
      · simp only [hn1, hn2, decide_true, decide_false, Bool.not_true, Bool.not_false, Bool.and_true,
          Bool.false_and, Bool.and_false, Bool.false_eq_true, if_false, Bool.true_and, if_true]
        exact (fcmp3_signs' B hB s1 e1 s2 e2 hn1 hn2).symm
      · simp only [hn1, hn2, decide_true, decide_false, Bool.not_true, Bool.not_false, Bool.and_true,
          Bool.true_and, if_true]
        exact (fcmp3_signs B hB s1 e1 s2 e2 hn1 hn2).symm
      · -- both non-negative
        simp only [hn1, hn2, decide_false, Bool.not_false, Bool.and_false, Bool.false_and, Bool.and_true,
          Bool.false_eq_true, if_false]
        by_cases hz1 : s1 = 0
        · subst hz1
          have he1 : e1 = 0 := hli' rfl
          subst he1
          by_cases hz2 : s2 = 0
          · subst hz2
            have he2 : e2 = 0 := hri' rfl
            subst he2
            simp [cmpCase6]
          · have z2 : (s2 == 0) = false := by simpa using hz2
            simp only [z2, Bool.false_and, Bool.and_false, Bool.false_eq_true, if_false, beq_self_eq_true,
              Bool.and_self, if_true]
            exact (fcmp3_zero_left B hB 0 s2 e2 (by omega)).symm
        · have z1 : (s1 == 0) = false := by simpa using hz1
          by_cases hz2 : s2 = 0
          · subst hz2
            have he2 : e2 = 0 := hri' rfl
            subst he2
            simp only [z1, Bool.false_and, Bool.false_eq_true, if_false, beq_self_eq_true, Bool.and_self,
              if_true]
            exact (fcmp3_zero_right B hB s1 e1 0 (by omega)).symm
          · have z2 : (s2 == 0) = false := by simpa using hz2
            have hsame : (s1 < 0) ↔ (s2 < 0) := by simp [hn1, hn2]
            have key := cmp_tail_spec B hB digitsUb hub s1 e1 s2 e2 hz1 hz2 hsame prec hprec
            simp only [hn1, decide_false] at key
            simp only [z1, z2, Bool.false_and, Bool.false_eq_true, if_false]
            exact key


-- ================================================================== float normalisation and equality

theorem removeAll_spec (B : Nat) (hB : 2 ≤ B) (n : Nat) (hn : n ≠ 0) :
    n = (removeAll B n).1 * B ^ (removeAll B n).2 ∧ (removeAll B n).1 % B ≠ 0 := by
  induction n using Nat.strongRecOn with
  | _ n ih =>
    rw [removeAll]
    split
    · rename_i h
      have hm : n % B ≠ 0 := by
        rcases h with h | h | h
        · exact absurd h hn
        · omega
        · exact h
      exact ⟨by simp, hm⟩
    · rename_i h
      have hmod : n % B = 0 := by
        by_contra hc; exact h (Or.inr (Or.inr hc))
      have hlt : n / B < n := Nat.div_lt_self (by omega) (by omega)
      have hdm := Nat.div_add_mod n B
      have hq : n / B ≠ 0 := by
        intro h0; rw [h0, hmod] at hdm; omega
      have ⟨i1, i2⟩ := ih (n / B) hlt hq
      generalize removeAll B (n / B) = p at *
      obtain ⟨m, k⟩ := p
      simp only at i1 i2 ⊢
      refine ⟨?_, i2⟩
      rw [Nat.pow_succ, ← Nat.mul_assoc, ← i1, Nat.mul_comm]
      omega

/-- canonical float representation: infinities are `0·B^(±1)`, zero is `0·B^0`, otherwise the
    significand is not divisible by the base -/
def FCanon (B : Nat) (r : FRepr) : Prop :=
  (r.signif = 0 → r.exp = 0 ∨ r.exp = 1 ∨ r.exp = -1) ∧ (r.signif ≠ 0 → r.signif.natAbs % B ≠ 0)

/-- `Repr::normalize` yields the canonical representation of the same value -/
theorem normalize_spec (B : Nat) (hB : 2 ≤ B) (r : FRepr) :
    FCanon B (r.normalize B) ∧ (r.normalize B).isInfinite = false ∧
    (r.signif ≠ 0 → r.exp ≤ (r.normalize B).exp ∧
      r.signif = (r.normalize B).signif * (B : Int) ^ ((r.normalize B).exp - r.exp).toNat) ∧
    (r.signif = 0 → r.normalize B = ⟨0, 0⟩) := by
  unfold FRepr.normalize
  split
  · rename_i h0
    refine ⟨⟨fun _ => Or.inl rfl, fun h => absurd rfl h⟩, by simp [FRepr.isInfinite], fun h => absurd h0 h,
      fun _ => rfl⟩
  · rename_i h0
    have hn : r.signif.natAbs ≠ 0 := by omega
    have ⟨i1, i2⟩ := removeAll_spec B hB _ hn
    generalize removeAll B r.signif.natAbs = p at *
    obtain ⟨m, k⟩ := p
    simp only at i1 i2 ⊢
    have hm0 : m ≠ 0 := by intro h; subst h; simp at i2
    refine ⟨⟨?_, ?_⟩, ?_, fun _ => ⟨by omega, ?_⟩, fun h => absurd h h0⟩
    · intro h; exfalso
      by_cases hneg : r.signif < 0 <;> simp [hneg] at h <;> omega
    · intro _
      by_cases hneg : r.signif < 0 <;> simp [hneg] <;> exact i2
    · simp only [FRepr.isInfinite, Bool.and_eq_false_imp, beq_iff_eq]
      intro h; exfalso
      by_cases hneg : r.signif < 0 <;> simp [hneg] at h <;> omega
    · have hk : (r.exp + (k : Int) - r.exp).toNat = k := by omega
      rw [hk, ← pow_cast]
      split
      · rename_i hneg
        have : r.signif = -((r.signif.natAbs : Nat) : Int) := by omega
        rw [this, i1]; push_cast; ring
      · rename_i hneg
        have : r.signif = ((r.signif.natAbs : Nat) : Int) := by omega
        rw [this, i1]; push_cast; ring

theorem cmpCase6_eq_iff (B : Nat) (hB : 2 ≤ B) (s1 e1 s2 e2 : Int)
    (z1 : s1 = 0 → e1 = 0) (z2 : s2 = 0 → e2 = 0)
    (n1 : s1 ≠ 0 → s1.natAbs % B ≠ 0) (n2 : s2 ≠ 0 → s2.natAbs % B ≠ 0) :
    cmpCase6 B s1 e1 s2 e2 = .eq ↔ (s1 = s2 ∧ e1 = e2) := by
  have nodvd : ∀ (s t : Int) (k : Nat), 0 < k → t ≠ 0 → t.natAbs % B ≠ 0 → s * (B : Int) ^ k ≠ t := by
    intro s t k hk ht hnd he
    apply hnd
    have : t.natAbs = s.natAbs * B ^ k := by
      rw [← he, Int.natAbs_mul, ← pow_cast, Int.natAbs_natCast]
    rw [this, show k = (k - 1) + 1 by omega, Nat.pow_succ, ← Nat.mul_assoc]
    exact Nat.mul_mod_left _ _
  unfold cmpCase6
  constructor
  · intro h
    split at h
    · rename_i he; exact ⟨Int.compare_eq_eq.mp h, he⟩
    · split at h
      · rename_i hne hgt
        exfalso
        have hcmp := Int.compare_eq_eq.mp h
        have hk : 0 < (e1 - e2).toNat := by omega
        by_cases hz : s2 = 0
        · subst hz
          have hp := int_pow_pos' B (e1 - e2).toNat hB
          have : s1 = 0 := by
            rcases Int.mul_eq_zero.mp hcmp with h' | h'
            · exact h'
            · omega
          have := z1 this; have := z2 rfl; omega
        · exact nodvd s1 s2 _ hk hz (n2 hz) hcmp
      · rename_i hne hgt
        exfalso
        have hcmp := Int.compare_eq_eq.mp h
        have hk : 0 < (e2 - e1).toNat := by omega
        by_cases hz : s1 = 0
        · subst hz
          have hp := int_pow_pos' B (e2 - e1).toNat hB
          have : s2 = 0 := by
            rcases Int.mul_eq_zero.mp hcmp.symm with h' | h'
            · exact h'
            · omega
          have := z2 this; have := z1 rfl; omega
        · exact nodvd s2 s1 _ hk hz (n1 hz) hcmp.symm
  · rintro ⟨rfl, rfl⟩
    simp

/-- `FBig ==` (structural on the normalised representation, infinities by sign) holds exactly when
    the values are equal, i.e. exactly when the comparison says `Equal` -/
theorem fbigEq_iff (B : Nat) (hB : 2 ≤ B) (a b : FRepr) (ha : FCanon B a) (hb : FCanon B b) :
    fbigEq a b = true ↔ specFCmp B a b = .eq := by
  obtain ⟨s1, e1⟩ := a
  obtain ⟨s2, e2⟩ := b
  obtain ⟨az, an⟩ := ha
  obtain ⟨bz, bn⟩ := hb
  simp only at az an bz bn
  by_cases hi1 : (FRepr.mk s1 e1).isInfinite = true <;> by_cases hi2 : (FRepr.mk s2 e2).isInfinite = true
  · -- both infinite: exponents are ±1
    have h1 : s1 = 0 ∧ e1 ≠ 0 := by simpa [FRepr.isInfinite] using hi1
    have h2 : s2 = 0 ∧ e2 ≠ 0 := by simpa [FRepr.isInfinite] using hi2
    have := az h1.1; have := bz h2.1
    simp only [fbigEq, specFCmp, hi1, hi2, Bool.and_self, if_true, Int.compare_eq_eq]
    constructor
    · intro h; simp at h; omega
    · intro h; subst h; simp
  · simp [fbigEq, specFCmp, hi1, hi2]
    split <;> simp
  · simp [fbigEq, specFCmp, hi1, hi2]
    split <;> simp
  · have hf1 : (FRepr.mk s1 e1).isInfinite = false := by simpa using hi1
    have hf2 : (FRepr.mk s2 e2).isInfinite = false := by simpa using hi2
    rw [specFCmp_finite B _ _ hf1 hf2]
    have z1 : s1 = 0 → e1 = 0 := by
      intro h; simp [FRepr.isInfinite, h] at hf1; exact hf1
    have z2 : s2 = 0 → e2 = 0 := by
      intro h; simp [FRepr.isInfinite, h] at hf2; exact hf2
    rw [cmpCase6_eq_iff B hB s1 e1 s2 e2 z1 z2 an bn]
    simp [fbigEq, hf1, hf2]


-- ================================================================== Hash for RBig

theorem sOfInt_spec (W : Nat) (hW : 1 ≤ W) (x : Int) : SCanon W (sOfInt W x) ∧ (sOfInt W x).value W = x := by
  refine ⟨⟨ofNat_canon W hW _, fun h => ?_⟩, ?_⟩
  · have hx : x < 0 := by simpa [sOfInt] using h
    show (ofNat W x.natAbs).value W ≠ 0
    rw [ofNat_value W hW]; omega
  · unfold sOfInt SRepr.value
    simp only [ofNat_value W hW]
    by_cases h : x < 0
    · simp only [h, decide_true, if_true]; omega
    · simp only [h, decide_false, Bool.false_eq_true, if_false]; omega

/-- the hash feed of an `RBig` determines, and is determined by, its (reduced) components -/
theorem QRepr.hashFeed_iff (W : Nat) (hW : 1 ≤ W) (a b : QRepr) :
    a.hashFeed W = b.hashFeed W ↔ a = b := by
  constructor
  · intro h
    simp only [QRepr.hashFeed, Prod.mk.injEq] at h
    have ⟨ca, va⟩ := sOfInt_spec W hW a.num
    have ⟨cb, vb⟩ := sOfInt_spec W hW b.num
    have hn := (SRepr.hashFeed_iff W _ _ ca cb).mp h.1
    rw [va, vb] at hn
    have da : SCanon W ⟨false, ofNat W a.den⟩ := ⟨ofNat_canon W hW _, by simp⟩
    have db : SCanon W ⟨false, ofNat W b.den⟩ := ⟨ofNat_canon W hW _, by simp⟩
    have hd := (SRepr.hashFeed_iff W _ _ da db).mp h.2
    simp only [SRepr.value_mk_false, ofNat_value W hW] at hd
    obtain ⟨an, ad⟩ := a; obtain ⟨bn, bd⟩ := b
    simp only at hn hd
    have : ad = bd := by exact_mod_cast hd
    rw [hn, this]
  · rintro rfl; rfl

end Dashu.Model
