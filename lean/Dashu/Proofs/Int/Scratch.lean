import Dashu.Gen.Scratch
import Dashu.Proofs.Int.Memory
import Dashu.Proofs.Int.PowBuf
import Dashu.Proofs.Int.DivMemory
import Dashu.Props.GenMath
import Dashu.Model.Mem.Arith3
/-
  Tie A for the scratch-memory formulas and buffer-size decisions (`Dashu.Gen.Scratch`, regenerated from
  /repo by `vlib/extract_scratch.py` on every run): the hand-written formulas of C01's memory model
  (`Model/Int/Memory.lean`, `Model/Int/PowBuf.lean`), of C02's division memory model (`Model/Int/DivMemory.lean`)
  and of C17's ledger model (`Model/Mem/Arith*.lean`) ARE the regenerated ones, with `math::ceil_log2`
  instantiated by the model's `ceilLog2` (= the regenerated `MathHelpers.ceil_log2`, C09).
-/
namespace Dashu.Model
open Dashu.Gen.Scratch

-- ---------------------------------------------------------------- the parameter `ceil_log2`

/-- the instantiation of the parameter `ceil_log2` is the regenerated `math::ceil_log2` (checked machine integers,
    any width `bits`) wherever that does not panic (`x ≠ 0`) -/
theorem ceilLog2_eq_gen (bits x : Nat) (hx : x < 2 ^ bits) (h0 : x ≠ 0) :
    Dashu.Gen.MathHelpers.ceil_log2 bits x = some (ceilLog2 x) :=
  (Dashu.Props.GenMath.gen_ceil_log2 bits x hx h0).1

/-- C17's `ceilLog2` is the same function -/
theorem memCeilLog2_eq : Dashu.Model.Mem.ceilLog2 = ceilLog2 := by
  funext n
  unfold Dashu.Model.Mem.ceilLog2 ceilLog2 bitLen
  by_cases h : n ≤ 1
  · rw [if_pos h, if_pos (by omega)]
  · rw [if_neg h, if_neg (by omega)]

-- ---------------------------------------------------------------- C01: Model/Int/Memory.lean

theorem karatsubaMemReq_eq_gen (n : Nat) :
    karatsubaMemReq n = karatsuba_memory_requirement_up_to ceilLog2 n := rfl

theorem toom3MemReq_eq_gen (n : Nat) :
    toom3MemReq n = toom_3_memory_requirement_up_to ceilLog2 n := rfl

theorem mulMemReq_eq_gen (total smaller : Nat) :
    mulMemReq smaller = mul_memory_requirement_up_to ceilLog2 total smaller := rfl

theorem mulMemReq_eq_gen_exact (total smaller : Nat) :
    mulMemReq smaller = mul_memory_requirement_exact ceilLog2 total smaller := rfl

theorem sqrMemReq_eq_gen (len : Nat) : sqrMemReq len = sqr_memory_requirement_exact ceilLog2 len := rfl

/-- `mul_large` with the REGENERATED `mul::memory_requirement_exact(res_len, min(lhs.len(), rhs.len()))` as the size of
    its `MemoryAllocation`: no `Memory::allocate_slice_*` of `mul::multiply` runs out of memory -/
theorem memMulLarge_gen_ok (l r : Nat) :
    memAddSignedMul (l + r) l r (mul_memory_requirement_exact ceilLog2 (l + r) (min l r)) = .ok () := by
  rw [← mulMemReq_eq_gen_exact]
  exact memMulLarge_ok l r

/-- `square_large` with the REGENERATED `sqr::memory_requirement_exact(words.len())` and the regenerated
    `MAX_LEN_SIMPLE` dispatch of `sqr::sqr` -/
theorem memSquareLarge_gen_ok (len : Nat) :
    memSqr len (sqr_memory_requirement_exact ceilLog2 len) = .ok () := by
  rw [← sqrMemReq_eq_gen]
  exact memSqr_ok len _ (Nat.le_refl _)

/-- any chunk of at least the regenerated `mul::memory_requirement_up_to(_, min(a, b))` words is enough for
    `mul::add_signed_mul` on operands of `a` and `b` words -/
theorem memAddSignedMul_gen_ok (fuel a b total avail : Nat)
    (h : mul_memory_requirement_up_to ceilLog2 total (min a b) ≤ avail) :
    memAddSignedMul fuel a b avail = .ok () :=
  memAddSignedMul_ok fuel a b avail (by rw [mulMemReq_eq_gen total]; exact h)

-- ---------------------------------------------------------------- C01: Model/Int/Pow.lean, Model/Int/PowBuf.lean

/-- the three arms of `powWordBase` / `pow_word_base` after `max_exp_in_word` are the regenerated split -/
theorem pow_word_base_path_spec (exp wexp : Nat) :
    (pow_word_base_path exp wexp = 0 ↔ exp < wexp) ∧
    (pow_word_base_path exp wexp = 1 ↔ wexp ≤ exp ∧ exp < 2 * wexp) ∧
    (pow_word_base_path exp wexp = 2 ↔ 2 * wexp ≤ exp) := by
  unfold pow_word_base_path
  by_cases h1 : exp < wexp
  · rw [if_pos h1]; omega
  · rw [if_neg h1]
    by_cases h2 : exp < 2 * wexp
    · rw [if_pos h2]; omega
    · rw [if_neg h2]; omega

/-- `powWordBase` (the value-level mirror of `pow_word_base`) dispatches exactly on the regenerated split -/
theorem powWordBase_by_path (W base exp : Nat) (hb : 2 < base) (hp : isPow2 base = false) :
    (pow_word_base_path exp (maxExpInWord W base).1 = 0 → powWordBase W base exp = base ^ exp) ∧
    (pow_word_base_path exp (maxExpInWord W base).1 = 1 →
      powWordBase W base exp = (maxExpInWord W base).2 * base ^ (exp - (maxExpInWord W base).1)) ∧
    (pow_word_base_path exp (maxExpInWord W base).1 = 2 →
      powWordBase W base exp =
        powLoop (fun x => x * (maxExpInWord W base).2) (fun x => x * x) (exp / (maxExpInWord W base).1)
          (bitLen (exp / (maxExpInWord W base).1) - 2) ((maxExpInWord W base).2 * (maxExpInWord W base).2) *
        base ^ (exp % (maxExpInWord W base).1)) := by
  obtain ⟨p0, p1, p2⟩ := pow_word_base_path_spec exp (maxExpInWord W base).1
  have b0 : base ≠ 0 := by omega
  have b1 : base ≠ 1 := by omega
  have b2 : base ≠ 2 := by omega
  refine ⟨fun h => ?_, fun h => ?_, fun h => ?_⟩
  · have h1 := p0.1 h
    unfold powWordBase
    simp only [b0, b1, b2, hp, if_false, Bool.false_eq_true, if_pos h1]
  · have h1 := p1.1 h
    unfold powWordBase
    simp only [b0, b1, b2, hp, if_false, Bool.false_eq_true, if_neg (Nat.not_lt.mpr h1.1), if_pos h1.2]
  · have h1 := p2.1 h
    unfold powWordBase
    have n1 : ¬ exp < (maxExpInWord W base).1 := by omega
    have n2 : ¬ exp < 2 * (maxExpInWord W base).1 := by omega
    simp only [b0, b1, b2, hp, if_false, Bool.false_eq_true, if_neg n1, if_neg n2]

/-- the sizes in `powWordBaseBuf` / `powDwordBaseBuf` are the regenerated ones -/
theorem powBuf_sizes_eq_gen (e : Nat) :
    e + 1 = pow_word_base_buffer_words e ∧
    (e / 2 + 1) + sqrMemReq (e / 2 + 1) = pow_word_base_scratch_words ceilLog2 e ∧
    2 * e = pow_dword_base_buffer_words e ∧
    e + sqrMemReq e = pow_dword_base_scratch_words ceilLog2 e :=
  ⟨rfl, rfl, Nat.mul_comm 2 e, rfl⟩

-- ---------------------------------------------------------------- C02: Model/Int/DivMemory.lean

theorem dcMemReq_eq_gen (l r : Nat) :
    Div.dcMemReq l r = divide_conquer_memory_requirement_exact ceilLog2 l r := rfl

/-- `div::memory_requirement_exact`: under its own `assert!` the hand-written model returns the regenerated value,
    otherwise it panics -/
theorem divMemReq_eq_gen (l r : Nat) :
    (div_memory_requirement_exact_asserts l r = true →
      Div.divMemReq l r = .ok (div_memory_requirement_exact ceilLog2 l r)) ∧
    (div_memory_requirement_exact_asserts l r = false → ∃ k, Div.divMemReq l r = .error k) := by
  unfold Div.divMemReq div_memory_requirement_exact_asserts div_memory_requirement_exact
  constructor
  · intro h
    have h' : l ≥ r ∧ r ≥ 2 := by simpa using h
    rw [if_neg (by simpa using h')]
    by_cases c : r ≤ Div.thresholdSimple ∨ l - r ≤ Div.thresholdSimple
    · rw [if_pos c, if_pos (by simpa [Div.thresholdSimple] using c)]
    · rw [if_neg c, if_neg (by simpa [Div.thresholdSimple] using c)]; rfl
  · intro h
    have h' : ¬ (l ≥ r ∧ r ≥ 2) := by simpa using h
    rw [if_pos h']
    exact ⟨_, rfl⟩

-- ---------------------------------------------------------------- C17: Model/Mem/Arith*.lean

theorem mulScratchWords_eq_gen (total n : Nat) :
    Mem.mulScratchWords n = mul_memory_requirement_up_to ceilLog2 total n := by
  unfold Mem.mulScratchWords
  rw [memCeilLog2_eq]; rfl

theorem sqrScratchWords_eq_gen (n : Nat) :
    Mem.sqrScratchWords Dashu.Gen.sqr_MAX_LEN_SIMPLE n = sqr_memory_requirement_exact ceilLog2 n := by
  unfold Mem.sqrScratchWords
  rw [mulScratchWords_eq_gen (2 * n)]; rfl

theorem divScratchWords_eq_gen (la lb : Nat) :
    Mem.divScratchWords la lb = div_memory_requirement_exact ceilLog2 la lb := by
  unfold Mem.divScratchWords
  rw [mulScratchWords_eq_gen lb]; rfl

theorem sqrtScratchWords_eq_gen (n : Nat) :
    Mem.sqrtScratchWords Dashu.Gen.sqr_MAX_LEN_SIMPLE n = root_memory_requirement_sqrt_rem ceilLog2 n := by
  unfold Mem.sqrtScratchWords
  rw [sqrScratchWords_eq_gen, divScratchWords_eq_gen]; rfl

/-- the guard and the sizes C17's `fragShl` writes inline (`dcap mx la < la + sw + 1`, `allocate (sw + la + 1)`,
    `sw = rhs / W`) are the regenerated ones -/
theorem shl_large_guard_eq_gen (W cap la rhs : Nat) :
    (decide (cap < la + rhs / W + 1) = shl_large_takes_ref_path cap la (shl_large_shift_words W rhs)) ∧
    rhs / W + la + 1 = shl_large_ref_buffer_words (shl_large_shift_words W rhs) la :=
  ⟨rfl, rfl⟩

/-- the pow skeleton sizes C17's `fPowWordBase` / `fPowDwordBase` write inline -/
theorem memPow_sizes_eq_gen (e : Nat) :
    (e / 2 + 1) + Mem.sqrScratchWords Dashu.Gen.sqr_MAX_LEN_SIMPLE (e / 2 + 1) = pow_word_base_scratch_words ceilLog2 e ∧
    e + Mem.sqrScratchWords Dashu.Gen.sqr_MAX_LEN_SIMPLE e = pow_dword_base_scratch_words ceilLog2 e := by
  rw [sqrScratchWords_eq_gen, sqrScratchWords_eq_gen]; exact ⟨rfl, rfl⟩

end Dashu.Model
