import Dashu.Model.Int.Word
import Mathlib.Tactic.Ring
import Mathlib.Tactic.Linarith
/-
  Refinement of the word layer (`integer/src/add.rs`) to arithmetic on `Nat`, for every word
  size `W` and every length.  Uses single Mathlib tactic modules (`ring`, `linarith`).
-/
namespace Dashu.Model

theorem two_pow_pos' (W : Nat) : 0 < 2 ^ W := Nat.two_pow_pos W

@[simp] theorem val_nil (W : Nat) : val W [] = 0 := rfl
@[simp] theorem val_cons (W w : Nat) (ws : List Nat) : val W (w :: ws) = w + 2 ^ W * val W ws := rfl

theorem IsWords.nil (W : Nat) : IsWords W [] := by intro w h; cases h

theorem IsWords.cons {W w : Nat} {ws : List Nat} (h : w < 2 ^ W) (hs : IsWords W ws) :
    IsWords W (w :: ws) := by
  intro x hx
  cases hx with
  | head => exact h
  | tail _ h' => exact hs x h'

theorem IsWords.head {W w : Nat} {ws : List Nat} (h : IsWords W (w :: ws)) : w < 2 ^ W :=
  h w (List.mem_cons_self ..)

theorem IsWords.tail {W w : Nat} {ws : List Nat} (h : IsWords W (w :: ws)) : IsWords W ws :=
  fun x hx => h x (List.mem_cons_of_mem _ hx)

theorem IsWords.append {W : Nat} {a b : List Nat} (ha : IsWords W a) (hb : IsWords W b) :
    IsWords W (a ++ b) := by
  intro x hx
  rcases List.mem_append.mp hx with h | h
  · exact ha x h
  · exact hb x h

theorem IsWords.take {W : Nat} {a : List Nat} (ha : IsWords W a) (n : Nat) : IsWords W (a.take n) :=
  fun x hx => ha x (List.mem_of_mem_take hx)

theorem IsWords.drop {W : Nat} {a : List Nat} (ha : IsWords W a) (n : Nat) : IsWords W (a.drop n) :=
  fun x hx => ha x (List.mem_of_mem_drop hx)

theorem val_append (W : Nat) (a b : List Nat) :
    val W (a ++ b) = val W a + 2 ^ (W * a.length) * val W b := by
  induction a with
  | nil => simp
  | cons x xs ih =>
    simp only [List.cons_append, val_cons, ih, List.length_cons, Nat.mul_add, Nat.mul_one,
      Nat.pow_add]
    ring

theorem val_lt (W : Nat) (a : List Nat) (h : IsWords W a) : val W a < 2 ^ (W * a.length) := by
  induction a with
  | nil => simp
  | cons x xs ih =>
    have hx := h.head
    have := ih h.tail
    simp only [val_cons, List.length_cons, Nat.mul_add, Nat.mul_one, Nat.pow_add]
    have hp : 0 < 2 ^ W := Nat.two_pow_pos W
    calc x + 2 ^ W * val W xs < 2 ^ W + 2 ^ W * val W xs := by omega
      _ = 2 ^ W * (val W xs + 1) := by rw [Nat.mul_add]; omega
      _ ≤ 2 ^ W * 2 ^ (W * xs.length) := Nat.mul_le_mul_left _ this
      _ = 2 ^ (W * xs.length) * 2 ^ W := Nat.mul_comm ..

theorem val_take_add_drop (W : Nat) (a : List Nat) (n : Nat) :
    val W a = val W (a.take n) + 2 ^ (W * (a.take n).length) * val W (a.drop n) := by
  conv => lhs; rw [← List.take_append_drop n a]
  exact val_append W _ _

-- ------------------------------------------------------------------ add_one / sub_one

theorem addOne_spec (W : Nat) (ws : List Nat) (h : IsWords W ws) :
    let r := addOne W ws
    val W r.1 + 2 ^ (W * ws.length) * r.2 = val W ws + 1 ∧
    r.1.length = ws.length ∧ IsWords W r.1 ∧ r.2 ≤ 1 := by
  induction ws with
  | nil => simp [addOne, IsWords.nil]
  | cons w ws ih =>
    have hw := h.head
    have ⟨ih1, ih2, ih3, ih4⟩ := ih h.tail
    have hp : 0 < 2 ^ W := Nat.two_pow_pos W
    simp only [addOne]
    by_cases hc : (w + 1) / 2 ^ W = 0
    · simp only [hc, if_true, val_cons, List.length_cons, Nat.mul_zero, Nat.add_zero]
      have hlt : w + 1 < 2 ^ W := (Nat.div_eq_zero_iff_lt hp).mp hc
      refine ⟨by omega, trivial, IsWords.cons hlt h.tail, by omega⟩
    · simp only [hc, if_false, val_cons, List.length_cons]
      have hge : 2 ^ W ≤ w + 1 := by
        rcases Nat.lt_or_ge (w + 1) (2 ^ W) with h' | h'
        · exact absurd ((Nat.div_eq_zero_iff_lt hp).mpr h') hc
        · exact h'
      have hmod : (w + 1) % 2 ^ W = 0 := by
        have : w + 1 = 2 ^ W := by omega
        rw [this]; exact Nat.mod_self _
      refine ⟨?_, by simp [ih2], IsWords.cons (Nat.mod_lt _ hp) ih3, ih4⟩
      rw [hmod, Nat.mul_add, Nat.mul_one, Nat.pow_add]
      have : w + 1 = 2 ^ W := by omega
      have e : 2 ^ W * (val W (addOne W ws).1 + 2 ^ (W * ws.length) * (addOne W ws).2)
          = 2 ^ W * (val W ws + 1) := by rw [ih1]
      nlinarith [e]

theorem subOne_spec (W : Nat) (ws : List Nat) (h : IsWords W ws) :
    let r := subOne W ws
    val W r.1 + 1 = val W ws + 2 ^ (W * ws.length) * r.2 ∧
    r.1.length = ws.length ∧ IsWords W r.1 ∧ r.2 ≤ 1 := by
  induction ws with
  | nil => simp [subOne, IsWords.nil]
  | cons w ws ih =>
    have hw := h.head
    have ⟨ih1, ih2, ih3, ih4⟩ := ih h.tail
    have hp : 0 < 2 ^ W := Nat.two_pow_pos W
    simp only [subOne]
    by_cases hc : w = 0
    · simp only [hc, if_true, val_cons, List.length_cons]
      refine ⟨?_, by simp [ih2], IsWords.cons (by omega) ih3, ih4⟩
      rw [Nat.mul_add, Nat.mul_one, Nat.pow_add]
      have e : 2 ^ W * (val W (subOne W ws).1 + 1)
          = 2 ^ W * (val W ws + 2 ^ (W * ws.length) * (subOne W ws).2) := by rw [ih1]
      have : 2 ^ W - 1 + 1 = 2 ^ W := by omega
      nlinarith [e]
    · simp only [hc, if_false, val_cons, List.length_cons, Nat.mul_zero, Nat.add_zero]
      refine ⟨by omega, trivial, IsWords.cons (by omega) h.tail, by omega⟩

-- ------------------------------------------------------------------ add_same_len / sub_same_len

theorem addSameLen_spec (W : Nat) (as bs : List Nat) (c : Nat)
    (ha : IsWords W as) (hb : IsWords W bs) (hl : as.length = bs.length) (hc : c ≤ 1) :
    let r := addSameLen W as bs c
    val W r.1 + 2 ^ (W * as.length) * r.2 = val W as + val W bs + c ∧
    r.1.length = as.length ∧ IsWords W r.1 ∧ r.2 ≤ 1 := by
  induction as generalizing bs c with
  | nil =>
    cases bs with
    | nil => simp [addSameLen, IsWords.nil, hc]
    | cons b bs => simp at hl
  | cons a as ih =>
    cases bs with
    | nil => simp at hl
    | cons b bs =>
      have hp : 0 < 2 ^ W := Nat.two_pow_pos W
      have ha0 := ha.head
      have hb0 := hb.head
      have hcarry : (a + b + c) / 2 ^ W ≤ 1 := by
        have : a + b + c < 2 * 2 ^ W := by omega
        have := (Nat.div_lt_iff_lt_mul hp).mpr this
        omega
      have ⟨i1, i2, i3, i4⟩ := ih bs ((a + b + c) / 2 ^ W) ha.tail hb.tail (by simpa using hl) hcarry
      simp only [addSameLen, val_cons, List.length_cons]
      refine ⟨?_, by simp [i2], IsWords.cons (Nat.mod_lt _ hp) i3, i4⟩
      rw [Nat.mul_add, Nat.mul_one, Nat.pow_add]
      have e : 2 ^ W * (val W (addSameLen W as bs ((a + b + c) / 2 ^ W)).1
            + 2 ^ (W * as.length) * (addSameLen W as bs ((a + b + c) / 2 ^ W)).2)
          = 2 ^ W * (val W as + val W bs + (a + b + c) / 2 ^ W) := by rw [i1]
      have := Nat.div_add_mod (a + b + c) (2 ^ W)
      nlinarith [e]

theorem subSameLen_spec (W : Nat) (as bs : List Nat) (c : Nat)
    (ha : IsWords W as) (hb : IsWords W bs) (hl : as.length = bs.length) (hc : c ≤ 1) :
    let r := subSameLen W as bs c
    val W r.1 + val W bs + c = val W as + 2 ^ (W * as.length) * r.2 ∧
    r.1.length = as.length ∧ IsWords W r.1 ∧ r.2 ≤ 1 := by
  induction as generalizing bs c with
  | nil =>
    cases bs with
    | nil => simp [subSameLen, IsWords.nil, hc]
    | cons b bs => simp at hl
  | cons a as ih =>
    cases bs with
    | nil => simp at hl
    | cons b bs =>
      have hp : 0 < 2 ^ W := Nat.two_pow_pos W
      have ha0 := ha.head
      have hb0 := hb.head
      have hd : (a + 2 ^ W - b - c) / 2 ^ W ≤ 1 := by
        have : a + 2 ^ W - b - c < 2 * 2 ^ W := by omega
        have := (Nat.div_lt_iff_lt_mul hp).mpr this
        omega
      have hborrow : 1 - (a + 2 ^ W - b - c) / 2 ^ W ≤ 1 := Nat.sub_le _ _
      have ⟨i1, i2, i3, i4⟩ := ih bs (1 - (a + 2 ^ W - b - c) / 2 ^ W) ha.tail hb.tail
        (by simpa using hl) hborrow
      simp only [subSameLen, val_cons, List.length_cons]
      refine ⟨?_, by simp [i2], IsWords.cons (Nat.mod_lt _ hp) i3, i4⟩
      rw [Nat.mul_add, Nat.mul_one, Nat.pow_add]
      generalize hq : (a + 2 ^ W - b - c) / 2 ^ W = q at *
      generalize hk : 1 - q = k at *
      have e : 2 ^ W * (val W (subSameLen W as bs k).1 + val W bs + k)
          = 2 ^ W * (val W as + 2 ^ (W * as.length) * (subSameLen W as bs k).2) := by rw [i1]
      have hdm := Nat.div_add_mod (a + 2 ^ W - b - c) (2 ^ W)
      rw [hq] at hdm
      have hkq : k + q = 1 := by omega
      have hab : a + 2 ^ W - b - c + b + c = a + 2 ^ W := by omega
      nlinarith [e, hdm, hkq, hab]

/-- `sub_same_len_in_place_swap` computes the same digits as `sub_same_len_in_place` -/
theorem subSameLenSwap_eq (W : Nat) (as bs : List Nat) (c : Nat) (hl : as.length = bs.length) :
    subSameLenSwap W as bs c = subSameLen W as bs c := by
  induction as generalizing bs c with
  | nil =>
    cases bs with
    | nil => simp [subSameLenSwap, subSameLen]
    | cons b bs => simp at hl
  | cons a as ih =>
    cases bs with
    | nil => simp at hl
    | cons b bs =>
      simp only [subSameLenSwap, subSameLen]
      rw [ih bs _ (by simpa using hl)]


-- ------------------------------------------------------------------ helpers used by the dispatch layer

theorem pow_mul_succ (W n : Nat) : 2 ^ (W * (n + 1)) = 2 ^ W * 2 ^ (W * n) := by
  rw [Nat.mul_add, Nat.mul_one, Nat.pow_add, Nat.mul_comm]

theorem two_pow_two_mul (W : Nat) : 2 ^ (2 * W) = 2 ^ W * 2 ^ W := by
  rw [← Nat.pow_add]; congr 1; omega

theorem pow_mul_split (W : Nat) {n m : Nat} (h : n ≤ m) :
    2 ^ (W * m) = 2 ^ (W * n) * 2 ^ (W * (m - n)) := by
  rw [← Nat.pow_add, ← Nat.mul_add]; congr 2; omega

theorem length_take_of_le {l : List Nat} {n : Nat} (h : n ≤ l.length) : (l.take n).length = n := by
  simp [List.length_take, Nat.min_eq_left h]

-- ------------------------------------------------------------------ add_in_place / sub_in_place

theorem addInPlace_spec (W : Nat) (lhs rhs : List Nat)
    (hl : IsWords W lhs) (hr : IsWords W rhs) (hlen : rhs.length ≤ lhs.length) :
    let r := addInPlace W lhs rhs
    val W r.1 + 2 ^ (W * lhs.length) * r.2 = val W lhs + val W rhs ∧
    r.1.length = lhs.length ∧ IsWords W r.1 ∧ r.2 ≤ 1 := by
  have htl : (lhs.take rhs.length).length = rhs.length := length_take_of_le hlen
  have hs := addSameLen_spec W (lhs.take rhs.length) rhs 0 (hl.take _) hr htl (by omega)
  have hsplit := val_take_add_drop W lhs rhs.length
  have hdl : (lhs.drop rhs.length).length = lhs.length - rhs.length := List.length_drop ..
  have hpow := pow_mul_split W hlen
  have ho := addOne_spec W (lhs.drop rhs.length) (hl.drop _)
  simp only [addInPlace]
  generalize addSameLen W (lhs.take rhs.length) rhs 0 = res at hs
  obtain ⟨lo', c⟩ := res
  generalize addOne W (lhs.drop rhs.length) = res2 at ho
  obtain ⟨hi', c'⟩ := res2
  simp only [htl, hdl] at hs hsplit ho ⊢
  obtain ⟨s1, s2, s3, s4⟩ := hs
  obtain ⟨o1, o2, o3, o4⟩ := ho
  by_cases hc : c = 0
  · subst hc
    simp only [if_true]
    refine ⟨?_, ?_, s3.append (hl.drop _), by omega⟩
    · rw [val_append, s2]
      simp only [Nat.mul_zero, Nat.add_zero] at s1 ⊢
      omega
    · simp only [List.length_append, s2, hdl]; omega
  · have hc1 : c = 1 := by omega
    subst hc1
    simp only [hc, if_false]
    refine ⟨?_, ?_, s3.append o3, o4⟩
    · rw [val_append, s2, hpow]
      have e : 2 ^ (W * rhs.length) * (val W hi' + 2 ^ (W * (lhs.length - rhs.length)) * c')
          = 2 ^ (W * rhs.length) * (val W (lhs.drop rhs.length) + 1) := by rw [o1]
      nlinarith [e, s1, hsplit]
    · simp only [List.length_append, s2, o2]; omega

theorem subInPlace_spec (W : Nat) (lhs rhs : List Nat)
    (hl : IsWords W lhs) (hr : IsWords W rhs) (hlen : rhs.length ≤ lhs.length) :
    let r := subInPlace W lhs rhs
    val W r.1 + val W rhs = val W lhs + 2 ^ (W * lhs.length) * r.2 ∧
    r.1.length = lhs.length ∧ IsWords W r.1 ∧ r.2 ≤ 1 := by
  have htl : (lhs.take rhs.length).length = rhs.length := length_take_of_le hlen
  have hs := subSameLen_spec W (lhs.take rhs.length) rhs 0 (hl.take _) hr htl (by omega)
  have hsplit := val_take_add_drop W lhs rhs.length
  have hdl : (lhs.drop rhs.length).length = lhs.length - rhs.length := List.length_drop ..
  have hpow := pow_mul_split W hlen
  have ho := subOne_spec W (lhs.drop rhs.length) (hl.drop _)
  simp only [subInPlace]
  generalize subSameLen W (lhs.take rhs.length) rhs 0 = res at hs
  obtain ⟨lo', c⟩ := res
  generalize subOne W (lhs.drop rhs.length) = res2 at ho
  obtain ⟨hi', c'⟩ := res2
  simp only [htl, hdl] at hs hsplit ho ⊢
  obtain ⟨s1, s2, s3, s4⟩ := hs
  obtain ⟨o1, o2, o3, o4⟩ := ho
  by_cases hc : c = 0
  · subst hc
    simp only [if_true]
    refine ⟨?_, ?_, s3.append (hl.drop _), by omega⟩
    · rw [val_append, s2]
      simp only [Nat.mul_zero, Nat.add_zero] at s1 ⊢
      omega
    · simp only [List.length_append, s2, hdl]; omega
  · have hc1 : c = 1 := by omega
    subst hc1
    simp only [hc, if_false]
    refine ⟨?_, ?_, s3.append o3, o4⟩
    · rw [val_append, s2, hpow]
      have e : 2 ^ (W * rhs.length) * (val W hi' + 1)
          = 2 ^ (W * rhs.length) * (val W (lhs.drop rhs.length)
              + 2 ^ (W * (lhs.length - rhs.length)) * c') := by rw [o1]
      nlinarith [e, s1, hsplit]
    · simp only [List.length_append, s2, o2]; omega

/-- no final borrow ⇔ rhs ≤ lhs (because the digits are `< B^n`) -/
theorem subInPlace_borrow_iff (W : Nat) (lhs rhs : List Nat)
    (hl : IsWords W lhs) (hr : IsWords W rhs) (hlen : rhs.length ≤ lhs.length) :
    ((subInPlace W lhs rhs).2 = 0 ↔ val W rhs ≤ val W lhs) := by
  have ⟨h1, h2, h3, h4⟩ := subInPlace_spec W lhs rhs hl hr hlen
  have hlt := val_lt W _ h3
  rw [h2] at hlt
  generalize (subInPlace W lhs rhs).2 = c at *
  constructor
  · intro h; subst h; simp only [Nat.mul_zero, Nat.add_zero] at h1; omega
  · intro h
    rcases Nat.eq_zero_or_pos c with h0 | h0
    · exact h0
    · have : c = 1 := by omega
      subst this
      simp only [Nat.mul_one] at h1
      omega

-- ------------------------------------------------------------------ add_word_in_place / sub_word_in_place

theorem addWord_spec (W : Nat) (ws : List Nat) (r : Nat) (h : IsWords W ws) (hr : r < 2 ^ W)
    (hne : ws ≠ []) :
    let o := addWord W ws r
    val W o.1 + 2 ^ (W * ws.length) * o.2 = val W ws + r ∧
    o.1.length = ws.length ∧ IsWords W o.1 ∧ o.2 ≤ 1 := by
  cases ws with
  | nil => exact absurd rfl hne
  | cons w ws =>
    have hw := h.head
    have hp : 0 < 2 ^ W := Nat.two_pow_pos W
    have ho := addOne_spec W ws h.tail
    simp only [addWord]
    generalize addOne W ws = res at ho
    obtain ⟨t, c⟩ := res
    obtain ⟨o1, o2, o3, o4⟩ := ho
    simp only at o1 o2 o3 o4
    by_cases hc : (w + r) / 2 ^ W = 0
    · simp only [hc, if_true, val_cons, List.length_cons, Nat.mul_zero, Nat.add_zero]
      have hlt : w + r < 2 ^ W := (Nat.div_eq_zero_iff_lt hp).mp hc
      exact ⟨by omega, trivial, IsWords.cons hlt h.tail, by omega⟩
    · simp only [hc, if_false, val_cons, List.length_cons]
      have hge : 2 ^ W ≤ w + r := by
        rcases Nat.lt_or_ge (w + r) (2 ^ W) with h' | h'
        · exact absurd ((Nat.div_eq_zero_iff_lt hp).mpr h') hc
        · exact h'
      have hmod : (w + r) % 2 ^ W = w + r - 2 ^ W := by
        rw [Nat.mod_eq_sub_mod hge]; exact Nat.mod_eq_of_lt (by omega)
      refine ⟨?_, by simp [o2], IsWords.cons (Nat.mod_lt _ hp) o3, o4⟩
      rw [hmod, pow_mul_succ]
      have e : 2 ^ W * (val W t + 2 ^ (W * ws.length) * c) = 2 ^ W * (val W ws + 1) := by rw [o1]
      have : w + r - 2 ^ W + 2 ^ W = w + r := by omega
      nlinarith [e, this]

theorem subWord_spec (W : Nat) (ws : List Nat) (r : Nat) (h : IsWords W ws) (hr : r < 2 ^ W)
    (hne : ws ≠ []) :
    let o := subWord W ws r
    val W o.1 + r = val W ws + 2 ^ (W * ws.length) * o.2 ∧
    o.1.length = ws.length ∧ IsWords W o.1 ∧ o.2 ≤ 1 := by
  cases ws with
  | nil => exact absurd rfl hne
  | cons w ws =>
    have hw := h.head
    have hp : 0 < 2 ^ W := Nat.two_pow_pos W
    have ho := subOne_spec W ws h.tail
    simp only [subWord]
    generalize subOne W ws = res at ho
    obtain ⟨t, c⟩ := res
    obtain ⟨o1, o2, o3, o4⟩ := ho
    simp only at o1 o2 o3 o4
    by_cases hc : r ≤ w
    · simp only [hc, if_true, val_cons, List.length_cons, Nat.mul_zero, Nat.add_zero]
      exact ⟨by omega, trivial, IsWords.cons (by omega) h.tail, by omega⟩
    · simp only [hc, if_false, val_cons, List.length_cons]
      refine ⟨?_, by simp [o2], IsWords.cons (by omega) o3, o4⟩
      rw [pow_mul_succ]
      have e : 2 ^ W * (val W t + 1) = 2 ^ W * (val W ws + 2 ^ (W * ws.length) * c) := by rw [o1]
      have : w + 2 ^ W - r + r = w + 2 ^ W := by omega
      nlinarith [e, this]

end Dashu.Model
