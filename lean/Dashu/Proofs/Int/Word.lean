import Dashu.Model.Int.Word
import Mathlib.Tactic.Ring
import Mathlib.Tactic.Linarith
/-
  Refinement of the word layer (`integer/src/add.rs`) to arithmetic on `Nat`, for every word
  size `W` and every length.  Uses single Mathlib tactic modules (`ring`, `linarith`).
-/
namespace Dashu.Model

theorem two_pow_pos' (W : Nat) : 0 < 2 ^ W := Nat.two_pow_pos W

@[simp] theorem val_nil (W : Nat) : val W [] = 0 := rfl
@[simp] theorem val_cons (W w : Nat) (ws : List Nat) : val W (w :: ws) = w + 2 ^ W * val W ws := rfl

theorem IsWords.nil (W : Nat) : IsWords W [] := by intro w h; cases h

theorem IsWords.cons {W w : Nat} {ws : List Nat} (h : w < 2 ^ W) (hs : IsWords W ws) :
    IsWords W (w :: ws) := by
  intro x hx
  cases hx with
  | head => exact h
  | tail _ h' => exact hs x h'

theorem IsWords.head {W w : Nat} {ws : List Nat} (h : IsWords W (w :: ws)) : w < 2 ^ W :=
  h w (List.mem_cons_self ..)

theorem IsWords.tail {W w : Nat} {ws : List Nat} (h : IsWords W (w :: ws)) : IsWords W ws :=
  fun x hx => h x (List.mem_cons_of_mem _ hx)

theorem IsWords.append {W : Nat} {a b : List Nat} (ha : IsWords W a) (hb : IsWords W b) :
    IsWords W (a ++ b) := by
  intro x hx
  rcases List.mem_append.mp hx with h | h
  · exact ha x h
  · exact hb x h

theorem IsWords.take {W : Nat} {a : List Nat} (ha : IsWords W a) (n : Nat) : IsWords W (a.take n) :=
  fun x hx => ha x (List.mem_of_mem_take hx)

theorem IsWords.drop {W : Nat} {a : List Nat} (ha : IsWords W a) (n : Nat) : IsWords W (a.drop n) :=
  fun x hx => ha x (List.mem_of_mem_drop hx)

theorem val_append (W : Nat) (a b : List Nat) :
    val W (a ++ b) = val W a + 2 ^ (W * a.length) * val W b := by
  induction a with
  | nil => simp
  | cons x xs ih =>
    simp only [List.cons_append, val_cons, ih, List.length_cons, Nat.mul_add, Nat.mul_one,
      Nat.pow_add]
    ring

theorem val_lt (W : Nat) (a : List Nat) (h : IsWords W a) : val W a < 2 ^ (W * a.length) := by
  induction a with
  | nil => simp
  | cons x xs ih =>
    have hx := h.head
    have := ih h.tail
    simp only [val_cons, List.length_cons, Nat.mul_add, Nat.mul_one, Nat.pow_add]
    have hp : 0 < 2 ^ W := Nat.two_pow_pos W
    calc x + 2 ^ W * val W xs < 2 ^ W + 2 ^ W * val W xs := by omega
      _ = 2 ^ W * (val W xs + 1) := by rw [Nat.mul_add]; omega
      _ ≤ 2 ^ W * 2 ^ (W * xs.length) := Nat.mul_le_mul_left _ this
      _ = 2 ^ (W * xs.length) * 2 ^ W := Nat.mul_comm ..

theorem val_take_add_drop (W : Nat) (a : List Nat) (n : Nat) :
    val W a = val W (a.take n) + 2 ^ (W * (a.take n).length) * val W (a.drop n) := by
  conv => lhs; rw [← List.take_append_drop n a]
  exact val_append W _ _

-- ------------------------------------------------------------------ add_one / sub_one

theorem addOne_spec (W : Nat) (ws : List Nat) (h : IsWords W ws) :
    let r := addOne W ws
    val W r.1 + 2 ^ (W * ws.length) * r.2 = val W ws + 1 ∧
    r.1.length = ws.length ∧ IsWords W r.1 ∧ r.2 ≤ 1 := by
  induction ws with
  | nil => simp [addOne, IsWords.nil]
  | cons w ws ih =>
    have hw := h.head
    have ⟨ih1, ih2, ih3, ih4⟩ := ih h.tail
    have hp : 0 < 2 ^ W := Nat.two_pow_pos W
    simp only [addOne]
    by_cases hc : (w + 1) / 2 ^ W = 0
    · simp only [hc, if_true, val_cons, List.length_cons, Nat.mul_zero, Nat.add_zero]
      have hlt : w + 1 < 2 ^ W := (Nat.div_eq_zero_iff_lt hp).mp hc
      refine ⟨by omega, trivial, IsWords.cons hlt h.tail, by omega⟩
    · simp only [hc, if_false, val_cons, List.length_cons]
      have hge : 2 ^ W ≤ w + 1 := by
        rcases Nat.lt_or_ge (w + 1) (2 ^ W) with h' | h'
        · exact absurd ((Nat.div_eq_zero_iff_lt hp).mpr h') hc
        · exact h'
      have hmod : (w + 1) % 2 ^ W = 0 := by
        have : w + 1 = 2 ^ W := by omega
        rw [this]; exact Nat.mod_self _
      refine ⟨?_, by simp [ih2], IsWords.cons (Nat.mod_lt _ hp) ih3, ih4⟩
      rw [hmod, Nat.mul_add, Nat.mul_one, Nat.pow_add]
      have : w + 1 = 2 ^ W := by omega
      have e : 2 ^ W * (val W (addOne W ws).1 + 2 ^ (W * ws.length) * (addOne W ws).2)
          = 2 ^ W * (val W ws + 1) := by rw [ih1]
      nlinarith [e]

theorem subOne_spec (W : Nat) (ws : List Nat) (h : IsWords W ws) :
    let r := subOne W ws
    val W r.1 + 1 = val W ws + 2 ^ (W * ws.length) * r.2 ∧
    r.1.length = ws.length ∧ IsWords W r.1 ∧ r.2 ≤ 1 := by
  induction ws with
  | nil => simp [subOne, IsWords.nil]
  | cons w ws ih =>
    have hw := h.head
    have ⟨ih1, ih2, ih3, ih4⟩ := ih h.tail
    have hp : 0 < 2 ^ W := Nat.two_pow_pos W
    simp only [subOne]
    by_cases hc : w = 0
    · simp only [hc, if_true, val_cons, List.length_cons]
      refine ⟨?_, by simp [ih2], IsWords.cons (by omega) ih3, ih4⟩
      rw [Nat.mul_add, Nat.mul_one, Nat.pow_add]
      have e : 2 ^ W * (val W (subOne W ws).1 + 1)
          = 2 ^ W * (val W ws + 2 ^ (W * ws.length) * (subOne W ws).2) := by rw [ih1]
      have : 2 ^ W - 1 + 1 = 2 ^ W := by omega
      nlinarith [e]
    · simp only [hc, if_false, val_cons, List.length_cons, Nat.mul_zero, Nat.add_zero]
      refine ⟨by omega, trivial, IsWords.cons (by omega) h.tail, by omega⟩

-- ------------------------------------------------------------------ add_same_len / sub_same_len

theorem addSameLen_spec (W : Nat) (as bs : List Nat) (c : Nat)
    (ha : IsWords W as) (hb : IsWords W bs) (hl : as.length = bs.length) (hc : c ≤ 1) :
    let r := addSameLen W as bs c
    val W r.1 + 2 ^ (W * as.length) * r.2 = val W as + val W bs + c ∧
    r.1.length = as.length ∧ IsWords W r.1 ∧ r.2 ≤ 1 := by
  induction as generalizing bs c with
  | nil =>
    cases bs with
    | nil => simp [addSameLen, IsWords.nil, hc]
    | cons b bs => simp at hl
  | cons a as ih =>
    cases bs with
    | nil => simp at hl
    | cons b bs =>
      have hp : 0 < 2 ^ W := Nat.two_pow_pos W
      have ha0 := ha.head
      have hb0 := hb.head
      have hcarry : (a + b + c) / 2 ^ W ≤ 1 := by
        have : a + b + c < 2 * 2 ^ W := by omega
        have := (Nat.div_lt_iff_lt_mul hp).mpr this
        omega
      have ⟨i1, i2, i3, i4⟩ := ih bs ((a + b + c) / 2 ^ W) ha.tail hb.tail (by simpa using hl) hcarry
      simp only [addSameLen, val_cons, List.length_cons]
      refine ⟨?_, by simp [i2], IsWords.cons (Nat.mod_lt _ hp) i3, i4⟩
      rw [Nat.mul_add, Nat.mul_one, Nat.pow_add]
      have e : 2 ^ W * (val W (addSameLen W as bs ((a + b + c) / 2 ^ W)).1
            + 2 ^ (W * as.length) * (addSameLen W as bs ((a + b + c) / 2 ^ W)).2)
          = 2 ^ W * (val W as + val W bs + (a + b + c) / 2 ^ W) := by rw [i1]
      have := Nat.div_add_mod (a + b + c) (2 ^ W)
      nlinarith [e]

theorem subSameLen_spec (W : Nat) (as bs : List Nat) (c : Nat)
    (ha : IsWords W as) (hb : IsWords W bs) (hl : as.length = bs.length) (hc : c ≤ 1) :
    let r := subSameLen W as bs c
    val W r.1 + val W bs + c = val W as + 2 ^ (W * as.length) * r.2 ∧
    r.1.length = as.length ∧ IsWords W r.1 ∧ r.2 ≤ 1 := by
  induction as generalizing bs c with
  | nil =>
    cases bs with
    | nil => simp [subSameLen, IsWords.nil, hc]
    | cons b bs => simp at hl
  | cons a as ih =>
    cases bs with
    | nil => simp at hl
    | cons b bs =>
      have hp : 0 < 2 ^ W := Nat.two_pow_pos W
      have ha0 := ha.head
      have hb0 := hb.head
      have hd : (a + 2 ^ W - b - c) / 2 ^ W ≤ 1 := by
        have : a + 2 ^ W - b - c < 2 * 2 ^ W := by omega
        have := (Nat.div_lt_iff_lt_mul hp).mpr this
        omega
      have hborrow : 1 - (a + 2 ^ W - b - c) / 2 ^ W ≤ 1 := Nat.sub_le _ _
      have ⟨i1, i2, i3, i4⟩ := ih bs (1 - (a + 2 ^ W - b - c) / 2 ^ W) ha.tail hb.tail
        (by simpa using hl) hborrow
      simp only [subSameLen, val_cons, List.length_cons]
      refine ⟨?_, by simp [i2], IsWords.cons (Nat.mod_lt _ hp) i3, i4⟩
      rw [Nat.mul_add, Nat.mul_one, Nat.pow_add]
      generalize hq : (a + 2 ^ W - b - c) / 2 ^ W = q at *
      generalize hk : 1 - q = k at *
      have e : 2 ^ W * (val W (subSameLen W as bs k).1 + val W bs + k)
          = 2 ^ W * (val W as + 2 ^ (W * as.length) * (subSameLen W as bs k).2) := by rw [i1]
      have hdm := Nat.div_add_mod (a + 2 ^ W - b - c) (2 ^ W)
      rw [hq] at hdm
      have hkq : k + q = 1 := by omega
      have hab : a + 2 ^ W - b - c + b + c = a + 2 ^ W := by omega
      nlinarith [e, hdm, hkq, hab]

/-- `sub_same_len_in_place_swap` computes the same digits as `sub_same_len_in_place` -/
theorem subSameLenSwap_eq (W : Nat) (as bs : List Nat) (c : Nat) (hl : as.length = bs.length) :
    subSameLenSwap W as bs c = subSameLen W as bs c := by
  induction as generalizing bs c with
  | nil =>
    cases bs with
    | nil => simp [subSameLenSwap, subSameLen]
    | cons b bs => simp at hl
  | cons a as ih =>
    cases bs with
    | nil => simp at hl
    | cons b bs =>
      simp only [subSameLenSwap, subSameLen]
      rw [ih bs _ (by simpa using hl)]

end Dashu.Model
