import Dashu.Proofs.Int.FloatProducers
import Dashu.Proofs.Trans.Series
/-
  C05 ↔ C11 link (round 7): the results of C11's mirrored `Context::exp / exp_m1 / ln / ln_1p / powf` bodies
  (`Model/Trans/Series.lean`) carry at most `precision + 1` digits — the hypothesis of `float_cmp`.
-/
namespace Dashu.Model
open Dashu.Model.Float Dashu.Model.Trans Dashu.Proofs.Trans.Series

theorem ctxMaxP_ge_left (a b : Nat) : a ≤ ctxMaxP a b := by unfold ctxMaxP; split <;> omega
theorem ctxMaxP_ge_right (a b : Nat) : b ≤ ctxMaxP a b := by unfold ctxMaxP; split <;> omega

theorem fMul_prec (E : Env) (x y : FBigM) : (fMul E x y).prec = ctxMaxP x.prec y.prec := rfl
theorem fAddSub_prec (E : Env) (x y : FBigM) (rs : Int) : (fAddSub E x y rs).prec = ctxMaxP x.prec y.prec := rfl
theorem fDiv_prec (E : Env) (x y r : FBigM) (h : fDiv E x y = .ok r) : r.prec = ctxMaxP x.prec y.prec := by
  simp only [fDiv] at h
  split at h
  · simp only [Except.ok.injEq] at h; rw [← h]
  · simp at h

/-- `with_precision(p)` of a value of higher precision rounds: at most `p` (+1) digits whatever the operand was -/
theorem fWithPrecision_fits (B : Nat) (hB : 2 ≤ B) (m : Mode) (c : Coarse) (x : FBigM) (p : Nat) (hp : 1 ≤ p)
    (hx : p < x.prec ∨ x.prec = 0) : FitsP1 B p (fWithPrecision B m c x p).1.repr := by
  unfold fWithPrecision
  rw [if_pos (by omega)]
  exact Nat.le_succ_of_le (reprRound_digits_le B hB m c p hp _)

theorem fShl_fits (B p : Nat) (x : FBigM) (k : Int) (h : FitsP1 B p x.repr) : FitsP1 B p (fShl x k).repr := by
  unfold fShl; split
  · exact h
  · exact h

theorem fits_zero (B p : Nat) : FitsP1 B p FBigM.zero.repr := by
  show digitsI B 0 ≤ p + 1
  rw [digitsI_zero]; omega

theorem fits_one (B : Nat) (hB : 2 ≤ B) (p : Nat) : FitsP1 B p FBigM.one.repr := by
  show digits B 1 ≤ p + 1
  exact Nat.le_trans (digits_le_of_lt_pow B hB 1 1 (by rw [Nat.pow_one]; omega)) (by omega)

/-- the running sum of the Maclaurin loop never loses precision -/
theorem expLoop_prec_mono (E : Env) (r : FBigM) :
    ∀ (f : Nat) (fa : Int) (pw sm : FBigM) (k : Nat) (res : FBigM × Nat),
      expLoop E r f fa pw sm k = .ok (some res) → sm.prec ≤ res.1.prec := by
  intro f
  induction f with
  | zero => intro fa pw sm k res h; simp [expLoop] at h
  | succ f ih =>
    intro fa pw sm k res h
    simp only [expLoop] at h
    split at h
    · simp at h
    · split at h
      · simp only [Except.ok.injEq, Option.some.injEq] at h; rw [← h]
      · have := ih _ _ _ _ _ h
        rw [fAddSub_prec] at this
        exact Nat.le_trans (ctxMaxP_ge_left _ _) this

/-- … nor does the running sum of the atanh loop -/
theorem lnLoop_prec_mono (E : Env) (w : Nat) (z2 : FBigM) :
    ∀ (f : Nat) (pw sm : FBigM) (k : Nat) (res : FBigM × Nat),
      lnLoop E w z2 f pw sm k = .ok (some res) → sm.prec ≤ res.1.prec := by
  intro f
  induction f with
  | zero => intro pw sm k res h; simp [lnLoop] at h
  | succ f ih =>
    intro pw sm k res h
    simp only [lnLoop] at h
    split at h
    · simp at h
    · split at h
      · simp only [Except.ok.injEq, Option.some.injEq] at h; rw [← h]
      · have := ih _ _ _ _ h
        rw [fAddSub_prec] at this
        exact Nat.le_trans (ctxMaxP_ge_left _ _) this


theorem expReduce_prec (fuel : Nat) (E : Env) (p : Nat) (x : Float.FRepr) (minusOne : Bool) (a : Nat × Int × Nat × FBigM)
    (hns : (minusOne && E.est.belowInvBase x) = true) (h : expReduce fuel E p x minusOne = .ok a) :
    p < a.2.2.2.prec := by
  unfold expReduce at h
  rw [if_pos hns] at h
  simp only [pure, Except.pure, Except.ok.injEq] at h
  rw [← h]
  simp only [expWorkPrecNoScaling, seriesGuardDigits]
  split <;> omega

theorem expTail_fits (fuel : Nat) (E : Env) (hB : 2 ≤ E.B) (p : Nat) (hp : 1 ≤ p) (x : Float.FRepr) (minusOne : Bool)
    (a : Nat × Int × Nat × FBigM) (ha : (minusOne && E.est.belowInvBase x) = true → p < a.2.2.2.prec)
    (v : FBigM) (fl : Option Rounding) (tr : Trace)
    (h : expTail fuel E p x minusOne a = .ok ((v, fl), tr)) : FitsP1 E.B p v.repr := by
  obtain ⟨w, s, n, r⟩ := a
  unfold expTail at h
  simp only [bind, Except.bind, pure, Except.pure] at h
  split at h
  · simp at h
  · rename_i res hloop
    split at h
    · simp at h
    · rename_i sum k
      split at h
      · rename_i hns
        simp only [Except.ok.injEq, Prod.mk.injEq] at h
        obtain ⟨⟨rfl, _⟩, _⟩ := h
        rw [if_pos hns] at hloop
        have h1 := expLoop_prec_mono E _ _ _ _ _ _ _ hloop
        have h2 := ha hns
        rw [fShl_prec] at h1
        exact fWithPrecision_fits E.B hB E.m E.c sum p hp (Or.inl (by simp only at h2 h1; omega))
      · split at h
        · simp only [Except.ok.injEq, Prod.mk.injEq] at h
          obtain ⟨⟨rfl, _⟩, _⟩ := h
          refine fWithPrecision_fits E.B hB E.m E.c _ p hp (Or.inl ?_)
          rw [fAddSub_prec, fShl_prec]
          exact Nat.lt_of_lt_of_le (by simp only [expm1PowPrec]; omega) (ctxMaxP_ge_left _ _)
        · simp only [Except.ok.injEq, Prod.mk.injEq] at h
          obtain ⟨⟨rfl, _⟩, _⟩ := h
          apply fShl_fits
          simp only
          rw [Dashu.Proofs.Trans.Series.powiNonnegF_value]
          exact powiNonneg_fits false E.B hB E.m E.c p hp _ _


/-- `Context::exp` / `exp_m1` (C11's mirrored `exp_internal`): the result has at most `p + 1` digits -/
theorem expBody_fits (fuel : Nat) (E : Env) (hB : 2 ≤ E.B) (p : Nat) (hp : 1 ≤ p) (x : Float.FRepr) (minusOne : Bool)
    (v : FBigM) (fl : Option Rounding) (tr : Trace)
    (h : expBody fuel E p x minusOne = .ok ((v, fl), tr)) : FitsP1 E.B p v.repr := by
  unfold expBody at h
  simp only [bind, Except.bind] at h
  split at h
  · simp at h
  · rename_i a hred
    exact expTail_fits fuel E hB p hp x minusOne a (fun hns => expReduce_prec fuel E p x minusOne a hns hred) v fl tr h

/-- `Context::exp` with its entry guards: also the shortcut `exp(0) = 1`, `exp_m1(0) = 0` -/
theorem expFull_fits (fuel : Nat) (E : Env) (hB : 2 ≤ E.B) (p : Nat) (hp : 1 ≤ p) (x : Float.FRepr) (minusOne : Bool)
    (v : FBigM) (fl : Option Rounding) (tr : Trace)
    (h : expFull fuel E p x minusOne = .ok ((v, fl), tr)) : FitsP1 E.B p v.repr := by
  unfold expFull at h
  split at h
  · simp only [Except.ok.injEq, Prod.mk.injEq] at h
    obtain ⟨⟨rfl, _⟩, _⟩ := h
    split
    · exact fits_zero E.B p
    · exact fits_one E.B hB p
  · exact expBody_fits fuel E hB p hp x minusOne v fl tr h

theorem lnGrow_prec (g : Bool) (xs : FBigM) (w0 p : Nat) (h : w0 ≤ xs.prec) :
    w0 ≤ (if g = true then ({ repr := xs.repr, prec := if g = true then lnGrowPrec w0 p else w0 } : FBigM) else xs).prec := by
  cases g
  · simpa using h
  · simp [lnGrowPrec]

/-- `Context::ln` / `ln_1p` (C11's mirrored `ln_internal`): the result has at most `p + 1` digits -/
theorem lnBody_fits (fuel : Nat) (E : Env) (hB : 2 ≤ E.B) (p : Nat) (hp : 1 ≤ p) (x : Float.FRepr) (onePlus : Bool)
    (v : FBigM) (fl : Option Rounding) (tr : Trace)
    (h : lnBody fuel E p x onePlus = .ok ((v, fl), tr)) : FitsP1 E.B p v.repr := by
  unfold lnBody at h
  simp only [bind, Except.bind, pure, Except.pure, throw, throwThe, MonadExceptOf.throw] at h
  split at h
  · simp at h
  · rename_i sx hsc
    have hx1 : lnWorkPrec E.est p onePlus ≤ (if onePlus = true then
        fAddSub E { repr := (reprRound E.B E.m E.c (lnWorkPrec E.est p onePlus) x).1, prec := lnWorkPrec E.est p onePlus }
          FBigM.one 1
        else { repr := (reprRound E.B E.m E.c (lnWorkPrec E.est p onePlus) x).1, prec := lnWorkPrec E.est p onePlus }).prec := by
      split
      · rw [fAddSub_prec]; exact ctxMaxP_ge_left _ _
      · exact Nat.le_refl _
    have hxs : lnWorkPrec E.est p onePlus ≤ sx.2.prec := by
      clear h
      repeat' split at hsc
      all_goals (try (simp at hsc; done))
      · simp only [Except.ok.injEq] at hsc; rw [← hsc]
      all_goals
        rename_i hop _ _ xv hx
        simp only [Except.ok.injEq] at hsc
        rw [← hsc]
        first | rw [if_pos hop] at hx1 | rw [if_neg hop] at hx1
        split at hx
        · simp only [Except.ok.injEq] at hx; rw [← hx, fShl_prec]; first | done | exact hx1
        · split at hx
          · rw [fDiv_prec E _ _ _ hx]
            exact Nat.le_trans hx1 (ctxMaxP_ge_left _ _)
          · simp only [Except.ok.injEq] at hx; rw [← hx, fMul_prec]
            exact Nat.le_trans hx1 (ctxMaxP_ge_left _ _)
    have hxg := lnGrow_prec (decide (sx.1 < 0) || decide (sx.2.repr.signif < 0)) sx.2 (lnWorkPrec E.est p onePlus) p hxs
    split at h
    · simp at h
    · rename_i z hz
      have hzp : lnWorkPrec E.est p onePlus ≤ z.prec := by
        split at hz
        · rw [fDiv_prec E _ _ _ hz]; exact Nat.le_trans hxg (ctxMaxP_ge_left _ _)
        · rw [fDiv_prec E _ _ _ hz, fAddSub_prec, fAddSub_prec]
          exact Nat.le_trans hxg (Nat.le_trans (ctxMaxP_ge_left _ _) (ctxMaxP_ge_left _ _))
      split at h
      · simp at h
      · rename_i lr hloop
        split at h
        · simp at h
        · rename_i sum k
          have hsum := lnLoop_prec_mono E _ _ _ _ _ _ _ hloop
          split at h
          · simp at h
          · rename_i res hres
            have hrp : sum.prec ≤ res.prec := by
              split at hres
              · simp only [Except.ok.injEq] at hres; rw [← hres, fMul_prec]; exact ctxMaxP_ge_right _ _
              · split at hres
                · simp at hres
                · simp only [Except.ok.injEq] at hres
                  rw [← hres, fAddSub_prec, fMul_prec]
                  exact Nat.le_trans (ctxMaxP_ge_right _ _) (ctxMaxP_ge_left _ _)
            simp only [Except.ok.injEq, Prod.mk.injEq] at h
            obtain ⟨⟨rfl, _⟩, _⟩ := h
            refine fWithPrecision_fits E.B hB E.m E.c res p hp (Or.inl ?_)
            have hw : p < lnWorkPrec E.est p onePlus := by simp only [lnWorkPrec]; omega
            simp only at hsum
            omega

/-- `Context::ln` with its entry guards: also the shortcut `ln(1) = 0`, `ln_1p(0) = 0` -/
theorem lnFull_fits (fuel : Nat) (E : Env) (hB : 2 ≤ E.B) (p : Nat) (hp : 1 ≤ p) (x : Float.FRepr) (onePlus : Bool)
    (v : FBigM) (fl : Option Rounding) (tr : Trace)
    (h : lnFull fuel E p x onePlus = .ok ((v, fl), tr)) : FitsP1 E.B p v.repr := by
  unfold lnFull at h
  split at h
  · simp only [Except.ok.injEq, Prod.mk.injEq] at h
    obtain ⟨⟨rfl, _⟩, _⟩ := h
    exact fits_zero E.B p
  · repeat' split at h
    all_goals first
      | (simp at h; done)
      | exact lnBody_fits fuel E hB p hp x onePlus v fl tr h

/-- `Context::powf` (C11's mirrored body: `ln`, `mul`, `exp` at the working precision, then `with_precision(p)`): the result
    has at most `p + 1` digits -/
theorem powfBody_fits (fuel : Nat) (E : Env) (hB : 2 ≤ E.B) (p : Nat) (hp : 1 ≤ p) (base exp : Float.FRepr)
    (v : FBigM) (fl : Option Rounding) (tr : Trace)
    (h : powfBody fuel E p base exp = .ok ((v, fl), tr)) : FitsP1 E.B p v.repr := by
  unfold powfBody at h
  simp only [bind, Except.bind, pure, Except.pure] at h
  split at h
  · simp at h
  · split at h
    · simp at h
    · rename_i e he
      simp only [Except.ok.injEq, Prod.mk.injEq] at h
      obtain ⟨⟨rfl, _⟩, _⟩ := h
      refine fWithPrecision_fits E.B hB E.m E.c _ p hp ?_
      obtain ⟨⟨ev, ef⟩, et⟩ := e
      unfold expFull at he
      split at he
      · simp only [Except.ok.injEq, Prod.mk.injEq] at he
        obtain ⟨⟨rfl, _⟩, _⟩ := he
        exact Or.inr rfl
      · left
        rw [expBody_prec _ _ _ _ _ _ _ _ he]
        simp only [powfGuardDigits]; omega

end Dashu.Model
