import Dashu.Proofs.Int.Bits
/-
  C09, round 8: the carry identities that tie the two's-complement bit operations of the specification (`specAnd`, `specOr`, `specXor`
  of `Model/Int/Bits.lean`) to integer addition:  (x & y) + (x | y) = x + y   and   (x ^ y) + 2 (x & y) = x + y,  for ALL integers.
  Naturals by binary induction (`Nat.binaryRec`, `Nat.land_bit` …), integers by the four sign cases of the specification's definitions.
-/
namespace Dashu.Model

theorem nat_and_add_or (a b : Nat) : (a &&& b) + (a ||| b) = a + b := by
  induction a using Nat.binaryRec generalizing b with
  | zero => simp
  | bit x a ih =>
    induction b using Nat.binaryRec with
    | zero => simp
    | bit y b _ =>
      rw [Nat.land_bit, Nat.lor_bit]
      simp only [Nat.bit_val]
      have := ih b
      cases x <;> cases y <;> simp <;> omega

theorem nat_xor_add_two_and (a b : Nat) : (a ^^^ b) + 2 * (a &&& b) = a + b := by
  induction a using Nat.binaryRec generalizing b with
  | zero => simp
  | bit x a ih =>
    induction b using Nat.binaryRec with
    | zero => simp
    | bit y b _ =>
      rw [Nat.land_bit, Nat.xor_bit]
      simp only [Nat.bit_val]
      have := ih b
      cases x <;> cases y <;> simp <;> omega

theorem nat_andNot_add_and (a b : Nat) : natAndNot a b + (a &&& b) = a := by
  unfold natAndNot
  induction a using Nat.binaryRec generalizing b with
  | zero => simp
  | bit x a ih =>
    induction b using Nat.binaryRec with
    | zero => simp
    | bit y b _ =>
      rw [Nat.land_bit, Nat.xor_bit]
      simp only [Nat.bit_val]
      have := ih b
      cases x <;> cases y <;> simp <;> omega

/-- `(x & y) + (x | y) = x + y` in infinite two's complement, every sign combination -/
theorem specAnd_add_specOr (x y : Int) : specAnd x y + specOr x y = x + y := by
  unfold specAnd specOr Model.compl
  split <;> split
  · have := nat_and_add_or x.toNat y.toNat; omega
  · have h1 := nat_andNot_add_and x.toNat (-y - 1).toNat
    have h2 := nat_andNot_add_and (-y - 1).toNat x.toNat
    have h3 := Nat.and_comm x.toNat (-y - 1).toNat
    omega
  · have h1 := nat_andNot_add_and y.toNat (-x - 1).toNat
    have h2 := nat_andNot_add_and (-x - 1).toNat y.toNat
    have h3 := Nat.and_comm y.toNat (-x - 1).toNat
    omega
  · have := nat_and_add_or (-x - 1).toNat (-y - 1).toNat; omega

/-- `(x ^ y) + 2 (x & y) = x + y` (sum without carries + the carries), every sign combination -/
theorem specXor_add_two_specAnd (x y : Int) : specXor x y + 2 * specAnd x y = x + y := by
  unfold specXor specAnd Model.compl
  split <;> split
  · have := nat_xor_add_two_and x.toNat y.toNat; omega
  · have h1 := nat_andNot_add_and x.toNat (-y - 1).toNat
    have h2 := nat_xor_add_two_and x.toNat (-y - 1).toNat
    omega
  · have h1 := nat_andNot_add_and y.toNat (-x - 1).toNat
    have h2 := nat_xor_add_two_and (-x - 1).toNat y.toNat
    have h3 := Nat.and_comm y.toNat (-x - 1).toNat
    omega
  · have h1 := nat_and_add_or (-x - 1).toNat (-y - 1).toNat
    have h2 := nat_xor_add_two_and (-x - 1).toNat (-y - 1).toNat
    omega

end Dashu.Model
