import Dashu.Model.Int.PrimDiv
import Mathlib.Tactic.Ring
import Mathlib.Tactic.Linarith
/-
  The primitive division kernels of `base/src/ring/div_rem.rs` on every machine integer type
  (any width, signed or unsigned): results, panics (zero divisor, `MIN / −1`), and the absence of
  intermediate overflow in `div_rem_euclid`'s sign fix-up.
-/
namespace Dashu.Model.PrimDiv
open Dashu.Model

/-- Euclidean quotient and remainder stay in a signed range, except for `MIN / −1` -/
theorem signed_ediv_range (H a b : Int) (ha1 : -H ≤ a) (ha2 : a < H) (hb1 : -H ≤ b)
    (hb2 : b < H) (hb : b ≠ 0) (hex : ¬ (a = -H ∧ b = -1)) :
    -H ≤ a / b ∧ a / b < H ∧ 0 ≤ a % b ∧ a % b < H := by
  have hid := Int.emod_add_mul_ediv a b
  have hr0 := Int.emod_nonneg a hb
  have hrlt := Int.emod_lt a hb
  generalize a / b = Q at *
  generalize a % b = R at *
  rcases Int.lt_or_gt_of_ne hb with hneg | hpos
  · -- b < 0
    have hab : (b.natAbs : Int) = -b := by omega
    rw [hab] at hrlt
    refine ⟨?_, ?_, hr0, by omega⟩
    · by_contra hcon
      have hq : Q ≤ -H - 1 := by omega
      have : b * Q ≥ (-1) * Q := by nlinarith
      nlinarith
    · by_contra hcon
      have hq : H ≤ Q := by omega
      by_cases hb2' : b < -1
      · have : b * Q ≤ (-2) * Q := by nlinarith
        nlinarith
      · have hbm : b = -1 := by omega
        subst hbm
        have : a = -H := by nlinarith
        exact hex ⟨this, rfl⟩
  · -- b > 0
    have hab : (b.natAbs : Int) = b := by omega
    rw [hab] at hrlt
    refine ⟨?_, ?_, hr0, by omega⟩
    · by_contra hcon
      have hq : Q + 1 ≤ -H := by omega
      have : b * (Q + 1) ≤ 1 * (Q + 1) := by nlinarith
      nlinarith
    · by_contra hcon
      have hq : H ≤ Q := by omega
      have : b * Q ≥ 1 * Q := by nlinarith
      nlinarith

/-- truncating quotient and remainder stay in a signed range, except for `MIN / −1` -/
theorem signed_tdiv_range (H a b : Int) (hH : 0 < H) (ha1 : -H ≤ a) (ha2 : a < H) (hb1 : -H ≤ b)
    (hb2 : b < H) (hb : b ≠ 0) (hex : ¬ (a = -H ∧ b = -1)) :
    -H ≤ Int.tdiv a b ∧ Int.tdiv a b < H ∧ -H < Int.tmod a b ∧ Int.tmod a b < H := by
  have ⟨e1, e2, e3, e4⟩ := signed_ediv_range H a b ha1 ha2 hb1 hb2 hb hex
  have hq := Int.tdiv_eq_ediv (a := a) (b := b)
  have hr := Int.tmod_eq_emod (a := a) (b := b)
  have hrlt := Int.emod_lt a hb
  by_cases hc : 0 ≤ a ∨ b ∣ a
  · rw [if_pos hc] at hq hr
    refine ⟨by omega, by omega, by omega, by omega⟩
  · rw [if_neg hc] at hq hr
    have haneg : a < 0 := by
      by_contra h; exact hc (Or.inl (by omega))
    have hid := Int.emod_add_mul_ediv a b
    rcases Int.lt_or_gt_of_ne hb with hneg | hpos
    · have hs : Int.sign b = -1 := Int.sign_eq_neg_one_of_neg hneg
      have hab : (b.natAbs : Int) = -b := by omega
      rw [hs] at hq; rw [hab] at hr hrlt
      -- a < 0, b < 0: the Euclidean quotient is ≥ 1
      have hQ : 1 ≤ a / b := by
        by_contra hcon
        have : a / b ≤ 0 := by omega
        have : b * (a / b) ≥ 0 := by nlinarith
        omega
      refine ⟨by omega, by omega, by omega, by omega⟩
    · have hs : Int.sign b = 1 := Int.sign_eq_one_of_pos hpos
      have hab : (b.natAbs : Int) = b := by omega
      rw [hs] at hq; rw [hab] at hr hrlt
      -- a < 0, b > 0: the Euclidean quotient is ≤ −1
      have hQ : a / b ≤ -1 := by
        by_contra hcon
        have : 0 ≤ a / b := by omega
        have : b * (a / b) ≥ 0 := by nlinarith
        omega
      refine ⟨by omega, by omega, by omega, by omega⟩

/-- the relation used by `div_rem_euclid`'s fix-up -/
theorem euclid_fixup (a b : Int) (hb : b ≠ 0) :
    (0 ≤ Int.tmod a b → Int.tdiv a b = a / b ∧ Int.tmod a b = a % b) ∧
    (Int.tmod a b < 0 → 0 ≤ b → Int.tdiv a b - 1 = a / b ∧ Int.tmod a b + b = a % b) ∧
    (Int.tmod a b < 0 → b < 0 → Int.tdiv a b + 1 = a / b ∧ Int.tmod a b - b = a % b) := by
  have hq := Int.tdiv_eq_ediv (a := a) (b := b)
  have hr := Int.tmod_eq_emod (a := a) (b := b)
  have hr0 := Int.emod_nonneg a hb
  have hrlt := Int.emod_lt a hb
  by_cases hc : 0 ≤ a ∨ b ∣ a
  · rw [if_pos hc] at hq hr
    refine ⟨fun _ => ⟨by omega, by omega⟩, fun h => by omega, fun h => by omega⟩
  · rw [if_neg hc] at hq hr
    rcases Int.lt_or_gt_of_ne hb with hneg | hpos
    · have hs : Int.sign b = -1 := Int.sign_eq_neg_one_of_neg hneg
      have hab : (b.natAbs : Int) = -b := by omega
      rw [hs] at hq; rw [hab] at hr hrlt
      refine ⟨fun h => by omega, fun _ h => by omega, fun _ _ => ⟨by omega, by omega⟩⟩
    · have hs : Int.sign b = 1 := Int.sign_eq_one_of_pos hpos
      have hab : (b.natAbs : Int) = b := by omega
      rw [hs] at hq; rw [hab] at hr hrlt
      refine ⟨fun h => by omega, fun _ _ => ⟨by omega, by omega⟩, fun _ h => by omega⟩

/-- quotient and remainder of in-range operands are in range (any type), outside the two panics -/
theorem results_inRange (t : PTy) (a b : Int) (ha : t.InRange a) (hbr : t.InRange b) (hb : b ≠ 0)
    (hex : ¬ (t.signed ∧ a = t.lo ∧ b = -1)) :
    t.InRange (Int.tdiv a b) ∧ t.InRange (Int.tmod a b) ∧ t.InRange (a / b) ∧ t.InRange (a % b) := by
  obtain ⟨bits, signed⟩ := t
  cases signed with
  | true =>
    simp only [PTy.InRange, PTy.lo, PTy.hi, if_true] at *
    have hH : (0 : Int) < ((2 ^ (bits - 1) : Nat) : Int) := by exact_mod_cast Nat.two_pow_pos _
    generalize ((2 ^ (bits - 1) : Nat) : Int) = H at *
    have hex' : ¬ (a = -H ∧ b = -1) := fun h => hex ⟨trivial, h.1, h.2⟩
    have ⟨e1, e2, e3, e4⟩ := signed_ediv_range H a b ha.1 ha.2 hbr.1 hbr.2 hb hex'
    have ⟨f1, f2, f3, f4⟩ := signed_tdiv_range H a b hH ha.1 ha.2 hbr.1 hbr.2 hb hex'
    exact ⟨⟨f1, f2⟩, ⟨by omega, f4⟩, ⟨e1, e2⟩, ⟨by omega, e4⟩⟩
  | false =>
    simp only [PTy.InRange, PTy.lo, PTy.hi, Bool.false_eq_true, if_false] at *
    generalize ((2 ^ bits : Nat) : Int) = M at *
    have hbpos : 0 < b := by omega
    have h1 : Int.tdiv a b = a / b := Int.tdiv_eq_ediv_of_nonneg ha.1
    have h2 : Int.tmod a b = a % b := Int.tmod_eq_emod_of_nonneg ha.1
    have h3 := Int.ediv_nonneg ha.1 (Int.le_of_lt hbpos)
    have h4 := Int.ediv_le_self b ha.1
    have h5 := Int.emod_nonneg a hb
    have h6 := Int.emod_lt_of_pos a hbpos
    rw [h1, h2]
    exact ⟨⟨h3, by omega⟩, ⟨h5, by omega⟩, ⟨h3, by omega⟩, ⟨h5, by omega⟩⟩

/-- every kernel panics with Rust's divide-by-zero on a zero divisor -/
theorem zero_divisor (t : PTy) (a : Int) :
    divRem t a 0 = .error divZero ∧ divRemAssign t a 0 = .error divZero ∧
    divEuclid t a 0 = .error divZero ∧ remEuclid t a 0 = .error divZero ∧
    divRemEuclid t a 0 = .error divZero := by
  simp [divRem, divRemAssign, divEuclid, remEuclid, divRemEuclid, pdiv, prem, bind, Except.bind]

/-- every kernel panics with Rust's overflow on `MIN / −1` of a signed type -/
theorem min_neg_one (t : PTy) (hs : t.signed = true) (hlo : t.lo ≠ 0) :
    divRem t t.lo (-1) = .error overflow ∧ divRemAssign t t.lo (-1) = .error overflow ∧
    divEuclid t t.lo (-1) = .error overflow ∧ remEuclid t t.lo (-1) = .error overflow ∧
    divRemEuclid t t.lo (-1) = .error overflow := by
  simp [divRem, divRemAssign, divEuclid, remEuclid, divRemEuclid, pdiv, prem, bind, Except.bind, hs]

/-- outside the two panics every kernel returns the mathematical result, in range, and the
    overflow checks of `div_rem_euclid`'s fix-up never fire -/
theorem kernels_exact (t : PTy) (a b : Int) (ha : t.InRange a) (hbr : t.InRange b) (hb : b ≠ 0)
    (hex : ¬ (t.signed ∧ a = t.lo ∧ b = -1)) :
    divRem t a b = .ok (Int.tdiv a b, Int.tmod a b) ∧
    divRemAssign t a b = .ok (Int.tdiv a b, Int.tmod a b) ∧
    divEuclid t a b = .ok (a / b) ∧ remEuclid t a b = .ok (a % b) ∧
    divRemEuclid t a b = .ok (a / b, a % b) ∧
    t.InRange (Int.tdiv a b) ∧ t.InRange (Int.tmod a b) ∧ t.InRange (a / b) ∧ t.InRange (a % b) := by
  obtain ⟨r1, r2, r3, r4⟩ := results_inRange t a b ha hbr hb hex
  have hd : pdiv t a b = .ok (Int.tdiv a b) := by simp only [pdiv, hb, if_false, hex]
  have hm : prem t a b = .ok (Int.tmod a b) := by simp only [prem, hb, if_false, hex]
  refine ⟨?_, ?_, ?_, ?_, ?_, r1, r2, r3, r4⟩
  · simp only [divRem, hd, hm, bind, Except.bind, pure, Except.pure]
  · simp only [divRemAssign, hd, hm, bind, Except.bind, pure, Except.pure]
  · simp only [divEuclid, hb, if_false, hex]
  · simp only [remEuclid, hb, if_false, hex]
  · obtain ⟨f1, f2, f3⟩ := euclid_fixup a b hb
    simp only [divRemEuclid, hd, hm, bind, Except.bind, pure, Except.pure]
    by_cases h0 : Int.tmod a b ≥ 0
    · obtain ⟨g1, g2⟩ := f1 h0
      rw [g1, g2]
      rw [g2] at h0
      simp only [h0, if_true]
    · have hneg : Int.tmod a b < 0 := by omega
      simp only [h0, if_false]
      by_cases hbs : b ≥ 0
      · obtain ⟨g1, g2⟩ := f2 hneg hbs
        have c1 : chk t (Int.tdiv a b - 1) = .ok (a / b) := by
          rw [g1]; simp only [chk]; exact if_pos r3
        have c2 : chk t (Int.tmod a b + b) = .ok (a % b) := by
          rw [g2]; simp only [chk]; exact if_pos r4
        simp only [hbs, if_true, c1, c2]
      · obtain ⟨g1, g2⟩ := f3 hneg (by omega)
        have c1 : chk t (Int.tdiv a b + 1) = .ok (a / b) := by
          rw [g1]; simp only [chk]; exact if_pos r3
        have c2 : chk t (Int.tmod a b - b) = .ok (a % b) := by
          rw [g2]; simp only [chk]; exact if_pos r4
        simp only [hbs, if_false, c1, c2]

end Dashu.Model.PrimDiv
