import Dashu.Proofs.Int.Cmp
import Dashu.Proofs.Gen.Basic
import Mathlib.Algebra.Order.Field.Power
import Mathlib.Tactic.Positivity
import Mathlib.Tactic.Ring
import Mathlib.Order.WithBot
/-
  C05, floats: the specification order `specFCmp` (compare the significands after aligning the exponents) IS the order of
  the rational values `signif · B^exp` — so "cmp is the total order of the values" is literally what `float_cmp` says, and
  transitivity / antisymmetry / totality come from ℚ.
-/
namespace Dashu.Model
open Dashu.Proofs.Gen

/-- the mathematical value of a finite float: `signif · B^exp` in ℚ -/
def FRepr.val (B : Nat) (r : FRepr) : ℚ := (r.signif : ℚ) * (B : ℚ) ^ r.exp

theorem zpow_split (B : Nat) (hB : 2 ≤ B) (e m : Int) (h : m ≤ e) :
    (B : ℚ) ^ e = (B : ℚ) ^ m * (((B : Int) ^ (e - m).toNat : Int) : ℚ) := by
  have hB0 : (B : ℚ) ≠ 0 := Nat.cast_ne_zero.mpr (by omega)
  have he : e = m + ((e - m).toNat : Int) := by omega
  conv_lhs => rw [he]
  rw [zpow_add₀ hB0, zpow_natCast]
  push_cast
  rfl

/-- **`specFCmp` on finite operands is the order of the values in ℚ** -/
theorem specFCmp_value (B : Nat) (hB : 2 ≤ B) (a b : FRepr) (ha : a.isInfinite = false) (hb : b.isInfinite = false) :
    (specFCmp B a b = .lt ↔ a.val B < b.val B) ∧ (specFCmp B a b = .eq ↔ a.val B = b.val B) ∧
    (specFCmp B a b = .gt ↔ b.val B < a.val B) := by
  unfold specFCmp
  simp only [ha, hb, Bool.false_and, Bool.false_eq_true, if_false]
  have hBq : (0 : ℚ) < (B : ℚ) := by exact_mod_cast (by omega : 0 < B)
  have hc : (0 : ℚ) < (B : ℚ) ^ (min a.exp b.exp) := zpow_pos hBq _
  have ea := zpow_split B hB a.exp (min a.exp b.exp) (by omega)
  have eb := zpow_split B hB b.exp (min a.exp b.exp) (by omega)
  have va : a.val B = (B : ℚ) ^ (min a.exp b.exp) * ((a.signif * (B : Int) ^ (a.exp - min a.exp b.exp).toNat : Int) : ℚ) := by
    unfold FRepr.val; rw [ea]; push_cast; ring
  have vb : b.val B = (B : ℚ) ^ (min a.exp b.exp) * ((b.signif * (B : Int) ^ (b.exp - min a.exp b.exp).toNat : Int) : ℚ) := by
    unfold FRepr.val; rw [eb]; push_cast; ring
  rw [va, vb, compare_int_lt, compare_int_eq, compare_int_gt]
  generalize a.signif * (B : Int) ^ (a.exp - min a.exp b.exp).toNat = x
  generalize b.signif * (B : Int) ^ (b.exp - min a.exp b.exp).toNat = y
  generalize (B : ℚ) ^ (min a.exp b.exp) = c at hc
  refine ⟨⟨fun h => mul_lt_mul_of_pos_left (by exact_mod_cast h) hc, fun h => ?_⟩,
          ⟨fun h => by rw [h], fun h => ?_⟩,
          ⟨fun h => mul_lt_mul_of_pos_left (by exact_mod_cast h) hc, fun h => ?_⟩⟩
  · exact_mod_cast lt_of_mul_lt_mul_left h hc.le
  · exact_mod_cast mul_left_cancel₀ hc.ne' h
  · exact_mod_cast lt_of_mul_lt_mul_left h hc.le


/-- infinities are at the two ends of the order: `+inf` (significand 0, exponent > 0) is above every finite value and above
    `-inf` (exponent < 0), `-inf` below every finite value; two infinities of the same exponent compare `Equal` -/
theorem specFCmp_infinite (B : Nat) (a b : FRepr) (ha : a.isInfinite = true) :
    (b.isInfinite = false → 0 < a.exp → specFCmp B a b = .gt ∧ specFCmp B b a = .lt) ∧
    (b.isInfinite = false → a.exp < 0 → specFCmp B a b = .lt ∧ specFCmp B b a = .gt) ∧
    (b.isInfinite = true → b.exp < 0 → 0 < a.exp → specFCmp B a b = .gt ∧ specFCmp B b a = .lt) ∧
    (b.isInfinite = true → a.exp = b.exp → specFCmp B a b = .eq) := by
  have hne : a.exp ≠ 0 := by
    simp only [FRepr.isInfinite, Bool.and_eq_true, beq_iff_eq, bne_iff_ne, ne_eq] at ha; exact ha.2
  refine ⟨fun hb h => ?_, fun hb h => ?_, fun hb h1 h2 => ?_, fun hb h => ?_⟩
  · have h1 : a.exp ≥ 0 := by omega
    simp [specFCmp, ha, hb, h1]
  · have h1 : ¬ a.exp ≥ 0 := by omega
    simp [specFCmp, ha, hb, h1]
  · simp only [specFCmp, ha, hb, Bool.and_self, if_true]
    exact ⟨cmp_gt_of (by omega), cmp_lt_of (by omega)⟩
  · simp only [specFCmp, ha, hb, Bool.and_self, if_true]
    exact cmp_eq_of h

-- ------------------------------------------------------------------ one order for finite values and infinities

/-- the extended value of a float: `-inf = ⊥`, `+inf = ⊤`, finite values in ℚ between them -/
noncomputable def FRepr.xval (B : Nat) (r : FRepr) : WithBot (WithTop ℚ) :=
  if r.isInfinite then (if 0 < r.exp then ((⊤ : WithTop ℚ) : WithBot (WithTop ℚ)) else ⊥)
  else ((r.val B : WithTop ℚ) : WithBot (WithTop ℚ))

/-- the two infinities as the library builds them (`Repr::infinity()` = `0·B^1`, `neg_infinity()` = `0·B^-1`) -/
def FRepr.InfCanon (r : FRepr) : Prop := r.isInfinite = true → r.exp = 1 ∨ r.exp = -1

theorem coe_coe_lt_top (q : ℚ) : ((q : WithTop ℚ) : WithBot (WithTop ℚ)) < ⊤ := by
  rw [← WithBot.coe_top, WithBot.coe_lt_coe]; exact WithTop.coe_lt_top _

theorem specFCmp_xval (B : Nat) (hB : 2 ≤ B) (a b : FRepr) (ca : a.InfCanon) (cb : b.InfCanon) :
    (specFCmp B a b = .lt ↔ a.xval B < b.xval B) ∧ (specFCmp B a b = .eq ↔ a.xval B = b.xval B) ∧
    (specFCmp B a b = .gt ↔ b.xval B < a.xval B) := by
  by_cases ha : a.isInfinite = true <;> by_cases hb : b.isInfinite = true
  · rcases ca ha with ea | ea <;> rcases cb hb with eb | eb <;>
      simp [specFCmp, FRepr.xval, ha, hb, ea, eb, Dashu.Proofs.Gen.compare_int]
  · have hb' : b.isInfinite = false := by simpa using hb
    rcases ca ha with ea | ea <;> simp [specFCmp, FRepr.xval, ha, hb', ea, coe_coe_lt_top]
  · have ha' : a.isInfinite = false := by simpa using ha
    rcases cb hb with eb | eb <;> simp [specFCmp, FRepr.xval, ha', hb, eb, coe_coe_lt_top]
  · have ha' : a.isInfinite = false := by simpa using ha
    have hb' : b.isInfinite = false := by simpa using hb
    obtain ⟨v1, v2, v3⟩ := specFCmp_value B hB a b ha' hb'
    simp only [FRepr.xval, ha', hb', Bool.false_eq_true, if_false, WithBot.coe_lt_coe, WithTop.coe_lt_coe, WithBot.coe_inj,
      WithTop.coe_inj]
    exact ⟨v1, v2, v3⟩

end Dashu.Model
