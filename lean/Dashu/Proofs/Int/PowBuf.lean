import Dashu.Model.Int.PowBuf
import Dashu.Proofs.Int.Memory
import Dashu.Proofs.Int.MulPrim
import Dashu.Proofs.Int.Pow
import Dashu.Proofs.Int.MulCompose
/-
  `pow_word_base` / `pow_dword_base` with real buffers: no capacity assertion fails, the scratch
  memory suffices, the buffer is never resized, it has at most `exp/wexp + 1` resp. `2·exp` words and
  holds `base ^ exp`.
-/
namespace Dashu.Model

-- ------------------------------------------------------------------ sqr::sqr: length, memory

theorem sqrBuffer_length (W : Nat) (hW : 4 ≤ W) (a : List Nat) (ha : IsWords W a) (hne : a ≠ []) :
    (sqrBuffer W a).length = 2 * a.length := by
  unfold sqrBuffer
  split
  · exact (sqrSimple_spec W a ha hne).2.1
  · have hc := addSignedMulSameLen_contract W hW a.length (List.replicate (2 * a.length) 0) false a a
      rfl (by simp; omega) (isWords_replicate_zero W _) ha ha
    exact (upd_zero_product W (2 * a.length) _ _ _ hc (mul_lt_pow_int W a a ha ha _ (by omega))).2.2.1

theorem sqrMemReq_mono {a b : Nat} (h : a ≤ b) : sqrMemReq a ≤ sqrMemReq b := by
  unfold sqrMemReq
  have := mulMemReq_mono h
  split <;> split <;> omega

theorem memSqr_ok (len avail : Nat) (h : sqrMemReq len ≤ avail) : memSqr len avail = .ok () := by
  unfold memSqr
  split
  · rfl
  · rename_i hl
    apply memSameLen_ok
    unfold sqrMemReq at h
    rw [if_neg hl] at h
    exact Nat.le_trans (memBound_le_req len) h

-- ------------------------------------------------------------------ buffer steps

theorem PowBuf.push_ok (b : PowBuf) (w : Nat) (h : b.ws.length < b.cap) :
    b.push w = .ok ⟨b.ws ++ [w], b.cap⟩ := by
  unfold PowBuf.push; rw [if_pos h]

/-- with room for one more word `push_resizing` does not resize ("actually never resize") -/
theorem PowBuf.pushResizing_ok (b : PowBuf) (w : Nat) (h : b.ws.length + 1 ≤ b.cap) :
    b.pushResizing w = .ok (if w = 0 then b else ⟨b.ws ++ [w], b.cap⟩) := by
  unfold PowBuf.pushResizing
  split
  · rfl
  · have : ¬(b.ws.length + 1 > b.cap ∧ b.ws.length + 1 > 2) := by omega
    simp only [this, if_false]
    exact PowBuf.push_ok ⟨b.ws, b.cap⟩ w (by show b.ws.length < b.cap; omega)

theorem PowBuf.mulWord_ok (W m : Nat) (b : PowBuf) (hw : IsWords W b.ws) (hm : m < 2 ^ W)
    (hcap : b.ws.length + 1 ≤ b.cap) :
    ∃ b', PowBuf.mulWord W m b = .ok b' ∧ val W b'.ws = val W b.ws * m ∧ IsWords W b'.ws ∧
      b.ws.length ≤ b'.ws.length ∧ b'.ws.length ≤ b.ws.length + 1 ∧ b'.cap = b.cap := by
  obtain ⟨s1, s2, s3, s4⟩ := mulWordInPlace_spec W b.ws m 0 hw hm (Nat.two_pow_pos W)
  unfold PowBuf.mulWord
  generalize mulWordInPlace W b.ws m 0 = res at s1 s2 s3 s4
  obtain ⟨r, c⟩ := res
  simp only at s1 s2 s3 s4 ⊢
  rw [PowBuf.pushResizing_ok ⟨r, b.cap⟩ c (by simpa [s2] using hcap)]
  by_cases hc : c = 0
  · subst hc
    refine ⟨_, rfl, ?_, ?_, ?_, ?_, ?_⟩ <;> simp only [if_true]
    · simpa using s1
    · exact s3
    · omega
    · omega
  · refine ⟨_, rfl, ?_, ?_, ?_, ?_, ?_⟩ <;> simp only [hc, if_false]
    · rw [val_append, s2]; simp only [val_cons, val_nil, Nat.mul_zero, Nat.add_zero]; omega
    · exact s3.append (IsWords.cons s4 (IsWords.nil W))
    · simp [s2]
    · simp [s2]

theorem PowBuf.mulDword_ok (W m : Nat) (b : PowBuf) (hw : IsWords W b.ws) (hm : m < 2 ^ (2 * W))
    (hcap : b.ws.length + 2 ≤ b.cap) :
    ∃ b', PowBuf.mulDword W m b = .ok b' ∧ val W b'.ws = val W b.ws * m ∧ IsWords W b'.ws ∧
      b.ws.length ≤ b'.ws.length ∧ b'.ws.length ≤ b.ws.length + 2 ∧ b'.cap = b.cap := by
  obtain ⟨s1, s2, s3, s4⟩ := mulDwordInPlace_spec W m hm b.ws.length b.ws 0 rfl hw (Nat.two_pow_pos _)
  have hp : 0 < 2 ^ W := Nat.two_pow_pos W
  unfold PowBuf.mulDword
  generalize mulDwordInPlace W b.ws m 0 = res at s1 s2 s3 s4
  obtain ⟨r, c⟩ := res
  simp only [Nat.add_zero] at s1 s2 s3 s4 ⊢
  by_cases hc : c > 0
  · have hcw := isWords_dword W c s4
    have hdm := Nat.mod_add_div c (2 ^ W)
    simp only [hc, if_true]
    rw [PowBuf.push_ok ⟨r, b.cap⟩ (c % 2 ^ W) (by simp only [s2]; omega), bind_ok']
    rw [PowBuf.pushResizing_ok _ (c / 2 ^ W) (by simp only [List.length_append, s2]; simp; omega)]
    by_cases h1 : c / 2 ^ W = 0
    · refine ⟨_, rfl, ?_, ?_, ?_, ?_, ?_⟩ <;> simp only [h1, if_true]
      · have hcc : c % 2 ^ W = c := by rw [h1] at hdm; omega
        rw [val_append, s2]; simp only [val_cons, val_nil, Nat.mul_zero, Nat.add_zero]
        rw [hcc]; omega
      · exact s3.append (IsWords.cons hcw.head (IsWords.nil W))
      · simp [s2]
      · simp [s2]
    · refine ⟨_, rfl, ?_, ?_, ?_, ?_, ?_⟩ <;> simp only [h1, if_false]
      · rw [List.append_assoc, val_append, s2]
        simp only [List.cons_append, List.nil_append, val_cons, val_nil, Nat.mul_zero, Nat.add_zero]
        rw [hdm]; omega
      · exact (s3.append (IsWords.cons hcw.head (IsWords.nil W))).append
          (IsWords.cons hcw.tail.head (IsWords.nil W))
      · simp [s2]
      · simp [s2]
  · have hc0 : c = 0 := by omega
    subst hc0
    simp only [gt_iff_lt, Nat.lt_irrefl, if_false]
    refine ⟨_, rfl, ?_, s3, by show b.ws.length ≤ r.length; omega,
      by show r.length ≤ b.ws.length + 2; omega, rfl⟩
    simpa using s1

/-- the squaring step: enough scratch memory, enough capacity, value squared, length doubled -/
theorem PowBuf.square_ok (W : Nat) (hW : 4 ≤ W) (memWords : Nat) (b : PowBuf) (hw : IsWords W b.ws)
    (hne : b.ws ≠ []) (hmem : b.ws.length + sqrMemReq b.ws.length ≤ memWords)
    (hcap : 2 * b.ws.length ≤ b.cap) :
    b.square W memWords = .ok ⟨sqrBuffer W b.ws, b.cap⟩ ∧
    val W (sqrBuffer W b.ws) = val W b.ws * val W b.ws ∧ IsWords W (sqrBuffer W b.ws) ∧
    (sqrBuffer W b.ws).length = 2 * b.ws.length := by
  obtain ⟨v1, v2⟩ := sqrBuffer_spec W hW b.ws hw hne
  refine ⟨?_, v1, v2, sqrBuffer_length W hW b.ws hw hne⟩
  unfold PowBuf.square
  rw [memAlloc_ok (show b.ws.length ≤ memWords by omega), bind_ok',
    if_pos (show b.ws.length ≤ b.cap - b.ws.length by omega)]
  simp only [pure, bind_ok']
  rw [memSqr_ok _ _ (by omega)]
  rfl

-- ------------------------------------------------------------------ the loop with panicking steps

/-- `T k` holds at the top of an iteration whose exponent prefix is `k`, `M k` after the conditional
    multiplication; a squaring is only ever attempted for prefixes `k ≤ exp / 2` -/
theorem powLoopE_spec {α : Type} (mulBase sqr : α → Except PanicKind α) (exp : Nat)
    (T M : Nat → α → Prop)
    (hmul : ∀ k r, T k r → 2 * k + 1 ≤ exp → ∃ r', mulBase r = .ok r' ∧ M (2 * k + 1) r')
    (hskip : ∀ k r, T k r → M (2 * k) r)
    (hsqr : ∀ k r, M k r → k ≤ exp / 2 → ∃ r', sqr r = .ok r' ∧ T k r') :
    ∀ (p : Nat) (res : α), T (exp / 2 ^ (p + 1)) res →
      ∃ r, powLoopE mulBase sqr exp p res = .ok r ∧ M exp r := by
  intro p
  induction p with
  | zero =>
    intro res hT
    simp only [Nat.zero_add, Nat.pow_one] at hT
    simp only [powLoopE]
    have hdm := Nat.div_add_mod exp 2
    split
    · rename_i hodd
      obtain ⟨r', e, hM⟩ := hmul _ _ hT (by omega)
      have : 2 * (exp / 2) + 1 = exp := by omega
      rw [this] at hM
      exact ⟨r', e, hM⟩
    · rename_i hodd
      have hM := hskip _ _ hT
      have : 2 * (exp / 2) = exp := by omega
      rw [this] at hM
      exact ⟨res, rfl, hM⟩
  | succ p ih =>
    intro res hT
    simp only [powLoopE]
    have hdd : exp / 2 ^ (p + 1) / 2 = exp / 2 ^ (p + 1 + 1) := by
      rw [Nat.div_div_eq_div_mul, ← Nat.pow_succ]
    have hdm := Nat.div_add_mod (exp / 2 ^ (p + 1)) 2
    rw [hdd] at hdm
    have hle : exp / 2 ^ (p + 1) ≤ exp / 2 := by
      apply Nat.div_le_div_left _ (by decide)
      calc 2 = 2 ^ 1 := rfl
        _ ≤ 2 ^ (p + 1) := Nat.pow_le_pow_right (by decide) (by omega)
    have hle2 : exp / 2 ≤ exp := Nat.div_le_self _ _
    have hstep : ∀ r1, M (exp / 2 ^ (p + 1)) r1 →
        ∃ r, (do let res ← sqr r1; powLoopE mulBase sqr exp p res) = .ok r ∧ M exp r := by
      intro r1 hM
      obtain ⟨r2, e2, hT2⟩ := hsqr _ _ hM hle
      rw [e2, bind_ok']
      exact ih r2 hT2
    split
    · rename_i hbit
      obtain ⟨r', e, hM⟩ := hmul _ _ hT (by omega)
      have : 2 * (exp / 2 ^ (p + 1 + 1)) + 1 = exp / 2 ^ (p + 1) := by omega
      rw [this] at hM
      rw [e, bind_ok']
      exact hstep r' hM
    · rename_i hbit
      have hM := hskip _ _ hT
      have : 2 * (exp / 2 ^ (p + 1 + 1)) = exp / 2 ^ (p + 1) := by omega
      rw [this] at hM
      rw [bind_ok']
      exact hstep res hM


-- ------------------------------------------------------------------ pow_word_base

theorem bufDefaultCapacity_ge (n : Nat) : n + 2 ≤ bufDefaultCapacity n := by
  unfold bufDefaultCapacity; omega

/-- **`pow_word_base` with a real buffer** (the branch after the shortcuts, `exp ≥ 2·wexp`): nothing
    panics, the buffer is never reallocated, it ends with at most `exp/wexp + 1` words ("result is at most
    exp + 1 words") and holds `base ^ exp` -/
theorem powWordBaseBuf_spec (W : Nat) (hW : 4 ≤ W) (base exp : Nat) (hb : 2 < base)
    (hlt : base < 2 ^ W) (hexp : 2 * (maxExpInWord W base).1 ≤ exp) :
    ∃ b, powWordBaseBuf W base exp = .ok b ∧ val W b.ws = base ^ exp ∧ IsWords W b.ws ∧
      b.ws.length ≤ exp / (maxExpInWord W base).1 + 1 ∧
      b.cap = bufDefaultCapacity (exp / (maxExpInWord W base).1 + 1) := by
  obtain ⟨m1, m2, m3⟩ := maxExpInWord_spec W base hb hlt
  simp only [powWordBaseBuf]
  generalize maxExpInWord W base = we at m1 m2 m3 hexp ⊢
  obtain ⟨wexp, wbase⟩ := we
  simp only at m1 m2 m3 hexp ⊢
  have he2 : 2 ≤ exp / wexp := by rw [Nat.le_div_iff_mul_le (by omega)]; omega
  generalize hE : exp / wexp = e at he2 ⊢
  have hp : 0 < 2 ^ W := Nat.two_pow_pos W
  have hcap0 := bufDefaultCapacity_ge (e + 1)
  generalize hC : bufDefaultCapacity (e + 1) = cap0 at hcap0 ⊢
  -- the two initial pushes
  rw [PowBuf.push_ok ⟨[], cap0⟩ _ (by simp; omega), bind_ok',
    PowBuf.push_ok _ _ (by simp; omega), bind_ok']
  simp only [List.nil_append, List.cons_append]
  have hsq : wbase * wbase < 2 ^ W * 2 ^ W := Nat.mul_lt_mul'' m3 m3
  have hhi : wbase * wbase / 2 ^ W < 2 ^ W := (Nat.div_lt_iff_lt_mul hp).mpr hsq
  have hdm := Nat.mod_add_div (wbase * wbase) (2 ^ W)
  -- loop invariants
  let T : Nat → PowBuf → Prop := fun k b => IsWords W b.ws ∧ val W b.ws = wbase ^ (2 * k) ∧
    b.ws.length ≤ 2 * k ∧ 2 ≤ b.ws.length ∧ b.cap = cap0 ∧ 2 * k ≤ e
  let M : Nat → PowBuf → Prop := fun k b => IsWords W b.ws ∧ val W b.ws = wbase ^ k ∧
    b.ws.length ≤ k ∧ 2 ≤ b.ws.length ∧ b.cap = cap0 ∧ k ≤ e
  have hloop := powLoopE_spec (PowBuf.mulWord W wbase)
    (PowBuf.square W (e / 2 + 1 + sqrMemReq (e / 2 + 1))) e T M
    (by
      intro k b ⟨t1, t2, t3, t4, t5, t6⟩ hk
      obtain ⟨b', e1, e2, e3, e4, e5, e6⟩ := PowBuf.mulWord_ok W wbase b t1 m3 (by omega)
      exact ⟨b', e1, e3, by rw [e2, t2, ← Nat.pow_succ], by omega, by omega, by omega, hk⟩)
    (by
      intro k b ⟨t1, t2, t3, t4, t5, t6⟩
      exact ⟨t1, t2, t3, t4, t5, t6⟩)
    (by
      intro k b ⟨t1, t2, t3, t4, t5, t6⟩ hk
      have hne : b.ws ≠ [] := by intro h; rw [h] at t4; simp at t4
      have hmono := sqrMemReq_mono (show b.ws.length ≤ e / 2 + 1 by omega)
      obtain ⟨q1, q2, q3, q4⟩ := PowBuf.square_ok W hW (e / 2 + 1 + sqrMemReq (e / 2 + 1)) b t1 hne
        (by omega) (by omega)
      exact ⟨_, q1, q3, by rw [q2, t2, ← Nat.pow_add]; congr 1; omega, by rw [q4]; omega,
        by rw [q4]; omega, t5, by omega⟩)
    (bitLen e - 2) ⟨[wbase * wbase % 2 ^ W, wbase * wbase / 2 ^ W], cap0⟩
    (by
      rw [bitLen_start e he2]
      refine ⟨IsWords.cons (Nat.mod_lt _ hp) (IsWords.cons hhi (IsWords.nil W)), ?_, by simp, by simp,
        rfl, by omega⟩
      simp only [val_cons, val_nil, Nat.mul_zero, Nat.add_zero, Nat.mul_one]
      rw [hdm, Nat.pow_two])
  obtain ⟨b1, hb1, l1, l2, l3, l4, l5, l6⟩ := hloop
  rw [hb1, bind_ok']
  -- the remaining factor base^(exp % wexp)
  have hr : exp % wexp < wexp := Nat.mod_lt _ (by omega)
  have hpr : base ^ (exp % wexp) < 2 ^ W := by
    have : base ^ (exp % wexp) ≤ base ^ wexp := Nat.pow_le_pow_right (by omega) (by omega)
    rw [← m1] at this; omega
  obtain ⟨b2, f1, f2, f3, f4, f5, f6⟩ := PowBuf.mulWord_ok W (base ^ (exp % wexp)) b1 l1 hpr (by omega)
  refine ⟨b2, f1, ?_, f3, by omega, by rw [f6, l5]⟩
  rw [f2, l2, m1, ← Nat.pow_mul, ← Nat.pow_add, ← hE]
  congr 1
  exact Nat.div_add_mod exp wexp

-- ------------------------------------------------------------------ pow_dword_base

/-- **`pow_dword_base` with a real buffer**: nothing panics, the buffer is never reallocated, it ends with
    at most `2·exp` words ("result is at most 2 * exp words") and holds `base ^ exp` -/
theorem powDwordBaseBuf_spec (W : Nat) (hW : 4 ≤ W) (base exp : Nat) (hlt : base < 2 ^ (2 * W))
    (hexp : 2 ≤ exp) :
    ∃ b, powDwordBaseBuf W base exp = .ok b ∧ val W b.ws = base ^ exp ∧ IsWords W b.ws ∧
      b.ws.length ≤ 2 * exp ∧ b.cap = bufDefaultCapacity (2 * exp) := by
  simp only [powDwordBaseBuf, mulAddCarryDword_eq, Nat.add_zero]
  have hcap0 := bufDefaultCapacity_ge (2 * exp)
  generalize hC : bufDefaultCapacity (2 * exp) = cap0 at hcap0 ⊢
  obtain ⟨sv, sw⟩ := spill_spec W (base * base) (Nat.mul_lt_mul'' hlt hlt)
  rw [PowBuf.push_ok ⟨[], cap0⟩ _ (by simp; omega), bind_ok',
    PowBuf.push_ok _ _ (by simp; omega), bind_ok',
    PowBuf.push_ok _ _ (by simp; omega), bind_ok',
    PowBuf.push_ok _ _ (by simp; omega), bind_ok']
  simp only [List.nil_append, List.cons_append]
  let T : Nat → PowBuf → Prop := fun k b => IsWords W b.ws ∧ val W b.ws = base ^ (2 * k) ∧
    b.ws.length ≤ 4 * k ∧ 2 ≤ b.ws.length ∧ b.cap = cap0 ∧ 2 * k ≤ exp
  let M : Nat → PowBuf → Prop := fun k b => IsWords W b.ws ∧ val W b.ws = base ^ k ∧
    b.ws.length ≤ 2 * k ∧ 2 ≤ b.ws.length ∧ b.cap = cap0 ∧ k ≤ exp
  have hloop := powLoopE_spec (PowBuf.mulDword W base) (PowBuf.square W (exp + sqrMemReq exp)) exp T M
    (by
      intro k b ⟨t1, t2, t3, t4, t5, t6⟩ hk
      obtain ⟨b', e1, e2, e3, e4, e5, e6⟩ := PowBuf.mulDword_ok W base b t1 hlt (by omega)
      exact ⟨b', e1, e3, by rw [e2, t2, ← Nat.pow_succ], by omega, by omega, by omega, hk⟩)
    (by
      intro k b ⟨t1, t2, t3, t4, t5, t6⟩
      exact ⟨t1, t2, by omega, t4, t5, t6⟩)
    (by
      intro k b ⟨t1, t2, t3, t4, t5, t6⟩ hk
      have hne : b.ws ≠ [] := by intro h; rw [h] at t4; simp at t4
      have hmono := sqrMemReq_mono (show b.ws.length ≤ exp by omega)
      obtain ⟨q1, q2, q3, q4⟩ := PowBuf.square_ok W hW (exp + sqrMemReq exp) b t1 hne
        (by omega) (by omega)
      exact ⟨_, q1, q3, by rw [q2, t2, ← Nat.pow_add]; congr 1; omega, by rw [q4]; omega,
        by rw [q4]; omega, t5, by omega⟩)
    (bitLen exp - 2) ⟨_, cap0⟩
    (by
      rw [bitLen_start exp hexp]
      exact ⟨sw, by rw [sv, Nat.mul_one, Nat.pow_two], by simp, by simp, rfl, by omega⟩)
  obtain ⟨b1, hb1, l1, l2, l3, l4, l5, l6⟩ := hloop
  exact ⟨b1, hb1, l2, l1, l3, l5⟩


-- ------------------------------------------------------------------ the Repr built from the buffer

/-- canonical representations are unique -/
theorem canon_unique (W : Nat) (x y : TRepr) (hx : x.Canon W) (hy : y.Canon W)
    (h : x.value W = y.value W) : x = y := by
  cases x with
  | small a =>
    cases y with
    | small b => simp only [TRepr.value_small] at h; rw [h]
    | large ws =>
      exfalso
      have := hy.large_ge; have := hx.small_lt
      simp only [TRepr.value_small, TRepr.value_large] at h; omega
  | large ws =>
    cases y with
    | small b =>
      exfalso
      have := hx.large_ge; have := hy.small_lt
      simp only [TRepr.value_small, TRepr.value_large] at h; omega
    | large vs =>
      simp only [TRepr.value_large] at h
      have hlen : ws.length = vs.length := by
        rcases Nat.lt_trichotomy ws.length vs.length with hl | hl | hl
        · have := val_lt_of_length_lt W ws vs hx.large_words hy.large_ne_nil hy.2.2 hl; omega
        · exact hl
        · have := val_lt_of_length_lt W vs ws hy.large_words hx.large_ne_nil hx.2.2 hl; omega
      rw [val_inj W ws vs hx.large_words hy.large_words hlen h]

/-- `Repr::from_buffer(res)` at the end of `pow_word_base` is the `Repr` that `TypedReprRef::pow` of the
    model returns (`ofNat` of the value computed by `powWordBase`) -/
theorem powWordBaseBuf_repr (W : Nat) (hW : 4 ≤ W) (base exp : Nat) (hb : 2 < base)
    (hlt : base < 2 ^ W) (hexp : 2 * (maxExpInWord W base).1 ≤ exp) :
    ∃ b, powWordBaseBuf W base exp = .ok b ∧ fromBuffer W b.ws = ofNat W (powWordBase W base exp) := by
  obtain ⟨b, h1, h2, h3, _, _⟩ := powWordBaseBuf_spec W hW base exp hb hlt hexp
  refine ⟨b, h1, ?_⟩
  have hm := (maxExpInWord_spec W base hb hlt).2.1
  apply canon_unique W _ _ (fromBuffer_canon W _ h3) (ofNat_canon W (by omega) _)
  rw [fromBuffer_value, h2, ofNat_value W (by omega), powWordBase_spec W base exp hlt (by omega)]

theorem powDwordBaseBuf_repr (W : Nat) (hW : 4 ≤ W) (base exp : Nat) (hlt : base < 2 ^ (2 * W))
    (hexp : 2 ≤ exp) :
    ∃ b, powDwordBaseBuf W base exp = .ok b ∧ fromBuffer W b.ws = ofNat W (powDwordBase base exp) := by
  obtain ⟨b, h1, h2, h3, _, _⟩ := powDwordBaseBuf_spec W hW base exp hlt hexp
  refine ⟨b, h1, ?_⟩
  apply canon_unique W _ _ (fromBuffer_canon W _ h3) (ofNat_canon W (by omega) _)
  rw [fromBuffer_value, h2, ofNat_value W (by omega), powDwordBase_spec base exp hexp]

end Dashu.Model
