import Dashu.Model.Int.PowCompose
import Dashu.Proofs.Int.Pow
import Dashu.Proofs.Int.Bits
/-
  `UBig::pow` / `IBig::pow` with the mirrored C09 kernels (`trailing_zeros`, `>>`, `<<`) compute
  `base ^ exp`; the `usize` overflow guard is the one of `ubigPowChecked`.
-/
namespace Dashu.Model

/-- the model's `trailingZeros` is the number of trailing zero bits in the sense of C09's `IsTz` -/
theorem isTz_trailingZeros (n : Nat) (hn : n ≠ 0) : IsTz n (trailingZeros n) := by
  induction n using Nat.strongRecOn with
  | _ n ih =>
    by_cases hodd : n % 2 = 1
    · rw [trailingZeros_odd n hodd]; exact IsTz.zero_of_odd hodd
    · have hev : n % 2 = 0 := by omega
      rw [trailingZeros_even n hn hev]
      have hlt : n / 2 < n := Nat.div_lt_self (Nat.pos_of_ne_zero hn) (by decide)
      have h2 : 2 * (n / 2) = n := by omega
      have := IsTz.double (ih (n / 2) hlt (by omega))
      rw [h2, Nat.add_comm] at this
      exact this

theorem ubigPowKernels_spec (W : Nat) (hW : 4 ≤ W) (a : TRepr) (exp : Nat) (ha : a.Canon W) :
    (powShiftOverflows (a.value W) exp = true → ubigPowKernels W a exp = .error .allocTooMuch) ∧
    (powShiftOverflows (a.value W) exp = false →
      ∃ r, ubigPowKernels W a exp = .ok r ∧ r.value W = a.value W ^ exp ∧ r.Canon W) := by
  obtain ⟨tz0, tz1⟩ := TRepr.trailingZeros_spec W a ha
  by_cases hz : a.value W = 0
  · -- zero: `trailing_zeros()` is `None`, no shift
    have ht := tz0 hz
    have hov : powShiftOverflows (a.value W) exp = false := by
      simp [powShiftOverflows, hz, trailingZeros_zero]
    have hp := TRepr.pow_spec W hW a exp ha
    constructor
    · intro h; rw [hov] at h; cases h
    · intro _
      exact ⟨a.pow W exp, by simp [ubigPowKernels, ht, bind, Except.bind], hp.1, hp.2⟩
  · obtain ⟨k, hk, hkz⟩ := tz1 hz
    have hkt : k = trailingZeros (a.value W) := IsTz.unique hkz (isTz_trailingZeros _ hz)
    subst hkt
    have hun : ubigPowKernels W a exp =
        (if trailingZeros (a.value W) ≠ 0 then
          if 2 ^ usizeBits ≤ exp * trailingZeros (a.value W) then .error .allocTooMuch
          else .ok ((((a.shr W (trailingZeros (a.value W)) true).pow W exp)).shl W
            (exp * trailingZeros (a.value W)))
        else .ok (a.pow W exp)) := by
      simp [ubigPowKernels, hk, bind, Except.bind]
    rw [hun]
    by_cases hs : trailingZeros (a.value W) = 0
    · have hov : powShiftOverflows (a.value W) exp = false := by simp [powShiftOverflows, hs]
      have hp := TRepr.pow_spec W hW a exp ha
      rw [hov]
      simp only [hs, ne_eq, not_true_eq_false, if_false]
      exact ⟨fun h => (by cases h), fun _ => ⟨_, rfl, hp.1, hp.2⟩⟩
    · simp only [ne_eq, hs, not_false_eq_true, if_true]
      by_cases hov : 2 ^ usizeBits ≤ exp * trailingZeros (a.value W)
      · have : powShiftOverflows (a.value W) exp = true := by simp [powShiftOverflows, hs, hov]
        rw [this, if_pos hov]
        exact ⟨fun _ => rfl, fun h => (by cases h)⟩
      · have : powShiftOverflows (a.value W) exp = false := by simp [powShiftOverflows, hs, hov]
        rw [this, if_neg hov]
        refine ⟨fun h => (by cases h), fun _ => ⟨_, rfl, ?_, ?_⟩⟩
        · have h1 := TRepr.shr_spec W (by omega) a (trailingZeros (a.value W)) true ha
          have h2 := TRepr.pow_spec W hW _ exp h1.2
          have h3 := TRepr.shl_spec W (by omega) _ (exp * trailingZeros (a.value W)) h2.2
          rw [h3.1, h2.1, h1.1]
          have hsp := trailingZeros_spec (a.value W)
          generalize trailingZeros (a.value W) = s at *
          generalize a.value W = n at *
          rw [Nat.mul_comm exp s, Nat.pow_mul, ← Nat.mul_pow, hsp]
        · have h1 := TRepr.shr_spec W (by omega) a (trailingZeros (a.value W)) true ha
          have h2 := TRepr.pow_spec W hW _ exp h1.2
          exact (TRepr.shl_spec W (by omega) _ (exp * trailingZeros (a.value W)) h2.2).2

theorem ibigPowKernels_spec (W : Nat) (hW : 4 ≤ W) (a : SRepr) (exp : Nat) (ha : a.WF W) :
    (powShiftOverflows (a.mag.value W) exp = true → ibigPowKernels W a exp = .error .allocTooMuch) ∧
    (powShiftOverflows (a.mag.value W) exp = false →
      ∃ r, ibigPowKernels W a exp = .ok r ∧ r.value W = a.value W ^ exp ∧ r.WF W) := by
  obtain ⟨u1, u2⟩ := ubigPowKernels_spec W hW a.mag exp ha.1
  constructor
  · intro h; simp [ibigPowKernels, u1 h, bind, Except.bind]
  · intro h
    obtain ⟨r, hr, hv, hc⟩ := u2 h
    refine ⟨withSign r (a.neg && exp % 2 == 1), by simp [ibigPowKernels, hr, bind, Except.bind], ?_,
      withSign_wf W _ _ hc⟩
    obtain ⟨an, am⟩ := a
    simp only [SRepr.value_mk] at hv ⊢
    rw [withSign_value, hv]
    cases an with
    | false => simp
    | true =>
      simp only [Bool.true_and, if_true]
      rw [neg_pow_int]
      by_cases h2 : exp % 2 = 1 <;> simp [h2]

end Dashu.Model
