import Dashu.Proofs.Int.Div
import Dashu.Proofs.Int.NumModular
/-
  Citeable contracts of num-modular's reciprocal dividers (for C07 / C13 and anyone else who used to
  take them as frontier).  Two layers:
  * the MIRROR (`Dashu.Model.NumModular.*`, the crate's algorithms) equals floor division;
  * the CONTRACT FUNCTIONS used by word-level models (`Dashu.Model.Div.div1by1/div2by1/div2by2/
    div3by2/div4by2`: floor division guarded by the crate's precondition) succeed with the floor
    quotient and remainder — so a model may call them and cite these theorems.
  `d` is always the NORMALISED divisor (top bit set), which is what `Normalized2by1Divisor::new`,
  `Normalized3by2Divisor::new` assert and what `PreMulInv2by1::new` / `PreMulInv3by2::new` produce
  (`premulinv_new_*`).  All for every word size `W ≥ 1`.
-/
namespace Dashu.Model.NumModular.Contract
open Dashu.Model Dashu.Model.Div

/-- `Normalized2by1Divisor::invert_word` -/
theorem invert_word (W d : Nat) (hW : 1 ≤ W) (hd1 : 2 ^ W ≤ 2 * d) (hd2 : d < 2 ^ W) :
    invertWord W d + 2 ^ W = (2 ^ (2 * W) - 1) / d ∧ invertWord W d < 2 ^ W :=
  ⟨(invertWord_spec W d hW hd1 hd2).1, (invertWord_spec W d hW hd1 hd2).2.1⟩

/-- `Normalized3by2Divisor::invert_double_word` -/
theorem invert_double_word (W d : Nat) (hW : 1 ≤ W) (hd1 : 2 ^ (2 * W) ≤ 2 * d) (hd2 : d < 2 ^ (2 * W)) :
    invertDoubleWord W d + 2 ^ W = (2 ^ (3 * W) - 1) / d ∧ invertDoubleWord W d < 2 ^ W :=
  ⟨(invertDoubleWord_spec W d hW hd1 hd2).1, (invertDoubleWord_spec W d hW hd1 hd2).2.1⟩

/-- `div_rem_1by1(a)` on a normalised word divisor: `if a < d {(0, a)} else {(1, a − d)}` = floor division -/
theorem div_rem_1by1 (W d a : Nat) (hd1 : 2 ^ W ≤ 2 * d) (ha : a < 2 ^ W) (hd : 0 < d) :
    Div.div1by1 d a = (a / d, a % d) := by
  unfold Div.div1by1
  by_cases h : a < d
  · simp [h, Nat.div_eq_of_lt h, Nat.mod_eq_of_lt h]
  · simp only [h, if_false]
    have h2 : a - d < d := by omega
    have e1 : a / d = 1 := by
      apply Nat.div_eq_of_lt_le <;> omega
    have e2 : a % d = a - d := by
      have := Nat.div_add_mod a d; rw [e1] at this; omega
    rw [e1, e2]

/-- `div_rem_2by2(a)` on a normalised double-word divisor -/
theorem div_rem_2by2 (W d a : Nat) (hd1 : 2 ^ (2 * W) ≤ 2 * d) (ha : a < 2 ^ (2 * W)) (hd : 0 < d) :
    Div.div2by2 d a = (a / d, a % d) := by
  unfold Div.div2by2
  by_cases h : a < d
  · simp [h, Nat.div_eq_of_lt h, Nat.mod_eq_of_lt h]
  · simp only [h, if_false]
    have h2 : a - d < d := by omega
    have e1 : a / d = 1 := by
      apply Nat.div_eq_of_lt_le <;> omega
    have e2 : a % d = a - d := by
      have := Nat.div_add_mod a d; rw [e1] at this; omega
    rw [e1, e2]

/-- `div_rem_2by1(a)`, mirror: Möller–Granlund Algorithm 4 = floor division when `a_hi < d` -/
theorem div_rem_2by1 (W d a : Nat) (hW : 1 ≤ W) (hd1 : 2 ^ W ≤ 2 * d) (hd2 : d < 2 ^ W)
    (ha : a / 2 ^ W < d) : NumModular.div2by1 W d (invertWord W d) a = (a / d, a % d) :=
  div2by1_spec W d a hW hd1 hd2 ha

/-- `div_rem_3by2(a_lo, a_hi)`, mirror: Algorithm 5 = floor division when `a_hi < d` -/
theorem div_rem_3by2 (W d aLo aHi : Nat) (hW : 1 ≤ W) (hd1 : 2 ^ (2 * W) ≤ 2 * d)
    (hd2 : d < 2 ^ (2 * W)) (hlo : aLo < 2 ^ W) (hhi : aHi < d) :
    NumModular.div3by2 W d (invertDoubleWord W d) aLo aHi
      = ((aLo + 2 ^ W * aHi) / d, (aLo + 2 ^ W * aHi) % d) :=
  div3by2_spec W d aLo aHi hW hd1 hd2 hlo hhi

/-- `div_rem_4by2(a_lo, a_hi)`, mirror -/
theorem div_rem_4by2 (W d aLo aHi : Nat) (hW : 1 ≤ W) (hd1 : 2 ^ (2 * W) ≤ 2 * d)
    (hd2 : d < 2 ^ (2 * W)) (hlo : aLo < 2 ^ (2 * W)) (hhi : aHi < d) :
    NumModular.div4by2 W d (invertDoubleWord W d) aLo aHi
      = ((aLo + 2 ^ (2 * W) * aHi) / d, (aLo + 2 ^ (2 * W) * aHi) % d) :=
  div4by2_spec W d aLo aHi hW hd1 hd2 hlo hhi

/-- the contract functions a word-level model may call: under the crate's precondition they return
    the floor quotient and remainder, and they ARE the mirrored algorithms -/
theorem contract_2by1 (W d a : Nat) (hW : 1 ≤ W) (hd1 : 2 ^ W ≤ 2 * d) (hd2 : d < 2 ^ W)
    (ha : a / 2 ^ W < d) :
    Div.div2by1 W d a = .ok (a / d, a % d) ∧
    Div.div2by1 W d a = .ok (NumModular.div2by1 W d (invertWord W d) a) := by
  rw [div2by1_spec W d a hW hd1 hd2 ha]
  exact ⟨div2by1_ok W d a ha, div2by1_ok W d a ha⟩

theorem contract_3by2 (W d aLo aHi : Nat) (hW : 1 ≤ W) (hd1 : 2 ^ (2 * W) ≤ 2 * d)
    (hd2 : d < 2 ^ (2 * W)) (hlo : aLo < 2 ^ W) (hhi : aHi < d) :
    Div.div3by2 W d aLo aHi = .ok ((aLo + 2 ^ W * aHi) / d, (aLo + 2 ^ W * aHi) % d) ∧
    Div.div3by2 W d aLo aHi = .ok (NumModular.div3by2 W d (invertDoubleWord W d) aLo aHi) := by
  rw [div3by2_spec W d aLo aHi hW hd1 hd2 hlo hhi]
  exact ⟨div3by2_ok W d aLo aHi hhi, div3by2_ok W d aLo aHi hhi⟩

theorem contract_4by2 (W d aLo aHi : Nat) (hW : 1 ≤ W) (hd1 : 2 ^ (2 * W) ≤ 2 * d)
    (hd2 : d < 2 ^ (2 * W)) (hlo : aLo < 2 ^ (2 * W)) (hhi : aHi < d) :
    Div.div4by2 W d aLo aHi = .ok ((aLo + 2 ^ (2 * W) * aHi) / d, (aLo + 2 ^ (2 * W) * aHi) % d) ∧
    Div.div4by2 W d aLo aHi = .ok (NumModular.div4by2 W d (invertDoubleWord W d) aLo aHi) := by
  rw [div4by2_spec W d aLo aHi hW hd1 hd2 hlo hhi]
  exact ⟨div4by2_ok W d aLo aHi hhi, div4by2_ok W d aLo aHi hhi⟩

/-- `PreMulInv2by1::new(d)` / `ConstSingleDivisor::new`: `shift = d.leading_zeros()`,
    `d << shift` is normalised (so `Normalized2by1Divisor::new` does not assert) -/
theorem premulinv_new_word (W d : Nat) (hd : d ≠ 0) (hlt : d < 2 ^ W) :
    lz W d < W ∧ 2 ^ (W - 1) ≤ d * 2 ^ lz W d ∧ d * 2 ^ lz W d < 2 ^ W ∧
    normNew W ((d * 2 ^ lz W d) % 2 ^ W) = .ok (d * 2 ^ lz W d) := by
  obtain ⟨l1, l2, l3⟩ := lz_spec (bits := W) hd hlt
  refine ⟨l1, l2, l3, ?_⟩
  rw [Nat.mod_eq_of_lt l3]; exact normNew_ok W _ l2

/-- `PreMulInv3by2::new(d)` / `ConstDoubleDivisor::new` for `d ≥ 2^W` -/
theorem premulinv_new_dword (W d : Nat) (hW : 1 ≤ W) (hge : 2 ^ W ≤ d) (hlt : d < 2 ^ (2 * W)) :
    lz (2 * W) d + 1 ≤ W ∧ 2 ^ (2 * W - 1) ≤ d * 2 ^ lz (2 * W) d ∧ d * 2 ^ lz (2 * W) d < 2 ^ (2 * W) ∧
    normNew (2 * W) ((d * 2 ^ lz (2 * W) d) % 2 ^ (2 * W)) = .ok (d * 2 ^ lz (2 * W) d) := by
  have hd : d ≠ 0 := by have := Nat.two_pow_pos W; omega
  obtain ⟨l1, l2, l3⟩ := lz_spec (bits := 2 * W) hd hlt
  refine ⟨lz_dword_lt W d hW hge, l2, l3, ?_⟩
  rw [Nat.mod_eq_of_lt l3]; exact normNew_ok (2 * W) _ l2

end Dashu.Model.NumModular.Contract
