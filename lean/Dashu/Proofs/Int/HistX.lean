import Dashu.Model.Int.HistX
import Dashu.Proofs.Int.Hist
import Dashu.Proofs.NT.LehmerComplete
import Dashu.Proofs.NT.Root
import Dashu.Proofs.Text.BytesDecode
import Dashu.Proofs.Text.BytesModel
import Dashu.Proofs.Text.Grammar
import Mathlib.Data.Nat.Sqrt
/-
  Soundness of the extended history instruction set (`Model/Int/HistX.lean`): every register is canonical and
  holds the value the value-level program computes.  The per-operation facts are C12's (`gcdReprM_spec`,
  `sqrtRemLarge_spec`, `nthRootNewton_spec`) and C07's (`parseRadix_spec`, `fromLeBytes_eq`,
  `fromSignedLeBytes_eq`, `fromSigned_toSigned`) theorems about the SAME executable definitions.
-/
namespace Dashu.Model
open Dashu.Model.NT Dashu.Model.Text

theorem ofExceptNat_agree (W : Nat) (hW : 1 ≤ W) (n : Nat) :
    HAgree W (ofExceptNat W (.ok n)) (.ok (n : Int)) := by
  refine ⟨scanon_pos W _ (ofNat_canon W hW n), ?_⟩
  simp [ofNat_value W hW]

theorem sOfInt_agree (W : Nat) (hW : 1 ≤ W) (z : Int) : HAgree W (.ok (sOfInt W z)) (.ok z) :=
  sOfInt_spec W hW z

/-- `sqrt_rem` (value level, all sizes): the floor square root -/
theorem sqrtRepr_isRoot (W : Nat) (hW : 0 < W) (hWe : W % 2 = 0) (x : Nat) : IsRoot x 2 (sqrtRepr W x) := by
  unfold sqrtRepr sqrtRemRepr
  split
  · exact iroot_spec x 2 (by decide)
  · exact (sqrtRemLarge_spec W hW hWe _ sqrtRemKernelFrontier_contract x).1

theorem isRoot_two_eq_sqrt {x s : Nat} (h : IsRoot x 2 s) : s = Nat.sqrt x := by
  apply Nat.eq_sqrt.mpr
  obtain ⟨h1, h2⟩ := h
  simp only [Nat.pow_two] at h1 h2
  exact ⟨h1, h2⟩

theorem nthRootRepr_isRoot (W : Nat) (hW : 0 < W) (hWe : W % 2 = 0) (x n : Nat) (hn : 0 < n) :
    ∃ s, nthRootRepr W true x n = .ok s ∧ IsRoot x n s := by
  match n, hn with
  | 1, _ => exact ⟨x, rfl, by simp [IsRoot]⟩
  | 2, _ => exact ⟨_, rfl, sqrtRepr_isRoot W hW hWe x⟩
  | k + 3, _ =>
    unfold nthRootRepr
    simp only []
    split
    · rename_i hbits
      refine ⟨_, rfl, ?_⟩
      have hlt := lt_two_pow_bitLen x
      have hle : 2 ^ NT.bitLen x ≤ 2 ^ (k + 3) := Nat.pow_le_pow_right (by decide) hbits
      by_cases hx : x = 0
      · subst hx; simp [IsRoot]
      · simp only [hx, and_false, if_false]
        exact ⟨by simp; omega, by norm_num; omega⟩
    · rename_i hbits
      exact ⟨_, rfl, nthRootNewton_spec x (k + 2) (by omega) (by omega)⟩

theorem hstepX_sound (W : Nat) (hW : 4 ≤ W) (env : List SRepr) (op : HOpX) (hok : op.Ok W)
    (henv : ∀ r ∈ env, SCanon W r) :
    HAgree W (hstepX W env op) (hspecX W (env.map (·.value W)) op) := by
  have hW1 : 1 ≤ W := by omega
  cases op with
  | base op => exact hstep_sound W hW env op hok henv
  | gcd i j =>
    simp only [hstepX, hspecX, getElem?_map_value]
    cases h : env[i]? <;> cases h' : env[j]? <;> try trivial
    rename_i a b
    simp only [Option.map_some, gcdInt]
    rw [gcdReprM_spec W (by omega)]
    have hiff : ((a.value W).natAbs = 0 ∧ (b.value W).natAbs = 0) ↔ (a.value W = 0 ∧ b.value W = 0) := by omega
    by_cases hz : a.value W = 0 ∧ b.value W = 0
    · rw [if_pos hz, if_pos (hiff.2 hz)]; rfl
    · rw [if_neg hz, if_neg (fun h'' => hz (hiff.1 h''))]
      exact ofExceptNat_agree W hW1 _
  | sqrt i =>
    simp only [hstepX, hspecX, getElem?_map_value]
    cases h : env[i]? with
    | none => trivial
    | some a =>
      simp only [Option.map_some, sqrtInt]
      by_cases hneg : a.value W < 0
      · rw [if_pos hneg, if_pos hneg]; rfl
      · rw [if_neg hneg, if_neg hneg]
        have hr := isRoot_two_eq_sqrt (sqrtRepr_isRoot W (by omega) hok (a.value W).natAbs)
        have hn : (a.value W).natAbs = (a.value W).toNat := by omega
        rw [hr, hn]
        exact ofExceptNat_agree W hW1 _
  | nthRoot i n =>
    simp only [hstepX, hspecX, getElem?_map_value]
    cases h : env[i]? with
    | none => trivial
    | some a =>
      simp only [Option.map_some, nthRootInt]
      by_cases hn0 : n = 0
      · rw [if_pos hn0, if_pos hn0]; rfl
      · rw [if_neg hn0, if_neg hn0]
        by_cases hneg : a.value W < 0 ∧ n % 2 = 0
        · rw [if_pos hneg, if_pos hneg]; rfl
        · rw [if_neg hneg, if_neg hneg]
          obtain ⟨s, hs, hroot⟩ := nthRootRepr_isRoot W (by omega) hok (a.value W).natAbs n (by omega)
          rw [hs]
          have := IsRoot.unique (by omega : 0 < n) hroot (iroot_spec (a.value W).natAbs n (by omega))
          rw [← this]
          exact sOfInt_agree W hW1 _
  | fromStr signed radix text =>
    simp only [hstepX, hspecX]
    rw [parseRadix_spec W hok]
    cases parseRadixSpec signed text radix with
    | error e => trivial
    | ok z => exact sOfInt_agree W hW1 z
  | fromLeBytes bs =>
    simp only [hstepX, hspecX]
    rw [fromLeBytes_eq W hok.1 hok.2]
    exact ofExceptNat_agree W hW1 _
  | fromBeBytes bs =>
    simp only [hstepX, hspecX, fromBeBytes]
    rw [fromLeBytes_eq W hok.1 hok.2]
    exact ofExceptNat_agree W hW1 _
  | fromSignedLeBytes bs =>
    simp only [hstepX, hspecX]
    rw [fromSignedLeBytes_eq W hok.1 hok.2.1 bs hok.2.2]
    exact sOfInt_agree W hW1 _
  | fromSignedBeBytes bs =>
    simp only [hstepX, hspecX, fromSignedBeBytes]
    rw [fromSignedLeBytes_eq W hok.1 hok.2.1 bs.reverse (fun b hb => hok.2.2 b (List.mem_reverse.mp hb))]
    exact sOfInt_agree W hW1 _
  | viaLeBytes i =>
    simp only [hstepX, hspecX, getElem?_map_value]
    cases h : env[i]? with
    | none => trivial
    | some a =>
      simp only [Option.map_some]
      rw [(fromSigned_toSigned W hok.1 hok.2 (a.value W)).1]
      exact sOfInt_agree W hW1 _
  | viaBeBytes i =>
    simp only [hstepX, hspecX, getElem?_map_value]
    cases h : env[i]? with
    | none => trivial
    | some a =>
      simp only [Option.map_some]
      rw [(fromSigned_toSigned W hok.1 hok.2 (a.value W)).2]
      exact sOfInt_agree W hW1 _

theorem hrunX_sound (W : Nat) (hW : 4 ≤ W) (ops : List HOpX) (hok : ∀ op ∈ ops, op.Ok W) (env : List SRepr)
    (henv : ∀ r ∈ env, SCanon W r) :
    (∀ r ∈ (hrunX W ops env).1, SCanon W r) ∧
    hrunSpecX W ops (env.map (·.value W)) = ((hrunX W ops env).1.map (·.value W), (hrunX W ops env).2) := by
  induction ops generalizing env with
  | nil => exact ⟨henv, rfl⟩
  | cons op ops ih =>
    have hs := hstepX_sound W hW env op (hok op (List.mem_cons_self ..)) henv
    have hok' : ∀ o ∈ ops, o.Ok W := fun o ho => hok o (List.mem_cons_of_mem _ ho)
    simp only [hrunX, hrunSpecX]
    cases h1 : hstepX W env op <;> cases h2 : hspecX W (env.map (·.value W)) op <;>
      simp only [h1, h2, HAgree] at hs ⊢
    · rename_i r v
      have henv' : ∀ x ∈ env ++ [r], SCanon W x := by
        intro x hx
        rcases List.mem_append.mp hx with h | h
        · exact henv x h
        · simp at h; rw [h]; exact hs.1
      have := ih hok' (env ++ [r]) henv'
      rw [List.map_append, List.map_cons, List.map_nil, hs.2] at this
      exact this
    · exact ⟨henv, trivial⟩
    · exact ⟨henv, trivial⟩

end Dashu.Model
