import Dashu.Model.Int.MulPrim
import Mathlib.Tactic.Ring
import Mathlib.Tactic.LinearCombination
import Mathlib.Tactic.Zify
import Mathlib.Tactic.Linarith
/-
  `math::mul_add_carry_dword` (four word multiplications with the carries `c0`, `c1a`, `c1b`) returns exactly the low
  and high double word of `lhs * rhs + carry`, for ALL naturals; and "this operation will not overflow": every
  intermediate `extend_word(a) * extend_word(b) + carries` on word operands fits a double word.
-/
namespace Dashu.Model

theorem mulAddCarryDword_eq (W lhs rhs carry : Nat) :
    mulAddCarryDword W lhs rhs carry
      = ((lhs * rhs + carry) % 2 ^ (2 * W), (lhs * rhs + carry) / 2 ^ (2 * W)) := by
  have hB : 0 < 2 ^ W := Nat.two_pow_pos W
  have hBB : (2 : Nat) ^ (2 * W) = 2 ^ W * 2 ^ W := by rw [Nat.two_mul, Nat.pow_add]
  unfold mulAddCarryDword mulAddCarry mulAdd2Carry
  simp only []
  generalize hB' : 2 ^ W = B at *
  have el := Nat.mod_add_div lhs B
  have er := Nat.mod_add_div rhs B
  have ec := Nat.mod_add_div carry B
  generalize lhs % B = x0 at *
  generalize lhs / B = x1 at *
  generalize rhs % B = y0 at *
  generalize rhs / B = y1 at *
  generalize carry % B = ic0 at *
  generalize carry / B = ic1 at *
  have e0 := Nat.mod_add_div (x0 * y0 + ic0) B
  have h0 := Nat.mod_lt (x0 * y0 + ic0) hB
  generalize (x0 * y0 + ic0) % B = z0 at *
  generalize (x0 * y0 + ic0) / B = c0 at *
  have e1 := Nat.mod_add_div (x1 * y0 + c0) B
  generalize (x1 * y0 + c0) % B = z1' at *
  generalize (x1 * y0 + c0) / B = c1a at *
  have e2 := Nat.mod_add_div (x0 * y1 + z1' + ic1) B
  have h2 := Nat.mod_lt (x0 * y1 + z1' + ic1) hB
  generalize (x0 * y1 + z1' + ic1) % B = z1 at *
  generalize (x0 * y1 + z1' + ic1) / B = c1b at *
  have e3 := Nat.mod_add_div (x1 * y1 + c1a + c1b) B
  generalize (x1 * y1 + c1a + c1b) % B = z2 at *
  generalize (x1 * y1 + c1a + c1b) / B = z3 at *
  have tot : lhs * rhs + carry = (z0 + B * z1) + (B * B) * (z2 + B * z3) := by
    subst el er ec
    zify at e0 e1 e2 e3 ⊢
    linear_combination -(e0 + (B : Int) * e1 + (B : Int) * e2 + (B : Int) * (B : Int) * e3)
  have hlo : z0 + B * z1 < B * B := by nlinarith
  rw [hBB, tot]
  have hpos : 0 < B * B := Nat.mul_pos hB hB
  refine Prod.ext ?_ ?_
  · show z0 + B * z1 = _
    rw [Nat.add_mul_mod_self_left, Nat.mod_eq_of_lt hlo]
  · show z2 + B * z3 = _
    rw [Nat.add_mul_div_left _ _ hpos, Nat.div_eq_of_lt hlo, Nat.zero_add]

/-- "This operation will not overflow": for word operands every `extend_word(a) * extend_word(b) + …` above fits a
    double word, so each high part is a word -/
theorem mulAddCarry_fits (B a b c : Nat) (ha : a < B) (hb : b < B) (hc : c < B) :
    a * b + c < B * B := by nlinarith

theorem mulAdd2Carry_fits (B a b c0 c1 : Nat) (ha : a < B) (hb : b < B) (h0 : c0 < B) (h1 : c1 < B) :
    a * b + c0 + c1 < B * B := by
  have : a * b ≤ (B - 1) * (B - 1) := Nat.mul_le_mul (by omega) (by omega)
  have hB : 1 ≤ B := by omega
  obtain ⟨k, rfl⟩ : ∃ k, B = k + 1 := ⟨B - 1, by omega⟩
  simp only [Nat.add_sub_cancel] at this
  nlinarith

end Dashu.Model
