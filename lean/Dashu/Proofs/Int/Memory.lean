import Dashu.Model.Int.Memory
import Mathlib.Data.Nat.Log
import Mathlib.Tactic.Ring
import Mathlib.Tactic.Linarith
/-
  Scratch-memory sufficiency of the multiplication / squaring kernels: for every operand size the
  `MemoryAllocation` made by `mul_large` / `square_large` (sized by `memory_requirement_exact`) is large
  enough for every `allocate_slice_*` performed by the recursion, i.e. the
  "internal error: not enough memory allocated" branch of `memory.rs` is unreachable.

  Method: a potential `memBound n` with  (i) `memBound n ≤ avail → kernel runs without the panic`
  (induction along the recursion, each block: allocations + `memBound` of the sub-size ≤ `memBound n`),
  (ii) `memBound n ≤ mulMemReq n`.  For Karatsuba `memBound` is the requirement itself
  (`ceil_log2 ⌈n/2⌉ = ceil_log2 n − 1`).  For Toom-3 the requirement `4n + 13·ceil_log2 n` does not
  satisfy its own recurrence step by step (one level adds up to 20 words while `ceil_log2` may drop by
  only 1), so the potential is `4n + 20·(⌈log₃(2n − 5)⌉ − 2)` — the integer form of the
  `20·log₃(n − 2.5)` of the source comment — which drops by 20 per level, and `3^13 ≥ 2^20` bounds it by
  the requirement.
-/
namespace Dashu.Model

/-- side conditions on the regenerated schoolbook threshold (the proofs below keep it symbolic, so a
    different valid value needs no change here) -/
theorem thrS_pos : 1 ≤ Dashu.Gen.mul_THRESHOLD_SIMPLE := by decide
theorem thrS_le : Dashu.Gen.mul_THRESHOLD_SIMPLE ≤ 192 := by decide
theorem thrK : Dashu.Gen.mul_THRESHOLD_KARATSUBA = 192 := rfl

-- ------------------------------------------------------------------ ceil_log2

theorem ceilLog2_eq_clog (n : Nat) : ceilLog2 n = Nat.clog 2 n := by
  unfold ceilLog2 bitLen
  by_cases h : n - 1 = 0
  · rw [if_pos h]
    exact (Nat.clog_of_right_le_one (by omega) 2).symm
  · rw [if_neg h]
    apply le_antisymm
    · rw [Nat.add_one_le_iff, Nat.lt_clog_iff_pow_lt (by norm_num)]
      have := Nat.log2_self_le h
      omega
    · apply Nat.clog_le_of_le_pow
      have := @Nat.lt_log2_self (n - 1)
      omega

theorem clog2_half (n : Nat) (h : 2 ≤ n) : Nat.clog 2 n = Nat.clog 2 ((n + 1) / 2) + 1 := by
  have := Nat.clog_of_two_le (b := 2) (by norm_num) h
  simpa using this

theorem karatsubaMemReq_mono {a b : Nat} (h : a ≤ b) : karatsubaMemReq a ≤ karatsubaMemReq b := by
  unfold karatsubaMemReq
  rw [ceilLog2_eq_clog, ceilLog2_eq_clog]
  have := Nat.clog_mono_right 2 h
  omega

theorem toom3MemReq_mono {a b : Nat} (h : a ≤ b) : toom3MemReq a ≤ toom3MemReq b := by
  unfold toom3MemReq
  rw [ceilLog2_eq_clog, ceilLog2_eq_clog]
  have := Nat.clog_mono_right 2 h
  omega

/-- the Karatsuba requirement satisfies its own recurrence: `2·⌈n/2⌉ + f(⌈n/2⌉) ≤ f(n)` -/
theorem karatsubaMemReq_rec (n : Nat) (h : 2 ≤ n) :
    2 * ((n + 1) / 2) + karatsubaMemReq ((n + 1) / 2) ≤ karatsubaMemReq n := by
  unfold karatsubaMemReq
  rw [ceilLog2_eq_clog, ceilLog2_eq_clog, clog2_half n h]
  omega

-- ------------------------------------------------------------------ the potential

/-- `⌈log₃(2n − 5)⌉` -/
def mu3 (n : Nat) : Nat := Nat.clog 3 (2 * n - 5)

/-- what the recursion really needs is at most this -/
def memBound (n : Nat) : Nat :=
  if n ≤ Dashu.Gen.mul_THRESHOLD_SIMPLE then 0
  else if n ≤ Dashu.Gen.mul_THRESHOLD_KARATSUBA then karatsubaMemReq n
  else 4 * n + 20 * (mu3 n - 2)

theorem mu3_mono {a b : Nat} (h : a ≤ b) : mu3 a ≤ mu3 b :=
  Nat.clog_mono_right 3 (by omega)

theorem mu3_ge (n : Nat) (h : 193 ≤ n) : 6 ≤ mu3 n := by
  unfold mu3
  rw [Nat.add_one_le_iff, Nat.lt_clog_iff_pow_lt (by norm_num)]
  omega

/-- one Toom-3 level divides `2n − 5` by at least 3 -/
theorem mu3_step (n : Nat) (h : 193 ≤ n) : mu3 ((n + 2) / 3 + 1) + 1 ≤ mu3 n := by
  unfold mu3
  have := Nat.clog_of_two_le (b := 3) (n := 2 * n - 5) (by norm_num) (by omega)
  rw [this]
  have hm := Nat.clog_mono_right 3 (show 2 * ((n + 2) / 3 + 1) - 5 ≤ (2 * n - 5 + 3 - 1) / 3 by omega)
  omega

theorem memBound_le_kreq (m : Nat) (h : m ≤ 192) : memBound m ≤ karatsubaMemReq m := by
  have hS1 := thrS_pos
  have hS2 := thrS_le
  unfold memBound
  rw [thrK]
  split
  · omega
  · first
    | exact Nat.le_refl _
    | (rw [if_pos h])

theorem kreq_le_400 (m : Nat) (h : m ≤ 192) : karatsubaMemReq m ≤ 2 * m + 16 := by
  unfold karatsubaMemReq
  rw [ceilLog2_eq_clog]
  have : Nat.clog 2 m ≤ 8 := Nat.clog_le_of_le_pow (by norm_num; omega)
  omega

/-- Karatsuba level: both recursive sizes fit -/
theorem memBound_kara (n : Nat) (h1 : Dashu.Gen.mul_THRESHOLD_SIMPLE < n) (h2 : n ≤ 192) :
    2 * ((n + 1) / 2) + memBound ((n + 1) / 2) ≤ memBound n ∧
    2 * (n - (n + 1) / 2) + memBound (n - (n + 1) / 2) ≤ memBound n := by
  have hS1 := thrS_pos
  have hS2 := thrS_le
  have hn : memBound n = karatsubaMemReq n := by
    unfold memBound; rw [thrK, if_neg (by omega), if_pos h2]
  have b1 := memBound_le_kreq ((n + 1) / 2) (by omega)
  have b2 := memBound_le_kreq (n - (n + 1) / 2) (by omega)
  have r := karatsubaMemReq_rec n (by omega)
  have m := karatsubaMemReq_mono (show n - (n + 1) / 2 ≤ (n + 1) / 2 by omega)
  rw [hn]
  constructor <;> omega

/-- Toom-3 level: the persistent `8·(n3+1)` words plus what any of the recursive sizes needs fit -/
theorem memBound_toom (n : Nat) (h : 192 < n) (m : Nat) (hm : m ≤ (n + 2) / 3 + 1) :
    8 * ((n + 2) / 3 + 1) + memBound m ≤ memBound n := by
  have hS1 := thrS_pos
  have hS2 := thrS_le
  have hn : memBound n = 4 * n + 20 * (mu3 n - 2) := by
    unfold memBound; rw [thrK, if_neg (by omega), if_neg (by omega)]
  have h6 := mu3_ge n (by omega)
  have hst := mu3_step n (by omega)
  rw [hn]
  by_cases hm192 : m ≤ 192
  · have b1 := memBound_le_kreq m hm192
    have b2 := kreq_le_400 m hm192
    by_cases hA : (n + 2) / 3 + 1 ≤ 192
    · omega
    · omega
  · have hmb : memBound m = 4 * m + 20 * (mu3 m - 2) := by
      unfold memBound; rw [thrK, if_neg (by omega), if_neg hm192]
    have hmono := mu3_mono hm
    rw [hmb]
    omega

/-- `3^13 ≥ 2^20`: the potential stays below the Toom-3 requirement -/
theorem mu3_le_clog2 (n : Nat) (h : 193 ≤ n) : 20 * mu3 n ≤ 13 * Nat.clog 2 n + 40 := by
  by_contra hcon
  have hlt : 13 * Nat.clog 2 n + 40 < 20 * mu3 n := by omega
  have hx : 1 < 2 * n - 5 := by omega
  have h3 : 3 ^ (mu3 n - 1) < 2 * n - 5 := Nat.pow_pred_clog_lt_self (by norm_num) hx
  have h2 : n ≤ 2 ^ Nat.clog 2 n := Nat.le_pow_clog (by norm_num) n
  have hup : 3 ^ (mu3 n - 1) < 2 ^ (Nat.clog 2 n + 1) := by
    rw [Nat.pow_succ]; omega
  have h20 : (3 ^ (mu3 n - 1)) ^ 20 < (2 ^ (Nat.clog 2 n + 1)) ^ 20 :=
    Nat.pow_lt_pow_left hup (by norm_num)
  rw [← Nat.pow_mul, ← Nat.pow_mul] at h20
  have he : 13 * Nat.clog 2 n + 21 ≤ (mu3 n - 1) * 20 := by omega
  have hl : 3 ^ (13 * Nat.clog 2 n + 21) ≤ 3 ^ ((mu3 n - 1) * 20) :=
    Nat.pow_le_pow_right (by norm_num) he
  have hk : (2 : Nat) ^ ((Nat.clog 2 n + 1) * 20) ≤ 3 ^ (13 * Nat.clog 2 n + 21) := by
    have e1 : (2 : Nat) ^ ((Nat.clog 2 n + 1) * 20) = (2 ^ 20) ^ Nat.clog 2 n * 2 ^ 20 := by
      rw [← Nat.pow_mul, ← Nat.pow_add]; congr 1; ring
    have e2 : (3 : Nat) ^ (13 * Nat.clog 2 n + 21) = (3 ^ 13) ^ Nat.clog 2 n * 3 ^ 21 := by
      rw [← Nat.pow_mul, ← Nat.pow_add]
    rw [e1, e2]
    exact Nat.mul_le_mul (Nat.pow_le_pow_left (by norm_num) _) (by norm_num)
  omega

theorem memBound_le_req (n : Nat) : memBound n ≤ mulMemReq n := by
  unfold memBound mulMemReq
  split
  · exact Nat.le_refl _
  · split
    · exact Nat.le_refl _
    · rename_i h1 h2
      rw [thrK] at h2
      unfold toom3MemReq
      rw [ceilLog2_eq_clog]
      have := mu3_le_clog2 n (by omega)
      have := mu3_ge n (by omega)
      omega

theorem mulMemReq_mono {a b : Nat} (h : a ≤ b) : mulMemReq a ≤ mulMemReq b := by
  have hS1 := thrS_pos
  have hS2 := thrS_le
  unfold mulMemReq
  rw [thrK]
  have hk := karatsubaMemReq_mono h
  have ht := toom3MemReq_mono h
  have hkt : karatsubaMemReq a ≤ toom3MemReq a := by
    unfold karatsubaMemReq toom3MemReq; omega
  split <;> split <;> (try split) <;> (try split) <;> omega

-- ------------------------------------------------------------------ running the allocations

theorem memAlloc_ok {avail n : Nat} (h : n ≤ avail) : memAlloc avail n = .ok (avail - n) := by
  unfold memAlloc; rw [if_pos h]

theorem bind_ok' {ε α β : Type} (a : α) (f : α → Except ε β) : (Except.ok a >>= f) = f a := rfl

theorem memKaratsuba_ok (rec : MemKernel) (S : Nat → Nat)
    (hrec : ∀ m av, S m ≤ av → rec m av = .ok ()) (n avail : Nat)
    (hA : 2 * ((n + 1) / 2) + S ((n + 1) / 2) ≤ avail)
    (hB : 2 * (n - (n + 1) / 2) + S (n - (n + 1) / 2) ≤ avail) :
    memKaratsuba rec n avail = .ok () := by
  simp only [memKaratsuba]
  rw [memAlloc_ok (show 2 * ((n + 1) / 2) ≤ avail by omega), bind_ok',
    hrec _ _ (by omega), bind_ok',
    memAlloc_ok (show 2 * (n - (n + 1) / 2) ≤ avail by omega), bind_ok',
    hrec _ _ (by omega), bind_ok',
    memAlloc_ok (show (n + 1) / 2 ≤ avail by omega), bind_ok',
    memAlloc_ok (show (n + 1) / 2 ≤ avail - (n + 1) / 2 by omega), bind_ok']
  exact hrec _ _ (by omega)

theorem memToom3_ok (rec : MemKernel) (S : Nat → Nat)
    (hrec : ∀ m av, S m ≤ av → rec m av = .ok ()) (n avail : Nat)
    (h0 : 8 * ((n + 2) / 3 + 1) + S ((n + 2) / 3) ≤ avail)
    (h1 : 8 * ((n + 2) / 3 + 1) + S ((n + 2) / 3 + 1) ≤ avail)
    (h2 : 8 * ((n + 2) / 3 + 1) + S (n - 2 * ((n + 2) / 3)) ≤ avail) :
    memToom3 rec n avail = .ok () := by
  simp only [memToom3]
  generalize (n + 2) / 3 = n3 at *
  rw [memAlloc_ok (show 2 * n3 + 2 ≤ avail by omega), bind_ok',
    hrec _ _ (by omega), bind_ok',
    memAlloc_ok (show n3 + 1 ≤ avail - (2 * n3 + 2) by omega), bind_ok',
    memAlloc_ok (show n3 + 1 ≤ avail - (2 * n3 + 2) - (n3 + 1) by omega), bind_ok',
    hrec _ _ (by omega), bind_ok',
    memAlloc_ok (show 2 * n3 + 2 ≤ avail - (2 * n3 + 2) - (n3 + 1) - (n3 + 1) by omega), bind_ok',
    hrec _ _ (by omega), bind_ok', bind_ok',
    memAlloc_ok (show n3 + 1 ≤ avail - (2 * n3 + 2) - (n3 + 1) - (n3 + 1) - (2 * n3 + 2) by omega),
    bind_ok',
    memAlloc_ok (show n3 + 1 ≤ avail - (2 * n3 + 2) - (n3 + 1) - (n3 + 1) - (2 * n3 + 2) - (n3 + 1)
      by omega), bind_ok',
    hrec _ _ (by omega), bind_ok',
    memAlloc_ok (show 2 * (n3 + 1) ≤ avail - (2 * n3 + 2) - (n3 + 1) - (n3 + 1) - (2 * n3 + 2)
      by omega), bind_ok']
  exact hrec _ _ (by omega)

/-- `mul::add_signed_mul_same_len` never runs out of scratch memory when given `memBound n` words -/
theorem memSameLen_ok : ∀ (fuel n avail : Nat), memBound n ≤ avail → memSameLen fuel n avail = .ok () := by
  have hS1 := thrS_pos
  have hS2 := thrS_le
  intro fuel
  induction fuel with
  | zero => intro n avail _; rfl
  | succ fuel ih =>
    intro n avail h
    simp only [memSameLen]
    rw [thrK]
    split
    · rfl
    · rename_i h1
      split
      · rename_i h2
        obtain ⟨k1, k2⟩ := memBound_kara n (by omega) h2
        exact memKaratsuba_ok _ memBound ih n avail (by omega) (by omega)
      · rename_i h2
        have t0 := memBound_toom n (by omega) ((n + 2) / 3) (by omega)
        have t1 := memBound_toom n (by omega) ((n + 2) / 3 + 1) (by omega)
        have t2 := memBound_toom n (by omega) (n - 2 * ((n + 2) / 3)) (by omega)
        exact memToom3_ok _ memBound ih n avail (by omega) (by omega) (by omega)


/-- the same-length kernels called per chunk by `karatsuba::add_signed_mul` / `toom_3::add_signed_mul` -/
theorem memChunkKernel_ok (b avail : Nat) (h : mulMemReq b ≤ avail) :
    (Dashu.Gen.mul_THRESHOLD_SIMPLE < b → b ≤ 192 → memKaratsuba (memSameLen b) b avail = .ok ()) ∧
    (192 < b → memToom3 (memSameLen b) b avail = .ok ()) := by
  have hS1 := thrS_pos
  have hS2 := thrS_le
  have hb := memBound_le_req b
  constructor
  · intro h1 h2
    obtain ⟨k1, k2⟩ := memBound_kara b h1 h2
    exact memKaratsuba_ok _ memBound (memSameLen_ok b) b avail (by omega) (by omega)
  · intro h1
    have t0 := memBound_toom b h1 ((b + 2) / 3) (by omega)
    have t1 := memBound_toom b h1 ((b + 2) / 3 + 1) (by omega)
    have t2 := memBound_toom b h1 (b - 2 * ((b + 2) / 3)) (by omega)
    exact memToom3_ok _ memBound (memSameLen_ok b) b avail (by omega) (by omega) (by omega)

theorem memSplitLoop_ok (chunkLen : Nat) (f : Nat → Except PanicKind Unit)
    (tail : Nat → Nat → Nat → Except PanicKind Unit) (b avail : Nat) (hf : f avail = .ok ())
    (htail : ∀ x y, min x y ≤ b → tail x y avail = .ok ()) :
    ∀ k a, memSplitLoop chunkLen f tail b k a avail = .ok () := by
  have hfin : ∀ a, (if a ≥ b then tail a b avail else if a ≠ 0 then tail b a avail else .ok ())
      = .ok () := by
    intro a
    split
    · exact htail a b (by omega)
    · split
      · exact htail b a (by omega)
      · rfl
  intro k
  induction k with
  | zero => intro a; simp only [memSplitLoop]; exact hfin a
  | succ k ih =>
    intro a
    simp only [memSplitLoop]
    split
    · rw [hf, bind_ok']; exact ih _
    · exact hfin a

/-- `mul::add_signed_mul` never runs out of scratch memory when given the requirement of the shorter
    operand -/
theorem memAddSignedMul_ok : ∀ (fuel a0 b0 avail : Nat), mulMemReq (min a0 b0) ≤ avail →
    memAddSignedMul fuel a0 b0 avail = .ok () := by
  have hS1 := thrS_pos
  have hS2 := thrS_le
  intro fuel
  induction fuel with
  | zero => intro _ _ _ _; rfl
  | succ fuel ih =>
    intro a0 b0 avail h
    have hmin : (if a0 < b0 then a0 else b0) = min a0 b0 := by
      split <;> omega
    simp only [memAddSignedMul]
    rw [hmin, thrK]
    generalize (if a0 < b0 then b0 else a0) = a
    have htail : ∀ x y, min x y ≤ min a0 b0 → memAddSignedMul fuel x y avail = .ok () := by
      intro x y hxy
      exact ih x y avail (Nat.le_trans (mulMemReq_mono hxy) h)
    obtain ⟨ck, ct⟩ := memChunkKernel_ok (min a0 b0) avail h
    split
    · split
      · rfl
      · exact memSplitLoop_ok _ (fun _ => .ok ()) _ _ _ rfl htail _ _
    · split
      · exact memSplitLoop_ok _ _ _ _ _ (ck (by omega) (by omega)) htail _ _
      · exact memSplitLoop_ok _ _ _ _ _ (ct (by omega)) htail _ _

/-- **`mul_large` never hits "not enough memory allocated"**: the allocation
    `memory_requirement_exact(res_len, min(lhs.len(), rhs.len()))` suffices for every allocation made
    by `mul::multiply`, whatever the operand lengths -/
theorem memMulLarge_ok (l r : Nat) : memMulLarge l r = .ok () :=
  memAddSignedMul_ok (l + r) l r _ (Nat.le_refl _)

/-- **`square_large` never hits "not enough memory allocated"** -/
theorem memSquareLarge_ok (len : Nat) : memSquareLarge len = .ok () := by
  unfold memSquareLarge
  split
  · rfl
  · rename_i h
    apply memSameLen_ok
    unfold sqrMemReq
    rw [if_neg h]
    exact memBound_le_req len

/-- the requirement cannot be lowered much: with 35 words less, a 49-word square runs out -/
theorem memSameLen_tight : memSameLen 49 49 (sqrMemReq 49 - 35) = .error memPanic := by decide

end Dashu.Model
