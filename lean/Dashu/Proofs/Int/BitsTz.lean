import Dashu.Proofs.Int.Bits
/-
  C09: `IsTz` (the arithmetic characterisation used by the trailing_zeros / trailing_ones theorems) read as
  two's-complement BITS, for integers of either sign.
-/
namespace Dashu.Model

/-- bits of a natural number with `k` trailing zeros -/
theorem IsTz.nat_bits {n k : Nat} (h : IsTz n k) : (∀ i, i < k → n.testBit i = false) ∧ n.testBit k = true := by
  obtain ⟨h1, h2⟩ := h
  refine ⟨fun i hi => ?_, ?_⟩
  · have := Nat.testBit_mod_two_pow n k i
    rw [h1, Nat.zero_testBit] at this
    simpa [hi] using this.symm
  · rw [Nat.testBit_eq_decide_div_mod_eq]; simp [h2]

/-- bits of `n - 1` when `n` has `k` trailing zeros: `k` ones, then a zero -/
theorem IsTz.pred_bits {n k : Nat} (h : IsTz n k) :
    (∀ i, i < k → (n - 1).testBit i = true) ∧ (n - 1).testBit k = false := by
  obtain ⟨h1, h2⟩ := h
  have hp : 0 < 2 ^ k := Nat.two_pow_pos k
  obtain ⟨q, hq⟩ : ∃ q, n = 2 ^ k * q := ⟨n / 2 ^ k, by have := Nat.div_add_mod n (2 ^ k); omega⟩
  have hq2 : q % 2 = 1 := by rw [hq, Nat.mul_div_cancel_left _ hp] at h2; exact h2
  obtain ⟨r, hr⟩ : ∃ r, q = r + 1 := ⟨q - 1, by omega⟩
  have hm : n - 1 = (2 ^ k - 1) + 2 ^ k * r := by rw [hq, hr, Nat.mul_add, Nat.mul_one]; omega
  have hlt : 2 ^ k - 1 < 2 ^ k := by omega
  refine ⟨fun i hi => ?_, ?_⟩
  · rw [hm, testBit_cons k _ _ i hlt, if_pos hi, Nat.testBit_two_pow_sub_one]; simp [hi]
  · rw [hm, testBit_cons k _ _ k hlt, if_neg (Nat.lt_irrefl k), Nat.sub_self]
    rw [Nat.testBit_zero]; simp; omega

/-- **trailing zeros as bits, either sign**: if `|x|` has 2-adic valuation `k` then in two's complement bits `0..k-1` of `x`
    are 0 and bit `k` is 1 (for negative `x = -n` the bits are those of `!(n - 1)`) -/
theorem tz_bits (x : Int) (k : Nat) (h : IsTz x.natAbs k) :
    (∀ i, i < k → Int.testBit x i = false) ∧ Int.testBit x k = true := by
  cases x with
  | ofNat n =>
    have := h.nat_bits
    simpa [Int.testBit] using this
  | negSucc m =>
    have hn : (Int.negSucc m).natAbs = m + 1 := rfl
    rw [hn] at h
    have := h.pred_bits
    simp only [Nat.add_sub_cancel] at this
    refine ⟨fun i hi => ?_, ?_⟩
    · simp [Int.testBit, this.1 i hi]
    · simp [Int.testBit, this.2]

/-- **trailing ones as bits, either sign**: if `|x + 1|` has valuation `k` then bits `0..k-1` of `x` are 1 and bit `k` is 0 -/
theorem to_bits (x : Int) (k : Nat) (h : IsTz (x + 1).natAbs k) :
    (∀ i, i < k → Int.testBit x i = true) ∧ Int.testBit x k = false := by
  have hx : x = compl (-(x + 1)) := by unfold compl; omega
  have hn : (-(x + 1)).natAbs = (x + 1).natAbs := Int.natAbs_neg _
  have ht := tz_bits (-(x + 1)) k (by rw [hn]; exact h)
  refine ⟨fun i hi => ?_, ?_⟩
  · rw [hx, ← specBit_eq_testBit, specBit_compl, specBit_eq_testBit, ht.1 i hi]; rfl
  · rw [hx, ← specBit_eq_testBit, specBit_compl, specBit_eq_testBit, ht.2]; rfl

end Dashu.Model
