import Dashu.Props.C01
import Dashu.Props.C02
import Dashu.Props.C09
import Dashu.Props.C07
import Dashu.Proofs.Serde.Wire
import Dashu.Proofs.Text.Digits
/-
  C19 clause (1), more corollaries of the for-all-W theorems of C02 (division), C09 (bits), C07 (text):
  the same mathematical inputs give the same value (or the same panic) in any two word sizes.
-/
namespace Dashu.Model.Serde.WordSize
open Dashu.Model Dashu.Model.Div Dashu.Props

/-- UBig `/`, `%`, `div_rem`: same quotient and remainder, or the same `DivideByZero` panic -/
theorem word_size_independent_u_div_rem (W₁ W₂ : Nat) (h₁ : 8 ≤ W₁) (h₂ : 8 ≤ W₂) (x y : Nat) :
    (y = 0 → divRemRepr W₁ (ofNat W₁ x) (ofNat W₁ y) = .error .divideByZero ∧
             divRemRepr W₂ (ofNat W₂ x) (ofNat W₂ y) = .error .divideByZero) ∧
    (y ≠ 0 → ∃ q₁ r₁ q₂ r₂, divRemRepr W₁ (ofNat W₁ x) (ofNat W₁ y) = .ok (q₁, r₁) ∧
        divRemRepr W₂ (ofNat W₂ x) (ofNat W₂ y) = .ok (q₂, r₂) ∧
        q₁.value W₁ = q₂.value W₂ ∧ r₁.value W₁ = r₂.value W₂ ∧ q₁.value W₁ = x / y ∧ r₁.value W₁ = x % y) := by
  have ox₁ := C01.of_nat_exact W₁ (by omega) x; have oy₁ := C01.of_nat_exact W₁ (by omega) y
  have ox₂ := C01.of_nat_exact W₂ (by omega) x; have oy₂ := C01.of_nat_exact W₂ (by omega) y
  have a := C02.ubig_div_rem_exact W₁ (by omega) (by omega) _ _ ox₁.2 oy₁.2
  have b := C02.ubig_div_rem_exact W₂ (by omega) (by omega) _ _ ox₂.2 oy₂.2
  rw [ox₁.1, oy₁.1] at a
  rw [ox₂.1, oy₂.1] at b
  constructor
  · intro h; exact ⟨a.1 h, b.1 h⟩
  · intro h
    obtain ⟨q₁, r₁, e₁, hq₁, hr₁, _, _⟩ := a.2 h
    obtain ⟨q₂, r₂, e₂, hq₂, hr₂, _, _⟩ := b.2 h
    exact ⟨q₁, r₁, q₂, r₂, e₁, e₂, by rw [hq₁, hq₂], by rw [hr₁, hr₂], hq₁, hr₁⟩

example : ∃ q₁ r₁ q₂ r₂, divRemRepr 64 (ofNat 64 (2 ^ 200 + 7)) (ofNat 64 (2 ^ 70 + 1)) = .ok (q₁, r₁) ∧
    divRemRepr 32 (ofNat 32 (2 ^ 200 + 7)) (ofNat 32 (2 ^ 70 + 1)) = .ok (q₂, r₂) ∧ q₁.value 64 = q₂.value 32 := by
  obtain ⟨q₁, r₁, q₂, r₂, e₁, e₂, hq, _, _, _⟩ :=
    (word_size_independent_u_div_rem 64 32 (by decide) (by decide) (2 ^ 200 + 7) (2 ^ 70 + 1)).2 (by positivity)
  exact ⟨q₁, r₁, q₂, r₂, e₁, e₂, hq⟩

/-- UBig `&`, `|`, `^`, `<<`, `>>` -/
theorem word_size_independent_u_bits (W₁ W₂ : Nat) (h₁ : 8 ≤ W₁) (h₂ : 8 ≤ W₂) (x y n : Nat) (byRef₁ byRef₂ : Bool) :
    ((ofNat W₁ x).bitand W₁ (ofNat W₁ y)).value W₁ = ((ofNat W₂ x).bitand W₂ (ofNat W₂ y)).value W₂ ∧
    ((ofNat W₁ x).bitor W₁ (ofNat W₁ y)).value W₁ = ((ofNat W₂ x).bitor W₂ (ofNat W₂ y)).value W₂ ∧
    ((ofNat W₁ x).bitxor W₁ (ofNat W₁ y)).value W₁ = ((ofNat W₂ x).bitxor W₂ (ofNat W₂ y)).value W₂ ∧
    ((ofNat W₁ x).shl W₁ n).value W₁ = ((ofNat W₂ x).shl W₂ n).value W₂ ∧
    ((ofNat W₁ x).shr W₁ n byRef₁).value W₁ = ((ofNat W₂ x).shr W₂ n byRef₂).value W₂ := by
  have ox₁ := C01.of_nat_exact W₁ (by omega) x; have oy₁ := C01.of_nat_exact W₁ (by omega) y
  have ox₂ := C01.of_nat_exact W₂ (by omega) x; have oy₂ := C01.of_nat_exact W₂ (by omega) y
  have a := C09.ubig_and_or_xor W₁ _ _ ox₁.2 oy₁.2
  have b := C09.ubig_and_or_xor W₂ _ _ ox₂.2 oy₂.2
  refine ⟨?_, ?_, ?_, ?_, ?_⟩
  · rw [a.1.1, b.1.1, ox₁.1, oy₁.1, ox₂.1, oy₂.1]
  · rw [a.2.1.1, b.2.1.1, ox₁.1, oy₁.1, ox₂.1, oy₂.1]
  · rw [a.2.2.1.1, b.2.2.1.1, ox₁.1, oy₁.1, ox₂.1, oy₂.1]
  · rw [(C09.shl_exact W₁ (by omega) _ n ox₁.2).1, (C09.shl_exact W₂ (by omega) _ n ox₂.2).1, ox₁.1, ox₂.1]
  · rw [(C09.shr_exact W₁ (by omega) _ n byRef₁ ox₁.2).1, (C09.shr_exact W₂ (by omega) _ n byRef₂ ox₂.2).1, ox₁.1, ox₂.1]

/-- text: printing in any radix / format trait and parsing are the same functions of the value in
    every word size; likewise the little-endian byte encodings -/
theorem word_size_independent_text (W₁ W₂ : Nat) (h₁ : 8 ≤ W₁) (h₂ : 8 ≤ W₂) (d₁ : 8 ∣ W₁) (d₂ : 8 ∣ W₂) :
    (∀ (t : Text.FmtTrait) (f : Text.FmtSpec) (z : Int), Text.validRadix t.radix = true →
      Text.fmtModel W₁ t f z = Text.fmtModel W₂ t f z) ∧
    (∀ (signed : Bool) (s : List Nat) (r : Nat), Text.parseRadix W₁ signed s r = Text.parseRadix W₂ signed s r) ∧
    (∀ (signed : Bool) (s : List Nat) (dflt : Nat), Text.parseDefault W₁ signed s dflt = Text.parseDefault W₂ signed s dflt) ∧
    (∀ n : Nat, Text.toLeBytes W₁ n = Text.toLeBytes W₂ n) ∧
    (∀ bytes : List Nat, Text.fromLeBytes W₁ bytes = Text.fromLeBytes W₂ bytes) := by
  have p₁ : (36 : Nat) < 2 ^ W₁ := by
    calc (36 : Nat) < 2 ^ 8 := by norm_num
      _ ≤ 2 ^ W₁ := Nat.pow_le_pow_right (by omega) h₁
  have p₂ : (36 : Nat) < 2 ^ W₂ := by
    calc (36 : Nat) < 2 ^ 8 := by norm_num
      _ ≤ 2 ^ W₂ := Nat.pow_le_pow_right (by omega) h₂
  refine ⟨?_, ?_, ?_, ?_, ?_⟩
  · intro t f z hv
    have hr : t.radix ≤ 36 := by
      unfold Text.validRadix at hv; simp at hv; omega
    rw [C07.print_eq_reference W₁ t f z hv (by omega), C07.print_eq_reference W₂ t f z hv (by omega)]
  · intro signed s r
    rw [C07.parse_radix_eq_grammar W₁ p₁, C07.parse_radix_eq_grammar W₂ p₂]
  · intro signed s dflt
    rw [C07.parse_default_eq_grammar W₁ p₁, C07.parse_default_eq_grammar W₂ p₂]
  · intro n
    rw [(C07.ubig_bytes_model W₁ d₁ h₁ n []).1, (C07.ubig_bytes_model W₂ d₂ h₂ n []).1]
  · intro bytes
    rw [(C07.ubig_bytes_model W₁ d₁ h₁ 0 bytes).2.1, (C07.ubig_bytes_model W₂ d₂ h₂ 0 bytes).2.1]

end Dashu.Model.Serde.WordSize

namespace Dashu.Model.Serde
open Dashu.Model.Text

/-- the serde byte payload is C07's `to_le_bytes` specification -/
theorem leBytes_eq_spec (n : Nat) : leBytes n = leBytesSpec n := by
  unfold leBytesSpec
  induction n using Nat.strongRecOn with
  | _ n ih =>
    by_cases h : n = 0
    · subst h; rw [leBytes_zero, digitsAux_zero]; rfl
    · rw [leBytes_pos h, digitsAux_succ (by omega) h, List.reverse_append,
        ih (n / 256) (Nat.div_lt_self (by omega) (by omega))]
      simp

theorem ofLeBytes_eq_spec (bs : Bytes) : ofLeBytes bs = ofLeBytesSpec bs := by
  unfold ofLeBytesSpec
  induction bs with
  | nil => rfl
  | cons b t ih => simp [ofLeBytes, ofDigitsLE, ih]

/-- the bytes `impl Serialize for UBig` writes are what `UBig::to_le_bytes` computes word by word, for
    every word size that is a multiple of 8 — and decoding is `from_le_bytes` of that word size -/
theorem serde_bytes_are_the_word_level_bytes (W : Nat) (h8 : 8 ∣ W) (hW : 8 ≤ W) (n : Nat) (bs : Bytes) :
    toLeBytes W n = leBytes n ∧ fromLeBytes W bs = ofLeBytes bs := by
  have := Dashu.Props.C07.ubig_bytes_model W h8 hW n bs
  exact ⟨by rw [this.1, leBytes_eq_spec], by rw [this.2.1, ofLeBytes_eq_spec]⟩

end Dashu.Model.Serde
