import Dashu.Model.Serde.NumW
import Dashu.Proofs.Serde.WordSize
import Dashu.Proofs.Text.BytesModel
import Dashu.Props.C02
import Dashu.Props.C12
import Mathlib.Tactic.Ring
/-
  C19 clause (3): the word-level serde encoders / decoders of `Model/Serde/NumW.lean` (what a build
  with `W`-bit words executes) equal the `W`-free ones of `Model/Serde/Num.lean`, for every word
  size that is a multiple of 8.  Composition of C07 (`words_to_le_bytes`, `from_le_bytes`), C12
  (mirrored gcd), C02 (mirrored division), C01 (`ofNat`).
-/
namespace Dashu.Model.Serde
open Dashu.Model Dashu.Model.Text

theorem ubigPayloadW_eq (W : Nat) (h8 : 8 ∣ W) (hW : 8 ≤ W) (n : Nat) : ubigPayloadW W n = leBytes n := by
  unfold ubigPayloadW asWords
  by_cases h : n = 0
  · subst h; rw [if_pos rfl, leBytes_zero]
  · rw [if_neg h, wordsToLeBytes_eq W n h8 hW h, leBytes_eq_spec]

theorem encUW_eq (W : Nat) (h8 : 8 ∣ W) (hW : 8 ≤ W) (n : Nat) : encUW W n = encU n := by
  unfold encUW encU; rw [ubigPayloadW_eq W h8 hW]

theorem ibigPayloadW_eq (W : Nat) (h8 : 8 ∣ W) (hW : 8 ≤ W) (z : Int) : ibigPayloadW W z = ibigPayload z := by
  unfold ibigPayloadW ibigPayload asWords
  by_cases h : z = 0
  · rw [if_pos h, if_pos h]
  · have hn : z.natAbs ≠ 0 := by omega
    rw [if_neg h, if_neg h, wordsToLeBytes_eq W _ h8 hW hn, ← leBytes_eq_spec]

theorem encIW_eq (W : Nat) (h8 : 8 ∣ W) (hW : 8 ≤ W) (z : Int) : encIW W z = encI z := by
  unfold encIW encI; rw [ibigPayloadW_eq W h8 hW]

theorem fromLeBytes_eq_ofLeBytes (W : Nat) (h8 : 8 ∣ W) (hW : 8 ≤ W) (b : Bytes) :
    fromLeBytes W b = ofLeBytes b := by
  rw [fromLeBytes_eq W h8 hW, ofLeBytes_eq_spec]

theorem decUW_eq (W : Nat) (h8 : 8 ∣ W) (hW : 8 ≤ W) (s : Bytes) : decUW W s = decU s := by
  unfold decUW decU
  cases pcTakeBytes s with
  | none => rfl
  | some p => simp [fromLeBytes_eq_ofLeBytes W h8 hW]

theorem ibigOfPayloadW_eq (W : Nat) (h8 : 8 ∣ W) (hW : 8 ≤ W) (b : Bytes) : ibigOfPayloadW W b = ibigOfPayload b := by
  unfold ibigOfPayloadW ibigOfPayload; rw [fromLeBytes_eq_ofLeBytes W h8 hW]

theorem decIW_eq (W : Nat) (h8 : 8 ∣ W) (hW : 8 ≤ W) (s : Bytes) : decIW W s = decI s := by
  unfold decIW decI
  cases pcTakeBytes s with
  | none => rfl
  | some p => simp [ibigOfPayloadW_eq W h8 hW]

theorem encQW_eq (W : Nat) (h8 : 8 ∣ W) (hW : 8 ≤ W) (q : QVal) : encQW W q = encQ q := by
  unfold encQW encQ; rw [encIW_eq W h8 hW, encUW_eq W h8 hW]

theorem encRW_eq (W : Nat) (h8 : 8 ∣ W) (hW : 8 ≤ W) (v : FVal) : encRW W v = encR v := by
  unfold encRW encR; rw [encIW_eq W h8 hW]

theorem encFW_eq (W : Nat) (h8 : 8 ∣ W) (hW : 8 ≤ W) (v : FPVal) : encFW W v = encF v := by
  unfold encFW encF; rw [encIW_eq W h8 hW]

/-- exact signed division by a positive divisor of the magnitude -/
theorem int_div_of_dvd_natAbs (n : Int) (g : Nat) (hg : 0 < g) (hd : g ∣ n.natAbs) :
    n / (g : Int) = if n < 0 then -((n.natAbs / g : Nat) : Int) else ((n.natAbs / g : Nat) : Int) := by
  obtain ⟨k, hk⟩ := hd
  have hgz : (g : Int) ≠ 0 := by omega
  have hq : n.natAbs / g = k := by rw [hk, Nat.mul_div_cancel_left k hg]
  rw [hq]
  by_cases hneg : n < 0
  · rw [if_pos hneg]
    have : n = (g : Int) * (-(k : Int)) := by
      have : (n.natAbs : Int) = -n := by omega
      have h2 : ((g * k : Nat) : Int) = -n := by rw [← hk]; exact this
      push_cast at h2
      have : n = -((g : Int) * k) := by omega
      rw [this]; ring
    rw [this, Int.mul_ediv_cancel_left _ hgz]
  · rw [if_neg hneg]
    have : n = (g : Int) * (k : Int) := by
      have : (n.natAbs : Int) = n := by omega
      have h2 : ((g * k : Nat) : Int) = n := by rw [← hk]; exact this
      push_cast at h2
      omega
    rw [this, Int.mul_ediv_cancel_left _ hgz]

/-- `Repr::reduce` over the mirrored gcd (C12) and the mirrored division (C02) is the reduction to
    lowest terms, for every word size ≥ 4 bits and every positive denominator -/
theorem qreduceW_eq (W : Nat) (hW : 4 ≤ W) (n : Int) (d : Nat) (hd : 0 < d) :
    qreduceW W n d = some (qreduce n d) := by
  unfold qreduceW qreduce
  by_cases h0 : n = 0
  · rw [if_pos h0, if_pos h0]
  · rw [if_neg h0, if_neg h0]
    rw [Dashu.Props.C12.gcd_spec W (by omega), if_neg (by omega)]
    have hg : 0 < Nat.gcd n.natAbs d := Nat.gcd_pos_of_pos_right _ hd
    have oa := Dashu.Props.C01.of_nat_exact W (by omega) n.natAbs
    have od := Dashu.Props.C01.of_nat_exact W (by omega) d
    have og := Dashu.Props.C01.of_nat_exact W (by omega) (Nat.gcd n.natAbs d)
    obtain ⟨qn, e1, v1, _⟩ := (Dashu.Props.C02.ubig_div_exact W (by omega) hW _ _ oa.2 og.2).2
      (by rw [og.1]; omega)
    obtain ⟨qd, e2, v2, _⟩ := (Dashu.Props.C02.ubig_div_exact W (by omega) hW _ _ od.2 og.2).2
      (by rw [og.1]; omega)
    simp only [e1, e2]
    rw [v1, v2, oa.1, od.1, og.1, int_div_of_dvd_natAbs n _ hg (Nat.gcd_dvd_left _ _)]

theorem decQW_eq (W : Nat) (h8 : 8 ∣ W) (hW : 8 ≤ W) (s : Bytes) : decQW W s = decQ s := by
  unfold decQW decQ
  rw [decIW_eq W h8 hW]
  cases decI s with
  | none => rfl
  | some p =>
    obtain ⟨n, r1⟩ := p
    simp only [Option.bind_eq_bind, Option.bind_some, decUW_eq W h8 hW]
    cases decU r1 with
    | none => rfl
    | some p2 =>
      obtain ⟨d, r2⟩ := p2
      simp only [Option.bind_some]
      by_cases hd : d = 0
      · simp [hd]
      · simp [hd, qreduceW_eq W (by omega) n d (by omega)]

theorem decXW_eq (W : Nat) (h8 : 8 ∣ W) (hW : 8 ≤ W) (s : Bytes) : decXW W s = decX s := by
  unfold decXW decX
  rw [decIW_eq W h8 hW]
  cases decI s with
  | none => rfl
  | some p =>
    obtain ⟨n, r1⟩ := p
    simp only [Option.bind_eq_bind, Option.bind_some, decUW_eq W h8 hW]

theorem decRW_eq (W B : Nat) (h8 : 8 ∣ W) (hW : 8 ≤ W) (s : Bytes) : decRW W B s = decR B s := by
  unfold decRW decR
  rw [decIW_eq W h8 hW]

theorem decFW_eq (W B : Nat) (h8 : 8 ∣ W) (hW : 8 ≤ W) (s : Bytes) : decFW W B s = decF B s := by
  unfold decFW decF
  rw [decIW_eq W h8 hW]

end Dashu.Model.Serde
