import Dashu.Model.Serde.Wire
import Mathlib.Tactic.Ring
import Mathlib.Tactic.Linarith
/-
  C19 — lemmas about the media: little-endian bytes, postcard varints / zig-zag / byte strings,
  JSON string quoting.
-/
namespace Dashu.Model.Serde

-- ---------------------------------------------------------------- little-endian bytes

theorem leBytes_zero : leBytes 0 = [] := by rw [leBytes]; simp

theorem leBytes_pos {n : Nat} (h : n ≠ 0) : leBytes n = n % 256 :: leBytes (n / 256) := by
  rw [leBytes]; simp [h]

/-- `from_le_bytes (to_le_bytes n) = n` -/
theorem ofLeBytes_leBytes (n : Nat) : ofLeBytes (leBytes n) = n := by
  induction n using Nat.strongRecOn with
  | _ n ih =>
    by_cases h : n = 0
    · subst h; rw [leBytes_zero]; rfl
    · rw [leBytes_pos h, ofLeBytes, ih (n / 256) (Nat.div_lt_self (by omega) (by omega))]
      omega

theorem leBytes_isBytes (n : Nat) : isBytes (leBytes n) := by
  induction n using Nat.strongRecOn with
  | _ n ih =>
    by_cases h : n = 0
    · subst h; rw [leBytes_zero]; intro b hb; cases hb
    · rw [leBytes_pos h]
      intro b hb
      rcases List.mem_cons.mp hb with rfl | hb
      · omega
      · exact ih (n / 256) (Nat.div_lt_self (by omega) (by omega)) b hb

theorem leBytes_ne_nil {n : Nat} (h : n ≠ 0) : leBytes n ≠ [] := by
  rw [leBytes_pos h]; simp

/-- the encoding is minimal: the most significant byte is not zero -/
theorem leBytes_getLast_ne_zero (n : Nat) : (leBytes n).getLast? ≠ some 0 := by
  induction n using Nat.strongRecOn with
  | _ n ih =>
    by_cases h : n = 0
    · subst h; rw [leBytes_zero]; simp
    · rw [leBytes_pos h]
      by_cases h2 : n / 256 = 0
      · rw [h2, leBytes_zero]
        simp
        omega
      · have := ih (n / 256) (Nat.div_lt_self (by omega) (by omega))
        rw [List.getLast?_cons_of_ne_nil (leBytes_ne_nil h2)]  
        exact this

theorem ofLeBytes_append (a b : Bytes) : ofLeBytes (a ++ b) = ofLeBytes a + 256 ^ a.length * ofLeBytes b := by
  induction a with
  | nil => simp [ofLeBytes]
  | cons x xs ih => simp only [List.cons_append, ofLeBytes, ih, List.length_cons, Nat.pow_succ]; ring

/-- zero bytes at the most significant end do not change the value (`from_le_bytes` accepts them) -/
theorem ofLeBytes_append_zero (a : Bytes) : ofLeBytes (a ++ [0]) = ofLeBytes a := by
  rw [ofLeBytes_append]; simp [ofLeBytes]

-- ---------------------------------------------------------------- varints

theorem varintEnc_small {n : Nat} (h : n < 128) : varintEnc n = [n] := by
  rw [varintEnc]; simp [h]

theorem varintEnc_big {n : Nat} (h : ¬ n < 128) : varintEnc n = (n % 128 + 128) :: varintEnc (n / 128) := by
  rw [varintEnc]; simp [h]

theorem varintDecAux_enc (rest : Bytes) :
    ∀ (f i out n : Nat), i + f = 10 → 1 ≤ f → n < 2 ^ (64 - 7 * i) →
      varintDecAux f i out (varintEnc n ++ rest) = some (out + n * 2 ^ (7 * i), rest) := by
  intro f
  induction f with
  | zero => intro i out n _ h; omega
  | succ f ih =>
    intro i out n hif _ hn
    by_cases hs : n < 128
    · rw [varintEnc_small hs]
      simp only [List.singleton_append, varintDecAux]
      have hm : n % 128 = n := Nat.mod_eq_of_lt hs
      rw [hm]
      simp only [hs, if_true]
      by_cases hf : f = 0
      · subst hf
        have hi : i = 9 := by omega
        subst hi
        have : n < 2 := by simpa using hn
        have hn1 : ¬ (n > 1) := by omega
        simp [hn1]
      · simp [hf]
    · rw [varintEnc_big hs]
      simp only [List.cons_append, varintDecAux]
      have hb : ¬ (n % 128 + 128 < 128) := by omega
      simp only [hb, if_false]
      have hi : i ≤ 8 := by
        by_contra hc
        have hi9 : i = 9 := by omega
        subst hi9
        have : n < 2 := by simpa using hn
        omega
      have hn' : n / 128 < 2 ^ (64 - 7 * (i + 1)) := by
        have e : 64 - 7 * i = (64 - 7 * (i + 1)) + 7 := by omega
        rw [e, Nat.pow_add] at hn
        exact Nat.div_lt_of_lt_mul (by simpa [Nat.mul_comm] using hn)
      rw [ih (i + 1) _ (n / 128) (by omega) (by omega) hn']
      have hmod : (n % 128 + 128) % 128 = n % 128 := by omega
      rw [hmod]
      have e2 : 2 ^ (7 * (i + 1)) = 2 ^ (7 * i) * 128 := by
        rw [show 7 * (i + 1) = 7 * i + 7 by ring, Nat.pow_add]
      rw [e2]
      congr 1
      congr 1
      have := Nat.div_add_mod n 128
      generalize 2 ^ (7 * i) = p
      generalize n / 128 = q at *
      generalize n % 128 = r at *
      subst this
      ring

/-- reading back a length / precision written by postcard -/
theorem varintDec_varintEnc (n : Nat) (rest : Bytes) (h : n < 2 ^ 64) :
    varintDec (varintEnc n ++ rest) = some (n, rest) := by
  unfold varintDec
  rw [varintDecAux_enc rest 10 0 0 n (by omega) (by omega) (by simpa using h)]
  simp

theorem unzigzag_zigzag (z : Int) : unzigzag (zigzag z) = z := by
  unfold zigzag unzigzag
  by_cases h : z < 0
  · simp only [h, if_true]
    have e : (2 * -z - 1).toNat = 2 * z.natAbs - 1 := by omega
    rw [e]
    have h1 : (2 * z.natAbs - 1) % 2 = 1 := by omega
    have h10 : ¬ ((1 : Nat) = 0) := by omega
    simp only [h1, h10, if_false]
    have : (2 * z.natAbs - 1 + 1) / 2 = z.natAbs := by omega
    rw [this]
    omega
  · simp only [h, if_false]
    have e : (2 * z).toNat = 2 * z.natAbs := by omega
    rw [e]
    have h1 : (2 * z.natAbs) % 2 = 0 := by omega
    simp only [h1, if_true]
    have : 2 * z.natAbs / 2 = z.natAbs := by omega
    rw [this]
    omega

theorem zigzag_lt (z : Int) (h : inI64 z) : zigzag z < 2 ^ 64 := by
  unfold inI64 at h
  unfold zigzag
  have e63 : (2 : Int) ^ 63 = 9223372036854775808 := by norm_num
  have e64 : (2 : Nat) ^ 64 = 18446744073709551616 := by norm_num
  rw [e63] at h
  rw [e64]
  split <;> omega

theorem pcTakeI64_pcI64 (z : Int) (rest : Bytes) (h : inI64 z) : pcTakeI64 (pcI64 z ++ rest) = some (z, rest) := by
  unfold pcTakeI64 pcI64
  rw [varintDec_varintEnc _ _ (zigzag_lt z h)]
  simp [unzigzag_zigzag]

theorem pcTakeU64_pcU64 (n : Nat) (rest : Bytes) (h : n < 2 ^ 64) : pcTakeU64 (pcU64 n ++ rest) = some (n, rest) :=
  varintDec_varintEnc n rest h

/-- `deserialize_bytes ∘ serialize_bytes`: the payload comes back and exactly the rest is left -/
theorem pcTakeBytes_pcBytes (bs rest : Bytes) (h : bs.length < 2 ^ 64) :
    pcTakeBytes (pcBytes bs ++ rest) = some (bs, rest) := by
  unfold pcTakeBytes pcBytes
  rw [List.append_assoc, varintDec_varintEnc _ _ h]
  simp

-- ---------------------------------------------------------------- JSON

theorem jsonStrBody_plain (c : Nat) (rest acc : Bytes) (h : plainChar c) :
    jsonStrBody (c :: rest) acc = jsonStrBody rest (c :: acc) := by
  obtain ⟨h1, h2, h3⟩ := h
  rw [jsonStrBody.eq_def]
  split <;> simp_all <;> omega

theorem jsonStrBody_plain_list (s rest acc : Bytes) (h : ∀ c ∈ s, plainChar c) :
    jsonStrBody (s ++ 34 :: rest) acc = some (acc.reverse ++ s, rest) := by
  induction s generalizing acc with
  | nil => simp [jsonStrBody]
  | cons c cs ih =>
    rw [List.cons_append, jsonStrBody_plain c _ _ (h c (by simp))]
    rw [ih (c :: acc) (fun x hx => h x (by simp [hx]))]
    simp

theorem jsonEscapeChar_plain (c : Nat) (h : plainChar c) : jsonEscapeChar c = [c] := by
  obtain ⟨h1, h2, h3⟩ := h
  unfold jsonEscapeChar
  have : c ≠ 8 ∧ c ≠ 9 ∧ c ≠ 10 ∧ c ≠ 12 ∧ c ≠ 13 ∧ ¬ c < 32 := by omega
  simp [h2, h3, this]

theorem flatMap_escape_plain (s : Bytes) (h : ∀ c ∈ s, plainChar c) : s.flatMap jsonEscapeChar = s := by
  induction s with
  | nil => rfl
  | cons c cs ih =>
    rw [List.flatMap_cons, jsonEscapeChar_plain c (h c (by simp)), ih (fun x hx => h x (by simp [hx]))]
    rfl

/-- a text made of plain characters survives quoting and unquoting -/
theorem jsonUnquote_jsonQuote (s : Bytes) (h : ∀ c ∈ s, plainChar c) : jsonUnquote (jsonQuote s) = some s := by
  unfold jsonUnquote jsonQuote
  rw [flatMap_escape_plain s h]
  have : List.dropWhile jsonWs (34 :: s ++ [34]) = 34 :: (s ++ [34]) := by
    rw [List.cons_append, List.dropWhile_cons]; simp [jsonWs]
  rw [this]
  simp only
  rw [jsonStrBody_plain_list s [] [] h]
  simp

end Dashu.Model.Serde
