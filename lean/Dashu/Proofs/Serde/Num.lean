import Dashu.Model.Serde.Num
import Dashu.Proofs.Serde.Wire
/-
  C19 — round trips and canonicity of dashu's serde impls (binary medium), as modelled in
  `Model/Serde/Num.lean`.
-/
namespace Dashu.Model.Serde

-- ---------------------------------------------------------------- UBig / IBig

theorem decU_encU (n : Nat) (rest : Bytes) (h : (leBytes n).length < 2 ^ 64) :
    decU (encU n ++ rest) = some (n, rest) := by
  unfold decU encU
  rw [pcTakeBytes_pcBytes _ _ h]
  simp [ofLeBytes_leBytes]

theorem ibigOfPayload_ibigPayload (z : Int) : ibigOfPayload (ibigPayload z) = z := by
  unfold ibigPayload ibigOfPayload
  by_cases h0 : z = 0
  · subst h0; simp [ofLeBytes]
  · simp only [h0, if_false]
    have hv := ofLeBytes_leBytes z.natAbs
    by_cases hp : 0 < z
    · have hn : ¬ z < 0 := by omega
      by_cases hl : (leBytes z.natAbs).length % 2 = 1
      · simp only [hp, hl, hn, true_and, false_and, or_false, if_true]
        have : ((leBytes z.natAbs) ++ [0]).length % 2 = 0 := by
          rw [List.length_append]; simp; omega
        have h10 : ¬ ((0 : Nat) = 1) := by omega
        rw [this]; simp only [h10, if_false]
        rw [ofLeBytes_append_zero, hv]; omega
      · simp only [hp, hl, hn, true_and, false_and, or_false, if_false]
        rw [hv]; omega
    · have hn : z < 0 := by omega
      by_cases hl : (leBytes z.natAbs).length % 2 = 0
      · simp only [hp, hl, hn, true_and, false_and, false_or, if_true]
        have : ((leBytes z.natAbs) ++ [0]).length % 2 = 1 := by
          rw [List.length_append]; simp; omega
        rw [this]; simp only [if_true]
        rw [ofLeBytes_append_zero, hv]; omega
      · have hl1 : (leBytes z.natAbs).length % 2 = 1 := by omega
        simp only [hp, hl, hn, true_and, false_and, false_or, if_false]
        rw [hl1]; simp only [if_true]
        rw [hv]; omega

theorem decI_encI (z : Int) (rest : Bytes) (h : (ibigPayload z).length < 2 ^ 64) :
    decI (encI z ++ rest) = some (z, rest) := by
  unfold decI encI
  rw [pcTakeBytes_pcBytes _ _ h]
  simp [ibigOfPayload_ibigPayload]

/-- "negative zero" cannot be constructed: an odd-length payload of zero bytes is the number 0 -/
theorem ibig_no_negative_zero (b : Bytes) (h : ofLeBytes b = 0) : ibigOfPayload b = 0 := by
  unfold ibigOfPayload; split <;> simp [h]

-- ---------------------------------------------------------------- rationals

theorem qreduce_of_reduced (q : QVal) (h : QReduced q) : qreduce q.num q.den = q := by
  obtain ⟨hd, hg⟩ := h
  unfold qreduce
  by_cases h0 : q.num = 0
  · have : q.den = 1 := by simpa [h0] using hg
    cases q; simp_all
  · simp only [h0, if_false, hg]
    cases q; simp

theorem tz_zero : tz 0 = 0 := by rw [tz]; simp
theorem tz_odd {n : Nat} (h : n % 2 = 1) : tz n = 0 := by rw [tz]; simp [h]
theorem tz_even {n : Nat} (h0 : n ≠ 0) (h : n % 2 = 0) : tz n = tz (n / 2) + 1 := by
  rw [tz]; have : ¬ (n = 0 ∨ n % 2 = 1) := by omega
  simp [this]

/-- `2^(tz n)` divides `n` and the quotient is odd (for `n ≠ 0`) -/
theorem tz_spec (n : Nat) (h : n ≠ 0) : 2 ^ tz n ∣ n ∧ (n / 2 ^ tz n) % 2 = 1 := by
  induction n using Nat.strongRecOn with
  | _ n ih =>
    by_cases ho : n % 2 = 1
    · rw [tz_odd ho]; simp [ho]
    · have he : n % 2 = 0 := by omega
      rw [tz_even h he]
      have hh : n / 2 ≠ 0 := by omega
      obtain ⟨d, o⟩ := ih (n / 2) (by omega) hh
      constructor
      · rw [Nat.pow_succ]
        obtain ⟨k, hk⟩ := d
        refine ⟨k, ?_⟩
        have hn : n = 2 * (n / 2) := by omega
        calc n = 2 * (n / 2) := hn
          _ = 2 * (2 ^ tz (n / 2) * k) := by rw [← hk]
          _ = 2 ^ tz (n / 2) * 2 * k := by ring
      · rw [Nat.pow_succ, Nat.mul_comm, ← Nat.div_div_eq_div_mul]; exact o

theorem tz_pos_of_even {n : Nat} (h0 : n ≠ 0) (h : n % 2 = 0) : 0 < tz n := by
  rw [tz_even h0 h]; omega

theorem qreduce2_of_relaxed (q : QVal) (h : QRelaxed q) : qreduce2 q.num q.den = q := by
  obtain ⟨hd, hg, hz⟩ := h
  unfold qreduce2
  by_cases h0 : q.num = 0
  · have := hz h0
    cases q; simp_all
  · simp only [h0, if_false]
    have hmin : min (tz q.num.natAbs) (tz q.den) = 0 := by
      by_cases hn : q.num % 2 = 0
      · have hdo : q.den % 2 = 1 := by
          by_contra hc; exact hg ⟨hn, by omega⟩
        rw [tz_odd hdo]; simp
      · have : q.num.natAbs % 2 = 1 := by omega
        rw [tz_odd this]; simp
    rw [hmin]
    cases q; simp

theorem qreduce_reduced (n : Int) (d : Nat) (hd : 0 < d) : QReduced (qreduce n d) := by
  unfold qreduce
  by_cases h0 : n = 0
  · simp [h0, QReduced]
  · simp only [h0, if_false]
    have hg : 0 < Nat.gcd n.natAbs d := Nat.gcd_pos_of_pos_right _ hd
    have hdvd : ((Nat.gcd n.natAbs d : Nat) : Int) ∣ n := by
      rw [← Int.natAbs_dvd_natAbs]; simpa using Nat.gcd_dvd_left n.natAbs d
    refine ⟨Nat.div_pos (Nat.gcd_le_right _ hd) hg, ?_⟩
    show Nat.gcd (n / ((Nat.gcd n.natAbs d : Nat) : Int)).natAbs (d / Nat.gcd n.natAbs d) = 1
    rw [Int.natAbs_ediv_of_dvd hdvd]
    simpa using Nat.coprime_div_gcd_div_gcd hg

theorem qreduce2_relaxed (n : Int) (d : Nat) (hd : 0 < d) : QRelaxed (qreduce2 n d) := by
  unfold qreduce2
  by_cases h0 : n = 0
  · simp [h0, QRelaxed]
  · simp only [h0, if_false]
    have hna : n.natAbs ≠ 0 := by omega
    obtain ⟨hn1, hn2⟩ := tz_spec n.natAbs hna
    obtain ⟨hd1, hd2⟩ := tz_spec d (by omega)
    generalize hz : min (tz n.natAbs) (tz d) = z
    have hzn : 2 ^ z ∣ n.natAbs := Nat.dvd_trans (Nat.pow_dvd_pow 2 (by omega)) hn1
    have hzd : 2 ^ z ∣ d := Nat.dvd_trans (Nat.pow_dvd_pow 2 (by omega)) hd1
    have hpos : 0 < 2 ^ z := Nat.pos_of_ne_zero (by positivity)
    have hdvd : (((2 ^ z : Nat)) : Int) ∣ n := by
      rw [← Int.natAbs_dvd_natAbs]; simpa using hzn
    have habs : (n / ((2 ^ z : Nat) : Int)).natAbs = n.natAbs / 2 ^ z := by
      rw [Int.natAbs_ediv_of_dvd hdvd]; simp
    have hq1 : 1 ≤ n.natAbs / 2 ^ z := Nat.div_pos (Nat.le_of_dvd (by omega) hzn) hpos
    refine ⟨Nat.div_pos (Nat.le_of_dvd hd hzd) hpos, ?_, ?_⟩
    · show ¬ ((n / ((2 ^ z : Nat) : Int)) % 2 = 0 ∧ (d / 2 ^ z) % 2 = 0)
      rintro ⟨e1, e2⟩
      have e1' : (n.natAbs / 2 ^ z) % 2 = 0 := by rw [← habs]; omega
      rcases Nat.le_total (tz n.natAbs) (tz d) with hle | hle
      · have : z = tz n.natAbs := by omega
        rw [this] at e1'; omega
      · have : z = tz d := by omega
        rw [this] at e2; omega
    · show n / ((2 ^ z : Nat) : Int) = 0 → d / 2 ^ z = 1
      intro e; rw [e] at habs; simp at habs; omega

theorem decQ_encQ (q : QVal) (rest : Bytes) (hq : QReduced q)
    (h1 : (ibigPayload q.num).length < 2 ^ 64) (h2 : (leBytes q.den).length < 2 ^ 64) :
    decQ (encQ q ++ rest) = some (q, rest) := by
  unfold decQ encQ
  rw [List.append_assoc, decI_encI _ _ h1]
  simp only [Option.bind_eq_bind, Option.bind_some]
  rw [decU_encU _ _ h2]
  have hd : ¬ (q.den = 0) := by have := hq.1; omega
  simp [hd, qreduce_of_reduced q hq]

theorem decX_encQ (q : QVal) (rest : Bytes) (hq : QRelaxed q)
    (h1 : (ibigPayload q.num).length < 2 ^ 64) (h2 : (leBytes q.den).length < 2 ^ 64) :
    decX (encQ q ++ rest) = some (q, rest) := by
  unfold decX encQ
  rw [List.append_assoc, decI_encI _ _ h1]
  simp only [Option.bind_eq_bind, Option.bind_some]
  rw [decU_encU _ _ h2]
  have hd : ¬ (q.den = 0) := by have := hq.1; omega
  simp [hd, qreduce2_of_relaxed q hq]

/-- whatever bytes arrive, a decoded `RBig` is in lowest terms with a positive denominator -/
theorem decQ_canonical (s : Bytes) (q : QVal) (r : Bytes) (h : decQ s = some (q, r)) : QReduced q := by
  unfold decQ at h
  cases h1 : decI s with
  | none => simp [h1] at h
  | some p1 =>
    obtain ⟨n, r1⟩ := p1
    cases h2 : decU r1 with
    | none => simp [h1, h2] at h
    | some p2 =>
      obtain ⟨d, r2⟩ := p2
      simp only [h1, h2, Option.bind_eq_bind, Option.bind_some] at h
      by_cases hc : d = 0
      · simp [hc] at h
      · simp only [hc, if_false] at h
        have hq : q = qreduce n d := by
          simp at h; exact h.1.symm
        subst hq
        exact qreduce_reduced n d (by omega)

theorem decX_canonical (s : Bytes) (q : QVal) (r : Bytes) (h : decX s = some (q, r)) : QRelaxed q := by
  unfold decX at h
  cases h1 : decI s with
  | none => simp [h1] at h
  | some p1 =>
    obtain ⟨n, r1⟩ := p1
    cases h2 : decU r1 with
    | none => simp [h1, h2] at h
    | some p2 =>
      obtain ⟨d, r2⟩ := p2
      simp only [h1, h2, Option.bind_eq_bind, Option.bind_some] at h
      by_cases hc : d = 0
      · simp [hc] at h
      · simp only [hc, if_false] at h
        have hq : q = qreduce2 n d := by
          simp at h; exact h.1.symm
        subst hq
        exact qreduce2_relaxed n d (by omega)

/-- the code as it is: a zero denominator survives (`±1/0`) -/
theorem decQAsIs_counterexample : ∃ q r, decQAsIs [1, 1, 0] = some (q, r) ∧ ¬ QReduced q := by
  refine ⟨⟨-1, 0⟩, [], by decide, ?_⟩
  simp [QReduced]

-- ---------------------------------------------------------------- floats

theorem stripB_stop {B m k : Nat} (h : B < 2 ∨ m = 0 ∨ m % B ≠ 0) : stripB B m k = (m, k) := by
  rw [stripB]; simp [h]

theorem stripB_step {B m k : Nat} (h : ¬ (B < 2 ∨ m = 0 ∨ m % B ≠ 0)) : stripB B m k = stripB B (m / B) (k + 1) := by
  rw [stripB]; simp [h]

theorem stripB_spec (B : Nat) (hB : 2 ≤ B) (m k : Nat) (hm : m ≠ 0) :
    (stripB B m k).1 ≠ 0 ∧ (stripB B m k).1 % B ≠ 0 ∧ k ≤ (stripB B m k).2 := by
  induction m using Nat.strongRecOn generalizing k with
  | _ m ih =>
    by_cases h : B < 2 ∨ m = 0 ∨ m % B ≠ 0
    · rw [stripB_stop h]
      refine ⟨hm, ?_, Nat.le_refl _⟩
      rcases h with h | h | h
      · omega
      · exact absurd h hm
      · exact h
    · rw [stripB_step h]
      have hdiv : m % B = 0 := by
        by_contra hc; exact h (Or.inr (Or.inr hc))
      have hlt : m / B < m := Nat.div_lt_self (by omega) (by omega)
      have hne : m / B ≠ 0 := by
        intro e
        have := Nat.div_add_mod m B
        rw [e, hdiv] at this; omega
      obtain ⟨a, b, c⟩ := ih (m / B) hlt (k + 1) hne
      exact ⟨a, b, by omega⟩

theorem fnew_canon (B : Nat) (hB : 2 ≤ B) (s e : Int) (v : FVal) (h : fnew B s e = some v) : FCanon B v := by
  unfold fnew at h
  by_cases h0 : s = 0
  · simp [h0] at h; subst h
    refine ⟨fun _ => Or.inl rfl, fun hc => absurd rfl hc, ?_⟩
    unfold inIsize inI64; norm_num
  · simp only [h0, if_false] at h
    obtain ⟨a, b, _⟩ := stripB_spec B hB s.natAbs 0 (by omega)
    by_cases hr : inIsize (e + ((stripB B s.natAbs 0).2 : Int))
    · simp only [hr, if_true] at h
      simp at h; subst h
      refine ⟨?_, ?_, hr⟩
      · intro hc; exfalso
        dsimp at hc
        split at hc <;> omega
      · intro _
        dsimp
        split <;> simpa using b
    · simp [hr] at h

theorem fnew_of_canon (B : Nat) (v : FVal) (h : FCanon B v) (hfin : v.signif = 0 → v.exp = 0) :
    fnew B v.signif v.exp = some v := by
  obtain ⟨h1, h2, h3⟩ := h
  unfold fnew
  by_cases h0 : v.signif = 0
  · have := hfin h0
    cases v; simp_all
  · simp only [h0, if_false]
    rw [stripB_stop (Or.inr (Or.inr (h2 h0)))]
    simp only [Int.natCast_zero, Int.add_zero, h3, if_true]
    cases v with
    | mk sg ex =>
      simp only [Option.some.injEq, FVal.mk.injEq, and_true]
      dsimp at h0
      split <;> omega

theorem fread_of_canon (B : Nat) (v : FVal) (h : FCanon B v) : fread B v.signif v.exp = some v := by
  unfold fread
  by_cases hi : v.signif = 0 ∧ (v.exp = 1 ∨ v.exp = -1)
  · simp only [hi, and_self, if_true]
    cases v; simp_all
  · simp only [hi, if_false]
    apply fnew_of_canon B v h
    intro h0
    rcases h.1 h0 with e | e | e
    · exact e
    · exact absurd ⟨h0, Or.inl e⟩ hi
    · exact absurd ⟨h0, Or.inr e⟩ hi

theorem fread_canon (B : Nat) (hB : 2 ≤ B) (s e : Int) (v : FVal) (h : fread B s e = some v) : FCanon B v := by
  unfold fread at h
  by_cases hi : s = 0 ∧ (e = 1 ∨ e = -1)
  · simp only [hi, and_self, if_true] at h
    simp at h; subst h
    refine ⟨fun _ => Or.inr hi.2, fun hc => absurd rfl hc, ?_⟩
    unfold inIsize inI64; dsimp
    rcases hi.2 with e1 | e1 <;> subst e1 <;> norm_num
  · simp only [hi, if_false] at h
    exact fnew_canon B hB s e v h

theorem decR_encR (B : Nat) (v : FVal) (rest : Bytes) (hv : FCanon B v)
    (h1 : (ibigPayload v.signif).length < 2 ^ 64) :
    decR B (encR v ++ rest) = some (v, rest) := by
  unfold decR encR
  rw [List.append_assoc, decI_encI _ _ h1]
  simp only [Option.bind_eq_bind, Option.bind_some]
  rw [pcTakeI64_pcI64 _ _ hv.2.2]
  simp only [Option.bind_some]
  rw [fread_of_canon B v hv]
  simp

theorem decF_encF (B : Nat) (v : FPVal) (rest : Bytes) (hv : FPCanon B v)
    (h1 : (ibigPayload v.signif).length < 2 ^ 64) (hp : v.prec < 2 ^ 64) :
    decF B (encF v ++ rest) = some (v, rest) := by
  unfold decF encF
  rw [List.append_assoc, List.append_assoc, decI_encI _ _ h1]
  simp only [Option.bind_eq_bind, Option.bind_some]
  rw [pcTakeI64_pcI64 _ _ hv.1.2.2]
  simp only [Option.bind_some]
  rw [pcTakeU64_pcU64 _ _ hp]
  simp only [Option.bind_some]
  have := fread_of_canon B ⟨v.signif, v.exp⟩ hv.1
  dsimp at this
  rw [this]
  simp only [Option.bind_some]
  have hc := hv.2
  simp [hc]

theorem decR_canonical (B : Nat) (hB : 2 ≤ B) (s : Bytes) (v : FVal) (r : Bytes)
    (h : decR B s = some (v, r)) : FCanon B v := by
  unfold decR at h
  cases h1 : decI s with
  | none => simp [h1] at h
  | some p1 =>
    obtain ⟨sig, r1⟩ := p1
    cases h2 : pcTakeI64 r1 with
    | none => simp [h1, h2] at h
    | some p2 =>
      obtain ⟨e, r2⟩ := p2
      cases h3 : fread B sig e with
      | none => simp [h1, h2, h3] at h
      | some w =>
        simp [h1, h2, h3] at h
        rw [← h.1]; exact fread_canon B hB sig e w h3

theorem decF_canonical (B : Nat) (hB : 2 ≤ B) (s : Bytes) (v : FPVal) (r : Bytes)
    (h : decF B s = some (v, r)) : FPCanon B v := by
  unfold decF at h
  cases h1 : decI s with
  | none => simp [h1] at h
  | some p1 =>
    obtain ⟨sig, r1⟩ := p1
    cases h2 : pcTakeI64 r1 with
    | none => simp [h1, h2] at h
    | some p2 =>
      obtain ⟨e, r2⟩ := p2
      cases h3 : pcTakeU64 r2 with
      | none => simp [h1, h2, h3] at h
      | some p3 =>
        obtain ⟨p, r3⟩ := p3
        cases h4 : fread B sig e with
        | none => simp [h1, h2, h3, h4] at h
        | some w =>
          simp only [h1, h2, h3, h4, Option.bind_eq_bind, Option.bind_some] at h
          by_cases hc : p = 0 ∨ ndigits B w.signif ≤ p
          · simp only [hc, if_true] at h
            simp at h
            obtain ⟨hv, _⟩ := h
            subst hv
            exact ⟨fread_canon B hB sig e w h4, hc⟩
          · simp [hc] at h

theorem ndigits_12345 : ndigits 10 12345 = 5 := by
  simp [ndigits, Dashu.Model.Text.digits, Dashu.Model.Text.digitsAux]

/-- the code as it is accepts a precision smaller than the significand -/
theorem decFAsIs_counterexample :
    ∃ v r, decFAsIs 10 [2, 0x39, 0x30, 0, 2] = some (v, r) ∧ ¬ FPCanon 10 v := by
  refine ⟨⟨12345, 0, 2⟩, [], ?_, ?_⟩
  · have hs : stripB 10 12345 0 = (12345, 0) := stripB_stop (by omega)
    simp [decFAsIs, decI, pcTakeBytes, varintDec, varintDecAux, ibigOfPayload, ofLeBytes, pcTakeI64, pcTakeU64,
      unzigzag, fnew, hs, inIsize, inI64]
  · intro h
    have := h.2
    dsimp only at this
    rw [ndigits_12345] at this
    omega

/-- the code as it is turns a serialized infinity into the number zero -/
theorem decRAsIs_infinity : decRAsIs 2 [0, 2] = some (⟨0, 0⟩, []) := by
  simp [decRAsIs, decI, pcTakeBytes, varintDec, varintDecAux, ibigOfPayload, ofLeBytes, pcTakeI64, unzigzag, fnew]

theorem encR_infinity : encR ⟨0, 1⟩ = [0, 2] := by
  simp [encR, encI, ibigPayload, pcBytes, pcI64, zigzag, varintEnc]

end Dashu.Model.Serde
