import Dashu.Proofs.Text.Float
/-
  C19 — `FBig::with_base` picks its precision independently of the word size and equal to the documented
  maximum (on builder-text's model `Text.withBasePrecision`, which mirrors the code since /repo fa3b7b8).
-/
namespace Dashu.Model.Text

theorem pow_window_unique (N T q q' : Nat) (hN : 2 ≤ N) (h1 : N ^ q ≤ T) (h2 : T < N ^ (q + 1))
    (h1' : N ^ q' ≤ T) (h2' : T < N ^ (q' + 1)) : q = q' := by
  have mono : ∀ a b : Nat, N ^ a < N ^ b → a < b := by
    intro a b h
    by_contra hc
    have : N ^ b ≤ N ^ a := Nat.pow_le_pow_right (by omega) (by omega)
    omega
  have a := mono q (q' + 1) (by omega)
  have b := mono q' (q + 1) (by omega)
  omega

/-- `with_base`'s precision is the documented maximum `max {q | NewB^q ≤ B^p}` in all three branches
    (`p·n` when `B = NewB^n`, `p / n` when `NewB = B^n`, the exact integer logarithm otherwise) — as long as
    `p·n` is a `usize` (beyond that the model requires saturation, builder-text's finding on the code's overflow) -/
theorem withBasePrecision_eq_spec (W B NewB p : Nat) (hB : 1 ≤ B) (hN : 2 ≤ NewB)
    (hp : p * ilogExact B NewB ≤ 2 ^ 64 - 1) :
    withBasePrecision W B NewB p = withBasePrecisionSpec B NewB p := by
  obtain ⟨s1, s2⟩ := withBasePrecisionSpec_max B NewB p hB hN
  unfold withBasePrecision
  simp only
  by_cases hd : ilogExact B NewB > 1
  · simp only [hd, if_true]
    rw [Nat.min_eq_left hp]
    have hb : B = NewB ^ ilogExact B NewB := ilogExact_spec B NewB _ rfl (by omega)
    generalize ilogExact B NewB = n at *
    apply pow_window_unique NewB (B ^ p) _ _ hN _ _ s1 s2
    · rw [hb, ← Nat.pow_mul, Nat.mul_comm]
    · rw [hb, ← Nat.pow_mul, Nat.mul_comm n p]
      exact Nat.pow_lt_pow_right (by omega) (by omega)
  · simp only [hd, if_false]
    by_cases hu : ilogExact NewB B > 1
    · simp only [hu, if_true]
      have hn : NewB = B ^ ilogExact NewB B := ilogExact_spec NewB B _ rfl (by omega)
      generalize ilogExact NewB B = n at *
      have hB2 : 2 ≤ B := by
        by_contra hc
        have : B = 1 := by omega
        rw [this] at hn; simp at hn; omega
      apply pow_window_unique NewB (B ^ p) _ _ hN _ _ s1 s2
      · rw [hn, ← Nat.pow_mul]
        exact Nat.pow_le_pow_right (by omega) (Nat.mul_div_le p n)
      · rw [hn, ← Nat.pow_mul]
        apply Nat.pow_lt_pow_right (by omega)
        have := Nat.div_add_mod p n
        have hm := Nat.mod_lt p (by omega : n > 0)
        have e : n * (p / n + 1) = n * (p / n) + n := by ring
        omega
    · simp only [hu, if_false]

/-- …and it does not depend on the word size -/
theorem withBasePrecision_word_size (W₁ W₂ B NewB p : Nat) :
    withBasePrecision W₁ B NewB p = withBasePrecision W₂ B NewB p := rfl

end Dashu.Model.Text
