import Dashu.Proofs.Serde.Num
import Dashu.Proofs.Text.Digits
/-
  C19 — the human-readable medium: decimal text of UBig / IBig survives `Display` → JSON string →
  `from_str_with_radix_prefix`; text decoders of rationals and floats return canonical values.
-/
namespace Dashu.Model.Serde
open Dashu.Model.Text

def isDecDigits (l : Bytes) : Prop := ∀ c ∈ l, 48 ≤ c ∧ c ≤ 57

theorem printSpec_dec (n : Nat) : isDecDigits (printSpec 10 false n) := by
  intro c hc
  unfold printSpec at hc
  obtain ⟨d, hd, rfl⟩ := List.mem_map.mp hc
  have := digits_lt (r := 10) (by omega) n d hd
  unfold digitChar; simp only [this, if_true]; omega

theorem digitValues_print (ds : List Nat) (h : ∀ d ∈ ds, d < 10) :
    digitValues 10 (ds.map (digitChar false)) = some ds := by
  induction ds with
  | nil => rfl
  | cons d t ih =>
    have hd : d < 10 := h d (by simp)
    have e : digitOf 10 (digitChar false d) = some d := by
      unfold digitOf alnumVal digitChar
      have h1 : 48 ≤ 48 + d ∧ 48 + d ≤ 57 := by omega
      simp [hd, h1]
    simp only [List.map_cons, digitValues, e, ih (fun x hx => h x (by simp [hx]))]

theorem filter_underscore_dec (l : Bytes) (h : isDecDigits l) : l.filter (· ≠ 95) = l := by
  apply List.filter_eq_self.mpr
  intro c hc
  have := h c hc
  simp; omega

theorem parseBodySpec_print (n : Nat) : parseBodySpec 10 (printSpec 10 false n) = .ok n := by
  unfold parseBodySpec
  rw [filter_underscore_dec _ (printSpec_dec n)]
  unfold printSpec
  rw [digitValues_print _ (digits_lt (by omega) n)]
  have hne := digits_ne_nil 10 n (by omega)
  cases hd : digits 10 n with
  | nil => exact absurd hd hne
  | cons a t => simp only; rw [← hd, ofDigits_digits (by omega)]

theorem splitPrefix_dec (l : Bytes) (h : isDecDigits l) : splitPrefix 10 l = (10, l) := by
  unfold splitPrefix
  split
  · rename_i rest; have := h 98 (by simp); omega
  · rename_i rest; have := h 111 (by simp); omega
  · rename_i rest; have := h 120 (by simp); omega
  · rfl

theorem splitSign_dec (signed : Bool) (l : Bytes) (h : isDecDigits l) : splitSign signed l = (false, l) := by
  unfold splitSign
  split
  · rename_i rest; have := h 45 (by simp); omega
  · rename_i rest; have := h 43 (by simp); omega
  · rfl

theorem printSpec_ne_nil (n : Nat) : printSpec 10 false n ≠ [] := by
  unfold printSpec
  simpa using digits_ne_nil 10 n (by omega)

theorem parseDefault_textI (z : Int) : parseDefaultSpec true (textI z) 10 = .ok (z, 10) := by
  unfold textI printSpecInt parseDefaultSpec
  by_cases hz : z < 0
  · simp only [hz, if_true, List.singleton_append]
    have : splitSign true (45 :: printSpec 10 false z.natAbs) = (true, printSpec 10 false z.natAbs) := by
      simp [splitSign]
    rw [this]; simp only
    rw [splitPrefix_dec _ (printSpec_dec _)]
    simp only [validRadix]
    rw [parseBodySpec_print]
    have e : -(z.natAbs : Int) = z := by omega
    simp only [applySign, Except.map, if_true, e]
    rfl
  · simp only [hz, if_false, List.nil_append]
    rw [splitSign_dec _ _ (printSpec_dec _)]; simp only
    rw [splitPrefix_dec _ (printSpec_dec _)]
    simp only [validRadix]
    rw [parseBodySpec_print]
    have e : (z.natAbs : Int) = z := by omega
    simp only [applySign, Except.map, e]
    rfl

theorem parseDefault_textU (n : Nat) : parseDefaultSpec false (textI n) 10 = .ok ((n : Int), 10) := by
  unfold textI printSpecInt parseDefaultSpec
  have hz : ¬ ((n : Int) < 0) := by omega
  simp only [hz, if_false, List.nil_append, Int.natAbs_natCast]
  rw [splitSign_dec _ _ (printSpec_dec _)]; simp only
  rw [splitPrefix_dec _ (printSpec_dec _)]
  simp only [validRadix]
  rw [parseBodySpec_print]
  simp [applySign, Except.map]

theorem textI_plain (z : Int) : ∀ c ∈ textI z, plainChar c := by
  intro c hc
  unfold textI printSpecInt at hc
  rcases List.mem_append.mp hc with h | h
  · split at h
    · have : c = 45 := by simpa using h
      subst this; unfold plainChar; omega
    · cases h
  · have := printSpec_dec _ c h
    unfold plainChar; omega

/-- UBig: `Display` → JSON string → `from_str_with_radix_prefix` is the identity -/
theorem unjsonU_jsonU (n : Nat) : unjsonU (jsonU n) = some n := by
  unfold unjsonU jsonU
  rw [jsonUnquote_jsonQuote _ (textI_plain _)]
  simp [parseU, parseDefault_textU]

/-- IBig: likewise, with the sign -/
theorem unjsonI_jsonI (z : Int) : unjsonI (jsonI z) = some z := by
  unfold unjsonI jsonI
  rw [jsonUnquote_jsonQuote _ (textI_plain _)]
  simp [parseI, parseDefault_textI]

-- ---------------------------------------------------------------- rational text round trip

theorem splitAt1_none (c : Nat) (a : Bytes) (h : c ∉ a) : splitAt1 c a = none := by
  induction a with
  | nil => rfl
  | cons x xs ih =>
    have hx : x ≠ c := fun e => h (by simp [e])
    have hxs : c ∉ xs := fun e => h (by simp [e])
    simp [splitAt1, hx, ih hxs]

theorem splitAt1_append (c : Nat) (a b : Bytes) (h : c ∉ a) : splitAt1 c (a ++ c :: b) = some (a, b) := by
  induction a with
  | nil => simp [splitAt1]
  | cons x xs ih =>
    have hx : x ≠ c := fun e => h (by simp [e])
    have hxs : c ∉ xs := fun e => h (by simp [e])
    simp [splitAt1, hx, ih hxs]

theorem textI_no_slash (z : Int) : 47 ∉ textI z := by
  intro hc
  unfold textI printSpecInt at hc
  rcases List.mem_append.mp hc with h | h
  · split at h
    · simp at h
    · cases h
  · have := printSpec_dec _ 47 h
    omega

theorem parseQRaw_textQ (q : QVal) (hd : q.den ≠ 0) : parseQRaw (textQ q) = some (q.num, q.den) := by
  unfold textQ
  by_cases h1 : q.den = 1
  · simp only [h1, if_true]
    unfold parseQRaw
    rw [splitAt1_none 47 _ (textI_no_slash q.num)]
    simp [parseDefault_textI]
  · simp only [h1, if_false]
    unfold parseQRaw
    rw [List.append_assoc, List.singleton_append, splitAt1_append 47 _ _ (textI_no_slash q.num)]
    simp only [parseDefault_textI]
    have hneg : ¬ ((q.den : Int) < 0) := by omega
    simp [hneg]

/-- RBig: `Display` → JSON string → `Repr::from_str_with_radix_prefix` + `reduce` is the identity on
    reduced fractions -/
theorem unjsonQ_jsonQ (q : QVal) (hq : QReduced q) : unjsonQ (jsonQ q) = some q := by
  unfold unjsonQ jsonQ
  have hplain : ∀ c ∈ textQ q, plainChar c := by
    intro c hc
    unfold textQ at hc
    split at hc
    · exact textI_plain _ c hc
    · rcases List.mem_append.mp hc with h | h
      · rcases List.mem_append.mp h with h | h
        · exact textI_plain _ c h
        · have : c = 47 := by simpa using h
          subst this; unfold plainChar; omega
      · exact textI_plain _ c h
  rw [jsonUnquote_jsonQuote _ hplain]
  have hd : q.den ≠ 0 := by have := hq.1; omega
  simp [parseQ, parseQRaw_textQ q hd, hd, qreduce_of_reduced q hq]

theorem unjsonX_jsonQ (q : QVal) (hq : QRelaxed q) : unjsonX (jsonQ q) = some q := by
  unfold unjsonX jsonQ
  have hplain : ∀ c ∈ textQ q, plainChar c := by
    intro c hc
    unfold textQ at hc
    split at hc
    · exact textI_plain _ c hc
    · rcases List.mem_append.mp hc with h | h
      · rcases List.mem_append.mp h with h | h
        · exact textI_plain _ c h
        · have : c = 47 := by simpa using h
          subst this; unfold plainChar; omega
      · exact textI_plain _ c h
  rw [jsonUnquote_jsonQuote _ hplain]
  have hd : q.den ≠ 0 := by have := hq.1; omega
  simp [parseX, parseQRaw_textQ q hd, hd, qreduce2_of_relaxed q hq]

-- ---------------------------------------------------------------- canonicity of the text decoders

theorem parseQ_canonical (s : Bytes) (q : QVal) (h : parseQ s = some q) : QReduced q := by
  unfold parseQ at h
  cases h1 : parseQRaw s with
  | none => simp [h1] at h
  | some p =>
    obtain ⟨n, d⟩ := p
    simp only [h1, Option.bind_eq_bind, Option.bind_some] at h
    by_cases hc : d = 0
    · simp [hc] at h
    · simp only [hc, if_false] at h
      have hq : q = qreduce n d := by simp at h; exact h.symm
      subst hq
      exact qreduce_reduced n d (by omega)

theorem parseX_canonical (s : Bytes) (q : QVal) (h : parseX s = some q) : QRelaxed q := by
  unfold parseX at h
  cases h1 : parseQRaw s with
  | none => simp [h1] at h
  | some p =>
    obtain ⟨n, d⟩ := p
    simp only [h1, Option.bind_eq_bind, Option.bind_some] at h
    by_cases hc : d = 0
    · simp [hc] at h
    · simp only [hc, if_false] at h
      have hq : q = qreduce2 n d := by simp at h; exact h.symm
      subst hq
      exact qreduce2_relaxed n d (by omega)

theorem unjsonQ_canonical (s : Bytes) (q : QVal) (h : unjsonQ s = some q) : QReduced q := by
  unfold unjsonQ at h
  cases h1 : jsonUnquote s with
  | none => simp [h1] at h
  | some t => simp [h1] at h; exact parseQ_canonical t q h

theorem unjsonX_canonical (s : Bytes) (q : QVal) (h : unjsonX s = some q) : QRelaxed q := by
  unfold unjsonX at h
  cases h1 : jsonUnquote s with
  | none => simp [h1] at h
  | some t => simp [h1] at h; exact parseX_canonical t q h

theorem parseF_canonical (B : Nat) (hB : 2 ≤ B) (s : Bytes) (v : FVal) (nd : Nat)
    (h : parseF B s = some (v, nd)) : FCanon B v := by
  unfold parseF at h
  cases h1 : parseNativeRaw B s with
  | none => simp [h1] at h
  | some p =>
    obtain ⟨neg, m, e, k⟩ := p
    simp only [h1, Option.bind_eq_bind, Option.bind_some] at h
    by_cases hr : inIsize e
    · simp only [hr, not_true_eq_false, if_false] at h
      cases h2 : fnew B (if neg = true then -(m : Int) else (m : Int)) e with
      | none => simp [h2] at h
      | some w =>
        simp [h2] at h
        rw [← h.1]; exact fnew_canon B hB _ _ w h2
    · simp [hr] at h

theorem unjsonR_canonical (B : Nat) (hB : 2 ≤ B) (s : Bytes) (v : FVal) (h : unjsonR B s = some v) : FCanon B v := by
  unfold unjsonR at h
  cases h1 : (jsonUnquote s).bind (parseF B) with
  | none => simp [h1] at h
  | some p =>
    obtain ⟨w, nd⟩ := p
    simp [h1] at h
    subst h
    cases h2 : jsonUnquote s with
    | none => simp [h2] at h1
    | some t => simp [h2] at h1; exact parseF_canonical B hB t w nd h1

end Dashu.Model.Serde
