import Dashu.Proofs.Serde.Num
import Dashu.Proofs.Text.Digits
import Dashu.Proofs.Text.FloatParse
/-
  C19 — the human-readable medium: decimal text of UBig / IBig survives `Display` → JSON string →
  `from_str_with_radix_prefix`; text decoders of rationals and floats return canonical values.
-/
namespace Dashu.Model.Serde
open Dashu.Model.Text

def isDecDigits (l : Bytes) : Prop := ∀ c ∈ l, 48 ≤ c ∧ c ≤ 57

theorem printSpec_dec (n : Nat) : isDecDigits (printSpec 10 false n) := by
  intro c hc
  unfold printSpec at hc
  obtain ⟨d, hd, rfl⟩ := List.mem_map.mp hc
  have := digits_lt (r := 10) (by omega) n d hd
  unfold digitChar; simp only [this, if_true]; omega

theorem digitValues_print (ds : List Nat) (h : ∀ d ∈ ds, d < 10) :
    digitValues 10 (ds.map (digitChar false)) = some ds := by
  induction ds with
  | nil => rfl
  | cons d t ih =>
    have hd : d < 10 := h d (by simp)
    have e : digitOf 10 (digitChar false d) = some d := by
      unfold digitOf alnumVal digitChar
      have h1 : 48 ≤ 48 + d ∧ 48 + d ≤ 57 := by omega
      simp [hd, h1]
    simp only [List.map_cons, digitValues, e, ih (fun x hx => h x (by simp [hx]))]

theorem filter_underscore_dec (l : Bytes) (h : isDecDigits l) : l.filter (· ≠ 95) = l := by
  apply List.filter_eq_self.mpr
  intro c hc
  have := h c hc
  simp; omega

theorem parseBodySpec_print (n : Nat) : parseBodySpec 10 (printSpec 10 false n) = .ok n := by
  unfold parseBodySpec
  rw [filter_underscore_dec _ (printSpec_dec n)]
  unfold printSpec
  rw [digitValues_print _ (digits_lt (by omega) n)]
  have hne := digits_ne_nil 10 n (by omega)
  cases hd : digits 10 n with
  | nil => exact absurd hd hne
  | cons a t => simp only; rw [← hd, ofDigits_digits (by omega)]

theorem splitPrefix_dec (l : Bytes) (h : isDecDigits l) : splitPrefix 10 l = (10, l) := by
  unfold splitPrefix
  split
  · rename_i rest; have := h 98 (by simp); omega
  · rename_i rest; have := h 111 (by simp); omega
  · rename_i rest; have := h 120 (by simp); omega
  · rfl

theorem splitSign_dec (signed : Bool) (l : Bytes) (h : isDecDigits l) : splitSign signed l = (false, l) := by
  unfold splitSign
  split
  · rename_i rest; have := h 45 (by simp); omega
  · rename_i rest; have := h 43 (by simp); omega
  · rfl

theorem printSpec_ne_nil (n : Nat) : printSpec 10 false n ≠ [] := by
  unfold printSpec
  simpa using digits_ne_nil 10 n (by omega)

theorem parseDefault_textI (z : Int) : parseDefaultSpec true (textI z) 10 = .ok (z, 10) := by
  unfold textI printSpecInt parseDefaultSpec
  by_cases hz : z < 0
  · simp only [hz, if_true, List.singleton_append]
    have : splitSign true (45 :: printSpec 10 false z.natAbs) = (true, printSpec 10 false z.natAbs) := by
      simp [splitSign]
    rw [this]; simp only
    rw [splitPrefix_dec _ (printSpec_dec _)]
    simp only [validRadix]
    rw [parseBodySpec_print]
    have e : -(z.natAbs : Int) = z := by omega
    simp only [applySign, Except.map, if_true, e]
    rfl
  · simp only [hz, if_false, List.nil_append]
    rw [splitSign_dec _ _ (printSpec_dec _)]; simp only
    rw [splitPrefix_dec _ (printSpec_dec _)]
    simp only [validRadix]
    rw [parseBodySpec_print]
    have e : (z.natAbs : Int) = z := by omega
    simp only [applySign, Except.map, e]
    rfl

theorem parseDefault_textU (n : Nat) : parseDefaultSpec false (textI n) 10 = .ok ((n : Int), 10) := by
  unfold textI printSpecInt parseDefaultSpec
  have hz : ¬ ((n : Int) < 0) := by omega
  simp only [hz, if_false, List.nil_append, Int.natAbs_natCast]
  rw [splitSign_dec _ _ (printSpec_dec _)]; simp only
  rw [splitPrefix_dec _ (printSpec_dec _)]
  simp only [validRadix]
  rw [parseBodySpec_print]
  simp [applySign, Except.map]

theorem textI_plain (z : Int) : ∀ c ∈ textI z, plainChar c := by
  intro c hc
  unfold textI printSpecInt at hc
  rcases List.mem_append.mp hc with h | h
  · split at h
    · have : c = 45 := by simpa using h
      subst this; unfold plainChar; omega
    · cases h
  · have := printSpec_dec _ c h
    unfold plainChar; omega

/-- UBig: `Display` → JSON string → `from_str_with_radix_prefix` is the identity -/
theorem unjsonU_jsonU (n : Nat) : unjsonU (jsonU n) = some n := by
  unfold unjsonU jsonU
  rw [jsonUnquote_jsonQuote _ (textI_plain _)]
  simp [parseU, parseDefault_textU]

/-- IBig: likewise, with the sign -/
theorem unjsonI_jsonI (z : Int) : unjsonI (jsonI z) = some z := by
  unfold unjsonI jsonI
  rw [jsonUnquote_jsonQuote _ (textI_plain _)]
  simp [parseI, parseDefault_textI]

-- ---------------------------------------------------------------- rational text round trip

theorem splitAt1_none (c : Nat) (a : Bytes) (h : c ∉ a) : splitAt1 c a = none := by
  induction a with
  | nil => rfl
  | cons x xs ih =>
    have hx : x ≠ c := fun e => h (by simp [e])
    have hxs : c ∉ xs := fun e => h (by simp [e])
    simp [splitAt1, hx, ih hxs]

theorem splitAt1_append (c : Nat) (a b : Bytes) (h : c ∉ a) : splitAt1 c (a ++ c :: b) = some (a, b) := by
  induction a with
  | nil => simp [splitAt1]
  | cons x xs ih =>
    have hx : x ≠ c := fun e => h (by simp [e])
    have hxs : c ∉ xs := fun e => h (by simp [e])
    simp [splitAt1, hx, ih hxs]

theorem textI_no_slash (z : Int) : 47 ∉ textI z := by
  intro hc
  unfold textI printSpecInt at hc
  rcases List.mem_append.mp hc with h | h
  · split at h
    · simp at h
    · cases h
  · have := printSpec_dec _ 47 h
    omega

theorem parseQRaw_textQ (q : QVal) (hd : q.den ≠ 0) : parseQRaw (textQ q) = some (q.num, q.den) := by
  unfold textQ
  by_cases h1 : q.den = 1
  · simp only [h1, if_true]
    unfold parseQRaw
    rw [splitAt1_none 47 _ (textI_no_slash q.num)]
    simp [parseDefault_textI]
  · simp only [h1, if_false]
    unfold parseQRaw
    rw [List.append_assoc, List.singleton_append, splitAt1_append 47 _ _ (textI_no_slash q.num)]
    simp only [parseDefault_textI]
    have hneg : ¬ ((q.den : Int) < 0) := by omega
    simp [hneg]

/-- RBig: `Display` → JSON string → `Repr::from_str_with_radix_prefix` + `reduce` is the identity on
    reduced fractions -/
theorem unjsonQ_jsonQ (q : QVal) (hq : QReduced q) : unjsonQ (jsonQ q) = some q := by
  unfold unjsonQ jsonQ
  have hplain : ∀ c ∈ textQ q, plainChar c := by
    intro c hc
    unfold textQ at hc
    split at hc
    · exact textI_plain _ c hc
    · rcases List.mem_append.mp hc with h | h
      · rcases List.mem_append.mp h with h | h
        · exact textI_plain _ c h
        · have : c = 47 := by simpa using h
          subst this; unfold plainChar; omega
      · exact textI_plain _ c h
  rw [jsonUnquote_jsonQuote _ hplain]
  have hd : q.den ≠ 0 := by have := hq.1; omega
  simp [parseQ, parseQRaw_textQ q hd, hd, qreduce_of_reduced q hq]

theorem unjsonX_jsonQ (q : QVal) (hq : QRelaxed q) : unjsonX (jsonQ q) = some q := by
  unfold unjsonX jsonQ
  have hplain : ∀ c ∈ textQ q, plainChar c := by
    intro c hc
    unfold textQ at hc
    split at hc
    · exact textI_plain _ c hc
    · rcases List.mem_append.mp hc with h | h
      · rcases List.mem_append.mp h with h | h
        · exact textI_plain _ c h
        · have : c = 47 := by simpa using h
          subst this; unfold plainChar; omega
      · exact textI_plain _ c h
  rw [jsonUnquote_jsonQuote _ hplain]
  have hd : q.den ≠ 0 := by have := hq.1; omega
  simp [parseX, parseQRaw_textQ q hd, hd, qreduce2_of_relaxed q hq]

-- ---------------------------------------------------------------- canonicity of the text decoders

theorem parseQ_canonical (s : Bytes) (q : QVal) (h : parseQ s = some q) : QReduced q := by
  unfold parseQ at h
  cases h1 : parseQRaw s with
  | none => simp [h1] at h
  | some p =>
    obtain ⟨n, d⟩ := p
    simp only [h1, Option.bind_eq_bind, Option.bind_some] at h
    by_cases hc : d = 0
    · simp [hc] at h
    · simp only [hc, if_false] at h
      have hq : q = qreduce n d := by simp at h; exact h.symm
      subst hq
      exact qreduce_reduced n d (by omega)

theorem parseX_canonical (s : Bytes) (q : QVal) (h : parseX s = some q) : QRelaxed q := by
  unfold parseX at h
  cases h1 : parseQRaw s with
  | none => simp [h1] at h
  | some p =>
    obtain ⟨n, d⟩ := p
    simp only [h1, Option.bind_eq_bind, Option.bind_some] at h
    by_cases hc : d = 0
    · simp [hc] at h
    · simp only [hc, if_false] at h
      have hq : q = qreduce2 n d := by simp at h; exact h.symm
      subst hq
      exact qreduce2_relaxed n d (by omega)

theorem unjsonQ_canonical (s : Bytes) (q : QVal) (h : unjsonQ s = some q) : QReduced q := by
  unfold unjsonQ at h
  cases h1 : jsonUnquote s with
  | none => simp [h1] at h
  | some t => simp [h1] at h; exact parseQ_canonical t q h

theorem unjsonX_canonical (s : Bytes) (q : QVal) (h : unjsonX s = some q) : QRelaxed q := by
  unfold unjsonX at h
  cases h1 : jsonUnquote s with
  | none => simp [h1] at h
  | some t => simp [h1] at h; exact parseX_canonical t q h

-- ---------------------------------------------------------------- float text (on builder-text's model)

section FloatText
open Dashu.Model.Float

/-- two normalised representations of the same number coincide -/
theorem normalized_unique (B : Nat) (hB : 2 ≤ B) (a b : FRepr) (ha : Normalized B a) (hb : Normalized B b)
    (hza : a.signif = 0 → a.exp = 0) (hzb : b.signif = 0 → b.exp = 0)
    (hv : a.toRat B = b.toRat B) : a = b := by
  have hB0 : 0 < B := by omega
  have key : ∀ (x y : FRepr), Normalized B x → Normalized B y → x.signif ≠ 0 → x.exp ≤ y.exp →
      x.toRat B = y.toRat B → x.exp = y.exp ∧ x.signif = y.signif := by
    intro x y hx hy hx0 hle h
    obtain ⟨k, hk⟩ : ∃ k : Nat, y.exp = x.exp + k := ⟨(y.exp - x.exp).toNat, by omega⟩
    unfold FRepr.toRat at h
    rw [hk, bpowQ_add B hB0, bpowQ_nat] at h
    have hpos := bpowQ_pos B hB0 x.exp
    have h2 : (x.signif : ℚ) = (y.signif : ℚ) * ((B ^ k : Nat) : ℚ) := by
      have : (x.signif : ℚ) * bpowQ B x.exp = ((y.signif : ℚ) * ((B ^ k : Nat) : ℚ)) * bpowQ B x.exp := by
        rw [h]; ring
      exact mul_right_cancel₀ (ne_of_gt hpos) this
    have h3 : x.signif = y.signif * ((B ^ k : Nat) : Int) := by exact_mod_cast h2
    by_cases hk0 : k = 0
    · subst hk0; simp at h3; exact ⟨by omega, h3⟩
    · exfalso
      rcases hx with hx | hx
      · exact hx0 hx
      · apply hx
        obtain ⟨j, hj⟩ : ∃ j, k = j + 1 := ⟨k - 1, by omega⟩
        rw [h3, hj, Nat.pow_succ]
        push_cast
        rw [← mul_assoc]
        exact Int.mul_emod_left _ _
  by_cases ha0 : a.signif = 0
  · have hae := hza ha0
    have hbv : b.toRat B = 0 := by rw [← hv]; unfold FRepr.toRat; simp [ha0]
    have hb0 : b.signif = 0 := by
      unfold FRepr.toRat at hbv
      have hpos := bpowQ_pos B hB0 b.exp
      rcases mul_eq_zero.mp hbv with h | h
      · exact_mod_cast h
      · exact absurd h (ne_of_gt hpos)
    have hbe := hzb hb0
    cases a; cases b; simp_all
  · have hb0 : b.signif ≠ 0 := by
      intro hb0
      have : a.toRat B = 0 := by rw [hv]; unfold FRepr.toRat; simp [hb0]
      unfold FRepr.toRat at this
      have hpos := bpowQ_pos B hB0 a.exp
      rcases mul_eq_zero.mp this with h | h
      · exact ha0 (by exact_mod_cast h)
      · exact absurd h (ne_of_gt hpos)
    rcases Int.le_total a.exp b.exp with h | h
    · obtain ⟨e1, e2⟩ := key a b ha hb ha0 h hv
      cases a; cases b; simp_all
    · obtain ⟨e1, e2⟩ := key b a hb ha hb0 h hv.symm
      cases a; cases b; simp_all

theorem int_emod_of_natAbs (s : Int) (B : Nat) (h : s.natAbs % B ≠ 0) : s % (B : Int) ≠ 0 := by
  intro hc
  apply h
  have hd : (B : Int) ∣ s := Int.dvd_of_emod_eq_zero hc
  have : B ∣ s.natAbs := Int.natCast_dvd.mp hd
  exact Nat.mod_eq_zero_of_dvd this

theorem natAbs_emod_of_int (s : Int) (B : Nat) (h : s % (B : Int) ≠ 0) : s.natAbs % B ≠ 0 := by
  intro hc
  apply h
  have : B ∣ s.natAbs := Nat.dvd_of_mod_eq_zero hc
  exact Int.emod_eq_zero_of_dvd (Int.natCast_dvd.mpr this)

theorem new_zero_exp (B : Nat) (hB : 0 < B) (s e : Int) (h : (FRepr.new B s e).signif = 0) :
    FRepr.new B s e = ⟨0, 0⟩ := by
  have hv := FRepr.new_value B hB s e
  unfold FRepr.toRat at hv
  rw [h] at hv
  have hpos := bpowQ_pos B hB e
  have hs : s = 0 := by
    have : (s : ℚ) * bpowQ B e = 0 := by rw [← hv]; simp
    rcases mul_eq_zero.mp this with h1 | h1
    · exact_mod_cast h1
    · exact absurd h1 (ne_of_gt hpos)
  subst hs
  simp [FRepr.new]

/-- `Display` (no precision option) followed by `from_str_native` returns the representation itself,
    for every finite canonical `Repr<B>`, every base 2..36 -/
theorem parseF_textF (B : Nat) (hB : validRadix B = true) (v : FVal) (hc : FCanon B v)
    (hfin : v.signif = 0 → v.exp = 0) : ∃ nd, parseF B (textF B v) = some (v, nd) := by
  have hr := validRadix_iff.mp hB
  have hB0 : 0 < B := by omega
  have hninf : ¬ (v.signif = 0 ∧ v.exp ≠ 0) := fun h => h.2 (hfin h.1)
  unfold textF
  simp only [hninf, if_false]
  obtain ⟨r', n, hparse, hval⟩ := display_parse_round_trip 64 (by norm_num) B hB .zero ⟨v.signif, v.exp⟩
  unfold fromStrNative at hparse
  unfold parseF
  cases hraw : fromStrNativeRaw 64 B (fmtRound B .zero {} none ⟨v.signif, v.exp⟩) with
  | error e => rw [hraw] at hparse; simp [Except.map] at hparse
  | ok t =>
    obtain ⟨sig, e, nd⟩ := t
    rw [hraw] at hparse
    simp [Except.map] at hparse
    obtain ⟨hr', hn⟩ := hparse
    have hnorm : Normalized B (FRepr.new B sig e) := FRepr.new_normalized B hr.1 sig e
    have hvn : Normalized B ⟨v.signif, v.exp⟩ := by
      unfold Normalized
      by_cases h0 : v.signif = 0
      · exact Or.inl h0
      · exact Or.inr (int_emod_of_natAbs _ _ (hc.2.1 h0))
    have heq : FRepr.new B sig e = ⟨v.signif, v.exp⟩ := by
      apply normalized_unique B hr.1 _ _ hnorm hvn
      · intro h0; rw [new_zero_exp B hB0 sig e h0]
      · exact hfin
      · rw [hr']; exact hval
    simp only [heq]
    have hin : inIsize v.exp := hc.2.2
    simp [hin]

theorem digitChar_plain (d : Nat) (hd : d < 36) : plainChar (digitChar false d) := by
  unfold digitChar plainChar
  by_cases h : d < 10 <;> simp [h] <;> omega

theorem fmtRound_plain (B : Nat) (hB : validRadix B = true) (m : Mode) (r : FRepr) :
    ∀ c ∈ fmtRound B m {} none r, plainChar c := by
  have hr := validRadix_iff.mp hB
  obtain ⟨di, frac, htext, hdi, hdf, _, _⟩ := display_is_literal B hr.1 m r
  rw [htext]
  intro c hc
  unfold renderLiteral at hc
  rcases List.mem_append.mp hc with h | h
  · -- sign
    split at h
    · have : c = 45 := by simpa [signChars] using h
      subst this; unfold plainChar; omega
    · simp [signChars] at h
  · rcases List.mem_append.mp h with h | h
    · rcases List.mem_append.mp h with h | h
      · obtain ⟨d, hd, rfl⟩ := chars_mem h
        exact digitChar_plain d (by have := hdi d hd; omega)
      · cases frac with
        | none => simp [fracChars] at h
        | some df =>
          simp only [fracChars, List.mem_cons] at h
          rcases h with h | h
          · subst h; unfold plainChar; omega
          · obtain ⟨d, hd, rfl⟩ := chars_mem h
            exact digitChar_plain d (by have := hdf d (by simpa using hd); omega)
    · simp [scaleChars] at h

theorem parseF_canonical (B : Nat) (hB : 2 ≤ B) (s : Bytes) (v : FVal) (nd : Nat)
    (h : parseF B s = some (v, nd)) : FCanon B v := by
  unfold parseF at h
  cases hraw : fromStrNativeRaw 64 B s with
  | error e => simp [hraw] at h
  | ok t =>
    obtain ⟨sig, e, k⟩ := t
    simp only [hraw] at h
    by_cases hin : inIsize (FRepr.new B sig e).exp
    · simp only [hin, if_true] at h
      simp at h
      obtain ⟨hv, _⟩ := h
      subst hv
      have hnorm := FRepr.new_normalized B hB sig e
      refine ⟨?_, ?_, hin⟩
      · intro h0
        dsimp at h0
        have := new_zero_exp B (by omega) sig e h0
        dsimp
        rw [this]; exact Or.inl rfl
      · intro h0
        dsimp at h0 ⊢
        rcases hnorm with h1 | h1
        · exact absurd h1 h0
        · exact natAbs_emod_of_int _ _ h1
    · simp [hin] at h


/-- Repr<B>: `Display` → JSON string → `from_str_native` is the identity on finite canonical
    representations, every base 2..36 -/
theorem unjsonR_jsonR (B : Nat) (hB : validRadix B = true) (v : FVal) (hc : FCanon B v)
    (hfin : v.signif = 0 → v.exp = 0) : unjsonR B (jsonR B v) = some v := by
  unfold unjsonR jsonR
  have hninf : ¬ (v.signif = 0 ∧ v.exp ≠ 0) := fun h => h.2 (hfin h.1)
  have hplain : ∀ c ∈ textF B v, plainChar c := by
    unfold textF; simp only [hninf, if_false]
    exact fmtRound_plain B hB .zero _
  rw [jsonUnquote_jsonQuote _ hplain]
  obtain ⟨nd, h⟩ := parseF_textF B hB v hc hfin
  simp [h]

/-- FBig: the same text; the precision read back is the number of digits written -/
theorem unjsonF_jsonR (B : Nat) (hB : validRadix B = true) (v : FVal) (hc : FCanon B v)
    (hfin : v.signif = 0 → v.exp = 0) : ∃ nd, unjsonF B (jsonR B v) = some ⟨v.signif, v.exp, nd⟩ := by
  unfold unjsonF jsonR
  have hninf : ¬ (v.signif = 0 ∧ v.exp ≠ 0) := fun h => h.2 (hfin h.1)
  have hplain : ∀ c ∈ textF B v, plainChar c := by
    unfold textF; simp only [hninf, if_false]
    exact fmtRound_plain B hB .zero _
  rw [jsonUnquote_jsonQuote _ hplain]
  obtain ⟨nd, h⟩ := parseF_textF B hB v hc hfin
  exact ⟨nd, by simp [h]⟩

end FloatText

theorem unjsonR_canonical (B : Nat) (hB : 2 ≤ B) (s : Bytes) (v : FVal) (h : unjsonR B s = some v) : FCanon B v := by
  unfold unjsonR at h
  cases h1 : (jsonUnquote s).bind (parseF B) with
  | none => simp [h1] at h
  | some p =>
    obtain ⟨w, nd⟩ := p
    simp [h1] at h
    subst h
    cases h2 : jsonUnquote s with
    | none => simp [h2] at h1
    | some t => simp [h2] at h1; exact parseF_canonical B hB t w nd h1

end Dashu.Model.Serde
