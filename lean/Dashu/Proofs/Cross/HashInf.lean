import Dashu.Proofs.Cross.HashProofs
namespace Dashu.Model.Cross

theorem i128NumHash_zero : i128NumHash 0 = 0 := by decide
theorem i128NumHash_inf : i128NumHash ((2 : Int) ^ 127 - 1) = 0 := by decide
theorem i128NumHash_neginf : i128NumHash (-((2 : Int) ^ 127 - 1)) = 0 := by decide

/-- an FBig with zero significand (zero, `+∞`, `-∞`) feeds 0 -/
theorem floatHash_zero_signif (B : Nat) (e : Int) : floatHash B 0 e = 0 := by
  unfold floatHash
  simp [i128NumHash_zero]

/-- an infinite f32/f64 feeds 0 (num-order's `HASH_INF`/`HASH_NEGINF` are mapped to 0 by
    `i128::num_hash`) -/
theorem primFloatHash_inf (t : FloatTy) (bits : Nat) {neg : Bool} (h : decode t bits = .inf neg) :
    primFloatHash t bits = 0 := by
  unfold decode at h
  unfold primFloatHash
  simp only at h ⊢
  split at h
  · rename_i hex
    split at h
    · exact absurd h (by simp)
    · rename_i hm
      simp only [hex, if_true]
      have hm' : bits % 2 ^ t.mantBits = 0 := by simpa using hm
      simp only [hm', ne_eq, not_true_eq_false, if_false]
      split <;> first | exact i128NumHash_neginf | exact i128NumHash_inf
  · exact absurd h (by simp)

/-- NumHash at the infinities: `FBig ±∞` and `f32/f64 ±∞` (which `num_eq` each other) feed the same
    `i128` -/
theorem numHash_inf (B : Nat) (e : Int) (p : Nat) (t : FloatTy) (bits : Nat) {neg : Bool}
    (h : decode t bits = .inf neg) :
    numHashFeed (.fbig B 0 e p) = numHashFeed (.pfloat t bits) := by
  show floatHash B 0 e = primFloatHash t bits
  rw [floatHash_zero_signif, primFloatHash_inf t bits h]

end Dashu.Model.Cross
