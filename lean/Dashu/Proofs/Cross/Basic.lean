import Dashu.Proofs.Cross.Encl
import Mathlib.Tactic.Ring
import Mathlib.Tactic.Linarith
import Mathlib.Tactic.Positivity
import Mathlib.Order.Compare
import Mathlib.Algebra.Order.Ring.Int
/-
  C14 proofs — basic facts: `compare` on `Int`/`Nat`, the sign table, cross-multiplied fractions,
  the soundness hypothesis on an oracle.
-/
namespace Dashu.Model.Cross

theorem cmpI_lt {a b : Int} : compare a b = .lt ↔ a < b := compare_lt_iff_lt
theorem cmpI_eq {a b : Int} : compare a b = .eq ↔ a = b := compare_eq_iff_eq
theorem cmpI_gt {a b : Int} : compare a b = .gt ↔ b < a := compare_gt_iff_gt
theorem cmpN_lt {a b : Nat} : compare a b = .lt ↔ a < b := compare_lt_iff_lt
theorem cmpN_eq {a b : Nat} : compare a b = .eq ↔ a = b := compare_eq_iff_eq
theorem cmpN_gt {a b : Nat} : compare a b = .gt ↔ b < a := compare_gt_iff_gt

/-- two integer comparisons agree as soon as their `<` and `=` agree -/
theorem cmpI_congr {a b c d : Int} (hlt : a < b ↔ c < d) (hgt : b < a ↔ d < c) :
    compare a b = compare c d := by
  rcases lt_trichotomy a b with h | h | h
  · rw [cmpI_lt.2 h, cmpI_lt.2 (hlt.1 h)]
  · have h1 : ¬ c < d := fun hc => by have := hlt.2 hc; omega
    have h2 : ¬ d < c := fun hc => by have := hgt.2 hc; omega
    rw [cmpI_eq.2 h, cmpI_eq.2 (by omega)]
  · rw [cmpI_gt.2 h, cmpI_gt.2 (hgt.1 h)]

theorem cmpN_cast (a b : Nat) : compare a b = compare (a : Int) (b : Int) := by
  rcases lt_trichotomy a b with h | h | h
  · rw [cmpN_lt.2 h, cmpI_lt.2 (by exact_mod_cast h)]
  · rw [cmpN_eq.2 h, cmpI_eq.2 (by exact_mod_cast h)]
  · rw [cmpN_gt.2 h, cmpI_gt.2 (by exact_mod_cast h)]

theorem cmpI_swap (a b : Int) : (compare a b).swap = compare b a := by
  rcases lt_trichotomy a b with h | h | h
  · rw [cmpI_lt.2 h, cmpI_gt.2 h]; rfl
  · rw [cmpI_eq.2 h, cmpI_eq.2 h.symm]; rfl
  · rw [cmpI_gt.2 h, cmpI_lt.2 h]; rfl

theorem cmpI_neg (a b : Int) : compare (-a) (-b) = compare b a :=
  cmpI_congr (by constructor <;> intro h <;> omega) (by constructor <;> intro h <;> omega)

theorem cmpI_mul_pos {a b c : Int} (hc : 0 < c) : compare (a * c) (b * c) = compare a b :=
  cmpI_congr ⟨fun h => lt_of_mul_lt_mul_right h hc.le, fun h => mul_lt_mul_of_pos_right h hc⟩
    ⟨fun h => lt_of_mul_lt_mul_right h hc.le, fun h => mul_lt_mul_of_pos_right h hc⟩

-- ------------------------------------------------------------------ signs

theorem Sign.ofInt_pos {i : Int} : Sign.ofInt i = .pos ↔ 0 ≤ i := by
  unfold Sign.ofInt; split <;> simp <;> omega
theorem Sign.ofInt_neg {i : Int} : Sign.ofInt i = .neg ↔ i < 0 := by
  unfold Sign.ofInt; split <;> simp <;> omega

theorem signMatch_inl {a b : Int} {sg : Sign} (h : signMatch (Sign.ofInt a) (Sign.ofInt b) = .inl sg) :
    (sg = .pos ∧ 0 ≤ a ∧ 0 ≤ b) ∨ (sg = .neg ∧ a < 0 ∧ b < 0) := by
  unfold signMatch at h
  rcases ha : Sign.ofInt a with _ | _ <;> rcases hb : Sign.ofInt b with _ | _ <;> rw [ha, hb] at h <;>
    simp at h
  · exact Or.inl ⟨h.symm, Sign.ofInt_pos.1 ha, Sign.ofInt_pos.1 hb⟩
  · exact Or.inr ⟨h.symm, Sign.ofInt_neg.1 ha, Sign.ofInt_neg.1 hb⟩

theorem signMatch_inr {a b : Int} {o : Ordering} (h : signMatch (Sign.ofInt a) (Sign.ofInt b) = .inr o) :
    (o = .gt ∧ 0 ≤ a ∧ b < 0) ∨ (o = .lt ∧ a < 0 ∧ 0 ≤ b) := by
  unfold signMatch at h
  rcases ha : Sign.ofInt a with _ | _ <;> rcases hb : Sign.ofInt b with _ | _ <;> rw [ha, hb] at h <;>
    simp at h
  · exact Or.inl ⟨h.symm, Sign.ofInt_pos.1 ha, Sign.ofInt_neg.1 hb⟩
  · exact Or.inr ⟨h.symm, Sign.ofInt_neg.1 ha, Sign.ofInt_pos.1 hb⟩

-- ------------------------------------------------------------------ cross-multiplied fractions

/-- signs alone decide -/
theorem cmp_cross_of_signs {n1 n2 : Int} {d1 d2 : Int} {o : Ordering} (hd1 : 0 < d1) (hd2 : 0 < d2)
    (h : signMatch (Sign.ofInt n1) (Sign.ofInt n2) = .inr o) :
    compare (n1 * d2) (n2 * d1) = o := by
  rcases signMatch_inr h with ⟨rfl, h1, h2⟩ | ⟨rfl, h1, h2⟩
  · apply cmpI_gt.2
    have a : n2 * d1 < 0 := mul_neg_of_neg_of_pos h2 hd1
    have b : 0 ≤ n1 * d2 := mul_nonneg h1 hd2.le
    omega
  · apply cmpI_lt.2
    have a : n1 * d2 < 0 := mul_neg_of_neg_of_pos h1 hd2
    have b : 0 ≤ n2 * d1 := mul_nonneg h2 hd1.le
    omega

/-- equal signs and ordered magnitudes -/
theorem cmp_cross_of_abs_lt {n1 n2 : Int} {d1 d2 : Int} {sg : Sign}
    (hs : signMatch (Sign.ofInt n1) (Sign.ofInt n2) = .inl sg) (h : |n1| * d2 < |n2| * d1) :
    compare (n1 * d2) (n2 * d1) = sg.app .lt := by
  rcases signMatch_inl hs with ⟨rfl, h1, h2⟩ | ⟨rfl, h1, h2⟩
  · rw [abs_of_nonneg h1, abs_of_nonneg h2] at h
    exact cmpI_lt.2 h
  · rw [abs_of_neg h1, abs_of_neg h2] at h
    show _ = Ordering.gt
    apply cmpI_gt.2
    linarith

theorem cmp_cross_of_abs_gt {n1 n2 : Int} {d1 d2 : Int} {sg : Sign}
    (hs : signMatch (Sign.ofInt n1) (Sign.ofInt n2) = .inl sg) (h : |n2| * d1 < |n1| * d2) :
    compare (n1 * d2) (n2 * d1) = sg.app .gt := by
  rcases signMatch_inl hs with ⟨rfl, h1, h2⟩ | ⟨rfl, h1, h2⟩
  · rw [abs_of_nonneg h1, abs_of_nonneg h2] at h
    exact cmpI_gt.2 h
  · rw [abs_of_neg h1, abs_of_neg h2] at h
    show _ = Ordering.lt
    apply cmpI_lt.2
    linarith

/-- a real inequality between magnitudes `|n|/d`, cross-multiplied in `Int` -/
theorem abs_cross_of_real {n1 n2 : Int} {d1 d2 : Nat} (hd1 : 0 < d1) (hd2 : 0 < d2)
    (h : |(n1 : ℝ)| / (d1 : ℝ) < |(n2 : ℝ)| / (d2 : ℝ)) : |n1| * (d2 : Int) < |n2| * (d1 : Int) := by
  have h1 : (0 : ℝ) < d1 := by exact_mod_cast hd1
  have h2 : (0 : ℝ) < d2 := by exact_mod_cast hd2
  rw [div_lt_div_iff₀ h1 h2] at h
  have : ((|n1| * (d2 : Int) : Int) : ℝ) < ((|n2| * (d1 : Int) : Int) : ℝ) := by
    push_cast; exact h
  exact_mod_cast this

-- ------------------------------------------------------------------ the soundness hypothesis

/-- magnitude of the float `s · B^e` -/
noncomputable def fltMag (B : Nat) (s e : Int) : ℝ := |(s : ℝ)| * (B : ℝ) ^ e
/-- magnitude of the rational `n / d` -/
noncomputable def ratMag (n : Int) (d : Nat) : ℝ := |(n : ℝ)| / (d : ℝ)

/-- ENCLOSURE HYPOTHESIS on an oracle: every `log2_bounds` result encloses `log₂` of the magnitude
    it is asked about, and `digits_ub` is an upper bound of the digit count. -/
structure Oracle.Sound (o : Oracle) : Prop where
  nat : ∀ n : Nat, Encl (n : ℝ) (o.nat n)
  flt : ∀ (B : Nat) (s e : Int), 2 ≤ B → Encl (fltMag B s e) (o.flt B s e)
  rat : ∀ (n : Int) (d : Nat), 0 < d → Encl (ratMag n d) (o.rat n d)
  digits : ∀ (B : Nat) (s : Int), 2 ≤ B → s.natAbs < B ^ o.digitsUb B s

theorem fltMag_eq_frac {B : Nat} (hB : 2 ≤ B) (s e : Int) :
    fltMag B s e = |(((floatFrac B s e).1 : Int) : ℝ)| / (((floatFrac B s e).2 : Nat) : ℝ) := by
  have hBpos : (0 : ℝ) < B := by exact_mod_cast (by omega : 0 < B)
  unfold fltMag floatFrac
  split
  · rename_i he
    have : e = -((-e).toNat : Int) := by omega
    simp only
    conv_lhs => rw [this]
    rw [zpow_neg, zpow_natCast]
    push_cast
    rw [div_eq_mul_inv]
  · rename_i he
    have : e = (e.toNat : Int) := by omega
    simp only
    conv_lhs => rw [this]
    rw [zpow_natCast]
    push_cast
    rw [abs_mul, abs_pow, abs_of_pos hBpos]
    simp

theorem floatFrac_den_pos {B : Nat} (hB : 2 ≤ B) (s e : Int) : 0 < (floatFrac B s e).2 := by
  unfold floatFrac
  split
  · exact Nat.pow_pos (by omega)
  · simp

end Dashu.Model.Cross
