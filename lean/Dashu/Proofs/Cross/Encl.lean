import Dashu.Model.Cross.Ord
import Mathlib.Analysis.SpecialFunctions.Pow.Real
import Mathlib.Analysis.SpecialFunctions.Log.Base
/-
  C14 proofs — the enclosure hypothesis on the estimate oracle (`lb ≤ log₂ v ≤ ub`, with
  `log₂ 0 = -∞`) and the only fact the comparison code uses about it: bounds that do not overlap
  order the magnitudes.
-/
namespace Dashu.Model.Cross

/-- `2^b ≤ v` -/
def EB.le2 : EB → ℝ → Prop
  | .ninf, _ => True
  | .fin q, v => (2 : ℝ) ^ (q : ℝ) ≤ v
  | .pinf, _ => False

/-- `v ≤ 2^b` -/
def EB.ge2 : EB → ℝ → Prop
  | .ninf, v => v ≤ 0
  | .fin q, v => v ≤ (2 : ℝ) ^ (q : ℝ)
  | .pinf, _ => True

/-- ENCLOSURE HYPOTHESIS: `b.1 ≤ log₂ v ≤ b.2` for a magnitude `v ≥ 0` (`log₂ 0 = -∞`), written
    multiplicatively so that `v = 0` needs no special case. -/
def Encl (v : ℝ) (b : EB × EB) : Prop := b.1.le2 v ∧ b.2.ge2 v

/-- for positive `v` and finite bounds the enclosure is literally `lo ≤ log₂ v ≤ hi` -/
theorem encl_iff_logb {v : ℝ} (hv : 0 < v) (lo hi : ℚ) :
    Encl v (.fin lo, .fin hi) ↔ (lo : ℝ) ≤ Real.logb 2 v ∧ Real.logb 2 v ≤ (hi : ℝ) := by
  unfold Encl EB.le2 EB.ge2
  simp only
  rw [Real.le_logb_iff_rpow_le (by norm_num) hv, Real.logb_le_iff_le_rpow (by norm_num) hv]

/-- a zero magnitude is enclosed exactly by a lower bound `-∞` (what `log2_bounds` returns) -/
theorem encl_zero_iff (b : EB × EB) : Encl 0 b ↔ b.1 = .ninf ∧ b.2.ge2 0 := by
  unfold Encl
  constructor
  · rintro ⟨h1, h2⟩
    refine ⟨?_, h2⟩
    cases hb : b.1 with
    | ninf => rfl
    | fin q => rw [hb] at h1; exact absurd h1 (not_le.2 (Real.rpow_pos_of_pos (by norm_num) _))
    | pinf => rw [hb] at h1; exact h1.elim
  · rintro ⟨h1, h2⟩
    exact ⟨by rw [h1]; trivial, h2⟩

/-- THE filter fact: if the upper bound of one magnitude is below the lower bound of another,
    the magnitudes are ordered that way. -/
theorem Encl.sep {v1 v2 : ℝ} {b1 b2 : EB × EB} (h1 : Encl v1 b1) (h2 : Encl v2 b2)
    (h : EB.lt b1.2 b2.1 = true) : v1 < v2 := by
  obtain ⟨_, hhi⟩ := h1
  obtain ⟨hlo, _⟩ := h2
  cases hb1 : b1.2 with
  | ninf =>
    rw [hb1] at hhi h
    cases hb2 : b2.1 with
    | ninf => rw [hb2] at h; simp [EB.lt] at h
    | fin q =>
      rw [hb2] at hlo
      exact lt_of_le_of_lt hhi (lt_of_lt_of_le (Real.rpow_pos_of_pos (by norm_num) _) hlo)
    | pinf => rw [hb2] at hlo; exact hlo.elim
  | fin a =>
    rw [hb1] at hhi h
    cases hb2 : b2.1 with
    | ninf => rw [hb2] at h; simp [EB.lt] at h
    | fin q =>
      rw [hb2] at hlo h
      have hq : a < q := by simpa [EB.lt] using h
      have : (2 : ℝ) ^ (a : ℝ) < (2 : ℝ) ^ (q : ℝ) :=
        Real.rpow_lt_rpow_of_exponent_lt (by norm_num) (by exact_mod_cast hq)
      exact lt_of_le_of_lt hhi (lt_of_lt_of_le this hlo)
    | pinf => rw [hb2] at hlo; exact hlo.elim
  | pinf =>
    rw [hb1] at h
    cases hb2 : b2.1 <;> rw [hb2] at h <;> simp [EB.lt] at h

end Dashu.Model.Cross
