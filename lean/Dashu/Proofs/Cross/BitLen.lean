import Dashu.Proofs.Cross.Filter
import Dashu.Model.Cross.Oracle
import Dashu.Model.Cross.Pre
import Mathlib.Data.Nat.Log
/-
  C14 proofs — the comparison functions that use BIT LENGTHS as stand-ins for log₂
  (integer/float/rational `third_party/num_order.rs` against f32/f64, rational/src/cmp.rs):
  outside the recorded defect classes (`defectA`, `defectF`) the mirrored code returns the order of
  the exact values.
-/
namespace Dashu.Model.Cross

-- ------------------------------------------------------------------ 0. bit length

/-- `bit_len(0) = 0` -/
theorem bitLen_zero : bitLen 0 = 0 := rfl

theorem bitLen_of_ne {n : Nat} (h : n ≠ 0) : bitLen n = Nat.log2 n + 1 := by
  unfold bitLen; rw [if_neg h]

/-- every number is below `2 ^ bit_len` -/
theorem lt_two_pow_bitLen (n : Nat) : n < 2 ^ bitLen n := by
  by_cases h : n = 0
  · subst h; simp [bitLen]
  · rw [bitLen_of_ne h]; exact Nat.lt_log2_self

/-- a nonzero number is at least `2 ^ (bit_len - 1)` -/
theorem two_pow_bitLen_le {n : Nat} (h : n ≠ 0) : 2 ^ (bitLen n - 1) ≤ n := by
  rw [bitLen_of_ne h, Nat.add_sub_cancel]; exact Nat.log2_self_le h

theorem bitLen_pos {n : Nat} (h : n ≠ 0) : 0 < bitLen n := by
  rw [bitLen_of_ne h]; omega

theorem bitLen_eq_zero_iff {n : Nat} : bitLen n = 0 ↔ n = 0 := by
  constructor
  · intro h; by_contra hn; have := bitLen_pos hn; omega
  · rintro rfl; rfl

theorem bitLen_le_of_lt_two_pow {n k : Nat} (h : n < 2 ^ k) : bitLen n ≤ k := by
  by_cases hn : n = 0
  · subst hn; simp [bitLen]
  · have h1 := two_pow_bitLen_le hn
    have h2 : 2 ^ (bitLen n - 1) < 2 ^ k := lt_of_le_of_lt h1 h
    have h3 := (Nat.pow_lt_pow_iff_right (by omega : 1 < 2)).1 h2
    have := bitLen_pos hn
    omega

theorem lt_bitLen_of_two_pow_le {n k : Nat} (h : 2 ^ k ≤ n) : k < bitLen n := by
  have h2 : 2 ^ k < 2 ^ bitLen n := lt_of_le_of_lt h (lt_two_pow_bitLen n)
  exact (Nat.pow_lt_pow_iff_right (by omega : 1 < 2)).1 h2

theorem bitLen_mono {m n : Nat} (h : m ≤ n) : bitLen m ≤ bitLen n :=
  bitLen_le_of_lt_two_pow (lt_of_le_of_lt h (lt_two_pow_bitLen n))

theorem bitLen_eq_of_bounds {n k : Nat} (h1 : 2 ^ k ≤ n) (h2 : n < 2 ^ (k + 1)) : bitLen n = k + 1 := by
  have := bitLen_le_of_lt_two_pow h2
  have := lt_bitLen_of_two_pow_le h1
  omega

-- real-number forms (`zpow`)

theorem two_zpow_pos (L : Int) : (0 : ℝ) < (2 : ℝ) ^ L := zpow_pos (by norm_num) L

theorem two_zpow_mono {a b : Int} (h : a ≤ b) : (2 : ℝ) ^ a ≤ (2 : ℝ) ^ b :=
  zpow_le_zpow_right₀ (by norm_num) h

theorem two_zpow_add (a b : Int) : (2 : ℝ) ^ (a + b) = (2 : ℝ) ^ a * (2 : ℝ) ^ b :=
  zpow_add₀ (by norm_num) a b

theorem natR_lt (n : Nat) : (n : ℝ) < (2 : ℝ) ^ (bitLen n : Int) := by
  rw [zpow_natCast]; exact_mod_cast lt_two_pow_bitLen n

theorem natR_ge {n : Nat} (h : n ≠ 0) : (2 : ℝ) ^ ((bitLen n : Int) - 1) ≤ (n : ℝ) := by
  have hp := bitLen_pos h
  have : ((bitLen n : Int) - 1) = ((bitLen n - 1 : Nat) : Int) := by omega
  rw [this, zpow_natCast]; exact_mod_cast two_pow_bitLen_le h

theorem intR_abs (s : Int) : |(s : ℝ)| = (s.natAbs : ℝ) := by
  rw [← Int.cast_abs, Int.abs_eq_natAbs]; simp

theorem intR_lt (s : Int) : |(s : ℝ)| < (2 : ℝ) ^ (bitLen s.natAbs : Int) := by
  rw [intR_abs]; exact natR_lt _

theorem intR_ge {s : Int} (h : s ≠ 0) : (2 : ℝ) ^ ((bitLen s.natAbs : Int) - 1) ≤ |(s : ℝ)| := by
  rw [intR_abs]; exact natR_ge (by omega)

-- ------------------------------------------------------------------ 1. range of a decoded float

/-- a decoded finite float is below `2 ^ MAX_EXP` in magnitude (in bit-length terms) -/
def Decoded.InRange (t : FloatTy) : Decoded → Prop
  | .fin m e => (bitLen m.natAbs : Int) + e ≤ (t.maxExp : Int)
  | _ => True

theorem natAbs_ite_neg (c : Prop) [Decidable c] (m : Nat) :
    (if c then -(m : Int) else (m : Int)).natAbs = m := by
  split <;> simp

/-- every bit pattern decodes to a value in range: `bit_len(mantissa) + exponent ≤ MAX_EXP` -/
theorem decode_inRange (t : FloatTy) (bits : Nat) : (decode t bits).InRange t := by
  unfold decode
  dsimp only
  split
  · split <;> trivial
  · rename_i hex
    show (bitLen (if _ then -(_ : Int) else _).natAbs : Int) + _ ≤ _
    rw [natAbs_ite_neg]
    have hmant : bits % 2 ^ t.mantBits < 2 ^ t.mantBits := Nat.mod_lt _ (Nat.pow_pos (by omega))
    have hexlt : (bits >>> t.mantBits) % 2 ^ t.expBits < 2 ^ t.expBits :=
      Nat.mod_lt _ (Nat.pow_pos (by omega))
    generalize (bits >>> t.mantBits) % 2 ^ t.expBits = ex at *
    generalize bits % 2 ^ t.mantBits = mant at *
    by_cases h0 : ex = 0
    · simp only [h0, if_true]
      have := bitLen_le_of_lt_two_pow hmant
      cases t <;> simp only [FloatTy.mantBits, FloatTy.bias, FloatTy.maxExp] at * <;> omega
    · simp only [h0, if_false]
      have hm : mant + 2 ^ t.mantBits < 2 ^ (t.mantBits + 1) := by rw [Nat.pow_succ]; omega
      have := bitLen_le_of_lt_two_pow hm
      cases t <;> simp only [FloatTy.mantBits, FloatTy.bias, FloatTy.maxExp, FloatTy.expBits] at * <;>
        omega

-- ------------------------------------------------------------------ magnitudes and separation

theorem cmp_of_mag_lt {n1 n2 : Int} {d1 d2 : Nat} (hd1 : 0 < d1) (hd2 : 0 < d2) {sg : Sign}
    (hs : signMatch (Sign.ofInt n1) (Sign.ofInt n2) = .inl sg)
    (h : |(n1 : ℝ)| / (d1 : ℝ) < |(n2 : ℝ)| / (d2 : ℝ)) :
    compare (n1 * (d2 : Int)) (n2 * (d1 : Int)) = sg.app .lt :=
  cmp_cross_of_abs_lt hs (abs_cross_of_real hd1 hd2 h)

theorem cmp_of_mag_gt {n1 n2 : Int} {d1 d2 : Nat} (hd1 : 0 < d1) (hd2 : 0 < d2) {sg : Sign}
    (hs : signMatch (Sign.ofInt n1) (Sign.ofInt n2) = .inl sg)
    (h : |(n2 : ℝ)| / (d2 : ℝ) < |(n1 : ℝ)| / (d1 : ℝ)) :
    compare (n1 * (d2 : Int)) (n2 * (d1 : Int)) = sg.app .gt :=
  cmp_cross_of_abs_gt hs (abs_cross_of_real hd2 hd1 h)

/-- magnitude of a decoded float `man · 2^exp`, `man ≠ 0`, between consecutive powers of two -/
theorem decMag_bounds {man : Int} (hm : man ≠ 0) (exp : Int) :
    (2 : ℝ) ^ ((bitLen man.natAbs : Int) + exp - 1) ≤ fltMag 2 man exp ∧
      fltMag 2 man exp < (2 : ℝ) ^ ((bitLen man.natAbs : Int) + exp) := by
  unfold fltMag
  rw [Nat.cast_ofNat]
  have h1 := intR_ge hm
  have h2 := intR_lt man
  have hp := two_zpow_pos exp
  constructor
  · have : (bitLen man.natAbs : Int) + exp - 1 = ((bitLen man.natAbs : Int) - 1) + exp := by ring
    rw [this, two_zpow_add]
    exact mul_le_mul_of_nonneg_right h1 hp.le
  · rw [two_zpow_add]
    exact mul_lt_mul_of_pos_right h2 hp

/-- the magnitude of the fraction `floatFrac 2 man exp` -/
theorem decFrac_mag (man exp : Int) :
    |(((floatFrac 2 man exp).1 : Int) : ℝ)| / (((floatFrac 2 man exp).2 : Nat) : ℝ) = fltMag 2 man exp :=
  (fltMag_eq_frac (le_refl 2) man exp).symm

theorem floatFrac_zero_num (B : Nat) (e : Int) : (floatFrac B 0 e).1 = 0 := by
  unfold floatFrac; split <;> simp

theorem floatFrac_num_ne {B : Nat} (hB : 2 ≤ B) {s : Int} (hs : s ≠ 0) (e : Int) :
    (floatFrac B s e).1 ≠ 0 := by
  rcases lt_or_gt_of_ne hs with h | h
  · have := floatFrac_num_neg hB e h; omega
  · unfold floatFrac
    split
    · exact hs
    · have : (0 : Int) < (B : Int) ^ e.toNat := pow_pos (by exact_mod_cast (by omega : 0 < B)) _
      have := mul_pos h this
      simp only; omega

/-- comparison against a zero right-hand side -/
theorem cmp_zero_right {n1 d2 z : Int} (hd2 : 0 < d2) (hz : z = 0) (d1 : Int) :
    compare (n1 * d2) (z * d1) = if n1 = 0 then .eq else (Sign.ofInt n1).app .gt := by
  subst hz
  rw [zero_mul]
  split
  · rename_i h; subst h; simp
  · rename_i h
    rcases lt_or_gt_of_ne h with h | h
    · rw [Sign.ofInt_neg.2 h]
      exact cmpI_lt.2 (mul_neg_of_neg_of_pos h hd2)
    · rw [Sign.ofInt_pos.2 h.le]
      exact cmpI_gt.2 (mul_pos h hd2)

theorem intMag_lt (x : Int) : |(x : ℝ)| / ((1 : Nat) : ℝ) < (2 : ℝ) ^ (bitLen x.natAbs : Int) := by
  rw [Nat.cast_one, div_one]; exact intR_lt x

theorem intMag_ge {x : Int} (h : x ≠ 0) :
    (2 : ℝ) ^ ((bitLen x.natAbs : Int) - 1) ≤ |(x : ℝ)| / ((1 : Nat) : ℝ) := by
  rw [Nat.cast_one, div_one]; exact intR_ge h

-- ------------------------------------------------------------------ defect class A, unpacked

theorem defectA_nat {x : Nat} {man exp : Int} (h : defectA (.nat x) man exp = false) (hx : x = 0)
    (hm : 0 < man) : 0 ≤ (bitLen man.natAbs : Int) + exp := by
  subst hx
  simp [defectA, Kind.isZero, hm] at h
  exact h

theorem defectA_int {x : Int} {man exp : Int} (h : defectA (.int x) man exp = false) (hx : x = 0)
    (hm : 0 < man) : 0 ≤ (bitLen man.natAbs : Int) + exp := by
  subst hx
  simp [defectA, Kind.isZero, hm] at h
  exact h

theorem defectA_flt {B : Nat} {s e : Int} {p : Nat} {man exp : Int}
    (h : defectA (.flt B s e p) man exp = false) (hs : s = 0) (he : e = 0)
    (hm : 0 < man) : 0 ≤ (bitLen man.natAbs : Int) + exp := by
  subst hs; subst he
  simp [defectA, Kind.isZero, fIsZero, hm] at h
  exact h

theorem defectA_rat {b : Bool} {n : Int} {dn : Nat} {man exp : Int}
    (h : defectA (.rat b n dn) man exp = false) (hn : n = 0)
    (hm : 0 < man) : -2 ≤ (bitLen man.natAbs : Int) + exp - 1 := by
  subst hn
  simp [defectA, Kind.isZero, hm] at h
  omega

-- ------------------------------------------------------------------ integer × float

/-- the bit-length cascade of `impl_num_ord_ubig/ibig_with_float` (steps 3–5) -/
theorem int_skeleton {n1 n2 : Int} {d1 d2 : Nat} (hd1 : 0 < d1) (hd2 : 0 < d2) {sg : Sign}
    (hs : signMatch (Sign.ofInt n1) (Sign.ofInt n2) = .inl sg) {sb ob K : Int} {r : Option Ordering}
    (hK : ob ≤ K)
    (hneg : ob < 0 → |(n2 : ℝ)| / (d2 : ℝ) < |(n1 : ℝ)| / (d1 : ℝ))
    (hgt : sb > ob → 0 ≤ ob → |(n2 : ℝ)| / (d2 : ℝ) < |(n1 : ℝ)| / (d1 : ℝ))
    (hlt : sb < ob → |(n1 : ℝ)| / (d1 : ℝ) < |(n2 : ℝ)| / (d2 : ℝ))
    (hex : r = some (compare (n1 * (d2 : Int)) (n2 * (d1 : Int)))) :
    (if sb > K then some (sg.app .gt)
     else if ob < 0 then some (sg.app .gt)
     else if sb > ob then some (sg.app .gt)
     else if sb < ob then some (sg.app .lt)
     else r) = some (compare (n1 * (d2 : Int)) (n2 * (d1 : Int))) := by
  by_cases hneg' : ob < 0
  · have := cmp_of_mag_gt hd1 hd2 hs (hneg hneg')
    rw [this]; split <;> simp
  · by_cases h1 : sb > ob
    · have := cmp_of_mag_gt hd1 hd2 hs (hgt h1 (by omega))
      rw [this]; simp [h1]
    · have hK' : ¬ sb > K := by omega
      by_cases h2 : sb < ob
      · have := cmp_of_mag_lt hd1 hd2 hs (hlt h2)
        rw [this]; simp [hK', hneg', h1, h2]
      · simp [hK', hneg', h1, h2, hex]

theorem maxExp_le (t : FloatTy) : (t.maxExp : Int) ≤ ((t.mantDigits + t.maxExp : Nat) : Int) := by
  omega

/-- magnitude facts used by the integer cascade -/
theorem int_vs_dec_sep (x : Int) {man : Int} (hm : man ≠ 0) (exp : Int) :
    (x ≠ 0 → (bitLen man.natAbs : Int) + exp < 0 →
        fltMag 2 man exp < |(x : ℝ)| / ((1 : Nat) : ℝ)) ∧
    ((bitLen x.natAbs : Int) > (bitLen man.natAbs : Int) + exp → 0 ≤ (bitLen man.natAbs : Int) + exp →
        fltMag 2 man exp < |(x : ℝ)| / ((1 : Nat) : ℝ)) ∧
    ((bitLen x.natAbs : Int) < (bitLen man.natAbs : Int) + exp →
        |(x : ℝ)| / ((1 : Nat) : ℝ) < fltMag 2 man exp) := by
  obtain ⟨hlo, hhi⟩ := decMag_bounds hm exp
  refine ⟨fun hx h => ?_, fun h h0 => ?_, fun h => ?_⟩
  · have h1 := intMag_ge hx
    have hb : 0 < bitLen x.natAbs := bitLen_pos (by omega)
    exact lt_of_lt_of_le hhi (le_trans (two_zpow_mono (by omega)) h1)
  · have hx : x ≠ 0 := by
      rintro rfl
      have h00 : bitLen (0 : Int).natAbs = 0 := rfl
      rw [h00] at h; omega
    have h1 := intMag_ge hx
    exact lt_of_lt_of_le hhi (le_trans (two_zpow_mono (by omega)) h1)
  · exact lt_of_lt_of_le (intMag_lt x) (le_trans (two_zpow_mono (by omega)) hlo)

theorem int_exact_eq (x man exp : Int) :
    (if exp ≥ 0 then some (compare x (man * 2 ^ exp.toNat))
      else some (compare (x * 2 ^ (-exp).toNat) man))
    = some (compare (x * ((floatFrac 2 man exp).2 : Int)) ((floatFrac 2 man exp).1 * ((1 : Nat) : Int))) := by
  unfold floatFrac
  by_cases h : exp < 0
  · have : ¬ exp ≥ 0 := by omega
    simp [h, this]
  · have : exp ≥ 0 := by omega
    simp [h, this]

/-- `NumOrd<f32/f64> for UBig` returns the order of the exact values outside defect class A -/
theorem ubigNumOrdFloatPre_partial (t : FloatTy) (x : Nat) (d : Decoded) (hr : d.InRange t)
    (hA : ∀ man exp, d = .fin man exp → defectA (.nat x) man exp = false) :
    ubigNumOrdFloatPre t x d = XVal.cmp (.fin (x : Int) 1) (decodedValue d) := by
  cases d with
  | nan => rfl
  | inf neg => cases neg <;> rfl
  | fin man exp =>
    have hA' := hA man exp rfl
    have hr' : (bitLen man.natAbs : Int) + exp ≤ t.maxExp := hr
    have hd2 := floatFrac_den_pos (le_refl 2) man exp
    show ubigNumOrdFloatPre t x (.fin man exp) = some (compare ((x : Int) * ((floatFrac 2 man exp).2 : Int))
      ((floatFrac 2 man exp).1 * ((1 : Nat) : Int)))
    unfold ubigNumOrdFloatPre
    dsimp only
    by_cases h0 : man = 0
    · subst h0
      rw [if_pos rfl, cmp_zero_right (by exact_mod_cast hd2) (floatFrac_zero_num 2 exp)]
      by_cases hx : x = 0
      · simp [hx]
      · have : (x : Int) ≠ 0 := by omega
        rw [if_neg hx, if_neg this, Sign.ofInt_pos.2 (by omega)]; rfl
    · rw [if_neg h0]
      by_cases hneg : man < 0
      · rw [if_pos hneg]
        have hs : signMatch (Sign.ofInt (x : Int)) (Sign.ofInt (floatFrac 2 man exp).1) = .inr .gt := by
          rw [floatFrac_sign (le_refl 2), Sign.ofInt_pos.2 (by omega), Sign.ofInt_neg.2 hneg]; rfl
        rw [cmp_cross_of_signs (d1 := ((1 : Nat) : Int)) (by exact_mod_cast Nat.one_pos)
          (by exact_mod_cast hd2) hs]
      · rw [if_neg hneg]
        have hpos : 0 < man := by omega
        have hs : signMatch (Sign.ofInt (x : Int)) (Sign.ofInt (floatFrac 2 man exp).1) = .inl .pos := by
          rw [floatFrac_sign (le_refl 2)]; exact signMatch_nonneg (by omega) (by omega)
        obtain ⟨s1, s2, s3⟩ := int_vs_dec_sep (x : Int) h0 exp
        simp only [Int.natAbs_natCast] at s1 s2 s3
        have hnat : (man.natAbs : Int) = man := by omega
        rw [hnat]
        refine int_skeleton (n1 := (x : Int)) (n2 := (floatFrac 2 man exp).1) (sg := .pos) Nat.one_pos hd2 hs
          (le_trans hr' (maxExp_le t)) ?_ ?_ ?_ (int_exact_eq _ _ _)
        · intro h
          rw [decFrac_mag]
          refine s1 ?_ h
          intro hx
          have := defectA_nat hA' (by exact_mod_cast hx) hpos
          omega
        · intro h h'; rw [decFrac_mag]; exact s2 h h'
        · intro h; rw [decFrac_mag]; exact s3 h

/-- `NumOrd<f32/f64> for IBig` returns the order of the exact values outside defect classes A, F -/
theorem ibigNumOrdFloatPre_partial (t : FloatTy) (x : Int) (d : Decoded) (hr : d.InRange t)
    (hA : ∀ man exp, d = .fin man exp → defectA (.int x) man exp = false)
    (hF : ∀ neg, d = .inf neg → defectF (.int x) neg = false) :
    ibigNumOrdFloatPre t x d = XVal.cmp (.fin x 1) (decodedValue d) := by
  cases d with
  | nan => rfl
  | inf neg =>
    have hF' := hF neg rfl
    unfold ibigNumOrdFloatPre
    by_cases hx : x < 0
    · have hn : neg = false := by simpa [defectF, hx] using hF'
      subst hn
      rw [Sign.ofInt_neg.2 hx]; rfl
    · have hn : neg = true := by simpa [defectF, hx] using hF'
      subst hn
      rw [Sign.ofInt_pos.2 (by omega)]; rfl
  | fin man exp =>
    have hA' := hA man exp rfl
    have hr' : (bitLen man.natAbs : Int) + exp ≤ t.maxExp := hr
    have hd2 := floatFrac_den_pos (le_refl 2) man exp
    show ibigNumOrdFloatPre t x (.fin man exp) = some (compare (x * ((floatFrac 2 man exp).2 : Int))
      ((floatFrac 2 man exp).1 * ((1 : Nat) : Int)))
    unfold ibigNumOrdFloatPre
    dsimp only
    by_cases h0 : man = 0
    · subst h0
      rw [if_pos rfl, cmp_zero_right (by exact_mod_cast hd2) (floatFrac_zero_num 2 exp)]
      by_cases hx : x = 0
      · simp [hx]
      · rw [if_neg hx, if_neg hx]
    · rw [if_neg h0]
      cases hm : signMatch (Sign.ofInt x) (Sign.ofInt man) with
      | inr o =>
        dsimp only
        rw [← floatFrac_sign (le_refl 2) man exp] at hm
        rw [cmp_cross_of_signs (d1 := ((1 : Nat) : Int)) (by exact_mod_cast Nat.one_pos)
          (by exact_mod_cast hd2) hm]
      | inl sg =>
        dsimp only
        have hzero : x = 0 → 0 < man := by
          intro hx
          rcases signMatch_inl hm with ⟨_, _, h2⟩ | ⟨_, h1, _⟩ <;> omega
        rw [← floatFrac_sign (le_refl 2) man exp] at hm
        obtain ⟨s1, s2, s3⟩ := int_vs_dec_sep x h0 exp
        refine int_skeleton (n1 := x) (n2 := (floatFrac 2 man exp).1) Nat.one_pos hd2 hm
          (le_trans hr' (maxExp_le t)) ?_ ?_ ?_ (int_exact_eq _ _ _)
        · intro h
          rw [decFrac_mag]
          refine s1 ?_ h
          intro hx
          have := defectA_int hA' hx (hzero hx)
          omega
        · intro h h'; rw [decFrac_mag]; exact s2 h h'
        · intro h; rw [decFrac_mag]; exact s3 h

-- ------------------------------------------------------------------ rational magnitudes

theorem ratMag_lt (n : Int) {d : Nat} (hd : 0 < d) :
    |(n : ℝ)| / (d : ℝ) < (2 : ℝ) ^ ((bitLen n.natAbs : Int) - bitLen d + 1) := by
  have hdR : (0 : ℝ) < d := by exact_mod_cast hd
  rw [div_lt_iff₀ hdR]
  have h1 := intR_lt n
  have h2 := natR_ge (n := d) (by omega)
  have : (bitLen n.natAbs : Int) = ((bitLen n.natAbs : Int) - bitLen d + 1) + ((bitLen d : Int) - 1) := by ring
  rw [this, two_zpow_add] at h1
  exact lt_of_lt_of_le h1 (mul_le_mul_of_nonneg_left h2 (two_zpow_pos _).le)

theorem ratMag_gt {n : Int} (hn : n ≠ 0) {d : Nat} (hd : 0 < d) :
    (2 : ℝ) ^ ((bitLen n.natAbs : Int) - bitLen d - 1) < |(n : ℝ)| / (d : ℝ) := by
  have hdR : (0 : ℝ) < d := by exact_mod_cast hd
  rw [lt_div_iff₀ hdR]
  have h1 := intR_ge hn
  have h2 := natR_lt d
  have : (bitLen n.natAbs : Int) - 1 = ((bitLen n.natAbs : Int) - bitLen d - 1) + (bitLen d : Int) := by ring
  rw [this, two_zpow_add] at h1
  exact lt_of_lt_of_le (mul_lt_mul_of_pos_left h2 (two_zpow_pos _)) h1

-- ------------------------------------------------------------------ rational/src/cmp.rs `repr_cmp`

/-- steps 2–4 of `repr_cmp` once the signs agree -/
theorem ratReprCmp_core {n1 n2 : Int} {d1 d2 : Nat} (h1 : 0 < d1) (h2 : 0 < d2) {sg : Sign}
    (hs : signMatch (Sign.ofInt n1) (Sign.ofInt n2) = .inl sg) (negative : Bool)
    (hnb : (if negative then Ordering.lt else Ordering.gt) = sg.app .gt) :
    (if d1 = 1 ∧ d2 = 1 then compare n1 n2
     else if n1 = 0 ∧ n2 = 0 then .eq
     else if n1 = 0 then .lt
     else if n2 = 0 then .gt
     else
       if (bitLen n1.natAbs : Int) - bitLen d1 > (bitLen n2.natAbs : Int) - bitLen d2 + 1 then
         (if negative then .lt else .gt)
       else if (bitLen n2.natAbs : Int) - bitLen d2 < (bitLen n1.natAbs : Int) - bitLen d1 - 1 then
         (if negative then .gt else .lt)
       else compare (n1 * (d2 : Int)) (n2 * (d1 : Int)))
      = compare (n1 * (d2 : Int)) (n2 * (d1 : Int)) := by
  by_cases hd : d1 = 1 ∧ d2 = 1
  · rw [if_pos hd]; obtain ⟨rfl, rfl⟩ := hd; simp
  rw [if_neg hd]
  by_cases h00 : n1 = 0 ∧ n2 = 0
  · rw [if_pos h00]; obtain ⟨rfl, rfl⟩ := h00; simp
  rw [if_neg h00]
  have hd1 : (0 : Int) < d1 := by exact_mod_cast h1
  have hd2 : (0 : Int) < d2 := by exact_mod_cast h2
  by_cases hn1 : n1 = 0
  · rw [if_pos hn1]
    have : 0 < n2 := by rcases signMatch_inl hs with ⟨_, _, h⟩ | ⟨_, h, _⟩ <;> omega
    subst hn1
    exact (cmpI_lt.2 (by rw [zero_mul]; exact mul_pos this hd1)).symm
  rw [if_neg hn1]
  by_cases hn2 : n2 = 0
  · rw [if_pos hn2]
    have : 0 < n1 := by rcases signMatch_inl hs with ⟨_, h, _⟩ | ⟨_, _, h⟩ <;> omega
    subst hn2
    exact (cmpI_gt.2 (by rw [zero_mul]; exact mul_pos this hd2)).symm
  rw [if_neg hn2]
  by_cases hb : (bitLen n1.natAbs : Int) - bitLen d1 > (bitLen n2.natAbs : Int) - bitLen d2 + 1
  · rw [if_pos hb, hnb]
    refine (cmp_of_mag_gt h1 h2 hs ?_).symm
    exact lt_trans (ratMag_lt n2 h2) (lt_of_le_of_lt (two_zpow_mono (by omega)) (ratMag_gt hn1 h1))
  · rw [if_neg hb, if_neg (by omega)]

/-- `repr_cmp::<false>` (Ord for RBig/Relaxed, NumOrd RBig × Relaxed) is the order of the exact values -/
theorem ratReprCmp_spec (n1 : Int) {d1 : Nat} (h1 : 0 < d1) (n2 : Int) {d2 : Nat} (h2 : 0 < d2) :
    some (ratReprCmp false n1 d1 n2 d2) = XVal.cmp (.fin n1 d1) (.fin n2 d2) := by
  show _ = some (compare (n1 * (d2 : Int)) (n2 * (d1 : Int)))
  congr 1
  unfold ratReprCmp
  simp only [Bool.false_eq_true, if_false]
  cases hm : signMatch (Sign.ofInt n1) (Sign.ofInt n2) with
  | inr o =>
    dsimp only
    exact (cmp_cross_of_signs (by exact_mod_cast h1) (by exact_mod_cast h2) hm).symm
  | inl sg =>
    cases sg with
    | pos => dsimp only; exact ratReprCmp_core h1 h2 hm false rfl
    | neg => dsimp only; exact ratReprCmp_core h1 h2 hm true rfl

/-- `repr_cmp::<true>` is `repr_cmp::<false>` on the magnitudes of the numerators -/
theorem ratReprCmp_abs_eq (n1 : Int) (d1 : Nat) (n2 : Int) (d2 : Nat) :
    ratReprCmp true n1 d1 n2 d2 = ratReprCmp false |n1| d1 |n2| d2 := by
  unfold ratReprCmp
  simp only [if_true, Bool.false_eq_true, if_false, signMatch_nonneg (abs_nonneg n1) (abs_nonneg n2),
    absCmpInt_eq, abs_eq_zero, Int.natAbs_abs, abs_mul, Nat.abs_cast]

/-- `repr_cmp::<true>` (AbsOrd between RBig/Relaxed) is the order of the exact magnitudes -/
theorem ratReprCmp_abs_spec (n1 : Int) {d1 : Nat} (h1 : 0 < d1) (n2 : Int) {d2 : Nat} (h2 : 0 < d2) :
    some (ratReprCmp true n1 d1 n2 d2) = XVal.absCmp (.fin n1 d1) (.fin n2 d2) := by
  rw [ratReprCmp_abs_eq, ratReprCmp_spec |n1| h1 |n2| h2, abs_value_cmp]
  rfl

-- ------------------------------------------------------------------ rational × float

/-- the `lb`/`ub` cascade of the float and rational `impl_num_ord_with_float` (steps 3–5) -/
theorem lu_skeleton {n1 n2 : Int} {d1 d2 : Nat} (hd1 : 0 < d1) (hd2 : 0 < d2) {sg : Sign}
    (hs : signMatch (Sign.ofInt n1) (Sign.ofInt n2) = .inl sg) {lb ub ol K : Int} {ex : Ordering}
    (hK : ol ≤ K)
    (hgt : lb > ol → |(n2 : ℝ)| / (d2 : ℝ) < |(n1 : ℝ)| / (d1 : ℝ))
    (hlt : ub < ol → |(n1 : ℝ)| / (d1 : ℝ) < |(n2 : ℝ)| / (d2 : ℝ))
    (hex : ex = compare (n1 * (d2 : Int)) (n2 * (d1 : Int))) :
    (if lb > K then some (sg.app .gt)
     else if lb > ol then some (sg.app .gt)
     else if ub < ol then some (sg.app .lt)
     else some ex) = some (compare (n1 * (d2 : Int)) (n2 * (d1 : Int))) := by
  by_cases h1 : lb > ol
  · have := cmp_of_mag_gt hd1 hd2 hs (hgt h1)
    rw [this]; split <;> simp
  · have hK' : ¬ lb > K := by omega
    by_cases h2 : ub < ol
    · have := cmp_of_mag_lt hd1 hd2 hs (hlt h2)
      rw [this]; simp [hK', h1, h2]
    · simp [hK', h1, h2, hex]

theorem rat_exact_eq (n : Int) (dn : Nat) (man exp : Int) :
    compare (if exp < 0 then n * 2 ^ (-exp).toNat else n)
        (if exp < 0 then man * (dn : Int) else man * (dn : Int) * 2 ^ exp.toNat)
      = compare (n * ((floatFrac 2 man exp).2 : Int)) ((floatFrac 2 man exp).1 * (dn : Int)) := by
  unfold floatFrac
  by_cases h : exp < 0
  · simp [h]
  · simp [h]; congr 1; ring

/-- `NumOrd<f32/f64> for RBig/Relaxed` returns the order of the exact values outside defect class A -/
theorem ratNumOrdFloatPre_partial (t : FloatTy) (n : Int) {dn : Nat} (hd : 0 < dn) (d : Decoded)
    (hr : d.InRange t)
    (hA : ∀ man exp, d = .fin man exp → defectA (.rat true n dn) man exp = false) :
    ratNumOrdFloatPre t n dn d = XVal.cmp (.fin n dn) (decodedValue d) := by
  cases d with
  | nan => rfl
  | inf neg => cases neg <;> rfl
  | fin man exp =>
    have hA' := hA man exp rfl
    have hr' : (bitLen man.natAbs : Int) + exp ≤ t.maxExp := hr
    have hd2 := floatFrac_den_pos (le_refl 2) man exp
    show ratNumOrdFloatPre t n dn (.fin man exp) = some (compare (n * ((floatFrac 2 man exp).2 : Int))
      ((floatFrac 2 man exp).1 * (dn : Int)))
    unfold ratNumOrdFloatPre
    dsimp only
    by_cases h0 : man = 0
    · subst h0
      rw [if_pos rfl, cmp_zero_right (by exact_mod_cast hd2) (floatFrac_zero_num 2 exp)]
      by_cases hx : n = 0
      · simp [hx]
      · rw [if_neg hx, if_neg hx]
    · rw [if_neg h0]
      cases hm : signMatch (Sign.ofInt n) (Sign.ofInt man) with
      | inr o =>
        dsimp only
        rw [← floatFrac_sign (le_refl 2) man exp] at hm
        rw [cmp_cross_of_signs (by exact_mod_cast hd) (by exact_mod_cast hd2) hm]
      | inl sg =>
        dsimp only
        have hzero : n = 0 → 0 < man := by
          intro hx
          rcases signMatch_inl hm with ⟨_, _, h2⟩ | ⟨_, h1, _⟩ <;> omega
        rw [← floatFrac_sign (le_refl 2) man exp] at hm
        obtain ⟨hlo, hhi⟩ := decMag_bounds h0 exp
        refine lu_skeleton (n1 := n) (n2 := (floatFrac 2 man exp).1) hd hd2 hm
          (by have := maxExp_le t; omega) ?_ ?_ (rat_exact_eq n dn man exp)
        · intro h
          rw [decFrac_mag]
          have hn : n ≠ 0 := by
            intro hx
            have h1 := defectA_rat hA' hx (hzero hx)
            have h2 : 0 < bitLen dn := bitLen_pos (by omega)
            subst hx
            have h00 : bitLen (0 : Int).natAbs = 0 := rfl
            rw [h00] at h
            omega
          exact lt_trans hhi (lt_of_le_of_lt (two_zpow_mono (by omega)) (ratMag_gt hn hd))
        · intro h
          rw [decFrac_mag]
          exact lt_of_lt_of_le (ratMag_lt n hd) (le_trans (two_zpow_mono (by omega)) hlo)

-- ------------------------------------------------------------------ float (any base) × f32/f64

theorem base_pow_bounds {B : Nat} (hB : 2 ≤ B) (k : Nat) :
    (2 : ℝ) ^ (((bitLen B : Int) - 1) * k) ≤ (B : ℝ) ^ k ∧ (B : ℝ) ^ k ≤ (2 : ℝ) ^ ((bitLen B : Int) * k) := by
  have h1 := natR_ge (n := B) (by omega)
  have h2 := (natR_lt B).le
  constructor
  · rw [zpow_mul, zpow_natCast]; exact pow_le_pow_left₀ (two_zpow_pos _).le h1 k
  · rw [zpow_mul, zpow_natCast]; exact pow_le_pow_left₀ (Nat.cast_nonneg B) h2 k

/-- `B^e` between powers of two given by the bit length of `B` (roles swap for `e < 0`) -/
theorem base_zpow_bounds {B : Nat} (hB : 2 ≤ B) (e : Int) :
    (2 : ℝ) ^ (if e ≥ 0 then ((bitLen B : Int) - 1) * e else (bitLen B : Int) * e) ≤ (B : ℝ) ^ e ∧
    (B : ℝ) ^ e ≤ (2 : ℝ) ^ (if e ≥ 0 then (bitLen B : Int) * e else ((bitLen B : Int) - 1) * e) := by
  by_cases he : e ≥ 0
  · rw [if_pos he, if_pos he]
    obtain ⟨k, rfl⟩ := Int.eq_ofNat_of_zero_le he
    rw [zpow_natCast]; exact base_pow_bounds hB k
  · rw [if_neg he, if_neg he]
    obtain ⟨k, hk⟩ : ∃ k : Nat, e = -(k : Int) := ⟨(-e).toNat, by omega⟩
    subst hk
    obtain ⟨h1, h2⟩ := base_pow_bounds hB k
    have hBk : (0 : ℝ) < (B : ℝ) ^ k := pow_pos (by exact_mod_cast (by omega : 0 < B)) k
    rw [zpow_neg, zpow_natCast, mul_neg, mul_neg, zpow_neg, zpow_neg]
    constructor
    · exact inv_anti₀ hBk h2
    · exact inv_anti₀ (two_zpow_pos _) h1

/-- the `lb`/`ub` of `impl_num_ord_with_float` (float crate) enclose `log₂ |s·B^e|` -/
theorem fltMag_bounds {B : Nat} (hB : 2 ≤ B) {s : Int} (hs : s ≠ 0) (e : Int) :
    (2 : ℝ) ^ ((if e ≥ 0 then (bitLen s.natAbs : Int) + (bitLen B : Int) * e - e
                else (bitLen s.natAbs : Int) + (bitLen B : Int) * e) - 1) ≤ fltMag B s e ∧
    fltMag B s e < (2 : ℝ) ^ (if e ≥ 0 then (bitLen s.natAbs : Int) + (bitLen B : Int) * e
                else (bitLen s.natAbs : Int) + (bitLen B : Int) * e - e) := by
  obtain ⟨b1, b2⟩ := base_zpow_bounds hB e
  have h1 := intR_ge hs
  have h2 := intR_lt s
  have hBe : (0 : ℝ) < (B : ℝ) ^ e := zpow_pos (by exact_mod_cast (by omega : 0 < B)) e
  unfold fltMag
  by_cases he : e ≥ 0
  · rw [if_pos he] at b1 b2
    rw [if_pos he, if_pos he]
    constructor
    · have : (bitLen s.natAbs : Int) + (bitLen B : Int) * e - e - 1
          = ((bitLen s.natAbs : Int) - 1) + ((bitLen B : Int) - 1) * e := by ring
      rw [this, two_zpow_add]
      exact mul_le_mul h1 b1 (two_zpow_pos _).le (abs_nonneg _)
    · rw [two_zpow_add]
      exact mul_lt_mul h2 b2 hBe (two_zpow_pos _).le
  · rw [if_neg he] at b1 b2
    rw [if_neg he, if_neg he]
    constructor
    · have : (bitLen s.natAbs : Int) + (bitLen B : Int) * e - 1
          = ((bitLen s.natAbs : Int) - 1) + (bitLen B : Int) * e := by ring
      rw [this, two_zpow_add]
      exact mul_le_mul h1 b1 (two_zpow_pos _).le (abs_nonneg _)
    · have : (bitLen s.natAbs : Int) + (bitLen B : Int) * e - e
          = (bitLen s.natAbs : Int) + ((bitLen B : Int) - 1) * e := by ring
      rw [this, two_zpow_add]
      exact mul_lt_mul h2 b2 hBe (two_zpow_pos _).le

theorem fSign_fin {s e : Int} (h : fIsInf s e = false) : fSign s e = Sign.ofInt s := by
  unfold fSign
  by_cases hs : s = 0
  · subst hs
    have he : e = 0 := by simpa [fIsInf] using h
    subst he
    rfl
  · rw [if_neg hs]

theorem repr_exact_eq (B : Nat) (s e man exp : Int) :
    compare
      (if exp < 0 then (if e < 0 then s else shlDigits B s e.toNat) * 2 ^ (-exp).toNat
        else (if e < 0 then s else shlDigits B s e.toNat))
      (if exp < 0 then (if e < 0 then shlDigits B man (-e).toNat else man)
        else (if e < 0 then shlDigits B man (-e).toNat else man) * 2 ^ exp.toNat)
      = compare ((floatFrac B s e).1 * ((floatFrac 2 man exp).2 : Int))
                ((floatFrac 2 man exp).1 * ((floatFrac B s e).2 : Int)) := by
  unfold floatFrac shlDigits
  by_cases h1 : e < 0 <;> by_cases h2 : exp < 0 <;> (simp [h1, h2]; try (congr 1; ring))

/-- the finite case of `reprNumOrdFloatPre_partial` -/
theorem reprNumOrdFloatPre_fin (t : FloatTy) {B : Nat} (hB : 2 ≤ B) (s e : Int) (p : Nat) (man exp : Int)
    (hinf : fIsInf s e = false)
    (hr : (bitLen man.natAbs : Int) + exp ≤ t.maxExp)
    (hA : defectA (.flt B s e p) man exp = false) :
    reprNumOrdFloatPre t B s e (.fin man exp)
      = some (compare ((floatFrac B s e).1 * ((floatFrac 2 man exp).2 : Int))
                ((floatFrac 2 man exp).1 * ((floatFrac B s e).2 : Int))) := by
  have hd1 := floatFrac_den_pos hB s e
  have hd2 := floatFrac_den_pos (le_refl 2) man exp
  have hse : s = 0 → e = 0 := by
    intro hs; subst hs; simpa [fIsInf] using hinf
  unfold reprNumOrdFloatPre
  dsimp only
  rw [fSign_fin hinf, hinf]
  by_cases h0 : man = 0
  · subst h0
    rw [if_pos rfl, cmp_zero_right (by exact_mod_cast hd2) (floatFrac_zero_num 2 exp), floatFrac_sign hB]
    by_cases hs : s = 0
    · have he := hse hs
      subst hs; subst he
      simp [fIsZero, floatFrac]
    · have hz : fIsZero s e = false := by simp [fIsZero, hs]
      rw [hz, if_neg (floatFrac_num_ne hB hs e)]
      simp
  · rw [if_neg h0]
    cases hm : signMatch (Sign.ofInt s) (Sign.ofInt man) with
    | inr o =>
      dsimp only
      rw [← floatFrac_sign (le_refl 2) man exp, ← floatFrac_sign hB s e] at hm
      rw [cmp_cross_of_signs (by exact_mod_cast hd1) (by exact_mod_cast hd2) hm]
    | inl sg =>
      dsimp only
      simp only [Bool.false_eq_true, if_false]
      have hzero : s = 0 → 0 < man := by
        intro hx
        rcases signMatch_inl hm with ⟨_, _, h2⟩ | ⟨_, h1, _⟩ <;> omega
      rw [← floatFrac_sign (le_refl 2) man exp, ← floatFrac_sign hB s e] at hm
      obtain ⟨hlo, hhi⟩ := decMag_bounds h0 exp
      refine lu_skeleton (n1 := (floatFrac B s e).1) (n2 := (floatFrac 2 man exp).1) hd1 hd2 hm
        (le_trans hr (maxExp_le t)) ?_ ?_ (repr_exact_eq B s e man exp)
      · intro h
        rw [decFrac_mag, ← fltMag_eq_frac hB]
        have hs : s ≠ 0 := by
          intro hx
          have he := hse hx
          have h1 := defectA_flt hA hx he (hzero hx)
          subst hx; subst he
          have h00 : bitLen (0 : Int).natAbs = 0 := rfl
          rw [h00] at h
          simp at h
          omega
        obtain ⟨f1, _⟩ := fltMag_bounds hB hs e
        exact lt_of_lt_of_le hhi (le_trans (two_zpow_mono (by omega)) f1)
      · intro h
        rw [decFrac_mag, ← fltMag_eq_frac hB]
        by_cases hs : s = 0
        · subst hs
          have : fltMag B 0 e = 0 := by simp [fltMag]
          rw [this]
          exact lt_of_lt_of_le (two_zpow_pos _) hlo
        · obtain ⟨_, f2⟩ := fltMag_bounds hB hs e
          exact lt_of_lt_of_le f2 (le_trans (two_zpow_mono (by omega)) hlo)

/-- `NumOrd<f32/f64> for FBig/Repr<B>` returns the order of the exact values outside defect class A -/
theorem reprNumOrdFloatPre_partial (t : FloatTy) {B : Nat} (hB : 2 ≤ B) (s e : Int) (p : Nat) (d : Decoded)
    (hr : d.InRange t)
    (hA : ∀ man exp, d = .fin man exp → defectA (.flt B s e p) man exp = false) :
    reprNumOrdFloatPre t B s e d = XVal.cmp (Num.fbig B s e p).value (decodedValue d) := by
  cases hinf : fIsInf s e
  · rw [fbig_value_fin p hinf]
    cases d with
    | nan => rfl
    | inf neg =>
      unfold reprNumOrdFloatPre
      dsimp only
      rw [fSign_fin hinf, hinf]
      by_cases hs : s < 0
      · rw [Sign.ofInt_neg.2 hs]; cases neg <;> rfl
      · rw [Sign.ofInt_pos.2 (by omega)]; cases neg <;> rfl
    | fin man exp => exact reprNumOrdFloatPre_fin t hB s e p man exp hinf hr (hA man exp rfl)
  · rw [fbig_value_inf p hinf]
    have hs : s = 0 ∧ e ≠ 0 := by simpa [fIsInf] using hinf
    obtain ⟨rfl, he⟩ := hs
    unfold reprNumOrdFloatPre
    cases d with
    | nan => by_cases h : e > 0 <;> simp [h, XVal.cmp, decodedValue]
    | inf neg =>
      dsimp only
      rw [hinf]
      by_cases h : e > 0
      · have h' : e ≥ 0 := by omega
        cases neg <;> simp [fSign, h, h', signMatch, XVal.cmp, decodedValue]
      · have h' : ¬ e ≥ 0 := by omega
        cases neg <;> simp [fSign, h, h', signMatch, XVal.cmp, decodedValue]
    | fin man exp =>
      dsimp only
      rw [hinf]
      have hz : fIsZero 0 e = false := by simp [fIsZero, he]
      rw [hz]
      by_cases h : e > 0
      · have h' : e ≥ 0 := by omega
        by_cases h0 : man = 0
        · simp [h0, fSign, h, h', XVal.cmp, decodedValue, Sign.app]
        · by_cases hm : man < 0
          · simp [h0, fSign, h, h', XVal.cmp, decodedValue, signMatch, Sign.ofInt, hm]
          · simp [h0, fSign, h, h', XVal.cmp, decodedValue, signMatch, Sign.ofInt, hm, Sign.app]
      · have h' : ¬ e ≥ 0 := by omega
        by_cases h0 : man = 0
        · simp [h0, fSign, h, h', XVal.cmp, decodedValue, Sign.app]
        · by_cases hm : man < 0
          · simp [h0, fSign, h, h', XVal.cmp, decodedValue, signMatch, Sign.ofInt, hm, Sign.app]
          · simp [h0, fSign, h, h', XVal.cmp, decodedValue, signMatch, Sign.ofInt, hm]

-- ------------------------------------------------------------------ rational/src/cmp.rs `repr_eq`

theorem mul_bitLen_bounds {x y : Nat} (hx : x ≠ 0) (hy : y ≠ 0) :
    2 ^ (bitLen x + bitLen y - 2) ≤ x * y ∧ x * y < 2 ^ (bitLen x + bitLen y) := by
  have a1 := two_pow_bitLen_le hx
  have a2 := two_pow_bitLen_le hy
  have b1 := lt_two_pow_bitLen x
  have b2 := lt_two_pow_bitLen y
  have p1 := bitLen_pos hx
  have p2 := bitLen_pos hy
  constructor
  · have : bitLen x + bitLen y - 2 = (bitLen x - 1) + (bitLen y - 1) := by omega
    rw [this, Nat.pow_add]
    exact Nat.mul_le_mul a1 a2
  · rw [Nat.pow_add]
    exact Nat.mul_lt_mul'' b1 b2

/-- equal products have bit-length sums that differ by at most one -/
theorem bitLen_sum_le_of_mul_eq {x1 y2 x2 y1 : Nat} (hx1 : x1 ≠ 0) (hy2 : y2 ≠ 0) (hx2 : x2 ≠ 0)
    (hy1 : y1 ≠ 0) (h : x1 * y2 = x2 * y1) :
    bitLen x1 + bitLen y2 ≤ bitLen x2 + bitLen y1 + 1 := by
  obtain ⟨l1, _⟩ := mul_bitLen_bounds hx1 hy2
  obtain ⟨_, u2⟩ := mul_bitLen_bounds hx2 hy1
  rw [h] at l1
  have := (Nat.pow_lt_pow_iff_right (by omega : 1 < 2)).1 (lt_of_le_of_lt l1 u2)
  omega

/-- step 3–4 of `repr_eq`: the bit-size filter never rejects equal products -/
theorem ratReprEq_core {n1 n2 : Int} {d1 d2 : Nat} (h1 : 0 < d1) (h2 : 0 < d2) (hn1 : n1 ≠ 0) :
    (if ((bitLen n1.natAbs : Int) + bitLen d2 - ((bitLen n2.natAbs : Int) + bitLen d1)).natAbs > 1 then false
      else (n1 * (d2 : Int)).natAbs == (n2 * (d1 : Int)).natAbs)
      = decide (n1.natAbs * d2 = n2.natAbs * d1) := by
  rw [Int.natAbs_mul, Int.natAbs_mul, Int.natAbs_natCast, Int.natAbs_natCast]
  split
  · rename_i hgt
    symm
    rw [decide_eq_false_iff_not]
    intro heq
    have hx1 : n1.natAbs ≠ 0 := by omega
    have hx2 : n2.natAbs ≠ 0 := by
      intro h0
      rw [h0, Nat.zero_mul] at heq
      have := Nat.mul_ne_zero hx1 (by omega : d2 ≠ 0)
      omega
    have a := bitLen_sum_le_of_mul_eq hx1 (by omega) hx2 (by omega) heq
    have b := bitLen_sum_le_of_mul_eq hx2 (by omega) hx1 (by omega) heq.symm
    omega
  · rw [Bool.eq_iff_iff]; simp

/-- `repr_eq::<ABS>` in `Int` terms -/
theorem ratReprEq_iff (abs : Bool) (n1 : Int) {d1 : Nat} (h1 : 0 < d1) (n2 : Int) {d2 : Nat} (h2 : 0 < d2) :
    ratReprEq abs n1 d1 n2 d2 = true ↔
      (if abs then |n1| * (d2 : Int) = |n2| * (d1 : Int) else n1 * (d2 : Int) = n2 * (d1 : Int)) := by
  have hd1 : (0 : Int) < d1 := by exact_mod_cast h1
  have hd2 : (0 : Int) < d2 := by exact_mod_cast h2
  have key : n1.natAbs * d2 = n2.natAbs * d1 ↔ |n1| * (d2 : Int) = |n2| * (d1 : Int) := by
    rw [← Int.natCast_natAbs n1, ← Int.natCast_natAbs n2]; norm_cast
  have zero_case : ∀ m : Int, (0 : Int) * (d2 : Int) = m * (d1 : Int) ↔ m = 0 := by
    intro m
    rw [zero_mul]
    constructor
    · intro h
      rcases mul_eq_zero.1 h.symm with h | h <;> omega
    · rintro rfl; simp
  unfold ratReprEq
  dsimp only
  cases abs
  · simp only [Bool.not_false, Bool.true_and, Bool.false_eq_true, if_false]
    by_cases hsg : Sign.ofInt n1 = Sign.ofInt n2
    · have : (Sign.ofInt n1 != Sign.ofInt n2) = false := by simp [hsg]
      rw [this]
      simp only [Bool.false_eq_true, if_false]
      by_cases hn1 : n1 = 0
      · subst hn1
        rw [if_pos rfl, zero_case]; simp
      · rw [if_neg hn1, ratReprEq_core h1 h2 hn1, decide_eq_true_iff, key]
        rcases lt_or_ge n1 0 with hneg | hpos
        · have hneg2 : n2 < 0 := by
            rw [Sign.ofInt_neg.2 hneg] at hsg; exact Sign.ofInt_neg.1 hsg.symm
          rw [abs_of_neg hneg, abs_of_neg hneg2, neg_mul, neg_mul, neg_inj]
        · have hpos2 : 0 ≤ n2 := by
            rw [Sign.ofInt_pos.2 hpos] at hsg; exact Sign.ofInt_pos.1 hsg.symm
          rw [abs_of_nonneg hpos, abs_of_nonneg hpos2]
    · have : (Sign.ofInt n1 != Sign.ofInt n2) = true := by simp [hsg]
      rw [this]
      simp only [if_true, Bool.false_eq_true, false_iff]
      intro heq
      apply hsg
      rcases lt_or_ge n1 0 with hneg | hpos
      · have : n1 * (d2 : Int) < 0 := mul_neg_of_neg_of_pos hneg hd2
        have hneg2 : n2 < 0 := by
          by_contra hc
          have : 0 ≤ n2 * (d1 : Int) := mul_nonneg (by omega) hd1.le
          omega
        rw [Sign.ofInt_neg.2 hneg, Sign.ofInt_neg.2 hneg2]
      · have : 0 ≤ n1 * (d2 : Int) := mul_nonneg hpos hd2.le
        have hpos2 : 0 ≤ n2 := by
          by_contra hc
          have : n2 * (d1 : Int) < 0 := mul_neg_of_neg_of_pos (by omega) hd1
          omega
        rw [Sign.ofInt_pos.2 hpos, Sign.ofInt_pos.2 hpos2]
  · simp only [Bool.not_true, Bool.false_and, Bool.false_eq_true, if_false, if_true]
    by_cases hn1 : n1 = 0
    · subst hn1
      rw [if_pos rfl, abs_zero, zero_case]; simp
    · rw [if_neg hn1, ratReprEq_core h1 h2 hn1, decide_eq_true_iff, key]

/-- `repr_eq::<ABS>` (PartialEq / NumEq / AbsEq for RBig, Relaxed) holds exactly when the exact
    values (`ABS`: magnitudes) compare equal — Bool-equation form -/
theorem ratReprEq_spec (abs : Bool) (n1 : Int) {d1 : Nat} (h1 : 0 < d1) (n2 : Int) {d2 : Nat} (h2 : 0 < d2) :
    ratReprEq abs n1 d1 n2 d2 =
      ((if abs then XVal.absCmp (.fin n1 d1) (.fin n2 d2) else XVal.cmp (.fin n1 d1) (.fin n2 d2))
        == some .eq) := by
  rw [Bool.eq_iff_iff, ratReprEq_iff abs n1 h1 n2 h2, beq_iff_eq]
  cases abs
  · simp only [Bool.false_eq_true, if_false, XVal.cmp, Option.some.injEq, cmpI_eq]
  · simp only [if_true, abs_value_cmp, Option.some.injEq, cmpI_eq]

-- ------------------------------------------------------------------ 8. the defect hypotheses are needed

/-- defect A (UBig): `0` against `2^-5` answers `Greater`; the exact order is `Less` -/
theorem ubigNumOrdFloatPre_counterexample :
    ubigNumOrdFloatPre .f64 0 (.fin (2 ^ 52) (-57)) = some .gt ∧
      XVal.cmp (.fin 0 1) (decodedValue (.fin (2 ^ 52) (-57))) = some .lt ∧
      defectA (.nat 0) (2 ^ 52) (-57) = true ∧ (Decoded.fin (2 ^ 52) (-57)).InRange .f64 := by
  refine ⟨by decide, by decide, by decide, ?_⟩
  show ((bitLen ((2 : Int) ^ 52).natAbs : Nat) : Int) + (-57) ≤ ((FloatTy.f64.maxExp : Nat) : Int)
  decide

/-- defect A (IBig): `0` against `2^-5` answers `Greater`; the exact order is `Less` -/
theorem ibigNumOrdFloatPre_counterexample :
    ibigNumOrdFloatPre .f64 0 (.fin (2 ^ 52) (-57)) = some .gt ∧
      XVal.cmp (.fin 0 1) (decodedValue (.fin (2 ^ 52) (-57))) = some .lt ∧
      defectA (.int 0) (2 ^ 52) (-57) = true ∧ (Decoded.fin (2 ^ 52) (-57)).InRange .f64 := by
  refine ⟨by decide, by decide, by decide, ?_⟩
  show ((bitLen ((2 : Int) ^ 52).natAbs : Nat) : Int) + (-57) ≤ ((FloatTy.f64.maxExp : Nat) : Int)
  decide

/-- defect F (IBig): `5` against `+∞` answers `Greater`; the exact order is `Less` -/
theorem ibigNumOrdFloatPre_inf_counterexample :
    ibigNumOrdFloatPre .f64 5 (.inf false) = some .gt ∧
      XVal.cmp (.fin 5 1) (decodedValue (.inf false)) = some .lt ∧
      defectF (.int 5) false = true := by
  decide

/-- defect F (IBig), negative side: `-5` against `-∞` answers `Less`; the exact order is `Greater` -/
theorem ibigNumOrdFloatPre_ninf_counterexample :
    ibigNumOrdFloatPre .f64 (-5) (.inf true) = some .lt ∧
      XVal.cmp (.fin (-5) 1) (decodedValue (.inf true)) = some .gt ∧
      defectF (.int (-5)) true = true := by
  decide

/-- defect A (FBig): the zero float against `2^-5` answers `Greater`; the exact order is `Less` -/
theorem reprNumOrdFloatPre_counterexample :
    reprNumOrdFloatPre .f64 2 0 0 (.fin (2 ^ 52) (-57)) = some .gt ∧
      XVal.cmp (Num.fbig 2 0 0 53).value (decodedValue (.fin (2 ^ 52) (-57))) = some .lt ∧
      defectA (.flt 2 0 0 53) (2 ^ 52) (-57) = true := by
  decide

/-- defect A (RBig/Relaxed): `0/1` against `2^-5` answers `Greater`; the exact order is `Less` -/
theorem ratNumOrdFloatPre_counterexample :
    ratNumOrdFloatPre .f64 0 1 (.fin (2 ^ 52) (-57)) = some .gt ∧
      XVal.cmp (.fin 0 1) (decodedValue (.fin (2 ^ 52) (-57))) = some .lt ∧
      defectA (.rat true 0 1) (2 ^ 52) (-57) = true := by
  decide

/-- `defectA` does not look at the `reduced` flag of a rational operand -/
theorem defectA_rat_flag (b : Bool) (n : Int) (dn : Nat) (man exp : Int) :
    defectA (.rat b n dn) man exp = defectA (.rat true n dn) man exp := rfl

/-- the range hypothesis is needed as well: against an (undecodable) `1·2^200` step 3 answers
    `Greater` for `2^160`; it is only sound because every decoded f32/f64 is below `2^MAX_EXP` -/
theorem ubigNumOrdFloatPre_range_counterexample :
    ubigNumOrdFloatPre .f32 (2 ^ 160) (.fin 1 200) = some .gt ∧
      XVal.cmp (.fin ((2 ^ 160 : Nat) : Int) 1) (decodedValue (.fin 1 200)) = some .lt ∧
      defectA (.nat (2 ^ 160)) 1 200 = false := by
  decide

end Dashu.Model.Cross
