import Dashu.Model.Cross.EstNoStd
import Dashu.Proofs.Cross.Encl
import Dashu.Proofs.Cross.Basic
import Dashu.Proofs.Cross.OracleSound
import Dashu.Proofs.Cross.BitLen
import Dashu.Proofs.NT.Log2Lift
import Mathlib.Analysis.Complex.ExponentialBounds
/-
  C14 — the no_std (table-driven) `log2_bounds` estimator of the big integers and of the rational
  `Repr`, mirrored over ℚ with the three binary32 operations it uses as PARAMETERS
  (`fl` = round-to-nearest of a real result, `nd` = `next_down`, `nu` = `next_up`), and the proof that it
  satisfies the enclosure hypothesis `Encl` of `Props/C14` under the IEEE-754 facts `F32.Ax`
  (NO assumption about libm: the table part is builder-nt's `log2_fp8_sound` / `log2_wide_sound` /
  `log2_u8_sound`, proved for all inputs).
-/
namespace Dashu.Model.Cross.EstNoStd
open Dashu.Model.Cross
open Dashu.Model (NT.log2Fp8 NT.ceilLog2Fp8)

/-- the IEEE-754 binary32 facts used (all results here are 0 or in `[2^-10, 2^71]`: normal range,
    no overflow): `next_down`/`next_up` move outward; the rounding of `x` is one of the two
    neighbours of `x` (so stepping outward passes `x`); relative error `≤ 2^-24`; values `k·2^-j` with
    `k < 2^24` are representable. -/
structure F32.Ax (F : F32) : Prop where
  nd_le : ∀ y, F.nd y ≤ y
  le_nu : ∀ y, y ≤ F.nu y
  nd_nonneg : ∀ y, 0 < y → 0 ≤ F.nd y
  nd_fl : ∀ x, F.nd (F.fl x) ≤ x
  fl_nu : ∀ x, x ≤ F.nu (F.fl x)
  fl_lo : ∀ x, 0 ≤ x → x * (1 - u) ≤ F.fl x
  fl_hi : ∀ x, 0 ≤ x → F.fl x ≤ x * (1 + u)
  fl_fix : ∀ k j : ℕ, k < 2 ^ 24 → F.fl ((k : ℚ) / 2 ^ j) = (k : ℚ) / 2 ^ j





-- ------------------------------------------------------------------ real-logarithm helpers

theorem bitLen_eq_nt (n : Nat) : bitLen n = Dashu.Model.NT.bitLen n := rfl

theorem logb_ge_of_pow (x L m : Nat) (hx : 0 < x) (hm : 0 < m) (h : 2 ^ L ≤ x ^ m) :
    (L : ℝ) / m ≤ Real.logb 2 x := by
  have hx' : (0 : ℝ) < (x : ℝ) := by exact_mod_cast hx
  have h1 : (2 : ℝ) ^ L ≤ ((x : ℝ)) ^ m := by exact_mod_cast h
  have h2 := Real.logb_le_logb_of_le (b := 2) (by norm_num) (by positivity) h1
  rw [Real.logb_pow, Real.logb_pow, Real.logb_self_eq_one (by norm_num), mul_one] at h2
  have hm' : (0 : ℝ) < (m : ℝ) := by exact_mod_cast hm
  rw [div_le_iff₀ hm']; linarith

theorem logb_le_of_pow (x U m : Nat) (hx : 0 < x) (hm : 0 < m) (h : x ^ m ≤ 2 ^ U) :
    Real.logb 2 x ≤ (U : ℝ) / m := by
  have hx' : (0 : ℝ) < (x : ℝ) := by exact_mod_cast hx
  have h1 : ((x : ℝ)) ^ m ≤ (2 : ℝ) ^ U := by exact_mod_cast h
  have h2 := Real.logb_le_logb_of_le (b := 2) (by norm_num) (by positivity) h1
  rw [Real.logb_pow, Real.logb_pow, Real.logb_self_eq_one (by norm_num), mul_one] at h2
  have hm' : (0 : ℝ) < (m : ℝ) := by exact_mod_cast hm
  rw [le_div_iff₀ hm']; linarith

/-- enclosure from rational bounds of the real logarithm -/
theorem encl_of_logb {x : Nat} (hx : 0 < x) {lo hi : ℚ} (h1 : (lo : ℝ) ≤ Real.logb 2 x)
    (h2 : Real.logb 2 x ≤ (hi : ℝ)) : Encl (x : ℝ) (.fin lo, .fin hi) :=
  (encl_iff_logb (by exact_mod_cast hx) lo hi).2 ⟨h1, h2⟩

theorem encl_pow2 {x k : Nat} (h : x = 2 ^ k) : Encl (x : ℝ) (.fin (k : ℚ), .fin (k : ℚ)) := by
  have hx : 0 < x := by rw [h]; exact Nat.two_pow_pos k
  have : Real.logb 2 (x : ℝ) = k := by
    rw [h]; push_cast; rw [Real.logb_pow, Real.logb_self_eq_one (by norm_num), mul_one]
  exact encl_of_logb hx (by rw [this]; norm_cast) (by rw [this]; norm_cast)

theorem isPow2_eq {x : Nat} (h : isPow2 x = true) : x = 2 ^ (bitLen x - 1) := by
  simpa [isPow2] using h

theorem q8_eq {F : F32} (hF : F.Ax) {n : Nat} (hn : n < 2 ^ 24) : q8 F n = (n : ℚ) / 256 := by
  unfold q8
  have := hF.fl_fix n 8 hn
  norm_num at this ⊢
  exact this

theorem three_bounds : 2 ^ 13295629 ≤ 3 ^ (2 ^ 23) ∧ 3 ^ (2 ^ 23) ≤ 2 ^ 13295630 := by decide +kernel


theorem log2Tab_lt (i : Nat) : Dashu.Model.NT.log2Tab i < 256 := by
  unfold Dashu.Model.NT.log2Tab; split
  · exact Nat.mod_lt _ (by norm_num)
  · norm_num

theorem ceil_lt (n : Nat) (hn : n < 65536) : NT.ceilLog2Fp8 n < 2 ^ 13 := by
  have hb : Dashu.Model.NT.bitLen n ≤ 16 := Dashu.Model.NT.bitLen_le_of_lt (by simpa using hn)
  unfold Dashu.Model.NT.ceilLog2Fp8
  simp only
  have t := log2Tab_lt
  split
  · have := t (n * 2 ^ (8 - Dashu.Model.NT.bitLen n) - 0x80); omega
  · split
    · have := t (n / 2 ^ (Dashu.Model.NT.bitLen n - 8) - 0x80)
      split <;> omega
    · split
      · omega
      · have := t (n / 2 ^ (Dashu.Model.NT.bitLen n - 8 - 2) / 4 + 1 - 0x80)
        split <;> omega

theorem fp8_lt (n : Nat) (h1 : 256 ≤ n) (hn : n < 65536) : NT.log2Fp8 n < 2 ^ 13 := by
  have h := (Dashu.Model.NT.log2_fp8_sound n h1 hn).1
  have h2 : n ^ 256 < (2 ^ 16) ^ 256 := Nat.pow_lt_pow_left (by simpa using hn) (by norm_num)
  rw [← Nat.pow_mul] at h2
  have := (Nat.pow_lt_pow_iff_right (a := 2) (by norm_num)).1 (Nat.lt_of_le_of_lt h h2)
  omega

theorem encl_zero : Encl ((0 : Nat) : ℝ) (.ninf, .ninf) := by
  unfold Encl EB.le2 EB.ge2; simp

/-- the `u8` estimator encloses `log₂ i` -/
theorem u8NoStd_sound {F : F32} (hF : F.Ax) (i : Nat) (hi : i < 256) : Encl (i : ℝ) (u8NoStd F i) := by
  unfold u8NoStd
  split
  · rename_i h; subst h; exact encl_zero
  split
  · rename_i h; subst h; simpa using encl_pow2 (x := 1) (k := 0) rfl
  split
  · rename_i h; exact encl_pow2 (isPow2_eq h)
  rename_i h0 h1 hp
  have hp' : i ≠ 2 ^ (Dashu.Model.NT.bitLen i - 1) := by
    intro h; apply hp; simp only [isPow2, beq_iff_eq]; exact h
  split
  · rename_i h3; subst h3
    refine encl_of_logb (by norm_num) ?_ ?_
    · have := logb_ge_of_pow 3 13295629 (2 ^ 23) (by norm_num) (by norm_num) three_bounds.1
      push_cast at this ⊢; norm_num at this ⊢; exact this
    · have := logb_le_of_pow 3 13295630 (2 ^ 23) (by norm_num) (by norm_num) three_bounds.2
      push_cast at this ⊢; norm_num at this ⊢; exact this
  rename_i h3
  have h4 : 4 ≤ i := by
    rcases Nat.lt_or_ge i 4 with h | h
    · exfalso
      have : i = 2 := by omega
      subst this; exact hp' (by decide)
    · exact h
  have hs := Dashu.Model.NT.log2_u8_sound i h4 hi hp' h3
  have hpos : 0 < i := by omega
  split
  · rename_i h16
    simp only [h16, if_true] at hs
    have hr1 : 256 ≤ i ^ 4 := by
      calc 256 = 4 ^ 4 := by norm_num
        _ ≤ i ^ 4 := Nat.pow_le_pow_left h4 4
    have hr2 : i ^ 4 < 65536 := by
      calc i ^ 4 < 16 ^ 4 := Nat.pow_lt_pow_left h16 (by norm_num)
        _ = 65536 := by norm_num
    have bL := fp8_lt _ hr1 hr2
    have bU := ceil_lt _ hr2
    rw [q8_eq hF (by omega), q8_eq hF (by omega)]
    have e1 : ((NT.log2Fp8 (i ^ 4) : ℕ) : ℚ) / 256 / 4 = ((NT.log2Fp8 (i ^ 4) : ℕ) : ℚ) / 2 ^ 10 := by ring
    have e2 : ((NT.ceilLog2Fp8 (i ^ 4) : ℕ) : ℚ) / 256 / 4 = ((NT.ceilLog2Fp8 (i ^ 4) : ℕ) : ℚ) / 2 ^ 10 := by ring
    rw [e1, e2, hF.fl_fix _ 10 (by omega), hF.fl_fix _ 10 (by omega)]
    refine encl_of_logb hpos ?_ ?_
    · have := logb_ge_of_pow i _ (256 * 4) hpos (by norm_num) hs.1
      push_cast at this ⊢; norm_num at this ⊢; exact this
    · have := logb_le_of_pow i _ (256 * 4) hpos (by norm_num) hs.2
      push_cast at this ⊢; norm_num at this ⊢; exact this
  · rename_i h16
    simp only [h16, if_false] at hs
    have hr1 : 256 ≤ i ^ 2 := by
      calc 256 = 16 ^ 2 := by norm_num
        _ ≤ i ^ 2 := Nat.pow_le_pow_left (by omega) 2
    have hr2 : i ^ 2 < 65536 := by
      calc i ^ 2 < 256 ^ 2 := Nat.pow_lt_pow_left hi (by norm_num)
        _ = 65536 := by norm_num
    have bL := fp8_lt _ hr1 hr2
    have bU := ceil_lt _ hr2
    rw [q8_eq hF (by omega), q8_eq hF (by omega)]
    have e1 : ((NT.log2Fp8 (i ^ 2) : ℕ) : ℚ) / 256 / 2 = ((NT.log2Fp8 (i ^ 2) : ℕ) : ℚ) / 2 ^ 9 := by ring
    have e2 : ((NT.ceilLog2Fp8 (i ^ 2) : ℕ) : ℚ) / 256 / 2 = ((NT.ceilLog2Fp8 (i ^ 2) : ℕ) : ℚ) / 2 ^ 9 := by ring
    rw [e1, e2, hF.fl_fix _ 9 (by omega), hF.fl_fix _ 9 (by omega)]
    refine encl_of_logb hpos ?_ ?_
    · have := logb_ge_of_pow i _ (256 * 2) hpos (by norm_num) hs.1
      push_cast at this ⊢; norm_num at this ⊢; exact this
    · have := logb_le_of_pow i _ (256 * 2) hpos (by norm_num) hs.2
      push_cast at this ⊢; norm_num at this ⊢; exact this


theorem fp_aux (a s : ℕ) : ((a : ℕ) : ℝ) / 256 + (s : ℝ) = ((a + 256 * s : ℕ) : ℝ) / ((256 : ℕ) : ℝ) := by
  push_cast; ring

/-- the exact fixed-point bounds of a value of more than 16 bits (before any binary32 operation):
    `(L + 256·shift)/256 ≤ log₂ x ≤ (U + 256·shift)/256` -/
theorem wide_fixed_point (x : Nat) (hbits : 16 < bitLen x) :
    let shift := bitLen x - 16
    let hi := x / 2 ^ shift
    let U := if hi = 2 ^ 15 then 15 * 256 + 1 else NT.ceilLog2Fp8 hi
    ((NT.log2Fp8 hi : ℕ) : ℝ) / 256 + shift ≤ Real.logb 2 x ∧ Real.logb 2 x ≤ ((U : ℕ) : ℝ) / 256 + shift ∧
      256 ≤ hi ∧ hi < 65536 := by
  intro shift hi U
  have hx : 0 < x := by
    rcases Nat.eq_zero_or_pos x with h | h
    · subst h; simp [bitLen] at hbits
    · exact h
  have hx0 : x ≠ 0 := by omega
  have hs := Dashu.Model.NT.log2_wide_sound x hbits
  simp only at hs
  have hlo := two_pow_bitLen_le hx0
  have hup := lt_two_pow_bitLen x
  have hp : 0 < 2 ^ shift := Nat.two_pow_pos _
  have e1 : 2 ^ (bitLen x - 1) = 2 ^ 15 * 2 ^ shift := by
    rw [← Nat.pow_add]; congr 1; show bitLen x - 1 = 15 + (bitLen x - 16); omega
  have e2 : 2 ^ bitLen x = 2 ^ 16 * 2 ^ shift := by
    rw [← Nat.pow_add]; congr 1; show bitLen x = 16 + (bitLen x - 16); omega
  have hhi1 : 2 ^ 15 ≤ hi := by
    show 2 ^ 15 ≤ x / 2 ^ shift
    rw [Nat.le_div_iff_mul_le hp]; omega
  have hhi2 : hi < 2 ^ 16 := by
    show x / 2 ^ shift < 2 ^ 16
    rw [Nat.div_lt_iff_lt_mul hp]; omega
  have a := logb_ge_of_pow x _ 256 hx (by norm_num) hs.1
  have b := logb_le_of_pow x _ 256 hx (by norm_num) hs.2
  refine ⟨?_, ?_, by omega, by omega⟩
  · rw [fp_aux]; exact a
  · rw [fp_aux]; exact b

/-- `u16 … u128 / usize` (no_std): the estimator encloses `log₂ x` — for EVERY `x` (the top-16-bit
    reduction does not depend on the width of the type) -/
theorem primNoStd_sound {F : F32} (hF : F.Ax) (x : Nat) : Encl (x : ℝ) (primNoStd F x) := by
  unfold primNoStd
  split
  · rename_i h; exact u8NoStd_sound hF x (by omega)
  rename_i h255
  split
  · rename_i h; exact encl_pow2 (isPow2_eq h)
  rename_i hp
  have hp' : x ≠ 2 ^ (Dashu.Model.NT.bitLen x - 1) := by
    intro h; apply hp; simp only [isPow2, beq_iff_eq]; exact h
  have hpos : 0 < x := by omega
  split
  · rename_i hb
    have hx2 : x < 65536 := by
      have := lt_two_pow_bitLen x
      have : 2 ^ bitLen x ≤ 2 ^ 16 := Nat.pow_le_pow_right (by norm_num) hb
      omega
    have hs := Dashu.Model.NT.log2_fp8_sound x (by omega) hx2
    have bL := fp8_lt x (by omega) hx2
    have bU := ceil_lt x hx2
    rw [q8_eq hF (by omega), q8_eq hF (by omega)]
    refine encl_of_logb hpos ?_ ?_
    · have := logb_ge_of_pow x _ 256 hpos (by norm_num) hs.1
      push_cast at this ⊢; exact this
    · have := logb_le_of_pow x _ 256 hpos (by norm_num) (hs.2 hp')
      push_cast at this ⊢; exact this
  · rename_i hb
    have hw := wide_fixed_point x (by omega)
    simp only at hw ⊢
    obtain ⟨w1, w2, w3, w4⟩ := hw
    have bL := fp8_lt _ w3 w4
    have bU : (if x / 2 ^ (bitLen x - 16) = 2 ^ 15 then 15 * 256 + 1 else NT.ceilLog2Fp8 (x / 2 ^ (bitLen x - 16))) < 2 ^ 13 := by
      split
      · norm_num
      · exact ceil_lt _ w4
    generalize (if x / 2 ^ (bitLen x - 16) = 2 ^ 15 then 15 * 256 + 1 else NT.ceilLog2Fp8 (x / 2 ^ (bitLen x - 16))) = Uv at w2 bU ⊢
    rw [q8_eq hF (by omega), q8_eq hF (by omega)]
    refine encl_of_logb hpos ?_ ?_
    · have := hF.nd_fl (((NT.log2Fp8 (x / 2 ^ (bitLen x - 16)) : ℕ) : ℚ) / 256 + ((bitLen x - 16 : ℕ) : ℚ))
      have c : ((F.nd (F.fl (((NT.log2Fp8 (x / 2 ^ (bitLen x - 16)) : ℕ) : ℚ) / 256 + ((bitLen x - 16 : ℕ) : ℚ))) : ℚ) : ℝ)
          ≤ ((((NT.log2Fp8 (x / 2 ^ (bitLen x - 16)) : ℕ) : ℚ) / 256 + ((bitLen x - 16 : ℕ) : ℚ) : ℚ) : ℝ) := by
        exact_mod_cast this
      refine le_trans c ?_
      push_cast; exact w1
    · have := hF.fl_nu (((Uv : ℕ) : ℚ) / 256 + ((bitLen x - 16 : ℕ) : ℚ))
      have c : ((((Uv : ℕ) : ℚ) / 256 + ((bitLen x - 16 : ℕ) : ℚ) : ℚ) : ℝ)
          ≤ ((F.nu (F.fl (((Uv : ℕ) : ℚ) / 256 + ((bitLen x - 16 : ℕ) : ℚ))) : ℚ) : ℝ) := by
        exact_mod_cast this
      refine le_trans ?_ c
      push_cast; exact w2


-- ------------------------------------------------------------------ heap integers: `log2_bounds_large`




theorem lb_relax {F : F32} (hF : F.Ax) {hl r T : ℚ} (h0 : 0 ≤ hl) (hT : hl ≤ T) (hr : 0 ≤ r) :
    F.fl (F.fl (hl + F.fl r) * (1 - 4 * u)) ≤ T + r := by
  have k1 : (0 : ℚ) ≤ 1 + u := by norm_num [u]
  have k4 : (0 : ℚ) ≤ 1 - 4 * u := by norm_num [u]
  have km : (0 : ℚ) ≤ 1 - u := by norm_num [u]
  have r1 := hF.fl_hi r hr
  have r0 : 0 ≤ F.fl r := le_trans (mul_nonneg hr km) (hF.fl_lo r hr)
  have s0' : 0 ≤ hl + F.fl r := add_nonneg h0 r0
  have s1 := hF.fl_hi _ s0'
  have s0 : 0 ≤ F.fl (hl + F.fl r) := le_trans (mul_nonneg s0' km) (hF.fl_lo _ s0')
  have p0 : 0 ≤ F.fl (hl + F.fl r) * (1 - 4 * u) := mul_nonneg s0 k4
  have p1 := hF.fl_hi _ p0
  have hT0 : 0 ≤ T := le_trans h0 hT
  have a1 : hl + F.fl r ≤ (T + r) * (1 + u) := by nlinarith [mul_nonneg hT0 (show (0:ℚ) ≤ u by norm_num [u])]
  have a2 : F.fl (hl + F.fl r) ≤ (T + r) * (1 + u) * (1 + u) := le_trans s1 (mul_le_mul_of_nonneg_right a1 k1)
  have a3 : F.fl (hl + F.fl r) * (1 - 4 * u) * (1 + u) ≤ (T + r) * (1 + u) * (1 + u) * (1 - 4 * u) * (1 + u) :=
    mul_le_mul_of_nonneg_right (mul_le_mul_of_nonneg_right a2 k4) k1
  have num : (1 + u) * (1 + u) * (1 - 4 * u) * (1 + u) ≤ 1 := by norm_num [u]
  have tr : 0 ≤ T + r := add_nonneg hT0 hr
  calc F.fl (F.fl (hl + F.fl r) * (1 - 4 * u)) ≤ F.fl (hl + F.fl r) * (1 - 4 * u) * (1 + u) := p1
    _ ≤ (T + r) * (1 + u) * (1 + u) * (1 - 4 * u) * (1 + u) := a3
    _ = (T + r) * ((1 + u) * (1 + u) * (1 - 4 * u) * (1 + u)) := by ring
    _ ≤ (T + r) * 1 := mul_le_mul_of_nonneg_left num tr
    _ = T + r := by ring

theorem ub_relax {F : F32} (hF : F.Ax) {hu r T : ℚ} (h0 : 0 ≤ T) (hT : T ≤ hu) (hr : 0 ≤ r) :
    (T + r) * (1 + u / 2) ≤ F.fl (F.fl (hu + F.fl r) * (1 + 4 * u)) := by
  have k4 : (0 : ℚ) ≤ 1 + 4 * u := by norm_num [u]
  have km : (0 : ℚ) ≤ 1 - u := by norm_num [u]
  have r1 := hF.fl_lo r hr
  have r0 : 0 ≤ F.fl r := le_trans (mul_nonneg hr km) r1
  have hu0 : 0 ≤ hu := le_trans h0 hT
  have s0' : 0 ≤ hu + F.fl r := add_nonneg hu0 r0
  have s1 := hF.fl_lo _ s0'
  have s0 : 0 ≤ F.fl (hu + F.fl r) := le_trans (mul_nonneg s0' km) s1
  have p0 : 0 ≤ F.fl (hu + F.fl r) * (1 + 4 * u) := mul_nonneg s0 k4
  have p1 := hF.fl_lo _ p0
  have a1 : (T + r) * (1 - u) ≤ hu + F.fl r := by nlinarith [mul_nonneg h0 (show (0:ℚ) ≤ u by norm_num [u])]
  have a2 : (T + r) * (1 - u) * (1 - u) ≤ F.fl (hu + F.fl r) := le_trans (mul_le_mul_of_nonneg_right a1 km) s1
  have a3 : (T + r) * (1 - u) * (1 - u) * (1 + 4 * u) * (1 - u) ≤ F.fl (hu + F.fl r) * (1 + 4 * u) * (1 - u) :=
    mul_le_mul_of_nonneg_right (mul_le_mul_of_nonneg_right a2 k4) km
  have num : 1 + u / 2 ≤ (1 - u) * (1 - u) * (1 + 4 * u) * (1 - u) := by norm_num [u]
  have tr : 0 ≤ T + r := add_nonneg h0 hr
  calc (T + r) * (1 + u / 2) ≤ (T + r) * ((1 - u) * (1 - u) * (1 + 4 * u) * (1 - u)) := mul_le_mul_of_nonneg_left num tr
    _ = (T + r) * (1 - u) * (1 - u) * (1 + 4 * u) * (1 - u) := by ring
    _ ≤ F.fl (hu + F.fl r) * (1 + 4 * u) * (1 - u) := a3
    _ ≤ F.fl (F.fl (hu + F.fl r) * (1 + 4 * u)) := p1

/-- `log₂(a + 1) ≤ log₂ a + 2/a` -/
theorem logb_succ_le (a : ℝ) (ha : 0 < a) : Real.logb 2 (a + 1) ≤ Real.logb 2 a + 2 / a := by
  have hl2 : (1 : ℝ) / 2 < Real.log 2 := by have := Real.log_two_gt_d9; linarith
  have hl2p : (0 : ℝ) < Real.log 2 := by linarith
  have h1 : Real.log (a + 1) ≤ Real.log a + 1 / a := by
    have e : a + 1 = a * (1 + 1 / a) := by field_simp
    have hp : (0 : ℝ) < 1 + 1 / a := by positivity
    rw [e, Real.log_mul (ne_of_gt ha) (ne_of_gt hp)]
    have := Real.log_le_sub_one_of_pos hp
    linarith
  unfold Real.logb
  rw [div_add' _ _ _ (ne_of_gt hl2p), div_le_div_iff_of_pos_right hl2p]
  have : 1 / a ≤ 2 / a * Real.log 2 := by
    rw [div_mul_eq_mul_div, div_le_div_iff_of_pos_right ha]; linarith
  linarith


/-- shape of a heap value: `rem = (len − 2)·W` low bits below the top double word `hi` -/
theorem large_shape (W x : Nat) (hW : 1 ≤ W) (hx : 2 ^ (2 * W) ≤ x) :
    let rem := (wordLen W x - 2) * W
    let hi := x / 2 ^ rem
    rem + W < bitLen x ∧ bitLen x ≤ rem + 2 * W ∧ bitLen hi = bitLen x - rem ∧
      hi * 2 ^ rem ≤ x ∧ x < (hi + 1) * 2 ^ rem ∧ 2 ^ W ≤ hi := by
  intro rem hi
  have hb : 2 * W < bitLen x := lt_bitLen_of_two_pow_le hx
  have hx0 : x ≠ 0 := by have := Nat.two_pow_pos (2 * W); omega
  have hdm := Nat.div_add_mod (bitLen x + W - 1) W
  have hml := Nat.mod_lt (bitLen x + W - 1) (show 0 < W by omega)
  have hrem : rem = W * wordLen W x - 2 * W := by
    show (wordLen W x - 2) * W = _
    rw [Nat.sub_mul, Nat.mul_comm (wordLen W x) W]
  have hwl : W * wordLen W x = W * ((bitLen x + W - 1) / W) := rfl
  generalize W * ((bitLen x + W - 1) / W) = m at hdm hwl
  have r1 : rem + W < bitLen x := by omega
  have r2 : bitLen x ≤ rem + 2 * W := by omega
  have hp : 0 < 2 ^ rem := Nat.two_pow_pos _
  have hlo := two_pow_bitLen_le hx0
  have hup := lt_two_pow_bitLen x
  have hdm2 := Nat.div_add_mod x (2 ^ rem)
  have hml2 := Nat.mod_lt x hp
  have hge : hi * 2 ^ rem ≤ x := by show x / 2 ^ rem * 2 ^ rem ≤ x; rw [Nat.mul_comm]; omega
  have hlt : x < (hi + 1) * 2 ^ rem := by
    show x < (x / 2 ^ rem + 1) * 2 ^ rem; rw [Nat.add_mul, Nat.one_mul, Nat.mul_comm]; omega
  have e1 : 2 ^ (bitLen x - 1) = 2 ^ (bitLen x - rem - 1) * 2 ^ rem := by
    rw [← Nat.pow_add]; congr 1; omega
  have e2 : 2 ^ bitLen x = 2 ^ (bitLen x - rem - 1 + 1) * 2 ^ rem := by
    rw [← Nat.pow_add]; congr 1; omega
  have h1 : 2 ^ (bitLen x - rem - 1) ≤ hi := by
    show _ ≤ x / 2 ^ rem
    rw [Nat.le_div_iff_mul_le hp]; omega
  have h2 : hi < 2 ^ (bitLen x - rem - 1 + 1) := by
    show x / 2 ^ rem < _
    rw [Nat.div_lt_iff_lt_mul hp]; omega
  have hbl : bitLen hi = bitLen x - rem := by rw [bitLen_eq_of_bounds h1 h2]; omega
  refine ⟨r1, r2, hbl, hge, hlt, ?_⟩
  calc 2 ^ W ≤ 2 ^ (bitLen x - rem - 1) := Nat.pow_le_pow_right (by norm_num) (by omega)
    _ ≤ hi := h1

theorem ratCast_le {a b : ℚ} (h : a ≤ b) : (a : ℝ) ≤ (b : ℝ) := by exact_mod_cast h

/-- **`log2_bounds_large` encloses `log₂ x`** for every heap value (at least three words of `W ≥ 32`
    bits): the two `f32` additions and the multiplication are covered by the `1 ∓ 2ε` factors, and so is
    the part of `x` below a top double word that is an exact power of two -/
theorem largeNoStd_sound {F : F32} (hF : F.Ax) (W x : Nat) (hW : 32 ≤ W) (hx : 2 ^ (2 * W) ≤ x) :
    Encl (x : ℝ) (largeNoStd F W x) := by
  obtain ⟨r1, r2, hbl, hge, hlt, hhi⟩ := large_shape W x (by omega) hx
  have hxpos : 0 < x := by have := Nat.two_pow_pos (2 * W); omega
  have h32 : 2 ^ 32 ≤ x / 2 ^ ((wordLen W x - 2) * W) :=
    le_trans (Nat.pow_le_pow_right (by norm_num) hW) hhi
  have h255 : ¬ x / 2 ^ ((wordLen W x - 2) * W) ≤ 0xff := by omega
  have remq : (0 : ℚ) ≤ (((wordLen W x - 2) * W : ℕ) : ℚ) := Nat.cast_nonneg _
  unfold largeNoStd
  simp only
  by_cases hpow : isPow2 (x / 2 ^ ((wordLen W x - 2) * W)) = true
  · -- the top double word is a power of two
    have hprim : primNoStd F (x / 2 ^ ((wordLen W x - 2) * W))
        = (.fin ((bitLen (x / 2 ^ ((wordLen W x - 2) * W)) - 1 : Nat) : ℚ),
           .fin ((bitLen (x / 2 ^ ((wordLen W x - 2) * W)) - 1 : Nat) : ℚ)) := by
      unfold primNoStd; rw [if_neg h255, if_pos hpow]
    rw [hprim]
    simp only
    have hk := isPow2_eq hpow
    generalize hkk : bitLen (x / 2 ^ ((wordLen W x - 2) * W)) - 1 = k at hk ⊢
    generalize hrr : (wordLen W x - 2) * W = rem at *
    have k32 : 32 ≤ k := by omega
    have kq : (0 : ℚ) ≤ (k : ℚ) := Nat.cast_nonneg _
    refine encl_of_logb hxpos ?_ ?_
    · refine le_trans (ratCast_le (lb_relax hF kq (le_refl _) remq)) ?_
      have : 2 ^ (k + rem) ≤ x ^ 1 := by rw [Nat.pow_add, ← hk, Nat.pow_one]; exact hge
      have := logb_ge_of_pow x (k + rem) 1 hxpos (by norm_num) this
      push_cast at this ⊢; linarith
    · refine le_trans ?_ (ratCast_le (ub_relax hF kq (le_refl _) remq))
      have hxr : (x : ℝ) ≤ ((2 : ℝ) ^ k + 1) * (2 : ℝ) ^ rem := by
        have : x ≤ (2 ^ k + 1) * 2 ^ rem := by rw [← hk]; omega
        exact_mod_cast this
      have hp2k : (0 : ℝ) < (2 : ℝ) ^ k := by positivity
      have l1 := Real.logb_le_logb_of_le (b := 2) (by norm_num) (by exact_mod_cast hxpos) hxr
      rw [Real.logb_mul (by positivity) (by positivity), Real.logb_pow, Real.logb_self_eq_one (by norm_num), mul_one] at l1
      have l2 := logb_succ_le ((2 : ℝ) ^ k) hp2k
      rw [Real.logb_pow, Real.logb_self_eq_one (by norm_num), mul_one] at l2
      have l3 : (2 : ℝ) / (2 : ℝ) ^ k ≤ 2 / 2 ^ 32 := by
        apply div_le_div_of_nonneg_left (by norm_num) (by positivity)
        exact pow_le_pow_right₀ (by norm_num) k32
      have kr : (32 : ℝ) ≤ (k : ℝ) := by exact_mod_cast k32
      have rr : (0 : ℝ) ≤ (rem : ℝ) := Nat.cast_nonneg _
      push_cast
      have hu : ((u : ℚ) : ℝ) = 1 / 2 ^ 24 := by simp [u]
      rw [hu]
      nlinarith
  · -- general top double word: the top-16-bit table estimate
    have hb16 : ¬ bitLen (x / 2 ^ ((wordLen W x - 2) * W)) ≤ 16 := by rw [hbl]; omega
    have hw := wide_fixed_point x (by omega)
    simp only at hw
    obtain ⟨w1, w2, w3, w4⟩ := hw
    have hsplit : bitLen x - 16 = (wordLen W x - 2) * W + (bitLen (x / 2 ^ ((wordLen W x - 2) * W)) - 16) := by
      rw [hbl]; omega
    have htop : x / 2 ^ (bitLen x - 16)
        = x / 2 ^ ((wordLen W x - 2) * W) / 2 ^ (bitLen (x / 2 ^ ((wordLen W x - 2) * W)) - 16) := by
      rw [hsplit, Nat.pow_add, Nat.div_div_eq_div_mul]
    rw [htop] at w1 w2 w3 w4
    have bL := fp8_lt _ w3 w4
    have bU : (if x / 2 ^ ((wordLen W x - 2) * W) / 2 ^ (bitLen (x / 2 ^ ((wordLen W x - 2) * W)) - 16) = 2 ^ 15 then 15 * 256 + 1
        else NT.ceilLog2Fp8 (x / 2 ^ ((wordLen W x - 2) * W) / 2 ^ (bitLen (x / 2 ^ ((wordLen W x - 2) * W)) - 16))) < 2 ^ 13 := by
      split
      · norm_num
      · exact ceil_lt _ w4
    have hprim : primNoStd F (x / 2 ^ ((wordLen W x - 2) * W))
        = (.fin (F.nd (F.fl (q8 F (NT.log2Fp8 (x / 2 ^ ((wordLen W x - 2) * W) / 2 ^ (bitLen (x / 2 ^ ((wordLen W x - 2) * W)) - 16)))
              + ((bitLen (x / 2 ^ ((wordLen W x - 2) * W)) - 16 : ℕ) : ℚ)))),
           .fin (F.nu (F.fl (q8 F (if x / 2 ^ ((wordLen W x - 2) * W) / 2 ^ (bitLen (x / 2 ^ ((wordLen W x - 2) * W)) - 16) = 2 ^ 15 then 15 * 256 + 1
              else NT.ceilLog2Fp8 (x / 2 ^ ((wordLen W x - 2) * W) / 2 ^ (bitLen (x / 2 ^ ((wordLen W x - 2) * W)) - 16)))
              + ((bitLen (x / 2 ^ ((wordLen W x - 2) * W)) - 16 : ℕ) : ℚ))))) := by
      unfold primNoStd; rw [if_neg h255, if_neg hpow, if_neg hb16]
    rw [hprim]
    simp only
    generalize (if x / 2 ^ ((wordLen W x - 2) * W) / 2 ^ (bitLen (x / 2 ^ ((wordLen W x - 2) * W)) - 16) = 2 ^ 15 then 15 * 256 + 1
        else NT.ceilLog2Fp8 (x / 2 ^ ((wordLen W x - 2) * W) / 2 ^ (bitLen (x / 2 ^ ((wordLen W x - 2) * W)) - 16))) = Uv at w2 bU ⊢
    generalize NT.log2Fp8 (x / 2 ^ ((wordLen W x - 2) * W) / 2 ^ (bitLen (x / 2 ^ ((wordLen W x - 2) * W)) - 16)) = Lv at w1 bL ⊢
    rw [hsplit] at w1 w2
    have hsh : 0 < bitLen (x / 2 ^ ((wordLen W x - 2) * W)) - 16 := by rw [hbl]; omega
    generalize bitLen (x / 2 ^ ((wordLen W x - 2) * W)) - 16 = sh at w1 w2 hsh ⊢
    generalize (wordLen W x - 2) * W = rem at w1 w2 remq ⊢
    rw [q8_eq hF (by omega), q8_eq hF (by omega)]
    have tl0 : (0 : ℚ) ≤ (Lv : ℚ) / 256 + (sh : ℚ) := by positivity
    have th0 : (0 : ℚ) ≤ (Uv : ℚ) / 256 + (sh : ℚ) := by positivity
    refine encl_of_logb hxpos ?_ ?_
    · have hl0 : 0 ≤ F.nd (F.fl ((Lv : ℚ) / 256 + (sh : ℚ))) := by
        have shq : (0 : ℚ) < (sh : ℚ) := by exact_mod_cast hsh
        have h : (0 : ℚ) < (Lv : ℚ) / 256 + (sh : ℚ) := by positivity
        apply hF.nd_nonneg
        have km : (0 : ℚ) < 1 - u := by norm_num [u]
        exact lt_of_lt_of_le (mul_pos h km) (hF.fl_lo _ tl0)
      refine le_trans (ratCast_le (lb_relax hF hl0 (hF.nd_fl _) remq)) ?_
      push_cast at w1 ⊢; linarith
    · refine le_trans ?_ (ratCast_le (ub_relax hF th0 (hF.fl_nu _) remq))
      have hu : ((u : ℚ) : ℝ) = 1 / 2 ^ 24 := by simp [u]
      have t0 : (0 : ℝ) ≤ ((((Uv : ℚ) / 256 + (sh : ℚ)) + (rem : ℚ) : ℚ) : ℝ) := by
        have : (0 : ℚ) ≤ ((Uv : ℚ) / 256 + (sh : ℚ)) + (rem : ℚ) := by positivity
        exact_mod_cast this
      push_cast at w2 t0 ⊢
      rw [hu]
      nlinarith


/-- **`UBig::log2_bounds` / `IBig::log2_bounds` (no_std) satisfy the enclosure hypothesis** for every
    value, for word sizes `W ≥ 32` -/
theorem natNoStd_sound {F : F32} (hF : F.Ax) (W : Nat) (hW : 32 ≤ W) (x : Nat) :
    Encl (x : ℝ) (natNoStd F W x) := by
  unfold natNoStd
  split
  · exact primNoStd_sound hF x
  · rename_i h; exact largeNoStd_sound hF W x hW (by omega)

-- ------------------------------------------------------------------ rational `Repr::log2_bounds`


theorem encl_fin_logb {x : Nat} (hx : 0 < x) {lo hi : ℚ} (h : Encl (x : ℝ) (.fin lo, .fin hi)) :
    (lo : ℝ) ≤ Real.logb 2 x ∧ Real.logb 2 x ≤ (hi : ℝ) :=
  (encl_iff_logb (by exact_mod_cast hx) lo hi).1 h

/-- **the rational estimator (no_std) satisfies the enclosure hypothesis**: each of the two `f32`
    subtractions is rounded to a neighbour of the exact difference and then stepped outward -/
theorem ratNoStd_sound {F : F32} (hF : F.Ax) (W : Nat) (hW : 32 ≤ W) (n : Int) (d : Nat) (hd : 0 < d) :
    Encl (ratMag n d) (ratNoStd F W n d) := by
  unfold ratNoStd
  split
  · rename_i h; subst h
    unfold ratMag Encl EB.le2 EB.ge2; simp
  rename_i hn
  have hnp : 0 < n.natAbs := Int.natAbs_pos.2 hn
  have e1 := natNoStd_sound hF W hW n.natAbs
  have e2 := natNoStd_sound hF W hW d
  split
  · rename_i nl nh dl dh h1 h2
    rw [h1] at e1; rw [h2] at e2
    obtain ⟨a1, a2⟩ := encl_fin_logb hnp e1
    obtain ⟨b1, b2⟩ := encl_fin_logb hd e2
    have hmag : ratMag n d = ((n.natAbs : ℕ) : ℝ) / (d : ℝ) := by
      unfold ratMag; congr 1
      rw [Nat.cast_natAbs, Int.cast_abs]
    have hnr : (0 : ℝ) < ((n.natAbs : ℕ) : ℝ) := by exact_mod_cast hnp
    have hdr : (0 : ℝ) < (d : ℝ) := by exact_mod_cast hd
    have hpos : 0 < ratMag n d := by rw [hmag]; positivity
    have hlog : Real.logb 2 (ratMag n d) = Real.logb 2 ((n.natAbs : ℕ) : ℝ) - Real.logb 2 (d : ℝ) := by
      rw [hmag, Real.logb_div (ne_of_gt hnr) (ne_of_gt hdr)]
    rw [encl_iff_logb hpos, hlog]
    constructor
    · refine le_trans (ratCast_le (hF.nd_fl _)) ?_
      push_cast; linarith
    · refine le_trans ?_ (ratCast_le (hF.fl_nu _))
      push_cast; linarith
  · unfold Encl EB.le2 EB.ge2; simp

/-- the enclosure hypothesis `Oracle.Sound` of every C14 theorem, for an oracle whose integer and rational
    estimators are the no_std table code: only the float estimator (`Repr<B>::log2_bounds`, computed in `f64`
    and cast) and `digits_ub` remain hypotheses -/
theorem noStd_oracle_sound {F : F32} (hF : F.Ax) (W : Nat) (hW : 32 ≤ W)
    (flt : Nat → Int → Int → EB × EB) (dub : Nat → Int → Nat)
    (hflt : ∀ (B : Nat) (s e : Int), 2 ≤ B → Encl (fltMag B s e) (flt B s e))
    (hdub : ∀ (B : Nat) (s : Int), 2 ≤ B → s.natAbs < B ^ dub B s) :
    ({ nat := natNoStd F W, flt := flt, rat := ratNoStd F W, digitsUb := dub } : Oracle).Sound :=
  ⟨natNoStd_sound hF W hW, hflt, ratNoStd_sound hF W hW, hdub⟩


/-- the IEEE facts are satisfiable: exact arithmetic meets all of them -/
theorem exact_ax : F32.exact.Ax := by
  refine ⟨fun _ => le_refl _, fun _ => le_refl _, fun _ h => le_of_lt h, fun _ => le_refl _, fun _ => le_refl _,
    fun x hx => ?_, fun x hx => ?_, fun _ _ _ => rfl⟩
  · show x * (1 - u) ≤ x
    have : (0 : ℚ) ≤ u := by norm_num [u]
    nlinarith
  · show x ≤ x * (1 + u)
    have : (0 : ℚ) ≤ u := by norm_num [u]
    nlinarith

/-- the third oracle the driver runs (table path with exact arithmetic) satisfies the enclosure hypothesis -/
theorem noStdExactOracle_sound (W : Nat) (hW : 32 ≤ W) : (noStdExactOracle W).Sound :=
  noStd_oracle_sound exact_ax W hW fltBounds digitsUbCoarse Oracle.coarse_sound.flt Oracle.coarse_sound.digits

end Dashu.Model.Cross.EstNoStd
