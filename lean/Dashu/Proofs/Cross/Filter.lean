import Dashu.Proofs.Cross.Basic
/-
  C14 proofs — the comparison functions that consult the log₂ oracle (float/src/cmp.rs,
  float/src/third_party/num_order.rs `NumOrd<Repr<B2>> for Repr<B1>`, rational/src/cmp.rs):
  for EVERY oracle satisfying the enclosure hypothesis the mirrored code returns the order of the
  exact values.
-/
namespace Dashu.Model.Cross

/-- "case 3 + case 4" of every filtered comparison: log₂-bound filter, then the exact comparison.
    Whatever the (sound) bounds are, the result is the exact comparison. -/
theorem filter_skeleton {n1 n2 : Int} {d1 d2 : Nat} (hd1 : 0 < d1) (hd2 : 0 < d2) {sg : Sign}
    (hs : signMatch (Sign.ofInt n1) (Sign.ofInt n2) = .inl sg) {b1 b2 : EB × EB}
    (h1 : Encl (|(n1 : ℝ)| / (d1 : ℝ)) b1) (h2 : Encl (|(n2 : ℝ)| / (d2 : ℝ)) b2)
    {exact : Ordering} (hex : exact = compare (n1 * (d2 : Int)) (n2 * (d1 : Int))) :
    (if EB.lt b2.2 b1.1 then sg.app .gt else if EB.lt b1.2 b2.1 then sg.app .lt else exact)
      = compare (n1 * (d2 : Int)) (n2 * (d1 : Int)) := by
  split
  · rename_i h
    have := Encl.sep h2 h1 h
    exact (cmp_cross_of_abs_gt hs (abs_cross_of_real hd2 hd1 this)).symm
  · split
    · rename_i h
      have := Encl.sep h1 h2 h
      exact (cmp_cross_of_abs_lt hs (abs_cross_of_real hd1 hd2 this)).symm
    · exact hex

theorem signMatch_nonneg {a b : Int} (ha : 0 ≤ a) (hb : 0 ≤ b) :
    signMatch (Sign.ofInt a) (Sign.ofInt b) = .inl .pos := by
  rw [Sign.ofInt_pos.2 ha, Sign.ofInt_pos.2 hb]; rfl

/-- the same skeleton for magnitudes (`ABS = true`) -/
theorem filter_skeleton_abs {n1 n2 : Int} {d1 d2 : Nat} (hd1 : 0 < d1) (hd2 : 0 < d2) {b1 b2 : EB × EB}
    (h1 : Encl (|(n1 : ℝ)| / (d1 : ℝ)) b1) (h2 : Encl (|(n2 : ℝ)| / (d2 : ℝ)) b2)
    {exact : Ordering} (hex : exact = compare (|n1| * (d2 : Int)) (|n2| * (d1 : Int))) :
    (if EB.lt b2.2 b1.1 then Sign.pos.app .gt else if EB.lt b1.2 b2.1 then Sign.pos.app .lt else exact)
      = compare (|n1| * (d2 : Int)) (|n2| * (d1 : Int)) := by
  have e1 : |((|n1| : Int) : ℝ)| = |(n1 : ℝ)| := by push_cast; exact abs_abs _
  have e2 : |((|n2| : Int) : ℝ)| = |(n2 : ℝ)| := by push_cast; exact abs_abs _
  exact filter_skeleton hd1 hd2 (signMatch_nonneg (abs_nonneg n1) (abs_nonneg n2))
    (by rw [e1]; exact h1) (by rw [e2]; exact h2) hex

-- ------------------------------------------------------------------ facts about `floatFrac`

theorem floatFrac_num_neg {B : Nat} (hB : 2 ≤ B) {s : Int} (e : Int) (hs : s < 0) :
    (floatFrac B s e).1 < 0 := by
  unfold floatFrac
  split
  · exact hs
  · exact mul_neg_of_neg_of_pos hs (pow_pos (by exact_mod_cast (by omega : 0 < B)) _)

theorem floatFrac_num_nonneg {B : Nat} {s : Int} (e : Int) (hs : 0 ≤ s) :
    0 ≤ (floatFrac B s e).1 := by
  unfold floatFrac
  split
  · exact hs
  · exact mul_nonneg hs (pow_nonneg (by exact_mod_cast Nat.zero_le B) _)

theorem floatFrac_sign {B : Nat} (hB : 2 ≤ B) (s e : Int) :
    Sign.ofInt (floatFrac B s e).1 = Sign.ofInt s := by
  rcases lt_or_ge s 0 with h | h
  · rw [Sign.ofInt_neg.2 h, Sign.ofInt_neg.2 (floatFrac_num_neg hB e h)]
  · rw [Sign.ofInt_pos.2 h, Sign.ofInt_pos.2 (floatFrac_num_nonneg e h)]

theorem nat_mag (r : Nat) : (r : ℝ) = |(((r : Int)) : ℝ)| / ((1 : Nat) : ℝ) := by
  simp

-- ------------------------------------------------------------------ float/src/cmp.rs

/-- `repr_cmp_ubig::<B, false>` (NumOrd between FBig/Repr and UBig / unsigned primitives):
    the order of the exact values, for every sound oracle. -/
theorem floatReprCmpUbig_spec {o : Oracle} (ho : o.Sound) {B : Nat} (hB : 2 ≤ B) (s e : Int) (r p : Nat) :
    some (floatReprCmpUbig o false B s e r) = XVal.cmp (Num.fbig B s e p).value (Num.ubig r).value := by
  unfold floatReprCmpUbig Num.value
  by_cases hs : s = 0
  · subst hs
    by_cases he : e = 0
    · subst he
      have h1 := ho.flt B 0 0 hB
      have h2 := ho.nat r
      rw [fltMag_eq_frac hB] at h1
      rw [nat_mag] at h2
      have := filter_skeleton (n1 := (floatFrac B 0 0).1) (n2 := (r : Int)) (floatFrac_den_pos hB 0 0)
        Nat.one_pos (sg := .pos) (by rw [floatFrac_sign hB]; exact signMatch_nonneg le_rfl (by omega)) h1 h2
        (exact := compare (shlDigits B 0 (0 : Int).toNat) (r : Int)) (by simp [floatFrac, shlDigits])
      simp [fIsInf, Sign.ofInt, XVal.cmp] at this ⊢
      simpa [floatFrac, Sign.app] using this
    · simp [fIsInf, he]
      rcases lt_or_gt_of_ne he with h | h
      · have : ¬ e > 0 := by omega
        simp [this, XVal.cmp]
      · simp [h, XVal.cmp]
  · have hinf : fIsInf s e = false := by simp [fIsInf, hs]
    simp only [hinf, hs, if_false, Bool.false_eq_true]
    by_cases hneg : s < 0
    · have : (!false && Sign.ofInt s == Sign.neg) = true := by rw [Sign.ofInt_neg.2 hneg]; rfl
      simp only [this, if_true]
      simp only [XVal.cmp]
      congr 1
      apply Eq.symm
      apply cmpI_lt.2
      have h1 := floatFrac_num_neg hB e hneg
      have h2 := floatFrac_den_pos hB s e
      have : (floatFrac B s e).1 * ((1 : Nat) : Int) < 0 := by simpa using h1
      have : (0 : Int) ≤ (r : Int) * ((floatFrac B s e).2 : Int) := by positivity
      omega
    · have hpos : 0 ≤ s := by omega
      have : (!false && Sign.ofInt s == Sign.neg) = false := by rw [Sign.ofInt_pos.2 hpos]; rfl
      simp only [this, Bool.false_eq_true, if_false]
      have h1 := ho.flt B s e hB
      have h2 := ho.nat r
      rw [fltMag_eq_frac hB] at h1
      rw [nat_mag] at h2
      have key := filter_skeleton (n1 := (floatFrac B s e).1) (n2 := (r : Int)) (floatFrac_den_pos hB s e)
        Nat.one_pos (sg := .pos) (by rw [floatFrac_sign hB]; exact signMatch_nonneg hpos (by omega)) h1 h2
        (exact := if e < 0 then compare s (shlDigits B (r : Int) (-e).toNat)
                  else compare (shlDigits B s e.toNat) (r : Int))
        (by unfold floatFrac shlDigits; split <;> simp)
      simp only [XVal.cmp]
      rw [← key]
      simp [Sign.app]

-- ------------------------------------------------------------------ shared facts

/-- well-formed `Repr<B>`: a zero significand carries exponent 0 (zero) or ±1 (±∞), as every
    public constructor guarantees (`Repr::new` normalises, `infinity()/neg_infinity()` use ±1) -/
def FWf (s e : Int) : Prop := s = 0 → (e = 0 ∨ e = 1 ∨ e = -1)

theorem fbig_value_fin {B : Nat} {s e : Int} (p : Nat) (h : fIsInf s e = false) :
    (Num.fbig B s e p).value = .fin (floatFrac B s e).1 (floatFrac B s e).2 := by
  unfold Num.value
  by_cases hs : s = 0
  · subst hs
    have he : e = 0 := by simpa [fIsInf] using h
    subst he
    simp [floatFrac]
  · simp [hs]

theorem fbig_value_inf {B : Nat} {s e : Int} (p : Nat) (h : fIsInf s e = true) :
    (Num.fbig B s e p).value = if e > 0 then .pinf else .ninf := by
  unfold Num.value
  have : s = 0 ∧ e ≠ 0 := by simpa [fIsInf] using h
  simp [this.1, this.2]

/-- the exact step of `repr_cmp_ubig/ibig` is the cross-multiplied comparison of the values -/
theorem float_exact_eq (B : Nat) (s e r : Int) :
    (if e < 0 then compare s (shlDigits B r (-e).toNat) else compare (shlDigits B s e.toNat) r)
      = compare ((floatFrac B s e).1 * ((1 : Nat) : Int)) (r * ((floatFrac B s e).2 : Int)) := by
  unfold floatFrac shlDigits
  split <;> simp

theorem int_mag (r : Int) : |(r : ℝ)| = |(r : ℝ)| / ((1 : Nat) : ℝ) := by simp

theorem natAbs_mag (r : Int) : ((r.natAbs : Nat) : ℝ) = |(r : ℝ)| / ((1 : Nat) : ℝ) := by
  simp [Nat.cast_natAbs]

/-- `repr_cmp_ibig::<B, false>` (NumOrd between FBig/Repr and IBig / signed primitives) -/
theorem floatReprCmpIbig_spec {o : Oracle} (ho : o.Sound) {B : Nat} (hB : 2 ≤ B) (s e r : Int) (p : Nat) :
    some (floatReprCmpIbig o false B s e r) = XVal.cmp (Num.fbig B s e p).value (Num.ibig r).value := by
  unfold floatReprCmpIbig
  cases hinf : fIsInf s e
  · rw [fbig_value_fin p hinf]
    simp only [Bool.false_eq_true, if_false, Num.value, XVal.cmp]
    congr 1
    have hd := floatFrac_den_pos hB s e
    cases hm : signMatch (Sign.ofInt s) (Sign.ofInt r) with
    | inr ord =>
      simp only
      rw [← floatFrac_sign hB s e] at hm
      exact (cmp_cross_of_signs (by exact_mod_cast hd) (by exact_mod_cast Nat.one_pos) hm).symm
    | inl sg =>
      simp only
      rw [← floatFrac_sign hB s e] at hm
      have h1 := ho.flt B s e hB
      have h2 := ho.nat r.natAbs
      rw [fltMag_eq_frac hB] at h1
      rw [natAbs_mag] at h2
      exact filter_skeleton hd Nat.one_pos hm h1 h2 (float_exact_eq B s e r)
  · rw [fbig_value_inf p hinf]
    simp only [if_true, Num.value]
    by_cases he : e > 0 <;> simp [he, XVal.cmp]

-- ------------------------------------------------------------------ float/src/third_party/num_order.rs

theorem reprNumCmp_exact_eq (B1 : Nat) (s1 e1 : Int) (B2 : Nat) (s2 e2 : Int) :
    (let lhs1 := if e1 < 0 then s1 else shlDigits B1 s1 e1.toNat
     let rhs1 := if e1 < 0 then shlDigits B1 s2 (-e1).toNat else s2
     let lhs2 := if e2 < 0 then shlDigits B2 lhs1 (-e2).toNat else lhs1
     let rhs2 := if e2 < 0 then rhs1 else shlDigits B2 rhs1 e2.toNat
     compare lhs2 rhs2)
      = compare ((floatFrac B1 s1 e1).1 * ((floatFrac B2 s2 e2).2 : Int))
                ((floatFrac B2 s2 e2).1 * ((floatFrac B1 s1 e1).2 : Int)) := by
  unfold floatFrac shlDigits
  by_cases h1 : e1 < 0 <;> by_cases h2 : e2 < 0 <;> simp [h1, h2] <;> congr 1 <;> ring

/-- `impl NumOrd<Repr<B2>> for Repr<B1>` (FBig × FBig in any two bases): the order of the exact
    values, for every sound oracle -/
theorem reprNumCmp_spec {o : Oracle} (ho : o.Sound) {B1 B2 : Nat} (hB1 : 2 ≤ B1) (hB2 : 2 ≤ B2)
    (s1 e1 s2 e2 : Int) (p1 p2 : Nat) (w1 : FWf s1 e1) (w2 : FWf s2 e2) :
    some (reprNumCmp o B1 s1 e1 B2 s2 e2)
      = XVal.cmp (Num.fbig B1 s1 e1 p1).value (Num.fbig B2 s2 e2 p2).value := by
  unfold reprNumCmp
  cases hi1 : fIsInf s1 e1 <;> cases hi2 : fIsInf s2 e2
  · -- both finite
    rw [fbig_value_fin p1 hi1, fbig_value_fin p2 hi2]
    simp only [Bool.false_eq_true, Bool.and_self, if_false, XVal.cmp]
    congr 1
    have hd1 := floatFrac_den_pos hB1 s1 e1
    have hd2 := floatFrac_den_pos hB2 s2 e2
    cases hm : signMatch (Sign.ofInt s1) (Sign.ofInt s2) with
    | inr ord =>
      simp only
      rw [← floatFrac_sign hB1 s1 e1, ← floatFrac_sign hB2 s2 e2] at hm
      exact (cmp_cross_of_signs (by exact_mod_cast hd1) (by exact_mod_cast hd2) hm).symm
    | inl sg =>
      simp only
      rw [← floatFrac_sign hB1 s1 e1, ← floatFrac_sign hB2 s2 e2] at hm
      have h1 := ho.flt B1 s1 e1 hB1
      have h2 := ho.flt B2 s2 e2 hB2
      rw [fltMag_eq_frac hB1] at h1
      rw [fltMag_eq_frac hB2] at h2
      exact filter_skeleton hd1 hd2 hm h1 h2 (reprNumCmp_exact_eq B1 s1 e1 B2 s2 e2)
  · -- rhs infinite
    rw [fbig_value_fin p1 hi1, fbig_value_inf p2 hi2]
    have h2 : s2 = 0 ∧ e2 ≠ 0 := by simpa [fIsInf] using hi2
    simp only [Bool.false_and, Bool.false_eq_true, if_false, if_true]
    by_cases he : e2 > 0
    · have : e2 ≥ 0 := by omega
      simp [he, this, XVal.cmp]
    · have : ¬ e2 ≥ 0 := by omega
      simp [he, this, XVal.cmp]
  · -- lhs infinite
    rw [fbig_value_inf p1 hi1, fbig_value_fin p2 hi2]
    have h1 : s1 = 0 ∧ e1 ≠ 0 := by simpa [fIsInf] using hi1
    simp only [Bool.and_false, Bool.false_eq_true, if_false, if_true]
    by_cases he : e1 > 0
    · have : e1 ≥ 0 := by omega
      simp [he, this, XVal.cmp]
    · have : ¬ e1 ≥ 0 := by omega
      simp [he, this, XVal.cmp]
  · -- both infinite: exponents are ±1
    rw [fbig_value_inf p1 hi1, fbig_value_inf p2 hi2]
    have h1 : s1 = 0 ∧ e1 ≠ 0 := by simpa [fIsInf] using hi1
    have h2 : s2 = 0 ∧ e2 ≠ 0 := by simpa [fIsInf] using hi2
    simp only [Bool.and_self, if_true]
    rcases w1 h1.1 with h | h | h <;> rcases w2 h2.1 with h' | h' | h' <;>
      first | (exfalso; omega) | (subst h; subst h'; simp [XVal.cmp]; try decide)

-- ------------------------------------------------------------------ rational/src/cmp.rs

theorem ratMag_eq (n : Int) (d : Nat) : ratMag n d = |(n : ℝ)| / (d : ℝ) := rfl

theorem absCmpInt_eq (a b : Int) : absCmpInt a b = compare |a| |b| := by
  unfold absCmpInt
  rw [cmpN_cast, Int.natCast_natAbs, Int.natCast_natAbs]

theorem abs_value_cmp (n1 : Int) (d1 : Nat) (n2 : Int) (d2 : Nat) :
    XVal.absCmp (.fin n1 d1) (.fin n2 d2) = some (compare (|n1| * (d2 : Int)) (|n2| * (d1 : Int))) := by
  simp [XVal.absCmp, XVal.abs, XVal.cmp, Int.natCast_natAbs]

/-- rational `repr_cmp_ubig::<false>` (NumOrd RBig/Relaxed × UBig, unsigned primitives) -/
theorem ratReprCmpUbig_spec {o : Oracle} (ho : o.Sound) (n : Int) {d : Nat} (hd : 0 < d) (r : Nat) :
    some (ratReprCmpUbig o false n d r) = XVal.cmp (.fin n d) (.fin (r : Int) 1) := by
  unfold ratReprCmpUbig
  simp only [XVal.cmp]
  congr 1
  by_cases hneg : n < 0
  · have : (!false && Sign.ofInt n == Sign.neg) = true := by rw [Sign.ofInt_neg.2 hneg]; rfl
    simp only [this, if_true]
    apply Eq.symm
    apply cmpI_lt.2
    have : n * ((1 : Nat) : Int) < 0 := by simpa using hneg
    have : (0 : Int) ≤ (r : Int) * (d : Int) := by positivity
    omega
  · have hpos : 0 ≤ n := by omega
    have : (!false && Sign.ofInt n == Sign.neg) = false := by rw [Sign.ofInt_pos.2 hpos]; rfl
    simp only [this, Bool.false_eq_true, if_false]
    have h1 := ho.rat n d hd
    have h2 := ho.nat r
    rw [ratMag_eq] at h1
    rw [nat_mag] at h2
    have key := filter_skeleton (n1 := n) (n2 := (r : Int)) hd Nat.one_pos (sg := .pos)
      (signMatch_nonneg hpos (by omega)) h1 h2 (exact := absCmpInt n ((r : Int) * d))
      (by rw [absCmpInt_eq, abs_of_nonneg hpos, abs_of_nonneg (by positivity)]; simp)
    simpa [Sign.app] using key

/-- rational `repr_cmp_ubig::<true>` (AbsOrd RBig/Relaxed × UBig) -/
theorem ratReprCmpUbig_abs_spec {o : Oracle} (ho : o.Sound) (n : Int) {d : Nat} (hd : 0 < d) (r : Nat) :
    some (ratReprCmpUbig o true n d r) = XVal.absCmp (.fin n d) (.fin (r : Int) 1) := by
  unfold ratReprCmpUbig
  rw [abs_value_cmp]
  congr 1
  simp only [Bool.not_true, Bool.false_and, Bool.false_eq_true, if_false]
  have h1 := ho.rat n d hd
  have h2 := ho.nat r
  rw [ratMag_eq] at h1
  rw [nat_mag] at h2
  have key := filter_skeleton_abs (n1 := n) (n2 := (r : Int)) hd Nat.one_pos h1 h2
    (exact := absCmpInt n ((r : Int) * d))
    (by rw [absCmpInt_eq, abs_mul]; simp)
  simpa [Sign.app] using key

/-- rational `repr_cmp_ibig::<false>` (NumOrd RBig/Relaxed × IBig, signed primitives) -/
theorem ratReprCmpIbig_spec {o : Oracle} (ho : o.Sound) (n : Int) {d : Nat} (hd : 0 < d) (r : Int) :
    some (ratReprCmpIbig o false n d r) = XVal.cmp (.fin n d) (.fin r 1) := by
  unfold ratReprCmpIbig
  simp only [XVal.cmp, Bool.false_eq_true, if_false]
  congr 1
  cases hm : signMatch (Sign.ofInt n) (Sign.ofInt r) with
  | inr ord =>
    simp only
    exact (cmp_cross_of_signs (by exact_mod_cast hd) (by exact_mod_cast Nat.one_pos) hm).symm
  | inl sg =>
    simp only
    have h1 := ho.rat n d hd
    have h2 := ho.nat r.natAbs
    rw [ratMag_eq] at h1
    rw [natAbs_mag] at h2
    exact filter_skeleton hd Nat.one_pos hm h1 h2 (by simp)

/-- rational `repr_cmp_ibig::<true>` (AbsOrd RBig/Relaxed × IBig) -/
theorem ratReprCmpIbig_abs_spec {o : Oracle} (ho : o.Sound) (n : Int) {d : Nat} (hd : 0 < d) (r : Int) :
    some (ratReprCmpIbig o true n d r) = XVal.absCmp (.fin n d) (.fin r 1) := by
  unfold ratReprCmpIbig
  rw [abs_value_cmp]
  congr 1
  simp only [if_true]
  have h1 := ho.rat n d hd
  have h2 := ho.nat r.natAbs
  rw [ratMag_eq] at h1
  rw [natAbs_mag] at h2
  exact filter_skeleton_abs hd Nat.one_pos h1 h2 (by rw [absCmpInt_eq, abs_mul]; simp)

theorem ratFbig_exact_eq (n : Int) (d : Nat) (B : Nat) (s e : Int) :
    compare (if e < 0 then n * (B : Int) ^ (-e).toNat else n)
            (if e < 0 then s * (d : Int) else s * d * (B : Int) ^ e.toNat)
      = compare (n * ((floatFrac B s e).2 : Int)) ((floatFrac B s e).1 * (d : Int)) := by
  unfold floatFrac
  by_cases h : e < 0 <;> simp [h] <;> congr 1 <;> ring

theorem ratFbig_exact_abs_eq (n : Int) (d : Nat) (B : Nat) (s e : Int) :
    absCmpInt (if e < 0 then n * (B : Int) ^ (-e).toNat else n)
              (if e < 0 then s * (d : Int) else s * d * (B : Int) ^ e.toNat)
      = compare (|n| * ((floatFrac B s e).2 : Int)) (|(floatFrac B s e).1| * (d : Int)) := by
  rw [absCmpInt_eq]
  unfold floatFrac
  have hB : (0 : Int) ≤ (B : Int) := by positivity
  by_cases h : e < 0
  · simp [h, abs_mul, abs_pow, abs_of_nonneg hB]
  · simp [h, abs_mul, abs_pow, abs_of_nonneg hB]; congr 1; ring

/-- `with_float::repr_cmp_fbig::<B, false>` (NumOrd RBig/Relaxed × FBig) -/
theorem ratReprCmpFbig_spec {o : Oracle} (ho : o.Sound) (n : Int) {d : Nat} (hd : 0 < d) {B : Nat}
    (hB : 2 ≤ B) (s e : Int) (p : Nat) :
    some (ratReprCmpFbig o false n d B s e) = XVal.cmp (.fin n d) (Num.fbig B s e p).value := by
  unfold ratReprCmpFbig
  cases hinf : fIsInf s e
  · rw [fbig_value_fin p hinf]
    simp only [Bool.false_eq_true, if_false, XVal.cmp]
    congr 1
    have hq := floatFrac_den_pos hB s e
    cases hm : signMatch (Sign.ofInt n) (Sign.ofInt s) with
    | inr ord =>
      simp only
      rw [← floatFrac_sign hB s e] at hm
      exact (cmp_cross_of_signs (by exact_mod_cast hd) (by exact_mod_cast hq) hm).symm
    | inl sg =>
      simp only
      rw [← floatFrac_sign hB s e] at hm
      have h1 := ho.rat n d hd
      have h2 := ho.flt B s e hB
      rw [ratMag_eq] at h1
      rw [fltMag_eq_frac hB] at h2
      exact filter_skeleton hd hq hm h1 h2 (ratFbig_exact_eq n d B s e)
  · rw [fbig_value_inf p hinf]
    simp only [if_true, Bool.false_or]
    by_cases he : e > 0 <;> simp [he, XVal.cmp]

/-- `with_float::repr_cmp_fbig::<B, true>` (AbsOrd RBig/Relaxed × FBig) -/
theorem ratReprCmpFbig_abs_spec {o : Oracle} (ho : o.Sound) (n : Int) {d : Nat} (hd : 0 < d) {B : Nat}
    (hB : 2 ≤ B) (s e : Int) (p : Nat) :
    some (ratReprCmpFbig o true n d B s e) = XVal.absCmp (.fin n d) (Num.fbig B s e p).value := by
  unfold ratReprCmpFbig
  cases hinf : fIsInf s e
  · rw [fbig_value_fin p hinf, abs_value_cmp]
    simp only [Bool.false_eq_true, if_false, if_true]
    congr 1
    have hq := floatFrac_den_pos hB s e
    have h1 := ho.rat n d hd
    have h2 := ho.flt B s e hB
    rw [ratMag_eq] at h1
    rw [fltMag_eq_frac hB] at h2
    exact filter_skeleton_abs hd hq h1 h2 (ratFbig_exact_abs_eq n d B s e)
  · rw [fbig_value_inf p hinf]
    simp only [if_true, Bool.true_or]
    by_cases he : e > 0 <;> simp [he, XVal.absCmp, XVal.abs, XVal.cmp]

-- ------------------------------------------------------------------ AbsOrd FBig × UBig/IBig

/-- the exact step of `repr_cmp_ubig/ibig::<B, true>` is the cross-multiplied comparison of the
    magnitudes -/
theorem float_exact_abs_eq (B : Nat) (s e r : Int) :
    (if e < 0 then absCmpInt s (shlDigits B r (-e).toNat) else absCmpInt (shlDigits B s e.toNat) r)
      = compare (|(floatFrac B s e).1| * ((1 : Nat) : Int)) (|r| * ((floatFrac B s e).2 : Int)) := by
  have hB : (0 : Int) ≤ (B : Int) := by positivity
  unfold floatFrac shlDigits
  split <;> simp [absCmpInt_eq, abs_mul, abs_pow, abs_of_nonneg hB]

/-- `repr_cmp_ubig::<B, true>` (AbsOrd FBig/Repr × UBig): the order of the magnitudes -/
theorem floatReprCmpUbig_abs_spec {o : Oracle} (ho : o.Sound) {B : Nat} (hB : 2 ≤ B) (s e : Int)
    (r p : Nat) :
    some (floatReprCmpUbig o true B s e r) = XVal.absCmp (Num.fbig B s e p).value (Num.ubig r).value := by
  unfold floatReprCmpUbig
  cases hinf : fIsInf s e
  · rw [fbig_value_fin p hinf]
    simp only [Num.value, abs_value_cmp, Bool.false_eq_true, if_false, Bool.not_true, Bool.false_and,
      if_true]
    congr 1
    have hd := floatFrac_den_pos hB s e
    have h1 := ho.flt B s e hB
    have h2 := ho.nat r
    rw [fltMag_eq_frac hB] at h1
    rw [nat_mag] at h2
    have key := filter_skeleton_abs hd Nat.one_pos h1 h2 (float_exact_abs_eq B s e (r : Int))
    simpa [Sign.app] using key
  · rw [fbig_value_inf p hinf]
    simp only [if_true, Bool.or_true, Num.value]
    by_cases he : e > 0 <;> simp [he, XVal.absCmp, XVal.abs, XVal.cmp]

/-- `repr_cmp_ibig::<B, true>` (AbsOrd FBig/Repr × IBig): the order of the magnitudes -/
theorem floatReprCmpIbig_abs_spec {o : Oracle} (ho : o.Sound) {B : Nat} (hB : 2 ≤ B) (s e r : Int)
    (p : Nat) :
    some (floatReprCmpIbig o true B s e r) = XVal.absCmp (Num.fbig B s e p).value (Num.ibig r).value := by
  unfold floatReprCmpIbig
  cases hinf : fIsInf s e
  · rw [fbig_value_fin p hinf]
    simp only [Num.value, abs_value_cmp, Bool.false_eq_true, if_false, if_true]
    congr 1
    have hd := floatFrac_den_pos hB s e
    have h1 := ho.flt B s e hB
    have h2 := ho.nat r.natAbs
    rw [fltMag_eq_frac hB] at h1
    rw [natAbs_mag] at h2
    exact filter_skeleton_abs hd Nat.one_pos h1 h2 (float_exact_abs_eq B s e r)
  · rw [fbig_value_inf p hinf]
    simp only [if_true, Bool.or_true, Num.value]
    by_cases he : e > 0 <;> simp [he, XVal.absCmp, XVal.abs, XVal.cmp]

end Dashu.Model.Cross
