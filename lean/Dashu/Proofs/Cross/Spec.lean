import Dashu.Proofs.Cross.Basic
import Mathlib.Algebra.Order.Field.Rat
import Mathlib.Tactic.FieldSimp
/-
  C14 proofs — the specification side (`XVal.cmp`, cross-multiplied fractions) IS the order of the
  exact rationals: `fin n d` denotes `n / d ∈ ℚ`, a finite float denotes `s · B^e`, a decoded
  primitive float `man · 2^exp`.
-/
namespace Dashu.Model.Cross

/-- the rational denoted by `fin n d` -/
def fracQ (n : Int) (d : Nat) : ℚ := (n : ℚ) / (d : ℚ)

theorem cross_lt_iff {n1 n2 : Int} {d1 d2 : Nat} (h1 : 0 < d1) (h2 : 0 < d2) :
    n1 * (d2 : Int) < n2 * (d1 : Int) ↔ fracQ n1 d1 < fracQ n2 d2 := by
  have p1 : (0 : ℚ) < d1 := by exact_mod_cast h1
  have p2 : (0 : ℚ) < d2 := by exact_mod_cast h2
  unfold fracQ
  rw [div_lt_div_iff₀ p1 p2]
  constructor
  · intro h; exact_mod_cast h
  · intro h; exact_mod_cast h

theorem cross_eq_iff {n1 n2 : Int} {d1 d2 : Nat} (h1 : 0 < d1) (h2 : 0 < d2) :
    n1 * (d2 : Int) = n2 * (d1 : Int) ↔ fracQ n1 d1 = fracQ n2 d2 := by
  have p1 : (d1 : ℚ) ≠ 0 := by exact_mod_cast h1.ne'
  have p2 : (d2 : ℚ) ≠ 0 := by exact_mod_cast h2.ne'
  unfold fracQ
  rw [div_eq_div_iff p1 p2]
  constructor
  · intro h; exact_mod_cast h
  · intro h; exact_mod_cast h

/-- SPEC = order of the exact rationals -/
theorem cmp_fin_lt {n1 n2 : Int} {d1 d2 : Nat} (h1 : 0 < d1) (h2 : 0 < d2) :
    XVal.cmp (.fin n1 d1) (.fin n2 d2) = some .lt ↔ fracQ n1 d1 < fracQ n2 d2 := by
  simp only [XVal.cmp, Option.some.injEq, cmpI_lt]
  exact cross_lt_iff h1 h2

theorem cmp_fin_eq {n1 n2 : Int} {d1 d2 : Nat} (h1 : 0 < d1) (h2 : 0 < d2) :
    XVal.cmp (.fin n1 d1) (.fin n2 d2) = some .eq ↔ fracQ n1 d1 = fracQ n2 d2 := by
  simp only [XVal.cmp, Option.some.injEq, cmpI_eq]
  exact cross_eq_iff h1 h2

theorem cmp_fin_gt {n1 n2 : Int} {d1 d2 : Nat} (h1 : 0 < d1) (h2 : 0 < d2) :
    XVal.cmp (.fin n1 d1) (.fin n2 d2) = some .gt ↔ fracQ n2 d2 < fracQ n1 d1 := by
  simp only [XVal.cmp, Option.some.injEq, cmpI_gt]
  exact cross_lt_iff h2 h1

/-- a finite float `signif · B^exp` denotes exactly that rational -/
theorem floatFrac_rat {B : Nat} (hB : 2 ≤ B) (s e : Int) :
    fracQ (floatFrac B s e).1 (floatFrac B s e).2 = (s : ℚ) * (B : ℚ) ^ e := by
  unfold fracQ floatFrac
  split
  · rename_i he
    have : e = -((-e).toNat : Int) := by omega
    simp only
    conv_rhs => rw [this]
    rw [zpow_neg, zpow_natCast]
    push_cast
    rw [div_eq_mul_inv]
  · rename_i he
    have : e = (e.toNat : Int) := by omega
    simp only
    conv_rhs => rw [this]
    rw [zpow_natCast]
    push_cast
    simp

/-- magnitudes: `XVal.abs` of `fin n d` denotes `|n / d|` -/
theorem abs_fin (n : Int) (d : Nat) : fracQ (n.natAbs : Int) d = |fracQ n d| := by
  unfold fracQ
  rw [abs_div, Nat.abs_cast, Int.natCast_natAbs, Int.cast_abs]

end Dashu.Model.Cross
