import Dashu.Proofs.Cross.HashProofs
import Dashu.Model.Cross.Mersenne
/-
  C14 proofs — the executable mirror of `num_modular::FixedMersenneInt<127, 1>`
  (`Model/Cross/Mersenne.lean`) computes exactly the specification-level residue arithmetic of
  `Model/Cross/Hash.lean`:

  * `reduce_single` is `% M127` for every input; the two unrolled folds of the `udouble`
    `reduce_double` suffice below `2^254` (and no intermediate sum leaves `u128`);
  * `mul`, `sqr`, binary `pow` are the modular product / square / power on reduced operands;
  * `u128::invm` (extended Euclid) returns THE inverse in `[0, M127)`, `None` exactly at `0`;
  * hence the `NumHash` impls expressed through these operations (`…M`) never panic on well-formed
    input and feed exactly the `i128` of the specification-level `numHashFeed`.
-/
namespace Dashu.Model.Cross
open Mersenne

/-! ## constants -/

theorem modulus_eq_M127 : Mersenne.MODULUS = M127 := rfl
theorem TWO_P_val : Mersenne.TWO_P = 2 ^ 127 := rfl
theorem TWO_P_eq : Mersenne.TWO_P = M127 + 1 := by
  unfold Mersenne.TWO_P M127; omega

/-! ## `reduce_single` -/

/-- the fold loop keeps `(hi * 2^127 + lo) mod M127` (because `2^127 ≡ 1`) and ends below `2^127` -/
theorem foldLoop_spec (lo hi : Nat) : lo < 2 ^ 127 →
    Mersenne.foldLoop lo hi < 2 ^ 127 ∧
      Mersenne.foldLoop lo hi % M127 = (hi * 2 ^ 127 + lo) % M127 := by
  induction lo, hi using Mersenne.foldLoop.induct with
  | case1 lo =>
    intro hlo
    rw [Mersenne.foldLoop, if_pos rfl]
    exact ⟨hlo, by simp⟩
  | case2 lo hi h ih =>
    intro _
    rw [Mersenne.foldLoop, if_neg h]
    have h1 : (hi + lo) % TWO_P < 2 ^ 127 := by unfold TWO_P; omega
    obtain ⟨i1, i2⟩ := ih h1
    refine ⟨i1, ?_⟩
    rw [i2]
    unfold TWO_P M127
    omega

/-- the final conditional subtraction maps `[0, 2^127)` onto the canonical residues -/
theorem finish_spec {l : Nat} (hl : l < 2 ^ 127) : Mersenne.finish l = l % M127 := by
  unfold Mersenne.finish Mersenne.MODULUS M127
  split <;> omega

/-- ★ `reduce_single` is reduction modulo `M127`, for every input. -/
theorem reduceSingle_eq (v : Nat) : Mersenne.reduceSingle v = v % M127 := by
  unfold Mersenne.reduceSingle
  have h1 : v % TWO_P < 2 ^ 127 := by unfold TWO_P; omega
  obtain ⟨i1, i2⟩ := foldLoop_spec (v % TWO_P) (v / TWO_P) h1
  rw [finish_spec i1, i2]
  unfold TWO_P M127
  omega

theorem reduceSingle_lt (v : Nat) : Mersenne.reduceSingle v < M127 := by
  rw [reduceSingle_eq]; exact Nat.mod_lt _ M127_pos

theorem reduceSingle_of_lt {v : Nat} (h : v < M127) : Mersenne.reduceSingle v = v := by
  rw [reduceSingle_eq, Nat.mod_eq_of_lt h]

/-! ## `reduce_double` -/

/-- phase 1 (`while hi.hi > 0`) does nothing when the high word fits `u128` -/
theorem phase1_noop {lo hi : Nat} (h : hi < 2 ^ 128) : Mersenne.phase1 lo hi = (lo, hi) := by
  rw [Mersenne.phase1, if_pos h]

/-- machine-overflow freedom of `reduce_double` below `2^254`: phase 1 is not entered, both
    unrolled sums fit `u128` (indeed `s1 ≤ 2^128 - 2`, and `s2 < 2^127`: the carry after the second
    fold is `0`, so two folds suffice) -/
theorem reduceDouble_no_overflow {v : Nat} (hv : v < 2 ^ 254) :
    let lo := v % Mersenne.TWO_P
    let hi := v / Mersenne.TWO_P
    let s1 := hi + lo
    let s2 := s1 / Mersenne.TWO_P + s1 % Mersenne.TWO_P
    lo < 2 ^ 127 ∧ hi < 2 ^ 127 ∧ Mersenne.phase1 lo hi = (lo, hi) ∧
      s1 ≤ 2 ^ 128 - 2 ∧ s1 < 2 ^ 128 ∧ s1 / Mersenne.TWO_P ≤ 1 ∧ s2 < 2 ^ 127 ∧
      s2 / Mersenne.TWO_P = 0 := by
  intro lo hi s1 s2
  have e1 : lo = v % 2 ^ 127 := rfl
  have e2 : hi = v / 2 ^ 127 := rfl
  have e3 : s1 = hi + lo := rfl
  have e4 : s2 = s1 / 2 ^ 127 + s1 % 2 ^ 127 := rfl
  have hp : Mersenne.phase1 lo hi = (lo, hi) := phase1_noop (by omega)
  rw [TWO_P_val]
  refine ⟨?_, ?_, hp, ?_, ?_, ?_, ?_, ?_⟩ <;> omega

/-- ★ the `udouble` `reduce_double` (two unrolled folds) is reduction modulo `M127` below `2^254`. -/
theorem reduceDouble_eq {v : Nat} (hv : v < 2 ^ 254) : Mersenne.reduceDouble v = v % M127 := by
  obtain ⟨_, _, hp, _, _, _, hs2, _⟩ := reduceDouble_no_overflow hv
  unfold Mersenne.reduceDouble
  simp only [hp]
  have hs2' : ((v / TWO_P + v % TWO_P) / TWO_P + (v / TWO_P + v % TWO_P) % TWO_P) % TWO_P
      = (v / TWO_P + v % TWO_P) / TWO_P + (v / TWO_P + v % TWO_P) % TWO_P := by
    apply Nat.mod_eq_of_lt
    rw [TWO_P_val] at hs2 ⊢
    exact hs2
  rw [hs2', finish_spec hs2]
  unfold TWO_P M127
  omega

theorem reduceDouble_lt {v : Nat} (hv : v < 2 ^ 254) : Mersenne.reduceDouble v < M127 := by
  rw [reduceDouble_eq hv]; exact Nat.mod_lt _ M127_pos

/-! ## `mul`, `sqr` -/

theorem mul_lt_254 {a b : Nat} (ha : a < M127) (hb : b < M127) : a * b < 2 ^ 254 := by
  have h1 : a * b < M127 * M127 := Nat.mul_lt_mul'' ha hb
  have h2 : M127 * M127 < 2 ^ 254 := by decide
  omega

/-- ★ `Reducer::mul` on reduced operands -/
theorem mul_eq {a b : Nat} (ha : a < M127) (hb : b < M127) : Mersenne.mul a b = a * b % M127 :=
  reduceDouble_eq (mul_lt_254 ha hb)

/-- ★ `Reducer::sqr` on a reduced operand -/
theorem sqr_eq {a : Nat} (ha : a < M127) : Mersenne.sqr a = a * a % M127 :=
  reduceDouble_eq (mul_lt_254 ha ha)

theorem mul_lt {a b : Nat} (ha : a < M127) (hb : b < M127) : Mersenne.mul a b < M127 := by
  rw [mul_eq ha hb]; exact Nat.mod_lt _ M127_pos

theorem sqr_lt {a : Nat} (ha : a < M127) : Mersenne.sqr a < M127 := by
  rw [sqr_eq ha]; exact Nat.mod_lt _ M127_pos

/-! ## `pow` -/

/-- loop invariant of the binary power -/
theorem powLoop_spec (multi exp result : Nat) : multi < M127 → result < M127 →
    Mersenne.powLoop multi exp result = result * multi ^ exp % M127 := by
  induction multi, exp, result using Mersenne.powLoop.induct with
  | case1 multi result =>
    intro _ hr
    rw [Mersenne.powLoop, if_pos rfl, pow_zero, mul_one, Nat.mod_eq_of_lt hr]
  | case2 multi exp result h ih =>
    intro hm hr
    rw [Mersenne.powLoop, if_neg h]
    have hr' : (if exp % 2 = 1 then Mersenne.mul result multi else result) < M127 := by
      split
      · exact mul_lt hr hm
      · exact hr
    simp only [dite_eq_ite] at ih
    rw [ih (sqr_lt hm) hr', sqr_eq hm]
    have hpow : multi ^ exp = (multi * multi) ^ (exp / 2) * multi ^ (exp % 2) := by
      rw [← pow_two, ← pow_mul, ← pow_add]; congr 1; omega
    rw [hpow]
    by_cases h1 : exp % 2 = 1
    · rw [if_pos h1, mul_eq hr hm, h1, pow_one]
      conv_lhs => rw [Nat.mul_mod, Nat.mod_mod, Nat.pow_mod, Nat.mod_mod, ← Nat.pow_mod, ← Nat.mul_mod]
      congr 1
      ring
    · have h2 : exp % 2 = 0 := by omega
      rw [if_neg h1, h2, pow_zero, mul_one]
      conv_lhs => rw [Nat.mul_mod, Nat.pow_mod, Nat.mod_mod, ← Nat.pow_mod, ← Nat.mul_mod]

/-- ★ `Reducer::pow` on a reduced base (with its `exp = 1`, `exp = 2` shortcuts) -/
theorem pow_eq {b : Nat} (hb : b < M127) (e : Nat) : Mersenne.pow b e = b ^ e % M127 := by
  unfold Mersenne.pow
  by_cases h1 : e = 1
  · rw [if_pos h1, h1, pow_one, Nat.mod_eq_of_lt hb]
  · rw [if_neg h1]
    by_cases h2 : e = 2
    · rw [if_pos h2, h2, sqr_eq hb, pow_two]
    · rw [if_neg h2]
      have one_lt : 1 < M127 := M127_prime.one_lt
      rw [reduceSingle_of_lt one_lt, powLoop_spec b e 1 hb one_lt, one_mul]

theorem pow_lt {b : Nat} (hb : b < M127) (e : Nat) : Mersenne.pow b e < M127 := by
  rw [pow_eq hb]; exact Nat.mod_lt _ M127_pos

/-! ## `inv` (`u128::invm`, extended Euclid) -/

theorem negm_lt (x : Nat) {m : Nat} (hm : 0 < m) : Mersenne.negm x m < m := by
  unfold Mersenne.negm
  split
  · exact hm
  · omega

/-- `u128::subm` lands in `[0, m)` -/
theorem subm_lt (a b : Nat) {m : Nat} (hm : 0 < m) : Mersenne.subm a b m < m := by
  unfold Mersenne.subm
  split
  · exact Nat.mod_lt _ hm
  · exact negm_lt _ hm

theorem negm_cast (x : Nat) :
    ((Mersenne.negm x M127 : Nat) : ZMod M127) = -((x : Nat) : ZMod M127) := by
  unfold Mersenne.negm
  split
  · rename_i h0
    have : ((x : Nat) : ZMod M127) = 0 := by
      rw [ZMod.natCast_eq_zero_iff, Nat.dvd_iff_mod_eq_zero]; exact h0
    rw [this, Nat.cast_zero, neg_zero]
  · have hle : x % M127 ≤ M127 := (Nat.mod_lt _ M127_pos).le
    rw [Nat.cast_sub hle, ZMod.natCast_self, ZMod.natCast_mod, zero_sub]

/-- `u128::subm` is subtraction modulo `M127` -/
theorem subm_cast (a b : Nat) :
    ((Mersenne.subm a b M127 : Nat) : ZMod M127) = ((a : Nat) : ZMod M127) - ((b : Nat) : ZMod M127) := by
  unfold Mersenne.subm
  split
  · rename_i h
    rw [ZMod.natCast_mod, Nat.cast_sub h]
  · rename_i h
    have hba : a ≤ b := by omega
    rw [negm_cast, ZMod.natCast_mod, Nat.cast_sub hba, neg_sub]

theorem mulm_cast (a b : Nat) :
    ((Mersenne.mulm a b M127 : Nat) : ZMod M127) = ((a : Nat) : ZMod M127) * ((b : Nat) : ZMod M127) := by
  unfold Mersenne.mulm
  rw [ZMod.natCast_mod, Nat.cast_mul]

/-- invariant of the extended-Euclid loop: Bézout congruences `lastT * x ≡ lastR`, `t * x ≡ r`
    (mod `M127`), coefficients in `[0, M127)`, and the gcd of the remainder pair -/
theorem invLoop_spec (x : Nat) (lastR r lastT t : Nat) :
    ((lastT : Nat) : ZMod M127) * ((x : Nat) : ZMod M127) = ((lastR : Nat) : ZMod M127) →
    ((t : Nat) : ZMod M127) * ((x : Nat) : ZMod M127) = ((r : Nat) : ZMod M127) →
    lastT < M127 → t < M127 →
    (Mersenne.invLoop M127 lastR r lastT t).1 = Nat.gcd lastR r ∧
      (((Mersenne.invLoop M127 lastR r lastT t).2 : Nat) : ZMod M127) * ((x : Nat) : ZMod M127)
        = (((Mersenne.invLoop M127 lastR r lastT t).1 : Nat) : ZMod M127) ∧
      (Mersenne.invLoop M127 lastR r lastT t).2 < M127 := by
  induction lastR, r, lastT, t using Mersenne.invLoop.induct (m := M127) with
  | case1 lastR lastT t =>
    intro h1 _ h3 _
    rw [Mersenne.invLoop, if_pos rfl]
    exact ⟨(Nat.gcd_zero_right _).symm, h1, h3⟩
  | case2 lastR r lastT t h ih =>
    intro h1 h2 _ h4
    rw [Mersenne.invLoop, if_neg h]
    have hdm : ((r : Nat) : ZMod M127) * (((lastR / r : Nat)) : ZMod M127)
        + (((lastR % r : Nat)) : ZMod M127) = ((lastR : Nat) : ZMod M127) := by
      exact_mod_cast congrArg (Nat.cast : Nat → ZMod M127) (Nat.div_add_mod lastR r)
    have hstep : ((Mersenne.subm lastT (Mersenne.mulm (lastR / r) t M127) M127 : Nat) : ZMod M127)
        * ((x : Nat) : ZMod M127) = (((lastR % r : Nat)) : ZMod M127) := by
      rw [subm_cast, mulm_cast]
      linear_combination h1 - (((lastR / r : Nat)) : ZMod M127) * h2 - hdm
    obtain ⟨i1, i2, i3⟩ := ih h2 hstep h4 (subm_lt _ _ M127_pos)
    refine ⟨?_, i2, i3⟩
    rw [i1, Nat.gcd_comm r, ← Nat.gcd_rec, Nat.gcd_comm]

/-- two canonical residues with the same class are equal -/
theorem eq_of_cast_eq {a b : Nat} (ha : a < M127) (hb : b < M127)
    (h : ((a : Nat) : ZMod M127) = ((b : Nat) : ZMod M127)) : a = b := by
  rw [ZMod.natCast_eq_natCast_iff', Nat.mod_eq_of_lt ha, Nat.mod_eq_of_lt hb] at h
  exact h

/-- ★ `Reducer::inv` on a non-zero reduced operand returns THE inverse in `[0, M127)`. -/
theorem inv_eq {a : Nat} (ha : a < M127) (h0 : a ≠ 0) : Mersenne.inv a = some (invMod a) := by
  unfold Mersenne.inv Mersenne.invm
  rw [modulus_eq_M127]
  have hx : (if a ≥ M127 then a % M127 else a) = a := if_neg (by omega)
  simp only [hx]
  obtain ⟨i1, i2, i3⟩ := invLoop_spec a M127 a 0 1
    (by rw [Nat.cast_zero, zero_mul, ZMod.natCast_self])
    (by rw [Nat.cast_one, one_mul]) M127_pos M127_prime.one_lt
  have hg : Nat.gcd M127 a = 1 :=
    (Nat.Prime.coprime_iff_not_dvd M127_prime).mpr fun hd =>
      absurd (Nat.le_of_dvd (Nat.pos_of_ne_zero h0) hd) (by omega)
  rw [hg] at i1
  rw [i1, Nat.cast_one] at i2
  rw [if_neg (by omega)]
  congr 1
  apply eq_of_cast_eq i3 (invMod_lt a)
  rw [invMod_cast]
  exact eq_inv_of_mul_eq_one_left i2

/-- ★ `Reducer::inv` of `0` is `None`. -/
theorem inv_zero : Mersenne.inv 0 = none := by
  unfold Mersenne.inv Mersenne.invm
  rw [modulus_eq_M127]
  have hx : (if 0 ≥ M127 then 0 % M127 else 0) = 0 := if_neg (by have := M127_pos; omega)
  simp only [hx]
  rw [Mersenne.invLoop, if_pos rfl]
  exact if_pos M127_prime.one_lt

/-! ## the `NumHash` impls through `FixedMersenneInt<127, 1>` -/

theorem mul_mod_eq (a b : Nat) :
    Mersenne.mul (a % M127) (b % M127) = (a % M127) * (b % M127) % M127 :=
  mul_eq (Nat.mod_lt _ M127_pos) (Nat.mod_lt _ M127_pos)

/-- the residue of the significand / numerator is already reduced -/
theorem natAbs_tmod_lt (s : Int) : (Int.tmod s (M127 : Int)).natAbs < M127 := by
  rw [tmod_M127, natAbs_sg_mul]; exact Nat.mod_lt _ M127_pos

theorem floatExpHash_lt (B : Nat) (e : Int) : floatExpHash B e < M127 := by
  unfold floatExpHash
  split
  · exact Nat.mod_lt _ M127_pos
  · split
    · exact invMod_lt _
    · rw [powMod_eq]; exact Nat.mod_lt _ M127_pos

/-- a power of a base in `[2, M127)` is a unit modulo the prime `M127` -/
theorem pow_mod_ne_zero {B : Nat} (hB : 2 ≤ B) (hBM : B < M127) (k : Nat) : B ^ k % M127 ≠ 0 := by
  intro h
  have h1 : M127 ∣ B ^ k := Nat.dvd_of_mod_eq_zero h
  have h2 : M127 ∣ B := M127_prime.dvd_of_dvd_pow h1
  have := Nat.le_of_dvd (by omega) h2
  omega

/-- the exponent hash of the float impl: the `inv().unwrap()` never panics for `2 ≤ B < M127` -/
theorem floatExpHashM_eq {B : Nat} (hB : 2 ≤ B) (hBM : B < M127) (e : Int) :
    (if B = 2 then some (Mersenne.reduceSingle (2 ^ (e % 127).toNat))
      else if e < 0 then Mersenne.inv (Mersenne.pow (Mersenne.reduceSingle B) (-e).toNat)
      else some (Mersenne.pow (Mersenne.reduceSingle B) e.toNat)) = some (floatExpHash B e) := by
  unfold floatExpHash
  by_cases h2 : B = 2
  · rw [if_pos h2, if_pos h2, reduceSingle_eq]
  · rw [if_neg h2, if_neg h2, reduceSingle_of_lt hBM, Nat.mod_eq_of_lt hBM]
    by_cases he : e < 0
    · rw [if_pos he, if_pos he, pow_eq hBM, powMod_eq,
        inv_eq (Nat.mod_lt _ M127_pos) (pow_mod_ne_zero hB hBM _)]
    · rw [if_neg he, if_neg he, pow_eq hBM, powMod_eq]

/-- ★ the float impl through `FixedMersenneInt` never panics for `2 ≤ B < M127` and feeds
    `floatHash`. -/
theorem floatHashM_eq {B : Nat} (hB : 2 ≤ B) (hBM : B < M127) (s e : Int) :
    floatHashM B s e = some (floatHash B s e) := by
  unfold floatHashM
  simp only []
  rw [floatExpHashM_eq hB hBM e, Option.map_some, reduceSingle_of_lt (natAbs_tmod_lt s),
    mul_eq (natAbs_tmod_lt s) (floatExpHash_lt B e), floatHash_unfold]

/-- ★ the rational impl (stored parts) through `FixedMersenneInt` never panics and feeds
    `ratHashPre`. -/
theorem ratHashPreM_eq (n : Int) (d : Nat) : ratHashPreM n d = some (ratHashPre n d) := by
  unfold ratHashPreM ratHashPre
  simp only []
  by_cases h : d % M127 = 0
  · rw [if_pos h, if_pos h]
  · have hlt : d % M127 < M127 := Nat.mod_lt _ M127_pos
    rw [if_neg h, if_neg h, reduceSingle_of_lt hlt, inv_eq hlt h, Option.map_some,
      reduceSingle_of_lt (natAbs_tmod_lt n), mul_eq (natAbs_tmod_lt n) (invMod_lt _)]

/-- ★ the rational impl (current code) through `FixedMersenneInt` never panics and feeds `ratHash`. -/
theorem ratHashM_eq (n : Int) (d : Nat) : ratHashM n d = some (ratHash n d) := by
  unfold ratHashM ratHash
  exact ratHashPreM_eq _ _

/-- ★ the `f32`/`f64` impl through `FixedMersenneInt` feeds `primFloatHash`. -/
theorem primFloatHashM_eq (t : FloatTy) (bits : Nat) :
    primFloatHashM t bits = primFloatHash t bits := by
  unfold primFloatHashM primFloatHash
  simp only [reduceSingle_eq, mul_mod_eq]

/-- ★ on well-formed input the mirrored `num_hash` never panics and feeds exactly `numHashFeed`. -/
theorem numHashFeedM_eq {x : Num} (hx : x.HashOK) : numHashFeedM x = some (numHashFeed x) := by
  cases x with
  | ubig a => rfl
  | ibig a => rfl
  | fbig B s e p => exact floatHashM_eq hx.1 hx.2 s e
  | rbig a b => exact ratHashM_eq a b
  | relaxed a b => exact ratHashM_eq a b
  | pint t v => rfl
  | pfloat t b => exact congrArg some (primFloatHashM_eq t b)

/-- ★ MAIN (executable feed): two well-formed numbers with the same finite value make the mirrored
    `num_hash` write the same `i128`, without panicking. -/
theorem numHashM_value {x y : Num} (hx : x.HashOK) (hy : y.HashOK)
    {n1 n2 : Int} {d1 d2 : Nat} (vx : x.value = .fin n1 d1) (vy : y.value = .fin n2 d2)
    (h : n1 * d2 = n2 * d1) : numHashFeedM x = numHashFeedM y ∧ (numHashFeedM x).isSome := by
  rw [numHashFeedM_eq hx, numHashFeedM_eq hy, numHash_value hx hy vx vy h]
  exact ⟨rfl, rfl⟩

end Dashu.Model.Cross
