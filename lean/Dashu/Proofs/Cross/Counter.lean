import Dashu.Proofs.Cross.OracleSound
import Dashu.Proofs.Cross.Filter
import Dashu.Model.Cross.Pre
/-
  C14 proofs — AS-IS statements about the code BEFORE fix 2670e13 (`Model/Cross/Pre.lean`): concrete
  inputs on which the old `AbsOrd` between FBig and UBig/IBig, run with a SOUND oracle, contradicts
  the specification (corpus/C14/float_abs_negative.case reproduced them on the real code).
-/
namespace Dashu.Model.Cross

/-- `FBig(-5).abs_cmp(UBig 5)` is `Less` (required: `Equal`) -/
theorem floatReprCmpUbigPre_abs_counterexample :
    Oracle.noFilter.Sound ∧ floatReprCmpUbigPre Oracle.noFilter true 2 (-5) 0 5 = .lt ∧
      XVal.absCmp (Num.fbig 2 (-5) 0 3).value (Num.ubig 5).value = some .eq :=
  ⟨Oracle.noFilter_sound, by decide, by decide⟩

/-- `FBig(5).abs_cmp(IBig -5)` is `Greater` (required: `Equal`) -/
theorem floatReprCmpIbigPre_abs_counterexample :
    Oracle.noFilter.Sound ∧ floatReprCmpIbigPre Oracle.noFilter true 2 5 0 (-5) = .gt ∧
      XVal.absCmp (Num.fbig 2 5 0 3).value (Num.ibig (-5)).value = some .eq :=
  ⟨Oracle.noFilter_sound, by decide, by decide⟩

/-- the same with the bit-length oracle the driver uses: the estimates of 5 and -5 overlap -/
theorem floatReprCmpUbigPre_abs_counterexample_coarse :
    Oracle.coarse.Sound ∧ floatReprCmpUbigPre Oracle.coarse true 2 (-5) 0 5 = .lt :=
  ⟨Oracle.coarse_sound, by decide +kernel⟩

end Dashu.Model.Cross
