import Dashu.Proofs.Cross.OracleSound
import Dashu.Proofs.Cross.Filter
/-
  C14 proofs — the hypotheses of the `…_partial` theorems about `AbsOrd` between FBig and UBig/IBig
  are needed: concrete inputs on which the mirrored code, run with a SOUND oracle, contradicts the
  specification (these are the recorded defects; the same inputs fail on the real code, see
  corpus/C14/float_abs_negative.case).
-/
namespace Dashu.Model.Cross

/-- `FBig(-5).abs_cmp(UBig 5)` is `Less` (required: `Equal`) -/
theorem floatReprCmpUbig_abs_counterexample :
    Oracle.noFilter.Sound ∧ floatReprCmpUbig Oracle.noFilter true 2 (-5) 0 5 = .lt ∧
      XVal.absCmp (Num.fbig 2 (-5) 0 3).value (Num.ubig 5).value = some .eq :=
  ⟨Oracle.noFilter_sound, by decide, by decide⟩

/-- `FBig(5).abs_cmp(IBig -5)` is `Greater` (required: `Equal`) -/
theorem floatReprCmpIbig_abs_counterexample :
    Oracle.noFilter.Sound ∧ floatReprCmpIbig Oracle.noFilter true 2 5 0 (-5) = .gt ∧
      XVal.absCmp (Num.fbig 2 5 0 3).value (Num.ibig (-5)).value = some .eq :=
  ⟨Oracle.noFilter_sound, by decide, by decide⟩

/-- the same with the bit-length oracle the driver uses: the estimates of 5 and -5 overlap -/
theorem floatReprCmpUbig_abs_counterexample_coarse :
    Oracle.coarse.Sound ∧ floatReprCmpUbig Oracle.coarse true 2 (-5) 0 5 = .lt :=
  ⟨Oracle.coarse_sound, by decide +kernel⟩

end Dashu.Model.Cross
