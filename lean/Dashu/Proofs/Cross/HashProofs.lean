import Dashu.Model.Cross.Hash
import Mathlib.NumberTheory.LucasLehmer
import Mathlib.FieldTheory.Finite.Basic
import Mathlib.Data.ZMod.Basic
import Mathlib.Tactic.Ring
import Mathlib.Tactic.Linarith
import Mathlib.Tactic.FieldSimp
/-
  C14 proofs — `NumHash`: numerically equal numbers feed the same `i128` to the hasher.

  Everything is reduced to one closed formula, `hashQ n d` ("sign of `n` times the residue of
  `|n| / d` in the field `ZMod (2^127 - 1)`"), which is a function of the value `n / d` as soon as
  `M127 ∤ d` (`hashQ_welldef`).  Each impl of the model is shown to be `hashQ` of the exact value
  (`numHashFeedPre_eq_hashQ`), which gives the main theorem `numHashPre_value`.  The last section is the
  `M127 ∣ denominator` corner: the stored-parts rational hash is NOT a function of the value
  (`ratHashPre_corner_counterexample`), the canonical one is (`ratHash_value`).
-/
namespace Dashu.Model.Cross

/-! ## the modulus -/

theorem M127_eq : M127 = 2 ^ 127 - 1 := rfl

/-- `M127 = 2^127 - 1` is prime (Lucas–Lehmer). -/
theorem M127_prime : Nat.Prime M127 := by
  have h : (mersenne 127).Prime := lucas_lehmer_sufficiency _ (by simp) (by norm_num)
  exact h

instance M127_fact : Fact (Nat.Prime M127) := ⟨M127_prime⟩

theorem M127_pos : 0 < M127 := M127_prime.pos
theorem M127_two_le : 2 ≤ M127 := M127_prime.two_le
theorem M127_val : M127 = 170141183460469231731687303715884105727 := by decide
theorem M127_cast : (M127 : Int) = 2 ^ 127 - 1 := by
  rw [M127_val]; norm_num

/-! ## `powMod`, `invMod` -/

/-- `powMod` is the modular power. -/
theorem powMod_eq (a e m : Nat) : powMod a e m = a ^ e % m := by
  induction e using Nat.strong_induction_on with
  | _ e ih =>
    rw [powMod]
    by_cases h0 : e = 0
    · simp [h0]
    · have hk := ih (e / 2) (by omega)
      have hpow : a ^ e = a ^ (e / 2) * a ^ (e / 2) * a ^ (e % 2) := by
        rw [← pow_add, ← pow_add]; congr 1; omega
      simp only [h0, if_false, hk]
      by_cases h1 : e % 2 = 1
      · simp only [h1, if_true]
        rw [hpow, h1, pow_one]
        simp [Nat.mul_mod]
      · have h2 : e % 2 = 0 := by omega
        simp only [h1, if_false]
        rw [hpow, h2, pow_zero, mul_one]
        simp [Nat.mul_mod]

theorem invMod_eq (a : Nat) : invMod a = a ^ (M127 - 2) % M127 := powMod_eq _ _ _

/-- `invMod` lands in `[0, M127)`. -/
theorem invMod_lt (a : Nat) : invMod a < M127 := by
  rw [invMod_eq]; exact Nat.mod_lt _ M127_pos

/-- in the field `ZMod M127`, `invMod` is the inverse (also at `0`, where both sides are `0`) -/
theorem invMod_cast (a : Nat) : ((invMod a : Nat) : ZMod M127) = ((a : Nat) : ZMod M127)⁻¹ := by
  rw [invMod_eq, ZMod.natCast_mod, Nat.cast_pow]
  by_cases ha : ((a : Nat) : ZMod M127) = 0
  · rw [ha, inv_zero, zero_pow]
    have := M127_val; omega
  · apply eq_inv_of_mul_eq_one_left
    rw [← pow_succ]
    have h : M127 - 2 + 1 = M127 - 1 := by have := M127_val; omega
    rw [h]
    exact ZMod.pow_card_sub_one_eq_one ha

/-- `invMod a` is the inverse of `a` modulo `M127` (Fermat). -/
theorem invMod_spec {a : Nat} (h : a % M127 ≠ 0) : a * invMod a % M127 = 1 := by
  have ha : ((a : Nat) : ZMod M127) ≠ 0 := by
    rw [Ne, ZMod.natCast_eq_zero_iff, Nat.dvd_iff_mod_eq_zero]; exact h
  have h1 : ((a * invMod a : Nat) : ZMod M127) = ((1 : Nat) : ZMod M127) := by
    rw [Nat.cast_mul, invMod_cast, Nat.cast_one, mul_inv_cancel₀ ha]
  rw [ZMod.natCast_eq_natCast_iff'] at h1
  rw [h1]; exact Nat.mod_eq_of_lt M127_prime.one_lt

/-! ## signed residues -/

/-- `±` the canonical representative of a residue -/
def sres (neg : Prop) [Decidable neg] (z : ZMod M127) : Int :=
  (if neg then -1 else 1) * ((z.val : Nat) : Int)

theorem mod_eq_val (x : Nat) : x % M127 = ((x : Nat) : ZMod M127).val :=
  (ZMod.val_natCast _ _).symm

theorem sres_congr {p q : Prop} [Decidable p] [Decidable q] {z : ZMod M127}
    (h : (p ↔ q) ∨ z = 0) : sres p z = sres q z := by
  rcases h with h | h
  · unfold sres; simp only [h]
  · subst h; simp [sres]

theorem sres_zero {p : Prop} [Decidable p] : sres p 0 = 0 := by simp [sres]

theorem natCast_ne_zero {b : Nat} (h : ¬ M127 ∣ b) : ((b : Nat) : ZMod M127) ≠ 0 := by
  rwa [Ne, ZMod.natCast_eq_zero_iff]

theorem natCast_ne_zero_of_lt {b : Nat} (h0 : 0 < b) (h : b < M127) :
    ((b : Nat) : ZMod M127) ≠ 0 :=
  natCast_ne_zero fun hd => absurd (Nat.le_of_dvd h0 hd) (by omega)

/-- `i128::num_hash` is the identity strictly inside `(-M127, M127)` -/
theorem i128NumHash_of_lt {v : Int} (h1 : -(M127 : Int) < v) (h2 : v < (M127 : Int)) :
    i128NumHash v = v := by
  rw [M127_cast] at h1 h2
  unfold i128NumHash
  rw [if_neg (by omega), if_neg (by omega)]

/-- a signed reduced residue passes through `i128::num_hash` unchanged -/
theorem i128NumHash_signed (c : Prop) [Decidable c] (x : Nat) :
    i128NumHash (if c then -((x % M127 : Nat) : Int) else ((x % M127 : Nat) : Int))
      = sres c ((x : Nat) : ZMod M127) := by
  have hlt : x % M127 < M127 := Nat.mod_lt _ M127_pos
  rw [i128NumHash_of_lt (by split <;> omega) (by split <;> omega)]
  unfold sres
  rw [← mod_eq_val]
  split <;> simp

/-- truncated remainder by `M127`: sign of the dividend times `|dividend| mod M127` -/
theorem tmod_M127 (s : Int) :
    Int.tmod s (M127 : Int) = (if s < 0 then -1 else 1) * ((s.natAbs % M127 : Nat) : Int) := by
  rcases s with n | n
  · have : ¬ (Int.ofNat n < 0) := by simp
    simp only [this, if_false, one_mul]
    rfl
  · have : (Int.negSucc n < 0) := Int.negSucc_lt_zero n
    simp only [this, if_true]
    show -((((n + 1) % M127 : Nat)) : Int) = _
    simp

/-! ## the canonical hash of a fraction -/

/-- canonical hash of the fraction `n / d`: the sign of `n` times the representative in `[0, M127)`
    of `|n| · d⁻¹ (mod M127)` -/
def hashQ (n : Int) (d : Nat) : Int :=
  (if n < 0 then -1 else 1) * (((n.natAbs % M127) * invMod (d % M127) % M127 : Nat) : Int)

theorem hashQ_val (n : Int) (d : Nat) :
    hashQ n d = sres (n < 0) (((n.natAbs : Nat) : ZMod M127) * ((d : Nat) : ZMod M127)⁻¹) := by
  unfold hashQ sres
  rw [mod_eq_val (_ * _)]
  simp only [Nat.cast_mul, ZMod.natCast_mod, invMod_cast]

theorem hashQ_one (n : Int) : hashQ n 1 = (if n < 0 then -1 else 1) * ((n.natAbs % M127 : Nat) : Int) := by
  rw [hashQ_val]; unfold sres
  rw [Nat.cast_one, inv_one, mul_one, ← mod_eq_val]

/-- `hashQ` is a function of the value `n / d` on fractions whose denominator is prime to `M127`. -/
theorem hashQ_welldef {n1 n2 : Int} {d1 d2 : Nat} (h1 : ¬ M127 ∣ d1) (h2 : ¬ M127 ∣ d2)
    (h : n1 * d2 = n2 * d1) : hashQ n1 d1 = hashQ n2 d2 := by
  have hd1 : 0 < d1 := Nat.pos_of_ne_zero fun h0 => h1 (h0 ▸ dvd_zero _)
  have hd2 : 0 < d2 := Nat.pos_of_ne_zero fun h0 => h2 (h0 ▸ dvd_zero _)
  have z1 := natCast_ne_zero h1
  have z2 := natCast_ne_zero h2
  have hd1' : (0 : Int) < d1 := by exact_mod_cast hd1
  have hd2' : (0 : Int) < d2 := by exact_mod_cast hd2
  have hsign : n1 < 0 ↔ n2 < 0 := by
    constructor
    · intro hn
      by_contra hc
      have : n1 * d2 < 0 := mul_neg_of_neg_of_pos hn hd2'
      have : 0 ≤ n2 * d1 := mul_nonneg (by omega) hd1'.le
      omega
    · intro hn
      by_contra hc
      have : n2 * d1 < 0 := mul_neg_of_neg_of_pos hn hd1'
      have : 0 ≤ n1 * d2 := mul_nonneg (by omega) hd2'.le
      omega
  have habs : n1.natAbs * d2 = n2.natAbs * d1 := by
    have := congrArg Int.natAbs h
    simpa [Int.natAbs_mul] using this
  have hz : ((n1.natAbs : Nat) : ZMod M127) * ((d2 : Nat) : ZMod M127)
      = ((n2.natAbs : Nat) : ZMod M127) * ((d1 : Nat) : ZMod M127) := by
    exact_mod_cast congrArg (Nat.cast : Nat → ZMod M127) habs
  rw [hashQ_val, hashQ_val, sres_congr (Or.inl hsign)]
  congr 1
  field_simp
  rw [hz, mul_comm]

/-! ## each impl feeds `hashQ` of the value -/

theorem natAbs_sg_mul (s : Int) (x : Nat) :
    ((if s < 0 then -1 else 1) * (x : Int)).natAbs = x := by
  split <;> simp

/-- `UBig` feeds `hashQ` of its value. -/
theorem ubigHash_eq (n : Nat) : ubigHash n = hashQ n 1 := by
  rw [hashQ_one]; unfold ubigHash
  have : ¬ ((n : Int) < 0) := by omega
  simp [this]

/-- `IBig` feeds `hashQ` of its value. -/
theorem ibigHash_eq (i : Int) : ibigHash i = hashQ i 1 := by
  rw [hashQ_one]; exact tmod_M127 i

theorem two_pow_127 : (2 : ZMod M127) ^ 127 = 1 := by
  have h : (2 ^ 127 : Nat) = M127 + 1 := by rw [M127_val]; norm_num
  have := congrArg (Nat.cast : Nat → ZMod M127) h
  rwa [Nat.cast_pow, Nat.cast_ofNat, Nat.cast_add, ZMod.natCast_self, zero_add, Nat.cast_one]
    at this

theorem two_ne_zero_M127 : (2 : ZMod M127) ≠ 0 := by
  have := natCast_ne_zero_of_lt (b := 2) (by norm_num) (by rw [M127_val]; norm_num)
  simpa using this

theorem two_zpow_emod (e : Int) : (2 : ZMod M127) ^ (e % 127) = 2 ^ e := by
  conv_rhs => rw [← Int.emod_add_mul_ediv e 127]
  rw [zpow_add₀ two_ne_zero_M127, zpow_mul]
  have : (2 : ZMod M127) ^ (127 : Int) = 1 := by exact_mod_cast two_pow_127
  rw [this, one_zpow, mul_one]

/-- the base-2 exponent hash `2^(e mod 127) mod M127` is `2^e` in the field -/
theorem two_pow_emod_cast (e : Int) :
    (((2 ^ (e % 127).toNat) % M127 : Nat) : ZMod M127) = (2 : ZMod M127) ^ e := by
  rw [ZMod.natCast_mod, Nat.cast_pow, Nat.cast_ofNat, ← two_zpow_emod e, ← zpow_natCast,
    Int.toNat_of_nonneg (Int.emod_nonneg _ (by norm_num))]

/-- the `expHash` of `floatHash` -/
def floatExpHash (B : Nat) (e : Int) : Nat :=
  if B = 2 then (2 ^ (e % 127).toNat) % M127
  else if e < 0 then invMod (powMod (B % M127) (-e).toNat M127)
  else powMod (B % M127) e.toNat M127

theorem floatHash_unfold (B : Nat) (s e : Int) : floatHash B s e =
    i128NumHash (if Int.tmod s (M127 : Int) < 0
      then -(((Int.tmod s (M127 : Int)).natAbs * floatExpHash B e % M127 : Nat) : Int)
      else (((Int.tmod s (M127 : Int)).natAbs * floatExpHash B e % M127 : Nat) : Int)) := rfl

theorem floatExpHash_cast (B : Nat) (e : Int) :
    ((floatExpHash B e : Nat) : ZMod M127) = ((B : Nat) : ZMod M127) ^ e := by
  unfold floatExpHash
  by_cases h2 : B = 2
  · subst h2
    simp only [if_true]
    rw [two_pow_emod_cast, Nat.cast_ofNat]
  · simp only [h2, if_false]
    by_cases he : e < 0
    · simp only [he, if_true]
      rw [invMod_cast, powMod_eq, ZMod.natCast_mod, Nat.cast_pow, ZMod.natCast_mod]
      have : e = -(((-e).toNat : Nat) : Int) := by omega
      conv_rhs => rw [this, zpow_neg, zpow_natCast]
    · simp only [he, if_false]
      rw [powMod_eq, ZMod.natCast_mod, Nat.cast_pow, ZMod.natCast_mod]
      have : e = ((e.toNat : Nat) : Int) := by omega
      conv_rhs => rw [this, zpow_natCast]

theorem sres_congr' {p q : Prop} [Decidable p] [Decidable q] {z : ZMod M127}
    (h : z ≠ 0 → (p ↔ q)) : sres p z = sres q z := by
  apply sres_congr
  by_cases hz : z = 0
  · exact Or.inr hz
  · exact Or.inl (h hz)

theorem floatHash_sres (B : Nat) (s e : Int) :
    floatHash B s e = sres (s < 0) (((s.natAbs : Nat) : ZMod M127) * ((B : Nat) : ZMod M127) ^ e) := by
  rw [floatHash_unfold, i128NumHash_signed, tmod_M127, natAbs_sg_mul, Nat.cast_mul,
    ZMod.natCast_mod, floatExpHash_cast]
  apply sres_congr'
  intro hz
  have hx : s.natAbs % M127 ≠ 0 := by
    intro hx
    apply hz
    have : ((s.natAbs : Nat) : ZMod M127) = 0 := by
      rw [ZMod.natCast_eq_zero_iff, Nat.dvd_iff_mod_eq_zero]; exact hx
    rw [this, zero_mul]
  by_cases hs : s < 0
  · simp only [hs, if_true, iff_true]; omega
  · simp only [hs, if_false, iff_false]; omega

theorem hashQ_floatFrac {B : Nat} (hB : 0 < B) (s e : Int) :
    hashQ (floatFrac B s e).1 (floatFrac B s e).2
      = sres (s < 0) (((s.natAbs : Nat) : ZMod M127) * ((B : Nat) : ZMod M127) ^ e) := by
  unfold floatFrac
  by_cases he : e < 0
  · simp only [he, if_true]
    rw [hashQ_val, Nat.cast_pow]
    have : e = -(((-e).toNat : Nat) : Int) := by omega
    conv_rhs => rw [this, zpow_neg, zpow_natCast]
  · simp only [he, if_false]
    rw [hashQ_val, Nat.cast_one, inv_one, mul_one]
    have hp : (0 : Int) < (B : Int) ^ e.toNat := pow_pos (by exact_mod_cast hB) _
    have hs : s * (B : Int) ^ e.toNat < 0 ↔ s < 0 := by
      constructor
      · intro h; by_contra hc; have := mul_nonneg (not_lt.mp hc) hp.le; omega
      · intro h; exact mul_neg_of_neg_of_pos h hp
    rw [sres_congr (Or.inl hs)]
    congr 1
    rw [Int.natAbs_mul, Int.natAbs_pow, Int.natAbs_natCast, Nat.cast_mul, Nat.cast_pow]
    have : e = ((e.toNat : Nat) : Int) := by omega
    conv_rhs => rw [this, zpow_natCast]

set_option linter.unusedVariables false in
/-- `FBig`/`Repr<B>` feeds `hashQ` of its value `s · B^e`. -/
theorem floatHash_eq {B : Nat} (hB : 2 ≤ B) (hBM : B < M127) (s e : Int) :
    floatHash B s e = hashQ (floatFrac B s e).1 (floatFrac B s e).2 := by
  rw [floatHash_sres, hashQ_floatFrac (by omega)]

theorem not_dvd_one : ¬ M127 ∣ 1 := fun h => absurd (Nat.le_of_dvd Nat.one_pos h) (by
  have := M127_two_le; omega)

/-- the denominator of a float's value is prime to `M127` -/
theorem floatFrac_den_not_dvd {B : Nat} (hB : 2 ≤ B) (hBM : B < M127) (s e : Int) :
    ¬ M127 ∣ (floatFrac B s e).2 := by
  unfold floatFrac
  split
  · intro h
    have := M127_prime.dvd_of_dvd_pow h
    have := Nat.le_of_dvd (by omega) this
    omega
  · exact not_dvd_one

/-- `RBig`/`Relaxed` feed `hashQ` of the stored fraction when `M127 ∤ den`. -/
theorem ratHashPre_eq {n : Int} {d : Nat} (h : ¬ M127 ∣ d) : ratHashPre n d = hashQ n d := by
  have hub : d % M127 ≠ 0 := by rwa [Ne, ← Nat.dvd_iff_mod_eq_zero]
  unfold ratHashPre
  simp only [hub, if_false]
  rw [i128NumHash_signed, hashQ_val, tmod_M127, natAbs_sg_mul, Nat.cast_mul, ZMod.natCast_mod,
    invMod_cast, ZMod.natCast_mod]

/-- primitive integers feed `hashQ` of their value. -/
theorem pintHash_eq (t : PrimInt) (v : Int) (h : t.inRange v = true) :
    numHashFeedPre (.pint t v) = hashQ v 1 := by
  rw [hashQ_one, M127_val]
  cases t <;>
    simp only [PrimInt.inRange, PrimInt.signed, PrimInt.bits, Bool.and_eq_true, if_true, if_false,
      Bool.false_eq_true] at h <;>
    obtain ⟨h1, h2⟩ := h <;>
    replace h1 := of_decide_eq_true h1 <;>
    replace h2 := of_decide_eq_true h2 <;>
    simp only [numHashFeedPre, i128NumHash, u128NumHash, M127_val] <;>
    split_ifs <;> omega

set_option linter.unusedVariables false in
/-- `f32`/`f64` feed `hashQ` of their exact value (num-order shifts a subnormal mantissa left by one
    and keeps the exponent one lower than IEEE; same value). -/
theorem primFloatHash_eq (t : FloatTy) (bits : Nat) (hb : bits < 2 ^ (t.mantBits + t.expBits + 1))
    {m e : Int} (h : decode t bits = .fin m e) :
    primFloatHash t bits = hashQ (floatFrac 2 m e).1 (floatFrac 2 m e).2 := by
  unfold decode at h
  unfold primFloatHash
  simp only [] at h ⊢
  have hsb2 : (bits >>> (t.mantBits + t.expBits)) % 2 < 2 := Nat.mod_lt _ (by norm_num)
  generalize (bits >>> (t.mantBits + t.expBits)) % 2 = sb at h hsb2 ⊢
  generalize (bits >>> t.mantBits) % 2 ^ t.expBits = ex at h ⊢
  have hmant : bits % 2 ^ t.mantBits < 2 ^ t.mantBits := Nat.mod_lt _ (Nat.two_pow_pos _)
  generalize bits % 2 ^ t.mantBits = mant at h hmant ⊢
  by_cases hinf : ex = 2 ^ t.expBits - 1
  · rw [if_pos hinf] at h
    split at h <;> cases h
  · rw [if_neg hinf] at h ⊢
    injection h with hm he
    -- the two sides as signed residues
    have hsb : (sb = 0) ↔ ¬ (sb = 1) := by omega
    simp only [hsb, ite_not]
    rw [i128NumHash_signed, hashQ_floatFrac (by norm_num), Nat.cast_mul, ZMod.natCast_mod,
      two_pow_emod_cast, Nat.cast_ofNat]
    -- the residues agree
    have hz : (((if ex = 0 then mant <<< 1 else mant ||| 2 ^ t.mantBits : Nat) : Nat) : ZMod M127)
        * (2 : ZMod M127) ^ ((ex : Int) - ((t.bias + t.mantBits : Nat) : Int))
        = ((m.natAbs : Nat) : ZMod M127) * (2 : ZMod M127) ^ e := by
      have hna : m.natAbs = if ex = 0 then mant else mant + 2 ^ t.mantBits := by
        rw [← hm]; split <;> simp only [Int.natAbs_neg, Int.natAbs_natCast]
      rw [hna, ← he]
      by_cases h0 : ex = 0
      · simp only [h0, if_true]
        have hee : (1 : Int) - (t.bias : Int) - (t.mantBits : Int)
            = (((0 : Nat) : Int) - ((t.bias + t.mantBits : Nat) : Int)) + 1 := by
          push_cast; ring
        rw [hee, zpow_add_one₀ two_ne_zero_M127, Nat.shiftLeft_eq, pow_one, Nat.cast_mul,
          Nat.cast_ofNat]
        ring
      · simp only [h0, if_false]
        rw [Nat.or_two_pow_eq_add_of_lt hmant]
        congr 2
        push_cast; ring
    rw [hz]
    apply sres_congr'
    intro hne
    have hm0 : m.natAbs ≠ 0 := by
      intro hx; apply hne; rw [hx, Nat.cast_zero, zero_mul]
    generalize (if ex = 0 then mant else mant + 2 ^ t.mantBits : Nat) = mm at hm
    subst hm
    by_cases h1 : sb = 1
    · simp only [h1, if_true, true_iff] at hm0 ⊢; omega
    · simp only [h1, if_false, false_iff] at hm0 ⊢; omega

/-! ## main theorem: equal values feed equal `i128`s -/

/-- well-formedness of a protocol number for hashing (type invariants of the Rust side, plus
    `M127 ∤ den` for the rationals — see the last section for what happens without it) -/
def Num.HashOKPre : Num → Prop
  | .fbig B _ _ _ => 2 ≤ B ∧ B < M127
  | .rbig _ d => 0 < d ∧ ¬ M127 ∣ d
  | .relaxed _ d => 0 < d ∧ ¬ M127 ∣ d
  | .pint t v => t.inRange v = true
  | .pfloat t bits => bits < 2 ^ (t.mantBits + t.expBits + 1)
  | _ => True

/-- every well-formed finite number feeds `hashQ` of its exact value, whose denominator is prime
    to `M127` -/
theorem numHashFeedPre_eq_hashQ {x : Num} (hx : x.HashOKPre) {n : Int} {d : Nat}
    (vx : x.value = .fin n d) : numHashFeedPre x = hashQ n d ∧ ¬ M127 ∣ d := by
  cases x with
  | ubig a =>
    simp only [Num.value, XVal.fin.injEq] at vx
    obtain ⟨rfl, rfl⟩ := vx
    exact ⟨ubigHash_eq a, not_dvd_one⟩
  | ibig i =>
    simp only [Num.value, XVal.fin.injEq] at vx
    obtain ⟨rfl, rfl⟩ := vx
    exact ⟨ibigHash_eq i, not_dvd_one⟩
  | fbig B s e p =>
    obtain ⟨hB, hBM⟩ := hx
    simp only [Num.value] at vx
    by_cases hs : s = 0
    · subst hs
      simp only [if_true] at vx
      by_cases he : e = 0
      · subst he
        simp only [if_true, XVal.fin.injEq] at vx
        obtain ⟨rfl, rfl⟩ := vx
        refine ⟨?_, not_dvd_one⟩
        have h := floatHash_eq hB hBM 0 0
        have hf : floatFrac B 0 0 = (0, 1) := by simp [floatFrac]
        rw [hf] at h
        exact h
      · simp only [he, if_false] at vx
        split at vx <;> cases vx
    · simp only [hs, if_false, XVal.fin.injEq] at vx
      obtain ⟨rfl, rfl⟩ := vx
      exact ⟨floatHash_eq hB hBM s e, floatFrac_den_not_dvd hB hBM s e⟩
  | rbig a b =>
    simp only [Num.value, XVal.fin.injEq] at vx
    obtain ⟨rfl, rfl⟩ := vx
    exact ⟨ratHashPre_eq hx.2, hx.2⟩
  | relaxed a b =>
    simp only [Num.value, XVal.fin.injEq] at vx
    obtain ⟨rfl, rfl⟩ := vx
    exact ⟨ratHashPre_eq hx.2, hx.2⟩
  | pint t v =>
    simp only [Num.value, XVal.fin.injEq] at vx
    obtain ⟨rfl, rfl⟩ := vx
    exact ⟨pintHash_eq t v hx, not_dvd_one⟩
  | pfloat t b =>
    simp only [Num.value] at vx
    cases hdec : decode t b with
    | nan => rw [hdec] at vx; cases vx
    | inf neg =>
      rw [hdec] at vx
      simp only [decodedValue] at vx
      split at vx <;> cases vx
    | fin m e =>
      rw [hdec] at vx
      simp only [decodedValue, XVal.fin.injEq] at vx
      obtain ⟨rfl, rfl⟩ := vx
      exact ⟨primFloatHash_eq t b hx hdec,
        floatFrac_den_not_dvd (le_refl 2) (by rw [M127_val]; norm_num) m e⟩

/-- MAIN: two well-formed numbers with the same finite value feed the same `i128` to the hasher. -/
theorem numHashPre_value {x y : Num} (hx : x.HashOKPre) (hy : y.HashOKPre) {n1 n2 : Int} {d1 d2 : Nat}
    (vx : x.value = .fin n1 d1) (vy : y.value = .fin n2 d2) (h : n1 * d2 = n2 * d1) :
    numHashFeedPre x = numHashFeedPre y := by
  obtain ⟨e1, nd1⟩ := numHashFeedPre_eq_hashQ hx vx
  obtain ⟨e2, nd2⟩ := numHashFeedPre_eq_hashQ hy vy
  rw [e1, e2]
  exact hashQ_welldef nd1 nd2 h

/-! ## the `M127 ∣ denominator` corner -/

/-- when `M127 ∣ den` the stored-parts rational hash is the constant `0` (both `±INF` constants of
    num-order collapse under `i128::num_hash`) -/
theorem ratHashPre_of_dvd {d : Nat} (h : M127 ∣ d) (n : Int) : ratHashPre n d = 0 := by
  have hub : d % M127 = 0 := Nat.mod_eq_zero_of_dvd h
  unfold ratHashPre
  simp only [hub, if_true]
  unfold i128NumHash
  split <;> simp

theorem ratHashPre_zero (d : Nat) : ratHashPre 0 d = 0 := by
  by_cases h : M127 ∣ d
  · exact ratHashPre_of_dvd h 0
  · rw [ratHashPre_eq h, hashQ_val, Int.natAbs_zero, Nat.cast_zero, zero_mul, sres_zero]

/-- The stored-parts hash is NOT a function of the value: `1/1` and the non-reduced `Relaxed`
    `M127/M127` have the same value (`(1 : Int) * M127 = M127 * 1`) and feed `1` resp. `0`. -/
theorem ratHashPre_corner_counterexample :
    numHashFeedPre (.rbig 1 1) ≠ numHashFeedPre (.relaxed (M127 : Int) M127) := by
  have h1 : numHashFeedPre (.rbig 1 1) = 1 := by
    show ratHashPre 1 1 = 1
    rw [ratHashPre_eq not_dvd_one, hashQ_one, M127_val]
    decide
  have h2 : numHashFeedPre (.relaxed (M127 : Int) M127) = 0 := by
    show ratHashPre (M127 : Int) M127 = 0
    exact ratHashPre_of_dvd (dvd_refl _) _
  rw [h1, h2]
  exact one_ne_zero

/-- the two numbers of `ratHashPre_corner_counterexample` have equal values -/
theorem ratHashPre_corner_same_value :
    (Num.rbig 1 1).value = .fin 1 1 ∧ (Num.relaxed (M127 : Int) M127).value = .fin M127 M127 ∧
      (1 : Int) * (M127 : Nat) = (M127 : Int) * (1 : Nat) :=
  ⟨rfl, rfl, by rw [Nat.cast_one, one_mul, mul_one]⟩

theorem stripM_value' (fuel : Nat) (n : Int) (d : Nat) (hd : 0 < d) :
    (stripM fuel n d).1 * d = n * (stripM fuel n d).2 ∧ 0 < (stripM fuel n d).2 := by
  induction fuel generalizing n d with
  | zero => exact ⟨rfl, hd⟩
  | succ k ih =>
    simp only [stripM]
    split
    · rename_i hc
      obtain ⟨_, hdm, hnm⟩ := hc
      have hdM : d = d / M127 * M127 := (Nat.div_mul_cancel (Nat.dvd_of_mod_eq_zero hdm)).symm
      have hdI : (d : Int) = ((d / M127 : Nat) : Int) * (M127 : Int) := by exact_mod_cast hdM
      have hnM : n = n / (M127 : Int) * (M127 : Int) :=
        (Int.ediv_mul_cancel (Int.dvd_of_emod_eq_zero hnm)).symm
      have hd' : 0 < d / M127 :=
        Nat.div_pos (Nat.le_of_dvd hd (Nat.dvd_of_mod_eq_zero hdm)) M127_pos
      obtain ⟨e1, e2⟩ := ih (n / (M127 : Int)) (d / M127) hd'
      refine ⟨?_, e2⟩
      generalize stripM k (n / (M127 : Int)) (d / M127) = p at e1 e2 ⊢
      generalize n / (M127 : Int) = n' at e1 hnM
      linear_combination (M127 : Int) * e1 + p.1 * hdI - (p.2 : Int) * hnM
    · exact ⟨rfl, hd⟩

/-- stripping common factors `M127` keeps the value (and a positive denominator) -/
theorem stripM_value (fuel : Nat) (n : Int) (d : Nat) (hd : 0 < d) :
    let p := stripM fuel n d; p.1 * d = n * p.2 ∧ 0 < p.2 :=
  stripM_value' fuel n d hd

theorem stripM_done' (fuel : Nat) (n : Int) (d : Nat) (hd : 0 < d) (hf : d < 2 ^ fuel) :
    ¬ ((stripM fuel n d).1 ≠ 0 ∧ M127 ∣ (stripM fuel n d).2 ∧
        (M127 : Int) ∣ (stripM fuel n d).1) := by
  induction fuel generalizing n d with
  | zero => simp only [pow_zero] at hf; omega
  | succ k ih =>
    simp only [stripM]
    split
    · rename_i hc
      obtain ⟨_, hdm, _⟩ := hc
      apply ih
      · exact Nat.div_pos (Nat.le_of_dvd hd (Nat.dvd_of_mod_eq_zero hdm)) M127_pos
      · apply Nat.div_lt_of_lt_mul
        have h2 : 2 * 2 ^ k ≤ M127 * 2 ^ k := Nat.mul_le_mul_right _ M127_two_le
        rw [pow_succ] at hf
        omega
    · rename_i hc
      rintro ⟨h1, h2, h3⟩
      exact hc ⟨h1, Nat.mod_eq_zero_of_dvd h2, Int.emod_eq_zero_of_dvd h3⟩

/-- with `bitLen d` fuel no common factor `M127` is left -/
theorem stripM_done {n : Int} {d : Nat} (hd : 0 < d) :
    let p := stripM (bitLen d) n d; ¬ (p.1 ≠ 0 ∧ M127 ∣ p.2 ∧ (M127 : Int) ∣ p.1) := by
  apply stripM_done' _ n d hd
  unfold bitLen
  rw [if_neg (by omega)]
  exact Nat.lt_log2_self

/-- between two fully stripped representations of one value, `M127` divides one denominator only
    if the value is `0` -/
theorem stripped_dvd_key {a a' : Int} {b b' : Nat} (hb : 0 < b)
    (hd : ¬ (a ≠ 0 ∧ M127 ∣ b ∧ (M127 : Int) ∣ a)) (h : a * b' = a' * b)
    (h1 : M127 ∣ b) (h2 : ¬ M127 ∣ b') : a = 0 ∧ a' = 0 := by
  have ha : a = 0 := by
    by_contra ha
    have hna : ¬ M127 ∣ a.natAbs := fun hh => hd ⟨ha, h1, Int.natCast_dvd.mpr hh⟩
    have habs : a.natAbs * b' = a'.natAbs * b := by
      have := congrArg Int.natAbs h
      simpa [Int.natAbs_mul] using this
    have : M127 ∣ a.natAbs * b' := habs ▸ Dvd.dvd.mul_left h1 _
    rcases (Nat.Prime.dvd_mul M127_prime).mp this with h' | h'
    · exact hna h'
    · exact h2 h'
  refine ⟨ha, ?_⟩
  subst ha
  rw [zero_mul] at h
  have hb' : (b : Int) ≠ 0 := by exact_mod_cast hb.ne'
  rcases mul_eq_zero.mp h.symm with h' | h'
  · exact h'
  · exact absurd h' hb'

theorem ratHashPre_value_of_done {a1 a2 : Int} {b1 b2 : Nat} (hb1 : 0 < b1) (hb2 : 0 < b2)
    (hd1 : ¬ (a1 ≠ 0 ∧ M127 ∣ b1 ∧ (M127 : Int) ∣ a1))
    (hd2 : ¬ (a2 ≠ 0 ∧ M127 ∣ b2 ∧ (M127 : Int) ∣ a2))
    (h : a1 * b2 = a2 * b1) : ratHashPre a1 b1 = ratHashPre a2 b2 := by
  by_cases m1 : M127 ∣ b1 <;> by_cases m2 : M127 ∣ b2
  · rw [ratHashPre_of_dvd m1, ratHashPre_of_dvd m2]
  · obtain ⟨rfl, rfl⟩ := stripped_dvd_key hb1 hd1 h m1 m2
    rw [ratHashPre_zero, ratHashPre_zero]
  · obtain ⟨rfl, rfl⟩ := stripped_dvd_key hb2 hd2 h.symm m2 m1
    rw [ratHashPre_zero, ratHashPre_zero]
  · rw [ratHashPre_eq m1, ratHashPre_eq m2]
    exact hashQ_welldef m1 m2 h

/-- the canonical rational hash is a function of the value, for ALL rationals -/
theorem ratHash_value {n1 n2 : Int} {d1 d2 : Nat} (h1 : 0 < d1) (h2 : 0 < d2)
    (h : n1 * d2 = n2 * d1) : ratHash n1 d1 = ratHash n2 d2 := by
  unfold ratHash
  simp only []
  obtain ⟨e1, p1⟩ := stripM_value' (bitLen d1) n1 d1 h1
  obtain ⟨e2, p2⟩ := stripM_value' (bitLen d2) n2 d2 h2
  have q1 := stripM_done (n := n1) h1
  have q2 := stripM_done (n := n2) h2
  simp only [] at q1 q2
  generalize stripM (bitLen d1) n1 d1 = s1 at e1 p1 q1 ⊢
  generalize stripM (bitLen d2) n2 d2 = s2 at e2 p2 q2 ⊢
  apply ratHashPre_value_of_done p1 p2 q1 q2
  have hdd : ((d1 : Int) * (d2 : Int)) ≠ 0 := by
    have a1 : (d1 : Int) ≠ 0 := by exact_mod_cast h1.ne'
    have a2 : (d2 : Int) ≠ 0 := by exact_mod_cast h2.ne'
    exact mul_ne_zero a1 a2
  apply mul_right_cancel₀ hdd
  linear_combination ((s2.2 : Int) * d2) * e1 - ((s1.2 : Int) * d1) * e2 + ((s1.2 : Int) * s2.2) * h

theorem stripM_id {n : Int} {d : Nat} (h : ¬ (M127 ∣ d ∧ (M127 : Int) ∣ n ∧ n ≠ 0)) (fuel : Nat) :
    stripM fuel n d = (n, d) := by
  cases fuel with
  | zero => rfl
  | succ k =>
    simp only [stripM]
    rw [if_neg]
    rintro ⟨h1, h2, h3⟩
    exact h ⟨Nat.dvd_of_mod_eq_zero h2, Int.dvd_of_emod_eq_zero h3, h1⟩

/-- the canonical rational hash is the stored-parts one unless `M127` divides both stored parts -/
theorem ratHash_eq_ratHashPre {n : Int} {d : Nat}
    (h : ¬ (M127 ∣ d ∧ (M127 : Int) ∣ n ∧ n ≠ 0)) : ratHash n d = ratHashPre n d := by
  unfold ratHash
  simp only [stripM_id h]

/-- well-formedness for the canonical feed: as `Num.HashOKPre`, but any positive denominator -/
def Num.HashOK : Num → Prop
  | .rbig _ d => 0 < d
  | .relaxed _ d => 0 < d
  | x => x.HashOKPre

theorem numHashFeed_eq {x : Num} (hx : x.HashOK) {n : Int} {d : Nat}
    (vx : x.value = .fin n d) : numHashFeed x = ratHash n d ∧ 0 < d := by
  have other : ∀ {y : Num}, y.HashOKPre → y.value = .fin n d → numHashFeed y = numHashFeedPre y →
      numHashFeed y = ratHash n d ∧ 0 < d := by
    intro y hy vy hc
    obtain ⟨e, nd⟩ := numHashFeedPre_eq_hashQ hy vy
    refine ⟨?_, Nat.pos_of_ne_zero fun h0 => nd (h0 ▸ dvd_zero _)⟩
    rw [hc, e, ratHash_eq_ratHashPre (fun hh => nd hh.1), ratHashPre_eq nd]
  cases x with
  | rbig a b =>
    simp only [Num.value, XVal.fin.injEq] at vx
    obtain ⟨rfl, rfl⟩ := vx
    exact ⟨rfl, hx⟩
  | relaxed a b =>
    simp only [Num.value, XVal.fin.injEq] at vx
    obtain ⟨rfl, rfl⟩ := vx
    exact ⟨rfl, hx⟩
  | ubig a => exact other hx vx rfl
  | ibig a => exact other hx vx rfl
  | fbig B s e p => exact other hx vx rfl
  | pint t v => exact other hx vx rfl
  | pfloat t b => exact other hx vx rfl

/-- MAIN (canonical feed): two well-formed numbers — rationals with ANY positive denominator —
    with the same finite value feed the same `i128`. -/
theorem numHash_value {x y : Num} (hx : x.HashOK) (hy : y.HashOK)
    {n1 n2 : Int} {d1 d2 : Nat} (vx : x.value = .fin n1 d1) (vy : y.value = .fin n2 d2)
    (h : n1 * d2 = n2 * d1) : numHashFeed x = numHashFeed y := by
  obtain ⟨e1, p1⟩ := numHashFeed_eq hx vx
  obtain ⟨e2, p2⟩ := numHashFeed_eq hy vy
  rw [e1, e2]
  exact ratHash_value p1 p2 h

end Dashu.Model.Cross
