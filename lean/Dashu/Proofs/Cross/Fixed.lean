import Dashu.Proofs.Cross.BitLen
/-
  C14 proofs — `NumOrd<f32/f64>` for UBig, IBig, Repr<B> (FBig) and rational Repr in the CURRENT code
  (after fixes 8a8c152, d12bb0c, 318bce3): full correctness.  Outside the old defect classes the
  current code coincides with the pre-fix code (`Model/Cross/Pre.lean`), whose partial correctness
  is `BitLen.lean`; inside them the new early returns are checked directly.
-/
namespace Dashu.Model.Cross

theorem defectA_false_of {k : Kind} {man exp : Int} (h : ¬ (k.isZero = true ∧ 0 < man)) :
    defectA k man exp = false := by
  unfold defectA
  by_cases hz : k.isZero = true
  · have : ¬ 0 < man := fun hm => h ⟨hz, hm⟩
    simp [hz, this]
  · simp [hz]

theorem floatFrac_num_pos {B : Nat} (hB : 2 ≤ B) {s : Int} (e : Int) (hs : 0 < s) :
    0 < (floatFrac B s e).1 := by
  unfold floatFrac
  split
  · exact hs
  · exact mul_pos hs (pow_pos (by exact_mod_cast (by omega : 0 < B)) _)

/-- zero is below every positive decoded float -/
theorem cmp_zero_pos_decoded {d : Nat} (hd : 0 < d) {man exp : Int} (hm : 0 < man) :
    XVal.cmp (.fin 0 d) (decodedValue (.fin man exp)) = some .lt := by
  simp only [decodedValue, XVal.cmp, Option.some.injEq]
  apply cmpI_lt.2
  have h1 := floatFrac_num_pos (B := 2) le_rfl exp hm
  have h2 : (0 : Int) < (d : Int) := by exact_mod_cast hd
  have := mul_pos h1 h2
  simpa using this

/-- `NumOrd<f32/f64> for UBig`: the order of the exact values (`none` iff NaN) -/
theorem ubigNumOrdFloat_spec (t : FloatTy) (x : Nat) (d : Decoded) (hr : d.InRange t) :
    ubigNumOrdFloat t x d = XVal.cmp (.fin (x : Int) 1) (decodedValue d) := by
  cases d with
  | nan => rfl
  | inf neg => cases neg <;> rfl
  | fin man exp =>
    by_cases hdef : x = 0 ∧ 0 < man
    · obtain ⟨hx, hm⟩ := hdef
      subst hx
      have h0 : man ≠ 0 := by omega
      have h1 : ¬ man < 0 := by omega
      rw [show ((0 : Nat) : Int) = 0 from rfl, cmp_zero_pos_decoded Nat.one_pos hm]
      simp [ubigNumOrdFloat, h0, h1]
    · have e : ubigNumOrdFloat t x (.fin man exp) = ubigNumOrdFloatPre t x (.fin man exp) := by
        unfold ubigNumOrdFloat ubigNumOrdFloatPre
        by_cases h0 : man = 0
        · simp [h0]
        · by_cases h1 : man < 0
          · simp [h0, h1]
          · have hx : x ≠ 0 := fun hx => hdef ⟨hx, by omega⟩
            simp [h0, h1, hx]
      rw [e]
      exact ubigNumOrdFloatPre_partial t x _ hr (fun m e' he => by
        cases he
        exact defectA_false_of (by simpa [Kind.isZero] using hdef))

/-- `NumOrd<f32/f64> for IBig`: the order of the exact values (`none` iff NaN) -/
theorem ibigNumOrdFloat_spec (t : FloatTy) (x : Int) (d : Decoded) (hr : d.InRange t) :
    ibigNumOrdFloat t x d = XVal.cmp (.fin x 1) (decodedValue d) := by
  cases d with
  | nan => rfl
  | inf neg =>
    rcases lt_or_ge x 0 with hx | hx
    · cases neg <;> simp [ibigNumOrdFloat, signMatch, Sign.ofInt_neg.2 hx, decodedValue, XVal.cmp, Sign.app]
    · cases neg <;> simp [ibigNumOrdFloat, signMatch, Sign.ofInt_pos.2 hx, decodedValue, XVal.cmp, Sign.app]
  | fin man exp =>
    by_cases hdef : x = 0 ∧ 0 < man
    · obtain ⟨hx, hm⟩ := hdef
      subst hx
      have h0 : man ≠ 0 := by omega
      rw [cmp_zero_pos_decoded Nat.one_pos hm]
      simp [ibigNumOrdFloat, h0, signMatch, Sign.ofInt_pos.2 (le_refl (0 : Int)), Sign.ofInt_pos.2 hm.le]
    · have e : ibigNumOrdFloat t x (.fin man exp) = ibigNumOrdFloatPre t x (.fin man exp) := by
        unfold ibigNumOrdFloat ibigNumOrdFloatPre
        by_cases h0 : man = 0
        · simp [h0]
        · simp only [h0, if_false]
          cases hm : signMatch (Sign.ofInt x) (Sign.ofInt man) with
          | inr o => rfl
          | inl sg =>
            have hx : x ≠ 0 := by
              intro hx
              subst hx
              rcases signMatch_inl hm with ⟨_, _, h2⟩ | ⟨_, h1, _⟩
              · exact hdef ⟨rfl, by omega⟩
              · omega
            simp [hx]
      rw [e]
      exact ibigNumOrdFloatPre_partial t x _ hr
        (fun m e' he => by
          cases he
          exact defectA_false_of (by simpa [Kind.isZero] using hdef))
        (fun neg he => by cases he)

/-- `NumOrd<f32/f64> for Repr<B>` (FBig): the order of the exact values (`none` iff NaN) -/
theorem reprNumOrdFloat_spec (t : FloatTy) {B : Nat} (hB : 2 ≤ B) (s e : Int) (p : Nat) (d : Decoded)
    (hr : d.InRange t) :
    reprNumOrdFloat t B s e d = XVal.cmp (Num.fbig B s e p).value (decodedValue d) := by
  cases d with
  | nan => exact reprNumOrdFloatPre_partial t hB s e p _ hr (fun m e' he => by cases he)
  | inf neg => exact reprNumOrdFloatPre_partial t hB s e p _ hr (fun m e' he => by cases he)
  | fin man exp =>
    by_cases hdef : (s = 0 ∧ e = 0) ∧ 0 < man
    · obtain ⟨⟨hs, he⟩, hm⟩ := hdef
      subst hs; subst he
      have h0 : man ≠ 0 := by omega
      have hv : (Num.fbig B 0 0 p).value = .fin 0 1 := by simp [Num.value]
      rw [hv, cmp_zero_pos_decoded Nat.one_pos hm]
      simp [reprNumOrdFloat, h0, fSign, signMatch, Sign.ofInt_pos.2 hm.le, fIsInf, fIsZero]
    · have e' : reprNumOrdFloat t B s e (.fin man exp) = reprNumOrdFloatPre t B s e (.fin man exp) := by
        unfold reprNumOrdFloat reprNumOrdFloatPre
        by_cases h0 : man = 0
        · simp [h0]
        · simp only [h0, if_false]
          cases hm : signMatch (fSign s e) (Sign.ofInt man) with
          | inr o => rfl
          | inl sg =>
            simp only
            by_cases hi : fIsInf s e = true
            · simp [hi]
            · have hz : fIsZero s e = false := by
                rw [Bool.eq_false_iff]
                intro hz
                have hse : s = 0 ∧ e = 0 := by simpa [fIsZero] using hz
                have hfs : fSign s e = .pos := by simp [fSign, hse.1, hse.2]
                rw [hfs] at hm
                have : 0 ≤ man := by
                  unfold signMatch at hm
                  rcases hsm : Sign.ofInt man with _ | _
                  · exact Sign.ofInt_pos.1 hsm
                  · rw [hsm] at hm; simp at hm
                exact hdef ⟨hse, by omega⟩
              simp [hi, hz]
      rw [e']
      exact reprNumOrdFloatPre_partial t hB s e p _ hr (fun m e'' he => by
        cases he
        exact defectA_false_of (by simpa [Kind.isZero, fIsZero] using hdef))

/-- `NumOrd<f32/f64> for Repr` (RBig, Relaxed): the order of the exact values (`none` iff NaN) -/
theorem ratNumOrdFloat_spec (t : FloatTy) (n : Int) {dn : Nat} (hd : 0 < dn) (d : Decoded)
    (hr : d.InRange t) :
    ratNumOrdFloat t n dn d = XVal.cmp (.fin n dn) (decodedValue d) := by
  cases d with
  | nan => rfl
  | inf neg => exact ratNumOrdFloatPre_partial t n hd _ hr (fun m e' he => by cases he)
  | fin man exp =>
    by_cases hdef : n = 0 ∧ 0 < man
    · obtain ⟨hn, hm⟩ := hdef
      subst hn
      have h0 : man ≠ 0 := by omega
      rw [cmp_zero_pos_decoded hd hm]
      simp [ratNumOrdFloat, h0, signMatch, Sign.ofInt_pos.2 (le_refl (0 : Int)), Sign.ofInt_pos.2 hm.le]
    · have e : ratNumOrdFloat t n dn (.fin man exp) = ratNumOrdFloatPre t n dn (.fin man exp) := by
        unfold ratNumOrdFloat ratNumOrdFloatPre
        by_cases h0 : man = 0
        · simp [h0]
        · simp only [h0, if_false]
          cases hm : signMatch (Sign.ofInt n) (Sign.ofInt man) with
          | inr o => rfl
          | inl sg =>
            have hn : n ≠ 0 := by
              intro hn
              subst hn
              rcases signMatch_inl hm with ⟨_, _, h2⟩ | ⟨_, h1, _⟩
              · exact hdef ⟨rfl, by omega⟩
              · omega
            simp [hn]
      rw [e]
      exact ratNumOrdFloatPre_partial t n hd _ hr (fun m e' he => by
        cases he
        exact defectA_false_of (by simpa [Kind.isZero] using hdef))

end Dashu.Model.Cross
