import Dashu.Proofs.Cross.Fixed
import Dashu.Proofs.Cross.SameBase
/-
  C14 proofs — the dispatch tables (`numPartialCmpK`, `absCmpK`): every implemented type pair
  returns the order of the exact values.
-/
namespace Dashu.Model.Cross

/-- exact value of an operand kind -/
def Kind.value : Kind → XVal
  | .nat n => .fin n 1
  | .int i => .fin i 1
  | .flt B s e p => (Num.fbig B s e p).value
  | .rat _ n d => .fin n d
  | .pf _ dec => decodedValue dec

/-- well-formed operand: base ≥ 2 and a canonical zero/∞ encoding for floats, a positive
    denominator for rationals, a float that was actually decoded from an f32/f64 -/
def Kind.WF : Kind → Prop
  | .flt B s e _ => 2 ≤ B ∧ FWf s e
  | .rat _ _ d => 0 < d
  | .pf t dec => dec.InRange t
  | _ => True

/-- well-formed protocol number -/
def Num.WF : Num → Prop
  | .fbig B s e _ => 2 ≤ B ∧ FWf s e
  | .rbig _ d => 0 < d
  | .relaxed _ d => 0 < d
  | .pint t v => t.inRange v = true
  | _ => True

theorem Num.kind_wf {x : Num} (h : x.WF) : x.kind.WF := by
  cases x with
  | pint t v => by_cases hs : t.signed = true <;> simp [Num.kind, hs, Kind.WF]
  | pfloat t b => exact decode_inRange _ _
  | _ => simpa [Num.kind, Kind.WF, Num.WF] using h

theorem Num.kind_value {x : Num} (h : x.WF) : x.kind.value = x.value := by
  cases x with
  | pint t v =>
    simp only [Num.WF] at h
    by_cases hs : t.signed = true
    · simp [Num.kind, hs, Kind.value, Num.value]
    · have hs' : t.signed = false := by simpa using hs
      have : 0 ≤ v := by
        simp only [PrimInt.inRange, hs', Bool.false_eq_true, if_false, Bool.and_eq_true,
          decide_eq_true_eq] at h
        exact h.1
      simp only [Num.kind, hs', Bool.false_eq_true, if_false, Kind.value, Num.value]
      congr 1
      omega
  | _ => rfl

theorem XVal.cmp_swap (a b : XVal) : (XVal.cmp a b).map Ordering.swap = XVal.cmp b a := by
  cases a <;> cases b <;> simp [XVal.cmp, cmpI_swap] <;> rfl

theorem swapO_eq {r : Option Ordering} {a b : XVal} (h : r = XVal.cmp a b) : swapO r = XVal.cmp b a := by
  rw [h]; exact XVal.cmp_swap a b

theorem swap_some_eq {r : Ordering} {a b : XVal} (h : some r = XVal.cmp a b) :
    some r.swap = XVal.cmp b a := by
  have := swapO_eq h
  simpa [swapO] using this

theorem XVal.absCmp_swap (a b : XVal) : (XVal.absCmp a b).map Ordering.swap = XVal.absCmp b a :=
  XVal.cmp_swap _ _

theorem swap_some_abs_eq {r : Ordering} {a b : XVal} (h : some r = XVal.absCmp a b) :
    some r.swap = XVal.absCmp b a := by
  have : (some r).map Ordering.swap = XVal.absCmp b a := by rw [h]; exact XVal.absCmp_swap a b
  simpa using this

theorem ubigCmpIbig_spec (a : Nat) (b : Int) :
    some (ubigCmpIbig a b) = XVal.cmp (.fin (a : Int) 1) (.fin b 1) := by
  unfold ubigCmpIbig
  simp only [XVal.cmp]
  congr 1
  rcases lt_or_ge b 0 with h | h
  · rw [Sign.ofInt_neg.2 h]
    exact (cmpI_gt.2 (by simp; omega)).symm
  · rw [Sign.ofInt_pos.2 h, cmpN_cast, Int.natCast_natAbs, abs_of_nonneg h]
    simp

theorem ibigCmpUbig_spec (a : Int) (b : Nat) :
    some (ibigCmpUbig a b) = XVal.cmp (.fin a 1) (.fin (b : Int) 1) := by
  unfold ibigCmpUbig
  simp only [XVal.cmp]
  congr 1
  rcases lt_or_ge a 0 with h | h
  · rw [Sign.ofInt_neg.2 h]
    exact (cmpI_lt.2 (by simp; omega)).symm
  · rw [Sign.ofInt_pos.2 h, cmpN_cast, Int.natCast_natAbs, abs_of_nonneg h]
    simp

/-- NumOrd over the whole table of implemented pairs (operand kinds): the order of the exact
    values for every sound oracle. -/
theorem numPartialCmpK_spec {o : Oracle} (ho : o.Sound) (k1 k2 : Kind) (w1 : k1.WF) (w2 : k2.WF)
    {r : Option Ordering} (h : numPartialCmpK o k1 k2 = some r) :
    r = XVal.cmp k1.value k2.value := by
  cases k1 <;> cases k2 <;> simp only [numPartialCmpK, Option.some.injEq] at h <;>
    simp only [Kind.value, Kind.WF] at * <;> try subst h
  · -- nat nat
    rename_i a b
    simp [XVal.cmp, cmpN_cast]
  · exact ubigCmpIbig_spec _ _
  · -- nat flt
    rename_i r B s e p
    exact swap_some_eq (floatReprCmpUbig_spec ho w2.1 s e r p)
  · -- nat rat
    rename_i r b n d
    exact swap_some_eq (ratReprCmpUbig_spec ho n w2 r)
  · -- nat pf
    rename_i x t dec
    exact ubigNumOrdFloat_spec t x dec w2
  · exact ibigCmpUbig_spec _ _
  · -- int int
    simp [XVal.cmp]
  · rename_i r B s e p
    exact swap_some_eq (floatReprCmpIbig_spec ho w2.1 s e r p)
  · rename_i r b n d
    exact swap_some_eq (ratReprCmpIbig_spec ho n w2 r)
  · rename_i x t dec
    exact ibigNumOrdFloat_spec t x dec w2
  · rename_i B s e p r
    exact floatReprCmpUbig_spec ho w1.1 s e r p
  · rename_i B s e p r
    exact floatReprCmpIbig_spec ho w1.1 s e r p
  · rename_i B1 s1 e1 p1 B2 s2 e2 p2
    exact reprNumCmp_spec ho w1.1 w2.1 s1 e1 s2 e2 p1 p2 w1.2 w2.2
  · rename_i B s e p b n d
    exact swap_some_eq (ratReprCmpFbig_spec ho n w2 w1.1 s e p)
  · rename_i B s e p t dec
    exact reprNumOrdFloat_spec t w1.1 s e p dec w2
  · rename_i b n d r
    exact ratReprCmpUbig_spec ho n w1 r
  · rename_i b n d r
    exact ratReprCmpIbig_spec ho n w1 r
  · rename_i b n d B s e p
    exact ratReprCmpFbig_spec ho n w1 w2.1 s e p
  · -- rat rat
    rename_i b1 n1 d1 b2 n2 d2
    split at h
    · simp only [Option.some.injEq] at h
      subst h
      exact ratReprCmp_spec n1 w1 n2 w2
    · exact absurd h (by simp)
  · rename_i b n d t dec
    rw [ratNumOrdFloat_spec t n w1 dec w2]
  · rename_i t dec x
    exact swapO_eq (ubigNumOrdFloat_spec t x dec w1)
  · rename_i t dec x
    exact swapO_eq (ibigNumOrdFloat_spec t x dec w1)
  · rename_i t dec B s e p
    exact swapO_eq (reprNumOrdFloat_spec t w2.1 s e p dec w1)
  · rename_i t dec b n d
    exact swapO_eq (ratNumOrdFloat_spec t n w2 dec w1)
  · exact absurd h (by simp)

-- ------------------------------------------------------------------ protocol numbers

/-- NumOrd on protocol numbers: `num_partial_cmp` (and hence every derived method) returns the
    order of the exact values — `none` exactly for NaN — for every sound oracle. -/
theorem numPartialCmp_spec {o : Oracle} (ho : o.Sound) (x y : Num) (wx : x.WF) (wy : y.WF)
    {r : Option Ordering} (h : numPartialCmp o x y = some r) :
    r = XVal.cmp x.value y.value := by
  unfold numPartialCmp at h
  split at h
  · exact absurd h (by simp)
  · rw [← Num.kind_value wx, ← Num.kind_value wy]
    exact numPartialCmpK_spec ho _ _ (Num.kind_wf wx) (Num.kind_wf wy) h

/-- limited precision bounds the digits (needed by the same-base shortcut only) -/
def Kind.PrecOK : Kind → Prop
  | .flt B s _ p => Dashu.Model.Cross.PrecOK B s p
  | _ => True

def Num.PrecOK : Num → Prop
  | .fbig B s _ p => Dashu.Model.Cross.PrecOK B s p
  | _ => True

theorem Num.kind_precOK {x : Num} (h : x.PrecOK) : x.kind.PrecOK := by
  cases x with
  | pint t v => by_cases hs : t.signed = true <;> simp [Num.kind, hs, Kind.PrecOK]
  | _ => simpa [Num.kind, Kind.PrecOK, Num.PrecOK] using h

/-- AbsOrd over the whole table of implemented pairs (operand kinds): the order of the magnitudes
    for every sound oracle. -/
theorem absCmpK_spec {o : Oracle} (ho : o.Sound) (k1 k2 : Kind) (w1 : k1.WF) (w2 : k2.WF)
    (p1 : k1.PrecOK) (p2 : k2.PrecOK) {r : Ordering}
    (h : absCmpK o k1 k2 = some r) : some r = XVal.absCmp k1.value k2.value := by
  cases k1 <;> cases k2 <;> simp only [absCmpK, Option.some.injEq] at h <;>
    simp only [Kind.value, Kind.WF, Kind.PrecOK] at * <;> try subst h
  · rename_i a b
    simp [XVal.absCmp, XVal.abs, XVal.cmp, cmpN_cast]
  · rename_i a b
    simp [XVal.absCmp, XVal.abs, XVal.cmp, cmpN_cast]
  · rename_i r B s e p
    exact swap_some_abs_eq (floatReprCmpUbig_abs_spec ho w2.1 s e r p)
  · rename_i r b n d
    exact swap_some_abs_eq (ratReprCmpUbig_abs_spec ho n w2 r)
  · exact absurd h (by simp)
  · rename_i a b
    simp [XVal.absCmp, XVal.abs, XVal.cmp, cmpN_cast]
  · rename_i a b
    simp [XVal.absCmp, XVal.abs, XVal.cmp, cmpN_cast]
  · rename_i r B s e p
    exact swap_some_abs_eq (floatReprCmpIbig_abs_spec ho w2.1 s e r p)
  · rename_i r b n d
    exact swap_some_abs_eq (ratReprCmpIbig_abs_spec ho n w2 r)
  · exact absurd h (by simp)
  · rename_i B s e p r
    exact floatReprCmpUbig_abs_spec ho w1.1 s e r p
  · rename_i B s e p r
    exact floatReprCmpIbig_abs_spec ho w1.1 s e r p
  · rename_i B1 s1 e1 q1 B2 s2 e2 q2
    split at h
    · rename_i hB
      subst hB
      simp only [Option.some.injEq] at h
      subst h
      exact reprCmpSameBase_abs_spec ho w1.1 s1 e1 s2 e2 q1 q2 p1 p2
    · exact absurd h (by simp)
  · rename_i B s e p b n d
    exact swap_some_abs_eq (ratReprCmpFbig_abs_spec ho n w2 w1.1 s e p)
  · exact absurd h (by simp)
  · rename_i b n d r
    exact ratReprCmpUbig_abs_spec ho n w1 r
  · rename_i b n d r
    exact ratReprCmpIbig_abs_spec ho n w1 r
  · rename_i b n d B s e p
    exact ratReprCmpFbig_abs_spec ho n w1 w2.1 s e p
  · rename_i b1 n1 d1 b2 n2 d2
    exact ratReprCmp_abs_spec n1 w1 n2 w2
  all_goals exact absurd h (by simp)

/-- AbsOrd on protocol numbers -/
theorem absCmp_spec {o : Oracle} (ho : o.Sound) (x y : Num) (wx : x.WF) (wy : y.WF)
    (px : x.PrecOK) (py : y.PrecOK) {r : Ordering}
    (h : absCmp o x y = some r) : some r = XVal.absCmp x.value y.value := by
  unfold absCmp at h
  split at h
  · exact absurd h (by simp)
  · rw [← Num.kind_value wx, ← Num.kind_value wy]
    exact absCmpK_spec ho _ _ (Num.kind_wf wx) (Num.kind_wf wy) (Num.kind_precOK px)
      (Num.kind_precOK py) h

/-- `Ord`/`PartialOrd` of two numbers of one type (UBig, IBig, FBig of one base, RBig, Relaxed) -/
theorem ordCmp_spec {o : Oracle} (ho : o.Sound) (x y : Num) (wx : x.WF) (wy : y.WF)
    (px : x.PrecOK) (py : y.PrecOK) {r : Ordering} (h : ordCmp o x y = some r) :
    some r = XVal.cmp x.value y.value := by
  cases x <;> cases y <;> simp only [ordCmp] at h <;> (try cases h) <;>
    simp only [Num.value, Num.WF, Num.PrecOK] at *
  · simp [XVal.cmp, cmpN_cast]
  · simp [XVal.cmp]
  · rename_i B1 s1 e1 q1 B2 s2 e2 q2
    split at h
    · rename_i hB
      subst hB
      simp only [Option.some.injEq] at h
      subst h
      exact reprCmpSameBase_spec ho wx.1 s1 e1 s2 e2 q1 q2 wx.2 wy.2 px py
    · exact absurd h (by simp)
  · rename_i n1 d1 n2 d2
    exact ratReprCmp_spec n1 wx n2 wy
  · rename_i n1 d1 n2 d2
    exact ratReprCmp_spec n1 wx n2 wy

/-- `num_eq` (trait default, or the `repr_eq` override of the RBig/Relaxed pair) decides equality
    of the exact values -/
theorem numEq_spec {o : Oracle} (ho : o.Sound) (x y : Num) (wx : x.WF) (wy : y.WF)
    {b : Bool} (h : numEq o x y = some b) :
    b = (XVal.cmp x.value y.value == some .eq) := by
  unfold numEq at h
  split at h
  · rename_i r1 n1 d1 r2 n2 d2 hx hy
    split at h
    · simp only [Option.some.injEq] at h
      subst h
      have w1 := Num.kind_wf wx
      have w2 := Num.kind_wf wy
      rw [hx] at w1
      rw [hy] at w2
      rw [← Num.kind_value wx, ← Num.kind_value wy, hx, hy]
      simp only [Kind.value]
      have := ratReprEq_spec false n1 w1 n2 w2
      simpa using this
    · exact absurd h (by simp)
  · cases hr : numPartialCmp o x y with
    | none => rw [hr] at h; exact absurd h (by simp)
    | some r =>
      rw [hr] at h
      simp only [Option.map_some, Option.some.injEq] at h
      rw [← h, numPartialCmp_spec ho x y wx wy hr]

end Dashu.Model.Cross
