import Dashu.Proofs.Cross.Basic
import Dashu.Model.Cross.Oracle
/-
  C14 proofs — the two oracles the driver instantiates satisfy the enclosure hypothesis
  (`Oracle.Sound`), so the theorems of `Props/C14` apply to what the driver runs.
-/
namespace Dashu.Model.Cross
open Real

private theorem bl_pos {n : Nat} (h : n ≠ 0) : 1 ≤ bitLen n := by
  unfold bitLen; simp [h]

private theorem bl_lt (n : Nat) : n < 2 ^ bitLen n := by
  unfold bitLen
  split
  · subst_vars; simp
  · exact Nat.lt_log2_self

private theorem bl_le {n : Nat} (h : n ≠ 0) : 2 ^ (bitLen n - 1) ≤ n := by
  unfold bitLen
  simp only [h, if_false, Nat.add_sub_cancel]
  exact Nat.log2_self_le h

/-- `bitLen n - 1 ≤ log₂ n ≤ bitLen n` -/
theorem logb_bitLen {n : Nat} (h : n ≠ 0) :
    ((bitLen n : ℝ) - 1) ≤ logb 2 (n : ℝ) ∧ logb 2 (n : ℝ) ≤ (bitLen n : ℝ) := by
  have hn : (0 : ℝ) < n := by exact_mod_cast Nat.pos_of_ne_zero h
  constructor
  · rw [le_logb_iff_rpow_le (by norm_num) hn]
    have : ((bitLen n : ℝ) - 1) = ((bitLen n - 1 : Nat) : ℝ) := by
      rw [Nat.cast_sub (bl_pos h)]; simp
    rw [this, rpow_natCast]
    exact_mod_cast bl_le h
  · rw [logb_le_iff_le_rpow (by norm_num) hn, rpow_natCast]
    exact_mod_cast (bl_lt n).le

theorem natBounds_encl (n : Nat) : Encl (n : ℝ) (natBounds n) := by
  unfold natBounds
  split
  · subst_vars; simp [Encl, EB.le2, EB.ge2]
  · rename_i h
    have hn : (0 : ℝ) < n := by exact_mod_cast Nat.pos_of_ne_zero h
    rw [encl_iff_logb hn]
    have := logb_bitLen h
    push_cast
    exact this

theorem ratBounds_encl (n : Int) (d : Nat) (hd : 0 < d) : Encl (ratMag n d) (ratBounds n d) := by
  unfold ratBounds ratMag
  split
  · subst_vars; simp [Encl, EB.le2, EB.ge2]
  · rename_i h
    have hn0 : n.natAbs ≠ 0 := by simpa using h
    have hn : (0 : ℝ) < |(n : ℝ)| := by positivity
    have hd' : (0 : ℝ) < d := by exact_mod_cast hd
    rw [encl_iff_logb (by positivity)]
    rw [logb_div hn.ne' hd'.ne']
    have h1 := logb_bitLen hn0
    have h2 := logb_bitLen (Nat.pos_iff_ne_zero.1 hd)
    rw [Nat.cast_natAbs, Int.cast_abs] at h1
    push_cast
    constructor <;> linarith [h1.1, h1.2, h2.1, h2.2]

/-- `(L-1)/P ≤ log₂ B ≤ L/P` for `L = bitLen (B^P)` -/
theorem log2BaseBounds_spec {B : Nat} (hB : 2 ≤ B) :
    ((log2BaseBounds B).1 : ℝ) ≤ logb 2 (B : ℝ) ∧ logb 2 (B : ℝ) ≤ ((log2BaseBounds B).2 : ℝ) := by
  unfold log2BaseBounds
  have hP : (0 : ℝ) < (logBPrec : ℝ) := by unfold logBPrec; norm_num
  have hne : B ^ logBPrec ≠ 0 := by positivity
  have h := logb_bitLen hne
  have hpow : logb 2 (((B ^ logBPrec : Nat)) : ℝ) = (logBPrec : ℝ) * logb 2 (B : ℝ) := by
    push_cast
    rw [logb_pow]
  rw [hpow] at h
  push_cast
  constructor
  · rw [div_le_iff₀ hP]; linarith [h.1]
  · rw [le_div_iff₀ hP]; linarith [h.2]

theorem fltBounds_encl (B : Nat) (s e : Int) (hB : 2 ≤ B) : Encl (fltMag B s e) (fltBounds B s e) := by
  unfold fltBounds fltMag
  split
  · subst_vars; simp [Encl, EB.le2, EB.ge2]
  · rename_i h
    have hs0 : s.natAbs ≠ 0 := by simpa using h
    have hs : (0 : ℝ) < |(s : ℝ)| := by positivity
    have hBpos : (0 : ℝ) < B := by exact_mod_cast (by omega : 0 < B)
    have hpow : (0 : ℝ) < (B : ℝ) ^ e := zpow_pos hBpos e
    have hlog : logb 2 (|(s : ℝ)| * (B : ℝ) ^ e) = logb 2 |(s : ℝ)| + (e : ℝ) * logb 2 (B : ℝ) := by
      rw [logb_mul hs.ne' hpow.ne']
      congr 1
      simp only [logb, log_zpow]
      ring
    have h1 := logb_bitLen hs0
    rw [Nat.cast_natAbs, Int.cast_abs] at h1
    obtain ⟨hl, hu⟩ := log2BaseBounds_spec hB
    split
    · rename_i he
      have he' : (0 : ℝ) ≤ (e : ℝ) := by exact_mod_cast he
      rw [encl_iff_logb (by positivity), hlog]
      push_cast
      have a := mul_le_mul_of_nonneg_left hl he'
      have b := mul_le_mul_of_nonneg_left hu he'
      constructor <;> linarith [h1.1, h1.2]
    · rename_i he
      have he' : (e : ℝ) ≤ 0 := by exact_mod_cast (by omega : e ≤ 0)
      rw [encl_iff_logb (by positivity), hlog]
      push_cast
      have a := mul_le_mul_of_nonpos_left hl he'
      have b := mul_le_mul_of_nonpos_left hu he'
      constructor <;> linarith [h1.1, h1.2]

theorem digitsUbCoarse_spec (B : Nat) (s : Int) (hB : 2 ≤ B) : s.natAbs < B ^ digitsUbCoarse B s := by
  unfold digitsUbCoarse
  have hBne : B ≠ 0 := by omega
  have hw : 1 ≤ bitLen B - 1 := by
    have : 2 ^ 1 ≤ B := by simpa using hB
    have h2 := bl_lt B
    have : 1 < bitLen B := (Nat.pow_lt_pow_iff_right (by norm_num : 1 < 2)).1 (lt_of_le_of_lt this h2)
    omega
  set w := bitLen B - 1 with hwdef
  set bl := bitLen s.natAbs with hbl
  set k := (bl + w - 1) / w with hk
  have hkw : bl ≤ w * k := by
    have h1 := Nat.div_add_mod (bl + w - 1) w
    have h2 := Nat.mod_lt (bl + w - 1) (by omega : 0 < w)
    rw [← hk] at h1
    omega
  calc s.natAbs < 2 ^ bl := bl_lt _
    _ ≤ 2 ^ (w * k) := Nat.pow_le_pow_right (by norm_num) hkw
    _ = (2 ^ w) ^ k := by rw [pow_mul]
    _ ≤ B ^ k := Nat.pow_le_pow_left (bl_le hBne) k

/-- the bit-length oracle used by the driver satisfies the enclosure hypothesis -/
theorem Oracle.coarse_sound : Oracle.coarse.Sound where
  nat := natBounds_encl
  flt := fun B s e hB => fltBounds_encl B s e hB
  rat := fun n d hd => ratBounds_encl n d hd
  digits := fun B s hB => digitsUbCoarse_spec B s hB

/-- the never-filtering oracle (exact path only) satisfies the enclosure hypothesis -/
theorem Oracle.noFilter_sound : Oracle.noFilter.Sound where
  nat := fun _ => by simp [Oracle.noFilter, Encl, EB.le2, EB.ge2]
  flt := fun _ _ _ _ => by simp [Oracle.noFilter, Encl, EB.le2, EB.ge2]
  rat := fun _ _ _ => by simp [Oracle.noFilter, Encl, EB.le2, EB.ge2]
  digits := fun B s hB => by
    show s.natAbs < B ^ (bitLen s.natAbs + 1)
    calc s.natAbs < 2 ^ bitLen s.natAbs := bl_lt _
      _ ≤ 2 ^ (bitLen s.natAbs + 1) := Nat.pow_le_pow_right (by norm_num) (by omega)
      _ ≤ B ^ (bitLen s.natAbs + 1) := Nat.pow_le_pow_left hB _

end Dashu.Model.Cross
