import Dashu.Proofs.Cross.HashProofs
/-
  C14 proofs — the weakest input hypothesis under which the code's `NumHash` is a function of the
  value: no rational argument has BOTH stored parts divisible by `M = 2^127 - 1`.
-/
namespace Dashu.Model.Cross

/-- well-formed for hashing, excluding only the defect class C (a non-reduced fraction carrying the
    factor `M` in numerator and denominator) -/
def Num.HashOKWeak : Num → Prop
  | .rbig n d => 0 < d ∧ ¬ (M127 ∣ d ∧ (M127 : Int) ∣ n ∧ n ≠ 0)
  | .relaxed n d => 0 < d ∧ ¬ (M127 ∣ d ∧ (M127 : Int) ∣ n ∧ n ≠ 0)
  | x => x.HashOKPre

theorem Num.HashOKWeak.canon {x : Num} (h : x.HashOKWeak) : x.HashOK := by
  cases x <;> simp only [Num.HashOKWeak, Num.HashOK, Num.HashOKPre] at * <;> first | exact h | exact h.1

theorem numHashFeed_eq_feed {x : Num} (h : x.HashOKWeak) : numHashFeed x = numHashFeedPre x := by
  cases x <;> simp only [numHashFeed, numHashFeedPre, Num.HashOKWeak] at * <;>
    first | rfl | exact ratHash_eq_ratHashPre h.2

/-- equal values feed the same `i128`, for all arguments outside defect class C -/
theorem numHashPre_value_weak {x y : Num} (hx : x.HashOKWeak) (hy : y.HashOKWeak) {n1 n2 : Int} {d1 d2 : Nat}
    (vx : x.value = .fin n1 d1) (vy : y.value = .fin n2 d2) (h : n1 * d2 = n2 * d1) :
    numHashFeedPre x = numHashFeedPre y := by
  rw [← numHashFeed_eq_feed hx, ← numHashFeed_eq_feed hy]
  exact numHash_value hx.canon hy.canon vx vy h

end Dashu.Model.Cross
