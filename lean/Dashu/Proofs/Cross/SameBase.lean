import Dashu.Proofs.Cross.Filter
/-
  C14 proofs — `repr_cmp_same_base::<B, ABS>` (float/src/cmp.rs): `Ord`/`PartialOrd` of two FBigs
  of one base and `AbsOrd for FBig`; exponent+precision and exponent+digits shortcuts, then exact
  comparison after aligning the exponents.
-/
namespace Dashu.Model.Cross

/-- comparison in `ℝ` (classical) -/
noncomputable def cmpR (x y : ℝ) : Ordering :=
  if x < y then .lt else if x = y then .eq else .gt

theorem cmpR_lt {x y : ℝ} (h : x < y) : cmpR x y = .lt := by simp [cmpR, h]
theorem cmpR_eq {x y : ℝ} (h : x = y) : cmpR x y = .eq := by simp [cmpR, h]
theorem cmpR_gt {x y : ℝ} (h : y < x) : cmpR x y = .gt := by
  simp [cmpR, not_lt.2 h.le, h.ne']

theorem cmpI_eq_cmpR (a b : Int) : compare a b = cmpR (a : ℝ) (b : ℝ) := by
  rcases lt_trichotomy a b with h | h | h
  · rw [cmpI_lt.2 h, cmpR_lt (by exact_mod_cast h)]
  · rw [cmpI_eq.2 h, cmpR_eq (by exact_mod_cast h)]
  · rw [cmpI_gt.2 h, cmpR_gt (by exact_mod_cast h)]

theorem cmpR_mul_pos {x y c : ℝ} (hc : 0 < c) : cmpR (x * c) (y * c) = cmpR x y := by
  rcases lt_trichotomy x y with h | h | h
  · rw [cmpR_lt h, cmpR_lt (mul_lt_mul_of_pos_right h hc)]
  · rw [cmpR_eq h, cmpR_eq (by rw [h])]
  · rw [cmpR_gt h, cmpR_gt (mul_lt_mul_of_pos_right h hc)]

/-- real value of the float `s · B^e` -/
noncomputable def fltVal (B : Nat) (s e : Int) : ℝ := (s : ℝ) * (B : ℝ) ^ e

theorem fltVal_eq_frac {B : Nat} (hB : 2 ≤ B) (s e : Int) :
    fltVal B s e = (((floatFrac B s e).1 : Int) : ℝ) / (((floatFrac B s e).2 : Nat) : ℝ) := by
  unfold fltVal floatFrac
  split
  · rename_i he
    have : e = -((-e).toNat : Int) := by omega
    simp only
    conv_lhs => rw [this]
    rw [zpow_neg, zpow_natCast]
    push_cast
    rw [div_eq_mul_inv]
  · rename_i he
    have : e = (e.toNat : Int) := by omega
    simp only
    conv_lhs => rw [this]
    rw [zpow_natCast]
    push_cast
    simp

/-- cross-multiplied comparison of two fractions = comparison of their real values -/
theorem cross_eq_cmpR (n1 : Int) {d1 : Nat} (h1 : 0 < d1) (n2 : Int) {d2 : Nat} (h2 : 0 < d2) :
    compare (n1 * (d2 : Int)) (n2 * (d1 : Int)) = cmpR ((n1 : ℝ) / d1) ((n2 : ℝ) / d2) := by
  have p1 : (0 : ℝ) < d1 := by exact_mod_cast h1
  have p2 : (0 : ℝ) < d2 := by exact_mod_cast h2
  rw [cmpI_eq_cmpR, ← cmpR_mul_pos (x := (n1 : ℝ) / d1) (mul_pos p1 p2)]
  congr 1 <;> push_cast <;> field_simp

/-- spec of two finite floats of one base, in `ℝ` -/
theorem flt_cross_eq_cmpR {B : Nat} (hB : 2 ≤ B) (s1 e1 s2 e2 : Int) :
    compare ((floatFrac B s1 e1).1 * ((floatFrac B s2 e2).2 : Int))
            ((floatFrac B s2 e2).1 * ((floatFrac B s1 e1).2 : Int))
      = cmpR (fltVal B s1 e1) (fltVal B s2 e2) := by
  rw [cross_eq_cmpR _ (floatFrac_den_pos hB s1 e1) _ (floatFrac_den_pos hB s2 e2),
    ← fltVal_eq_frac hB, ← fltVal_eq_frac hB]

theorem flt_cross_abs_eq_cmpR {B : Nat} (hB : 2 ≤ B) (s1 e1 s2 e2 : Int) :
    compare (|(floatFrac B s1 e1).1| * ((floatFrac B s2 e2).2 : Int))
            (|(floatFrac B s2 e2).1| * ((floatFrac B s1 e1).2 : Int))
      = cmpR (fltMag B s1 e1) (fltMag B s2 e2) := by
  rw [cross_eq_cmpR _ (floatFrac_den_pos hB s1 e1) _ (floatFrac_den_pos hB s2 e2),
    fltMag_eq_frac hB, fltMag_eq_frac hB]
  push_cast
  rfl

/-- the exact step (case 6), signed -/
theorem sameBase_exact {B : Nat} (hB : 2 ≤ B) (ls le rs re : Int) :
    (if le = re then compare ls rs
     else if le > re then compare (shlDigits B ls (le - re).toNat) rs
     else compare ls (shlDigits B rs (re - le).toNat))
      = cmpR (fltVal B ls le) (fltVal B rs re) := by
  have hBpos : (0 : ℝ) < B := by exact_mod_cast (by omega : 0 < B)
  unfold fltVal shlDigits
  split
  · rename_i h
    subst h
    rw [cmpI_eq_cmpR, cmpR_mul_pos (zpow_pos hBpos _)]
  · split
    · rename_i h1 h2
      rw [cmpI_eq_cmpR, ← cmpR_mul_pos (zpow_pos hBpos re)]
      congr 1
      push_cast
      have : le = ((le - re).toNat : Int) + re := by omega
      conv_rhs => rw [this, zpow_add₀ hBpos.ne', zpow_natCast]
      ring
    · rename_i h1 h2
      rw [cmpI_eq_cmpR, ← cmpR_mul_pos (zpow_pos hBpos le)]
      congr 1
      push_cast
      have : re = ((re - le).toNat : Int) + le := by omega
      conv_rhs => rw [this, zpow_add₀ hBpos.ne', zpow_natCast]
      ring

/-- the exact step (case 6), magnitudes -/
theorem sameBase_exact_abs {B : Nat} (hB : 2 ≤ B) (ls le rs re : Int) :
    (if le = re then absCmpInt ls rs
     else if le > re then absCmpInt (shlDigits B ls (le - re).toNat) rs
     else absCmpInt ls (shlDigits B rs (re - le).toNat))
      = cmpR (fltMag B ls le) (fltMag B rs re) := by
  have hBpos : (0 : ℝ) < B := by exact_mod_cast (by omega : 0 < B)
  have hBnn : (0 : Int) ≤ (B : Int) := by positivity
  have key := sameBase_exact hB |ls| le |rs| re
  have e1 : fltVal B |ls| le = fltMag B ls le := by unfold fltVal fltMag; push_cast; rfl
  have e2 : fltVal B |rs| re = fltMag B rs re := by unfold fltVal fltMag; push_cast; rfl
  rw [e1, e2] at key
  rw [← key]
  simp only [absCmpInt_eq, shlDigits, abs_mul, abs_pow, abs_of_nonneg hBnn, abs_abs]

/-- the shortcut of cases 4 and 5: `|rs| < B^k` and `le ≥ re + k` force `|rs·B^re| < |ls·B^le|` -/
theorem sameBase_shortcut {B : Nat} (hB : 2 ≤ B) {ls le rs re : Int} {k : Nat} (hls : ls ≠ 0)
    (hk : rs.natAbs < B ^ k) (he : le ≥ re + k) : fltMag B rs re < fltMag B ls le := by
  have hB1 : (1 : ℝ) ≤ B := by exact_mod_cast (by omega : 1 ≤ B)
  have hBpos : (0 : ℝ) < B := by linarith
  unfold fltMag
  have h1 : |(rs : ℝ)| < (B : ℝ) ^ (k : Int) := by
    rw [zpow_natCast]
    have : ((rs.natAbs : Nat) : ℝ) < ((B ^ k : Nat) : ℝ) := by exact_mod_cast hk
    rw [Nat.cast_natAbs, Int.cast_abs] at this
    push_cast at this
    exact this
  have h2 : (1 : ℝ) ≤ |(ls : ℝ)| := by
    have : (1 : Int) ≤ |ls| := Int.one_le_abs hls
    exact_mod_cast this
  calc |(rs : ℝ)| * (B : ℝ) ^ re < (B : ℝ) ^ (k : Int) * (B : ℝ) ^ re :=
        mul_lt_mul_of_pos_right h1 (zpow_pos hBpos re)
    _ = (B : ℝ) ^ ((k : Int) + re) := (zpow_add₀ hBpos.ne' _ _).symm
    _ ≤ (B : ℝ) ^ le := zpow_le_zpow_right₀ hB1 (by omega)
    _ = 1 * (B : ℝ) ^ le := (one_mul _).symm
    _ ≤ |(ls : ℝ)| * (B : ℝ) ^ le := mul_le_mul_of_nonneg_right h2 (zpow_pos hBpos le).le

/-- cases 5–6 of `repr_cmp_same_base`, for an abstract target `T` that the magnitudes determine -/
theorem sameBase_tail5 {o : Oracle} (ho : o.Sound) {B : Nat} (hB : 2 ≤ B) {ls le rs re : Int}
    (hls : ls ≠ 0) (hrs : rs ≠ 0) (sign : Sign) (T exact : Ordering)
    (hgt : fltMag B rs re < fltMag B ls le → T = sign.app .gt)
    (hlt : fltMag B ls le < fltMag B rs re → T = sign.app .lt) (hex : exact = T) :
    (if le > re + ((o.digitsUb B rs : Nat) : Int) then sign.app .gt
       else if re > le + ((o.digitsUb B ls : Nat) : Int) then sign.app .lt
       else exact) = T := by
  split
  · rename_i h
    exact (hgt (sameBase_shortcut hB hls (ho.digits B rs hB) (by omega))).symm
  · split
    · rename_i h
      exact (hlt (sameBase_shortcut hB hrs (ho.digits B ls hB) (by omega))).symm
    · exact hex

/-- cases 4–6 of `repr_cmp_same_base` with `Some((lp, rp))` -/
theorem sameBase_tail {o : Oracle} (ho : o.Sound) {B : Nat} (hB : 2 ≤ B) {ls le rs re : Int}
    (hls : ls ≠ 0) (hrs : rs ≠ 0) (lp rp : Nat)
    (h1 : lp ≠ 0 → ls.natAbs < B ^ (min lp isizeMax + 1)) (h2 : rp ≠ 0 → rs.natAbs < B ^ (min rp isizeMax + 1))
    (sign : Sign) (T exact : Ordering)
    (hgt : fltMag B rs re < fltMag B ls le → T = sign.app .gt)
    (hlt : fltMag B ls le < fltMag B rs re → T = sign.app .lt) (hex : exact = T) :
    (match (if lp ≠ 0 ∧ rp ≠ 0 then
                (if le > re + ((min rp isizeMax : Nat) : Int) then some (sign.app .gt)
                 else if re > le + ((min lp isizeMax : Nat) : Int) then some (sign.app .lt) else none)
              else none : Option Ordering) with
     | some r => r
     | none =>
       if le > re + ((o.digitsUb B rs : Nat) : Int) then sign.app .gt
       else if re > le + ((o.digitsUb B ls : Nat) : Int) then sign.app .lt
       else exact) = T := by
  have tail5 := sameBase_tail5 ho hB hls hrs sign T exact hgt hlt hex
  by_cases hnz : lp ≠ 0 ∧ rp ≠ 0
  · rw [if_pos hnz]
    by_cases c1 : le > re + ((min rp isizeMax : Nat) : Int)
    · rw [if_pos c1]
      exact (hgt (sameBase_shortcut hB hls (h2 hnz.2) (by omega))).symm
    · rw [if_neg c1]
      by_cases c2 : re > le + ((min lp isizeMax : Nat) : Int)
      · rw [if_pos c2]
        exact (hlt (sameBase_shortcut hB hrs (h1 hnz.1) (by omega))).symm
      · rw [if_neg c2]
        exact tail5
  · rw [if_neg hnz]
    exact tail5

theorem fltVal_of_nonneg {B : Nat} {s : Int} (e : Int) (h : 0 ≤ s) : fltVal B s e = fltMag B s e := by
  unfold fltVal fltMag
  rw [abs_of_nonneg (by exact_mod_cast h)]

theorem fltVal_of_neg {B : Nat} {s : Int} (e : Int) (h : s < 0) : fltVal B s e = -fltMag B s e := by
  unfold fltVal fltMag
  rw [abs_of_neg (by exact_mod_cast h)]
  ring

theorem cmpR_of_mag_gt {B : Nat} {ls le rs re : Int} {sg : Sign}
    (hs : signMatch (Sign.ofInt ls) (Sign.ofInt rs) = .inl sg)
    (h : fltMag B rs re < fltMag B ls le) : cmpR (fltVal B ls le) (fltVal B rs re) = sg.app .gt := by
  rcases signMatch_inl hs with ⟨rfl, h1, h2⟩ | ⟨rfl, h1, h2⟩
  · rw [fltVal_of_nonneg le h1, fltVal_of_nonneg re h2]; exact cmpR_gt h
  · rw [fltVal_of_neg le h1, fltVal_of_neg re h2]
    show _ = Ordering.lt
    exact cmpR_lt (by linarith)

theorem cmpR_of_mag_lt {B : Nat} {ls le rs re : Int} {sg : Sign}
    (hs : signMatch (Sign.ofInt ls) (Sign.ofInt rs) = .inl sg)
    (h : fltMag B ls le < fltMag B rs re) : cmpR (fltVal B ls le) (fltVal B rs re) = sg.app .lt := by
  rcases signMatch_inl hs with ⟨rfl, h1, h2⟩ | ⟨rfl, h1, h2⟩
  · rw [fltVal_of_nonneg le h1, fltVal_of_nonneg re h2]; exact cmpR_lt h
  · rw [fltVal_of_neg le h1, fltVal_of_neg re h2]
    show _ = Ordering.gt
    exact cmpR_gt (by linarith)

theorem fIsZero_iff {s e : Int} (hinf : fIsInf s e = false) : fIsZero s e = true ↔ s = 0 := by
  simp only [fIsInf, fIsZero, Bool.and_eq_true, beq_iff_eq, Bool.and_eq_false_iff, bne_eq_false_iff_eq,
    beq_eq_false_iff_ne] at *
  constructor
  · exact fun h => h.1
  · intro h; exact ⟨h, by rcases hinf with h' | h'; exact absurd h h'; exact h'⟩

/-- well-formed precision: a limited precision bounds the digit count of the significand (with the
    one digit of slack the documentation of `Repr` allows).  Since /repo ee43486 case 4 of
    `repr_cmp_same_base` clamps the precision to `isize::MAX`, so the bound is stated for the clamped
    precision: for `p ≤ isize::MAX` this is the old `|s| < B^(p+1)`; for a larger `p` it says the
    significand has at most `2^63` digits — the Nat/usize gap: no `Repr` in memory has more (a word
    buffer holds < 2^64 bits), the model's `Int` significand is unbounded. -/
def PrecOK (B : Nat) (s : Int) (p : Nat) : Prop := p ≠ 0 → s.natAbs < B ^ (min p isizeMax + 1)

theorem PrecOK_of_le {B : Nat} {s : Int} {p : Nat} (hp : p ≤ isizeMax) (h : p ≠ 0 → s.natAbs < B ^ (p + 1)) :
    PrecOK B s p := by
  intro h0; rw [Nat.min_eq_left hp]; exact h h0

/-- `repr_cmp_same_base::<B, false>` with `Some(precisions)`: `Ord`/`PartialOrd` for FBig -/
theorem reprCmpSameBase_spec {o : Oracle} (ho : o.Sound) {B : Nat} (hB : 2 ≤ B)
    (ls le rs re : Int) (lp rp : Nat) (w1 : FWf ls le) (w2 : FWf rs re)
    (hp1 : PrecOK B ls lp) (hp2 : PrecOK B rs rp) :
    some (reprCmpSameBase o false B ls le rs re (some (lp, rp)))
      = XVal.cmp (Num.fbig B ls le lp).value (Num.fbig B rs re rp).value := by
  unfold reprCmpSameBase
  cases hi1 : fIsInf ls le <;> cases hi2 : fIsInf rs re
  · rw [fbig_value_fin lp hi1, fbig_value_fin rp hi2]
    simp only [Bool.false_eq_true, Bool.and_self, if_false, XVal.cmp]
    congr 1
    rw [flt_cross_eq_cmpR hB]
    cases hm : signMatch (Sign.ofInt ls) (Sign.ofInt rs) with
    | inr ord =>
      simp only
      rw [← flt_cross_eq_cmpR hB]
      have hm' := hm
      rw [← floatFrac_sign hB ls le, ← floatFrac_sign hB rs re] at hm'
      exact (cmp_cross_of_signs (by exact_mod_cast floatFrac_den_pos hB ls le)
        (by exact_mod_cast floatFrac_den_pos hB rs re) hm').symm
    | inl sg =>
      simp only
      by_cases hz1 : ls = 0 <;> by_cases hz2 : rs = 0
      · have z1 := (fIsZero_iff hi1).2 hz1
        have z2 := (fIsZero_iff hi2).2 hz2
        simp only [z1, z2, Bool.and_self, if_true]
        apply Eq.symm; apply cmpR_eq
        simp [fltVal, hz1, hz2]
      · have hpos : 0 < rs := by
          rcases signMatch_inl hm with ⟨_, _, h2⟩ | ⟨_, h1, _⟩ <;> omega
        have z2 : fIsZero rs re = false := by
          rw [Bool.eq_false_iff]; exact fun h => hz2 ((fIsZero_iff hi2).1 h)
        simp only [(fIsZero_iff hi1).2 hz1, z2, Bool.and_false, Bool.false_eq_true, if_false, if_true]
        apply Eq.symm; apply cmpR_lt
        have hBpos : (0 : ℝ) < B := by exact_mod_cast (by omega : 0 < B)
        have : (0 : ℝ) < rs := by exact_mod_cast hpos
        simp only [fltVal, hz1, Int.cast_zero, zero_mul]
        exact mul_pos this (zpow_pos hBpos re)
      · have hpos : 0 < ls := by
          rcases signMatch_inl hm with ⟨_, h1, _⟩ | ⟨_, _, h2⟩ <;> omega
        have z1 : fIsZero ls le = false := by
          rw [Bool.eq_false_iff]; exact fun h => hz1 ((fIsZero_iff hi1).1 h)
        simp only [(fIsZero_iff hi2).2 hz2, z1, Bool.false_and, Bool.false_eq_true, if_false, if_true]
        apply Eq.symm; apply cmpR_gt
        have hBpos : (0 : ℝ) < B := by exact_mod_cast (by omega : 0 < B)
        have : (0 : ℝ) < ls := by exact_mod_cast hpos
        simp only [fltVal, hz2, Int.cast_zero, zero_mul]
        exact mul_pos this (zpow_pos hBpos le)
      · have z1 : fIsZero ls le = false := by
          rw [Bool.eq_false_iff]; exact fun h => hz1 ((fIsZero_iff hi1).1 h)
        have z2 : fIsZero rs re = false := by
          rw [Bool.eq_false_iff]; exact fun h => hz2 ((fIsZero_iff hi2).1 h)
        simp only [z1, z2, Bool.and_self, Bool.false_eq_true, if_false]
        exact sameBase_tail ho hB hz1 hz2 lp rp hp1 hp2 sg _ _
          (cmpR_of_mag_gt hm) (cmpR_of_mag_lt hm) (sameBase_exact hB ls le rs re)
  · rw [fbig_value_fin lp hi1, fbig_value_inf rp hi2]
    simp only [Bool.false_and, Bool.false_eq_true, if_false, if_true, Bool.false_or]
    have h2 : rs = 0 ∧ re ≠ 0 := by simpa [fIsInf] using hi2
    by_cases he : re > 0
    · have : re ≥ 0 := by omega
      simp [he, this, XVal.cmp]
    · have : ¬ re ≥ 0 := by omega
      simp [he, this, XVal.cmp]
  · rw [fbig_value_inf lp hi1, fbig_value_fin rp hi2]
    simp only [Bool.and_false, Bool.false_eq_true, if_false, if_true, Bool.false_or]
    have h1 : ls = 0 ∧ le ≠ 0 := by simpa [fIsInf] using hi1
    by_cases he : le > 0
    · have : le ≥ 0 := by omega
      simp [he, this, XVal.cmp]
    · have : ¬ le ≥ 0 := by omega
      simp [he, this, XVal.cmp]
  · rw [fbig_value_inf lp hi1, fbig_value_inf rp hi2]
    have h1 : ls = 0 ∧ le ≠ 0 := by simpa [fIsInf] using hi1
    have h2 : rs = 0 ∧ re ≠ 0 := by simpa [fIsInf] using hi2
    simp only [Bool.and_self, if_true, Bool.false_eq_true, if_false]
    rcases w1 h1.1 with h | h | h <;> rcases w2 h2.1 with h' | h' | h' <;>
      first | (exfalso; omega) | (subst h; subst h'; simp [XVal.cmp]; try decide)

theorem fltMag_pos {B : Nat} (hB : 2 ≤ B) {s : Int} (e : Int) (h : s ≠ 0) : 0 < fltMag B s e := by
  have hBpos : (0 : ℝ) < B := by exact_mod_cast (by omega : 0 < B)
  unfold fltMag
  have : (0 : ℝ) < |(s : ℝ)| := by positivity
  exact mul_pos this (zpow_pos hBpos e)

theorem fltMag_zero (B : Nat) (e : Int) : fltMag B 0 e = 0 := by simp [fltMag]

/-- `repr_cmp_same_base::<B, true>` with `Some(precisions)`: `AbsOrd for FBig` -/
theorem reprCmpSameBase_abs_spec {o : Oracle} (ho : o.Sound) {B : Nat} (hB : 2 ≤ B)
    (ls le rs re : Int) (lp rp : Nat) (hp1 : PrecOK B ls lp) (hp2 : PrecOK B rs rp) :
    some (reprCmpSameBase o true B ls le rs re (some (lp, rp)))
      = XVal.absCmp (Num.fbig B ls le lp).value (Num.fbig B rs re rp).value := by
  unfold reprCmpSameBase
  cases hi1 : fIsInf ls le <;> cases hi2 : fIsInf rs re
  · rw [fbig_value_fin lp hi1, fbig_value_fin rp hi2, abs_value_cmp]
    simp only [Bool.false_eq_true, Bool.and_self, if_false, if_true]
    congr 1
    rw [flt_cross_abs_eq_cmpR hB]
    by_cases hz1 : ls = 0 <;> by_cases hz2 : rs = 0
    · have z1 := (fIsZero_iff hi1).2 hz1
      have z2 := (fIsZero_iff hi2).2 hz2
      simp only [z1, z2, Bool.and_self, if_true]
      apply Eq.symm; apply cmpR_eq
      rw [hz1, hz2, fltMag_zero, fltMag_zero]
    · have z2 : fIsZero rs re = false := by
        rw [Bool.eq_false_iff]; exact fun h => hz2 ((fIsZero_iff hi2).1 h)
      simp only [(fIsZero_iff hi1).2 hz1, z2, Bool.and_false, Bool.false_eq_true, if_false, if_true]
      apply Eq.symm; apply cmpR_lt
      rw [hz1, fltMag_zero]; exact fltMag_pos hB re hz2
    · have z1 : fIsZero ls le = false := by
        rw [Bool.eq_false_iff]; exact fun h => hz1 ((fIsZero_iff hi1).1 h)
      simp only [(fIsZero_iff hi2).2 hz2, z1, Bool.false_and, Bool.false_eq_true, if_false, if_true]
      apply Eq.symm; apply cmpR_gt
      rw [hz2, fltMag_zero]; exact fltMag_pos hB le hz1
    · have z1 : fIsZero ls le = false := by
        rw [Bool.eq_false_iff]; exact fun h => hz1 ((fIsZero_iff hi1).1 h)
      have z2 : fIsZero rs re = false := by
        rw [Bool.eq_false_iff]; exact fun h => hz2 ((fIsZero_iff hi2).1 h)
      simp only [z1, z2, Bool.and_self, Bool.false_eq_true, if_false]
      exact sameBase_tail ho hB hz1 hz2 lp rp hp1 hp2 .pos _ _
        (fun h => cmpR_gt h) (fun h => cmpR_lt h) (sameBase_exact_abs hB ls le rs re)
  · rw [fbig_value_fin lp hi1, fbig_value_inf rp hi2]
    simp only [Bool.false_and, Bool.false_eq_true, if_false, if_true, Bool.true_or]
    by_cases he : re > 0 <;> simp [he, XVal.absCmp, XVal.abs, XVal.cmp]
  · rw [fbig_value_inf lp hi1, fbig_value_fin rp hi2]
    simp only [Bool.and_false, Bool.false_eq_true, if_false, if_true, Bool.true_or]
    by_cases he : le > 0 <;> simp [he, XVal.absCmp, XVal.abs, XVal.cmp]
  · rw [fbig_value_inf lp hi1, fbig_value_inf rp hi2]
    simp only [Bool.and_self, if_true]
    by_cases he : le > 0 <;> by_cases he' : re > 0 <;> simp [he, he', XVal.absCmp, XVal.abs, XVal.cmp]

end Dashu.Model.Cross
