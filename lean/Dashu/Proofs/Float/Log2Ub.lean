import Dashu.Proofs.Float.F32
/-
  The UPPER `log2_bounds` estimate of the std path of `base/src/math/log.rs` (`impl_log2_bounds_for_uint!`, every unsigned
  primitive up to `u128`, i.e. every inline significand), written with the concrete binary32 rounding `rne32`, and the proof
  that it is an upper bound of `log₂ n` — assumption (A) of `Props/C10Est.lean` — from a hypothesis about libm's `log2f` ALONE:

      if n.is_power_of_two()        { trailing_zeros as f32 }
      else if nbits <= 24           { next_up((n as f32).log2()) }
      else { shifted = (n >> (nbits-24)) as f32;  next_up((shifted + 1.).log2() + (nbits-24) as f32) }

  (LIBM↑)  for every integer `1 ≤ m ≤ 2²⁴`: `log₂ m ≤ next_up(log2f m)` (at most one ulp too small), and for `2²³ < m ≤ 2²⁴`
           the result is a binary32 number of `[16, 32)` (true of any `log2f` with an error below 7: the exact value is in (23, 24]).
  Everything else — the conversions, `shifted + 1.`, the sum `est + shift`, `next_up` — is IEEE arithmetic and proved.
-/
namespace Dashu.Model.Float
open Real

/-- the hypothesis about libm's `log2f` (upper side) -/
structure Log2fUpper (log2f : ℝ → ℝ) : Prop where
  acc : ∀ m : Nat, 1 ≤ m → m ≤ 2 ^ 24 → Real.logb 2 m ≤ nextUp32 (log2f m)
  grid : ∀ m : Nat, 2 ^ 23 < m → m ≤ 2 ^ 24 →
    ∃ z : ℤ, 8388608 ≤ z ∧ z < 16777216 ∧ log2f m = (z : ℝ) * (2 : ℝ) ^ (-19 : ℤ)

/-- `log2_bounds(n).1` of the std path, every `f32` operation an `rne32` -/
noncomputable def log2UbStd (log2f : ℝ → ℝ) (n : Nat) : ℝ :=
  let nbits := Nat.log2 n + 1
  if n = 2 ^ (nbits - 1) then rne32 ((nbits - 1 : Nat) : ℝ)
  else if nbits ≤ 24 then nextUp32 (log2f (rne32 (n : ℝ)))
  else nextUp32 (rne32 (log2f (rne32 (rne32 ((n / 2 ^ (nbits - 24) : Nat) : ℝ) + 1)) + rne32 ((nbits - 24 : Nat) : ℝ)))

theorem logb_two_pow (j : Nat) : Real.logb 2 ((2 ^ j : Nat) : ℝ) = j := by
  push_cast
  rw [Real.logb_pow, Real.logb_self_eq_one (by norm_num), mul_one]

/-- **(A) for every inline significand from the libm hypothesis alone** -/
theorem log2UbStd_sound (log2f : ℝ → ℝ) (h : Log2fUpper log2f) (n : Nat) (hn : 0 < n) (hbits : Nat.log2 n + 1 ≤ 2 ^ 24) :
    Real.logb 2 n ≤ log2UbStd log2f n := by
  have h1 : 2 ^ Nat.log2 n ≤ n := Nat.log2_self_le (by omega)
  have h2 : n < 2 ^ (Nat.log2 n + 1) := Nat.lt_log2_self
  unfold log2UbStd
  simp only [Nat.add_sub_cancel]
  by_cases hp : n = 2 ^ Nat.log2 n
  · rw [if_pos hp, rne32_natCast _ (by omega)]
    conv_lhs => rw [hp]
    exact le_of_eq (logb_two_pow _)
  · rw [if_neg hp]
    by_cases h24 : Nat.log2 n + 1 ≤ 24
    · rw [if_pos h24]
      have hlt : n < 2 ^ 24 := lt_of_lt_of_le h2 (Nat.pow_le_pow_right (by norm_num) h24)
      rw [rne32_natCast n (le_of_lt hlt)]
      exact h.acc n hn (le_of_lt hlt)
    · rw [if_neg h24]
      obtain ⟨s, hs⟩ : ∃ s, Nat.log2 n + 1 = s + 24 := ⟨Nat.log2 n + 1 - 24, by omega⟩
      have hs1 : 1 ≤ s := by omega
      rw [show Nat.log2 n + 1 - 24 = s by omega]
      set shifted := n / 2 ^ s with hsh
      have hpow : 0 < 2 ^ s := by positivity
      -- 2^23 ≤ shifted < 2^24
      have hlo : 2 ^ 23 ≤ shifted := by
        rw [hsh, Nat.le_div_iff_mul_le hpow, ← Nat.pow_add, show 23 + s = Nat.log2 n by omega]
        exact h1
      have hhi : shifted < 2 ^ 24 := by
        rw [hsh, Nat.div_lt_iff_lt_mul hpow, ← Nat.pow_add, show 24 + s = Nat.log2 n + 1 by omega]
        exact h2
      have hnlt : n < (shifted + 1) * 2 ^ s := (Nat.div_lt_iff_lt_mul hpow).mp (Nat.lt_succ_self _)
      -- the conversions and `shifted + 1.` are exact
      rw [rne32_natCast shifted (le_of_lt hhi), rne32_natCast s (by omega)]
      have e1 : (shifted : ℝ) + 1 = ((shifted + 1 : Nat) : ℝ) := by push_cast; ring
      rw [e1, rne32_natCast (shifted + 1) (by omega)]
      obtain ⟨z, hz1, hz2, hz⟩ := h.grid (shifted + 1) (by omega) (by omega)
      have hacc := h.acc (shifted + 1) (by omega) (by omega)
      rw [hz] at hacc ⊢
      have hG := grid_fact z s hz1 hz2
      -- log₂ n ≤ log₂ ((shifted+1)·2^s) = log₂ (shifted+1) + s
      have hnR : (0 : ℝ) < (n : ℝ) := by exact_mod_cast hn
      have a1 : Real.logb 2 n ≤ Real.logb 2 (((shifted + 1) * 2 ^ s : Nat) : ℝ) :=
        Real.logb_le_logb_of_le (by norm_num) hnR (by exact_mod_cast (le_of_lt hnlt))
      have a2 : Real.logb 2 (((shifted + 1) * 2 ^ s : Nat) : ℝ) = Real.logb 2 ((shifted + 1 : Nat) : ℝ) + s := by
        push_cast
        rw [Real.logb_mul (by positivity) (by positivity), Real.logb_pow, Real.logb_self_eq_one (by norm_num), mul_one]
      linarith

end Dashu.Model.Float
