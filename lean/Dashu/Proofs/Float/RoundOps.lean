import Dashu.Proofs.Float.ReprRound
/-
  `FBig::{trunc, floor, ceil, round, fract, split_at_point, to_int}`, `Repr::to_int` and the
  rational `trunc/floor/ceil/round/fract`: each names the neighbour its definition prescribes.

  A float with a negative exponent is `s / D` with `D = B^(-exp)`; "the neighbour" is stated with the
  relational specifications of `Props/GenRound.lean` (`IsFloor s D t`, …).
-/
namespace Dashu.Model.Float
open Dashu Dashu.Props.GenRound

/-- the unit of the radix point: `B^(-exp)` -/
def pointUnit (B : Nat) (r : FRepr) : Int := ((B ^ (-r.exp).toNat : Nat) : Int)

theorem pointUnit_pos (B : Nat) (hB : 2 ≤ B) (r : FRepr) : 0 < pointUnit B r := by
  unfold pointUnit
  have : 0 < B ^ (-r.exp).toNat := Nat.pow_pos (by omega)
  exact_mod_cast this

/-- value of a float with negative exponent: `s / D` -/
theorem toRat_neg_exp (B : Nat) (hB : 2 ≤ B) (r : FRepr) (he : r.exp < 0) :
    r.toRat B * (pointUnit B r : ℚ) = (r.signif : ℚ) := by
  unfold FRepr.toRat pointUnit
  have hB0 : 0 < B := by omega
  have h1 : ((B ^ (-r.exp).toNat : Nat) : ℚ) = bpowQ B (-r.exp) := by
    rw [← bpowQ_nat, Int.toNat_of_nonneg (by omega)]
  push_cast at h1 ⊢
  rw [mul_assoc, h1, ← bpowQ_add B hB0]
  simp [bpowQ]

/-- every mode's specification holds for an exact multiple -/
theorem modeSpec_exact (m : Mode) (hi D : Int) (hD : 0 < D) : ModeSpec m (hi * D) D hi := by
  have e1 : (hi + 1) * D = hi * D + D := by ring
  have e2 : (hi - 1) * D = hi * D - D := by ring
  cases m <;> simp only [ModeSpec, IsTowardZero, IsAwayFromZero, IsFloor, IsCeil, IsNearestEven, IsNearestAway, e1, e2]
  · split <;> constructor <;> omega
  · split <;> constructor <;> omega
  · constructor <;> omega
  · constructor <;> omega
  · have : 2 * (hi * D) - 2 * (hi * D) = 0 := by ring
    rw [this]; simp; omega
  · have : 2 * (hi * D) - 2 * (hi * D) = 0 := by ring
    rw [this]; simp; omega

/-- `round_fract` names the right neighbour also when the fraction is zero -/
theorem roundFract_spec' (B : Nat) (hB : 2 ≤ B) (m : Mode) (c : Coarse) (hc : CoarseSound c) (n f : Int) (k : Nat)
    (hlt : |f| < ((B ^ k : Nat) : Int)) :
    ModeSpec m (n * ((B ^ k : Nat) : Int) + f) ((B ^ k : Nat) : Int) (n + rInt (roundFract B m c n f k)) := by
  by_cases hf : f = 0
  · subst hf
    rw [roundFract_zero]
    have hD : (0 : Int) < ((B ^ k : Nat) : Int) := by
      have : 0 < B ^ k := Nat.pow_pos (by omega)
      exact_mod_cast this
    simpa [rInt] using modeSpec_exact m n _ hD
  · exact roundFract_spec B (by omega) m c hc n f k hf hlt

/-- what `smaller_than_one` guarantees (for a sound `digits_ub`): `B²·|s| < D`, in particular
    `|x| < 1/4` -/
theorem smaller_bound (B : Nat) (hB : 2 ≤ B) (dub : Int → Nat) (hdub : DubSound B dub) (r : FRepr)
    (hsm : r.exp + (dub r.signif : Int) < -1) :
    ((B ^ 2 : Nat) : Int) * |r.signif| < pointUnit B r := by
  unfold pointUnit
  have hB0 : 0 < B := by omega
  have hd := hdub r.signif
  have hlt : r.signif.natAbs < B ^ digitsI B r.signif := digits_lt_pow B hB _
  have hk : digitsI B r.signif + 2 ≤ (-r.exp).toNat := by omega
  have : B ^ 2 * r.signif.natAbs < B ^ (-r.exp).toNat := by
    calc B ^ 2 * r.signif.natAbs < B ^ 2 * B ^ digitsI B r.signif :=
          Nat.mul_lt_mul_of_pos_left hlt (Nat.pow_pos hB0)
      _ = B ^ (digitsI B r.signif + 2) := by rw [Nat.add_comm, Nat.pow_add]
      _ ≤ B ^ (-r.exp).toNat := Nat.pow_le_pow_right hB0 hk
  rw [← Int.natCast_natAbs]
  exact_mod_cast this

theorem four_le_sq (B : Nat) (hB : 2 ≤ B) : (4 : Int) ≤ ((B ^ 2 : Nat) : Int) := by
  have : 4 ≤ B ^ 2 := by nlinarith
  exact_mod_cast this

/-- `split_at_point_internal`: `(hi, lo, k)` with `s = hi·D + lo`, `|lo| < D`, `k = -exp` -/
theorem splitInternal_spec (B : Nat) (hB : 2 ≤ B) (dub : Int → Nat) (hdub : DubSound B dub) (x : FBigM)
    (he : x.repr.exp < 0) :
    let s := splitAtPointInternal B dub x
    s.2.2 = (-x.repr.exp).toNat ∧
    x.repr.signif = s.1 * pointUnit B x.repr + s.2.1 ∧ |s.2.1| < pointUnit B x.repr := by
  unfold splitAtPointInternal
  by_cases hsm : smallerThanOne dub x.repr = true
  · simp only [hsm, if_true]
    refine ⟨trivial, by simp, ?_⟩
    have h1 : x.repr.exp + (dub x.repr.signif : Int) < -1 := by simpa [smallerThanOne] using hsm
    have hb := smaller_bound B hB dub hdub x.repr h1
    have h4 := four_le_sq B hB
    have : 0 ≤ |x.repr.signif| := abs_nonneg _
    nlinarith
  · simp only [hsm, if_false, Bool.false_eq_true]
    obtain ⟨h1, h2, _, _⟩ := splitDigits_spec B hB x.repr.signif (-x.repr.exp).toNat
    exact ⟨trivial, h1, h2⟩

theorem new_int_value (B : Nat) (hB : 2 ≤ B) (t : Int) : (FRepr.new B t 0).toRat B = (t : ℚ) := by
  rw [FRepr.new_value B (by omega)]; simp [bpowQ]

/-- rounding to an integer through `split_at_point_internal` and `round_fract` in mode `m'` -/
theorem roundVia_spec (B : Nat) (hB : 2 ≤ B) (m' : Mode) (c : Coarse) (hc : CoarseSound c) (dub : Int → Nat)
    (hdub : DubSound B dub) (x : FBigM) (he : x.repr.exp < 0) :
    let s := splitAtPointInternal B dub x
    ModeSpec m' x.repr.signif (pointUnit B x.repr) (s.1 + rInt (roundFract B m' c s.1 s.2.1 s.2.2)) := by
  intro s
  obtain ⟨hk, hs, hlt⟩ := splitInternal_spec B hB dub hdub x he
  have := roundFract_spec' B hB m' c hc s.1 s.2.1 s.2.2 (by rw [hk]; exact hlt)
  rw [hk] at this ⊢
  unfold pointUnit at hs ⊢
  rw [← hs] at this
  exact this

/-! ### the rational roundings (`rational/src/round.rs`) -/

theorem q_decomp (num : Int) (den : Nat) (hden : 0 < den) :
    num = Int.tdiv num den * (den : Int) + Int.tmod num den ∧ |Int.tmod num den| < (den : Int) ∧
    (0 ≤ num → 0 ≤ Int.tmod num den) ∧ (num ≤ 0 → Int.tmod num den ≤ 0) := by
  obtain ⟨a, b, c, d⟩ := tdiv_tmod_abs num den (by exact_mod_cast hden)
  exact ⟨a, b, fun h => (c h).1, fun h => (d h).1⟩

theorem qTrunc_spec (num : Int) (den : Nat) (hden : 0 < den) : IsTowardZero num den (qTrunc num den) := by
  obtain ⟨a, b, c, d⟩ := q_decomp num den hden
  have hb := abs_lt.mp b
  unfold IsTowardZero IsFloor IsCeil qTrunc
  have e1 : (Int.tdiv num den + 1) * (den : Int) = Int.tdiv num den * (den : Int) + den := by ring
  have e2 : (Int.tdiv num den - 1) * (den : Int) = Int.tdiv num den * (den : Int) - den := by ring
  rw [e1, e2]
  split
  · have := c ‹_›; constructor <;> omega
  · have := d (by omega); constructor <;> omega

theorem qFloor_spec (num : Int) (den : Nat) (hden : 0 < den) : IsFloor num den (qFloor num den) := by
  obtain ⟨a, b, c, d⟩ := q_decomp num den hden
  have hb := abs_lt.mp b
  unfold IsFloor qFloor
  simp only
  split
  · have e1 : (Int.tdiv num den - 1 + 1) * (den : Int) = Int.tdiv num den * (den : Int) := by ring
    have e2 : (Int.tdiv num den - 1) * (den : Int) = Int.tdiv num den * (den : Int) - den := by ring
    rw [e1, e2]; constructor <;> omega
  · have e1 : (Int.tdiv num den + 1) * (den : Int) = Int.tdiv num den * (den : Int) + den := by ring
    rw [e1]; constructor <;> omega

theorem qCeil_spec (num : Int) (den : Nat) (hden : 0 < den) : IsCeil num den (qCeil num den) := by
  obtain ⟨a, b, c, d⟩ := q_decomp num den hden
  have hb := abs_lt.mp b
  unfold IsCeil qCeil
  simp only
  split
  · have e1 : (Int.tdiv num den + 1 - 1) * (den : Int) = Int.tdiv num den * (den : Int) := by ring
    have e2 : (Int.tdiv num den + 1) * (den : Int) = Int.tdiv num den * (den : Int) + den := by ring
    rw [e1, e2]; constructor <;> omega
  · have e1 : (Int.tdiv num den - 1) * (den : Int) = Int.tdiv num den * (den : Int) - den := by ring
    rw [e1]; constructor <;> omega

theorem qRound_spec (num : Int) (den : Nat) (hden : 0 < den) : IsNearestAway num den (qRound num den) := by
  obtain ⟨a, b, c, d⟩ := q_decomp num den hden
  have hb := abs_lt.mp b
  unfold IsNearestAway qRound
  simp only
  have hna : ((Int.tmod num den).natAbs : Int) = |Int.tmod num den| := Int.natCast_natAbs _
  generalize hq : Int.tdiv num den = q at *
  generalize hr : Int.tmod num den = r at *
  have e1 : (q + 1) * (den : Int) = q * (den : Int) + den := by ring
  have e2 : (q - 1) * (den : Int) = q * (den : Int) - den := by ring
  by_cases hge : 2 * r.natAbs ≥ den
  · have hge' : (den : Int) ≤ 2 * |r| := by rw [← hna]; exact_mod_cast hge
    simp only [hge, if_true]
    by_cases hn : num ≥ 0
    · have hr0 := c hn
      rw [abs_of_nonneg hr0] at hge'
      simp only [hn, if_true, e1]
      have hab : |2 * num - 2 * (q * (den : Int) + den)| = 2 * (den : Int) - 2 * r := by
        rw [abs_of_nonpos (by omega)]; omega
      rw [hab]
      refine ⟨by omega, fun _ => ?_⟩
      have hqd : 0 ≤ q * (den : Int) := by
        have := (tdiv_tmod_abs num den (by exact_mod_cast hden)).2.2.1 hn
        rw [hq] at this
        exact Int.mul_nonneg this.2 (by omega)
      rw [abs_of_nonneg hn, abs_of_nonneg (by omega)]; omega
    · have hn' : num ≤ 0 := by omega
      have hr0 := d hn'
      rw [abs_of_nonpos hr0] at hge'
      simp only [hn, if_false, e2]
      have hab : |2 * num - 2 * (q * (den : Int) - den)| = 2 * (den : Int) + 2 * r := by
        rw [abs_of_nonneg (by omega)]; omega
      rw [hab]
      refine ⟨by omega, fun _ => ?_⟩
      have hqd : q * (den : Int) ≤ 0 := by
        have := (tdiv_tmod_abs num den (by exact_mod_cast hden)).2.2.2 hn'
        rw [hq] at this
        have h0 : 0 ≤ -q := by omega
        have := Int.mul_nonneg h0 (by omega : (0 : Int) ≤ den)
        linarith
      rw [abs_of_nonpos hn', abs_of_nonpos (by omega)]; omega
  · have hlt' : 2 * |r| < (den : Int) := by
      rw [← hna]; have : 2 * r.natAbs < den := by omega
      exact_mod_cast this
    simp only [hge, if_false]
    have hab : |2 * num - 2 * (q * (den : Int))| = 2 * |r| := by
      have : 2 * num - 2 * (q * (den : Int)) = 2 * r := by omega
      rw [this, abs_mul]; simp
    rw [hab]
    exact ⟨by omega, fun h => by omega⟩

/-- `trunc + fract = x` for rationals: `num = trunc·den + fractNum` -/
theorem q_trunc_add_fract (num : Int) (den : Nat) : num = qTrunc num den * (den : Int) + qFractNum num den := by
  unfold qTrunc qFractNum
  have := Int.mul_tdiv_add_tmod num den
  linarith

end Dashu.Model.Float
