import Dashu.Proofs.Float.Estimate
import Dashu.Proofs.Float.F32
import Dashu.Proofs.Float.Log2Ub
import Dashu.Proofs.Float.Log2Large
/-
  The LOWER `f32` digit estimate `Repr::digits_lb` (float/src/repr.rs):

      digits_lb(n) = match B { 2 => lb, 10 => lb * LOG10_2, _ => lb / log2_bounds(B).1 } as usize
      where lb = log2_bounds(n).0

  and the enclosure `digits_lb ≤ digits` (hypothesis `DlbSound` of `Model/Float/Repr.lean`, carried by the theorems about
  `Context::div`'s pre-shrink and `sub_ulp`).  Differences to the upper estimate (`Proofs/Float/Estimate.lean`):
  * the constant `LOG10_2` is on the UNSAFE side for a lower bound (`LOG10_2 > log₁₀ 2`, by a relative `< 2⁻²²`), and the product
    is rounded to nearest, so for base 10 `digits_lb ≤ digits − 1` does NOT follow from `lb ≤ log₂ n`; what does follow (and what
    `DlbSound` asks) is `digits_lb ≤ digits`, using the relative error bound of the rounding and `digits ≤ 2²¹`;
  * for the other bases monotonicity + small integers fixed suffices (`t < digits ⇒ fl t ≤ digits`).
-/
namespace Dashu.Model.Float
open Real

/-- `digits_lb` with the `f32` ingredients as parameters: `lb = log2_bounds(n).0`, `L = LOG10_2`, `ubB = log2_bounds(B).1`,
    `fl` the rounding of the single multiplication / division; `as usize` of a non-negative finite value is the floor -/
noncomputable def digitsLbReal (B : Nat) (fl : ℝ → ℝ) (lb L ubB : ℝ) : Nat :=
  if B = 2 then ⌊lb⌋₊ else if B = 10 then ⌊fl (lb * L)⌋₊ else ⌊fl (lb / ubB)⌋₊

theorem logb_lt_digits (B : Nat) (hB : 2 ≤ B) (n : Nat) (hn : 0 < n) : Real.logb B n < (digits B n : ℝ) := by
  obtain ⟨_, _, h2⟩ := digits_spec B hB n hn
  have hB1 : (1 : ℝ) < (B : ℝ) := by exact_mod_cast (by omega : 1 < B)
  have hn0 : (0 : ℝ) < (n : ℝ) := by exact_mod_cast hn
  have hlt : (n : ℝ) < (B : ℝ) ^ (digits B n) := by exact_mod_cast h2
  have := Real.logb_lt_logb hB1 hn0 hlt
  rw [Real.logb_pow, Real.logb_self_eq_one hB1, mul_one] at this
  exact this

/-- the other side of the constant: `LOG10_2 ≤ log₁₀ 2 · (1 + 2⁻²²)` (through `10^643 ≤ 2^2136`) -/
theorem log10_2_f32_le : log10_2_f32 ≤ Real.logb 10 2 * (1 + 1 / 4194304) := by
  have hnat : (10 : ℕ) ^ 643 ≤ 2 ^ 2136 := by decide +kernel
  have hreal : (10 : ℝ) ^ (643 : ℕ) ≤ (2 : ℝ) ^ (2136 : ℕ) := by exact_mod_cast hnat
  have hlog := Real.log_le_log (by positivity) hreal
  rw [Real.log_pow, Real.log_pow] at hlog
  have h10 : (0 : ℝ) < Real.log 10 := Real.log_pos (by norm_num)
  have h : (643 : ℝ) / 2136 ≤ Real.logb 10 2 := by
    unfold Real.logb
    rw [div_le_div_iff₀ (by norm_num) h10]
    push_cast at hlog
    linarith
  unfold log10_2_f32
  have : (10100891 : ℝ) / 33554432 ≤ 643 / 2136 * (1 + 1 / 4194304) := by norm_num
  have h2 : (643 : ℝ) / 2136 * (1 + 1 / 4194304) ≤ Real.logb 10 2 * (1 + 1 / 4194304) :=
    mul_le_mul_of_nonneg_right h (by norm_num)
  linarith

/-- **`digits_lb ≤ digits`** under: `0 ≤ lb ≤ log₂ n`; `fl` monotone, fixing the integers `≤ 2²⁴`, of relative error `≤ 2⁻²⁴`;
    `L ≤ log₁₀ 2 · (1 + 2⁻²²)`; `log₂ B ≤ ubB`; `digits ≤ 2²¹` -/
theorem digitsLb_le_digits (B : Nat) (hB : 2 ≤ B) (n : Nat) (hn : 0 < n) (fl : ℝ → ℝ) (lb L ubB : ℝ)
    (hlb0 : 0 ≤ lb) (hlb : lb ≤ Real.logb 2 n)
    (hmono : Monotone fl) (hfix : ∀ k : Nat, k ≤ 2 ^ 24 → fl k = k) (hrel : RelRound fl)
    (hsmall : digits B n ≤ 2 ^ 21)
    (hL0 : 0 ≤ L) (hL : L ≤ Real.logb 10 2 * (1 + 1 / 4194304)) (hub : Real.logb 2 B ≤ ubB) :
    digitsLbReal B fl lb L ubB ≤ digits B n := by
  have hlt := logb_lt_digits B hB n hn
  have hd24 : digits B n ≤ 2 ^ 24 := le_trans hsmall (by norm_num)
  unfold digitsLbReal
  by_cases h2 : B = 2
  · subst h2
    simp only [if_true]
    apply Nat.floor_le_of_le
    have : Real.logb ((2 : ℕ) : ℝ) n = Real.logb 2 n := by norm_num
    rw [this] at hlt
    linarith
  · simp only [h2, if_false]
    by_cases h10 : B = 10
    · subst h10
      simp only [if_true]
      have hlog10 : (0 : ℝ) < Real.log 10 := Real.log_pos (by norm_num)
      have hlog2 : (0 : ℝ) < Real.log 2 := Real.log_pos (by norm_num)
      have hcb : Real.logb (10 : ℕ) n = Real.logb 2 n * Real.logb 10 2 := by
        unfold Real.logb; push_cast; field_simp
      have hl0 : 0 ≤ Real.logb 10 2 := Real.logb_nonneg (by norm_num) (by norm_num)
      have hn0 : 0 ≤ Real.logb 2 n := le_trans hlb0 hlb
      -- t = lb * L ≤ log₁₀ n · (1 + 2⁻²²)
      have ht0 : 0 ≤ lb * L := mul_nonneg hlb0 hL0
      have ht : lb * L ≤ Real.logb (10 : ℕ) n * (1 + 1 / 4194304) := by
        rw [hcb]
        calc lb * L ≤ Real.logb 2 n * L := mul_le_mul_of_nonneg_right hlb hL0
          _ ≤ Real.logb 2 n * (Real.logb 10 2 * (1 + 1 / 4194304)) := mul_le_mul_of_nonneg_left hL hn0
          _ = Real.logb 2 n * Real.logb 10 2 * (1 + 1 / 4194304) := by ring
      have hfl := hrel.le_up (lb * L) ht0
      have hdR : ((digits 10 n : Nat) : ℝ) ≤ 2097152 := by exact_mod_cast hsmall
      have hu : u32 = 1 / 16777216 := rfl
      have hlt' : fl (lb * L) < ((digits 10 n : Nat) : ℝ) + 1 := by
        have a1 : lb * L < ((digits 10 n : Nat) : ℝ) * (1 + 1 / 4194304) := by
          have : Real.logb (10 : ℕ) n * (1 + 1 / 4194304) < ((digits 10 n : Nat) : ℝ) * (1 + 1 / 4194304) :=
            mul_lt_mul_of_pos_right hlt (by norm_num)
          linarith
        have a2 : lb * L * (1 + u32) < ((digits 10 n : Nat) : ℝ) * (1 + 1 / 4194304) * (1 + u32) :=
          mul_lt_mul_of_pos_right a1 (by rw [hu]; norm_num)
        have a3 : ((digits 10 n : Nat) : ℝ) * (1 + 1 / 4194304) * (1 + u32) ≤ ((digits 10 n : Nat) : ℝ) + 1 := by
          rw [hu]
          have hd0 : (0 : ℝ) ≤ ((digits 10 n : Nat) : ℝ) := Nat.cast_nonneg _
          nlinarith
        linarith
      have hfl0 : 0 ≤ fl (lb * L) := by
        have := hmono ht0
        have h0 : fl ((0 : Nat) : ℝ) = ((0 : Nat) : ℝ) := hfix 0 (by norm_num)
        simp only [Nat.cast_zero] at h0
        rw [h0] at this
        exact this
      have : ⌊fl (lb * L)⌋₊ < digits 10 n + 1 := by
        rw [Nat.floor_lt hfl0]
        push_cast
        exact hlt'
      omega
    · simp only [h10, if_false]
      have hB1 : (1 : ℝ) < (B : ℝ) := by exact_mod_cast (by omega : 1 < B)
      have hlogB : (0 : ℝ) < Real.log B := Real.log_pos hB1
      have hlog2 : (0 : ℝ) < Real.log 2 := Real.log_pos (by norm_num)
      have hcb : Real.logb B n = Real.logb 2 n / Real.logb 2 B := by
        unfold Real.logb; field_simp
      have hLB : 0 < Real.logb 2 B := Real.logb_pos (by norm_num) hB1
      have ht : lb / ubB ≤ ((digits B n : Nat) : ℝ) := by
        have h1 : lb / ubB ≤ lb / Real.logb 2 B := div_le_div_of_nonneg_left hlb0 hLB hub
        have h2' : lb / Real.logb 2 B ≤ Real.logb 2 n / Real.logb 2 B := div_le_div_of_nonneg_right hlb (le_of_lt hLB)
        rw [hcb] at hlt
        linarith
      have := hmono ht
      rw [hfix _ hd24] at this
      exact Nat.floor_le_of_le this

/-- the enclosure hypothesis `DlbSound` for the estimator built from sound ingredients -/
theorem dlbSound_of_assumptions (B : Nat) (hB : 2 ≤ B) (fl : ℝ → ℝ) (lb : Nat → ℝ) (L ubB : ℝ)
    (hA : ∀ n : Nat, 0 < n → 0 ≤ lb n ∧ lb n ≤ Real.logb 2 n)
    (hmono : Monotone fl) (hfix : ∀ k : Nat, k ≤ 2 ^ 24 → fl k = k) (hrel : RelRound fl)
    (hsmall : ∀ n : Nat, digits B n ≤ 2 ^ 21)
    (hL0 : 0 ≤ L) (hL : L ≤ Real.logb 10 2 * (1 + 1 / 4194304)) (hub : Real.logb 2 B ≤ ubB) :
    DlbSound B (fun v => if v = 0 then 0 else digitsLbReal B fl (lb v.natAbs) L ubB) := by
  intro v
  by_cases hv : v = 0
  · subst hv; simp
  · simp only [hv, if_false]
    have hp := Int.natAbs_pos.mpr hv
    exact digitsLb_le_digits B hB v.natAbs hp fl _ L ubB (hA _ hp).1 (hA _ hp).2 hmono hfix hrel (hsmall _) hL0 hL hub

/-- **`digits_lb ≤ digits` from (LIBM) alone**: `digits_lb` of `float/src/repr.rs` with `log2_bounds` of the significand (`.0`)
    and of the base (`.1`) = their models, all arithmetic `rne32`; every base `B ≥ 2` of at most `2²⁴` bits, every significand
    of at most `2³⁰` bits and `2²¹` digits -/
theorem digitsLb_sound_libm (log2f : ℝ → ℝ) (h : Log2fSound log2f) (B : Nat) (hB : 2 ≤ B) (hBw : Nat.log2 B + 1 ≤ 2 ^ 24)
    (n : Nat) (hn : 0 < n) (hbits : Nat.log2 n + 1 ≤ 2 ^ 30) (hsmall : digits B n ≤ 2 ^ 21) :
    digitsLbReal B rne32 (log2LbModel log2f n) log10_2_f32 (log2UbStd log2f B) ≤ digits B n := by
  have hm := (log2Model_sound log2f h n hn hbits).1
  have hb := log2UbStd_sound log2f h.upper B (by omega) hBw
  exact digitsLb_le_digits B hB n hn rne32 _ _ _ hm.1 hm.2.1 rne32_mono rne32_natCast rne32_relRound hsmall
    (by unfold log10_2_f32; norm_num) log10_2_f32_le hb

/-- non-vacuity: decimal `1001` (the doc example of `digits_lb`) meets the size hypotheses -/
example : Nat.log2 1001 + 1 ≤ 2 ^ 30 ∧ digits 10 1001 ≤ 2 ^ 21 := by decide

end Dashu.Model.Float
