import Dashu.Proofs.Float.AddSplit
/-
  The two closing clauses of C03:
  * "when `x` is representable in `p` digits the result is exactly `x`" — a consequence of the
    contract (the result lies on the grid of the error unit), `Contract.representable_exact`,
    `ContractSqrt.representable_exact`;
  * "no result carries more than `p+1` significant digits" — digit-length lemmas per operation,
    saying exactly when the `p+1`-st digit can occur.
-/
namespace Dashu.Model.Float
open Dashu

theorem bpowQ_lt_bpowQ (B : Nat) (hB : 2 ≤ B) (a b : Int) (h : bpowQ B a < bpowQ B b) : a < b := by
  rw [bpowQ_eq_zpow, bpowQ_eq_zpow] at h
  have h1 : (1 : ℚ) < (B : ℚ) := by exact_mod_cast (by omega : 1 < B)
  exact (zpow_lt_zpow_iff_right₀ h1).mp h

/-- a representable non-zero `x` with `B^(e+p-1) ≤ |x|` is an integer multiple of `B^e` -/
theorem representable_on_grid (B : Nat) (hB : 2 ≤ B) (p : Nat) (x : ℚ) (e : Int)
    (hrep : Representable B p x) (hulp : bpowQ B (e + p - 1) ≤ |x|) : ∃ N : Int, x = (N : ℚ) * bpowQ B e := by
  have hB0 : 0 < B := by omega
  obtain ⟨M, j, hM, hx⟩ := hrep
  have hu := bpowQ_pos B hB0 j
  have hlt : |x| < bpowQ B ((p : Int) + j) := by
    rw [hx, abs_mul, abs_of_pos hu, bpowQ_add B hB0, bpowQ_nat]
    apply mul_lt_mul_of_pos_right _ hu
    have : ((M.natAbs : Nat) : ℚ) < ((B ^ p : Nat) : ℚ) := by exact_mod_cast hM
    rw [← Int.cast_abs, ← Int.natCast_natAbs]
    exact_mod_cast this
  have hej : e + p - 1 < p + j := bpowQ_lt_bpowQ B hB _ _ (lt_of_le_of_lt hulp hlt)
  have hje : j = ((j - e).toNat : Int) + e := by
    rw [Int.toNat_of_nonneg (by omega)]; ring
  refine ⟨M * ((B ^ (j - e).toNat : Nat) : Int), ?_⟩
  rw [hx]
  conv_lhs => rw [hje]
  rw [bpowQ_add B hB0, bpowQ_nat]; push_cast; ring

/-- two multiples of `u > 0` closer than `u` are equal -/
theorem grid_eq (t N : Int) (u : ℚ) (hu : 0 < u) (h : |(t : ℚ) * u - (N : ℚ) * u| < u) : (t : ℚ) * u = (N : ℚ) * u := by
  have h1 : |((t - N : Int) : ℚ)| * u < 1 * u := by
    have : (t : ℚ) * u - (N : ℚ) * u = ((t - N : Int) : ℚ) * u := by push_cast; ring
    rw [this, abs_mul, abs_of_pos hu] at h
    linarith
  have h2 := lt_of_mul_lt_mul_right h1 (le_of_lt hu)
  have h3 : |t - N| < 1 := by
    have : ((|t - N| : Int) : ℚ) < ((1 : Int) : ℚ) := by rw [Int.cast_abs]; simpa using h2
    exact_mod_cast this
  have h4 : t - N = 0 := by
    have := abs_nonneg (t - N)
    have : |t - N| = 0 := by omega
    exact abs_eq_zero.mp this
  have : t = N := by omega
  rw [this]

/-- **first closing clause**: under the contract, a true result that is representable in `p` digits is
    returned exactly and flagged `Exact` -/
theorem Contract.representable_exact {B : Nat} {m : Mode} {p : Nat} {x r : ℚ} {flag : Option Rounding}
    (hB : 2 ≤ B) (h : Contract B m p x r flag) (hrep : Representable B p x) : r = x ∧ flag = none := by
  have hB0 : 0 < B := by omega
  by_cases hne : r = x
  · exact ⟨hne, h.exact_iff.mpr hne⟩
  · exfalso
    obtain ⟨e, hulp, herr, t, ht⟩ := h.err hne
    rw [absQ_eq] at hulp
    obtain ⟨N, hN⟩ := representable_on_grid B hB p x e hrep hulp
    have hu := bpowQ_pos B hB0 e
    apply hne
    rw [ht, hN]
    apply grid_eq t N _ hu
    rw [← ht, ← hN]
    unfold errOk at herr
    rw [absQ_eq] at herr
    by_cases hh : m.isHalf = true
    · simp only [hh, if_true] at herr
      have := abs_nonneg (r - x)
      linarith
    · simp only [hh, if_false, Bool.false_eq_true] at herr
      exact herr

/-- the same for the square root: if `√v` is a number `w ≥ 0` representable in `p` digits, the result is `w`
    and it is flagged `Exact` -/
theorem ContractSqrt.representable_exact {B : Nat} {m : Mode} {p : Nat} {v r : ℚ} {flag : Option Rounding}
    (hB : 2 ≤ B) (h : ContractSqrt B m p v r flag) (w : ℚ) (hw0 : 0 ≤ w) (hrep : Representable B p w)
    (hwv : w * w = v) : r = w ∧ flag = none := by
  have hB0 : 0 < B := by omega
  have hr0 := h.nonneg
  by_cases hne : r * r = v
  · refine ⟨?_, h.exact_iff.mpr hne⟩
    have : r * r = w * w := by rw [hne, hwv]
    nlinarith [mul_self_eq_mul_self_iff.mp this]
  · exfalso
    obtain ⟨e, hulp, herr, t, ht⟩ := h.err hne
    have hu := bpowQ_pos B hB0 e
    have hup := bpowQ_pos B hB0 (e + p - 1)
    rw [← hwv] at hulp
    have hulp' : bpowQ B (e + p - 1) ≤ |w| := by
      rw [abs_of_nonneg hw0]
      by_contra hc
      have : w < bpowQ B (e + p - 1) := lt_of_not_ge hc
      nlinarith
    obtain ⟨N, hN⟩ := representable_on_grid B hB p w e hrep hulp'
    apply hne
    have hrw : r = w := by
      rw [ht, hN]
      apply grid_eq t N _ hu
      rw [← ht, ← hN]
      unfold errSqrtOk at herr
      rw [← hwv] at herr
      rw [abs_lt]
      by_cases hh : m.isHalf = true
      · simp only [hh, if_true] at herr
        obtain ⟨h1, h2⟩ := herr
        unfold leSqrt at h1
        unfold geSqrt at h2
        have a : r - bpowQ B e / 2 ≤ w := by
          rcases h1 with h1 | h1
          · linarith
          · by_contra hc
            have : w < r - bpowQ B e / 2 := lt_of_not_ge hc
            nlinarith
        have b : w ≤ r + bpowQ B e / 2 := by
          by_contra hc
          have : r + bpowQ B e / 2 < w := lt_of_not_ge hc
          nlinarith [h2.1, h2.2]
        constructor <;> linarith
      · simp only [hh, if_false, Bool.false_eq_true] at herr
        obtain ⟨h1, h2⟩ := herr
        unfold ltSqrt at h1
        unfold gtSqrt at h2
        have a : r - bpowQ B e < w := by
          rcases h1 with h1 | h1
          · linarith
          · by_contra hc
            have : w ≤ r - bpowQ B e := le_of_not_gt hc
            nlinarith
        have b : w < r + bpowQ B e := by
          by_contra hc
          have : r + bpowQ B e ≤ w := le_of_not_gt hc
          nlinarith [h2.1, h2.2]
        constructor <;> linarith
    rw [hrw, hwv]

/-! ### second closing clause: digit lengths -/

theorem neg_emod_zero_iff (s : Int) (B : Nat) : (-s) % (B : Int) = 0 ↔ s % (B : Int) = 0 := by
  constructor
  · intro h; exact Int.emod_eq_zero_of_dvd ((Int.dvd_neg).mp (Int.dvd_of_emod_eq_zero h))
  · intro h; exact Int.emod_eq_zero_of_dvd ((Int.dvd_neg).mpr (Int.dvd_of_emod_eq_zero h))

theorem stripAux_neg (B : Nat) : ∀ fuel (s e : Int),
    stripAux B fuel (-s) e = (-(stripAux B fuel s e).1, (stripAux B fuel s e).2) := by
  intro fuel
  induction fuel with
  | zero => intro s e; rfl
  | succ fuel ih =>
    intro s e
    unfold stripAux
    by_cases h : s % (B : Int) = 0
    · have h' : (-s) % (B : Int) = 0 := (neg_emod_zero_iff s B).mpr h
      simp only [h, h', if_true]
      rw [Int.neg_ediv_of_dvd (Int.dvd_of_emod_eq_zero h)]
      exact ih _ _
    · have h' : ¬ (-s) % (B : Int) = 0 := fun hc => h ((neg_emod_zero_iff s B).mp hc)
      simp only [h, h', if_false]

theorem new_neg (B : Nat) (t e : Int) : FRepr.new B (-t) e = (FRepr.new B t e).neg := by
  unfold FRepr.new FRepr.neg
  by_cases h : t = 0
  · subst h; simp
  · have h' : ¬ -t = 0 := by omega
    simp only [h, h', if_false, Int.natAbs_neg, stripAux_neg]

theorem digits_neg (B : Nat) (r : FRepr) : r.neg.digits B = r.digits B := by
  unfold FRepr.digits FRepr.neg digitsI; simp

/-- `Repr::new` of `|t| ≤ B^q` has at most `q` digits (`±B^q` normalises to `±1`) -/
theorem new_digits_le_abs (B : Nat) (hB : 2 ≤ B) (q : Nat) (hq : 1 ≤ q) (t e : Int)
    (h : |t| ≤ ((B ^ q : Nat) : Int)) : (FRepr.new B t e).digits B ≤ q := by
  rcases le_total 0 t with h0 | h0
  · rw [abs_of_nonneg h0] at h
    exact new_digits_le B hB q hq t e h0 h
  · rw [abs_of_nonpos h0] at h
    have := new_digits_le B hB q hq (-t) e (by omega) h
    rw [new_neg, digits_neg] at this
    exact this

theorem rInt_abs_le (a : Rounding) : |rInt a| ≤ 1 := by cases a <;> simp [rInt]

/-- the high part of `split_digits` : `|hi|·B^k ≤ |v|` -/
theorem split_hi_abs_le (B : Nat) (hB : 2 ≤ B) (v : Int) (k : Nat) :
    |(splitDigits B v k).1| * ((B ^ k : Nat) : Int) ≤ |v| := by
  obtain ⟨hsplit, _, hpos, hneg⟩ := splitDigits_spec B hB v k
  generalize splitDigits B v k = hl at *
  have hD := natpow_pos B (by omega) k
  rcases le_total 0 v with h | h
  · have := hpos h
    have h2 : 0 ≤ hl.1 * ((B ^ k : Nat) : Int) := Int.mul_nonneg this.2 (le_of_lt hD)
    rw [abs_of_nonneg this.2, abs_of_nonneg h]; omega
  · have := hneg h
    have h2 : hl.1 * ((B ^ k : Nat) : Int) ≤ 0 := Int.mul_nonpos_of_nonpos_of_nonneg this.2 (le_of_lt hD)
    rw [abs_of_nonpos this.2, abs_of_nonpos h]
    have : -hl.1 * ((B ^ k : Nat) : Int) = -(hl.1 * ((B ^ k : Nat) : Int)) := by ring
    omega

/-- splitting a number of `q + k` digits `k` digits from the end leaves fewer than `q+1` digits -/
theorem split_hi_lt (B : Nat) (hB : 2 ≤ B) (v : Int) (k q : Nat) (h : |v| < ((B ^ (q + k) : Nat) : Int)) :
    |(splitDigits B v k).1| < ((B ^ q : Nat) : Int) := by
  have h1 := split_hi_abs_le B hB v k
  have hD := natpow_pos B (by omega) k
  rw [natpow_add] at h
  exact lt_of_mul_lt_mul_right (lt_of_le_of_lt h1 h) (le_of_lt hD)

theorem abs_add_rInt_le (x : Int) (a : Rounding) (N : Int) (h : |x| < N) : |x + rInt a| ≤ N := by
  have h1 := abs_add_le x (rInt a)
  have h2 := rInt_abs_le a
  omega

theorem digitsI_abs_lt (B : Nat) (hB : 2 ≤ B) (v : Int) : |v| < ((B ^ digitsI B v : Nat) : Int) := by
  rw [← Int.natCast_natAbs]
  exact_mod_cast digits_lt_pow B hB v.natAbs

/-- **`repr_round` never returns more than `p` digits** (any operand, normalised or not) -/
theorem reprRound_digits_le (B : Nat) (hB : 2 ≤ B) (m : Mode) (c : Coarse) (p : Nat) (hp : 1 ≤ p) (r : FRepr) :
    (reprRound B m c p r).1.digits B ≤ p := by
  unfold reprRound
  have hp0 : p ≠ 0 := by omega
  simp only [hp0, if_false]
  by_cases hd : r.digits B > p
  · simp only [hd, if_true]
    apply new_digits_le_abs B hB p hp
    apply abs_add_rInt_le
    apply split_hi_lt B hB
    have := digitsI_abs_lt B hB r.signif
    have e : p + (r.digits B - p) = digitsI B r.signif := by unfold FRepr.digits at *; omega
    rw [e]; exact this
  · simp only [hd, if_false]; omega

/-- `Repr::new` never has more digits than its argument -/
theorem new_digits_le_digits (B : Nat) (hB : 2 ≤ B) (t e : Int) (q : Nat) (hq : 1 ≤ q)
    (h : |t| < ((B ^ q : Nat) : Int)) : (FRepr.new B t e).digits B ≤ q :=
  new_digits_le_abs B hB q hq t e (le_of_lt h)

set_option maxHeartbeats 1000000 in
/-- **`repr_round_sum` returns at most `rnd_precision = p (+1 for a subtraction)` digits** -/
theorem reprRoundSum_digits_le (B : Nat) (hB : 2 ≤ B) (m : Mode) (c : Coarse) (p : Nat) (hp : 1 ≤ p)
    (s e lv : Int) (lk : Nat) (isSub : Bool) (hA : |lv| < ((B ^ lk : Nat) : Int)) :
    (reprRoundSum B m c p s e (lv, lk) isSub).1.digits B ≤ p + (if isSub = true then 1 else 0) := by
  have hB0 : 0 < B := by omega
  have hp0 : p ≠ 0 := by omega
  have hsd := digitsI_abs_lt B hB s
  unfold reprRoundSum
  try simp only [shlDigits_eq, shrDigits_eq]
  simp only [hp0, if_false]
  generalize hrnd : p + (if isSub = true then 1 else 0) = rndP at *
  have hr1 : 1 ≤ rndP := by rw [← hrnd]; omega
  by_cases h1 : digitsI B s = rndP
  · simp only [h1, if_true]
    rw [h1] at hsd
    by_cases hl0 : lv = 0
    · simp only [hl0, if_true]
      exact new_digits_le_digits B hB _ _ rndP hr1 hsd
    · simp only [hl0, if_false]
      exact new_digits_le_abs B hB rndP hr1 _ _ (abs_add_rInt_le _ _ _ hsd)
  · simp only [h1, if_false]
    by_cases h2 : digitsI B s > rndP
    · simp only [h2, if_true]
      have hhi : |(splitDigits B s (digitsI B s - rndP)).1| < ((B ^ rndP : Nat) : Int) := by
        apply split_hi_lt B hB
        have e1 : rndP + (digitsI B s - rndP) = digitsI B s := by omega
        rw [e1]; exact hsd
      by_cases hl0 : lv + (splitDigits B s (digitsI B s - rndP)).2 * ((B ^ lk : Nat) : Int) = 0
      · simp only [hl0, if_true]
        exact new_digits_le_digits B hB _ _ rndP hr1 hhi
      · simp only [hl0, if_false]
        exact new_digits_le_abs B hB rndP hr1 _ _ (abs_add_rInt_le _ _ _ hhi)
    · simp only [h2, if_false]
      by_cases hl0 : lv = 0
      · simp only [hl0, ne_eq, not_true_eq_false, if_false, if_true]
        apply new_digits_le_digits B hB _ _ rndP hr1
        have : ((B ^ digitsI B s : Nat) : Int) ≤ ((B ^ rndP : Nat) : Int) := pow_le_pow_int B hB0 _ _ (by omega)
        omega
      · simp only [hl0, ne_eq, not_false_eq_true, if_true]
        generalize hshift : min lk (rndP - digitsI B s) = sh at *
        have hshle : sh ≤ lk := by rw [← hshift]; omega
        have hshd : digitsI B s + sh ≤ rndP := by rw [← hshift]; omega
        -- |pad| < B^sh
        have hpad : |(splitDigits B lv (lk - sh)).1| < ((B ^ sh : Nat) : Int) := by
          apply split_hi_lt B hB
          have e1 : sh + (lk - sh) = lk := by omega
          rw [e1]; exact hA
        generalize splitDigits B lv (lk - sh) = pl at *
        have hDs := natpow_pos B hB0 sh
        -- |s·B^sh + pad| < B^(d+sh) ≤ B^rndP
        have hS : |s * ((B ^ sh : Nat) : Int) + pl.1| < ((B ^ rndP : Nat) : Int) := by
          have h3 : |s * ((B ^ sh : Nat) : Int) + pl.1| ≤ |s| * ((B ^ sh : Nat) : Int) + |pl.1| := by
            have := abs_add_le (s * ((B ^ sh : Nat) : Int)) pl.1
            rw [abs_mul, abs_of_pos hDs] at this; exact this
          have h4 : (|s| + 1) * ((B ^ sh : Nat) : Int) ≤ ((B ^ digitsI B s : Nat) : Int) * ((B ^ sh : Nat) : Int) :=
            Int.mul_le_mul_of_nonneg_right (by omega) (le_of_lt hDs)
          have e4 : (|s| + 1) * ((B ^ sh : Nat) : Int) = |s| * ((B ^ sh : Nat) : Int) + ((B ^ sh : Nat) : Int) := by ring
          have h5 : ((B ^ digitsI B s : Nat) : Int) * ((B ^ sh : Nat) : Int) ≤ ((B ^ rndP : Nat) : Int) := by
            rw [← natpow_add]; exact pow_le_pow_int B hB0 _ _ hshd
          omega
        by_cases hr0 : pl.2 = 0
        · simp only [hr0, if_true]
          exact new_digits_le_digits B hB _ _ rndP hr1 hS
        · simp only [hr0, if_false]
          exact new_digits_le_abs B hB rndP hr1 _ _ (abs_add_rInt_le _ _ _ hS)

theorem two_le_ite (c : Prop) [Decidable c] (n : Nat) : 2 ≤ if c then 2 else n + 2 := by
  split <;> omega

theorem sgn_abs_one (v : Int) (hv : v ≠ 0) : |sgn v| = 1 := by
  rcases sgn_cases v hv with ⟨h, _⟩ | ⟨h, _⟩ <;> rw [h] <;> simp

/-- `repr_add_large_small`: at most `p` digits for an addition of magnitudes, `p+1` for a subtraction -/
theorem reprAddLargeSmall_digits_le (B : Nat) (hB : 2 ≤ B) (m : Mode) (c : Coarse) (dub : Int → Nat)
    (p : Nat) (hp : 1 ≤ p) (lhs rhs : FRepr) (rs : Int) (hrs : rs = 1 ∨ rs = -1) (hr0 : rhs.signif ≠ 0) :
    (reprAddLargeSmall B m c dub p lhs rhs rs).1.digits B ≤
      p + (if decide (sgn lhs.signif ≠ rs * sgn rhs.signif) = true then 1 else 0) := by
  have hB0 : 0 < B := by omega
  unfold reprAddLargeSmall
  try simp only [shlDigits_eq, shrDigits_eq]
  generalize decide (sgn lhs.signif ≠ rs * sgn rhs.signif) = isSub
  have hrsabs : ∀ v : Int, |rs * v| = |v| := fun v => abs_sign_mul rs v hrs
  try dsimp only
  by_cases h1 : p ≠ 0 ∧ dub rhs.signif + 1 < (lhs.exp - rhs.exp).toNat ∧
      dub rhs.signif + 1 + (p + if isSub = true then 1 else 0) < lhs.digits B + (lhs.exp - rhs.exp).toNat
  · rw [if_pos h1]
    -- far apart: stand-in ±1 with at least 2 digits
    apply reprRoundSum_digits_le B hB m c p hp
    rw [hrsabs, sgn_abs_one _ hr0]
    have h4 := four_le_sq B hB
    have : ((B ^ 2 : Nat) : Int) ≤ ((B ^ (if lhs.digits B ≥ p + (if isSub = true then 1 else 0) then 2
        else p + (if isSub = true then 1 else 0) - lhs.digits B + 2) : Nat) : Int) := by
      apply pow_le_pow_int B hB0
      exact two_le_ite _ _
    omega
  · rw [if_neg h1]
    by_cases h2 : p ≠ 0 ∧ lhs.digits B ≥ p
    · rw [if_pos h2]
      apply reprRoundSum_digits_le B hB m c p hp
      rw [hrsabs]
      exact (splitDigits_spec B hB rhs.signif _).2.1
    · rw [if_neg h2]
      by_cases h3 : p ≠ 0 ∧ (lhs.exp - rhs.exp).toNat + lhs.digits B > p
      · rw [if_pos h3]
        apply reprRoundSum_digits_le B hB m c p hp
        rw [hrsabs]
        exact (splitDigits_spec B hB rhs.signif _).2.1
      · rw [if_neg h3]
        apply reprRoundSum_digits_le B hB m c p hp
        simp

/-- **`Context::add` / `sub`: at most `p+1` digits, and at most `p` unless the operation is an effective
    subtraction (operands of opposite effective sign) of operands with different exponents** -/
theorem ctxAddSub_digits_le (B : Nat) (hB : 2 ≤ B) (m : Mode) (c : Coarse) (dub : Int → Nat)
    (p : Nat) (hp : 1 ≤ p) (lhs rhs : FRepr) (rs : Int) (hrs : rs = 1 ∨ rs = -1)
    (hwl : lhs.signif = 0 → lhs.exp = 0) (hwr : rhs.signif = 0 → rhs.exp = 0) :
    (ctxAddSub B m c dub p lhs rhs rs).1.digits B ≤ p + 1 ∧
    ((lhs.isZero = true ∨ rhs.isZero = true ∨ lhs.exp = rhs.exp ∨ sgn lhs.signif = rs * sgn rhs.signif) →
      (ctxAddSub B m c dub p lhs rhs rs).1.digits B ≤ p) := by
  unfold ctxAddSub
  by_cases hlz : lhs.isZero = true
  · simp only [hlz, if_true]
    have h1 : ∀ r, (reprRound B m c p r).1.digits B ≤ p := reprRound_digits_le B hB m c p hp
    constructor
    · split <;> exact Nat.le_succ_of_le (h1 _)
    · intro _; split <;> exact h1 _
  · simp only [hlz, if_false, Bool.false_eq_true]
    by_cases hrz : rhs.isZero = true
    · simp only [hrz, if_true]
      have := reprRound_digits_le B hB m c p hp lhs
      exact ⟨by omega, fun _ => this⟩
    · simp only [hrz, if_false, Bool.false_eq_true]
      have hl0 : lhs.signif ≠ 0 := by
        intro h0; apply hlz; unfold FRepr.isZero; simp [h0, hwl h0]
      have hr0 : rhs.signif ≠ 0 := by
        intro h0; apply hrz; unfold FRepr.isZero; simp [h0, hwr h0]
      by_cases he : lhs.exp = rhs.exp
      · simp only [he, if_true]
        have := reprRound_digits_le B hB m c p hp (FRepr.new B (lhs.signif + rs * rhs.signif) rhs.exp)
        exact ⟨by omega, fun _ => this⟩
      · simp only [he, if_false]
        by_cases hgt : lhs.exp > rhs.exp
        · simp only [hgt, if_true]
          have key := reprAddLargeSmall_digits_le B hB m c dub p hp lhs rhs rs hrs hr0
          constructor
          · split at key <;> omega
          · intro h
            have hs : sgn lhs.signif = rs * sgn rhs.signif := by
              rcases h with h | h | h | h
              · exact h.elim
              · exact h.elim
              · exact h.elim
              · exact h
            simpa [hs] using key
        · simp only [hgt, if_false]
          have key := reprAddLargeSmall_digits_le B hB m c dub p hp ⟨rs * rhs.signif, rhs.exp⟩ lhs 1 (Or.inl rfl) hl0
          simp only [one_mul, sgn_mul_sign rs rhs.signif hrs] at key
          constructor
          · split at key <;> omega
          · intro h
            have hs : rs * sgn rhs.signif = sgn lhs.signif := by
              rcases h with h | h | h | h
              · exact h.elim
              · exact h.elim
              · exact h.elim
              · exact h.symm
            simpa [hs] using key

/-! ### division -/

theorem abs_tdiv_mul_le (a b : Int) : |Int.tdiv a b| * |b| ≤ |a| := by
  have := natAbs_tdiv_mul_le a b
  have h : (((Int.tdiv a b).natAbs * b.natAbs : Nat) : Int) ≤ ((a.natAbs : Nat) : Int) := by exact_mod_cast this
  push_cast at h
  simpa using h

theorem abs_tdiv_lt (r b D : Int) (hb : b ≠ 0) (hD : 0 < D) (hr : |r| < |b|) : |Int.tdiv (r * D) b| < D := by
  have h1 := abs_tdiv_mul_le (r * D) b
  rw [abs_mul, abs_of_pos hD] at h1
  have hbp : 0 < |b| := abs_pos.mpr hb
  have h2 : |r| * D < |b| * D := Int.mul_lt_mul_of_pos_right hr hD
  have h3 : |Int.tdiv (r * D) b| * |b| < D * |b| := by
    have : |b| * D = D * |b| := by ring
    omega
  exact lt_of_mul_lt_mul_right h3 (le_of_lt hbp)

set_option maxHeartbeats 1000000 in
/-- the aligned quotient of `repr_div` has at most `p+1` digits when the dividend has at most
    `rhs.digits + p` digits, and at most `p` when the first quotient is non-zero and below `B^p` -/
theorem divAlign_quot_bound (B : Nat) (hB : 2 ≤ B) (p : Nat) (hp : 1 ≤ p) (a b e : Int) (hb : b ≠ 0)
    (hfit : digitsI B a ≤ digitsI B b + p) (hr : Int.tmod a b ≠ 0) :
    |(divAlign B p b (Int.tdiv a b) (Int.tmod a b) e).1| < ((B ^ (p + 1) : Nat) : Int) ∧
    (Int.tdiv a b ≠ 0 → |Int.tdiv a b| < ((B ^ p : Nat) : Int) →
      |(divAlign B p b (Int.tdiv a b) (Int.tmod a b) e).1| < ((B ^ p : Nat) : Int)) := by
  have hB0 : 0 < B := by omega
  obtain ⟨hdec, hrlt⟩ := tdiv_tmod_nz a b hb
  have hbp : 0 < |b| := abs_pos.mpr hb
  obtain ⟨hbdpos, hblo, _⟩ := digitsI_spec B hB b hb
  have ha := digitsI_abs_lt B hB a
  -- generic: |q|·|b| < B^(dd+p) ⇒ |q| < B^(p+1)
  have quot_lt : ∀ q : Int, |q| * |b| < ((B ^ (digitsI B b + p) : Nat) : Int) → |q| < ((B ^ (p + 1) : Nat) : Int) := by
    intro q hq
    have e1 : ((B ^ (digitsI B b + p) : Nat) : Int) = ((B ^ (p + 1) : Nat) : Int) * ((B ^ (digitsI B b - 1) : Nat) : Int) := by
      rw [← natpow_add]; congr 2; omega
    have h2 : |q| * ((B ^ (digitsI B b - 1) : Nat) : Int) ≤ |q| * |b| := Int.mul_le_mul_of_nonneg_left hblo (abs_nonneg _)
    rw [e1] at hq
    exact lt_of_mul_lt_mul_right (lt_of_le_of_lt h2 hq) (le_of_lt (natpow_pos B hB0 _))
  have hq0 : |Int.tdiv a b| < ((B ^ (p + 1) : Nat) : Int) := by
    apply quot_lt
    have h1 := abs_tdiv_mul_le a b
    have h2 : ((B ^ digitsI B a : Nat) : Int) ≤ ((B ^ (digitsI B b + p) : Nat) : Int) := pow_le_pow_int B hB0 _ _ hfit
    omega
  unfold divAlign
  try simp only [shlDigits_eq, shrDigits_eq]
  by_cases hq : Int.tdiv a b = 0
  · simp only [hq, if_true, ne_eq, not_true_eq_false, false_implies, and_true]
    have har : Int.tmod a b = a := by rw [hq] at hdec; omega
    rw [har] at hr hrlt ⊢
    obtain ⟨hadpos, halo, _⟩ := digitsI_spec B hB a hr
    have hrd : digitsI B a ≤ digitsI B b := by
      have h1 : ((B ^ (digitsI B a - 1) : Nat) : Int) < ((B ^ digitsI B b : Nat) : Int) := by
        have := digitsI_abs_lt B hB b; omega
      have h2 : B ^ (digitsI B a - 1) < B ^ digitsI B b := by exact_mod_cast h1
      have := (Nat.pow_lt_pow_iff_right (by omega : 1 < B)).mp h2
      omega
    apply quot_lt
    have h1 := abs_tdiv_mul_le (a * ((B ^ (digitsI B b + p - digitsI B a) : Nat) : Int)) b
    rw [abs_mul, abs_of_pos (natpow_pos B hB0 _)] at h1
    have h2 : |a| * ((B ^ (digitsI B b + p - digitsI B a) : Nat) : Int) <
        ((B ^ digitsI B a : Nat) : Int) * ((B ^ (digitsI B b + p - digitsI B a) : Nat) : Int) :=
      Int.mul_lt_mul_of_pos_right ha (natpow_pos B hB0 _)
    have e2 : ((B ^ digitsI B a : Nat) : Int) * ((B ^ (digitsI B b + p - digitsI B a) : Nat) : Int) =
        ((B ^ (digitsI B b + p) : Nat) : Int) := by
      rw [← natpow_add]; congr 2; omega
    omega
  · simp only [hq, if_false]
    obtain ⟨hqdpos, hqlo, _⟩ := digitsI_spec B hB _ hq
    have hqhi := digitsI_abs_lt B hB (Int.tdiv a b)
    by_cases hsh : digitsI B (Int.tdiv a b) + digitsI B b < digitsI B b + p
    · simp only [hsh, if_true]
      have hs : digitsI B b + p - (digitsI B (Int.tdiv a b) + digitsI B b) = p - digitsI B (Int.tdiv a b) := by omega
      rw [hs]
      generalize hsn : p - digitsI B (Int.tdiv a b) = sh
      have hDs := natpow_pos B hB0 sh
      have hsmall : |Int.tdiv a b * ((B ^ sh : Nat) : Int) + Int.tdiv (Int.tmod a b * ((B ^ sh : Nat) : Int)) b| <
          ((B ^ p : Nat) : Int) := by
        have h1 := abs_add_le (Int.tdiv a b * ((B ^ sh : Nat) : Int)) (Int.tdiv (Int.tmod a b * ((B ^ sh : Nat) : Int)) b)
        rw [abs_mul, abs_of_pos hDs] at h1
        have h2 := abs_tdiv_lt (Int.tmod a b) b _ hb hDs hrlt
        have h3 : (|Int.tdiv a b| + 1) * ((B ^ sh : Nat) : Int) ≤
            ((B ^ digitsI B (Int.tdiv a b) : Nat) : Int) * ((B ^ sh : Nat) : Int) :=
          Int.mul_le_mul_of_nonneg_right (by omega) (le_of_lt hDs)
        have e3 : (|Int.tdiv a b| + 1) * ((B ^ sh : Nat) : Int) = |Int.tdiv a b| * ((B ^ sh : Nat) : Int) + ((B ^ sh : Nat) : Int) := by ring
        have e4 : ((B ^ digitsI B (Int.tdiv a b) : Nat) : Int) * ((B ^ sh : Nat) : Int) = ((B ^ p : Nat) : Int) := by
          rw [← natpow_add]; congr 2; omega
        omega
      have hpp : ((B ^ p : Nat) : Int) ≤ ((B ^ (p + 1) : Nat) : Int) := pow_le_pow_int B hB0 _ _ (by omega)
      exact ⟨by omega, fun _ _ => hsmall⟩
    · simp only [hsh, if_false]
      exact ⟨hq0, fun _ h => h⟩

/-- **`repr_div` returns at most `p+1` digits** for a dividend of at most `rhs.digits + p` digits, and at most
    `p` digits whenever the integer quotient of the significands is non-zero and below `B^p` — so for
    operands that fit `p` the `p+1`-st digit appears only when `|lhs.signif| < |rhs.signif|`. -/
theorem reprDiv_digits_le (B : Nat) (hB : 2 ≤ B) (m : Mode) (p : Nat) (hp : 1 ≤ p) (lhs rhs : FRepr)
    (hb : rhs.signif ≠ 0) (hfit : lhs.digits B ≤ rhs.digits B + p) :
    ∃ r, reprDiv B m p lhs rhs = .ok r ∧ r.1.digits B ≤ p + 1 ∧
      (Int.tdiv lhs.signif rhs.signif ≠ 0 → |Int.tdiv lhs.signif rhs.signif| < ((B ^ p : Nat) : Int) →
        r.1.digits B ≤ p) := by
  have hB0 : 0 < B := by omega
  have hp0 : p ≠ 0 := by omega
  unfold FRepr.digits at hfit
  unfold reprDiv
  try simp only [shlDigits_eq, shrDigits_eq]
  simp only [hp0, hb, if_false]
  have hq0 : |Int.tdiv lhs.signif rhs.signif| < ((B ^ (p + 1) : Nat) : Int) := by
    obtain ⟨_, hblo, _⟩ := digitsI_spec B hB rhs.signif hb
    have ha := digitsI_abs_lt B hB lhs.signif
    have h1 := abs_tdiv_mul_le lhs.signif rhs.signif
    have h2 : ((B ^ digitsI B lhs.signif : Nat) : Int) ≤ ((B ^ (digitsI B rhs.signif + p) : Nat) : Int) :=
      pow_le_pow_int B hB0 _ _ hfit
    have e1 : ((B ^ (digitsI B rhs.signif + p) : Nat) : Int) =
        ((B ^ (p + 1) : Nat) : Int) * ((B ^ (digitsI B rhs.signif - 1) : Nat) : Int) := by
      rw [← natpow_add]; congr 2; omega
    have h3 : |Int.tdiv lhs.signif rhs.signif| * ((B ^ (digitsI B rhs.signif - 1) : Nat) : Int) ≤
        |Int.tdiv lhs.signif rhs.signif| * |rhs.signif| := Int.mul_le_mul_of_nonneg_left hblo (abs_nonneg _)
    have h4 : |Int.tdiv lhs.signif rhs.signif| * ((B ^ (digitsI B rhs.signif - 1) : Nat) : Int) <
        ((B ^ (p + 1) : Nat) : Int) * ((B ^ (digitsI B rhs.signif - 1) : Nat) : Int) := by omega
    exact lt_of_mul_lt_mul_right h4 (le_of_lt (natpow_pos B hB0 _))
  by_cases hr0 : Int.tmod lhs.signif rhs.signif = 0
  · simp only [hr0, if_true]
    exact ⟨_, rfl, new_digits_le_digits B hB _ _ (p + 1) (by omega) hq0,
      fun _ h => new_digits_le_digits B hB _ _ p hp h⟩
  · simp only [hr0, if_false]
    obtain ⟨h1, h2⟩ := divAlign_quot_bound B hB p hp lhs.signif rhs.signif (lhs.exp - rhs.exp) hb hfit hr0
    generalize divAlign B p rhs.signif (Int.tdiv lhs.signif rhs.signif) (Int.tmod lhs.signif rhs.signif)
      (lhs.exp - rhs.exp) = t at *
    by_cases ht0 : t.2.1 = 0
    · simp only [ht0, if_true]
      exact ⟨_, rfl, new_digits_le_digits B hB _ _ (p + 1) (by omega) h1,
        fun a b => new_digits_le_digits B hB _ _ p hp (h2 a b)⟩
    · simp only [ht0, if_false]
      exact ⟨_, rfl, new_digits_le_abs B hB (p + 1) (by omega) _ _ (abs_add_rInt_le _ _ _ h1),
        fun a b => new_digits_le_abs B hB p hp _ _ (abs_add_rInt_le _ _ _ (h2 a b))⟩

/-! ### the operations that end in `repr_round`: at most `p` digits -/

theorem ctxMul_digits_le (fixed : Bool) (B : Nat) (hB : 2 ≤ B) (m : Mode) (c : Coarse) (p : Nat) (hp : 1 ≤ p)
    (a b : FRepr) : (ctxMul fixed B m c p a b).1.digits B ≤ p := by
  unfold ctxMul; exact reprRound_digits_le B hB m c p hp _

theorem ctxSqr_digits_le (fixed : Bool) (B : Nat) (hB : 2 ≤ B) (m : Mode) (c : Coarse) (p : Nat) (hp : 1 ≤ p)
    (a : FRepr) : (ctxSqr fixed B m c p a).1.digits B ≤ p := by
  unfold ctxSqr; exact reprRound_digits_le B hB m c p hp _

theorem ctxCubic_digits_le (fixed : Bool) (B : Nat) (hB : 2 ≤ B) (m : Mode) (c : Coarse) (p : Nat) (hp : 1 ≤ p)
    (a : FRepr) : (ctxCubic fixed B m c p a).1.digits B ≤ p := by
  unfold ctxCubic; exact reprRound_digits_le B hB m c p hp _

theorem ctxSqrt_digits_le (B : Nat) (hB : 2 ≤ B) (m : Mode) (c : Coarse) (sr : Nat → Nat × Nat) (p : Nat) (hp : 1 ≤ p)
    (x : FRepr) (hs : 0 ≤ x.signif) : ∃ r, ctxSqrt B m c sr p x = .ok r ∧ r.1.digits B ≤ p := by
  have hp0 : p ≠ 0 := by omega
  have hneg : ¬ x.signif < 0 := by omega
  unfold ctxSqrt
  simp only [hp0, hneg, if_false]
  exact ⟨_, rfl, reprRound_digits_le B hB m c p hp _⟩

end Dashu.Model.Float
