import Dashu.Proofs.Float.Value
/-
  `Context::repr_round` honours the rounding contract, and what is built directly on it.
-/
namespace Dashu.Model.Float
open Dashu

theorem digitsI_spec (B : Nat) (hB : 2 ≤ B) (v : Int) (hv : v ≠ 0) :
    0 < digitsI B v ∧ ((B ^ (digitsI B v - 1) : Nat) : Int) ≤ |v| ∧ |v| < ((B ^ digitsI B v : Nat) : Int) := by
  have hpos : 0 < v.natAbs := Int.natAbs_pos.mpr hv
  obtain ⟨h0, h1, h2⟩ := digits_spec B hB v.natAbs hpos
  unfold digitsI
  refine ⟨h0, ?_, ?_⟩
  · rw [← Int.natCast_natAbs]; exact_mod_cast h1
  · rw [← Int.natCast_natAbs]; exact_mod_cast h2

theorem digitsI_zero (B : Nat) : digitsI B 0 = 0 := by simp [digitsI, digits_zero]

/-- rounding a significand `s = hi·B^k + lo` (`0 < |lo| < B^k`, `hi, lo` any signs) at digit `k`:
    the heart of `repr_round`, `repr_round_sum` and the integer roundings -/
theorem round_at_contract (B : Nat) (hB : 2 ≤ B) (m : Mode) (c : Coarse) (hc : CoarseSound c)
    (p : Nat) (hp : 1 ≤ p) (hi lo : Int) (k : Nat) (e : Int)
    (hlo : lo ≠ 0) (hlt : |lo| < ((B ^ k : Nat) : Int))
    (hulp : ((B ^ k : Nat) : Int) * ((B ^ (p - 1) : Nat) : Int) ≤ |hi * ((B ^ k : Nat) : Int) + lo|) :
    Contract B m p (((hi * ((B ^ k : Nat) : Int) + lo : Int) : ℚ) * bpowQ B e)
      ((FRepr.new B (hi + rInt (roundFract B m c hi lo k)) (e + k)).toRat B)
      (some (roundFract B m c hi lo k)) := by
  have hB0 : 0 < B := by omega
  have hD : (0 : Int) < ((B ^ k : Nat) : Int) := by
    have : 0 < B ^ k := Nat.pow_pos hB0
    exact_mod_cast this
  have hspec := roundFract_spec B (by omega) m c hc hi lo k hlo hlt
  have hic := icontract_of_spec m hi lo _ hD hlo hlt _ hspec
  have := contract_of_icontract B hB m p k hp _ _ _ e hic ⟨_, rfl⟩ hulp
  rw [FRepr.new_value B hB0, bpowQ_add B hB0, bpowQ_nat]
  have e1 : ((hi + rInt (roundFract B m c hi lo k) : Int) : ℚ) * (bpowQ B e * ((B ^ k : Nat) : ℚ)) =
      (((hi + rInt (roundFract B m c hi lo k)) * ((B ^ k : Nat) : Int) : Int) : ℚ) * bpowQ B e := by
    push_cast; ring
  rw [e1]
  exact this

/-- **`Context::repr_round` / `repr_round_ref` honour the rounding contract** for every base `≥ 2`,
    every precision `≥ 1`, every mode, every normalised operand and every sound coarse test. -/
theorem reprRound_contract (B : Nat) (hB : 2 ≤ B) (m : Mode) (c : Coarse) (hc : CoarseSound c)
    (p : Nat) (hp : 1 ≤ p) (r : FRepr) (hn : Normalized B r) :
    Contract B m p (r.toRat B) ((reprRound B m c p r).1.toRat B) (reprRound B m c p r).2 := by
  unfold reprRound
  have hp0 : p ≠ 0 := by omega
  simp only [hp0, if_false]
  by_cases hd : r.digits B > p
  · simp only [hd, if_true]
    have hs0 : r.signif ≠ 0 := by
      intro h; unfold FRepr.digits at hd; rw [h, digitsI_zero] at hd; omega
    obtain ⟨_, hlo, hhi⟩ := digitsI_spec B hB r.signif hs0
    obtain ⟨hsplit, hlt, _, _⟩ := splitDigits_spec B hB r.signif (r.digits B - p)
    have hB0 : 0 < B := by omega
    -- the low part is non-zero because the significand is not divisible by the base
    have hlo0 : (splitDigits B r.signif (r.digits B - p)).2 ≠ 0 := by
      intro h0
      rw [h0, add_zero] at hsplit
      have hk : r.digits B - p = (r.digits B - p - 1) + 1 := by omega
      have hdiv : r.signif % (B : Int) = 0 := by
        rw [hsplit, hk, Nat.pow_succ]
        push_cast
        rw [← mul_assoc]
        exact Int.mul_emod_left _ _
      rcases hn with h | h
      · exact hs0 h
      · exact h hdiv
    have hulp : ((B ^ (r.digits B - p) : Nat) : Int) * ((B ^ (p - 1) : Nat) : Int) ≤
        |(splitDigits B r.signif (r.digits B - p)).1 * ((B ^ (r.digits B - p) : Nat) : Int) +
          (splitDigits B r.signif (r.digits B - p)).2| := by
      rw [← hsplit]
      have : B ^ (r.digits B - p) * B ^ (p - 1) = B ^ (digitsI B r.signif - 1) := by
        rw [← Nat.pow_add]; congr 1; unfold FRepr.digits at *; omega
      calc ((B ^ (r.digits B - p) : Nat) : Int) * ((B ^ (p - 1) : Nat) : Int)
          = ((B ^ (digitsI B r.signif - 1) : Nat) : Int) := by rw [← this]; push_cast; rfl
        _ ≤ |r.signif| := hlo
    have key := round_at_contract B hB m c hc p hp _ _ (r.digits B - p) r.exp hlo0 hlt hulp
    rw [← hsplit] at key
    have ex : r.exp + ((r.digits B - p : Nat) : Int) = r.exp + ↑(r.digits B - p) := rfl
    exact key
  · simp only [hd, if_false]
    exact contract_exact B m p _

/-- the precision-unlimited context returns its argument -/
theorem reprRound_unlimited (B : Nat) (m : Mode) (c : Coarse) (r : FRepr) : reprRound B m c 0 r = (r, none) := by
  simp [reprRound]

/-- no result of `repr_round` carries more than `p` digits … -/
theorem reprRound_exact_of_fits (B : Nat) (m : Mode) (c : Coarse) (p : Nat) (r : FRepr) (h : r.digits B ≤ p) :
    reprRound B m c p r = (r, none) := by
  unfold reprRound
  by_cases hp : p = 0
  · simp [hp]
  · have : ¬ r.digits B > p := by omega
    simp [hp, this]

end Dashu.Model.Float
