import Dashu.Proofs.Float.Log2Large
/-
  Non-vacuity of the hypothesis (LIBM) = `Log2fSound`: the CORRECTLY ROUNDED logarithm `x ↦ rne32 (log₂ x)` satisfies it.
  (glibc's `log2f` is not claimed to be correctly rounded; the hypothesis only asks for an error of at most one ulp.)
-/
namespace Dashu.Model.Float
open Real

/-- a rounded value is at most half a spacing away, and `next_up` adds a whole spacing of the result's binade -/
theorem le_nextUp32_rneAbs (y : ℝ) (hy : 0 < y) : y ≤ nextUp32 (rneAbs y) := by
  have herr := (abs_le.mp (rneAbs_abs_err y hy)).1
  obtain ⟨hlow, _⟩ := rneAbs_binade y hy
  have hpos : 0 < (2 : ℝ) ^ (Int.log 2 y) := by positivity
  have hm : ulp32 y ≤ ulp32 (rneAbs y) := by
    unfold ulp32
    apply zpow_le_zpow_right₀ (by norm_num)
    have := (Int.zpow_le_iff_le_log (b := 2) (by norm_num) (lt_of_lt_of_le hpos hlow)).mp (by push_cast; exact hlow)
    omega
  have := ulp32_pos y
  unfold nextUp32; linarith

/-- … and `next_down` subtracts at least half a spacing of the argument's binade -/
theorem nextDown32_rneAbs_le (y : ℝ) (hy : 0 < y) : nextDown32 (rneAbs y) ≤ y := by
  set e := Int.log 2 y with hedef
  have hσ : ulp32 y = (2 : ℝ) ^ (e - 23) := rfl
  have herr := (abs_le.mp (rneAbs_abs_err y hy)).2
  rw [hσ] at herr
  obtain ⟨hlow, hhigh⟩ := rneAbs_binade y hy
  rw [← hedef] at hlow hhigh
  set r := rneAbs y with hrdef
  have hrpos : 0 < r := lt_of_lt_of_le (by positivity) hlow
  have hylow : (2 : ℝ) ^ e ≤ y := by
    have := Int.zpow_log_le_self (b := 2) (by norm_num) hy
    push_cast at this; exact this
  have hk1 : e ≤ Int.log 2 r := (Int.zpow_le_iff_le_log (b := 2) (by norm_num) hrpos).mp (by push_cast; exact hlow)
  have hσpos : (0 : ℝ) < (2 : ℝ) ^ (e - 23) := by positivity
  by_cases hp : r = (2 : ℝ) ^ (Int.log 2 r)
  · have hk2 : Int.log 2 r ≤ e + 1 := by
      have : (2 : ℝ) ^ (Int.log 2 r) ≤ (2 : ℝ) ^ (e + 1) := by rw [← hp]; exact hhigh
      exact (zpow_le_zpow_iff_right₀ (by norm_num : (1 : ℝ) < 2)).mp this
    unfold nextDown32
    rw [if_pos hp]
    rcases (by omega : Int.log 2 r = e ∨ Int.log 2 r = e + 1) with hk | hk
    · have hu' : ulp32 r = (2 : ℝ) ^ (e - 23) := by unfold ulp32; rw [hk]
      have hre : r = (2 : ℝ) ^ e := by rw [hp, hk]
      rw [hu']; linarith
    · have hu' : ulp32 r = 2 * (2 : ℝ) ^ (e - 23) := by
        unfold ulp32; rw [hk, show e + 1 - 23 = 1 + (e - 23) by ring, zpow_add₀ (by norm_num : (2 : ℝ) ≠ 0)]; norm_num
      rw [hu']; linarith
  · have hu' : (2 : ℝ) ^ (e - 23) ≤ ulp32 r := by
      unfold ulp32; exact zpow_le_zpow_right₀ (by norm_num) (by omega)
    unfold nextDown32
    rw [if_neg hp]; linarith

/-- a value of `[16, 32)` rounds onto the grid `2⁻¹⁹·ℤ` with a 24-bit multiplier, as long as it is at most 24 -/
theorem rne32_grid_16_24 (t : ℝ) (h1 : 16 ≤ t) (h2 : t ≤ 24) :
    ∃ z : ℤ, 8388608 ≤ z ∧ z < 16777216 ∧ rne32 t = (z : ℝ) * (2 : ℝ) ^ (-19 : ℤ) := by
  have ht : 0 < t := by linarith
  have hlog : Int.log 2 t = 4 := intLog_eq t ht 4 (by norm_num; linarith) (by norm_num; linarith)
  have hu : ulp32 t = (2 : ℝ) ^ (-19 : ℤ) := by unfold ulp32; rw [hlog]; norm_num
  refine ⟨rhe (t / ulp32 t), ?_, ?_, ?_⟩
  · have := (rhe_scaled_range t ht).1
    exact_mod_cast this
  · have hp19 : (2 : ℝ) ^ (-19 : ℤ) = 1 / 524288 := by norm_num
    have hle : t / ulp32 t ≤ ((12582912 : ℤ) : ℝ) := by
      rw [hu, hp19]; push_cast; rw [div_le_iff₀ (by norm_num)]; linarith
    have := rhe_mono hle
    rw [rhe_intCast] at this
    omega
  · unfold rne32; rw [if_pos ht]; unfold rneAbs; rw [hu]

theorem logb_two_nat_bounds (m a b : Nat) (h1 : 2 ^ a ≤ m) (h2 : m ≤ 2 ^ b) :
    (a : ℝ) ≤ Real.logb 2 m ∧ Real.logb 2 m ≤ b := by
  have hm : (0 : ℝ) < (m : ℝ) := by exact_mod_cast lt_of_lt_of_le (by positivity) h1
  constructor
  · have := Real.logb_le_logb_of_le (b := 2) (by norm_num) (by positivity) (show ((2 ^ a : Nat) : ℝ) ≤ m by exact_mod_cast h1)
    rwa [logb_two_pow] at this
  · have := Real.logb_le_logb_of_le (b := 2) (by norm_num) hm (show (m : ℝ) ≤ ((2 ^ b : Nat) : ℝ) by exact_mod_cast h2)
    rwa [logb_two_pow] at this

/-- **(LIBM) is satisfiable**: the correctly rounded `log2f` meets it -/
theorem log2fSound_correctlyRounded : Log2fSound (fun x => rne32 (Real.logb 2 x)) := by
  refine ⟨⟨?_, ?_⟩, ⟨?_, ?_⟩⟩
  · intro m hm1 _
    have ht : 0 ≤ Real.logb 2 m := logb2_nonneg m (by omega)
    rcases eq_or_lt_of_le ht with h0 | hpos
    · rw [← h0]
      have : rne32 0 = 0 := by simp [rne32]
      show (0 : ℝ) ≤ nextUp32 (rne32 0)
      rw [this]; unfold nextUp32; have := ulp32_pos 0; linarith
    · show Real.logb 2 m ≤ nextUp32 (rne32 (Real.logb 2 m))
      unfold rne32; rw [if_pos hpos]; exact le_nextUp32_rneAbs _ hpos
  · intro m h1 h2
    obtain ⟨a, b⟩ := logb_two_nat_bounds m 23 24 (le_of_lt h1) h2
    exact rne32_grid_16_24 _ (by push_cast at a; linarith) (by push_cast at b; linarith)
  · intro m h1 _
    obtain ⟨a, _⟩ := logb_two_nat_bounds m 1 24 (by omega) (by omega)
    have hpos : 0 < Real.logb 2 m := by push_cast at a; linarith
    show 0 < nextDown32 (rne32 (Real.logb 2 m)) ∧ nextDown32 (rne32 (Real.logb 2 m)) ≤ Real.logb 2 m
    unfold rne32; rw [if_pos hpos]
    exact ⟨nextDown32_pos _ (rneAbs_pos _ hpos), nextDown32_rneAbs_le _ hpos⟩
  · intro m h1 h2
    obtain ⟨a, b⟩ := logb_two_nat_bounds m 23 24 h1 (le_of_lt h2)
    exact rne32_grid_16_24 _ (by push_cast at a; linarith) (by push_cast at b; linarith)

end Dashu.Model.Float
