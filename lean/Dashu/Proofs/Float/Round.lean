import Dashu.Proofs.Float.Digits
import Dashu.Props.GenRound
/-
  The rounding primitives against the definition of each mode, on top of the theorems about the
  REGENERATED tables (`Props/GenRound.lean`).

  `ModeSpec m N d r` : `r` is the integer the mode `m` names for the rational `N / d` (`d > 0`), in
  the relational, integer-scaled form of `GenRound` (`IsFloor`, `IsCeil`, `IsTowardZero`, …).
-/
namespace Dashu.Model.Float
open Dashu Dashu.Props.GenRound

/-- `r` is the neighbour of `N / d` named by the mode -/
def ModeSpec (m : Mode) (N d r : Int) : Prop :=
  match m with
  | .zero => IsTowardZero N d r
  | .away => IsAwayFromZero N d r
  | .up => IsCeil N d r
  | .down => IsFloor N d r
  | .halfEven => IsNearestEven N d r
  | .halfAway => IsNearestAway N d r

theorem rInt_eq_adj (r : Rounding) : rInt r = adj r := by cases r <;> rfl

theorem signOf_eq_lowSign : signOf = lowSign := rfl

/-- the six regenerated tables: `hi + adj` is the neighbour of `(hi·D + lo) / D` the mode names -/
theorem roundLowPart_spec (m : Mode) (hi lo D : Int) (hD : 0 < D) (hlo : lo ≠ 0) (hlt : |lo| < D) :
    ModeSpec m (hi * D + lo) D (hi + rInt (roundLowPart m hi (signOf lo) (compare (2 * |lo|) D))) := by
  rw [rInt_eq_adj, signOf_eq_lowSign]
  cases m
  · exact zero_correct hi lo D hD hlo hlt
  · exact away_correct hi lo D hD hlo hlt
  · exact up_correct hi lo D hD hlo hlt
  · exact down_correct hi lo D hD hlo hlt
  · exact half_even_correct hi lo D hD hlo hlt
  · exact half_away_correct hi lo D hD hlo hlt

theorem natCmp_eq (a b : Nat) : compare a b = compare (a : Int) (b : Int) := by
  simp only [compare, compareOfLessAndEq, Nat.cast_lt, Nat.cast_inj]

/-- `round_fract`: whatever the coarse estimate does (as long as it is sound), the result is the table
    applied to the exact comparison of `2|fract|` with `B^k` -/
theorem roundFract_eq (B : Nat) (m : Mode) (c : Coarse) (hc : CoarseSound c) (n f : Int) (k : Nat)
    (hf : f ≠ 0) :
    roundFract B m c n f k = roundLowPart m n (signOf f) (compare (2 * |f|) ((B ^ k : Nat) : Int)) := by
  unfold roundFract
  simp only [hf, if_false]
  have e : compare (2 * f.natAbs) (B ^ k) = compare (2 * |f|) ((B ^ k : Nat) : Int) := by
    rw [natCmp_eq]; congr 1; push_cast; first | rfl | rw [Int.natCast_natAbs]
  cases hco : c B f.natAbs k with
  | none => simp only [e]
  | some o => simp only [hc B f.natAbs k o hco, e]

/-- **`Round::round_fract` follows the definition of the mode**: for every base, every integer `n`,
    every non-zero fraction `|f| < B^k` and every sound coarse test, `n + adjustment` is the
    neighbour of `n + f / B^k` that the mode names. -/
theorem roundFract_spec (B : Nat) (hB : 1 ≤ B) (m : Mode) (c : Coarse) (hc : CoarseSound c) (n f : Int) (k : Nat)
    (hf : f ≠ 0) (hlt : |f| < ((B ^ k : Nat) : Int)) :
    ModeSpec m (n * ((B ^ k : Nat) : Int) + f) ((B ^ k : Nat) : Int) (n + rInt (roundFract B m c n f k)) := by
  rw [roundFract_eq B m c hc n f k hf]
  have hD : (0 : Int) < ((B ^ k : Nat) : Int) := by
    have : 0 < B ^ k := Nat.pow_pos (by omega)
    exact_mod_cast this
  exact roundLowPart_spec m n f _ hD hf hlt

theorem roundFract_zero (B : Nat) (m : Mode) (c : Coarse) (n : Int) (k : Nat) :
    roundFract B m c n 0 k = .NoOp := by simp [roundFract]

theorem sign_mul_pos (s : Sign) : s * Sign.Positive = s := by cases s <;> rfl

theorem cmp_swap_neg (a b : Int) : compare a (-b) = compare b (-a) := by
  rcases lt_trichotomy a (-b) with h | h | h
  · rw [cmp_lt h, cmp_lt (by linarith)]
  · rw [cmp_eq h, cmp_eq (by linarith)]
  · rw [cmp_gt h, cmp_gt (by linarith)]

/-- **`Round::round_ratio` follows the definition of the mode**: for `den ≠ 0`, `0 < |num| < |den|`,
    `n + adjustment` is the neighbour of `n + num / den`; the fraction is put over the positive
    denominator `|den|` as `(num · sign den) / |den|`. -/
theorem roundRatio_spec (m : Mode) (n num den : Int) (hden : den ≠ 0) (hnum : num ≠ 0) (hlt : |num| < |den|) :
    ModeSpec m (n * |den| + num * Int.sign den) |den| (n + rInt (roundRatio m n num den)) := by
  unfold roundRatio
  simp only [hnum, if_false]
  have hnm : ((num.natAbs : Nat) : Int) = |num| := Int.natCast_natAbs num
  rw [hnm]
  rcases lt_or_gt_of_ne hden with hneg | hpos
  · -- den < 0 : f = -num, d = -den
    have hs : Int.sign den = -1 := Int.sign_eq_neg_one_of_neg hneg
    have hnp : ¬ (0 < den) := by omega
    have hab : |den| = -den := abs_of_neg hneg
    simp only [hnp, if_false, hs, hab]
    have hD : (0 : Int) < -den := by omega
    have hf : num * -1 ≠ 0 := by omega
    have hflt : |num * -1| < -den := by
      have : num * -1 = -num := by ring
      rw [this, abs_neg, ← hab]; exact hlt
    have key := roundLowPart_spec m n (num * -1) (-den) hD hf hflt
    have e1 : signOf (num * -1) = signOf num * signOf den := by
      have hd : signOf den = Sign.Negative := by unfold signOf; rw [if_pos hneg]
      rw [hd]
      rcases lt_or_gt_of_ne hnum with h | h
      · have a : signOf (num * -1) = Sign.Positive := by unfold signOf; rw [if_neg (by omega)]
        have b : signOf num = Sign.Negative := by unfold signOf; rw [if_pos h]
        rw [a, b]; rfl
      · have a : signOf (num * -1) = Sign.Negative := by unfold signOf; rw [if_pos (by omega)]
        have b : signOf num = Sign.Positive := by unfold signOf; rw [if_neg (by omega)]
        rw [a, b]; rfl
    have e2 : compare (2 * |num * -1|) (-den) = compare den (-(2 * |num|)) := by
      have : num * -1 = -num := by ring
      rw [this, abs_neg, cmp_swap_neg]
    rw [e1, e2] at key
    exact key
  · have hs : Int.sign den = 1 := Int.sign_eq_one_of_pos hpos
    have hab : |den| = den := abs_of_pos hpos
    simp only [hpos, if_true, hs, hab, mul_one]
    have hflt : |num| < den := by rw [← hab]; exact hlt
    have key := roundLowPart_spec m n num den hpos hnum hflt
    have e1 : signOf num = signOf num * signOf den := by
      have : signOf den = Sign.Positive := by
        unfold signOf; have : ¬ den < 0 := by omega
        simp [this]
      rw [this, sign_mul_pos]
    rw [e1] at key
    exact key

theorem roundRatio_zero (m : Mode) (n den : Int) : roundRatio m n 0 den = .NoOp := by simp [roundRatio]

end Dashu.Model.Float
