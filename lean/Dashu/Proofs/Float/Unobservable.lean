import Dashu.Proofs.Float.FBigOps
/-
  The `f32` estimate `smaller_than_one` / `digits_ub` is NOT observable through
  `trunc`, `fract`, `split_at_point`, `floor`, `ceil`, `round`, `to_int`: for every sound estimator the
  result (value AND precision) equals that of the general path, which does not consult the estimate.
  (Model of /repo with proposed_fixes/c10-roundops-estimate-observable.diff; before it the shortcuts
  returned `ZERO`/`ONE`/`self` with a different context, which made std vs no_std builds differ.)
-/
namespace Dashu.Model.Float
open Dashu Dashu.Props.GenRound

/-- the general paths, without any estimate -/
def fTruncGen (B : Nat) (x : FBigM) : FBigM :=
  if x.repr.exp ≥ 0 then x
  else ⟨FRepr.new B (shrDigits B x.repr.signif (-x.repr.exp).toNat) 0, x.prec - (-x.repr.exp).toNat⟩

def fFractGen (B : Nat) (x : FBigM) : FBigM :=
  if x.repr.exp ≥ 0 then FBigM.zero
  else ⟨FRepr.new B (splitDigits B x.repr.signif (-x.repr.exp).toNat).2 x.repr.exp, (-x.repr.exp).toNat⟩

def roundGen (B : Nat) (m : Mode) (c : Coarse) (x : FBigM) : FBigM :=
  let hl := splitDigits B x.repr.signif (-x.repr.exp).toNat
  ⟨FRepr.new B (hl.1 + rInt (roundFract B m c hl.1 hl.2 (-x.repr.exp).toNat)) 0, x.prec - (-x.repr.exp).toNat⟩

theorem natpow_pos' (B : Nat) (hB : 0 < B) (k : Nat) : (0 : Int) < ((B ^ k : Nat) : Int) := by
  have : 0 < B ^ k := Nat.pow_pos hB
  exact_mod_cast this

theorem small_split (B : Nat) (hB : 2 ≤ B) (s : Int) (k : Nat) (h : |s| < ((B ^ k : Nat) : Int)) :
    splitDigits B s k = (0, s) := by
  rw [splitDigits_eq, splitSpec]
  have hD := natpow_pos' B (by omega) k
  obtain ⟨e1, e2⟩ := tdiv_unique s _ 0 s hD (by ring) h (fun h => h) (fun h => h)
  rw [← e1, ← e2]

theorem new_zero (B : Nat) (e : Int) : FRepr.new B 0 e = ⟨0, 0⟩ := by simp [FRepr.new]

/-- a normalised non-zero significand is a fixed point of `Repr::new` -/
theorem new_fixed (B : Nat) (s e : Int) (hs : s ≠ 0) (hn : s % (B : Int) ≠ 0) : FRepr.new B s e = ⟨s, e⟩ := by
  unfold FRepr.new
  simp only [hs, if_false]
  unfold stripAux
  simp [hn]

theorem roundFract_down (B : Nat) (c : Coarse) (n f : Int) (k : Nat) :
    roundFract B .down c n f k = if f < 0 then .SubOne else .NoOp := by
  unfold roundFract
  by_cases h0 : f = 0
  · subst h0; simp
  · simp only [h0, if_false, roundLowPart, Gen.round_low_part_Down, GluePrelude.eq_, signOf]
    by_cases h : f < 0 <;> simp [h]

theorem roundFract_up (B : Nat) (c : Coarse) (n f : Int) (k : Nat) :
    roundFract B .up c n f k = if 0 < f then .AddOne else .NoOp := by
  unfold roundFract
  by_cases h0 : f = 0
  · subst h0; simp
  · simp only [h0, if_false, roundLowPart, Gen.round_low_part_Up, GluePrelude.eq_, signOf]
    by_cases h : f < 0
    · have : ¬ 0 < f := by omega
      simp [h, this]
    · have : 0 < f := by omega
      simp [h, this]

theorem roundFract_halfAway_small (B : Nat) (c : Coarse) (hc : CoarseSound c) (n f : Int) (k : Nat)
    (h : 2 * |f| < ((B ^ k : Nat) : Int)) : roundFract B .halfAway c n f k = .NoOp := by
  by_cases h0 : f = 0
  · subst h0; exact roundFract_zero B _ c n k
  · rw [roundFract_eq B .halfAway c hc n f k h0, cmp_lt h]
    simp [roundLowPart, Gen.round_low_part_HalfAway]

section
variable (B : Nat) (hB : 2 ≤ B) (dub : Int → Nat) (hdub : DubSound B dub) (x : FBigM)
include hB hdub

theorem small_of_smaller (hsm : x.repr.exp + (dub x.repr.signif : Int) < -1) :
    |x.repr.signif| < ((B ^ (-x.repr.exp).toNat : Nat) : Int) := by
  have := smaller_quarter B hB dub hdub x.repr hsm
  unfold pointUnit at this
  have : 0 ≤ |x.repr.signif| := abs_nonneg _
  omega

/-- `split_at_point_internal` is the plain digit split, whether or not its shortcut fires -/
theorem splitInternal_eq (he : x.repr.exp < 0) :
    splitAtPointInternal B dub x =
      ((splitDigits B x.repr.signif (-x.repr.exp).toNat).1, (splitDigits B x.repr.signif (-x.repr.exp).toNat).2,
        (-x.repr.exp).toNat) := by
  unfold splitAtPointInternal
  by_cases hsm : smallerThanOne dub x.repr = true
  · simp only [hsm, if_true]
    rw [small_split B hB _ _ (small_of_smaller B hB dub hdub x (smaller_of dub x.repr hsm))]
  · simp only [hsm, if_false, Bool.false_eq_true]

/-- **`trunc` does not depend on the estimate** -/
theorem fTrunc_eq_gen : fTrunc B dub x = fTruncGen B x := by
  unfold fTrunc fTruncGen
  by_cases he : x.repr.exp ≥ 0
  · simp [he]
  · simp only [he, if_false]
    by_cases hsm : smallerThanOne dub x.repr = true
    · simp only [hsm, if_true]
      have h := small_split B hB _ _ (small_of_smaller B hB dub hdub x (smaller_of dub x.repr hsm))
      have h1 : shrDigits B x.repr.signif (-x.repr.exp).toNat = 0 := by
        rw [shrDigits_eq]
        have := congrArg Prod.fst h
        rw [splitDigits_eq, splitSpec] at this
        exact this
      rw [h1, new_zero]
    · simp only [hsm, if_false, Bool.false_eq_true]

/-- **`fract` does not depend on the estimate** (operand in normal form, as built by `Repr::new`) -/
theorem fFract_eq_gen (hfix : FRepr.new B x.repr.signif x.repr.exp = x.repr) : fFract B dub x = fFractGen B x := by
  unfold fFract fFractGen
  by_cases he : x.repr.exp ≥ 0
  · simp [he]
  · simp only [he, if_false]
    have he' : x.repr.exp < 0 := by omega
    by_cases hsm : smallerThanOne dub x.repr = true
    · simp only [hsm, if_true]
      rw [small_split B hB _ _ (small_of_smaller B hB dub hdub x (smaller_of dub x.repr hsm))]
      simp only [hfix]
    · simp only [hsm, if_false, Bool.false_eq_true]
      rw [splitInternal_eq B hB dub hdub x he']

/-- **`split_at_point` does not depend on the estimate** -/
theorem fSplit_eq_gen (hfix : FRepr.new B x.repr.signif x.repr.exp = x.repr) :
    fSplitAtPoint B dub x = (fTruncGen B x, fFractGen B x) := by
  rw [fSplit_eq, fTrunc_eq_gen B hB dub hdub x, fFract_eq_gen B hB dub hdub x hfix]

/-- **`to_int` does not depend on the estimate** -/
theorem fToInt_eq_gen (m : Mode) (c : Coarse) (he : x.repr.exp < 0) :
    fToInt B m c dub x =
      ((splitDigits B x.repr.signif (-x.repr.exp).toNat).1 +
          rInt (roundFract B m c (splitDigits B x.repr.signif (-x.repr.exp).toNat).1
            (splitDigits B x.repr.signif (-x.repr.exp).toNat).2 (-x.repr.exp).toNat),
        some (roundFract B m c (splitDigits B x.repr.signif (-x.repr.exp).toNat).1
            (splitDigits B x.repr.signif (-x.repr.exp).toNat).2 (-x.repr.exp).toNat)) := by
  unfold fToInt
  have hne : ¬ x.repr.exp ≥ 0 := by omega
  simp only [hne, if_false, splitInternal_eq B hB dub hdub x he]

/-- **`floor` does not depend on the estimate** -/
theorem fFloor_eq_gen (c : Coarse) (he : x.repr.exp < 0) : fFloor B c dub x = roundGen B .down c x := by
  unfold fFloor roundGen
  have hne : ¬ x.repr.exp ≥ 0 := by omega
  simp only [hne, if_false]
  by_cases hsm : smallerThanOne dub x.repr = true
  · simp only [hsm, if_true]
    rw [small_split B hB _ _ (small_of_smaller B hB dub hdub x (smaller_of dub x.repr hsm))]
    simp only [roundFract_down]
    by_cases hs : x.repr.signif ≥ 0
    · have : ¬ x.repr.signif < 0 := by omega
      simp [hs, this, rInt, new_zero]
    · have h1 : x.repr.signif < 0 := by omega
      simp only [hs, if_false, h1, if_true, rInt]
      rw [new_fixed B (0 + -1) 0 (by omega) (by
        have hB' : (2 : Int) ≤ (B : Int) := by exact_mod_cast hB
        intro h
        have h2 : (B : Int) ∣ (0 + -1) := Int.dvd_of_emod_eq_zero h
        have h3 : (B : Int) ∣ 1 := by
          have : (0 : Int) + -1 = -1 := by ring
          rw [this] at h2
          exact (Int.dvd_neg).mp h2
        have := Int.le_of_dvd (by omega) h3
        omega)]
      simp
  · simp only [hsm, if_false, Bool.false_eq_true, splitInternal_eq B hB dub hdub x he]

theorem one_mod_ne (hB' : 2 ≤ B) : ((0 : Int) + 1) % (B : Int) ≠ 0 := by
  intro h
  have h2 : (B : Int) ∣ (0 + 1) := Int.dvd_of_emod_eq_zero h
  have hB'' : (2 : Int) ≤ (B : Int) := by exact_mod_cast hB'
  have := Int.le_of_dvd (by omega) h2
  omega

/-- **`ceil` does not depend on the estimate** (non-zero operand) -/
theorem fCeil_eq_gen (c : Coarse) (he : x.repr.exp < 0) (hs0 : x.repr.signif ≠ 0) :
    fCeil B c dub x = roundGen B .up c x := by
  unfold fCeil roundGen
  have hne : ¬ x.repr.exp ≥ 0 := by omega
  have hz : x.repr.isZero = false := by
    unfold FRepr.isZero
    have : (x.repr.exp == 0) = false := by simp; omega
    simp [this]
  simp only [hne, hz, or_false, if_false, Bool.false_eq_true]
  by_cases hsm : smallerThanOne dub x.repr = true
  · simp only [hsm, if_true]
    rw [small_split B hB _ _ (small_of_smaller B hB dub hdub x (smaller_of dub x.repr hsm))]
    simp only [roundFract_up]
    by_cases hs : x.repr.signif ≥ 0
    · have h1 : 0 < x.repr.signif := by omega
      simp only [hs, if_true, h1, rInt]
      rw [new_fixed B (0 + 1) 0 (by omega) (one_mod_ne B hB dub hdub hB)]
      simp
    · have h1 : ¬ 0 < x.repr.signif := by omega
      simp [hs, h1, rInt, new_zero]
  · simp only [hsm, if_false, Bool.false_eq_true, splitInternal_eq B hB dub hdub x he]

/-- **`round` does not depend on the estimate** (any sound coarse test) -/
theorem fRound_eq_gen (c : Coarse) (hc : CoarseSound c) (he : x.repr.exp < 0) :
    fRound B c dub x = roundGen B .halfAway c x := by
  unfold fRound roundGen
  have hne : ¬ x.repr.exp ≥ 0 := by omega
  simp only [hne, if_false]
  by_cases hsm : x.repr.exp + (dub x.repr.signif : Int) < -2
  · simp only [hsm, if_true]
    have hq := smaller_quarter B hB dub hdub x.repr (by omega)
    have hsmall := small_of_smaller B hB dub hdub x (by omega)
    rw [small_split B hB _ _ hsmall]
    have h2 : 2 * |x.repr.signif| < ((B ^ (-x.repr.exp).toNat : Nat) : Int) := by
      unfold pointUnit at hq
      have := abs_nonneg x.repr.signif
      omega
    simp only [roundFract_halfAway_small B c hc 0 _ _ h2, rInt, add_zero, new_zero]
  · simp only [hsm, if_false, splitInternal_eq B hB dub hdub x he]

end

end Dashu.Model.Float
