import Dashu.Proofs.Float.Arith
import Dashu.Proofs.Float.RoundOps
/-
  C03: the far-apart branch of `Context::add` / `sub` (`repr_add_large_small`, first alignment
  branch): the small operand is replaced by a sticky stand-in `±1`; the result is nevertheless the
  rounding of the EXACT sum at the same position, hence honours the contract.
-/
namespace Dashu.Model.Float
open Dashu Dashu.Props.GenRound

theorem sgn_cases (v : Int) (hv : v ≠ 0) : (sgn v = 1 ∧ 0 < v) ∨ (sgn v = -1 ∧ v < 0) := by
  unfold sgn
  rcases lt_or_gt_of_ne hv with h | h
  · right; simp [h]
  · left
    have h1 : ¬ v < 0 := by omega
    simp [h1, hv, h]

/-- two non-zero low parts of the same sign that are both below one half give the same adjustment -/
theorem roundFract_small_eq (B : Nat) (m : Mode) (c : Coarse) (hc : CoarseSound c) (n f1 f2 : Int) (k1 k2 : Nat)
    (h1 : f1 ≠ 0) (h2 : f2 ≠ 0) (hs : signOf f1 = signOf f2)
    (hl1 : 2 * |f1| < ((B ^ k1 : Nat) : Int)) (hl2 : 2 * |f2| < ((B ^ k2 : Nat) : Int)) :
    roundFract B m c n f1 k1 = roundFract B m c n f2 k2 := by
  rw [roundFract_eq B m c hc n f1 k1 h1, roundFract_eq B m c hc n f2 k2 h2, cmp_lt hl1, cmp_lt hl2, hs]

theorem split_unit (B : Nat) (hB : 2 ≤ B) (σ : Int) (hσ : σ = 1 ∨ σ = -1) : splitDigits B σ 2 = (0, σ) := by
  rw [splitDigits_eq, splitSpec]
  have hD : (0 : Int) < ((B ^ 2 : Nat) : Int) := by
    have : 0 < B ^ 2 := Nat.pow_pos (by omega)
    exact_mod_cast this
  have h4 := four_le_sq B hB
  obtain ⟨e1, e2⟩ := tdiv_unique σ _ 0 σ hD (by ring)
    (by rw [abs_lt]; rcases hσ with h | h <;> subst h <;> constructor <;> omega)
    (by intro h; exact h) (by intro h; exact h)
  rw [← e1, ← e2]

/-- `repr_round_sum` on the far-apart stand-in: the significand is padded to `rnd_precision` digits and
    rounded with the two-digit stand-in `±1/B²` -/
theorem reprRoundSum_far (B : Nat) (hB : 2 ≤ B) (m : Mode) (c : Coarse) (p : Nat) (hp : 1 ≤ p) (l e σ : Int)
    (isSub : Bool) (hσ : σ = 1 ∨ σ = -1)
    (hld : digitsI B l ≤ p + (if isSub = true then 1 else 0)) :
    reprRoundSum B m c p l e
        (σ, if digitsI B l ≥ p + (if isSub = true then 1 else 0) then 2
            else (p + (if isSub = true then 1 else 0) - digitsI B l) + 2) isSub =
      (FRepr.new B
          (l * ((B ^ (p + (if isSub = true then 1 else 0) - digitsI B l) : Nat) : Int) +
            rInt (roundFract B m c (l * ((B ^ (p + (if isSub = true then 1 else 0) - digitsI B l) : Nat) : Int)) σ 2))
          (e - ((p + (if isSub = true then 1 else 0) - digitsI B l : Nat) : Int)),
        some (roundFract B m c (l * ((B ^ (p + (if isSub = true then 1 else 0) - digitsI B l) : Nat) : Int)) σ 2)) := by
  have hp0 : p ≠ 0 := by omega
  have hσ0 : σ ≠ 0 := by rcases hσ with h | h <;> subst h <;> omega
  unfold reprRoundSum
  try simp only [shlDigits_eq, shrDigits_eq]
  simp only [hp0, if_false]
  generalize p + (if isSub = true then 1 else 0) = rndP at *
  by_cases h1 : digitsI B l = rndP
  · have hge : digitsI B l ≥ rndP := by omega
    simp only [h1, if_true, hσ0, if_false, ge_iff_le, le_refl, Nat.sub_self, pow_zero, Nat.cast_one, mul_one,
      Nat.cast_zero, sub_zero]
  · have hlt : ¬ digitsI B l > rndP := by omega
    have hge : ¬ digitsI B l ≥ rndP := by omega
    simp only [h1, hlt, hge, if_false, ne_eq, hσ0, not_false_eq_true, if_true]
    have hmin : min (rndP - digitsI B l + 2) (rndP - digitsI B l) = rndP - digitsI B l := by omega
    have hsub : rndP - digitsI B l + 2 - (rndP - digitsI B l) = 2 := by omega
    simp only [hmin, hsub, split_unit B hB σ hσ, add_zero, hσ0, if_false]

theorem signOf_mul_sgn (rs r : Int) (hrs : rs = 1 ∨ rs = -1) (hr : r ≠ 0) : signOf (rs * sgn r) = signOf (rs * r) := by
  unfold signOf
  rcases sgn_cases r hr with ⟨h1, h2⟩ | ⟨h1, h2⟩ <;> rcases hrs with h | h <;> subst h <;> rw [h1] <;>
    simp <;> omega

theorem abs_sign_mul (rs r : Int) (hrs : rs = 1 ∨ rs = -1) : |rs * r| = |r| := by
  rcases hrs with h | h <;> subst h <;> simp

set_option maxHeartbeats 1000000 in
/-- **the far-apart branch of `repr_add_large_small`** (small operand more than `digits_ub + 1` digits
    below the large one and below the rounding position): for every large operand of at most `p` digits
    and every small operand, the result computed from the sticky stand-in `±1` is the rounding of the
    exact sum and honours the contract.  (`dub` is any sound over-estimate of the digit count.) -/
theorem reprAddLargeSmall_far_contract (B : Nat) (hB : 2 ≤ B) (m : Mode) (c : Coarse) (hc : CoarseSound c)
    (dub : Int → Nat) (hdub : DubSound B dub) (p : Nat) (hp : 1 ≤ p) (lhs rhs : FRepr) (rs : Int)
    (hrs : rs = 1 ∨ rs = -1) (hgt : rhs.exp < lhs.exp) (hl0 : lhs.signif ≠ 0) (hr0 : rhs.signif ≠ 0)
    (hld : lhs.digits B ≤ p)
    (hfar : dub rhs.signif + 1 < (lhs.exp - rhs.exp).toNat ∧
      dub rhs.signif + 1 + (p + if decide (sgn lhs.signif ≠ rs * sgn rhs.signif) = true then 1 else 0) <
        lhs.digits B + (lhs.exp - rhs.exp).toNat) :
    Contract B m p (lhs.toRat B + (rs : ℚ) * rhs.toRat B)
      ((reprAddLargeSmall B m c dub p lhs rhs rs).1.toRat B) (reprAddLargeSmall B m c dub p lhs rhs rs).2 := by
  have hB0 : 0 < B := by omega
  have hp0 : p ≠ 0 := by omega
  unfold reprAddLargeSmall
  try simp only [shlDigits_eq, shrDigits_eq]
  simp only [hp0, ne_eq, not_false_eq_true, true_and, hfar, and_self, if_true]
  -- the stand-in
  have hσ : rs * sgn rhs.signif = 1 ∨ rs * sgn rhs.signif = -1 := by
    rcases sgn_cases rhs.signif hr0 with ⟨h1, _⟩ | ⟨h1, _⟩ <;> rcases hrs with h | h <;> subst h <;> rw [h1] <;> simp
  generalize hsub : decide (sgn lhs.signif ≠ rs * sgn rhs.signif) = isSub at *
  have hld' : digitsI B lhs.signif ≤ p + (if isSub = true then 1 else 0) := by
    unfold FRepr.digits at hld; omega
  unfold FRepr.digits
  rw [reprRoundSum_far B hB m c p hp lhs.signif lhs.exp _ isSub hσ hld']
  unfold FRepr.digits at hfar hld
  generalize hrnd : p + (if isSub = true then 1 else 0) = rndP at *
  have hrp : p ≤ rndP := by rw [← hrnd]; omega
  generalize hE : (lhs.exp - rhs.exp).toNat = E at *
  have hEv : (E : Int) = lhs.exp - rhs.exp := by rw [← hE]; exact Int.toNat_of_nonneg (by omega)
  generalize hdl : digitsI B lhs.signif = ld at *
  -- K = E - sh low digits of the exact sum below the padded significand
  have hshE : rndP - ld + (E - (rndP - ld)) = E := by omega
  have hK : dub rhs.signif + 2 ≤ E - (rndP - ld) := by omega
  set sh := rndP - ld with hsh
  set K := E - sh with hKdef
  set H := lhs.signif * ((B ^ sh : Nat) : Int) with hH
  set lo := rs * rhs.signif with hlo
  have hlo0 : lo ≠ 0 := by
    rw [hlo]; rcases hrs with h | h <;> subst h <;> simp <;> exact hr0
  -- |lo| < B^rest, 2|lo| < B^K
  have hrabs : |lo| < ((B ^ dub rhs.signif : Nat) : Int) := by
    rw [hlo, abs_sign_mul rs _ hrs, ← Int.natCast_natAbs]
    have h1 : rhs.signif.natAbs < B ^ digitsI B rhs.signif := digits_lt_pow B hB _
    have h2 : B ^ digitsI B rhs.signif ≤ B ^ dub rhs.signif := Nat.pow_le_pow_right hB0 (hdub _)
    exact_mod_cast lt_of_lt_of_le h1 h2
  have hpowK : ((B ^ dub rhs.signif : Nat) : Int) * ((B ^ 2 : Nat) : Int) ≤ ((B ^ K : Nat) : Int) := by
    rw [← Nat.cast_mul, ← Nat.pow_add]
    exact_mod_cast Nat.pow_le_pow_right hB0 hK
  have h4 := four_le_sq B hB
  have hrest0 : (0 : Int) < ((B ^ dub rhs.signif : Nat) : Int) := by
    have : 0 < B ^ dub rhs.signif := Nat.pow_pos hB0
    exact_mod_cast this
  have h2lo : 2 * |lo| < ((B ^ K : Nat) : Int) := by
    have h5 : ((B ^ dub rhs.signif : Nat) : Int) * 4 ≤ ((B ^ dub rhs.signif : Nat) : Int) * ((B ^ 2 : Nat) : Int) :=
      Int.mul_le_mul_of_nonneg_left h4 (le_of_lt hrest0)
    omega
  have hlolt : |lo| < ((B ^ K : Nat) : Int) := by
    have : 0 ≤ |lo| := abs_nonneg _
    omega
  -- same adjustment as for the exact low part
  have hadj : roundFract B m c H (rs * sgn rhs.signif) 2 = roundFract B m c H lo K := by
    apply roundFract_small_eq B m c hc H _ _ 2 K
    · rcases hσ with h | h <;> rw [h] <;> omega
    · exact hlo0
    · exact signOf_mul_sgn rs rhs.signif hrs hr0
    · have h1 : |rs * sgn rhs.signif| = 1 := by rcases hσ with h | h <;> rw [h] <;> simp
      rw [h1]; omega
    · exact h2lo
  rw [hadj]
  -- digits of the padded significand
  obtain ⟨hdpos, hllo, _⟩ := digitsI_spec B hB lhs.signif hl0
  rw [hdl] at hdpos hllo
  have hHabs : ((B ^ (rndP - 1) : Nat) : Int) ≤ |H| := by
    rw [hH, abs_mul, abs_of_nonneg (Int.natCast_nonneg (B ^ sh))]
    have : B ^ (rndP - 1) = B ^ (ld - 1) * B ^ sh := by rw [← Nat.pow_add]; congr 1; omega
    rw [this]; push_cast
    exact Int.mul_le_mul_of_nonneg_right (by exact_mod_cast hllo) (by positivity)
  have hD : (0 : Int) < ((B ^ K : Nat) : Int) := by
    have : 0 < B ^ K := Nat.pow_pos hB0
    exact_mod_cast this
  have hulp : ((B ^ K : Nat) : Int) * ((B ^ (p - 1) : Nat) : Int) ≤ |H * ((B ^ K : Nat) : Int) + lo| := by
    by_cases hs : isSub = true
    · -- one guard digit: |H| ≥ B^p
      have hr1 : rndP = p + 1 := by rw [← hrnd, hs]; simp
      have hHp : ((B ^ p : Nat) : Int) ≤ |H| := by rw [hr1] at hHabs; simpa using hHabs
      have hpp : ((B ^ p : Nat) : Int) = ((B ^ (p - 1) : Nat) : Int) * (B : Int) := by
        have : B ^ p = B ^ (p - 1) * B := by rw [← Nat.pow_succ]; congr 1; omega
        rw [this]; push_cast; ring
      have hpm : (0 : Int) < ((B ^ (p - 1) : Nat) : Int) := by
        have : 0 < B ^ (p - 1) := Nat.pow_pos hB0
        exact_mod_cast this
      have hB2 : (2 : Int) ≤ (B : Int) := by exact_mod_cast hB
      have h1 : |H * ((B ^ K : Nat) : Int)| - |lo| ≤ |H * ((B ^ K : Nat) : Int) + lo| := by
        have := abs_sub_abs_le_abs_sub (H * ((B ^ K : Nat) : Int)) (-lo)
        simpa using this
      rw [abs_mul, abs_of_pos hD] at h1
      have h6 : ((B ^ p : Nat) : Int) * ((B ^ K : Nat) : Int) ≤ |H| * ((B ^ K : Nat) : Int) :=
        Int.mul_le_mul_of_nonneg_right hHp (le_of_lt hD)
      have h7 : ((B ^ (p - 1) : Nat) : Int) * 2 ≤ ((B ^ (p - 1) : Nat) : Int) * (B : Int) :=
        Int.mul_le_mul_of_nonneg_left hB2 (le_of_lt hpm)
      have h8 : (((B ^ (p - 1) : Nat) : Int) * 2) * ((B ^ K : Nat) : Int) ≤
          (((B ^ (p - 1) : Nat) : Int) * (B : Int)) * ((B ^ K : Nat) : Int) :=
        Int.mul_le_mul_of_nonneg_right h7 (le_of_lt hD)
      have h9 : 1 * ((B ^ K : Nat) : Int) ≤ ((B ^ (p - 1) : Nat) : Int) * ((B ^ K : Nat) : Int) :=
        Int.mul_le_mul_of_nonneg_right (by omega) (le_of_lt hD)
      have e1 : (((B ^ (p - 1) : Nat) : Int) * 2) * ((B ^ K : Nat) : Int) =
          2 * (((B ^ K : Nat) : Int) * ((B ^ (p - 1) : Nat) : Int)) := by ring
      have e2 : ((B ^ (p - 1) : Nat) : Int) * ((B ^ K : Nat) : Int) =
          ((B ^ K : Nat) : Int) * ((B ^ (p - 1) : Nat) : Int) := by ring
      rw [hpp] at h6
      omega
    · -- same signs: the low part adds to the magnitude
      have hs' : isSub = false := by simpa using hs
      have hr1 : rndP = p := by rw [← hrnd, hs']; simp
      rw [hr1] at hHabs
      have hsame : sgn lhs.signif = rs * sgn rhs.signif := by
        have : decide (sgn lhs.signif ≠ rs * sgn rhs.signif) = false := by rw [hsub, hs']
        simpa using this
      -- H and lo have the same sign
      have habs : |H * ((B ^ K : Nat) : Int) + lo| = |H| * ((B ^ K : Nat) : Int) + |lo| := by
        have hBsh : (0 : Int) < ((B ^ sh : Nat) : Int) := by
          have : 0 < B ^ sh := Nat.pow_pos hB0
          exact_mod_cast this
        rcases sgn_cases lhs.signif hl0 with ⟨h1, h2⟩ | ⟨h1, h2⟩
        · have hlopos : 0 < lo := by
            rw [hlo]
            rcases sgn_cases rhs.signif hr0 with ⟨g1, g2⟩ | ⟨g1, g2⟩ <;> rcases hrs with h | h <;> subst h <;>
              rw [h1, g1] at hsame <;> omega
          have hHpos : 0 < H := Int.mul_pos h2 hBsh
          have : 0 < H * ((B ^ K : Nat) : Int) := Int.mul_pos hHpos hD
          rw [abs_of_pos (by omega), abs_of_pos hHpos, abs_of_pos hlopos]
        · have hloneg : lo < 0 := by
            rw [hlo]
            rcases sgn_cases rhs.signif hr0 with ⟨g1, g2⟩ | ⟨g1, g2⟩ <;> rcases hrs with h | h <;> subst h <;>
              rw [h1, g1] at hsame <;> omega
          have hHneg : H < 0 := by rw [hH]; exact Int.mul_neg_of_neg_of_pos h2 hBsh
          have : H * ((B ^ K : Nat) : Int) < 0 := Int.mul_neg_of_neg_of_pos hHneg hD
          rw [abs_of_neg (by omega), abs_of_neg hHneg, abs_of_neg hloneg]; ring
      rw [habs]
      have h0 : 0 ≤ |lo| := abs_nonneg _
      have h6 := Int.mul_le_mul_of_nonneg_right hHabs (le_of_lt hD)
      have e2 : ((B ^ (p - 1) : Nat) : Int) * ((B ^ K : Nat) : Int) =
          ((B ^ K : Nat) : Int) * ((B ^ (p - 1) : Nat) : Int) := by ring
      omega
  have key := round_at_contract B hB m c hc p hp H lo K rhs.exp hlo0 hlolt hulp
  -- value and exponent
  have hexp : lhs.exp - ((sh : Nat) : Int) = rhs.exp + ((K : Nat) : Int) := by
    have : ((sh : Nat) : Int) + ((K : Nat) : Int) = (E : Int) := by exact_mod_cast hshE
    omega
  rw [hexp]
  have hval : ((H * ((B ^ K : Nat) : Int) + lo : Int) : ℚ) * bpowQ B rhs.exp = lhs.toRat B + (rs : ℚ) * rhs.toRat B := by
    unfold FRepr.toRat
    have hbp : bpowQ B lhs.exp = ((B ^ E : Nat) : ℚ) * bpowQ B rhs.exp := by
      rw [← bpowQ_nat, ← bpowQ_add B hB0, hEv]; congr 1; ring
    have hEsplit : ((B ^ E : Nat) : ℚ) = ((B ^ sh : Nat) : ℚ) * ((B ^ K : Nat) : ℚ) := by
      rw [← Nat.cast_mul, ← Nat.pow_add, hshE]
    rw [hbp, hEsplit, hH, hlo]; push_cast; ring
  rw [hval] at key
  exact key

theorem sgn_mul_sign (rs r : Int) (hrs : rs = 1 ∨ rs = -1) : sgn (rs * r) = rs * sgn r := by
  rcases hrs with h | h <;> subst h
  · simp
  · rcases lt_trichotomy r 0 with h | h | h
    · have a : sgn r = -1 := by unfold sgn; rw [if_pos h]
      have b : sgn (-1 * r) = 1 := by
        unfold sgn; rw [if_neg (by omega), if_neg (by omega)]
      rw [a, b]; rfl
    · subst h; simp [sgn]
    · have a : sgn r = 1 := by unfold sgn; rw [if_neg (by omega), if_neg (by omega)]
      have b : sgn (-1 * r) = -1 := by unfold sgn; rw [if_pos (by omega)]
      rw [a, b]; rfl

/-- **`Context::add` / `sub`, far-apart operands** (both operand orders): the operand with the larger
    exponent has at most `p` digits and the other one lies more than `digits_ub + 1` digits below it and
    below the rounding position.  `rs = 1` is `add`, `rs = -1` is `sub`. -/
theorem addSub_far_contract (B : Nat) (hB : 2 ≤ B) (m : Mode) (c : Coarse) (hc : CoarseSound c)
    (dub : Int → Nat) (hdub : DubSound B dub) (p : Nat) (hp : 1 ≤ p) (lhs rhs : FRepr) (rs : Int)
    (hrs : rs = 1 ∨ rs = -1) (hl0 : lhs.signif ≠ 0) (hr0 : rhs.signif ≠ 0)
    (h : (rhs.exp < lhs.exp ∧ lhs.digits B ≤ p ∧
          dub rhs.signif + 1 < (lhs.exp - rhs.exp).toNat ∧
          dub rhs.signif + 1 + (p + if decide (sgn lhs.signif ≠ rs * sgn rhs.signif) = true then 1 else 0) <
            lhs.digits B + (lhs.exp - rhs.exp).toNat) ∨
         (lhs.exp < rhs.exp ∧ rhs.digits B ≤ p ∧
          dub lhs.signif + 1 < (rhs.exp - lhs.exp).toNat ∧
          dub lhs.signif + 1 + (p + if decide (rs * sgn rhs.signif ≠ sgn lhs.signif) = true then 1 else 0) <
            rhs.digits B + (rhs.exp - lhs.exp).toNat)) :
    Contract B m p (lhs.toRat B + (rs : ℚ) * rhs.toRat B)
      ((ctxAddSub B m c dub p lhs rhs rs).1.toRat B) (ctxAddSub B m c dub p lhs rhs rs).2 := by
  have hlz : lhs.isZero = false := by
    unfold FRepr.isZero
    have : (lhs.signif == 0) = false := by simpa using hl0
    simp [this]
  have hrz : rhs.isZero = false := by
    unfold FRepr.isZero
    have : (rhs.signif == 0) = false := by simpa using hr0
    simp [this]
  unfold ctxAddSub
  simp only [hlz, hrz, if_false, Bool.false_eq_true]
  rcases h with ⟨hgt, hld, hf1, hf2⟩ | ⟨hlt, hrd, hf1, hf2⟩
  · have hne : ¬ lhs.exp = rhs.exp := by omega
    have hgt' : lhs.exp > rhs.exp := hgt
    simp only [hne, hgt', if_false, if_true]
    exact reprAddLargeSmall_far_contract B hB m c hc dub hdub p hp lhs rhs rs hrs hgt hl0 hr0 hld ⟨hf1, hf2⟩
  · have hne : ¬ lhs.exp = rhs.exp := by omega
    have hgt' : ¬ lhs.exp > rhs.exp := by omega
    simp only [hne, hgt', if_false]
    have hbig0 : (⟨rs * rhs.signif, rhs.exp⟩ : FRepr).signif ≠ 0 := by
      simp only; rcases hrs with h | h <;> subst h <;> simp <;> exact hr0
    have hdig : (⟨rs * rhs.signif, rhs.exp⟩ : FRepr).digits B = rhs.digits B := by
      unfold FRepr.digits; exact digits_mul_sign B _ _ hrs
    have key := reprAddLargeSmall_far_contract B hB m c hc dub hdub p hp ⟨rs * rhs.signif, rhs.exp⟩ lhs 1
      (Or.inl rfl) hlt hbig0 hl0 (by rw [hdig]; exact hrd)
      (by
        simp only [hdig, one_mul, sgn_mul_sign rs rhs.signif hrs]
        exact ⟨hf1, hf2⟩)
    have hv : (⟨rs * rhs.signif, rhs.exp⟩ : FRepr).toRat B + ((1 : Int) : ℚ) * lhs.toRat B =
        lhs.toRat B + (rs : ℚ) * rhs.toRat B := by
      unfold FRepr.toRat; push_cast; ring
    rw [hv] at key
    exact key

end Dashu.Model.Float
