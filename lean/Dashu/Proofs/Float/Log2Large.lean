import Dashu.Proofs.Float.Log2Lb
/-
  `TypedReprRef::log2_bounds` (integer/src/log.rs, 64-bit words) as a whole, with the concrete binary32 rounding:
  inline values (< 2¹²⁸) through the std `u128` routine (`log2LbStd` / `log2UbStd`), heap values through

      fn log2_bounds_large(words) { let hi = highest_dword(words); let rem_bits = (words.len() - 2) * 64;
          let (hi_lb, hi_ub) = hi.log2_bounds();
          ((hi_lb + rem_bits as f32) * (1. - ADJUST), (hi_ub + rem_bits as f32) * (1. + ADJUST)) }     // ADJUST = 2·EPSILON = 4u

  and the proof of the hypothesis `Log2BoundsSound` ((E) enclosure + (S) slack of the ADJUST factor) of
  `Props/C10Coarse.coarse_test_sound` from the hypothesis (LIBM) about `log2f` ALONE, for every operand of at most `2³⁰` bits
  (`rem_bits as f32` is exact there; the region of the coarse-test theorem, `fmag < B^k ≤ 2^(64·2²⁴)`, lies inside).
-/
namespace Dashu.Model.Float
open Real

/-- (LIBM): both halves -/
structure Log2fSound (log2f : ℝ → ℝ) : Prop where
  upper : Log2fUpper log2f
  lower : Log2fLower log2f

/-- number of 64-bit words of `n` -/
def wordLen (n : Nat) : Nat := (Nat.log2 n + 1 + 63) / 64

/-- `log2_bounds(n).0` -/
noncomputable def log2LbModel (log2f : ℝ → ℝ) (n : Nat) : ℝ :=
  if n < 2 ^ 128 then log2LbStd log2f n
  else
    let rem := (wordLen n - 2) * 64
    rne32 (rne32 (log2LbStd log2f (n / 2 ^ rem) + rne32 ((rem : Nat) : ℝ)) * (1 - 4 * u32))

/-- `log2_bounds(n).1` -/
noncomputable def log2UbModel (log2f : ℝ → ℝ) (n : Nat) : ℝ :=
  if n < 2 ^ 128 then log2UbStd log2f n
  else
    let rem := (wordLen n - 2) * 64
    rne32 (rne32 (log2UbStd log2f (n / 2 ^ rem) + rne32 ((rem : Nat) : ℝ)) * (1 + 4 * u32))

theorem rne32_nonneg (x : ℝ) (hx : 0 ≤ x) : 0 ≤ rne32 x := by
  have h0 : rne32 0 = 0 := by simp [rne32]
  have := rne32_mono hx
  rw [h0] at this; exact this

/-- `log₂ (h + 1) − log₂ h ≤ 2⁻⁶⁰` for `h ≥ 2⁶⁴` -/
theorem logb_succ_le (h : Nat) (hh : 2 ^ 64 ≤ h) :
    Real.logb 2 ((h + 1 : Nat) : ℝ) ≤ Real.logb 2 (h : ℝ) + 1 / 1152921504606846976 := by
  have hhR : (18446744073709551616 : ℝ) ≤ (h : ℝ) := by exact_mod_cast hh
  have hpos : (0 : ℝ) < (h : ℝ) := by linarith
  have hlog2 : (1 / 2 : ℝ) ≤ Real.log 2 := by
    have h := Real.log_le_sub_one_of_pos (by norm_num : (0 : ℝ) < 1 / 2)
    have e : Real.log (1 / 2) = -Real.log 2 := by rw [one_div, Real.log_inv]
    rw [e] at h; linarith
  have e : ((h + 1 : Nat) : ℝ) = (h : ℝ) * (1 + 1 / (h : ℝ)) := by
    push_cast; field_simp
  rw [e, Real.logb_mul (ne_of_gt hpos) (by positivity)]
  have hx : (0 : ℝ) < 1 + 1 / (h : ℝ) := by positivity
  have h1 : Real.log (1 + 1 / (h : ℝ)) ≤ 1 / (h : ℝ) := by
    have := Real.log_le_sub_one_of_pos hx
    linarith
  have h2 : (1 : ℝ) / (h : ℝ) ≤ 1 / 18446744073709551616 := one_div_le_one_div_of_le (by norm_num) hhR
  have h3 : Real.logb 2 (1 + 1 / (h : ℝ)) ≤ 1 / 1152921504606846976 := by
    unfold Real.logb
    rw [div_le_iff₀ (by linarith)]
    calc Real.log (1 + 1 / (h : ℝ)) ≤ 1 / 18446744073709551616 := le_trans h1 h2
      _ ≤ 1 / 1152921504606846976 * (1 / 2) := by norm_num
      _ ≤ 1 / 1152921504606846976 * Real.log 2 := by
          apply mul_le_mul_of_nonneg_left hlog2 (by norm_num)
  linarith

/-- the highest double word and the remaining bits of a heap value of at most `2³⁰` bits -/
theorem large_split (n : Nat) (h128 : 2 ^ 128 ≤ n) (hbits : Nat.log2 n + 1 ≤ 2 ^ 30) :
    let rem := (wordLen n - 2) * 64
    let hi := n / 2 ^ rem
    2 ^ 64 ≤ hi ∧ hi < 2 ^ 128 ∧ hi * 2 ^ rem ≤ n ∧ n < (hi + 1) * 2 ^ rem ∧ wordLen n - 2 ≤ 2 ^ 24 := by
  have hn : 0 < n := lt_of_lt_of_le (by positivity) h128
  have h1 : 2 ^ Nat.log2 n ≤ n := Nat.log2_self_le (by omega)
  have h2 : n < 2 ^ (Nat.log2 n + 1) := Nat.lt_log2_self
  have hlog : 128 ≤ Nat.log2 n := by
    by_contra hcon
    have : 2 ^ (Nat.log2 n + 1) ≤ 2 ^ 128 := Nat.pow_le_pow_right (by norm_num) (by omega)
    omega
  intro rem hi
  have hpow : 0 < 2 ^ rem := by positivity
  -- (len − 1)·64 < bitlen ≤ len·64
  have hw1 : (wordLen n - 1) * 64 < Nat.log2 n + 1 := by unfold wordLen; omega
  have hw2 : Nat.log2 n + 1 ≤ wordLen n * 64 := by unfold wordLen; omega
  have hw3 : 3 ≤ wordLen n := by unfold wordLen; omega
  have hrem1 : rem + 64 ≤ Nat.log2 n := by show (wordLen n - 2) * 64 + 64 ≤ Nat.log2 n; omega
  have hrem2 : Nat.log2 n + 1 ≤ rem + 128 := by show Nat.log2 n + 1 ≤ (wordLen n - 2) * 64 + 128; omega
  refine ⟨?_, ?_, Nat.div_mul_le_self n (2 ^ rem), (Nat.div_lt_iff_lt_mul hpow).mp (Nat.lt_succ_self _), ?_⟩
  · show 2 ^ 64 ≤ n / 2 ^ rem
    rw [Nat.le_div_iff_mul_le hpow, ← Nat.pow_add]
    exact le_trans (Nat.pow_le_pow_right (by norm_num) (by omega)) h1
  · show n / 2 ^ rem < 2 ^ 128
    rw [Nat.div_lt_iff_lt_mul hpow, ← Nat.pow_add]
    exact lt_of_lt_of_le h2 (Nat.pow_le_pow_right (by norm_num) (by omega))
  · unfold wordLen; omega

/-- **(E) + (S) for `log2_bounds` from (LIBM) alone**, for every operand of at most `2³⁰` bits -/
theorem log2Model_sound (log2f : ℝ → ℝ) (h : Log2fSound log2f) (n : Nat) (hn : 0 < n) (hbits : Nat.log2 n + 1 ≤ 2 ^ 30) :
    (0 ≤ log2LbModel log2f n ∧ log2LbModel log2f n ≤ Real.logb 2 n ∧ Real.logb 2 n ≤ log2UbModel log2f n) ∧
    (2 ^ 128 ≤ n →
      log2LbModel log2f n ≤ Real.logb 2 n * ((1 + u32) ^ 2 * (1 - 4 * u32)) ∧
      (Real.logb 2 n - 1 / 1152921504606846976) * ((1 - u32) ^ 2 * (1 + 4 * u32)) ≤ log2UbModel log2f n) := by
  by_cases hsm : n < 2 ^ 128
  · have hb24 : Nat.log2 n + 1 ≤ 2 ^ 24 := by
      have : Nat.log2 n < 128 := (Nat.log2_lt (by omega)).mpr hsm
      omega
    have hl := log2LbStd_sound log2f h.lower n hn hb24
    have hu := log2UbStd_sound log2f h.upper n hn hb24
    unfold log2LbModel log2UbModel
    rw [if_pos hsm, if_pos hsm]
    exact ⟨⟨hl.1, hl.2.1, hu⟩, fun hge => absurd hsm (not_lt.mpr hge)⟩
  · have h128 : 2 ^ 128 ≤ n := not_lt.mp hsm
    obtain ⟨hhi1, hhi2, hmul1, hmul2, hwl⟩ := large_split n h128 hbits
    set rem := (wordLen n - 2) * 64 with hrem
    set hi := n / 2 ^ rem with hhi
    have hhipos : 0 < hi := lt_of_lt_of_le (by positivity) hhi1
    have hb24 : Nat.log2 hi + 1 ≤ 2 ^ 24 := by
      have : Nat.log2 hi < 128 := (Nat.log2_lt (by omega)).mpr hhi2
      omega
    have hl := log2LbStd_sound log2f h.lower hi hhipos hb24
    have hu := log2UbStd_sound log2f h.upper hi hhipos hb24
    -- `rem_bits as f32` is exact
    have hremfix : rne32 ((rem : Nat) : ℝ) = (rem : ℝ) := by
      have := rne32_nat_mul_pow (wordLen n - 2) 6 hwl
      have e : ((rem : Nat) : ℝ) = ((wordLen n - 2 : Nat) : ℝ) * (2 : ℝ) ^ 6 := by rw [hrem]; push_cast; ring
      rw [e]; exact this
    have hrem0 : (0 : ℝ) ≤ (rem : ℝ) := Nat.cast_nonneg _
    -- logarithms
    have hnR : (0 : ℝ) < (n : ℝ) := by exact_mod_cast hn
    have hhiR : (0 : ℝ) < (hi : ℝ) := by exact_mod_cast hhipos
    have hpowR : (0 : ℝ) < ((2 ^ rem : Nat) : ℝ) := by positivity
    have a1 : Real.logb 2 (hi : ℝ) + rem ≤ Real.logb 2 n := by
      have e : Real.logb 2 ((hi * 2 ^ rem : Nat) : ℝ) = Real.logb 2 (hi : ℝ) + rem := by
        push_cast
        rw [Real.logb_mul (ne_of_gt hhiR) (by positivity), Real.logb_pow, Real.logb_self_eq_one (by norm_num), mul_one]
      rw [← e]
      exact Real.logb_le_logb_of_le (by norm_num) (by exact_mod_cast Nat.mul_pos hhipos (by positivity)) (by exact_mod_cast hmul1)
    have a2 : Real.logb 2 n ≤ Real.logb 2 ((hi + 1 : Nat) : ℝ) + rem := by
      have e : Real.logb 2 (((hi + 1) * 2 ^ rem : Nat) : ℝ) = Real.logb 2 ((hi + 1 : Nat) : ℝ) + rem := by
        push_cast
        rw [Real.logb_mul (by positivity) (by positivity), Real.logb_pow, Real.logb_self_eq_one (by norm_num), mul_one]
      rw [← e]
      exact Real.logb_le_logb_of_le (by norm_num) hnR (by exact_mod_cast (le_of_lt hmul2))
    have a3 := logb_succ_le hi hhi1
    have hL128 : (128 : ℝ) ≤ Real.logb 2 n := by
      have : Real.logb 2 ((2 ^ 128 : Nat) : ℝ) ≤ Real.logb 2 n :=
        Real.logb_le_logb_of_le (by norm_num) (by positivity) (by exact_mod_cast h128)
      rw [logb_two_pow] at this
      exact_mod_cast this
    set L := Real.logb 2 n with hLdef
    have hu0 : 0 ≤ log2UbStd log2f hi := le_trans (logb2_nonneg hi hhipos) hu
    -- the two slack statements
    have sl := adjust_slack_lb rne32 rne32_relRound L (log2LbStd log2f hi) rem hl.1 hrem0 (by linarith [hl.2.1])
    have su := adjust_slack_ub rne32 rne32_relRound L (log2UbStd log2f hi) rem hu0 hrem0 (by linarith)
    have elb : log2LbModel log2f n = rne32 (rne32 (log2LbStd log2f hi + rem) * (1 - 4 * u32)) := by
      unfold log2LbModel; rw [if_neg hsm]; simp only [← hrem, ← hhi, hremfix]
    have eub : log2UbModel log2f n = rne32 (rne32 (log2UbStd log2f hi + rem) * (1 + 4 * u32)) := by
      unfold log2UbModel; rw [if_neg hsm]; simp only [← hrem, ← hhi, hremfix]
    rw [elb, eub]
    have hc1 : (1 + u32) ^ 2 * (1 - 4 * u32) ≤ 1 := by unfold u32; norm_num
    have hc2 : 1 + u32 ≤ (1 - u32) ^ 2 * (1 + 4 * u32) := by unfold u32; norm_num
    have hu32 : u32 = 1 / 16777216 := rfl
    refine ⟨⟨?_, ?_, ?_⟩, fun _ => ⟨sl, su⟩⟩
    · apply rne32_nonneg
      apply mul_nonneg _ (by unfold u32; norm_num)
      exact rne32_nonneg _ (by linarith [hl.1])
    · calc rne32 (rne32 (log2LbStd log2f hi + rem) * (1 - 4 * u32)) ≤ L * ((1 + u32) ^ 2 * (1 - 4 * u32)) := sl
        _ ≤ L * 1 := mul_le_mul_of_nonneg_left hc1 (by linarith)
        _ = L := mul_one L
    · -- (L − δ)·c ≥ (L − δ)(1 + u) ≥ L
      have hδ : (0 : ℝ) ≤ L - 1 / 1152921504606846976 := by linarith
      have step : (L - 1 / 1152921504606846976) * (1 + u32) ≤
          (L - 1 / 1152921504606846976) * ((1 - u32) ^ 2 * (1 + 4 * u32)) := mul_le_mul_of_nonneg_left hc2 hδ
      have : L ≤ (L - 1 / 1152921504606846976) * (1 + u32) := by
        rw [hu32]; nlinarith
      linarith

end Dashu.Model.Float
