import Dashu.Proofs.Float.RoundSum
import Dashu.Proofs.Float.Sqrt
/-
  C03: the two splitting alignment branches of `repr_add_large_small` for operands that fit the
  precision, and the assembled theorem for `Context::add` / `sub`.
-/
namespace Dashu.Model.Float
open Dashu Dashu.Props.GenRound

set_option maxHeartbeats 1000000 in
/-- the common core of the two splitting branches: the large operand `Lp` padded to exactly `p`
    digits, the small operand `r` (fewer than `p+1` digits) split `K ≥ 1` digits from its end -/
theorem split_branch_contract (B : Nat) (hB : 2 ≤ B) (m : Mode) (c : Coarse) (hc : CoarseSound c)
    (p : Nat) (hp : 1 ≤ p) (Lp r rs e : Int) (K : Nat) (isSub : Bool) (hrs : rs = 1 ∨ rs = -1)
    (hLlo : ((B ^ (p - 1) : Nat) : Int) ≤ |Lp|) (hr : |r| < ((B ^ p : Nat) : Int)) (hK : 1 ≤ K)
    (hsame : isSub = false → (0 < Lp ∧ 0 ≤ rs * r) ∨ (Lp < 0 ∧ rs * r ≤ 0)) :
    Contract B m p (((Lp * ((B ^ K : Nat) : Int) + rs * r : Int) : ℚ) * bpowQ B (e - K))
      ((reprRoundSum B m c p (Lp + rs * (splitDigits B r K).1) e (rs * (splitDigits B r K).2, K) isSub).1.toRat B)
      (reprRoundSum B m c p (Lp + rs * (splitDigits B r K).1) e (rs * (splitDigits B r K).2, K) isSub).2 := by
  have hB0 : 0 < B := by omega
  obtain ⟨hsplit, hlt, hpos, hneg⟩ := splitDigits_spec B hB r K
  generalize splitDigits B r K = hl at *
  have hDK := natpow_pos B hB0 K
  have hlt' := abs_lt.mp hlt
  have hr' := abs_lt.mp hr
  have hpm := natpow_pos B hB0 (p - 1)
  have hB2 : (2 : Int) ≤ (B : Int) := by exact_mod_cast hB
  have hpp : ((B ^ p : Nat) : Int) = ((B ^ (p - 1) : Nat) : Int) * (B : Int) := by
    have : B ^ p = B ^ (p - 1) * B := by rw [← Nat.pow_succ]; congr 1; omega
    rw [this]; push_cast; ring
  have hBK : (B : Int) ≤ ((B ^ K : Nat) : Int) := by
    have : B ^ 1 ≤ B ^ K := Nat.pow_le_pow_right hB0 hK
    simpa using (show ((B ^ 1 : Nat) : Int) ≤ ((B ^ K : Nat) : Int) by exact_mod_cast this)
  -- |hi part of r| < B^(p-1)
  have hhi : |hl.1| < ((B ^ (p - 1) : Nat) : Int) := by
    have h1 : |hl.1| * ((B ^ K : Nat) : Int) ≤ |r| := by
      rcases le_total 0 r with h | h
      · have := hpos h
        have h2 : 0 ≤ hl.1 * ((B ^ K : Nat) : Int) := Int.mul_nonneg this.2 (le_of_lt hDK)
        rw [abs_of_nonneg this.2, abs_of_nonneg h]; omega
      · have := hneg h
        have h2 : hl.1 * ((B ^ K : Nat) : Int) ≤ 0 := Int.mul_nonpos_of_nonpos_of_nonneg this.2 (le_of_lt hDK)
        rw [abs_of_nonpos this.2, abs_of_nonpos h]
        have : -hl.1 * ((B ^ K : Nat) : Int) = -(hl.1 * ((B ^ K : Nat) : Int)) := by ring
        omega
    have h3 : |hl.1| * (B : Int) ≤ |hl.1| * ((B ^ K : Nat) : Int) :=
      Int.mul_le_mul_of_nonneg_left hBK (abs_nonneg _)
    have h4 : |hl.1| * (B : Int) < ((B ^ (p - 1) : Nat) : Int) * (B : Int) := by rw [← hpp]; omega
    exact lt_of_mul_lt_mul_right h4 (by omega)
  have habs_rs : ∀ v : Int, |rs * v| = |v| := fun v => abs_sign_mul rs v hrs
  -- the aligned significand is non-zero and has the sign of Lp
  have hssign : (0 < Lp → 0 < Lp + rs * hl.1) ∧ (Lp < 0 → Lp + rs * hl.1 < 0) := by
    have h1 := abs_lt.mp (by rw [← habs_rs hl.1] at hhi; exact hhi : |rs * hl.1| < ((B ^ (p - 1) : Nat) : Int))
    constructor
    · intro h; rw [abs_of_pos h] at hLlo; omega
    · intro h; rw [abs_of_neg h] at hLlo; omega
  have hLp0 : Lp ≠ 0 := by
    intro h; rw [h, abs_zero] at hLlo; omega
  have hs0 : Lp + rs * hl.1 ≠ 0 := by
    rcases lt_or_gt_of_ne hLp0 with h | h
    · have := hssign.2 h; omega
    · have := hssign.1 h; omega
  -- exact value
  have hX : (Lp + rs * hl.1) * ((B ^ K : Nat) : Int) + rs * hl.2 = Lp * ((B ^ K : Nat) : Int) + rs * r := by
    conv_rhs => rw [hsplit]
    ring
  rw [← hX]
  apply reprRoundSum_contract B hB m c hc p hp _ e _ K isSub
  · rw [habs_rs]; exact hlt
  · exact hs0
  · intro hsub
    rcases hsame hsub with ⟨h1, h2⟩ | ⟨h1, h2⟩
    · have hspos := hssign.1 h1
      refine ⟨fun _ => ?_, fun h => by omega⟩
      rcases hrs with h | h <;> subst h
      · have : 0 ≤ r := by omega
        have := (hpos this).1; omega
      · have : r ≤ 0 := by omega
        have := (hneg this).1; omega
    · have hsneg := hssign.2 h1
      refine ⟨fun h => by omega, fun _ => ?_⟩
      rcases hrs with h | h <;> subst h
      · have : r ≤ 0 := by omega
        have := (hneg this).1; omega
      · have : 0 ≤ r := by omega
        have := (hpos this).1; omega
  · -- the guard digit suffices
    intro _ hd hlk
    rw [hX]
    obtain ⟨hdpos, _, _⟩ := digitsI_spec B hB _ hs0
    generalize digitsI B (Lp + rs * hl.1) = d at *
    have hK2 : 2 ≤ K := by omega
    have hexp : K - (p + 1 - d) + (p - 1) = K + d - 2 := by omega
    rw [← natpow_add, hexp]
    -- |X| ≥ |Lp|·B^K − |r|
    have h1 : |Lp * ((B ^ K : Nat) : Int)| - |rs * r| ≤ |Lp * ((B ^ K : Nat) : Int) + rs * r| := by
      have := abs_sub_abs_le_abs_sub (Lp * ((B ^ K : Nat) : Int)) (-(rs * r))
      simpa using this
    rw [abs_mul, abs_of_pos hDK, habs_rs] at h1
    have h2 : ((B ^ (p - 1) : Nat) : Int) * ((B ^ K : Nat) : Int) ≤ |Lp| * ((B ^ K : Nat) : Int) :=
      Int.mul_le_mul_of_nonneg_right hLlo (le_of_lt hDK)
    -- B^(p-1+K) = B · B^(K+p-2) ≥ 2·B^(K+p-2),  B^p ≤ B^(K+p-2),  B^(K+d-2) ≤ B^(K+p-2)
    have e1 : ((B ^ (p - 1) : Nat) : Int) * ((B ^ K : Nat) : Int) = (B : Int) * ((B ^ (K + p - 2) : Nat) : Int) := by
      have : B ^ (p - 1) * B ^ K = B * B ^ (K + p - 2) := by
        rw [← Nat.pow_add, ← Nat.pow_succ']; congr 1; omega
      exact_mod_cast this
    have h3 : ((B ^ p : Nat) : Int) ≤ ((B ^ (K + p - 2) : Nat) : Int) := pow_le_pow_int B hB0 _ _ (by omega)
    have h4 : ((B ^ (K + d - 2) : Nat) : Int) ≤ ((B ^ (K + p - 2) : Nat) : Int) := pow_le_pow_int B hB0 _ _ (by omega)
    have h5 : 2 * ((B ^ (K + p - 2) : Nat) : Int) ≤ (B : Int) * ((B ^ (K + p - 2) : Nat) : Int) :=
      Int.mul_le_mul_of_nonneg_right hB2 (le_of_lt (natpow_pos B hB0 _))
    rw [e1] at h2
    omega

theorem same_sign_of_not_sub (l r rs : Int) (hrs : rs = 1 ∨ rs = -1) (hl : l ≠ 0) (hr : r ≠ 0)
    (h : decide (sgn l ≠ rs * sgn r) = false) : (0 < l ∧ 0 ≤ rs * r) ∨ (l < 0 ∧ rs * r ≤ 0) := by
  have hsame : sgn l = rs * sgn r := by simpa using h
  rcases sgn_cases l hl with ⟨h1, h2⟩ | ⟨h1, h2⟩ <;> rcases sgn_cases r hr with ⟨g1, g2⟩ | ⟨g1, g2⟩ <;>
    rcases hrs with h | h <;> subst h <;> rw [h1, g1] at hsame <;> first | omega | (left; omega) | (right; omega)

theorem abs_lt_pow_of_digits (B : Nat) (hB : 2 ≤ B) (v : Int) (p : Nat) (h : digitsI B v ≤ p) :
    |v| < ((B ^ p : Nat) : Int) := by
  have h1 : v.natAbs < B ^ digitsI B v := digits_lt_pow B hB _
  have h2 : B ^ digitsI B v ≤ B ^ p := Nat.pow_le_pow_right (by omega) h
  rw [← Int.natCast_natAbs]
  exact_mod_cast lt_of_lt_of_le h1 h2

set_option maxHeartbeats 1000000 in
/-- **`repr_add_large_small` for operands that fit the precision** (all four alignment branches) -/
theorem reprAddLargeSmall_fits_contract (B : Nat) (hB : 2 ≤ B) (m : Mode) (c : Coarse) (hc : CoarseSound c)
    (dub : Int → Nat) (hdub : DubSound B dub) (p : Nat) (hp : 1 ≤ p) (lhs rhs : FRepr) (rs : Int)
    (hrs : rs = 1 ∨ rs = -1) (hgt : rhs.exp < lhs.exp) (hl0 : lhs.signif ≠ 0) (hr0 : rhs.signif ≠ 0)
    (hld : lhs.digits B ≤ p) (hrd : rhs.digits B ≤ p) :
    Contract B m p (lhs.toRat B + (rs : ℚ) * rhs.toRat B)
      ((reprAddLargeSmall B m c dub p lhs rhs rs).1.toRat B) (reprAddLargeSmall B m c dub p lhs rhs rs).2 := by
  have hB0 : 0 < B := by omega
  have hp0 : p ≠ 0 := by omega
  by_cases hfar : dub rhs.signif + 1 < (lhs.exp - rhs.exp).toNat ∧
      dub rhs.signif + 1 + (p + if decide (sgn lhs.signif ≠ rs * sgn rhs.signif) = true then 1 else 0) <
        lhs.digits B + (lhs.exp - rhs.exp).toNat
  · exact reprAddLargeSmall_far_contract B hB m c hc dub hdub p hp lhs rhs rs hrs hgt hl0 hr0 hld hfar
  · by_cases hkeep : (lhs.exp - rhs.exp).toNat + lhs.digits B ≤ p
    · exact reprAddLargeSmall_aligned B hB m c hc dub p hp lhs rhs rs hgt hkeep
    · -- one of the two splitting branches
      have hE1 : 1 ≤ (lhs.exp - rhs.exp).toNat := by omega
      have hEv : (((lhs.exp - rhs.exp).toNat : Nat) : Int) = lhs.exp - rhs.exp := Int.toNat_of_nonneg (by omega)
      have hrabs : |rhs.signif| < ((B ^ p : Nat) : Int) := abs_lt_pow_of_digits B hB _ p hrd
      obtain ⟨hdpos, hllo, _⟩ := digitsI_spec B hB lhs.signif hl0
      unfold reprAddLargeSmall
      try simp only [shlDigits_eq, shrDigits_eq]
      have hfar' : ¬ (p ≠ 0 ∧ dub rhs.signif + 1 < (lhs.exp - rhs.exp).toNat ∧
          dub rhs.signif + 1 + (p + if decide (sgn lhs.signif ≠ rs * sgn rhs.signif) = true then 1 else 0) <
            lhs.digits B + (lhs.exp - rhs.exp).toNat) := fun h => hfar h.2
      simp only [hfar', if_false]
      have hsame := same_sign_of_not_sub lhs.signif rhs.signif rs hrs hl0 hr0
      generalize decide (sgn lhs.signif ≠ rs * sgn rhs.signif) = isSub at *
      unfold FRepr.digits at *
      generalize hE : (lhs.exp - rhs.exp).toNat = E at *
      by_cases h2 : digitsI B lhs.signif ≥ p
      · -- the large operand has exactly p digits: split the small one at the exponent gap
        have h2' : p ≠ 0 ∧ digitsI B lhs.signif ≥ p := ⟨hp0, h2⟩
        simp only [h2', and_self, if_true]
        simp only [and_true, ne_eq, hp0, not_false_eq_true, if_true]
        have hdeq : digitsI B lhs.signif = p := by omega
        rw [hdeq] at hllo
        have key := split_branch_contract B hB m c hc p hp lhs.signif rhs.signif rs lhs.exp E isSub hrs hllo hrabs hE1
          (fun h => hsame h)
        have hval : ((lhs.signif * ((B ^ E : Nat) : Int) + rs * rhs.signif : Int) : ℚ) * bpowQ B (lhs.exp - E) =
            lhs.toRat B + (rs : ℚ) * rhs.toRat B := by
          unfold FRepr.toRat
          have e1 : lhs.exp - (E : Int) = rhs.exp := by omega
          have e2 : bpowQ B lhs.exp = ((B ^ E : Nat) : ℚ) * bpowQ B rhs.exp := by
            rw [← bpowQ_nat, ← bpowQ_add B hB0, hEv]; congr 1; ring
          rw [e1, e2]; push_cast; ring
        rw [hval] at key
        exact key
      · have h2' : ¬ (p ≠ 0 ∧ digitsI B lhs.signif ≥ p) := fun h => h2 h.2
        have h3 : p ≠ 0 ∧ E + digitsI B lhs.signif > p := ⟨hp0, by omega⟩
        simp only [h2', h3, and_self, if_false, if_true]
        simp only [and_true, ne_eq, hp0, not_false_eq_true, if_true]
        generalize hls : p - digitsI B lhs.signif = lsh at *
        have hK1 : 1 ≤ E - lsh := by omega
        have hDl := natpow_pos B hB0 lsh
        have hLlo : ((B ^ (p - 1) : Nat) : Int) ≤ |lhs.signif * ((B ^ lsh : Nat) : Int)| := by
          rw [abs_mul, abs_of_pos hDl]
          have : p - 1 = (digitsI B lhs.signif - 1) + lsh := by omega
          rw [this, natpow_add]
          exact Int.mul_le_mul_of_nonneg_right hllo (le_of_lt hDl)
        have key := split_branch_contract B hB m c hc p hp (lhs.signif * ((B ^ lsh : Nat) : Int)) rhs.signif rs
          (lhs.exp - lsh) (E - lsh) isSub hrs hLlo hrabs hK1
          (fun h => by
            rcases hsame h with ⟨a, b⟩ | ⟨a, b⟩
            · left; exact ⟨Int.mul_pos a hDl, b⟩
            · right; exact ⟨Int.mul_neg_of_neg_of_pos a hDl, b⟩)
        have hval : ((lhs.signif * ((B ^ lsh : Nat) : Int) * ((B ^ (E - lsh) : Nat) : Int) + rs * rhs.signif : Int) : ℚ) *
            bpowQ B (lhs.exp - (lsh : Int) - ((E - lsh : Nat) : Int)) = lhs.toRat B + (rs : ℚ) * rhs.toRat B := by
          unfold FRepr.toRat
          have e0 : ((E - lsh : Nat) : Int) = (E : Int) - lsh := by omega
          have e1 : lhs.exp - (lsh : Int) - ((E - lsh : Nat) : Int) = rhs.exp := by omega
          have e2 : bpowQ B lhs.exp = ((B ^ lsh : Nat) : ℚ) * ((B ^ (E - lsh) : Nat) : ℚ) * bpowQ B rhs.exp := by
            rw [← Nat.cast_mul, ← Nat.pow_add, ← bpowQ_nat, ← bpowQ_add B hB0]; congr 1
            have : ((lsh + (E - lsh) : Nat) : Int) = (E : Int) := by omega
            rw [this, hEv]; ring
          rw [e1, e2]; push_cast; ring
        rw [hval] at key
        exact key

/-- **`Context::add` / `Context::sub` honour the rounding contract for all operands that fit the
    precision** (every sign, every exponent gap, cancellation, carries), for every sound `digits_ub`
    estimator and every sound coarse test. -/
theorem addSub_fits_contract (B : Nat) (hB : 2 ≤ B) (m : Mode) (c : Coarse) (hc : CoarseSound c)
    (dub : Int → Nat) (hdub : DubSound B dub) (p : Nat) (hp : 1 ≤ p) (lhs rhs : FRepr) (rs : Int)
    (hrs : rs = 1 ∨ rs = -1) (hl : Normalized B lhs) (hr : Normalized B rhs)
    (hwl : lhs.signif = 0 → lhs.exp = 0) (hwr : rhs.signif = 0 → rhs.exp = 0)
    (hld : lhs.digits B ≤ p) (hrd : rhs.digits B ≤ p) :
    Contract B m p (lhs.toRat B + (rs : ℚ) * rhs.toRat B)
      ((ctxAddSub B m c dub p lhs rhs rs).1.toRat B) (ctxAddSub B m c dub p lhs rhs rs).2 := by
  by_cases hs : lhs.isZero = true ∨ rhs.isZero = true ∨ lhs.exp = rhs.exp
  · exact addSub_simple_contract B hB m c hc dub p hp lhs rhs rs hrs hl hr hs
  · have hlz : ¬ lhs.isZero = true := fun h => hs (Or.inl h)
    have hrz : ¬ rhs.isZero = true := fun h => hs (Or.inr (Or.inl h))
    have hne : ¬ lhs.exp = rhs.exp := fun h => hs (Or.inr (Or.inr h))
    have hl0 : lhs.signif ≠ 0 := by
      intro h0; apply hlz; unfold FRepr.isZero; simp [h0, hwl h0]
    have hr0 : rhs.signif ≠ 0 := by
      intro h0; apply hrz; unfold FRepr.isZero; simp [h0, hwr h0]
    unfold ctxAddSub
    simp only [hlz, hrz, hne, if_false, Bool.false_eq_true]
    by_cases hgt : lhs.exp > rhs.exp
    · simp only [hgt, if_true]
      exact reprAddLargeSmall_fits_contract B hB m c hc dub hdub p hp lhs rhs rs hrs hgt hl0 hr0 hld hrd
    · simp only [hgt, if_false]
      have hlt : lhs.exp < rhs.exp := by omega
      have hbig0 : (⟨rs * rhs.signif, rhs.exp⟩ : FRepr).signif ≠ 0 := by
        simp only; rcases hrs with h | h <;> subst h <;> simp <;> exact hr0
      have hdig : (⟨rs * rhs.signif, rhs.exp⟩ : FRepr).digits B = rhs.digits B := by
        unfold FRepr.digits; exact digits_mul_sign B _ _ hrs
      have key := reprAddLargeSmall_fits_contract B hB m c hc dub hdub p hp ⟨rs * rhs.signif, rhs.exp⟩ lhs 1
        (Or.inl rfl) hlt hbig0 hl0 (by rw [hdig]; exact hrd) hld
      have hv : (⟨rs * rhs.signif, rhs.exp⟩ : FRepr).toRat B + ((1 : Int) : ℚ) * lhs.toRat B =
          lhs.toRat B + (rs : ℚ) * rhs.toRat B := by
        unfold FRepr.toRat; push_cast; ring
      rw [hv] at key
      exact key

end Dashu.Model.Float
