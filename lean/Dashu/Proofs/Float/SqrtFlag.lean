import Dashu.Proofs.Float.Sqrt
/-
  C03 (round 5): the exactness FLAG of `Context::sqrt` as a structural statement about the code path —
  the flag is the one `sqrtRound` computes from `(rem, low)` (the closing `repr_round` never rounds because the
  root has at most `p` digits), hence `Exact` iff the integer remainder AND the digits discarded by the
  scaling are both zero.  (Before 92fc29e the code looked at the remainder only.)
-/
namespace Dashu.Model.Float
open Dashu Dashu.Props.GenRound

/-- the flag of the rounding step is `Exact` iff remainder and discarded low digits are both zero -/
theorem sqrtRound_flag_none_iff (B : Nat) (m : Mode) (sr : Nat → Nat × Nat) (S low : Int) (k : Nat) :
    (sqrtRound B m sr S low k).2 = none ↔ ((sr S.natAbs).2 = 0 ∧ low = 0) := by
  unfold sqrtRound
  by_cases h : (((sr S.natAbs).2 : Nat) : Int) = 0 ∧ low = 0
  · have h' : (sr S.natAbs).2 = 0 ∧ low = 0 := ⟨by exact_mod_cast h.1, h.2⟩
    simp [h, h']
  · have h' : ¬ ((sr S.natAbs).2 = 0 ∧ low = 0) := by
      intro hh; apply h; exact ⟨by exact_mod_cast hh.1, hh.2⟩
    simp [h, h']

/-- the flag `Context::sqrt` returns is the flag of its rounding step: the closing `repr_round` is the identity -/
theorem ctxSqrt_flag (B : Nat) (hB : 2 ≤ B) (m : Mode) (c : Coarse) (sr : Nat → Nat × Nat) (hsr : SqrtRemOk sr)
    (p : Nat) (hp : 1 ≤ p) (x : FRepr) (hs : 0 ≤ x.signif) :
    ∃ r, ctxSqrt B m c sr p x = .ok r ∧
      r.2 = (sqrtRound B m sr (sqrtScale B p x).1 (sqrtScale B p x).2.1 (sqrtScale B p x).2.2.1).2 := by
  have hB0 : 0 < B := by omega
  have hp0 : p ≠ 0 := by omega
  have hneg : ¬ x.signif < 0 := by omega
  unfold ctxSqrt
  simp only [hp0, hneg, if_false]
  obtain ⟨hS0, hl0, hlk, hval, hdig, hzero⟩ := sqrtScale_spec B hB p hp x hs
  generalize sqrtScale B p x = sc at *
  obtain ⟨root, hr0, hlow, hupp, hres⟩ := sqrtRound_spec B hB m sr hsr sc.1 sc.2.1 sc.2.2.1 hS0 hl0 hlk
  have hD : (0 : Int) < ((B ^ sc.2.2.1 : Nat) : Int) := by
    have : 0 < B ^ sc.2.2.1 := Nat.pow_pos hB0
    exact_mod_cast this
  have hrootlt : root < ((B ^ p : Nat) : Int) := by
    by_cases hs0 : x.signif = 0
    · obtain ⟨h1, h2⟩ := hzero hs0
      rw [h1, h2] at hlow
      simp only [zero_mul, add_zero] at hlow
      have h3 : root * root * ((B ^ sc.2.2.1 : Nat) : Int) ≤ 0 := hlow
      have hpos : (0 : Int) < ((B ^ p : Nat) : Int) := by
        have : 0 < B ^ p := Nat.pow_pos hB0
        exact_mod_cast this
      by_contra hc
      have : 1 ≤ root := by omega
      have : 1 ≤ root * root := by nlinarith
      have := Int.mul_le_mul_of_nonneg_right this (le_of_lt hD)
      omega
    · obtain ⟨_, h2⟩ := hdig hs0
      by_contra hc
      have hge : ((B ^ p : Nat) : Int) ≤ root := by omega
      have hpp : ((B ^ (2 * p) : Nat) : Int) = ((B ^ p : Nat) : Int) * ((B ^ p : Nat) : Int) := by
        rw [← Nat.cast_mul, ← Nat.pow_add]; congr 2; omega
      have hsq : ((B ^ p : Nat) : Int) * ((B ^ p : Nat) : Int) ≤ root * root := by
        have hpos : (0 : Int) ≤ ((B ^ p : Nat) : Int) := Int.natCast_nonneg _
        nlinarith
      have h4 : root * root * ((B ^ sc.2.2.1 : Nat) : Int) ≤ sc.1 * ((B ^ sc.2.2.1 : Nat) : Int) + sc.2.1 := hlow
      have h5 : (sc.1 + 1) * ((B ^ sc.2.2.1 : Nat) : Int) ≤ root * root * ((B ^ sc.2.2.1 : Nat) : Int) :=
        Int.mul_le_mul_of_nonneg_right (by omega) (le_of_lt hD)
      have e : (sc.1 + 1) * ((B ^ sc.2.2.1 : Nat) : Int) = sc.1 * ((B ^ sc.2.2.1 : Nat) : Int) + ((B ^ sc.2.2.1 : Nat) : Int) := by ring
      omega
  have hfit : ∀ a : Int, (a = 0 ∨ a = 1) →
      reprRound B m c p (FRepr.new B (root + a) sc.2.2.2) = (FRepr.new B (root + a) sc.2.2.2, none) := by
    intro a ha
    apply reprRound_exact_of_fits
    apply new_digits_le B hB p hp
    · omega
    · omega
  rcases hres with ⟨hexact, _⟩ | ⟨adj, hinex, hadj, _⟩
  · rw [hexact]
    have := hfit 0 (Or.inl rfl)
    simp only [add_zero] at this
    simp only [this]
    exact ⟨_, rfl, by simp [andThenFlag_none]⟩
  · rw [hinex]
    have ha : rInt adj = 0 ∨ rInt adj = 1 := by rcases hadj with h | h <;> subst h <;> simp [rInt]
    simp only [hfit (rInt adj) ha]
    exact ⟨_, rfl, by simp [andThenFlag_none]⟩

end Dashu.Model.Float
