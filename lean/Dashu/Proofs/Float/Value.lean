import Dashu.Proofs.Float.Contract
import Mathlib.Algebra.Order.Field.Power
import Mathlib.Tactic.Positivity
import Mathlib.Tactic.FieldSimp
/-
  Values over `Rat`: `bpowQ` is `B^e`, `Repr::new` (normalisation) keeps the value and delivers a
  significand not divisible by the base, and the step from the integer-scaled contract to
  `Contract` over `Rat`.
-/
namespace Dashu.Model.Float
open Dashu

theorem bpowQ_eq_zpow (B : Nat) (e : Int) : bpowQ B e = (B : ℚ) ^ e := by
  unfold bpowQ
  by_cases h : e ≥ 0
  · simp only [h, if_true]
    conv_rhs => rw [← Int.toNat_of_nonneg h]
    rw [zpow_natCast]; push_cast; rfl
  · simp only [h, if_false]
    have h' : 0 ≤ -e := by omega
    have : e = -((-e).toNat : Int) := by rw [Int.toNat_of_nonneg h']; ring
    conv_rhs => rw [this]
    rw [zpow_neg, zpow_natCast]; push_cast; rw [one_div]

theorem bpowQ_pos (B : Nat) (hB : 0 < B) (e : Int) : 0 < bpowQ B e := by
  rw [bpowQ_eq_zpow]; exact zpow_pos (by exact_mod_cast hB) e

theorem bpowQ_add (B : Nat) (hB : 0 < B) (a b : Int) : bpowQ B (a + b) = bpowQ B a * bpowQ B b := by
  simp only [bpowQ_eq_zpow]
  exact zpow_add₀ (by exact_mod_cast (Nat.pos_iff_ne_zero.mp hB)) a b

theorem bpowQ_nat (B k : Nat) : bpowQ B (k : Int) = ((B ^ k : Nat) : ℚ) := by
  rw [bpowQ_eq_zpow, zpow_natCast]; push_cast; rfl

theorem absQ_eq (x : ℚ) : absQ x = |x| := by
  unfold absQ
  split
  · rw [abs_of_neg ‹_›]
  · rw [abs_of_nonneg (by linarith)]

/-! ### `Repr::new` -/

theorem stripAux_value (B : Nat) (hB : 0 < B) : ∀ fuel (s e : Int),
    ((stripAux B fuel s e).1 : ℚ) * bpowQ B (stripAux B fuel s e).2 = (s : ℚ) * bpowQ B e := by
  intro fuel
  induction fuel with
  | zero => intro s e; rfl
  | succ fuel ih =>
    intro s e
    unfold stripAux
    by_cases h : s % (B : Int) = 0
    · simp only [h, if_true]
      rw [ih]
      have hs : s = (B : Int) * (s / (B : Int)) := by
        have := Int.mul_ediv_add_emod s B; omega
      rw [bpowQ_add B hB, show bpowQ B 1 = (B : ℚ) by rw [show (1 : Int) = ((1 : Nat) : Int) by rfl, bpowQ_nat]; simp]
      conv_rhs => rw [hs]
      push_cast; ring
    · simp only [h, if_false]

theorem FRepr.new_value (B : Nat) (hB : 0 < B) (s e : Int) :
    (FRepr.new B s e).toRat B = (s : ℚ) * bpowQ B e := by
  unfold FRepr.new FRepr.toRat
  by_cases h : s = 0
  · subst h; simp
  · simp only [h, if_false]
    exact stripAux_value B hB _ s e

/-- a significand that is zero or not divisible by the base (the invariant `Repr::new` establishes) -/
def Normalized (B : Nat) (r : FRepr) : Prop := r.signif = 0 ∨ r.signif % (B : Int) ≠ 0

theorem stripAux_norm (B : Nat) (hB : 2 ≤ B) : ∀ fuel (s e : Int), s ≠ 0 → s.natAbs < 2 ^ fuel →
    (stripAux B fuel s e).1 % (B : Int) ≠ 0 := by
  intro fuel
  induction fuel with
  | zero => intro s e hs h; simp at h; omega
  | succ fuel ih =>
    intro s e hs hlt
    unfold stripAux
    by_cases h : s % (B : Int) = 0
    · simp only [h, if_true]
      have hsB : s = (B : Int) * (s / (B : Int)) := by
        have := Int.mul_ediv_add_emod s B; omega
      have hq0 : s / (B : Int) ≠ 0 := by
        intro hq; rw [hq] at hsB; simp at hsB; exact hs hsB
      apply ih _ _ hq0
      have hab : s.natAbs = B * (s / (B : Int)).natAbs := by
        conv_lhs => rw [hsB]
        rw [Int.natAbs_mul]; simp
      have : 2 * (s / (B : Int)).natAbs ≤ s.natAbs := by
        rw [hab]; exact Nat.mul_le_mul_right _ hB
      rw [Nat.pow_succ] at hlt
      omega
    · simp only [h, if_false]
      exact h

theorem FRepr.new_normalized (B : Nat) (hB : 2 ≤ B) (s e : Int) : Normalized B (FRepr.new B s e) := by
  unfold FRepr.new Normalized
  by_cases h : s = 0
  · subst h; simp
  · simp only [h, if_false]
    right
    exact stripAux_norm B hB _ s e h Nat.lt_log2_self

/-! ### from the integer-scaled contract to `Contract` -/

theorem contract_of_icontract (B : Nat) (hB : 2 ≤ B) (m : Mode) (p k : Nat) (hp : 1 ≤ p) (X R : Int)
    (flag : Option Rounding) (e : Int)
    (h : IContract m ((B ^ k : Nat) : Int) X R flag) (hR : ∃ t : Int, R = t * ((B ^ k : Nat) : Int))
    (hulp : ((B ^ k : Nat) : Int) * ((B ^ (p - 1) : Nat) : Int) ≤ |X|) :
    Contract B m p ((X : ℚ) * bpowQ B e) ((R : ℚ) * bpowQ B e) flag := by
  have hB0 : 0 < B := by omega
  have hu : 0 < bpowQ B e := bpowQ_pos B hB0 e
  have hne : (R : ℚ) * bpowQ B e ≠ (X : ℚ) * bpowQ B e := by
    intro heq
    have := mul_right_cancel₀ (ne_of_gt hu) heq
    exact h.ne (by exact_mod_cast this)
  have hunit : bpowQ B (k + e) = ((B ^ k : Nat) : ℚ) * bpowQ B e := by
    rw [bpowQ_add B hB0, bpowQ_nat]
  refine ⟨?_, ?_, ?_, ?_, ?_⟩
  · constructor
    · intro hf; exact absurd hf h.flag_some
    · intro hr; exact absurd hr hne
  · intro _
    refine ⟨(k : Int) + e, ?_, ?_, ?_⟩
    rotate_left 2
    · obtain ⟨t, ht⟩ := hR
      refine ⟨t, ?_⟩
      rw [hunit, ht]; push_cast; ring
    · have e1 : (k : Int) + e + p - 1 = ((k + (p - 1) : Nat) : Int) + e := by
        push_cast; omega
      rw [e1, bpowQ_add B hB0, bpowQ_nat, absQ_eq, abs_mul, abs_of_pos hu]
      apply mul_le_mul_of_nonneg_right _ (le_of_lt hu)
      have : ((B ^ (k + (p - 1)) : Nat) : ℚ) = (((B ^ k : Nat) : Int) * ((B ^ (p - 1) : Nat) : Int) : Int) := by
        push_cast; rw [pow_add]
      rw [this, ← Int.cast_abs]
      exact_mod_cast hulp
    · unfold errOk
      rw [hunit, absQ_eq, ← sub_mul, abs_mul, abs_of_pos hu]
      have herr := h.err
      by_cases hh : m.isHalf = true
      · simp only [hh, if_true] at herr ⊢
        have : 2 * |((R : ℚ) - X)| ≤ ((B ^ k : Nat) : ℚ) := by
          have hab : 2 * |R - X| ≤ ((B ^ k : Nat) : Int) := by
            rw [show (2 : Int) * |R - X| = |2 * (R - X)| by rw [abs_mul]; simp]
            exact abs_le.mpr herr
          have : ((2 * |R - X| : Int) : ℚ) ≤ (((B ^ k : Nat) : Int) : ℚ) := by exact_mod_cast hab
          push_cast at this
          simpa using this
        calc 2 * (|(R : ℚ) - X| * bpowQ B e) = (2 * |(R : ℚ) - X|) * bpowQ B e := by ring
          _ ≤ ((B ^ k : Nat) : ℚ) * bpowQ B e := mul_le_mul_of_nonneg_right this (le_of_lt hu)
      · simp only [hh, if_false, Bool.false_eq_true] at herr ⊢
        have : |((R : ℚ) - X)| < ((B ^ k : Nat) : ℚ) := by
          have hab : |R - X| < ((B ^ k : Nat) : Int) := abs_lt.mpr herr
          have : ((|R - X| : Int) : ℚ) < (((B ^ k : Nat) : Int) : ℚ) := by exact_mod_cast hab
          push_cast at this
          simpa using this
        exact mul_lt_mul_of_pos_right this hu
  · have hs := h.side
    unfold sideOk
    cases m <;> simp only at hs ⊢
    · -- zero
      rw [absQ_eq, absQ_eq, abs_mul, abs_mul, abs_of_pos hu]
      apply mul_le_mul_of_nonneg_right _ (le_of_lt hu)
      have : |R| ≤ |X| := by
        rcases le_total 0 X with hx | hx
        · have := hs.1 hx; rw [abs_of_nonneg this.1, abs_of_nonneg hx]; exact this.2
        · have := hs.2 hx; rw [abs_of_nonpos this.2, abs_of_nonpos hx]; linarith [this.1]
      have : ((|R| : Int) : ℚ) ≤ ((|X| : Int) : ℚ) := by exact_mod_cast this
      simpa using this
    · -- away
      rw [absQ_eq, absQ_eq, abs_mul, abs_mul, abs_of_pos hu]
      apply mul_le_mul_of_nonneg_right _ (le_of_lt hu)
      have : |X| ≤ |R| := by
        rcases le_total 0 X with hx | hx
        · have := hs.1 hx; rw [abs_of_nonneg hx, abs_of_nonneg (by linarith)]; exact this
        · have := hs.2 hx; rw [abs_of_nonpos hx, abs_of_nonpos (by linarith)]; linarith
      have : ((|X| : Int) : ℚ) ≤ ((|R| : Int) : ℚ) := by exact_mod_cast this
      simpa using this
    · exact mul_le_mul_of_nonneg_right (by exact_mod_cast hs) (le_of_lt hu)
    · exact mul_le_mul_of_nonneg_right (by exact_mod_cast hs) (le_of_lt hu)
  · intro hf
    exact mul_lt_mul_of_pos_right (by exact_mod_cast h.addOne hf) hu
  · intro hf
    exact mul_lt_mul_of_pos_right (by exact_mod_cast h.subOne hf) hu

/-- general form: unit `D > 0` (any integer), scale `u > 0` with `D · u = B^e` -/
theorem contract_of_icontract' (B : Nat) (hB : 2 ≤ B) (m : Mode) (p : Nat) (hp : 1 ≤ p) (D X R : Int) (hD : 0 < D)
    (flag : Option Rounding) (u : ℚ) (hu : 0 < u) (e : Int) (hunit : (D : ℚ) * u = bpowQ B e)
    (h : IContract m D X R flag) (hR : ∃ t : Int, R = t * D)
    (hulp : D * ((B ^ (p - 1) : Nat) : Int) ≤ |X|) :
    Contract B m p ((X : ℚ) * u) ((R : ℚ) * u) flag := by
  have hB0 : 0 < B := by omega
  have hne : (R : ℚ) * u ≠ (X : ℚ) * u := by
    intro heq
    have := mul_right_cancel₀ (ne_of_gt hu) heq
    exact h.ne (by exact_mod_cast this)
  refine ⟨?_, ?_, ?_, ?_, ?_⟩
  · constructor
    · intro hf; exact absurd hf h.flag_some
    · intro hr; exact absurd hr hne
  · intro _
    refine ⟨e, ?_, ?_, ?_⟩
    rotate_left 2
    · obtain ⟨t, ht⟩ := hR
      refine ⟨t, ?_⟩
      rw [← hunit, ht]; push_cast; ring
    · have e1 : e + p - 1 = ((p - 1 : Nat) : Int) + e := by push_cast; omega
      rw [e1, bpowQ_add B hB0, bpowQ_nat, ← hunit, absQ_eq, abs_mul, abs_of_pos hu]
      have : ((B ^ (p - 1) : Nat) : ℚ) * ((D : ℚ) * u) = (((D * ((B ^ (p - 1) : Nat) : Int) : Int)) : ℚ) * u := by
        push_cast; ring
      rw [this]
      apply mul_le_mul_of_nonneg_right _ (le_of_lt hu)
      rw [← Int.cast_abs]
      exact_mod_cast hulp
    · unfold errOk
      rw [← hunit, absQ_eq, ← sub_mul, abs_mul, abs_of_pos hu]
      have herr := h.err
      by_cases hh : m.isHalf = true
      · simp only [hh, if_true] at herr ⊢
        have : 2 * |((R : ℚ) - X)| ≤ (D : ℚ) := by
          have hab : 2 * |R - X| ≤ D := by
            rw [show (2 : Int) * |R - X| = |2 * (R - X)| by rw [abs_mul]; simp]
            exact abs_le.mpr herr
          have : ((2 * |R - X| : Int) : ℚ) ≤ ((D : Int) : ℚ) := by exact_mod_cast hab
          push_cast at this
          simpa using this
        calc 2 * (|(R : ℚ) - X| * u) = (2 * |(R : ℚ) - X|) * u := by ring
          _ ≤ (D : ℚ) * u := mul_le_mul_of_nonneg_right this (le_of_lt hu)
      · simp only [hh, if_false, Bool.false_eq_true] at herr ⊢
        have : |((R : ℚ) - X)| < (D : ℚ) := by
          have hab : |R - X| < D := abs_lt.mpr herr
          have : ((|R - X| : Int) : ℚ) < ((D : Int) : ℚ) := by exact_mod_cast hab
          push_cast at this
          simpa using this
        exact mul_lt_mul_of_pos_right this hu
  · have hs := h.side
    unfold sideOk
    cases m <;> simp only at hs ⊢
    · rw [absQ_eq, absQ_eq, abs_mul, abs_mul, abs_of_pos hu]
      apply mul_le_mul_of_nonneg_right _ (le_of_lt hu)
      have : |R| ≤ |X| := by
        rcases le_total 0 X with hx | hx
        · have := hs.1 hx; rw [abs_of_nonneg this.1, abs_of_nonneg hx]; exact this.2
        · have := hs.2 hx; rw [abs_of_nonpos this.2, abs_of_nonpos hx]; linarith [this.1]
      have : ((|R| : Int) : ℚ) ≤ ((|X| : Int) : ℚ) := by exact_mod_cast this
      simpa using this
    · rw [absQ_eq, absQ_eq, abs_mul, abs_mul, abs_of_pos hu]
      apply mul_le_mul_of_nonneg_right _ (le_of_lt hu)
      have : |X| ≤ |R| := by
        rcases le_total 0 X with hx | hx
        · have := hs.1 hx; rw [abs_of_nonneg hx, abs_of_nonneg (by linarith)]; exact this
        · have := hs.2 hx; rw [abs_of_nonpos hx, abs_of_nonpos (by linarith)]; linarith
      have : ((|X| : Int) : ℚ) ≤ ((|R| : Int) : ℚ) := by exact_mod_cast this
      simpa using this
    · exact mul_le_mul_of_nonneg_right (by exact_mod_cast hs) (le_of_lt hu)
    · exact mul_le_mul_of_nonneg_right (by exact_mod_cast hs) (le_of_lt hu)
  · intro hf
    exact mul_lt_mul_of_pos_right (by exact_mod_cast h.addOne hf) hu
  · intro hf
    exact mul_lt_mul_of_pos_right (by exact_mod_cast h.subOne hf) hu

/-- an exact result satisfies the contract -/
theorem contract_exact (B : Nat) (m : Mode) (p : Nat) (x : ℚ) : Contract B m p x x none := by
  refine ⟨by simp, fun h => absurd rfl h, ?_, by simp, by simp⟩
  unfold sideOk
  cases m <;> simp

end Dashu.Model.Float
