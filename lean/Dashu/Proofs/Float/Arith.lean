import Dashu.Proofs.Float.ReprRound
/-
  C03: `Context::mul/sqr/cubic`, the operator `*`, and the parts of `Context::add/sub` that reduce to
  one rounding of the exact result.
-/
namespace Dashu.Model.Float
open Dashu

theorem toRat_mul (B : Nat) (hB : 0 < B) (a b : FRepr) :
    (FRepr.new B (a.signif * b.signif) (a.exp + b.exp)).toRat B = a.toRat B * b.toRat B := by
  rw [FRepr.new_value B hB, bpowQ_add B hB]
  unfold FRepr.toRat
  push_cast; ring

/-- `Context::mul` without the pre-shrink = the operator `*`: one rounding of the exact product -/
theorem ctxMul_fixed_eq_op (B : Nat) (m : Mode) (c : Coarse) (p : Nat) (a b : FRepr) :
    ctxMul true B m c p a b = opMul B m c p a b := rfl

theorem opMul_contract (B : Nat) (hB : 2 ≤ B) (m : Mode) (c : Coarse) (hc : CoarseSound c) (p : Nat) (hp : 1 ≤ p)
    (a b : FRepr) :
    Contract B m p (a.toRat B * b.toRat B) ((opMul B m c p a b).1.toRat B) (opMul B m c p a b).2 := by
  unfold opMul
  rw [← toRat_mul B (by omega)]
  exact reprRound_contract B hB m c hc p hp _ (FRepr.new_normalized B hB _ _)

/-- the pre-shrink is the identity on operands of at most `k·p` digits -/
theorem preShrink_fits (B : Nat) (m : Mode) (c : Coarse) (p k : Nat) (f : FRepr) (h : f.digits B ≤ k * p) :
    preShrink B m c p k f = f := by
  unfold preShrink
  have : ¬ (p ≠ 0 ∧ f.digits B > k * p) := by omega
  simp [this]

theorem ctxMul_asis (B : Nat) (m : Mode) (c : Coarse) (p : Nat) (a b : FRepr)
    (ha : a.digits B ≤ 2 * p) (hb : b.digits B ≤ 2 * p) : ctxMul false B m c p a b = ctxMul true B m c p a b := by
  unfold ctxMul
  simp [preShrink_fits B m c p 2 a ha, preShrink_fits B m c p 2 b hb]

theorem ctxSqr_contract (B : Nat) (hB : 2 ≤ B) (m : Mode) (c : Coarse) (hc : CoarseSound c) (p : Nat) (hp : 1 ≤ p)
    (a : FRepr) :
    Contract B m p (a.toRat B * a.toRat B) ((ctxSqr true B m c p a).1.toRat B) (ctxSqr true B m c p a).2 := by
  unfold ctxSqr
  simp only [if_true]
  have : (2 : Int) * a.exp = a.exp + a.exp := by ring
  rw [this, ← toRat_mul B (by omega)]
  exact reprRound_contract B hB m c hc p hp _ (FRepr.new_normalized B hB _ _)

theorem ctxSqr_asis (B : Nat) (m : Mode) (c : Coarse) (p : Nat) (a : FRepr) (ha : a.digits B ≤ 2 * p) :
    ctxSqr false B m c p a = ctxSqr true B m c p a := by
  unfold ctxSqr
  simp [preShrink_fits B m c p 2 a ha]

theorem ctxCubic_contract (B : Nat) (hB : 2 ≤ B) (m : Mode) (c : Coarse) (hc : CoarseSound c) (p : Nat) (hp : 1 ≤ p)
    (a : FRepr) :
    Contract B m p (a.toRat B * a.toRat B * a.toRat B) ((ctxCubic true B m c p a).1.toRat B)
      (ctxCubic true B m c p a).2 := by
  unfold ctxCubic
  simp only [if_true]
  have hB0 : 0 < B := by omega
  have hv : (FRepr.new B (a.signif * a.signif * a.signif) (3 * a.exp)).toRat B =
      a.toRat B * a.toRat B * a.toRat B := by
    rw [FRepr.new_value B hB0, show (3 : Int) * a.exp = a.exp + a.exp + a.exp by ring, bpowQ_add B hB0, bpowQ_add B hB0]
    unfold FRepr.toRat
    push_cast; ring
  rw [← hv]
  exact reprRound_contract B hB m c hc p hp _ (FRepr.new_normalized B hB _ _)

theorem ctxCubic_asis (B : Nat) (m : Mode) (c : Coarse) (p : Nat) (a : FRepr) (ha : a.digits B ≤ 3 * p) :
    ctxCubic false B m c p a = ctxCubic true B m c p a := by
  unfold ctxCubic
  simp [preShrink_fits B m c p 3 a ha]

/-! ### add / sub -/

theorem toRat_neg (B : Nat) (r : FRepr) : r.neg.toRat B = - r.toRat B := by
  unfold FRepr.neg FRepr.toRat; push_cast; ring

theorem toRat_zero_of_isZero (B : Nat) (r : FRepr) (h : r.isZero = true) : r.toRat B = 0 := by
  unfold FRepr.isZero at h
  have : r.signif = 0 := by
    have := (Bool.and_eq_true _ _).mp h
    simpa using this.1
  unfold FRepr.toRat; rw [this]; simp

theorem neg_normalized (B : Nat) (r : FRepr) (h : Normalized B r) : Normalized B r.neg := by
  unfold Normalized FRepr.neg at *
  rcases h with h | h
  · left; simp [h]
  · right; simp only; intro h2; apply h
    have := Int.neg_emod_eq_zero_iff ?_ |>.mp h2
    all_goals first | exact this | skip
    sorry

end Dashu.Model.Float
