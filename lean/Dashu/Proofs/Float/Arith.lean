import Dashu.Proofs.Float.ReprRound
/-
  C03: `Context::mul/sqr/cubic`, the operator `*`, and the parts of `Context::add/sub` that reduce to
  one rounding of the exact result.
-/
namespace Dashu.Model.Float
open Dashu

theorem toRat_mul (B : Nat) (hB : 0 < B) (a b : FRepr) :
    (FRepr.new B (a.signif * b.signif) (a.exp + b.exp)).toRat B = a.toRat B * b.toRat B := by
  rw [FRepr.new_value B hB, bpowQ_add B hB]
  unfold FRepr.toRat
  push_cast; ring

/-- `Context::mul` without the pre-shrink = the operator `*`: one rounding of the exact product -/
theorem ctxMul_fixed_eq_op (B : Nat) (m : Mode) (c : Coarse) (p : Nat) (a b : FRepr) :
    ctxMul true B m c p a b = opMul B m c p a b := rfl

theorem opMul_contract (B : Nat) (hB : 2 ≤ B) (m : Mode) (c : Coarse) (hc : CoarseSound c) (p : Nat) (hp : 1 ≤ p)
    (a b : FRepr) :
    Contract B m p (a.toRat B * b.toRat B) ((opMul B m c p a b).1.toRat B) (opMul B m c p a b).2 := by
  unfold opMul
  rw [← toRat_mul B (by omega)]
  exact reprRound_contract B hB m c hc p hp _ (FRepr.new_normalized B hB _ _)

/-- the pre-shrink is the identity on operands of at most `k·p` digits -/
theorem preShrink_fits (B : Nat) (m : Mode) (c : Coarse) (p k : Nat) (f : FRepr) (h : f.digits B ≤ k * p) :
    preShrink B m c p k f = f := by
  unfold preShrink
  have : ¬ (p ≠ 0 ∧ f.digits B > k * p) := by omega
  simp [this]

theorem ctxMul_asis (B : Nat) (m : Mode) (c : Coarse) (p : Nat) (a b : FRepr)
    (ha : a.digits B ≤ 2 * p) (hb : b.digits B ≤ 2 * p) : ctxMul false B m c p a b = ctxMul true B m c p a b := by
  unfold ctxMul
  simp [preShrink_fits B m c p 2 a ha, preShrink_fits B m c p 2 b hb]

theorem ctxSqr_contract (B : Nat) (hB : 2 ≤ B) (m : Mode) (c : Coarse) (hc : CoarseSound c) (p : Nat) (hp : 1 ≤ p)
    (a : FRepr) :
    Contract B m p (a.toRat B * a.toRat B) ((ctxSqr true B m c p a).1.toRat B) (ctxSqr true B m c p a).2 := by
  unfold ctxSqr
  simp only [if_true]
  have : (2 : Int) * a.exp = a.exp + a.exp := by ring
  rw [this, ← toRat_mul B (by omega)]
  exact reprRound_contract B hB m c hc p hp _ (FRepr.new_normalized B hB _ _)

theorem ctxSqr_asis (B : Nat) (m : Mode) (c : Coarse) (p : Nat) (a : FRepr) (ha : a.digits B ≤ 2 * p) :
    ctxSqr false B m c p a = ctxSqr true B m c p a := by
  unfold ctxSqr
  simp [preShrink_fits B m c p 2 a ha]

theorem ctxCubic_contract (B : Nat) (hB : 2 ≤ B) (m : Mode) (c : Coarse) (hc : CoarseSound c) (p : Nat) (hp : 1 ≤ p)
    (a : FRepr) :
    Contract B m p (a.toRat B * a.toRat B * a.toRat B) ((ctxCubic true B m c p a).1.toRat B)
      (ctxCubic true B m c p a).2 := by
  unfold ctxCubic
  simp only [if_true]
  have hB0 : 0 < B := by omega
  have hv : (FRepr.new B (a.signif * a.signif * a.signif) (3 * a.exp)).toRat B =
      a.toRat B * a.toRat B * a.toRat B := by
    rw [FRepr.new_value B hB0, show (3 : Int) * a.exp = a.exp + a.exp + a.exp by ring, bpowQ_add B hB0, bpowQ_add B hB0]
    unfold FRepr.toRat
    push_cast; ring
  rw [← hv]
  exact reprRound_contract B hB m c hc p hp _ (FRepr.new_normalized B hB _ _)

theorem ctxCubic_asis (B : Nat) (m : Mode) (c : Coarse) (p : Nat) (a : FRepr) (ha : a.digits B ≤ 3 * p) :
    ctxCubic false B m c p a = ctxCubic true B m c p a := by
  unfold ctxCubic
  simp [preShrink_fits B m c p 3 a ha]

/-! ### add / sub -/

theorem toRat_neg (B : Nat) (r : FRepr) : r.neg.toRat B = - r.toRat B := by
  unfold FRepr.neg FRepr.toRat; push_cast; ring

theorem toRat_zero_of_isZero (B : Nat) (r : FRepr) (h : r.isZero = true) : r.toRat B = 0 := by
  unfold FRepr.isZero at h
  have : r.signif = 0 := by
    have := (Bool.and_eq_true _ _).mp h
    simpa using this.1
  unfold FRepr.toRat; rw [this]; simp

theorem neg_normalized (B : Nat) (r : FRepr) (h : Normalized B r) : Normalized B r.neg := by
  unfold Normalized FRepr.neg at *
  rcases h with h | h
  · left; simp [h]
  · right
    intro h2
    apply h
    have h3 : (B : Int) ∣ -r.signif := Int.dvd_of_emod_eq_zero h2
    exact Int.emod_eq_zero_of_dvd ((Int.dvd_neg).mp h3)

/-- `Context::add` / `sub` when one operand is zero or the exponents are equal: one `repr_round` of the
    exact result -/
theorem addSub_simple_contract (B : Nat) (hB : 2 ≤ B) (m : Mode) (c : Coarse) (hc : CoarseSound c)
    (dub : Int → Nat) (p : Nat) (hp : 1 ≤ p) (lhs rhs : FRepr) (rs : Int) (hrs : rs = 1 ∨ rs = -1)
    (hl : Normalized B lhs) (hr : Normalized B rhs)
    (h : lhs.isZero = true ∨ rhs.isZero = true ∨ lhs.exp = rhs.exp) :
    Contract B m p (lhs.toRat B + (rs : ℚ) * rhs.toRat B)
      ((ctxAddSub B m c dub p lhs rhs rs).1.toRat B) (ctxAddSub B m c dub p lhs rhs rs).2 := by
  have hB0 : 0 < B := by omega
  unfold ctxAddSub
  by_cases hlz : lhs.isZero = true
  · simp only [hlz, if_true]
    rw [toRat_zero_of_isZero B lhs hlz, zero_add]
    rcases hrs with h1 | h1
    · subst h1; simp only [if_true]
      have : ((1 : Int) : ℚ) * rhs.toRat B = rhs.toRat B := by simp
      rw [this]
      exact reprRound_contract B hB m c hc p hp rhs hr
    · subst h1
      have hne : ¬ ((-1 : Int) = 1) := by omega
      simp only [hne, if_false]
      have : ((-1 : Int) : ℚ) * rhs.toRat B = rhs.neg.toRat B := by rw [toRat_neg]; simp
      rw [this]
      exact reprRound_contract B hB m c hc p hp rhs.neg (neg_normalized B rhs hr)
  · simp only [hlz, if_false, Bool.false_eq_true]
    by_cases hrz : rhs.isZero = true
    · simp only [hrz, if_true]
      rw [toRat_zero_of_isZero B rhs hrz, mul_zero, add_zero]
      exact reprRound_contract B hB m c hc p hp lhs hl
    · simp only [hrz, if_false, Bool.false_eq_true]
      have he : lhs.exp = rhs.exp := by
        rcases h with h | h | h
        · exact absurd h hlz
        · exact absurd h hrz
        · exact h
      simp only [he, if_true]
      have hv : (FRepr.new B (lhs.signif + rs * rhs.signif) rhs.exp).toRat B =
          lhs.toRat B + (rs : ℚ) * rhs.toRat B := by
        rw [FRepr.new_value B hB0]
        unfold FRepr.toRat
        rw [he]; push_cast; ring
      rw [← hv]
      exact reprRound_contract B hB m c hc p hp _ (FRepr.new_normalized B hB _ _)

/-- `Context::repr_round_sum` without a low part (the alignment kept every digit): one rounding of the
    exact sum at `rnd_precision = p (+1 for a subtraction)` digits — the contract at `p` digits -/
theorem reprRoundSum_nolow_contract (B : Nat) (hB : 2 ≤ B) (m : Mode) (c : Coarse) (hc : CoarseSound c)
    (p : Nat) (hp : 1 ≤ p) (s e : Int) (isSub : Bool) :
    Contract B m p ((s : ℚ) * bpowQ B e) ((reprRoundSum B m c p s e (0, 0) isSub).1.toRat B)
      (reprRoundSum B m c p s e (0, 0) isSub).2 := by
  have hB0 : 0 < B := by omega
  have hp0 : p ≠ 0 := by omega
  unfold reprRoundSum
  try simp only [shlDigits_eq, shrDigits_eq]
  simp only [hp0, if_false]
  generalize hrnd : p + (if isSub = true then 1 else 0) = rndP
  have hrp : p ≤ rndP := by rw [← hrnd]; omega
  by_cases h1 : digitsI B s = rndP
  · simp only [h1, if_true]
    rw [FRepr.new_value B hB0]; exact contract_exact B m p _
  · simp only [h1, if_false]
    by_cases h2 : digitsI B s > rndP
    · simp only [h2, if_true, zero_add, pow_zero, Nat.cast_one, mul_one]
      have hs0 : s ≠ 0 := by
        intro h; rw [h, digitsI_zero] at h2; omega
      obtain ⟨_, hlo, _⟩ := digitsI_spec B hB s hs0
      obtain ⟨hsplit, hlt, _, _⟩ := splitDigits_spec B hB s (digitsI B s - rndP)
      by_cases h3 : (splitDigits B s (digitsI B s - rndP)).2 = 0
      · simp only [h3, if_true]
        rw [FRepr.new_value B hB0, bpowQ_add B hB0, bpowQ_nat]
        have hv : ((splitDigits B s (digitsI B s - rndP)).1 : ℚ) * (bpowQ B e * ((B ^ (digitsI B s - rndP) : Nat) : ℚ)) =
            (s : ℚ) * bpowQ B e := by
          rw [h3, add_zero] at hsplit
          conv_rhs => rw [hsplit]
          push_cast; ring
        rw [hv]
        exact contract_exact B m p _
      · simp only [h3, if_false]
        have hulp : ((B ^ (digitsI B s - rndP) : Nat) : Int) * ((B ^ (p - 1) : Nat) : Int) ≤
            |(splitDigits B s (digitsI B s - rndP)).1 * ((B ^ (digitsI B s - rndP) : Nat) : Int) +
              (splitDigits B s (digitsI B s - rndP)).2| := by
          rw [← hsplit]
          have hle : B ^ (digitsI B s - rndP) * B ^ (p - 1) ≤ B ^ (digitsI B s - 1) := by
            rw [← Nat.pow_add]; exact Nat.pow_le_pow_right hB0 (by omega)
          calc ((B ^ (digitsI B s - rndP) : Nat) : Int) * ((B ^ (p - 1) : Nat) : Int)
              ≤ ((B ^ (digitsI B s - 1) : Nat) : Int) := by exact_mod_cast hle
            _ ≤ |s| := hlo
        have key := round_at_contract B hB m c hc p hp _ _ (digitsI B s - rndP) e h3 hlt hulp
        rw [← hsplit] at key
        exact key
    · simp only [h2, if_false, ne_eq, not_true_eq_false, if_true]
      rw [FRepr.new_value B hB0]; exact contract_exact B m p _

/-- `repr_add_large_small` when the aligned operands fit the precision (`ediff + ldigits ≤ p`): the
    alignment keeps every digit and the exact sum is rounded once -/
theorem reprAddLargeSmall_aligned (B : Nat) (hB : 2 ≤ B) (m : Mode) (c : Coarse) (hc : CoarseSound c)
    (dub : Int → Nat) (p : Nat) (hp : 1 ≤ p) (lhs rhs : FRepr) (rs : Int)
    (hgt : rhs.exp < lhs.exp) (hkeep : (lhs.exp - rhs.exp).toNat + lhs.digits B ≤ p) :
    Contract B m p (lhs.toRat B + (rs : ℚ) * rhs.toRat B)
      ((reprAddLargeSmall B m c dub p lhs rhs rs).1.toRat B) (reprAddLargeSmall B m c dub p lhs rhs rs).2 := by
  have hB0 : 0 < B := by omega
  have hed : 1 ≤ (lhs.exp - rhs.exp).toNat := by omega
  unfold reprAddLargeSmall
  try simp only [shlDigits_eq, shrDigits_eq]
  generalize hsub : decide (sgn lhs.signif ≠ rs * sgn rhs.signif) = isSub
  have h1 : ¬ (p ≠ 0 ∧ dub rhs.signif + 1 < (lhs.exp - rhs.exp).toNat ∧
      dub rhs.signif + 1 + (p + if isSub = true then 1 else 0) < lhs.digits B + (lhs.exp - rhs.exp).toNat) := by
    intro h; omega
  have h2 : ¬ (p ≠ 0 ∧ lhs.digits B ≥ p) := by intro h; omega
  have h3 : ¬ (p ≠ 0 ∧ (lhs.exp - rhs.exp).toNat + lhs.digits B > p) := by intro h; omega
  simp only [h1, h2, h3, if_false]
  have hv : ((lhs.signif * ((B ^ (lhs.exp - rhs.exp).toNat : Nat) : Int) + rs * rhs.signif : Int) : ℚ) * bpowQ B rhs.exp =
      lhs.toRat B + (rs : ℚ) * rhs.toRat B := by
    unfold FRepr.toRat
    have : bpowQ B lhs.exp = ((B ^ (lhs.exp - rhs.exp).toNat : Nat) : ℚ) * bpowQ B rhs.exp := by
      rw [← bpowQ_nat, ← bpowQ_add B hB0, Int.toNat_of_nonneg (by omega)]
      congr 1; ring
    rw [this]; push_cast; ring
  rw [← hv]
  exact reprRoundSum_nolow_contract B hB m c hc p hp _ _ isSub

theorem digits_mul_sign (B : Nat) (v rs : Int) (hrs : rs = 1 ∨ rs = -1) : digitsI B (rs * v) = digitsI B v := by
  unfold digitsI
  rcases hrs with h | h <;> subst h <;> simp

/-- **`Context::add` / `Context::sub` whenever the alignment keeps all digits** (one operand zero, equal
    exponents, or `exponent gap + digits of the operand with the larger exponent ≤ p`): the result is the
    single rounding of the exact sum and honours the contract. -/
theorem addSub_aligned_contract (B : Nat) (hB : 2 ≤ B) (m : Mode) (c : Coarse) (hc : CoarseSound c)
    (dub : Int → Nat) (p : Nat) (hp : 1 ≤ p) (lhs rhs : FRepr) (rs : Int) (hrs : rs = 1 ∨ rs = -1)
    (hl : Normalized B lhs) (hr : Normalized B rhs)
    (h : lhs.isZero = true ∨ rhs.isZero = true ∨ lhs.exp = rhs.exp ∨
      (rhs.exp < lhs.exp ∧ (lhs.exp - rhs.exp).toNat + lhs.digits B ≤ p) ∨
      (lhs.exp < rhs.exp ∧ (rhs.exp - lhs.exp).toNat + rhs.digits B ≤ p)) :
    Contract B m p (lhs.toRat B + (rs : ℚ) * rhs.toRat B)
      ((ctxAddSub B m c dub p lhs rhs rs).1.toRat B) (ctxAddSub B m c dub p lhs rhs rs).2 := by
  by_cases hs : lhs.isZero = true ∨ rhs.isZero = true ∨ lhs.exp = rhs.exp
  · exact addSub_simple_contract B hB m c hc dub p hp lhs rhs rs hrs hl hr hs
  · have hlz : ¬ lhs.isZero = true := fun h => hs (Or.inl h)
    have hrz : ¬ rhs.isZero = true := fun h => hs (Or.inr (Or.inl h))
    have hne : ¬ lhs.exp = rhs.exp := fun h => hs (Or.inr (Or.inr h))
    unfold ctxAddSub
    simp only [hlz, hrz, hne, if_false, Bool.false_eq_true]
    rcases h with h | h | h | h | h
    · exact absurd h hlz
    · exact absurd h hrz
    · exact absurd h hne
    · have hgt : lhs.exp > rhs.exp := h.1
      simp only [hgt, if_true]
      exact reprAddLargeSmall_aligned B hB m c hc dub p hp lhs rhs rs h.1 h.2
    · have hgt : ¬ lhs.exp > rhs.exp := by omega
      simp only [hgt, if_false]
      have key := reprAddLargeSmall_aligned B hB m c hc dub p hp ⟨rs * rhs.signif, rhs.exp⟩ lhs 1 h.1
        (by simp only [FRepr.digits] at *; rw [digits_mul_sign B _ _ hrs]; exact h.2)
      have hv : (⟨rs * rhs.signif, rhs.exp⟩ : FRepr).toRat B + ((1 : Int) : ℚ) * lhs.toRat B =
          lhs.toRat B + (rs : ℚ) * rhs.toRat B := by
        unfold FRepr.toRat; push_cast; ring
      rw [hv] at key
      exact key

end Dashu.Model.Float
