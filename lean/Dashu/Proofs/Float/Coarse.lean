import Dashu.Proofs.Float.Round
import Mathlib.Analysis.SpecialFunctions.Log.Base
/-
  The coarse `f32` comparison at the head of `Round::round_fract` (float/src/round.rs, closure `test`):

      let (lb, ub) = fmag.log2_bounds();  let (b_lb, b_ub) = B.log2_bounds();
      if lb + 0.999 > b_ub * precision as f32 { Greater }
      else if ub + 1.001 < b_lb * precision as f32 { Less }
      else { (fmag << 1).cmp(&B.pow(precision)) }

  In `Props/C10.lean` the test is a parameter with the hypothesis `CoarseSound`.  Here the hypothesis is DERIVED, over ℝ,
  for the formula of the code, with an EXPLICIT region:  2 ≤ B < 2^64 (a `Word`), 0 < fmag < B^k (the precondition of
  `round_fract`), **k ≤ 2^24** (so that `precision as f32` is exact).  Inside that region no further bound on the
  precision is needed (the margins `0.999 / 1.001` alone would only carry `k·log₂B ≲ 8·10³`; the factor `1 ∓ 2ε` =
  `1 ∓ 4u` that `log2_bounds_large` applies to operands of more than two words pays for the four roundings).
  Outside it (`k > 2^24`: `precision as f32` rounds) nothing is claimed; the generator drives the real code there.

  Assumptions about `f32` (u = 2⁻²⁴):
  (R) every `f32` `+` / `*` involved is a rounding `fl` with `|fl x − x| ≤ u·|x|` (IEEE-754 round-to-nearest in the
      normal range; all quantities here are 0 or ≥ 2⁻¹ and ≤ 2³¹);
  (E) enclosure of `log2_bounds`: `0 ≤ lb ≤ log₂ n ≤ ub` (the documented contract; C10Est (A) for the `ub` side);
  (S) for `n ≥ 2^128` (`log2_bounds_large`) the slack of the ADJUST factor:
      `lb ≤ log₂ n·(1+u)²(1−4u)`, `ub ≥ (log₂ n − 2⁻⁶⁰)·(1−u)²(1+4u)` — DERIVED below (`adjust_slack_lb/ub`) from the
      structure `est = fl(fl(hi_bound + rem_bits) · (1 ∓ 4u))` and the enclosure of the highest double word;
  (C) the literals: `0.999f32 = 16760439/2²⁴`, `1.001f32 = 8396997/2²³` (exact values of the two `f32` constants).
-/
namespace Dashu.Model.Float
open Real

/-- unit roundoff of `f32` -/
noncomputable def u32 : ℝ := 1 / 16777216
/-- `0.999f32` -/
noncomputable def c999 : ℝ := 16760439 / 16777216
/-- `1.001f32` -/
noncomputable def c1001 : ℝ := 8396997 / 8388608

/-- (R) -/
def RelRound (fl : ℝ → ℝ) : Prop := ∀ x : ℝ, |fl x - x| ≤ u32 * |x|

theorem RelRound.le_up {fl : ℝ → ℝ} (h : RelRound fl) (x : ℝ) (hx : 0 ≤ x) : fl x ≤ x * (1 + u32) := by
  have := (abs_le.mp (h x)).2
  rw [abs_of_nonneg hx] at this
  linarith

theorem RelRound.ge_down {fl : ℝ → ℝ} (h : RelRound fl) (x : ℝ) (hx : 0 ≤ x) : x * (1 - u32) ≤ fl x := by
  have := (abs_le.mp (h x)).1
  rw [abs_of_nonneg hx] at this
  linarith

/-! ### the two real inequalities -/

/-- `Greater` arm: `fl(b_ub·k) < fl(lb + 0.999)` forces `k·log₂B < log₂ fmag + 1`. -/
theorem coarse_gt_real (L K lb s p : ℝ) (hL0 : 0 ≤ L) (hlb0 : 0 ≤ lb) (hlb : lb ≤ L)
    (hbig : 128 ≤ L → lb ≤ L * ((1 + u32) ^ 2 * (1 - 4 * u32)))
    (hs : s ≤ (lb + c999) * (1 + u32)) (hp : K * (1 - u32) ≤ p) (hdec : p < s) : K < L + 1 := by
  by_contra hK
  have hK : L + 1 ≤ K := by linarith
  have hu : (0 : ℝ) ≤ 1 - u32 := by unfold u32; norm_num
  have h1 : (L + 1) * (1 - u32) ≤ K * (1 - u32) := mul_le_mul_of_nonneg_right hK hu
  by_cases hL : 128 ≤ L
  · have hlb' := hbig hL
    have hg : (1 + u32) ^ 2 * (1 - 4 * u32) * (1 + u32) ≤ 1 - u32 := by unfold u32; norm_num
    have h2 : (lb + c999) * (1 + u32) ≤ L * ((1 + u32) ^ 2 * (1 - 4 * u32)) * (1 + u32) + c999 * (1 + u32) := by
      have hu1 : (0 : ℝ) ≤ 1 + u32 := by unfold u32; norm_num
      nlinarith [mul_le_mul_of_nonneg_right hlb' hu1]
    have h3 : L * ((1 + u32) ^ 2 * (1 - 4 * u32)) * (1 + u32) ≤ L * (1 - u32) := by
      have := mul_le_mul_of_nonneg_left hg hL0
      linarith [this]
    have h4 : c999 * (1 + u32) < 1 - u32 := by unfold c999 u32; norm_num
    nlinarith
  · have hL : L < 128 := by linarith
    have h2 : (lb + c999) * (1 + u32) ≤ (L + c999) * (1 + u32) := by
      apply mul_le_mul_of_nonneg_right (by linarith); unfold u32; norm_num
    have h4 : (L + c999) * (1 + u32) < (L + 1) * (1 - u32) := by
      unfold c999 u32 at *; nlinarith
    linarith

/-- `Less` arm: `fl(ub + 1.001) < fl(b_lb·k)` forces `log₂ fmag + 1 < k·log₂B` (for `log₂ fmag ≤ 2³¹`). -/
theorem coarse_lt_real (L K ub s p : ℝ) (hL0 : 0 ≤ L) (hLmax : L ≤ 2147483648) (hub : L ≤ ub)
    (hbig : 128 ≤ L → (L - 1 / 1152921504606846976) * ((1 - u32) ^ 2 * (1 + 4 * u32)) ≤ ub)
    (hs : (ub + c1001) * (1 - u32) ≤ s) (hp : p ≤ K * (1 + u32)) (hdec : s < p) : L + 1 < K := by
  by_contra hK
  have hK : K ≤ L + 1 := by linarith
  have hu : (0 : ℝ) ≤ 1 + u32 := by unfold u32; norm_num
  have hu' : (0 : ℝ) ≤ 1 - u32 := by unfold u32; norm_num
  have h1 : K * (1 + u32) ≤ (L + 1) * (1 + u32) := mul_le_mul_of_nonneg_right hK hu
  by_cases hL : 128 ≤ L
  · have hub' := hbig hL
    have h2 : ((L - 1 / 1152921504606846976) * ((1 - u32) ^ 2 * (1 + 4 * u32)) + c1001) * (1 - u32) ≤ (ub + c1001) * (1 - u32) :=
      mul_le_mul_of_nonneg_right (by linarith) hu'
    -- (1-u)^3 (1+4u) ≥ 1 + u - 9u²
    have hg : 1 + u32 - 9 * u32 ^ 2 ≤ (1 - u32) ^ 2 * (1 + 4 * u32) * (1 - u32) := by unfold u32; norm_num
    have hgle : (1 - u32) ^ 2 * (1 + 4 * u32) * (1 - u32) ≤ 2 := by unfold u32; norm_num
    have h3 : L * (1 + u32 - 9 * u32 ^ 2) ≤ L * ((1 - u32) ^ 2 * (1 + 4 * u32) * (1 - u32)) :=
      mul_le_mul_of_nonneg_left hg hL0
    have h5 : L * (9 * u32 ^ 2) ≤ 2147483648 * (9 * u32 ^ 2) :=
      mul_le_mul_of_nonneg_right hLmax (by unfold u32; norm_num)
    have h6 : 2147483648 * (9 * u32 ^ 2) + 2 * (1 / 1152921504606846976) + (1 + u32) < c1001 * (1 - u32) := by
      unfold c1001 u32; norm_num
    nlinarith
  · have hL : L < 128 := by linarith
    have h2 : (L + c1001) * (1 - u32) ≤ (ub + c1001) * (1 - u32) := mul_le_mul_of_nonneg_right (by linarith) hu'
    have h4 : (L + 1) * (1 + u32) < (L + c1001) * (1 - u32) := by
      unfold c1001 u32 at *; nlinarith
    linarith

/-! ### (S) from the structure of `log2_bounds_large` -/

/-- `est_lb = fl(fl(hi_lb + rem_bits) · (1 − 4u))` with `hi_lb + rem_bits ≤ log₂ n` -/
theorem adjust_slack_lb (fl : ℝ → ℝ) (hfl : RelRound fl) (L h r : ℝ) (hh : 0 ≤ h) (hr : 0 ≤ r) (hle : h + r ≤ L) :
    fl (fl (h + r) * (1 - 4 * u32)) ≤ L * ((1 + u32) ^ 2 * (1 - 4 * u32)) := by
  have hadj : (0 : ℝ) ≤ 1 - 4 * u32 := by unfold u32; norm_num
  have hu1 : (0 : ℝ) ≤ 1 + u32 := by unfold u32; norm_num
  have h0 : 0 ≤ fl (h + r) := le_trans (mul_nonneg (by linarith) (by unfold u32; norm_num)) (hfl.ge_down (h + r) (by linarith))
  have h1 : fl (h + r) ≤ (h + r) * (1 + u32) := hfl.le_up _ (by linarith)
  have h2 := hfl.le_up (fl (h + r) * (1 - 4 * u32)) (mul_nonneg h0 hadj)
  have h3 : fl (h + r) * (1 - 4 * u32) * (1 + u32) ≤ (h + r) * (1 + u32) * (1 - 4 * u32) * (1 + u32) :=
    mul_le_mul_of_nonneg_right (mul_le_mul_of_nonneg_right h1 hadj) hu1
  have h4 : (h + r) * ((1 + u32) * (1 - 4 * u32) * (1 + u32)) ≤ L * ((1 + u32) * (1 - 4 * u32) * (1 + u32)) :=
    mul_le_mul_of_nonneg_right hle (by unfold u32; norm_num)
  calc fl (fl (h + r) * (1 - 4 * u32)) ≤ fl (h + r) * (1 - 4 * u32) * (1 + u32) := h2
    _ ≤ (h + r) * (1 + u32) * (1 - 4 * u32) * (1 + u32) := h3
    _ = (h + r) * ((1 + u32) * (1 - 4 * u32) * (1 + u32)) := by ring
    _ ≤ L * ((1 + u32) * (1 - 4 * u32) * (1 + u32)) := h4
    _ = L * ((1 + u32) ^ 2 * (1 - 4 * u32)) := by ring

/-- `est_ub = fl(fl(hi_ub + rem_bits) · (1 + 4u))` with `log₂ n ≤ hi_ub + rem_bits + 2⁻⁶⁰` (the words below the highest
    double word add less than `log₂(1 + 2⁻⁶⁴)` when the double word is a power of two and its bound is exact) -/
theorem adjust_slack_ub (fl : ℝ → ℝ) (hfl : RelRound fl) (L h r : ℝ) (hh : 0 ≤ h) (hr : 0 ≤ r)
    (hle : L - 1 / 1152921504606846976 ≤ h + r) :
    (L - 1 / 1152921504606846976) * ((1 - u32) ^ 2 * (1 + 4 * u32)) ≤ fl (fl (h + r) * (1 + 4 * u32)) := by
  have hadj : (0 : ℝ) ≤ 1 + 4 * u32 := by unfold u32; norm_num
  have hu1 : (0 : ℝ) ≤ 1 - u32 := by unfold u32; norm_num
  have h0 : 0 ≤ fl (h + r) := le_trans (mul_nonneg (by linarith) hu1) (hfl.ge_down (h + r) (by linarith))
  have h1 : (h + r) * (1 - u32) ≤ fl (h + r) := hfl.ge_down _ (by linarith)
  have h2 := hfl.ge_down (fl (h + r) * (1 + 4 * u32)) (mul_nonneg h0 hadj)
  have h3 : (h + r) * (1 - u32) * (1 + 4 * u32) * (1 - u32) ≤ fl (h + r) * (1 + 4 * u32) * (1 - u32) :=
    mul_le_mul_of_nonneg_right (mul_le_mul_of_nonneg_right h1 hadj) hu1
  have h4 : (L - 1 / 1152921504606846976) * ((1 - u32) * (1 + 4 * u32) * (1 - u32)) ≤ (h + r) * ((1 - u32) * (1 + 4 * u32) * (1 - u32)) :=
    mul_le_mul_of_nonneg_right hle (by unfold u32; norm_num)
  calc (L - 1 / 1152921504606846976) * ((1 - u32) ^ 2 * (1 + 4 * u32))
      = (L - 1 / 1152921504606846976) * ((1 - u32) * (1 + 4 * u32) * (1 - u32)) := by ring
    _ ≤ (h + r) * ((1 - u32) * (1 + 4 * u32) * (1 - u32)) := h4
    _ = (h + r) * (1 - u32) * (1 + 4 * u32) * (1 - u32) := by ring
    _ ≤ fl (h + r) * (1 + 4 * u32) * (1 - u32) := h3
    _ ≤ fl (fl (h + r) * (1 + 4 * u32)) := h2

/-! ### the test of the code with its `f32` ingredients as parameters -/

/-- the closure `test` of `round_fract` up to its exact arm: `lbF/ubF` = `log2_bounds` (of `fmag` and of `B`), `fl` the
    rounding of each `f32` operation; `k as f32` is `k` itself (exact for `k ≤ 2^24`, the region of the theorem) -/
noncomputable def coarseReal (fl : ℝ → ℝ) (lbF ubF : Nat → ℝ) : Coarse := fun B fmag k =>
  open Classical in
  if fl (ubF B * (k : ℝ)) < fl (lbF fmag + c999) then some .gt
  else if fl (ubF fmag + c1001) < fl (lbF B * (k : ℝ)) then some .lt
  else none

/-- (E) + (S) -/
structure Log2BoundsSound (lbF ubF : Nat → ℝ) : Prop where
  encl : ∀ n : Nat, 0 < n → 0 ≤ lbF n ∧ lbF n ≤ Real.logb 2 n ∧ Real.logb 2 n ≤ ubF n
  slack : ∀ n : Nat, 2 ^ 128 ≤ n →
    lbF n ≤ Real.logb 2 n * ((1 + u32) ^ 2 * (1 - 4 * u32)) ∧
    (Real.logb 2 n - 1 / 1152921504606846976) * ((1 - u32) ^ 2 * (1 + 4 * u32)) ≤ ubF n

theorem logb2_nonneg (n : Nat) (hn : 0 < n) : 0 ≤ Real.logb 2 n := by
  apply Real.logb_nonneg (by norm_num)
  exact_mod_cast hn

theorem logb_two_natpow (B k : Nat) (hB : 2 ≤ B) : Real.logb 2 ((B ^ k : Nat) : ℝ) = (k : ℝ) * Real.logb 2 B := by
  push_cast
  rw [Real.logb_pow]

theorem logb_two_ge_128 (n : Nat) (h : 128 ≤ Real.logb 2 n) (hn : 0 < n) : 2 ^ 128 ≤ n := by
  have hn' : (0 : ℝ) < n := by exact_mod_cast hn
  have := (Real.le_logb_iff_rpow_le (by norm_num : (1 : ℝ) < 2) hn').mp h
  have e : (2 : ℝ) ^ (128 : ℝ) = ((2 ^ 128 : Nat) : ℝ) := by
    rw [show (128 : ℝ) = ((128 : Nat) : ℝ) by norm_num, Real.rpow_natCast]; norm_num
  rw [e] at this
  exact_mod_cast this

/-- **the coarse test decides as the exact comparison** on the explicit region
    `2 ≤ B < 2^64`, `0 < fmag < B^k`, `k ≤ 2^24` -/
theorem coarseReal_sound (fl : ℝ → ℝ) (hfl : RelRound fl) (lbF ubF : Nat → ℝ) (hb : Log2BoundsSound lbF ubF)
    (B fmag k : Nat) (hB : 2 ≤ B) (hBw : B < 2 ^ 64) (hf : 0 < fmag) (hlt : fmag < B ^ k) (hk : k ≤ 2 ^ 24)
    (o : Ordering) (h : coarseReal fl lbF ubF B fmag k = some o) : o = compare (2 * fmag) (B ^ k) := by
  have hB0 : 0 < B := by omega
  obtain ⟨hlb0, hlbL, hLub⟩ := hb.encl fmag hf
  obtain ⟨hblb0, hblb, hbub⟩ := hb.encl B hB0
  set L := Real.logb 2 fmag with hLdef
  set b := Real.logb 2 B with hbdef
  have hL0 : 0 ≤ L := logb2_nonneg fmag hf
  have hb0 : 0 ≤ b := logb2_nonneg B hB0
  have hk0 : (0 : ℝ) ≤ (k : ℝ) := Nat.cast_nonneg k
  have hfpos : (0 : ℝ) < (fmag : ℝ) := by exact_mod_cast hf
  have hBkpos : (0 : ℝ) < ((B ^ k : Nat) : ℝ) := by exact_mod_cast Nat.pow_pos hB0
  have hKdef : Real.logb 2 ((B ^ k : Nat) : ℝ) = (k : ℝ) * b := logb_two_natpow B k hB
  have h2f : Real.logb 2 ((2 * fmag : Nat) : ℝ) = L + 1 := by
    push_cast
    rw [Real.logb_mul (by norm_num) (ne_of_gt hfpos), Real.logb_self_eq_one (by norm_num)]
    ring
  -- L < K ≤ 2^24 · 64
  have hLK : L < (k : ℝ) * b := by
    rw [← hKdef]
    exact Real.logb_lt_logb (by norm_num) hfpos (by exact_mod_cast hlt)
  have hb64 : b ≤ 64 := by
    have : (B : ℝ) ≤ (2 : ℝ) ^ (64 : ℕ) := by exact_mod_cast (le_of_lt hBw)
    have h1 := Real.logb_le_logb_of_le (by norm_num : (1 : ℝ) < 2) (by exact_mod_cast hB0) this
    rw [Real.logb_pow, Real.logb_self_eq_one (by norm_num)] at h1
    simpa using h1
  have hLmax : L ≤ 2147483648 := by
    have hk' : (k : ℝ) ≤ 16777216 := by exact_mod_cast hk
    have : (k : ℝ) * b ≤ 16777216 * 64 := mul_le_mul hk' hb64 hb0 (by norm_num)
    linarith
  unfold coarseReal at h
  by_cases hg : fl (ubF B * (k : ℝ)) < fl (lbF fmag + c999)
  · simp only [hg, if_true, Option.some.injEq] at h
    subst h
    have hs := hfl.le_up (lbF fmag + c999) (by unfold c999; linarith [hlb0])
    have hp : (k : ℝ) * b * (1 - u32) ≤ fl (ubF B * (k : ℝ)) := by
      have h1 := hfl.ge_down (ubF B * (k : ℝ)) (mul_nonneg (by linarith) hk0)
      have h2 : (k : ℝ) * b ≤ ubF B * (k : ℝ) := by nlinarith
      have : (k : ℝ) * b * (1 - u32) ≤ ubF B * (k : ℝ) * (1 - u32) :=
        mul_le_mul_of_nonneg_right h2 (by unfold u32; norm_num)
      linarith
    have hKL := coarse_gt_real L ((k : ℝ) * b) (lbF fmag) _ _ hL0 hlb0 hlbL
      (fun h128 => (hb.slack fmag (logb_two_ge_128 fmag h128 hf)).1) hs hp hg
    -- B^k < 2·fmag
    have : ((B ^ k : Nat) : ℝ) < ((2 * fmag : Nat) : ℝ) := by
      rw [← Real.logb_lt_logb_iff (by norm_num : (1 : ℝ) < 2) hBkpos (by exact_mod_cast (by omega : 0 < 2 * fmag)), hKdef, h2f]
      exact hKL
    have hnat : B ^ k < 2 * fmag := by exact_mod_cast this
    exact (Nat.compare_eq_gt.mpr hnat).symm
  · simp only [hg, if_false] at h
    by_cases hl : fl (ubF fmag + c1001) < fl (lbF B * (k : ℝ))
    · simp only [hl, if_true, Option.some.injEq] at h
      subst h
      have hub0 : 0 ≤ ubF fmag := le_trans hL0 hLub
      have hs := hfl.ge_down (ubF fmag + c1001) (by unfold c1001; linarith [hub0])
      have hp : fl (lbF B * (k : ℝ)) ≤ (k : ℝ) * b * (1 + u32) := by
        have h1 := hfl.le_up (lbF B * (k : ℝ)) (mul_nonneg hblb0 hk0)
        have h2 : lbF B * (k : ℝ) ≤ (k : ℝ) * b := by nlinarith
        have : lbF B * (k : ℝ) * (1 + u32) ≤ (k : ℝ) * b * (1 + u32) :=
          mul_le_mul_of_nonneg_right h2 (by unfold u32; norm_num)
        linarith
      have hKL := coarse_lt_real L ((k : ℝ) * b) (ubF fmag) _ _ hL0 hLmax hLub
        (fun h128 => (hb.slack fmag (logb_two_ge_128 fmag h128 hf)).2) hs hp hl
      have : ((2 * fmag : Nat) : ℝ) < ((B ^ k : Nat) : ℝ) := by
        rw [← Real.logb_lt_logb_iff (by norm_num : (1 : ℝ) < 2) (by exact_mod_cast (by omega : 0 < 2 * fmag)) hBkpos, hKdef, h2f]
        exact hKL
      have hnat : 2 * fmag < B ^ k := by exact_mod_cast this
      exact (Nat.compare_eq_lt.mpr hnat).symm
    · simp [hl] at h

/-- `round_fract` with the coarse test of the code returns what the exact comparison returns, on the explicit region -/
theorem roundFract_coarseReal (fl : ℝ → ℝ) (hfl : RelRound fl) (lbF ubF : Nat → ℝ) (hb : Log2BoundsSound lbF ubF)
    (B : Nat) (m : Mode) (n f : Int) (k : Nat) (hB : 2 ≤ B) (hBw : B < 2 ^ 64)
    (hlt : f.natAbs < B ^ k) (hk : k ≤ 2 ^ 24) :
    roundFract B m (coarseReal fl lbF ubF) n f k = roundFract B m coarseNone n f k := by
  unfold roundFract
  by_cases hf : f = 0
  · simp [hf]
  · simp only [hf, if_false, coarseNone]
    have hpos : 0 < f.natAbs := Int.natAbs_pos.mpr hf
    cases hc : coarseReal fl lbF ubF B f.natAbs k with
    | none => rfl
    | some o => simp only [coarseReal_sound fl hfl lbF ubF hb B f.natAbs k hB hBw hpos hlt hk o hc]

end Dashu.Model.Float
