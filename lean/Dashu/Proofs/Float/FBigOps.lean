import Dashu.Proofs.Float.RoundOps
/-
  `FBig::{trunc, floor, ceil, round, fract, split_at_point, to_int}` and `Repr::to_int`:
  the returned integer is the neighbour of `s / D` (`D = B^(-exp)`) that the definition names.
-/
namespace Dashu.Model.Float
open Dashu Dashu.Props.GenRound

theorem tdiv_isTowardZero (v D : Int) (hD : 0 < D) : IsTowardZero v D (Int.tdiv v D) := by
  obtain ⟨a, b, c, d⟩ := tdiv_tmod_abs v D hD
  have hb := abs_lt.mp b
  unfold IsTowardZero IsFloor IsCeil
  have e1 : (Int.tdiv v D + 1) * D = Int.tdiv v D * D + D := by ring
  have e2 : (Int.tdiv v D - 1) * D = Int.tdiv v D * D - D := by ring
  rw [e1, e2]
  split
  · have := c ‹_›; constructor <;> omega
  · have := d (by omega); constructor <;> omega

theorem smaller_of (dub : Int → Nat) (r : FRepr) (h : smallerThanOne dub r = true) :
    r.exp + (dub r.signif : Int) < -1 := by simpa [smallerThanOne] using h

/-- `|s| < D / 4` on the smaller-than-one path -/
theorem smaller_quarter (B : Nat) (hB : 2 ≤ B) (dub : Int → Nat) (hdub : DubSound B dub) (r : FRepr)
    (hsm : r.exp + (dub r.signif : Int) < -1) : 4 * |r.signif| < pointUnit B r := by
  have hb := smaller_bound B hB dub hdub r hsm
  have h4 := four_le_sq B hB
  have : 0 ≤ |r.signif| := abs_nonneg _
  nlinarith

theorem zero_value (B : Nat) : (FBigM.zero).repr.toRat B = ((0 : Int) : ℚ) := by
  simp [FBigM.zero, FRepr.toRat]

theorem one_value (B : Nat) : (FBigM.one).repr.toRat B = ((1 : Int) : ℚ) := by
  simp [FBigM.one, FRepr.toRat, bpowQ]

theorem negOne_value (B : Nat) : (FBigM.negOne).repr.toRat B = ((-1 : Int) : ℚ) := by
  simp [FBigM.negOne, FRepr.toRat, bpowQ]

section
variable (B : Nat) (hB : 2 ≤ B) (c : Coarse) (hc : CoarseSound c) (dub : Int → Nat) (hdub : DubSound B dub)
  (x : FBigM) (he : x.repr.exp < 0)
include hB hdub he

/-- `FBig::trunc` -/
theorem fTrunc_spec :
    ∃ t : Int, (fTrunc B dub x).repr.toRat B = (t : ℚ) ∧ IsTowardZero x.repr.signif (pointUnit B x.repr) t := by
  have hne : ¬ x.repr.exp ≥ 0 := by omega
  have hD := pointUnit_pos B hB x.repr
  unfold fTrunc
  try simp only [shlDigits_eq, shrDigits_eq]
  simp only [hne, if_false]
  by_cases hsm : smallerThanOne dub x.repr = true
  · simp only [hsm, if_true]
    refine ⟨0, zero_value B, ?_⟩
    have hq := smaller_quarter B hB dub hdub x.repr (smaller_of dub x.repr hsm)
    unfold IsTowardZero IsFloor IsCeil
    split
    · rw [abs_of_nonneg ‹_›] at hq; constructor <;> omega
    · rw [abs_of_neg (by omega)] at hq; constructor <;> omega
  · simp only [hsm, if_false, Bool.false_eq_true]
    exact ⟨_, new_int_value B hB _, tdiv_isTowardZero _ _ hD⟩

include hc

/-- `FBig::floor` -/
theorem fFloor_spec :
    ∃ t : Int, (fFloor B c dub x).repr.toRat B = (t : ℚ) ∧ IsFloor x.repr.signif (pointUnit B x.repr) t := by
  have hne : ¬ x.repr.exp ≥ 0 := by omega
  unfold fFloor
  simp only [hne, if_false]
  by_cases hsm : smallerThanOne dub x.repr = true
  · simp only [hsm, if_true]
    have hq := smaller_quarter B hB dub hdub x.repr (smaller_of dub x.repr hsm)
    by_cases hs : x.repr.signif ≥ 0
    · simp only [hs, if_true]
      refine ⟨0, zero_value B, ?_⟩
      rw [abs_of_nonneg hs] at hq
      unfold IsFloor; constructor <;> omega
    · simp only [hs, if_false]
      refine ⟨-1, negOne_value B, ?_⟩
      rw [abs_of_neg (by omega)] at hq
      unfold IsFloor; constructor <;> omega
  · simp only [hsm, if_false, Bool.false_eq_true]
    exact ⟨_, new_int_value B hB _, roundVia_spec B hB .down c hc dub hdub x he⟩

/-- `FBig::ceil`; a non-zero significand is implied by `exp < 0` for normalised floats -/
theorem fCeil_spec (hs0 : x.repr.signif ≠ 0) :
    ∃ t : Int, (fCeil B c dub x).repr.toRat B = (t : ℚ) ∧ IsCeil x.repr.signif (pointUnit B x.repr) t := by
  have hne : ¬ x.repr.exp ≥ 0 := by omega
  have hz : x.repr.isZero = false := by
    unfold FRepr.isZero
    have : (x.repr.exp == 0) = false := by simp; omega
    simp [this]
  unfold fCeil
  simp only [hne, hz, or_false, if_false, Bool.false_eq_true]
  by_cases hsm : smallerThanOne dub x.repr = true
  · simp only [hsm, if_true]
    have hq := smaller_quarter B hB dub hdub x.repr (smaller_of dub x.repr hsm)
    by_cases hs : x.repr.signif ≥ 0
    · simp only [hs, if_true]
      refine ⟨1, one_value B, ?_⟩
      rw [abs_of_nonneg hs] at hq
      unfold IsCeil; constructor <;> omega
    · simp only [hs, if_false]
      refine ⟨0, zero_value B, ?_⟩
      rw [abs_of_neg (by omega)] at hq
      unfold IsCeil; constructor <;> omega
  · simp only [hsm, if_false, Bool.false_eq_true]
    exact ⟨_, new_int_value B hB _, roundVia_spec B hB .up c hc dub hdub x he⟩

/-- `FBig::round` (ties away from zero) -/
theorem fRound_spec :
    ∃ t : Int, (fRound B c dub x).repr.toRat B = (t : ℚ) ∧
      IsNearestAway x.repr.signif (pointUnit B x.repr) t := by
  have hne : ¬ x.repr.exp ≥ 0 := by omega
  unfold fRound
  simp only [hne, if_false]
  by_cases hsm : x.repr.exp + (dub x.repr.signif : Int) < -2
  · simp only [hsm, if_true]
    refine ⟨0, zero_value B, ?_⟩
    have hq := smaller_quarter B hB dub hdub x.repr (by omega)
    unfold IsNearestAway
    have e : 2 * x.repr.signif - 2 * (0 * pointUnit B x.repr) = 2 * x.repr.signif := by ring
    rw [e, abs_mul]
    simp only [abs_two]
    have hnn := abs_nonneg x.repr.signif
    exact ⟨by omega, fun h => by omega⟩
  · simp only [hsm, if_false]
    exact ⟨_, new_int_value B hB _, roundVia_spec B hB .halfAway c hc dub hdub x he⟩

/-- `FBig::to_int` in the mode of the type: the integer the mode names, flagged
    inexact with the adjustment relative to the integral part -/
theorem fToInt_spec (m : Mode) :
    ModeSpec m x.repr.signif (pointUnit B x.repr) (fToInt B m c dub x).1 ∧
    (fToInt B m c dub x).2 ≠ none := by
  have hne : ¬ x.repr.exp ≥ 0 := by omega
  unfold fToInt
  try simp only [shlDigits_eq, shrDigits_eq]
  simp only [hne, if_false]
  exact ⟨roundVia_spec B hB m c hc dub hdub x he, by simp⟩

end

/-- `FBig::to_int` / `Repr::to_int` of a float without fractional digits: exact -/
theorem fToInt_int (B : Nat) (m : Mode) (c : Coarse) (dub : Int → Nat) (x : FBigM) (he : 0 ≤ x.repr.exp) :
    fToInt B m c dub x = (x.repr.signif * ((B ^ x.repr.exp.toNat : Nat) : Int), none) := by
  unfold fToInt
  try simp only [shlDigits_eq, shrDigits_eq]
  have : x.repr.exp ≥ 0 := he
  simp [this]

theorem int_value (B : Nat) (r : FRepr) (he : 0 ≤ r.exp) :
    r.toRat B = ((r.signif * ((B ^ r.exp.toNat : Nat) : Int) : Int) : ℚ) := by
  unfold FRepr.toRat
  have : bpowQ B r.exp = ((B ^ r.exp.toNat : Nat) : ℚ) := by
    rw [← bpowQ_nat, Int.toNat_of_nonneg he]
  rw [this]; push_cast; ring

/-- `Repr::to_int` (toward zero) -/
theorem reprToInt_spec (B : Nat) (hB : 2 ≤ B) (dub : Int → Nat) (hdub : DubSound B dub) (r : FRepr) (he : r.exp < 0) :
    IsTowardZero r.signif (pointUnit B r) (reprToInt B dub r).1 ∧ (reprToInt B dub r).2 = some .NoOp := by
  have hne : ¬ r.exp ≥ 0 := by omega
  have hD := pointUnit_pos B hB r
  unfold reprToInt
  try simp only [shlDigits_eq, shrDigits_eq]
  simp only [hne, if_false]
  by_cases hsm : smallerThanOne dub r = true
  · simp only [hsm, if_true, and_true]
    have hq := smaller_quarter B hB dub hdub r (smaller_of dub r hsm)
    unfold IsTowardZero IsFloor IsCeil
    split
    · rw [abs_of_nonneg ‹_›] at hq; constructor <;> omega
    · rw [abs_of_neg (by omega)] at hq; constructor <;> omega
  · simp only [hsm, if_false, Bool.false_eq_true, and_true]
    exact tdiv_isTowardZero _ _ hD

/-! ### `trunc(x) + fract(x) = x`, `split_at_point = (trunc, fract)` -/

theorem fSplit_eq (B : Nat) (dub : Int → Nat) (x : FBigM) :
    fSplitAtPoint B dub x = (fTrunc B dub x, fFract B dub x) := by
  unfold fSplitAtPoint fTrunc fFract splitAtPointInternal
  try simp only [shlDigits_eq, shrDigits_eq]
  by_cases he : x.repr.exp ≥ 0
  · simp [he]
  · simp only [he, if_false]
    by_cases hsm : smallerThanOne dub x.repr = true
    · simp [hsm]
    · simp only [hsm, if_false, Bool.false_eq_true, true_and, false_and]
      rw [splitDigits_eq]
      rfl

theorem trunc_add_fract (B : Nat) (hB : 2 ≤ B) (dub : Int → Nat) (x : FBigM) :
    (fTrunc B dub x).repr.toRat B + (fFract B dub x).repr.toRat B = x.repr.toRat B := by
  have hB0 : 0 < B := by omega
  unfold fTrunc fFract splitAtPointInternal
  try simp only [shlDigits_eq, shrDigits_eq]
  by_cases he : x.repr.exp ≥ 0
  · simp [he, FBigM.zero, FRepr.toRat]
  · simp only [he, if_false]
    by_cases hsm : smallerThanOne dub x.repr = true
    · simp [hsm, FBigM.zero, FRepr.toRat]
    · simp only [hsm, if_false, Bool.false_eq_true, true_and, false_and]
      rw [splitDigits_eq, splitSpec, FRepr.new_value B hB0, FRepr.new_value B hB0]
      have hdm := Int.mul_tdiv_add_tmod x.repr.signif ((B ^ (-x.repr.exp).toNat : Nat) : Int)
      have hu : bpowQ B 0 = ((B ^ (-x.repr.exp).toNat : Nat) : ℚ) * bpowQ B x.repr.exp := by
        rw [← bpowQ_nat, ← bpowQ_add B hB0, Int.toNat_of_nonneg (by omega)]
        congr 1; ring
      unfold FRepr.toRat
      rw [hu]
      have : (x.repr.signif : ℚ) = ((B ^ (-x.repr.exp).toNat : Nat) : ℚ) *
          (Int.tdiv x.repr.signif ((B ^ (-x.repr.exp).toNat : Nat) : Int) : ℚ) +
          (Int.tmod x.repr.signif ((B ^ (-x.repr.exp).toNat : Nat) : Int) : ℚ) := by
        exact_mod_cast hdm.symm
      conv_rhs => rw [this]
      ring

end Dashu.Model.Float
