import Dashu.Proofs.Float.Digits
import Mathlib.Analysis.SpecialFunctions.Log.Base
/-
  The `f32` digit estimate `Repr::digits_ub` (float/src/repr.rs, std path of `log2_bounds`):
  the precise assumptions under which `digits ≤ digits_ub`, and the proof of that implication over ℝ.

      digits_ub(n) = match B { 2 => ub, 10 => ub * LOG10_2, _ => ub / log2_bounds(B).0 } as usize + 1
      where ub = log2_bounds(n).1

  Assumptions (each is about one `f32` ingredient):
  (A) `ub` is an upper bound: `log₂ n ≤ ub`.  For `n < 2^24` the code computes `ub = next_up(log2f(n))`,
      so (A) is exactly "`log2f` is not more than one ulp too small: `log₂ x ≤ next_up(log2f x)`".
  (B) the one `f32` operation applied to `ub` (`*` or `/`) is a monotone rounding `fl` that leaves the
      small integers (`≤ 2^24`, all representable) fixed — true of IEEE round-to-nearest.  No relative
      error bound is needed: `t ≥ k` with `k` representable gives `fl t ≥ k`.
  (C) the two constants are on the safe side: `LOG10_2 ≥ log₁₀ 2` (the `f32` literal is
      0.30103001… > 0.30102999…) and `0 < log2_bounds(B).0 ≤ log₂ B`.
  Under (A)–(C) `digits B n ≤ digits_ub` for every base; for `B = 2` only (A) is used, and for bases
  that are powers of two (C) holds with equality (`log2_bounds(2^t) = (t, t)` exactly).
-/
namespace Dashu.Model.Float
open Real

/-- `digits_ub` with the `f32` ingredients as parameters: `ub`, the constants `L = LOG10_2` and
    `lbB = log2_bounds(B).0`, and the rounding `fl` of the single multiplication / division;
    `as usize` of a non-negative finite value is the floor -/
noncomputable def digitsUbReal (B : Nat) (fl : ℝ → ℝ) (ub L lbB : ℝ) : Nat :=
  if B = 2 then ⌊ub⌋₊ + 1 else if B = 10 then ⌊fl (ub * L)⌋₊ + 1 else ⌊fl (ub / lbB)⌋₊ + 1

theorem digits_sub_one_le_logb (B : Nat) (hB : 2 ≤ B) (n : Nat) (hn : 0 < n) :
    ((digits B n - 1 : Nat) : ℝ) ≤ Real.logb B n := by
  obtain ⟨_, h1, _⟩ := digits_spec B hB n hn
  have hB1 : (1 : ℝ) < (B : ℝ) := by exact_mod_cast (by omega : 1 < B)
  have hpos : (0 : ℝ) < ((B : ℝ) ^ (digits B n - 1)) := by positivity
  have hle : ((B : ℝ) ^ (digits B n - 1)) ≤ (n : ℝ) := by exact_mod_cast h1
  have := Real.logb_le_logb_of_le hB1 hpos hle
  rw [Real.logb_pow, Real.logb_self_eq_one hB1, mul_one] at this
  exact this

/-- the core of `log as usize + 1`: any real `t ≥ log_B n`, after a monotone rounding that fixes the
    small integers, still floors to at least `digits − 1` -/
theorem digits_le_floor_add_one (B : Nat) (hB : 2 ≤ B) (n : Nat) (hn : 0 < n) (fl : ℝ → ℝ) (hmono : Monotone fl)
    (hfix : ∀ k : Nat, k ≤ 2 ^ 24 → fl k = k) (hsmall : digits B n - 1 ≤ 2 ^ 24)
    (t : ℝ) (ht : Real.logb B n ≤ t) : digits B n ≤ ⌊fl t⌋₊ + 1 := by
  have h1 := digits_sub_one_le_logb B hB n hn
  have h2 : ((digits B n - 1 : Nat) : ℝ) ≤ fl t := by
    rw [← hfix _ hsmall]
    exact hmono (le_trans h1 ht)
  have := Nat.le_floor h2
  omega

theorem logb_two_nonneg (n : Nat) (hn : 0 < n) : 0 ≤ Real.logb 2 n := by
  apply Real.logb_nonneg (by norm_num)
  exact_mod_cast hn

/-- **`digits ≤ digits_ub` under the assumptions (A), (B), (C)** -/
theorem digits_le_digitsUb (B : Nat) (hB : 2 ≤ B) (n : Nat) (hn : 0 < n) (fl : ℝ → ℝ) (ub L lbB : ℝ)
    (hA : Real.logb 2 n ≤ ub)
    (hmono : Monotone fl) (hfix : ∀ k : Nat, k ≤ 2 ^ 24 → fl k = k) (hsmall : digits B n - 1 ≤ 2 ^ 24)
    (hL : Real.logb 10 2 ≤ L) (hlb : 0 < lbB ∧ lbB ≤ Real.logb 2 B) :
    digits B n ≤ digitsUbReal B fl ub L lbB := by
  have hn0 := logb_two_nonneg n hn
  have hlog2 : (0 : ℝ) < Real.log 2 := Real.log_pos (by norm_num)
  unfold digitsUbReal
  by_cases h2 : B = 2
  · subst h2
    simp only [if_true]
    have := digits_le_floor_add_one 2 (by omega) n hn id monotone_id (fun _ _ => rfl) hsmall ub (by exact_mod_cast hA)
    simpa using this
  · simp only [h2, if_false]
    by_cases h10 : B = 10
    · subst h10
      simp only [if_true]
      apply digits_le_floor_add_one 10 (by omega) n hn fl hmono hfix hsmall
      have hlog10 : (0 : ℝ) < Real.log 10 := Real.log_pos (by norm_num)
      have hcb : Real.logb (10 : ℕ) n = Real.logb 2 n * Real.logb 10 2 := by
        unfold Real.logb; push_cast; field_simp
      have hl0 : 0 ≤ Real.logb 10 2 := Real.logb_nonneg (by norm_num) (by norm_num)
      rw [hcb]
      calc Real.logb 2 n * Real.logb 10 2 ≤ ub * Real.logb 10 2 := mul_le_mul_of_nonneg_right hA hl0
        _ ≤ ub * L := mul_le_mul_of_nonneg_left hL (le_trans hn0 hA)
    · simp only [h10, if_false]
      apply digits_le_floor_add_one B hB n hn fl hmono hfix hsmall
      have hB1 : (1 : ℝ) < (B : ℝ) := by exact_mod_cast (by omega : 1 < B)
      have hlogB : (0 : ℝ) < Real.log B := Real.log_pos hB1
      have hcb : Real.logb B n = Real.logb 2 n / Real.logb 2 B := by
        unfold Real.logb; field_simp
      rw [hcb]
      have hLB : 0 < Real.logb 2 B := lt_of_lt_of_le hlb.1 hlb.2
      calc Real.logb 2 n / Real.logb 2 B ≤ Real.logb 2 n / lbB :=
            div_le_div_of_nonneg_left hn0 hlb.1 hlb.2
        _ ≤ ub / lbB := div_le_div_of_nonneg_right hA (le_of_lt hlb.1)

/-- `Repr::smaller_than_one` / the shortcuts of `round`, `trunc`, … need exactly `digits ≤ digits_ub`
    (`DubSound`); so (A)–(C) for every significand give `DubSound` for the estimator built from them -/
theorem dubSound_of_assumptions (B : Nat) (hB : 2 ≤ B) (fl : ℝ → ℝ) (ub : Nat → ℝ) (L lbB : ℝ)
    (hA : ∀ n : Nat, 0 < n → Real.logb 2 n ≤ ub n)
    (hmono : Monotone fl) (hfix : ∀ k : Nat, k ≤ 2 ^ 24 → fl k = k)
    (hsmall : ∀ n : Nat, digits B n - 1 ≤ 2 ^ 24)
    (hL : Real.logb 10 2 ≤ L) (hlb : 0 < lbB ∧ lbB ≤ Real.logb 2 B) :
    DubSound B (fun v => if v = 0 then 0 else digitsUbReal B fl (ub v.natAbs) L lbB) := by
  intro v
  by_cases hv : v = 0
  · subst hv; simp [digitsI, digits_zero]
  · simp only [hv, if_false]
    exact digits_le_digitsUb B hB v.natAbs (Int.natAbs_pos.mpr hv) fl _ L lbB (hA _ (Int.natAbs_pos.mpr hv))
      hmono hfix (hsmall _) hL hlb

/-! ### assumption (A) from the accuracy of `log2f` (std path of `u128::log2_bounds`) -/

/-- `n < 2^24` (converted to `f32` without loss): `ub = next_up(log2f(n))`; (A) is literally the
    assumption that `log2f` is at most one ulp too small -/
theorem ub_small_sound (log2f nextUp : ℝ → ℝ) (hacc : ∀ x : ℝ, 1 ≤ x → Real.logb 2 x ≤ nextUp (log2f x))
    (n : Nat) (hn : 0 < n) : Real.logb 2 n ≤ nextUp (log2f n) :=
  hacc n (by exact_mod_cast hn)

/-- `n ≥ 2^24`: `shifted = n >> s` (24 bits), `est = log2f(shifted + 1)`, `ub = next_up(fl(est + s))`.
    The only `f32` fact needed beyond the accuracy of `log2f` is the grid fact
    `(G)  next_up(fl(est + s)) ≥ next_up(est) + s`
    (true in IEEE arithmetic: `est ∈ (23, 24]`; if `est + s < 32` the sum is exact and on the same grid,
    otherwise the spacing at least doubles, so half a spacing of rounding error is covered by the
    `next_up`).  Given (G), `ub` is an upper bound of `log₂ n`. -/
theorem ub_wide_sound (log2f nextUp : ℝ → ℝ) (hacc : ∀ x : ℝ, 1 ≤ x → Real.logb 2 x ≤ nextUp (log2f x))
    (n shifted s : Nat) (hn : 0 < n) (hshift : n < (shifted + 1) * 2 ^ s) (ub : ℝ)
    (hG : nextUp (log2f ((shifted + 1 : Nat) : ℝ)) + s ≤ ub) : Real.logb 2 n ≤ ub := by
  have h1 : Real.logb 2 n ≤ Real.logb 2 (((shifted + 1) * 2 ^ s : Nat) : ℝ) := by
    apply Real.logb_le_logb_of_le (by norm_num) (by exact_mod_cast hn)
    exact_mod_cast (le_of_lt hshift)
  have h2 : Real.logb 2 (((shifted + 1) * 2 ^ s : Nat) : ℝ) = Real.logb 2 ((shifted + 1 : Nat) : ℝ) + s := by
    push_cast
    rw [Real.logb_mul (by positivity) (by positivity), Real.logb_pow, Real.logb_self_eq_one (by norm_num), mul_one]
  have h3 := hacc ((shifted + 1 : Nat) : ℝ) (by push_cast; linarith [Nat.cast_nonneg (α := ℝ) shifted])
  linarith

end Dashu.Model.Float
