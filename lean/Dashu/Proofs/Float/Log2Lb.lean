import Dashu.Proofs.Float.Log2Ub
/-
  The LOWER `log2_bounds` estimate of the std path (`base/src/math/log.rs`, `impl_log2_bounds_for_uint!`) with the concrete
  binary32 rounding, and the proof that it is a non-negative lower bound of `log₂ n` from a hypothesis about libm's `log2f`
  alone (the mirror image of `Proofs/Float/Log2Ub.lean`):

      if n.is_power_of_two()        { trailing_zeros as f32 }
      else if nbits <= 24           { next_down((n as f32).log2()) }
      else { shifted = (n >> (nbits-24)) as f32;  next_down(shifted.log2() + (nbits-24) as f32) }

  (LIBM↓)  for every integer `2 ≤ m ≤ 2²⁴`: `0 < next_down(log2f m) ≤ log₂ m`, and for `2²³ ≤ m < 2²⁴` the result is a
           binary32 number of `[16, 32)`.
  Also proved here: rounding commutes with scaling by a power of two (`rne32 (k·2^j) = k·2^j` for `k ≤ 2²⁴`: `rem_bits as f32`
  is exact for every multiple of 64 below `2³⁰`), and the lower grid fact `next_down(fl(est + s)) ≤ next_down(est) + s`.
-/
namespace Dashu.Model.Float
open Real

/-! ### scaling by powers of two -/

theorem intLog_mul_zpow (x : ℝ) (hx : 0 < x) (j : ℤ) : Int.log 2 (x * (2 : ℝ) ^ j) = Int.log 2 x + j := by
  have h1 := Int.zpow_log_le_self (b := 2) (by norm_num) hx
  have h2 := Int.lt_zpow_succ_log_self (b := 2) (by norm_num) x
  push_cast at h1 h2
  have hp : (0 : ℝ) < (2 : ℝ) ^ j := by positivity
  apply intLog_eq _ (by positivity)
  · rw [zpow_add₀ (by norm_num : (2 : ℝ) ≠ 0)]
    exact mul_le_mul_of_nonneg_right h1 (le_of_lt hp)
  · rw [show Int.log 2 x + j + 1 = (Int.log 2 x + 1) + j by ring, zpow_add₀ (by norm_num : (2 : ℝ) ≠ 0)]
    exact mul_lt_mul_of_pos_right h2 hp

/-- binary32 rounding commutes with multiplication by `2^j` (unbounded exponent) -/
theorem rneAbs_mul_zpow (x : ℝ) (hx : 0 < x) (j : ℤ) : rneAbs (x * (2 : ℝ) ^ j) = rneAbs x * (2 : ℝ) ^ j := by
  unfold rneAbs ulp32
  rw [intLog_mul_zpow x hx j]
  have e : (2 : ℝ) ^ (Int.log 2 x + j - 23) = (2 : ℝ) ^ (Int.log 2 x - 23) * (2 : ℝ) ^ j := by
    rw [← zpow_add₀ (by norm_num : (2 : ℝ) ≠ 0)]; congr 1; ring
  rw [e]
  have hq : (2 : ℝ) ^ (Int.log 2 x - 23) ≠ 0 := by positivity
  have hj : (2 : ℝ) ^ j ≠ 0 := by positivity
  have : x * (2 : ℝ) ^ j / ((2 : ℝ) ^ (Int.log 2 x - 23) * (2 : ℝ) ^ j) = x / (2 : ℝ) ^ (Int.log 2 x - 23) := by
    field_simp
  rw [this]; ring

/-- `k·2^j` with `k ≤ 2²⁴` is a binary32 number (`rem_bits as f32` for `rem_bits = 64·w`, `w ≤ 2²⁴`) -/
theorem rne32_nat_mul_pow (k j : Nat) (hk : k ≤ 2 ^ 24) : rne32 ((k : ℝ) * (2 : ℝ) ^ j) = (k : ℝ) * (2 : ℝ) ^ j := by
  rcases Nat.eq_zero_or_pos k with h0 | hpos
  · subst h0; simp [rne32]
  have hk0 : (0 : ℝ) < (k : ℝ) := by exact_mod_cast hpos
  have hfix := rne32_natCast k hk
  unfold rne32 at hfix ⊢
  rw [if_pos hk0] at hfix
  rw [if_pos (by positivity)]
  have := rneAbs_mul_zpow (k : ℝ) hk0 (j : ℤ)
  rw [zpow_natCast] at this
  rw [this, hfix]

/-! ### `next_down` -/

/-- `f32::next_down` of a positive binary32 number (half a spacing at the bottom of a binade) -/
noncomputable def nextDown32 (x : ℝ) : ℝ :=
  if x = (2 : ℝ) ^ (Int.log 2 x) then x - ulp32 x / 2 else x - ulp32 x

theorem nextDown32_le (x : ℝ) : nextDown32 x ≤ x - ulp32 x / 2 := by
  have := ulp32_pos x
  unfold nextDown32; split_ifs <;> linarith

theorem nextDown32_ge (x : ℝ) : x - ulp32 x ≤ nextDown32 x := by
  have := ulp32_pos x
  unfold nextDown32; split_ifs <;> linarith

theorem ulp32_le_self (x : ℝ) (hx : 0 < x) : ulp32 x ≤ x := by
  have h1 := Int.zpow_log_le_self (b := 2) (by norm_num) hx
  push_cast at h1
  unfold ulp32
  calc (2 : ℝ) ^ (Int.log 2 x - 23) ≤ (2 : ℝ) ^ (Int.log 2 x) := zpow_le_zpow_right₀ (by norm_num) (by omega)
    _ ≤ x := h1

theorem nextDown32_nonneg (x : ℝ) (hx : 0 < x) : 0 ≤ nextDown32 x := by
  have := nextDown32_ge x
  have := ulp32_le_self x hx
  linarith

theorem ulp32_lt_self (x : ℝ) (hx : 0 < x) : ulp32 x < x := by
  have h1 := Int.zpow_log_le_self (b := 2) (by norm_num) hx
  push_cast at h1
  unfold ulp32
  calc (2 : ℝ) ^ (Int.log 2 x - 23) < (2 : ℝ) ^ (Int.log 2 x) := zpow_lt_zpow_right₀ (by norm_num) (by omega)
    _ ≤ x := h1

theorem nextDown32_pos (x : ℝ) (hx : 0 < x) : 0 < nextDown32 x := by
  have := nextDown32_ge x
  have := ulp32_lt_self x hx
  linarith

/-- **lower grid fact**: `est = z·2⁻¹⁹ ∈ [16, 32)` a binary32 number, `s ≥ 1`: `next_down(fl(est + s)) ≤ (est − 2⁻¹⁹) + s` -/
theorem grid_fact_lower (z : ℤ) (s : Nat) (hs : 1 ≤ s) (h1 : 8388608 ≤ z) (h2 : z < 16777216) :
    nextDown32 (rne32 ((z : ℝ) * (2 : ℝ) ^ (-19 : ℤ) + s)) ≤ (z : ℝ) * (2 : ℝ) ^ (-19 : ℤ) - (2 : ℝ) ^ (-19 : ℤ) + s := by
  set est := (z : ℝ) * (2 : ℝ) ^ (-19 : ℤ) with hest
  have hz1 : (8388608 : ℝ) ≤ (z : ℝ) := by exact_mod_cast h1
  have hz2 : (z : ℝ) < 16777216 := by exact_mod_cast h2
  have hp19 : (2 : ℝ) ^ (-19 : ℤ) = 1 / 524288 := by norm_num
  have he1 : (16 : ℝ) ≤ est := by rw [hest, hp19]; linarith
  have he2 : est < 32 := by rw [hest, hp19]; linarith
  have hs1 : (1 : ℝ) ≤ (s : ℝ) := by exact_mod_cast hs
  have hy : 0 < est + s := by linarith
  have hr : rne32 (est + s) = rneAbs (est + s) := by unfold rne32; rw [if_pos hy]
  rw [hr]
  rcases lt_or_ge (est + (s : ℝ)) 32 with hlt | hge
  · -- exact sum, not a power of two (17 ≤ y < 32)
    have hs' : (s : ℝ) < 16 := by linarith
    have key := rneAbs_of_scaled (z + (s : ℤ) * 524288) (-19)
      (by have : (0 : ℤ) ≤ (s : ℤ) := Int.natCast_nonneg s; nlinarith)
      (by
        have : ((z + (s : ℤ) * 524288 : ℤ) : ℝ) < 16777216 := by
          push_cast
          have : est + (s : ℝ) = ((z : ℝ) + (s : ℝ) * 524288) / 524288 := by rw [hest, hp19]; ring
          rw [this, div_lt_iff₀ (by norm_num)] at hlt
          linarith
        exact_mod_cast this)
    have e : ((z + (s : ℤ) * 524288 : ℤ) : ℝ) * (2 : ℝ) ^ (-19 : ℤ) = est + s := by
      push_cast; rw [hest, hp19]; ring
    rw [e] at key
    rw [key]
    have hlog : Int.log 2 (est + (s : ℝ)) = 4 := intLog_eq _ hy 4 (by norm_num; linarith) (by norm_num; linarith)
    have hu : ulp32 (est + s) = (2 : ℝ) ^ (-19 : ℤ) := by unfold ulp32; rw [hlog]; norm_num
    have hne : ¬ (est + (s : ℝ) = (2 : ℝ) ^ (Int.log 2 (est + (s : ℝ)))) := by
      rw [hlog]; norm_num; intro h; linarith
    unfold nextDown32
    rw [if_neg hne, hu]
    linarith
  · have hlog5 : 5 ≤ Int.log 2 (est + (s : ℝ)) :=
      (Int.zpow_le_iff_le_log (b := 2) (by norm_num) hy).mp (by push_cast; norm_num; linarith)
    set e := Int.log 2 (est + (s : ℝ)) with hedef
    have hσ : ulp32 (est + s) = (2 : ℝ) ^ (e - 23) := rfl
    have hu : (2 : ℝ) ^ (-18 : ℤ) ≤ (2 : ℝ) ^ (e - 23) := zpow_le_zpow_right₀ (by norm_num) (by omega)
    have herr := (abs_le.mp (rneAbs_abs_err (est + s) hy)).2
    rw [hσ] at herr
    obtain ⟨hlow, hhigh⟩ := rneAbs_binade (est + s) hy
    rw [← hedef] at hlow hhigh
    set r := rneAbs (est + s) with hrdef
    have hrpos : 0 < r := lt_of_lt_of_le (by positivity) hlow
    have hylow : (2 : ℝ) ^ e ≤ est + s := by
      have := Int.zpow_log_le_self (b := 2) (by norm_num) hy
      push_cast at this; exact this
    -- log₂ r ∈ {e, e+1}
    have hk1 : e ≤ Int.log 2 r := (Int.zpow_le_iff_le_log (b := 2) (by norm_num) hrpos).mp (by push_cast; exact hlow)
    have h18 : (2 : ℝ) ^ (-18 : ℤ) = 2 * (2 : ℝ) ^ (-19 : ℤ) := by norm_num
    have hσpos : (0 : ℝ) < (2 : ℝ) ^ (e - 23) := by positivity
    -- claim: next_down r ≤ y − σ/2
    have claim : nextDown32 r ≤ est + s - (2 : ℝ) ^ (e - 23) / 2 := by
      by_cases hp : r = (2 : ℝ) ^ (Int.log 2 r)
      · -- r is a power of two: 2^e or 2^(e+1)
        have hk2 : Int.log 2 r ≤ e + 1 := by
          have : (2 : ℝ) ^ (Int.log 2 r) ≤ (2 : ℝ) ^ (e + 1) := by rw [← hp]; exact hhigh
          exact (zpow_le_zpow_iff_right₀ (by norm_num : (1 : ℝ) < 2)).mp this
        unfold nextDown32
        rw [if_pos hp]
        rcases (by omega : Int.log 2 r = e ∨ Int.log 2 r = e + 1) with hk | hk
        · have hu' : ulp32 r = (2 : ℝ) ^ (e - 23) := by unfold ulp32; rw [hk]
          have hre : r = (2 : ℝ) ^ e := by rw [hp, hk]
          rw [hu']; linarith
        · have hu' : ulp32 r = 2 * (2 : ℝ) ^ (e - 23) := by
            unfold ulp32; rw [hk, show e + 1 - 23 = 1 + (e - 23) by ring, zpow_add₀ (by norm_num : (2 : ℝ) ≠ 0)]; norm_num
          rw [hu']; linarith
      · have hu' : (2 : ℝ) ^ (e - 23) ≤ ulp32 r := by
          unfold ulp32; exact zpow_le_zpow_right₀ (by norm_num) (by omega)
        unfold nextDown32
        rw [if_neg hp]; linarith
    linarith

/-! ### the lower estimate of the std path -/

/-- the hypothesis about libm's `log2f` (lower side) -/
structure Log2fLower (log2f : ℝ → ℝ) : Prop where
  acc : ∀ m : Nat, 2 ≤ m → m ≤ 2 ^ 24 → 0 < nextDown32 (log2f m) ∧ nextDown32 (log2f m) ≤ Real.logb 2 m
  grid : ∀ m : Nat, 2 ^ 23 ≤ m → m < 2 ^ 24 →
    ∃ z : ℤ, 8388608 ≤ z ∧ z < 16777216 ∧ log2f m = (z : ℝ) * (2 : ℝ) ^ (-19 : ℤ)

/-- `log2_bounds(n).0` of the std path, every `f32` operation an `rne32` -/
noncomputable def log2LbStd (log2f : ℝ → ℝ) (n : Nat) : ℝ :=
  let nbits := Nat.log2 n + 1
  if n = 2 ^ (nbits - 1) then rne32 ((nbits - 1 : Nat) : ℝ)
  else if nbits ≤ 24 then nextDown32 (log2f (rne32 (n : ℝ)))
  else nextDown32 (rne32 (log2f (rne32 ((n / 2 ^ (nbits - 24) : Nat) : ℝ)) + rne32 ((nbits - 24 : Nat) : ℝ)))

/-- **`0 ≤ lb ≤ log₂ n` (and `0 < lb` for `n ≥ 2`) for every inline significand from the libm hypothesis alone** -/
theorem log2LbStd_sound (log2f : ℝ → ℝ) (h : Log2fLower log2f) (n : Nat) (hn : 0 < n) (hbits : Nat.log2 n + 1 ≤ 2 ^ 24) :
    0 ≤ log2LbStd log2f n ∧ log2LbStd log2f n ≤ Real.logb 2 n ∧ (2 ≤ n → 0 < log2LbStd log2f n) := by
  have h1 : 2 ^ Nat.log2 n ≤ n := Nat.log2_self_le (by omega)
  have h2 : n < 2 ^ (Nat.log2 n + 1) := Nat.lt_log2_self
  unfold log2LbStd
  simp only [Nat.add_sub_cancel]
  by_cases hp : n = 2 ^ Nat.log2 n
  · rw [if_pos hp, rne32_natCast _ (by omega)]
    refine ⟨Nat.cast_nonneg _, ?_, ?_⟩
    · conv_rhs => rw [hp]
      exact le_of_eq (logb_two_pow _).symm
    · intro hn2
      have : 1 ≤ Nat.log2 n := by
        by_contra hcon
        have h0 : Nat.log2 n = 0 := by omega
        rw [h0] at h2; omega
      exact_mod_cast this
  · rw [if_neg hp]
    by_cases h24 : Nat.log2 n + 1 ≤ 24
    · rw [if_pos h24]
      have hlt : n < 2 ^ 24 := lt_of_lt_of_le h2 (Nat.pow_le_pow_right (by norm_num) h24)
      rw [rne32_natCast n (le_of_lt hlt)]
      have hn2 : 2 ≤ n := by
        rcases Nat.lt_or_ge n 2 with hlt2 | hge2
        · exfalso
          have : n = 1 := by omega
          subst this
          exact hp (le_antisymm (Nat.one_le_two_pow) h1)
        · exact hge2
      obtain ⟨a, b⟩ := h.acc n hn2 (le_of_lt hlt)
      exact ⟨le_of_lt a, b, fun _ => a⟩
    · rw [if_neg h24]
      obtain ⟨s, hs⟩ : ∃ s, Nat.log2 n + 1 = s + 24 := ⟨Nat.log2 n + 1 - 24, by omega⟩
      have hs1 : 1 ≤ s := by omega
      rw [show Nat.log2 n + 1 - 24 = s by omega]
      set shifted := n / 2 ^ s with hsh
      have hpow : 0 < 2 ^ s := by positivity
      have hlo : 2 ^ 23 ≤ shifted := by
        rw [hsh, Nat.le_div_iff_mul_le hpow, ← Nat.pow_add, show 23 + s = Nat.log2 n by omega]
        exact h1
      have hhi : shifted < 2 ^ 24 := by
        rw [hsh, Nat.div_lt_iff_lt_mul hpow, ← Nat.pow_add, show 24 + s = Nat.log2 n + 1 by omega]
        exact h2
      have hmul : shifted * 2 ^ s ≤ n := Nat.div_mul_le_self n (2 ^ s)
      rw [rne32_natCast shifted (le_of_lt hhi), rne32_natCast s (by omega)]
      obtain ⟨z, hz1, hz2, hz⟩ := h.grid shifted hlo hhi
      obtain ⟨_, hacc⟩ := h.acc shifted (by omega) (le_of_lt hhi)
      rw [hz] at hacc ⊢
      have hG := grid_fact_lower z s hs1 hz1 hz2
      -- next_down est ≥ est − 2⁻¹⁹
      have hz1R : (8388608 : ℝ) ≤ (z : ℝ) := by exact_mod_cast hz1
      have hz2R : (z : ℝ) < 16777216 := by exact_mod_cast hz2
      have hp19 : (2 : ℝ) ^ (-19 : ℤ) = 1 / 524288 := by norm_num
      have hest1 : (16 : ℝ) ≤ (z : ℝ) * (2 : ℝ) ^ (-19 : ℤ) := by rw [hp19]; linarith
      have hest2 : (z : ℝ) * (2 : ℝ) ^ (-19 : ℤ) < 32 := by rw [hp19]; linarith
      have hlogest : Int.log 2 ((z : ℝ) * (2 : ℝ) ^ (-19 : ℤ)) = 4 :=
        intLog_eq _ (by linarith) 4 (by norm_num; linarith) (by norm_num; linarith)
      have hnd := nextDown32_ge ((z : ℝ) * (2 : ℝ) ^ (-19 : ℤ))
      have hulp : ulp32 ((z : ℝ) * (2 : ℝ) ^ (-19 : ℤ)) = (2 : ℝ) ^ (-19 : ℤ) := by unfold ulp32; rw [hlogest]; norm_num
      rw [hulp] at hnd
      -- log₂ (shifted·2^s) ≤ log₂ n
      have hshR : (0 : ℝ) < (shifted : ℝ) := by exact_mod_cast (by omega : 0 < shifted)
      have a1 : Real.logb 2 ((shifted * 2 ^ s : Nat) : ℝ) ≤ Real.logb 2 n :=
        Real.logb_le_logb_of_le (by norm_num) (by exact_mod_cast Nat.mul_pos (by omega) hpow) (by exact_mod_cast hmul)
      have a2 : Real.logb 2 ((shifted * 2 ^ s : Nat) : ℝ) = Real.logb 2 (shifted : ℝ) + s := by
        push_cast
        rw [Real.logb_mul (ne_of_gt hshR) (by positivity), Real.logb_pow, Real.logb_self_eq_one (by norm_num), mul_one]
      have hs0 : (0 : ℝ) ≤ (s : ℝ) := Nat.cast_nonneg s
      have hy : 0 < (z : ℝ) * (2 : ℝ) ^ (-19 : ℤ) + s := by linarith
      have hrpos : 0 < rne32 ((z : ℝ) * (2 : ℝ) ^ (-19 : ℤ) + s) := by
        unfold rne32; rw [if_pos hy]; exact rneAbs_pos _ hy
      exact ⟨nextDown32_nonneg _ hrpos, by linarith, fun _ => nextDown32_pos _ hrpos⟩

end Dashu.Model.Float
