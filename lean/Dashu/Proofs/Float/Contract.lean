import Dashu.Proofs.Float.Round
/-
  From the mode specifications (integer-scaled, `Props/GenRound.lean`) to the rounding contract.

  `IContract m D X R flag` : the contract for an inexact rounding, stated on integers scaled by a
  common power of the base: `X` exact value, `R` result, `D` the unit of the last kept digit.
-/
namespace Dashu.Model.Float
open Dashu Dashu.Props.GenRound

structure IContract (m : Mode) (D X R : Int) (flag : Option Rounding) : Prop where
  ne : R ≠ X
  flag_some : flag ≠ none
  err : if m.isHalf then (-D ≤ 2 * (R - X) ∧ 2 * (R - X) ≤ D) else (-D < R - X ∧ R - X < D)
  side : match m with
    | .zero => (0 ≤ X → 0 ≤ R ∧ R ≤ X) ∧ (X ≤ 0 → X ≤ R ∧ R ≤ 0)
    | .away => (0 ≤ X → X ≤ R) ∧ (X ≤ 0 → R ≤ X)
    | .up => X ≤ R
    | .down => R ≤ X
    | _ => True
  addOne : flag = some .AddOne → X < R
  subOne : flag = some .SubOne → R < X

theorem mult_gt_neg (r D : Int) (hD : 0 < D) (h : -D < r * D) : 0 ≤ r * D := by
  have : 0 ≤ r := by
    by_contra hr
    have : r ≤ -1 := by omega
    nlinarith
  exact Int.mul_nonneg this (le_of_lt hD)

theorem mult_lt_pos (r D : Int) (hD : 0 < D) (h : r * D < D) : r * D ≤ 0 := by
  have : r ≤ 0 := by
    by_contra hr
    have : 1 ≤ r := by omega
    nlinarith
  nlinarith

/-- the table result satisfies the integer-scaled contract -/
theorem icontract_of_spec (m : Mode) (hi lo D : Int) (hD : 0 < D) (hlo : lo ≠ 0) (hlt : |lo| < D)
    (a : Rounding) (h : ModeSpec m (hi * D + lo) D (hi + rInt a)) :
    IContract m D (hi * D + lo) ((hi + rInt a) * D) (some a) := by
  have hl := abs_lt.mp hlt
  have e1 : (hi + rInt a + 1) * D = (hi + rInt a) * D + D := by ring
  have e2 : (hi + rInt a - 1) * D = (hi + rInt a) * D - D := by ring
  have eR : (hi + rInt a) * D = hi * D + rInt a * D := by ring
  have hA : rInt a * D = 0 ∨ rInt a * D = D ∨ rInt a * D = -D := by
    cases a <;> simp [rInt]
  have hadd : a = .AddOne → rInt a * D = D := by intro h; subst h; simp [rInt]
  have hsub : a = .SubOne → rInt a * D = -D := by intro h; subst h; simp [rInt]
  have hp1 := mult_gt_neg (hi + rInt a) D hD
  have hp2 := mult_lt_pos (hi + rInt a) D hD
  refine ⟨?_, by simp, ?_, ?_, ?_, ?_⟩
  · rw [eR]; rcases hA with h | h | h <;> rw [h] <;> omega
  · cases m <;> simp only [ModeSpec, IsTowardZero, IsAwayFromZero, IsFloor, IsCeil, IsNearestEven,
      IsNearestAway, e1, e2] at h <;> simp only [Mode.isHalf, if_true, if_false, Bool.false_eq_true]
    · split at h <;> constructor <;> omega
    · split at h <;> constructor <;> omega
    · constructor <;> omega
    · constructor <;> omega
    · have := abs_le.mp h.1; constructor <;> omega
    · have := abs_le.mp h.1; constructor <;> omega
  · cases m <;> simp only [ModeSpec, IsTowardZero, IsAwayFromZero, IsFloor, IsCeil, IsNearestEven,
      IsNearestAway, e1, e2] at h <;> try trivial
    · constructor
      · intro hx; rw [if_pos hx] at h
        exact ⟨hp1 (by omega), h.1⟩
      · intro hx
        by_cases hx0 : 0 ≤ hi * D + lo
        · rw [if_pos hx0] at h
          have : hi * D + lo = 0 := by omega
          have := hp1 (by omega)
          constructor <;> omega
        · rw [if_neg hx0] at h
          exact ⟨h.2, hp2 (by omega)⟩
    · constructor
      · intro hx; rw [if_pos hx] at h; exact h.2
      · intro hx
        by_cases hx0 : 0 ≤ hi * D + lo
        · rw [if_pos hx0] at h
          have hz : hi * D + lo = 0 := by omega
          have := hp2 (by omega)
          omega
        · rw [if_neg hx0] at h; exact h.1
    · exact h.2
    · exact h.1
  · intro hf; have := hadd (by simpa using hf); rw [eR, this]; omega
  · intro hf; have := hsub (by simpa using hf); rw [eR, this]; omega

end Dashu.Model.Float
