import Dashu.Proofs.Float.RoundOps
import Dashu.Model.Float.QRound
/-
  `rational/src/round.rs`: the mirrored `Repr::{split_at_point, ceil, floor, trunc, fract, round}` name the neighbour
  their definition prescribes, `fract` keeps value and type invariant (`RBig`: lowest terms; `Relaxed`: not both even).
-/
namespace Dashu.Model.Float
open Dashu Dashu.Props.GenRound

theorem QRepr.trunc_eq (x : QRepr) : x.trunc = qTrunc x.num x.den := rfl

theorem QRepr.ceil_eq (x : QRepr) : x.ceil = qCeil x.num x.den := rfl

theorem QRepr.floor_eq (x : QRepr) : x.floor = qFloor x.num x.den := rfl

theorem QRepr.round_eq (x : QRepr) : x.round = qRound x.num x.den := by
  unfold QRepr.round QRepr.divRem qRound
  simp only [Nat.shiftLeft_eq, pow_one]
  have e : ∀ a : Nat, a * 2 = 2 * a := fun a => Nat.mul_comm a 2
  rw [e]
  by_cases h : x.num < 0
  · have h' : ¬ x.num ≥ 0 := by omega
    simp [h, h']
  · have h' : x.num ≥ 0 := by omega
    simp [h, h']

theorem QRepr.splitAtPoint_eq (x : QRepr) : x.splitAtPoint = (x.trunc, x.fract) := rfl

/-- the fraction's numerator is the truncating remainder, whichever representation of zero is chosen -/
theorem QRepr.fract_num (x : QRepr) : x.fract.num = Int.tmod x.num x.den := by
  unfold QRepr.fract
  simp only
  split
  · next h => simp [QRepr.zero, h]
  · rfl

theorem QRepr.fract_den (x : QRepr) : x.fract.den = if Int.tmod x.num x.den = 0 then 1 else x.den := by
  unfold QRepr.fract
  simp only
  split <;> simp [QRepr.zero]

/-- `x = trunc(x) + fract(x)` as a cross-multiplied identity (`fract = fn / fd`):
    `num · fd = (trunc · fd + fn) · den` -/
theorem QRepr.trunc_add_fract (x : QRepr) :
    x.num * (x.fract.den : Int) = (x.trunc * (x.fract.den : Int) + x.fract.num) * (x.den : Int) := by
  have h := Int.mul_tdiv_add_tmod x.num x.den
  rw [QRepr.fract_num, QRepr.fract_den]
  unfold QRepr.trunc
  split
  · next h0 =>
    rw [h0] at h ⊢
    simp only [Nat.cast_one, mul_one, add_zero] at h ⊢
    linarith
  · generalize Int.tdiv x.num x.den = q at h ⊢
    generalize Int.tmod x.num x.den = r at h ⊢
    rw [← h]
    ring

/-- the fraction lies strictly inside `(-1, 1)` and has the sign of the operand -/
theorem QRepr.fract_range (x : QRepr) (hden : 0 < x.den) :
    |x.fract.num| < (x.fract.den : Int) ∧ (0 ≤ x.num → 0 ≤ x.fract.num) ∧ (x.num ≤ 0 → x.fract.num ≤ 0) := by
  obtain ⟨_, b, c, d⟩ := q_decomp x.num x.den hden
  rw [QRepr.fract_num, QRepr.fract_den]
  refine ⟨?_, c, d⟩
  split
  · next h0 => rw [h0]; simp
  · exact b

/-- `RBig::fract` / `split_at_point` return a valid `RBig` ("no need to reduce here"): lowest terms are kept -/
theorem QRepr.fract_isRBig (x : QRepr) (h : x.IsRBig) : x.fract.IsRBig := by
  obtain ⟨hd, hg⟩ := h
  unfold QRepr.fract
  simp only
  split
  · exact ⟨by decide, by simp [QRepr.zero]⟩
  · refine ⟨hd, ?_⟩
    show Nat.gcd (Int.tmod x.num x.den).natAbs x.den = 1
    -- a common divisor of `r` and `den` divides `num = q·den + r`
    have hdec := Int.mul_tdiv_add_tmod x.num x.den
    apply Nat.eq_one_of_dvd_one
    rw [← hg]
    apply Nat.dvd_gcd
    · have h1 : ((Nat.gcd (Int.tmod x.num x.den).natAbs x.den : Nat) : Int) ∣ Int.tmod x.num x.den := by
        rw [Int.natCast_dvd]; exact Nat.gcd_dvd_left _ _
      have h2 : ((Nat.gcd (Int.tmod x.num x.den).natAbs x.den : Nat) : Int) ∣ (x.den : Int) := by
        exact_mod_cast Nat.gcd_dvd_right _ _
      have h3 : ((Nat.gcd (Int.tmod x.num x.den).natAbs x.den : Nat) : Int) ∣ x.num := by
        have := dvd_add (Dvd.dvd.mul_right h2 (Int.tdiv x.num x.den)) h1
        rwa [hdec] at this
      rw [Int.natCast_dvd] at h3
      exact h3
    · exact Nat.gcd_dvd_right _ _

/-- `Relaxed::fract` / `split_at_point` return a valid `Relaxed`: zero is `0/1`, never both parts even -/
theorem QRepr.fract_isRelaxed (x : QRepr) (h : x.IsRelaxed) : x.fract.IsRelaxed := by
  obtain ⟨hd, _, hpar⟩ := h
  unfold QRepr.fract
  simp only
  split
  · exact ⟨by decide, fun _ => rfl, by simp [QRepr.zero]⟩
  · next hr =>
    refine ⟨hd, fun h0 => absurd h0 hr, ?_⟩
    rintro ⟨h1, h2⟩
    apply hpar
    refine ⟨?_, h2⟩
    have hdec := Int.mul_tdiv_add_tmod x.num x.den
    show x.num % 2 = 0
    have h2' : ((x.den : Nat) : Int) % 2 = 0 := by exact_mod_cast h2
    have h1' : Int.tmod x.num x.den % 2 = 0 := h1
    generalize Int.tdiv x.num x.den = q at *
    generalize Int.tmod x.num x.den = r at *
    generalize (x.den : Int) = d at *
    have : (d * q) % 2 = 0 := by
      rw [Int.mul_emod, h2']; simp
    omega

end Dashu.Model.Float
