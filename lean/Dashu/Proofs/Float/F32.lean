import Dashu.Proofs.Float.Coarse
import Dashu.Proofs.Float.Estimate
import Mathlib.Data.Int.Log
import Mathlib.Algebra.Order.Floor.Ring
import Mathlib.Tactic.Linarith
import Mathlib.Tactic.NormNum
/-
  IEEE-754 binary32 round-to-nearest, ties-to-even, as a concrete function on ℝ (`rne32`), and the facts about it that the
  C10 theorems about the `f32` estimators use as hypotheses — here PROVED from the definition:

    (R)  relative error:        |rne32 x − x| ≤ 2⁻²⁴·|x|                (`RelRound rne32`)
    (B1) monotone:              x ≤ y → rne32 x ≤ rne32 y
    (B2) small integers fixed:  k ≤ 2²⁴ → rne32 k = k
    (C)  the literals:          rne32 (999/1000) = 16760439/2²⁴, rne32 (1001/1000) = 8396997/2²³,
                                rne32 (LOG10_2 as written in core::f32::consts) = 10100891/2²⁵ ≥ log₁₀ 2,
                                1 ∓ 2·f32::EPSILON representable (no rounding in `1. ∓ ADJUST`)
    (G)  grid fact of `ub_wide`: next_up(rne32(est + s)) ≥ next_up(est) + s for est on the binary32 grid of [16, 32)

  `rne32` has the 24-bit significand of binary32 and an UNBOUNDED exponent: it is the IEEE operation wherever neither
  overflow nor subnormal results occur (`rne32_in_normal_range`: 2⁻¹²⁶ ≤ |x| ≤ 2¹²⁷ ⇒ 2⁻¹²⁶ ≤ |rne32 x| ≤ 2¹²⁷); every
  quantity the estimators compute is 0 or lies in [2⁻¹, 2³²].
-/
namespace Dashu.Model.Float
open Real

/-! ### round-half-even to an integer -/

/-- round to the nearest integer, ties to the even one -/
noncomputable def rhe (t : ℝ) : ℤ :=
  if t - ⌊t⌋ < 1 / 2 then ⌊t⌋ else if 1 / 2 < t - ⌊t⌋ then ⌊t⌋ + 1 else if Even ⌊t⌋ then ⌊t⌋ else ⌊t⌋ + 1

theorem rhe_intCast (z : ℤ) : rhe (z : ℝ) = z := by
  unfold rhe
  simp

theorem floor_le_rhe (t : ℝ) : ⌊t⌋ ≤ rhe t := by
  unfold rhe; split_ifs <;> omega

theorem rhe_le_floor_succ (t : ℝ) : rhe t ≤ ⌊t⌋ + 1 := by
  unfold rhe; split_ifs <;> omega

theorem rhe_err (t : ℝ) : |(rhe t : ℝ) - t| ≤ 1 / 2 := by
  have h1 := Int.floor_le t
  have h2 := Int.lt_floor_add_one t
  unfold rhe
  rw [abs_le]
  split_ifs with a b c <;> push_cast <;> constructor <;> linarith

theorem rhe_mono : Monotone rhe := by
  intro s t hst
  have hf : ⌊s⌋ ≤ ⌊t⌋ := Int.floor_mono hst
  rcases lt_or_eq_of_le hf with hlt | heq
  · calc rhe s ≤ ⌊s⌋ + 1 := rhe_le_floor_succ s
      _ ≤ ⌊t⌋ := hlt
      _ ≤ rhe t := floor_le_rhe t
  · unfold rhe
    rw [← heq]
    split_ifs <;> first | omega | (exfalso; linarith)

/-! ### binary32 rounding of a real (24-bit significand, unbounded exponent) -/

/-- the spacing of binary32 numbers in the binade of `x > 0`: `2^(⌊log₂ x⌋ − 23)` -/
noncomputable def ulp32 (x : ℝ) : ℝ := (2 : ℝ) ^ (Int.log 2 x - 23)

/-- rounding of a positive real -/
noncomputable def rneAbs (x : ℝ) : ℝ := (rhe (x / ulp32 x) : ℝ) * ulp32 x

/-- IEEE-754 binary32 round-to-nearest-even (sign-symmetric) -/
noncomputable def rne32 (x : ℝ) : ℝ := if 0 < x then rneAbs x else if x < 0 then -rneAbs (-x) else 0

theorem ulp32_pos (x : ℝ) : 0 < ulp32 x := by unfold ulp32; positivity

theorem two_zpow_split (e : ℤ) : (2 : ℝ) ^ e = (2 : ℝ) ^ (23 : ℤ) * (2 : ℝ) ^ (e - 23) := by
  rw [← zpow_add₀ (by norm_num : (2 : ℝ) ≠ 0)]; congr 1; ring

theorem two_zpow_split' (e : ℤ) : (2 : ℝ) ^ (e + 1) = (2 : ℝ) ^ (24 : ℤ) * (2 : ℝ) ^ (e - 23) := by
  rw [← zpow_add₀ (by norm_num : (2 : ℝ) ≠ 0)]; congr 1; ring

/-- the scaled significand lies in `[2²³, 2²⁴)` -/
theorem scaled_range (x : ℝ) (hx : 0 < x) : (8388608 : ℝ) ≤ x / ulp32 x ∧ x / ulp32 x < 16777216 := by
  have h1 := Int.zpow_log_le_self (b := 2) (by norm_num) hx
  have h2 := Int.lt_zpow_succ_log_self (b := 2) (by norm_num) x
  have hq := ulp32_pos x
  push_cast at h1 h2
  rw [two_zpow_split] at h1
  rw [two_zpow_split'] at h2
  have e23 : (2 : ℝ) ^ (23 : ℤ) = 8388608 := by norm_num
  have e24 : (2 : ℝ) ^ (24 : ℤ) = 16777216 := by norm_num
  rw [e23] at h1; rw [e24] at h2
  unfold ulp32 at *
  constructor
  · rw [le_div_iff₀ hq]; exact h1
  · rw [div_lt_iff₀ hq]; exact h2

theorem rhe_scaled_range (x : ℝ) (hx : 0 < x) :
    (8388608 : ℝ) ≤ (rhe (x / ulp32 x) : ℝ) ∧ (rhe (x / ulp32 x) : ℝ) ≤ 16777216 := by
  obtain ⟨h1, h2⟩ := scaled_range x hx
  have a := rhe_mono h1
  have b := rhe_mono (le_of_lt h2)
  have ea : rhe (8388608 : ℝ) = 8388608 := by have := rhe_intCast 8388608; push_cast at this; exact this
  have eb : rhe (16777216 : ℝ) = 16777216 := by have := rhe_intCast 16777216; push_cast at this; exact this
  rw [ea] at a; rw [eb] at b
  constructor
  · exact_mod_cast a
  · exact_mod_cast b

/-- the result stays in the closed binade: `2^e ≤ rneAbs x ≤ 2^(e+1)` -/
theorem rneAbs_binade (x : ℝ) (hx : 0 < x) :
    (2 : ℝ) ^ (Int.log 2 x) ≤ rneAbs x ∧ rneAbs x ≤ (2 : ℝ) ^ (Int.log 2 x + 1) := by
  obtain ⟨h1, h2⟩ := rhe_scaled_range x hx
  have hq := ulp32_pos x
  unfold rneAbs
  rw [two_zpow_split (Int.log 2 x), two_zpow_split' (Int.log 2 x)]
  have e23 : (2 : ℝ) ^ (23 : ℤ) = 8388608 := by norm_num
  have e24 : (2 : ℝ) ^ (24 : ℤ) = 16777216 := by norm_num
  rw [e23, e24]
  unfold ulp32 at *
  constructor
  · exact mul_le_mul_of_nonneg_right h1 (le_of_lt hq)
  · exact mul_le_mul_of_nonneg_right h2 (le_of_lt hq)

theorem rneAbs_pos (x : ℝ) (hx : 0 < x) : 0 < rneAbs x :=
  lt_of_lt_of_le (by positivity) (rneAbs_binade x hx).1

/-- absolute error at most half a spacing, which is at most `2⁻²⁴·x` -/
theorem rneAbs_err (x : ℝ) (hx : 0 < x) : |rneAbs x - x| ≤ u32 * x := by
  have hq := ulp32_pos x
  have h := rhe_err (x / ulp32 x)
  obtain ⟨h1, _⟩ := scaled_range x hx
  have hx' : x = x / ulp32 x * ulp32 x := by field_simp
  have e : rneAbs x - x = ((rhe (x / ulp32 x) : ℝ) - x / ulp32 x) * ulp32 x := by
    unfold rneAbs; rw [sub_mul]; congr 1
  rw [e, abs_mul, abs_of_pos hq]
  have h3 : ulp32 x ≤ x / 8388608 := by
    rw [le_div_iff₀ (by norm_num)]
    have := (le_div_iff₀ hq).mp h1
    linarith
  calc |(rhe (x / ulp32 x) : ℝ) - x / ulp32 x| * ulp32 x ≤ 1 / 2 * ulp32 x := mul_le_mul_of_nonneg_right h (le_of_lt hq)
    _ ≤ 1 / 2 * (x / 8388608) := by linarith
    _ = u32 * x := by unfold u32; ring

theorem rneAbs_mono (x y : ℝ) (hx : 0 < x) (hxy : x ≤ y) : rneAbs x ≤ rneAbs y := by
  have hy : 0 < y := lt_of_lt_of_le hx hxy
  have hl := Int.log_mono_right (b := 2) hx hxy
  rcases lt_or_eq_of_le hl with hlt | heq
  · calc rneAbs x ≤ (2 : ℝ) ^ (Int.log 2 x + 1) := (rneAbs_binade x hx).2
      _ ≤ (2 : ℝ) ^ (Int.log 2 y) := zpow_le_zpow_right₀ (by norm_num) (by omega)
      _ ≤ rneAbs y := (rneAbs_binade y hy).1
  · have hu : ulp32 x = ulp32 y := by unfold ulp32; rw [heq]
    unfold rneAbs
    rw [hu]
    apply mul_le_mul_of_nonneg_right _ (le_of_lt (ulp32_pos y))
    have : x / ulp32 y ≤ y / ulp32 y := div_le_div_of_nonneg_right hxy (le_of_lt (ulp32_pos y))
    exact_mod_cast rhe_mono this

/-- **(B1)** binary32 rounding is monotone -/
theorem rne32_mono : Monotone rne32 := by
  intro x y hxy
  unfold rne32
  by_cases hx : 0 < x
  · have hy : 0 < y := lt_of_lt_of_le hx hxy
    simp only [hx, hy, if_true]
    exact rneAbs_mono x y hx hxy
  · simp only [hx, if_false]
    by_cases hx' : x < 0
    · simp only [hx', if_true]
      have hnx := rneAbs_pos (-x) (by linarith)
      by_cases hy : 0 < y
      · simp only [hy, if_true]
        have := rneAbs_pos y hy
        linarith
      · simp only [hy, if_false]
        by_cases hy' : y < 0
        · simp only [hy', if_true]
          have := rneAbs_mono (-y) (-x) (by linarith) (by linarith)
          linarith
        · simp only [hy', if_false]; linarith
    · simp only [hx', if_false]
      have hx0 : x = 0 := le_antisymm (not_lt.mp hx) (not_lt.mp hx')
      by_cases hy : 0 < y
      · simp only [hy, if_true]; exact le_of_lt (rneAbs_pos y hy)
      · have : y = 0 := le_antisymm (not_lt.mp hy) (by linarith)
        subst this; simp

/-- **(R)** relative error at most `u = 2⁻²⁴` -/
theorem rne32_relRound : RelRound rne32 := by
  intro x
  unfold rne32
  by_cases hx : 0 < x
  · simp only [hx, if_true]
    rw [abs_of_pos hx]; exact rneAbs_err x hx
  · simp only [hx, if_false]
    by_cases hx' : x < 0
    · simp only [hx', if_true]
      have := rneAbs_err (-x) (by linarith)
      rw [abs_of_neg hx']
      have e : -rneAbs (-x) - x = -(rneAbs (-x) - -x) := by ring
      rw [e, abs_neg]; exact this
    · simp only [hx', if_false]
      have hx0 : x = 0 := le_antisymm (not_lt.mp hx) (not_lt.mp hx')
      subst hx0; simp

/-- a value `z·2^(e−23)` with `2²³ ≤ z < 2²⁴` is a binary32 number: rounding leaves it fixed -/
theorem rneAbs_of_scaled (z : ℤ) (j : ℤ) (h1 : 8388608 ≤ z) (h2 : z < 16777216) :
    rneAbs ((z : ℝ) * (2 : ℝ) ^ j) = (z : ℝ) * (2 : ℝ) ^ j := by
  have hz : (0 : ℝ) < (z : ℝ) := by exact_mod_cast (by omega : 0 < z)
  have hx : (0 : ℝ) < (z : ℝ) * (2 : ℝ) ^ j := by positivity
  have hlog : Int.log 2 ((z : ℝ) * (2 : ℝ) ^ j) = j + 23 := by
    apply le_antisymm
    · have : (z : ℝ) * (2 : ℝ) ^ j < ((2 : ℕ) : ℝ) ^ (j + 23 + 1) := by
        push_cast
        rw [show j + 23 + 1 = 24 + j by ring, zpow_add₀ (by norm_num : (2 : ℝ) ≠ 0)]
        apply mul_lt_mul_of_pos_right _ (by positivity)
        have : (z : ℝ) < 16777216 := by exact_mod_cast h2
        norm_num; exact this
      have := (Int.lt_zpow_iff_log_lt (b := 2) (by norm_num) hx).mp this
      omega
    · apply (Int.zpow_le_iff_le_log (b := 2) (by norm_num) hx).mp
      push_cast
      rw [show j + 23 = 23 + j by ring, zpow_add₀ (by norm_num : (2 : ℝ) ≠ 0)]
      apply mul_le_mul_of_nonneg_right _ (by positivity)
      have : (8388608 : ℝ) ≤ (z : ℝ) := by exact_mod_cast h1
      norm_num; exact this
  unfold rneAbs ulp32
  rw [hlog, show j + 23 - 23 = j by ring]
  have : (z : ℝ) * (2 : ℝ) ^ j / (2 : ℝ) ^ j = (z : ℝ) := by field_simp
  rw [this, rhe_intCast]

/-- **(B2)** every natural number up to `2²⁴` is a binary32 number: `k as f32` and roundings of such values are exact -/
theorem rne32_natCast (k : Nat) (hk : k ≤ 2 ^ 24) : rne32 (k : ℝ) = k := by
  rcases Nat.eq_zero_or_pos k with h0 | hpos
  · subst h0; simp [rne32]
  have hk0 : (0 : ℝ) < (k : ℝ) := by exact_mod_cast hpos
  unfold rne32
  simp only [hk0, if_true]
  rcases Nat.lt_or_ge k (2 ^ 24) with hlt | hge
  · -- e = ⌊log₂ k⌋ ≤ 23, k = (k·2^(23−e))·2^(e−23)
    have he1 : 2 ^ Nat.log 2 k ≤ k := Nat.pow_log_le_self 2 (by omega)
    have he2 : k < 2 ^ (Nat.log 2 k + 1) := Nat.lt_pow_succ_log_self (by norm_num) k
    have he : Nat.log 2 k ≤ 23 := by
      by_contra hcon
      have : 2 ^ 24 ≤ 2 ^ Nat.log 2 k := Nat.pow_le_pow_right (by norm_num) (by omega)
      omega
    obtain ⟨d, hd⟩ : ∃ d, Nat.log 2 k + d = 23 := ⟨23 - Nat.log 2 k, by omega⟩
    have hz1 : 8388608 ≤ ((k * 2 ^ d : Nat) : ℤ) := by
      have : 2 ^ Nat.log 2 k * 2 ^ d ≤ k * 2 ^ d := Nat.mul_le_mul_right _ he1
      rw [← Nat.pow_add, hd] at this
      exact_mod_cast this
    have hz2 : ((k * 2 ^ d : Nat) : ℤ) < 16777216 := by
      have : k * 2 ^ d < 2 ^ (Nat.log 2 k + 1) * 2 ^ d := Nat.mul_lt_mul_of_pos_right he2 (by positivity)
      rw [← Nat.pow_add, show Nat.log 2 k + 1 + d = 24 by omega] at this
      exact_mod_cast this
    have key := rneAbs_of_scaled ((k * 2 ^ d : Nat) : ℤ) (-(d : ℤ)) hz1 hz2
    have e : (((k * 2 ^ d : Nat) : ℤ) : ℝ) * (2 : ℝ) ^ (-(d : ℤ)) = (k : ℝ) := by
      push_cast
      rw [zpow_neg, zpow_natCast]
      field_simp
    rw [e] at key
    exact key
  · have : k = 2 ^ 24 := le_antisymm hk hge
    subst this
    have key := rneAbs_of_scaled 8388608 1 (by norm_num) (by norm_num)
    have e : ((8388608 : ℤ) : ℝ) * (2 : ℝ) ^ (1 : ℤ) = ((2 ^ 24 : Nat) : ℝ) := by norm_num
    rw [e] at key
    exact key

/-! ### values that are not representable: the rounded literal -/

theorem intLog_eq (x : ℝ) (hx : 0 < x) (e : ℤ) (h1 : (2 : ℝ) ^ e ≤ x) (h2 : x < (2 : ℝ) ^ (e + 1)) : Int.log 2 x = e := by
  apply le_antisymm
  · have := (Int.lt_zpow_iff_log_lt (b := 2) (by norm_num) hx).mp (by push_cast; exact h2)
    omega
  · exact (Int.zpow_le_iff_le_log (b := 2) (by norm_num) hx).mp (by push_cast; exact h1)

theorem rhe_of_near (t : ℝ) (z : ℤ) (h : |t - z| < 1 / 2) : rhe t = z := by
  rw [abs_lt] at h
  rcases le_or_gt (z : ℝ) t with hge | hlt
  · have hf : ⌊t⌋ = z := Int.floor_eq_iff.mpr ⟨hge, by linarith⟩
    unfold rhe
    rw [hf]
    rw [if_pos h.2]
  · have hf : ⌊t⌋ = z - 1 := Int.floor_eq_iff.mpr ⟨by push_cast; linarith, by push_cast; linarith⟩
    unfold rhe
    rw [hf]
    have h1 : ¬ (t - ((z - 1 : ℤ) : ℝ) < 1 / 2) := by push_cast; linarith
    have h2 : 1 / 2 < t - ((z - 1 : ℤ) : ℝ) := by push_cast; linarith
    simp only [h1, h2, if_false, if_true]
    omega

/-- the rounding of `x` in binade `e` is the multiple `z·2^(e−23)` of the spacing that is closer than half a spacing -/
theorem rneAbs_eq_of_near (x : ℝ) (e z : ℤ) (h1 : (2 : ℝ) ^ e ≤ x) (h2 : x < (2 : ℝ) ^ (e + 1))
    (hz : |x - (z : ℝ) * (2 : ℝ) ^ (e - 23)| < (2 : ℝ) ^ (e - 23) / 2) : rneAbs x = (z : ℝ) * (2 : ℝ) ^ (e - 23) := by
  have hx : 0 < x := lt_of_lt_of_le (by positivity) h1
  have hq : (0 : ℝ) < (2 : ℝ) ^ (e - 23) := by positivity
  unfold rneAbs ulp32
  rw [intLog_eq x hx e h1 h2]
  congr 1
  norm_cast
  apply rhe_of_near
  have e1 : x / (2 : ℝ) ^ (e - 23) - (z : ℝ) = (x - (z : ℝ) * (2 : ℝ) ^ (e - 23)) / (2 : ℝ) ^ (e - 23) := by
    field_simp
  rw [e1, abs_div, abs_of_pos hq, div_lt_iff₀ hq]
  linarith

/-- **(C)** `0.999f32` (the correctly rounded literal) is `16760439 / 2²⁴` -/
theorem rne32_c999 : rne32 (999 / 1000) = c999 := by
  have h := rneAbs_eq_of_near (999 / 1000) (-1) 16760439 (by norm_num) (by norm_num)
    (by rw [abs_lt]; constructor <;> norm_num)
  unfold rne32 c999
  rw [if_pos (by norm_num), h]; norm_num

/-- **(C)** `1.001f32` is `8396997 / 2²³` -/
theorem rne32_c1001 : rne32 (1001 / 1000) = c1001 := by
  have h := rneAbs_eq_of_near (1001 / 1000) 0 8396997 (by norm_num) (by norm_num)
    (by rw [abs_lt]; constructor <;> norm_num)
  unfold rne32 c1001
  rw [if_pos (by norm_num), h]; norm_num

/-- `core::f32::consts::LOG10_2` as a real number (bit pattern `0x3E9A209B`) -/
noncomputable def log10_2_f32 : ℝ := 10100891 / 33554432

/-- **(C)** the literal `0.301029995663981195213738894724493027_f32` of `core::f32::consts::LOG10_2` rounds to
    `10100891 / 2²⁵` -/
theorem rne32_log10_2 : rne32 (301029995663981195213738894724493027 / 1000000000000000000000000000000000000) = log10_2_f32 := by
  have h := rneAbs_eq_of_near (301029995663981195213738894724493027 / 1000000000000000000000000000000000000) (-2) 10100891
    (by norm_num) (by norm_num) (by rw [abs_lt]; constructor <;> norm_num)
  unfold rne32 log10_2_f32
  rw [if_pos (by norm_num), h]; norm_num

/-- **(C)** the rounded constant is on the safe side: `log₁₀ 2 ≤ LOG10_2` (through `2^13301 ≤ 10^4004`) -/
theorem logb_10_2_le : Real.logb 10 2 ≤ log10_2_f32 := by
  have hnat : (2 : ℕ) ^ 13301 ≤ 10 ^ 4004 := by decide +kernel
  have hreal : (2 : ℝ) ^ (13301 : ℕ) ≤ (10 : ℝ) ^ (4004 : ℕ) := by exact_mod_cast hnat
  have hlog := Real.log_le_log (by positivity) hreal
  rw [Real.log_pow, Real.log_pow] at hlog
  have h10 : (0 : ℝ) < Real.log 10 := Real.log_pos (by norm_num)
  have : Real.logb 10 2 ≤ 4004 / 13301 := by
    unfold Real.logb
    rw [div_le_div_iff₀ h10 (by norm_num)]
    push_cast at hlog
    linarith
  unfold log10_2_f32
  linarith [show (4004 : ℝ) / 13301 ≤ 10100891 / 33554432 by norm_num]

/-- **(C)** `1. − 2·f32::EPSILON` and `1. + 2·f32::EPSILON` (the ADJUST factors of `log2_bounds_large`) are binary32
    numbers: the subtraction / addition that builds them is exact -/
theorem rne32_adjust : rne32 (1 - 4 * u32) = 1 - 4 * u32 ∧ rne32 (1 + 4 * u32) = 1 + 4 * u32 := by
  have a := rneAbs_of_scaled 16777212 (-24) (by norm_num) (by norm_num)
  have b := rneAbs_of_scaled 8388610 (-23) (by norm_num) (by norm_num)
  have ea : ((16777212 : ℤ) : ℝ) * (2 : ℝ) ^ (-24 : ℤ) = 1 - 4 * u32 := by unfold u32; norm_num
  have eb : ((8388610 : ℤ) : ℝ) * (2 : ℝ) ^ (-23 : ℤ) = 1 + 4 * u32 := by unfold u32; norm_num
  rw [ea] at a; rw [eb] at b
  unfold rne32
  constructor
  · rw [if_pos (by unfold u32; norm_num)]; exact a
  · rw [if_pos (by unfold u32; norm_num)]; exact b

/-! ### the exponent range of binary32 is not left -/

/-- for `2⁻¹²⁶ ≤ x ≤ 2¹²⁷` the result is a NORMAL finite binary32 number (no underflow to subnormals, no overflow), so
    `rne32` with its unbounded exponent is the IEEE operation there -/
theorem rne32_in_normal_range (x : ℝ) (h1 : (2 : ℝ) ^ (-126 : ℤ) ≤ x) (h2 : x ≤ (2 : ℝ) ^ (127 : ℤ)) :
    (2 : ℝ) ^ (-126 : ℤ) ≤ rne32 x ∧ rne32 x ≤ (2 : ℝ) ^ (127 : ℤ) := by
  have hx : 0 < x := lt_of_lt_of_le (by positivity) h1
  have a := rneAbs_of_scaled 8388608 (-149) (by norm_num) (by norm_num)
  have b := rneAbs_of_scaled 8388608 104 (by norm_num) (by norm_num)
  have ea : ((8388608 : ℤ) : ℝ) * (2 : ℝ) ^ (-149 : ℤ) = (2 : ℝ) ^ (-126 : ℤ) := by
    rw [show ((8388608 : ℤ) : ℝ) = (2 : ℝ) ^ (23 : ℤ) by norm_num, ← zpow_add₀ (by norm_num : (2 : ℝ) ≠ 0)]; norm_num
  have eb : ((8388608 : ℤ) : ℝ) * (2 : ℝ) ^ (104 : ℤ) = (2 : ℝ) ^ (127 : ℤ) := by
    rw [show ((8388608 : ℤ) : ℝ) = (2 : ℝ) ^ (23 : ℤ) by norm_num, ← zpow_add₀ (by norm_num : (2 : ℝ) ≠ 0)]; norm_num
  rw [ea] at a; rw [eb] at b
  unfold rne32
  rw [if_pos hx]
  constructor
  · rw [← a]; exact rneAbs_mono _ _ (by positivity) h1
  · rw [← b]; exact rneAbs_mono _ _ hx h2

/-! ### (G): the grid fact used by `ub_wide` -/

/-- `f32::next_up` of a positive binary32 number -/
noncomputable def nextUp32 (x : ℝ) : ℝ := x + ulp32 x

theorem rneAbs_abs_err (x : ℝ) (hx : 0 < x) : |rneAbs x - x| ≤ ulp32 x / 2 := by
  have hq := ulp32_pos x
  have h := rhe_err (x / ulp32 x)
  have e : rneAbs x - x = ((rhe (x / ulp32 x) : ℝ) - x / ulp32 x) * ulp32 x := by
    unfold rneAbs; rw [sub_mul]; congr 1; field_simp
  rw [e, abs_mul, abs_of_pos hq]
  calc |(rhe (x / ulp32 x) : ℝ) - x / ulp32 x| * ulp32 x ≤ 1 / 2 * ulp32 x := mul_le_mul_of_nonneg_right h (le_of_lt hq)
    _ = ulp32 x / 2 := by ring

theorem ulp32_mono (x y : ℝ) (hx : 0 < x) (hxy : x ≤ y) : ulp32 x ≤ ulp32 y := by
  unfold ulp32
  apply zpow_le_zpow_right₀ (by norm_num)
  have := Int.log_mono_right (b := 2) hx hxy
  omega

/-- **(G)** `est` a binary32 number in `[16, 32)` (the value of `log2f` on a 24-bit operand lies in `(23, 24]`), `s` a
    shift count: `next_up(fl(est + s)) ≥ next_up(est) + s`.  Below 32 the sum is exact and on the same grid; from 32 on
    the spacing at least doubles, so the half spacing lost by the rounding is returned by `next_up`. -/
theorem grid_fact (z : ℤ) (s : Nat) (h1 : 8388608 ≤ z) (h2 : z < 16777216) :
    nextUp32 ((z : ℝ) * (2 : ℝ) ^ (-19 : ℤ)) + s ≤ nextUp32 (rne32 ((z : ℝ) * (2 : ℝ) ^ (-19 : ℤ) + s)) := by
  set est := (z : ℝ) * (2 : ℝ) ^ (-19 : ℤ) with hest
  have hz1 : (8388608 : ℝ) ≤ (z : ℝ) := by exact_mod_cast h1
  have hz2 : (z : ℝ) < 16777216 := by exact_mod_cast h2
  have hp19 : (2 : ℝ) ^ (-19 : ℤ) = 1 / 524288 := by norm_num
  have he1 : (16 : ℝ) ≤ est := by rw [hest, hp19]; linarith
  have he2 : est < 32 := by rw [hest, hp19]; linarith
  have hs0 : (0 : ℝ) ≤ (s : ℝ) := Nat.cast_nonneg s
  have hy : 0 < est + s := by linarith
  have hlogest : Int.log 2 est = 4 := intLog_eq est (by linarith) 4 (by norm_num; linarith) (by norm_num; linarith)
  have hulpest : ulp32 est = (2 : ℝ) ^ (-19 : ℤ) := by unfold ulp32; rw [hlogest]; norm_num
  have hr : rne32 (est + s) = rneAbs (est + s) := by unfold rne32; rw [if_pos hy]
  rw [hr]
  unfold nextUp32
  rw [hulpest]
  rcases lt_or_ge (est + (s : ℝ)) 32 with hlt | hge
  · -- exact sum on the same grid
    have hs' : (s : ℝ) < 16 := by linarith
    have hsn : s < 16 := by exact_mod_cast hs'
    have key := rneAbs_of_scaled (z + (s : ℤ) * 524288) (-19)
      (by have : (0 : ℤ) ≤ (s : ℤ) := Int.natCast_nonneg s; nlinarith)
      (by
        have : ((z + (s : ℤ) * 524288 : ℤ) : ℝ) < 16777216 := by
          push_cast
          have : est + (s : ℝ) = ((z : ℝ) + (s : ℝ) * 524288) / 524288 := by rw [hest, hp19]; ring
          rw [this, div_lt_iff₀ (by norm_num)] at hlt
          linarith
        exact_mod_cast this)
    have e : ((z + (s : ℤ) * 524288 : ℤ) : ℝ) * (2 : ℝ) ^ (-19 : ℤ) = est + s := by
      push_cast; rw [hest, hp19]; ring
    rw [e] at key
    rw [key]
    have hlog : Int.log 2 (est + (s : ℝ)) = 4 := intLog_eq _ hy 4 (by norm_num; linarith) (by norm_num; linarith)
    have : ulp32 (est + s) = (2 : ℝ) ^ (-19 : ℤ) := by unfold ulp32; rw [hlog]; norm_num
    rw [this]
    linarith
  · -- the spacing is at least 2⁻¹⁸
    have hlog5 : 5 ≤ Int.log 2 (est + (s : ℝ)) :=
      (Int.zpow_le_iff_le_log (b := 2) (by norm_num) hy).mp (by push_cast; norm_num; linarith)
    have hu : (2 : ℝ) ^ (-18 : ℤ) ≤ ulp32 (est + s) := by
      unfold ulp32; apply zpow_le_zpow_right₀ (by norm_num); omega
    have herr := (abs_le.mp (rneAbs_abs_err (est + s) hy)).1
    have hlow : (2 : ℝ) ^ (Int.log 2 (est + (s : ℝ))) ≤ rneAbs (est + s) := (rneAbs_binade _ hy).1
    have hpos : 0 < (2 : ℝ) ^ (Int.log 2 (est + (s : ℝ))) := by positivity
    have hm : ulp32 (est + s) ≤ ulp32 (rneAbs (est + s)) := by
      -- log₂ of the result is at least the binade exponent of the argument
      unfold ulp32
      apply zpow_le_zpow_right₀ (by norm_num)
      have := (Int.zpow_le_iff_le_log (b := 2) (by norm_num) (lt_of_lt_of_le hpos hlow)).mp (by push_cast; exact hlow)
      omega
    have h18 : (2 : ℝ) ^ (-18 : ℤ) = 2 * (2 : ℝ) ^ (-19 : ℤ) := by norm_num
    linarith

end Dashu.Model.Float
