import Dashu.Proofs.Float.AddFar
/-
  C03: `Context::repr_round_sum` with a real low part — the re-alignment (shrink / pad) always ends in
  one rounding of the exact value `signif·B^lk + low`, and the contract holds as soon as the rounded
  significand keeps enough digits (the guard-digit hypothesis `hguard`, which is what fails for
  operands longer than the precision).
-/
namespace Dashu.Model.Float
open Dashu Dashu.Props.GenRound

theorem natpow_pos (B : Nat) (hB : 0 < B) (k : Nat) : (0 : Int) < ((B ^ k : Nat) : Int) := by
  have : 0 < B ^ k := Nat.pow_pos hB
  exact_mod_cast this

theorem natpow_add (B a b : Nat) : ((B ^ (a + b) : Nat) : Int) = ((B ^ a : Nat) : Int) * ((B ^ b : Nat) : Int) := by
  rw [Nat.pow_add]; push_cast; ring

/-- value of `X · B^(e − lk)` re-split at `k'` digits: `X = hi·B^k' + lo` -/
theorem value_resplit (B : Nat) (hB : 0 < B) (X hi lo : Int) (k' lk : Nat) (e e' : Int)
    (hX : X = hi * ((B ^ k' : Nat) : Int) + lo) (he : e' + lk = e + k') :
    ((hi * ((B ^ k' : Nat) : Int) + lo : Int) : ℚ) * bpowQ B (e' - k') = (X : ℚ) * bpowQ B (e - lk) := by
  rw [← hX]
  congr 2
  omega

set_option maxHeartbeats 1000000 in
/-- `repr_round_sum(signif, exp, (low, lk), is_sub)` honours the contract for the exact value
    `(signif·B^lk + low)·B^(exp − lk)`, provided
    * `|low| < B^lk`, `signif ≠ 0`;
    * for an addition (`is_sub = false`) the low part has the sign of the significand (or is zero);
    * `hguard`: for a subtraction that cancelled leading digits and cannot be padded back completely, the
      exact value still has `p` digits above the final rounding position. -/
theorem reprRoundSum_contract (B : Nat) (hB : 2 ≤ B) (m : Mode) (c : Coarse) (hc : CoarseSound c)
    (p : Nat) (hp : 1 ≤ p) (s e lv : Int) (lk : Nat) (isSub : Bool)
    (hA : |lv| < ((B ^ lk : Nat) : Int)) (hs0 : s ≠ 0)
    (hsign : isSub = false → (0 ≤ s → 0 ≤ lv) ∧ (s ≤ 0 → lv ≤ 0))
    (hguard : isSub = true → digitsI B s < p + 1 → p + 1 - digitsI B s < lk →
      ((B ^ (lk - (p + 1 - digitsI B s)) : Nat) : Int) * ((B ^ (p - 1) : Nat) : Int) ≤
        |s * ((B ^ lk : Nat) : Int) + lv|) :
    Contract B m p (((s * ((B ^ lk : Nat) : Int) + lv : Int) : ℚ) * bpowQ B (e - lk))
      ((reprRoundSum B m c p s e (lv, lk) isSub).1.toRat B) (reprRoundSum B m c p s e (lv, lk) isSub).2 := by
  have hB0 : 0 < B := by omega
  have hp0 : p ≠ 0 := by omega
  have hAl := abs_lt.mp hA
  obtain ⟨hdpos, hslo, hshi⟩ := digitsI_spec B hB s hs0
  have hDk := natpow_pos B hB0 lk
  unfold reprRoundSum
  try simp only [shlDigits_eq, shrDigits_eq]
  simp only [hp0, if_false]
  generalize hrnd : p + (if isSub = true then 1 else 0) = rndP at *
  have hrp : p ≤ rndP := by rw [← hrnd]; omega
  have hrp1 : isSub = true → rndP = p + 1 := by intro h; rw [← hrnd, h]; simp
  have hrp0 : isSub = false → rndP = p := by intro h; rw [← hrnd, h]; simp
  -- lower bound of |X| when the low part has the significand's sign
  have same_sign_bound : ∀ (hi lo D : Int), 0 < D → ((0 ≤ hi → 0 ≤ lo) ∧ (hi ≤ 0 → lo ≤ 0)) →
      |hi| * D ≤ |hi * D + lo| := by
    intro hi lo D hD hsg
    rcases le_total 0 hi with h | h
    · have := hsg.1 h
      have h2 : 0 ≤ hi * D := Int.mul_nonneg h (le_of_lt hD)
      rw [abs_of_nonneg h, abs_of_nonneg (by omega)]; omega
    · have := hsg.2 h
      have h2 : hi * D ≤ 0 := Int.mul_nonpos_of_nonpos_of_nonneg h (le_of_lt hD)
      rw [abs_of_nonpos h, abs_of_nonpos (by omega)]
      have : -hi * D = -(hi * D) := by ring
      omega
  -- lower bound of |X| with one guard digit: |hi| ≥ B^p, |lo| < D
  have guard_bound : ∀ (hi lo D : Int), 0 < D → |lo| < D → ((B ^ p : Nat) : Int) ≤ |hi| →
      D * ((B ^ (p - 1) : Nat) : Int) ≤ |hi * D + lo| := by
    intro hi lo D hD hlo hhi
    have h1 : |hi * D| - |lo| ≤ |hi * D + lo| := by
      have := abs_sub_abs_le_abs_sub (hi * D) (-lo)
      simpa using this
    rw [abs_mul, abs_of_pos hD] at h1
    have hpp : ((B ^ p : Nat) : Int) = ((B ^ (p - 1) : Nat) : Int) * (B : Int) := by
      have : B ^ p = B ^ (p - 1) * B := by rw [← Nat.pow_succ]; congr 1; omega
      rw [this]; push_cast; ring
    have hpm := natpow_pos B hB0 (p - 1)
    have hB2 : (2 : Int) ≤ (B : Int) := by exact_mod_cast hB
    have h6 : ((B ^ p : Nat) : Int) * D ≤ |hi| * D := Int.mul_le_mul_of_nonneg_right hhi (le_of_lt hD)
    have h7 : ((B ^ (p - 1) : Nat) : Int) * 2 ≤ ((B ^ (p - 1) : Nat) : Int) * (B : Int) :=
      Int.mul_le_mul_of_nonneg_left hB2 (le_of_lt hpm)
    have h8 := Int.mul_le_mul_of_nonneg_right h7 (le_of_lt hD)
    have h9 : 1 * D ≤ ((B ^ (p - 1) : Nat) : Int) * D := Int.mul_le_mul_of_nonneg_right (by omega) (le_of_lt hD)
    have e1 : (((B ^ (p - 1) : Nat) : Int) * 2) * D = 2 * (D * ((B ^ (p - 1) : Nat) : Int)) := by ring
    have e2 : ((B ^ (p - 1) : Nat) : Int) * D = D * ((B ^ (p - 1) : Nat) : Int) := by ring
    rw [hpp] at h6
    omega
  by_cases h1 : digitsI B s = rndP
  · -- no re-alignment
    simp only [h1, if_true]
    by_cases hl0 : lv = 0
    · simp only [hl0, if_true]
      rw [FRepr.new_value B hB0]
      have : ((s * ((B ^ lk : Nat) : Int) + 0 : Int) : ℚ) * bpowQ B (e - lk) = (s : ℚ) * bpowQ B e := by
        have : bpowQ B e = ((B ^ lk : Nat) : ℚ) * bpowQ B (e - lk) := by
          rw [← bpowQ_nat, ← bpowQ_add B hB0]; congr 1; ring
        rw [this]; push_cast; ring
      rw [this]
      exact contract_exact B m p _
    · simp only [hl0, if_false]
      have hulp : ((B ^ lk : Nat) : Int) * ((B ^ (p - 1) : Nat) : Int) ≤ |s * ((B ^ lk : Nat) : Int) + lv| := by
        by_cases hsub : isSub = true
        · apply guard_bound s lv _ hDk hA
          have : digitsI B s - 1 = p := by rw [h1, hrp1 hsub]; omega
          rw [this] at hslo; exact hslo
        · have hsub' : isSub = false := by simpa using hsub
          have h2 := same_sign_bound s lv _ hDk (hsign hsub')
          have : digitsI B s - 1 = p - 1 := by rw [h1, hrp0 hsub']
          rw [this] at hslo
          have h3 := Int.mul_le_mul_of_nonneg_right hslo (le_of_lt hDk)
          have e2 : ((B ^ (p - 1) : Nat) : Int) * ((B ^ lk : Nat) : Int) =
              ((B ^ lk : Nat) : Int) * ((B ^ (p - 1) : Nat) : Int) := by ring
          omega
      have key := round_at_contract B hB m c hc p hp s lv lk (e - lk) hl0 hA hulp
      have : e - (lk : Int) + (lk : Int) = e := by ring
      rw [this] at key
      exact key
  · simp only [h1, if_false]
    by_cases h2 : digitsI B s > rndP
    · -- shrink: more digits than rnd_precision
      simp only [h2, if_true]
      obtain ⟨hsplit, hlt, hpos, hneg⟩ := splitDigits_spec B hB s (digitsI B s - rndP)
      generalize hsh : digitsI B s - rndP = sh at *
      generalize splitDigits B s sh = hl at *
      have hDs := natpow_pos B hB0 sh
      have hlt' := abs_lt.mp hlt
      -- X = hi·B^(lk+sh) + (lv + lo·B^lk)
      have hX : s * ((B ^ lk : Nat) : Int) + lv =
          hl.1 * ((B ^ (lk + sh) : Nat) : Int) + (lv + hl.2 * ((B ^ lk : Nat) : Int)) := by
        rw [natpow_add]; conv_lhs => rw [hsplit]
        ring
      have hlow : |lv + hl.2 * ((B ^ lk : Nat) : Int)| < ((B ^ (lk + sh) : Nat) : Int) := by
        rw [natpow_add, abs_lt]
        have h3 : (hl.2 + 1) * ((B ^ lk : Nat) : Int) ≤ ((B ^ sh : Nat) : Int) * ((B ^ lk : Nat) : Int) :=
          Int.mul_le_mul_of_nonneg_right (by omega) (le_of_lt hDk)
        have h4 : (-((B ^ sh : Nat) : Int)) * ((B ^ lk : Nat) : Int) ≤ (hl.2 - 1) * ((B ^ lk : Nat) : Int) :=
          Int.mul_le_mul_of_nonneg_right (by omega) (le_of_lt hDk)
        have e3 : (hl.2 + 1) * ((B ^ lk : Nat) : Int) = hl.2 * ((B ^ lk : Nat) : Int) + ((B ^ lk : Nat) : Int) := by ring
        have e4 : (hl.2 - 1) * ((B ^ lk : Nat) : Int) = hl.2 * ((B ^ lk : Nat) : Int) - ((B ^ lk : Nat) : Int) := by ring
        have e5 : (-((B ^ sh : Nat) : Int)) * ((B ^ lk : Nat) : Int) = -(((B ^ lk : Nat) : Int) * ((B ^ sh : Nat) : Int)) := by ring
        have e6 : ((B ^ sh : Nat) : Int) * ((B ^ lk : Nat) : Int) = ((B ^ lk : Nat) : Int) * ((B ^ sh : Nat) : Int) := by ring
        constructor <;> omega
      -- |hi| ≥ B^(rndP-1)
      have hhi : ((B ^ (rndP - 1) : Nat) : Int) ≤ |hl.1| := by
        have hd : digitsI B s - 1 = (rndP - 1) + sh := by omega
        rw [hd, natpow_add] at hslo
        -- |s| < (|hi| + 1)·B^sh
        have h5 : |s| < (|hl.1| + 1) * ((B ^ sh : Nat) : Int) := by
          have e7 : (|hl.1| + 1) * ((B ^ sh : Nat) : Int) = |hl.1| * ((B ^ sh : Nat) : Int) + ((B ^ sh : Nat) : Int) := by ring
          rw [e7]
          rcases le_total 0 s with hs | hs
          · have := hpos hs
            rw [abs_of_nonneg hs, abs_of_nonneg this.2]; omega
          · have := hneg hs
            rw [abs_of_nonpos hs, abs_of_nonpos this.2]
            have : -hl.1 * ((B ^ sh : Nat) : Int) = -(hl.1 * ((B ^ sh : Nat) : Int)) := by ring
            omega
        have h6 := lt_of_le_of_lt hslo h5
        have h7 := lt_of_mul_lt_mul_right h6 (le_of_lt hDs)
        omega
      by_cases hl0 : lv + hl.2 * ((B ^ lk : Nat) : Int) = 0
      · simp only [hl0, if_true]
        rw [FRepr.new_value B hB0, hX, hl0, add_zero]
        have : ((hl.1 * ((B ^ (lk + sh) : Nat) : Int) : Int) : ℚ) * bpowQ B (e - lk) = (hl.1 : ℚ) * bpowQ B (e + sh) := by
          have : bpowQ B (e + sh) = ((B ^ (lk + sh) : Nat) : ℚ) * bpowQ B (e - lk) := by
            rw [← bpowQ_nat, ← bpowQ_add B hB0]; congr 1; push_cast; ring
          rw [this]; push_cast; ring
        rw [this]
        exact contract_exact B m p _
      · simp only [hl0, if_false]
        have hulp : ((B ^ (lk + sh) : Nat) : Int) * ((B ^ (p - 1) : Nat) : Int) ≤
            |hl.1 * ((B ^ (lk + sh) : Nat) : Int) + (lv + hl.2 * ((B ^ lk : Nat) : Int))| := by
          by_cases hsub : isSub = true
          · apply guard_bound _ _ _ (natpow_pos B hB0 _) hlow
            have : rndP - 1 = p := by rw [hrp1 hsub]; omega
            rw [this] at hhi; exact hhi
          · have hsub' : isSub = false := by simpa using hsub
            have hsg := hsign hsub'
            have h2' := same_sign_bound hl.1 (lv + hl.2 * ((B ^ lk : Nat) : Int)) _ (natpow_pos B hB0 (lk + sh))
              (by
                constructor
                · intro hh
                  have hs : 0 ≤ s := by
                    by_contra hc
                    have := hneg (by omega)
                    have h8 : hl.1 = 0 := by omega
                    have hh0 : |hl.1| = 0 := by rw [h8]; simp
                    rw [hh0] at hhi
                    have := natpow_pos B hB0 (rndP - 1)
                    omega
                  have hp2 := hpos hs
                  have hs1 := hsg.1 hs
                  have : 0 ≤ hl.2 * ((B ^ lk : Nat) : Int) := Int.mul_nonneg hp2.1 (le_of_lt hDk)
                  omega
                · intro hh
                  have hs : s ≤ 0 := by
                    by_contra hc
                    have := hpos (by omega)
                    have h8 : hl.1 = 0 := by omega
                    have hh0 : |hl.1| = 0 := by rw [h8]; simp
                    rw [hh0] at hhi
                    have := natpow_pos B hB0 (rndP - 1)
                    omega
                  have hn2 := hneg hs
                  have hs2 := hsg.2 hs
                  have : hl.2 * ((B ^ lk : Nat) : Int) ≤ 0 := Int.mul_nonpos_of_nonpos_of_nonneg hn2.1 (le_of_lt hDk)
                  omega)
            have : rndP - 1 = p - 1 := by rw [hrp0 hsub']
            rw [this] at hhi
            have h3 := Int.mul_le_mul_of_nonneg_right hhi (le_of_lt (natpow_pos B hB0 (lk + sh)))
            have e2 : ((B ^ (p - 1) : Nat) : Int) * ((B ^ (lk + sh) : Nat) : Int) =
                ((B ^ (lk + sh) : Nat) : Int) * ((B ^ (p - 1) : Nat) : Int) := by ring
            omega
        have key := round_at_contract B hB m c hc p hp hl.1 _ (lk + sh) (e - lk) hl0 hlow hulp
        rw [← hX] at key
        have : e - (lk : Int) + ((lk + sh : Nat) : Int) = e + sh := by push_cast; ring
        rw [this] at key
        exact key
    · -- pad: fewer digits than rnd_precision
      simp only [h2, if_false]
      by_cases hl0 : lv = 0
      · simp only [hl0, ne_eq, not_true_eq_false, if_false, if_true]
        rw [FRepr.new_value B hB0]
        have : ((s * ((B ^ lk : Nat) : Int) + 0 : Int) : ℚ) * bpowQ B (e - lk) = (s : ℚ) * bpowQ B e := by
          have : bpowQ B e = ((B ^ lk : Nat) : ℚ) * bpowQ B (e - lk) := by
            rw [← bpowQ_nat, ← bpowQ_add B hB0]; congr 1; ring
          rw [this]; push_cast; ring
        rw [this]
        exact contract_exact B m p _
      · simp only [hl0, ne_eq, not_false_eq_true, if_true]
        generalize hshift : min lk (rndP - digitsI B s) = sh at *
        have hshle : sh ≤ lk := by rw [← hshift]; omega
        obtain ⟨hsplit, hlt, hpos, hneg⟩ := splitDigits_spec B hB lv (lk - sh)
        generalize splitDigits B lv (lk - sh) = pl at *
        have hDs := natpow_pos B hB0 sh
        have hDr := natpow_pos B hB0 (lk - sh)
        have hlksplit : ((B ^ lk : Nat) : Int) = ((B ^ sh : Nat) : Int) * ((B ^ (lk - sh) : Nat) : Int) := by
          rw [← natpow_add]; congr 2; omega
        -- X = (s·B^sh + pad)·B^(lk-sh) + rest
        have hX : s * ((B ^ lk : Nat) : Int) + lv =
            (s * ((B ^ sh : Nat) : Int) + pl.1) * ((B ^ (lk - sh) : Nat) : Int) + pl.2 := by
          rw [hlksplit]; conv_lhs => rw [hsplit]
          ring
        by_cases hr0 : pl.2 = 0
        · simp only [hr0, if_true]
          rw [FRepr.new_value B hB0, hX, hr0, add_zero]
          have : (((s * ((B ^ sh : Nat) : Int) + pl.1) * ((B ^ (lk - sh) : Nat) : Int) : Int) : ℚ) * bpowQ B (e - lk) =
              ((s * ((B ^ sh : Nat) : Int) + pl.1 : Int) : ℚ) * bpowQ B (e - sh) := by
            have : bpowQ B (e - sh) = ((B ^ (lk - sh) : Nat) : ℚ) * bpowQ B (e - lk) := by
              rw [← bpowQ_nat, ← bpowQ_add B hB0]; congr 1
              have : ((lk - sh : Nat) : Int) = (lk : Int) - sh := by omega
              rw [this]; ring
            rw [this]; push_cast; ring
          rw [this]
          exact contract_exact B m p _
        · simp only [hr0, if_false]
          -- a rest remains: sh = rndP - d < lk
          have hsheq : sh = rndP - digitsI B s := by
            by_contra hne
            have : sh = lk := by rw [← hshift] at hne ⊢; omega
            rw [this] at hsplit hlt
            simp at hlt
            omega
          have hshlt : sh < lk := by
            by_contra hge
            have : lk - sh = 0 := by omega
            rw [this] at hlt; simp at hlt; omega
          have hulp : ((B ^ (lk - sh) : Nat) : Int) * ((B ^ (p - 1) : Nat) : Int) ≤
              |(s * ((B ^ sh : Nat) : Int) + pl.1) * ((B ^ (lk - sh) : Nat) : Int) + pl.2| := by
            by_cases hsub : isSub = true
            · have hg := hguard hsub (by rw [← hrp1 hsub]; omega) (by rw [← hrp1 hsub, ← hsheq]; exact hshlt)
              rw [← hrp1 hsub, ← hsheq] at hg
              rw [← hX]; exact hg
            · have hsub' : isSub = false := by simpa using hsub
              have hsg := hsign hsub'
              -- the padded significand has the sign of s and at least p digits
              have hsame : (0 ≤ s * ((B ^ sh : Nat) : Int) + pl.1 → 0 ≤ pl.2) ∧
                  (s * ((B ^ sh : Nat) : Int) + pl.1 ≤ 0 → pl.2 ≤ 0) := by
                constructor
                · intro hh
                  have hs : 0 ≤ s := by
                    by_contra hc
                    have hs' : s ≤ -1 := by omega
                    have := hsg.2 (by omega)
                    have := hneg this
                    have : s * ((B ^ sh : Nat) : Int) ≤ -1 * ((B ^ sh : Nat) : Int) :=
                      Int.mul_le_mul_of_nonneg_right hs' (le_of_lt hDs)
                    omega
                  exact (hpos (hsg.1 hs)).1
                · intro hh
                  have hs : s ≤ 0 := by
                    by_contra hc
                    have hs' : 1 ≤ s := by omega
                    have := hsg.1 (by omega)
                    have := hpos this
                    have : 1 * ((B ^ sh : Nat) : Int) ≤ s * ((B ^ sh : Nat) : Int) :=
                      Int.mul_le_mul_of_nonneg_right hs' (le_of_lt hDs)
                    omega
                  exact (hneg (hsg.2 hs)).1
              have h2' := same_sign_bound _ pl.2 _ hDr hsame
              have hpad : ((B ^ (p - 1) : Nat) : Int) ≤ |s * ((B ^ sh : Nat) : Int) + pl.1| := by
                have hd : p - 1 = (digitsI B s - 1) + sh := by have := hrp0 hsub'; omega
                rw [hd, natpow_add]
                have h3 := Int.mul_le_mul_of_nonneg_right hslo (le_of_lt hDs)
                rcases le_total 0 s with hs | hs
                · have := (hpos (hsg.1 hs)).2
                  have h4 : 0 ≤ s * ((B ^ sh : Nat) : Int) := Int.mul_nonneg hs (le_of_lt hDs)
                  rw [abs_of_nonneg hs] at h3
                  rw [abs_of_nonneg (by omega)]; omega
                · have := (hneg (hsg.2 hs)).2
                  have h4 : s * ((B ^ sh : Nat) : Int) ≤ 0 := Int.mul_nonpos_of_nonpos_of_nonneg hs (le_of_lt hDs)
                  rw [abs_of_nonpos hs] at h3
                  rw [abs_of_nonpos (by omega)]
                  have : -s * ((B ^ sh : Nat) : Int) = -(s * ((B ^ sh : Nat) : Int)) := by ring
                  omega
              have h3 := Int.mul_le_mul_of_nonneg_right hpad (le_of_lt hDr)
              have e2 : ((B ^ (p - 1) : Nat) : Int) * ((B ^ (lk - sh) : Nat) : Int) =
                  ((B ^ (lk - sh) : Nat) : Int) * ((B ^ (p - 1) : Nat) : Int) := by ring
              rw [← e2]
              exact le_trans h3 h2'
          have key := round_at_contract B hB m c hc p hp (s * ((B ^ sh : Nat) : Int) + pl.1) pl.2 (lk - sh) (e - lk)
            hr0 hlt hulp
          rw [← hX] at key
          have : e - (lk : Int) + ((lk - sh : Nat) : Int) = e - sh := by
            have : ((lk - sh : Nat) : Int) = (lk : Int) - sh := by omega
            rw [this]; ring
          rw [this] at key
          exact key

end Dashu.Model.Float
