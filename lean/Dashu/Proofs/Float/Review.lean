import Dashu.Proofs.Float.FBigOps
import Dashu.Proofs.Float.Arith
/-
  Statement-review additions (round 3): the flag of `FBig::to_int` tells the truth (inexact results are
  really inexact, `AddOne` / `SubOne` name the side), and the operator forms `a + b`, `a - b` agree with
  `Context::add` / `sub` (round 6, after fix 164990d: for all operands).
-/
namespace Dashu.Model.Float
open Dashu Dashu.Props.GenRound

/-- a normalised float with negative exponent has a non-zero fractional part: `s = hi·D + lo`, `lo ≠ 0` -/
theorem fract_part_ne_zero (B : Nat) (hB : 2 ≤ B) (s hi lo : Int) (k : Nat) (hk : 1 ≤ k)
    (hs : s = hi * ((B ^ k : Nat) : Int) + lo) (hn : s % (B : Int) ≠ 0) : lo ≠ 0 := by
  intro h0
  apply hn
  rw [hs, h0, add_zero]
  have : k = (k - 1) + 1 := by omega
  rw [this, Nat.pow_succ]; push_cast
  rw [← mul_assoc]
  exact Int.mul_emod_left _ _

/-- **`FBig::to_int` honours the integer-scaled contract**: for a normalised float with fractional digits the
    result `t` satisfies `IContract m D s (t·D) flag` with `D = B^(-exp)` — inexact indeed (`t·D ≠ s`), error below
    one (at most one half for the nearest modes), on the side the mode prescribes, and `AddOne` / `SubOne`
    tell on which side of `x` the result lies. -/
theorem fToInt_contract (B : Nat) (hB : 2 ≤ B) (m : Mode) (c : Coarse) (hc : CoarseSound c) (dub : Int → Nat)
    (hdub : DubSound B dub) (x : FBigM) (he : x.repr.exp < 0) (hn : x.repr.signif % (B : Int) ≠ 0) :
    IContract m (pointUnit B x.repr) x.repr.signif ((fToInt B m c dub x).1 * pointUnit B x.repr) (fToInt B m c dub x).2 := by
  have hne : ¬ x.repr.exp ≥ 0 := by omega
  obtain ⟨hk, hs, hlt⟩ := splitInternal_spec B hB dub hdub x he
  unfold fToInt
  try simp only [shlDigits_eq, shrDigits_eq]
  simp only [hne, if_false]
  generalize splitAtPointInternal B dub x = sp at *
  have hD := pointUnit_pos B hB x.repr
  have hk1 : 1 ≤ (-x.repr.exp).toNat := by omega
  have hlo0 : sp.2.1 ≠ 0 := fract_part_ne_zero B hB _ _ _ _ hk1 hs hn
  have hspec := roundFract_spec B (by omega) m c hc sp.1 sp.2.1 sp.2.2 hlo0 (by rw [hk]; exact hlt)
  rw [hk] at hspec ⊢
  have hfin := icontract_of_spec m sp.1 sp.2.1 (pointUnit B x.repr) hD hlo0 hlt _ hspec
  have hs' : x.repr.signif = sp.1 * pointUnit B x.repr + sp.2.1 := hs
  rw [← hs'] at hfin
  exact hfin

/-! ### operator forms of `+` / `-` (`add_val_val`, `add_val_ref`, `add_ref_val`, `add_ref_ref`) -/

/-- the four ownership forms of `FBig + FBig` / `FBig - FBig` at `Context::max` precision `p` (float/src/add.rs
    `add_val_val` / `add_val_ref` / `add_ref_val` / `add_ref_ref` as of fix 164990d): a zero operand returns the other
    one (sign applied for `0 - b`) ROUNDED to the result precision (`context.repr_round(..).value()`), otherwise the
    same alignment code as `Context::add` / `sub`; only the value is returned.
    (Before 164990d the zero-operand arms returned the other operand unrounded — finding C15/C05 "zero operand
    unrounded", now a `fixed:` line.) -/
def opAddSub (B : Nat) (m : Mode) (c : Coarse) (dub : Int → Nat) (p : Nat) (lhs rhs : FRepr) (rs : Int) : FRepr :=
  if lhs.isZero then (reprRound B m c p ⟨rs * rhs.signif, rhs.exp⟩).1
  else if rhs.isZero then (reprRound B m c p lhs).1
  else (ctxAddSub B m c dub p lhs rhs rs).1

/-- the operators return the value of the `Context` method — for ALL operands (the hypotheses `lhs.digits ≤ p`,
    `rhs.digits ≤ p` of rounds 3–5 were needed only because of the repaired defect and are gone) -/
theorem opAddSub_eq_ctx_all (B : Nat) (m : Mode) (c : Coarse) (dub : Int → Nat) (p : Nat) (lhs rhs : FRepr) (rs : Int)
    (hrs : rs = 1 ∨ rs = -1) :
    opAddSub B m c dub p lhs rhs rs = (ctxAddSub B m c dub p lhs rhs rs).1 := by
  unfold opAddSub ctxAddSub
  by_cases hlz : lhs.isZero = true
  · simp only [hlz, if_true]
    rcases hrs with h | h <;> subst h
    · simp only [if_true, one_mul]
    · have hne : ¬ ((-1 : Int) = 1) := by omega
      simp only [hne, if_false]
      unfold FRepr.neg; simp
  · simp only [hlz, if_false, Bool.false_eq_true]
    by_cases hrz : rhs.isZero = true
    · simp only [hrz, if_true]
    · simp only [hrz, if_false, Bool.false_eq_true]

/-- the round-3 statement (operands that fit the precision), kept under its name for the modules that cite it -/
theorem opAddSub_eq_ctx (B : Nat) (m : Mode) (c : Coarse) (dub : Int → Nat) (p : Nat) (lhs rhs : FRepr) (rs : Int)
    (hrs : rs = 1 ∨ rs = -1) (_hld : lhs.digits B ≤ p) (_hrd : rhs.digits B ≤ p) :
    opAddSub B m c dub p lhs rhs rs = (ctxAddSub B m c dub p lhs rhs rs).1 :=
  opAddSub_eq_ctx_all B m c dub p lhs rhs rs hrs

end Dashu.Model.Float
