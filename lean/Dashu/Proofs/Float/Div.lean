import Dashu.Proofs.Float.Arith
/-
  C03: `Context::repr_div` (and `div` for dividends that are not pre-shrunk, `inv`) honours the
  rounding contract.
-/
namespace Dashu.Model.Float
open Dashu Dashu.Props.GenRound

/-- truncating division by a non-zero divisor of either sign -/
theorem tdiv_tmod_nz (v b : Int) (hb : b ≠ 0) :
    v = Int.tdiv v b * b + Int.tmod v b ∧ |Int.tmod v b| < |b| := by
  have h1 : Int.tdiv v b * b + Int.tmod v b = v := by
    rw [Int.mul_comm]; exact Int.mul_tdiv_add_tmod v b
  refine ⟨h1.symm, ?_⟩
  rcases lt_or_gt_of_ne hb with hneg | hpos
  · have := (tdiv_tmod_abs v (-b) (by omega)).2.1
    rw [Int.tmod_neg] at this
    rw [abs_of_neg hneg]; exact this
  · have := (tdiv_tmod_abs v b hpos).2.1
    rw [abs_of_pos hpos]; exact this

theorem natAbs_tdiv_mul_le (a b : Int) : (Int.tdiv a b).natAbs * b.natAbs ≤ a.natAbs := by
  rw [Int.natAbs_tdiv]; exact Nat.div_mul_le_self _ _

theorem digitsI_lower (B : Nat) (hB : 2 ≤ B) (v : Int) (hv : v ≠ 0) : B ^ (digitsI B v - 1) ≤ v.natAbs ∧ 0 < digitsI B v := by
  have hpos : 0 < v.natAbs := Int.natAbs_pos.mpr hv
  obtain ⟨h0, h1, _⟩ := digits_spec B hB v.natAbs hpos
  exact ⟨h1, h0⟩

theorem digitsI_upper (B : Nat) (hB : 2 ≤ B) (v : Int) : v.natAbs < B ^ digitsI B v := digits_lt_pow B hB _

/-- the re-alignment of `repr_div`: afterwards `a·B^shift = q·b + r` with `|r| < |b|`, the exponent is
    lowered by `shift`, and the scaled dividend has at least `p` digits more than the divisor's unit -/
theorem divAlign_spec (B : Nat) (hB : 2 ≤ B) (p : Nat) (hp : 1 ≤ p) (a b : Int) (hb : b ≠ 0) (e : Int)
    (hr : Int.tmod a b ≠ 0) :
    ∃ shift : Nat,
      a * ((B ^ shift : Nat) : Int) = (divAlign B p b (Int.tdiv a b) (Int.tmod a b) e).1 * b +
        (divAlign B p b (Int.tdiv a b) (Int.tmod a b) e).2.1 ∧
      |(divAlign B p b (Int.tdiv a b) (Int.tmod a b) e).2.1| < |b| ∧
      (divAlign B p b (Int.tdiv a b) (Int.tmod a b) e).2.2 = e - shift ∧
      b.natAbs * B ^ (p - 1) ≤ a.natAbs * B ^ shift := by
  have hB0 : 0 < B := by omega
  obtain ⟨hdec, hrlt⟩ := tdiv_tmod_nz a b hb
  have hqb := natAbs_tdiv_mul_le a b
  have hbpos : 0 < b.natAbs := Int.natAbs_pos.mpr hb
  have hbup := digitsI_upper B hB b
  unfold divAlign
  try simp only [shlDigits_eq, shrDigits_eq]
  by_cases hq : Int.tdiv a b = 0
  · -- dividend shorter than the divisor: r = a
    simp only [hq, if_true]
    have har : Int.tmod a b = a := by rw [hq] at hdec; omega
    rw [har] at hr ⊢
    have hrlt' : a.natAbs < b.natAbs := by
      rw [har] at hrlt
      have h1 : ((a.natAbs : Nat) : Int) < ((b.natAbs : Nat) : Int) := by
        rw [Int.natCast_natAbs, Int.natCast_natAbs]; exact hrlt
      exact_mod_cast h1
    obtain ⟨halo, hapos⟩ := digitsI_lower B hB a hr
    have hrd : digitsI B a ≤ digitsI B b := by
      have : B ^ (digitsI B a - 1) < B ^ digitsI B b := lt_of_le_of_lt halo (lt_trans hrlt' hbup)
      have := (Nat.pow_lt_pow_iff_right (by omega : 1 < B)).mp this
      omega
    refine ⟨digitsI B b + p - digitsI B a, ?_, ?_, rfl, ?_⟩
    · exact (tdiv_tmod_nz _ b hb).1
    · exact (tdiv_tmod_nz _ b hb).2
    · have e1 : B ^ (digitsI B b + p - 1) = B ^ (digitsI B a - 1) * B ^ (digitsI B b + p - digitsI B a) := by
        rw [← Nat.pow_add]; congr 1; omega
      have e2 : B ^ (digitsI B b + p - 1) = B ^ digitsI B b * B ^ (p - 1) := by
        rw [← Nat.pow_add]; congr 1; omega
      calc b.natAbs * B ^ (p - 1) ≤ B ^ digitsI B b * B ^ (p - 1) :=
            Nat.mul_le_mul_right _ (le_of_lt hbup)
        _ = B ^ (digitsI B a - 1) * B ^ (digitsI B b + p - digitsI B a) := by rw [← e2, e1]
        _ ≤ a.natAbs * B ^ (digitsI B b + p - digitsI B a) := Nat.mul_le_mul_right _ halo
  · simp only [hq, if_false]
    obtain ⟨hqlo, hqpos⟩ := digitsI_lower B hB _ hq
    by_cases hsh : digitsI B (Int.tdiv a b) + digitsI B b < digitsI B b + p
    · simp only [hsh, if_true]
      have hs : digitsI B b + p - (digitsI B (Int.tdiv a b) + digitsI B b) = p - digitsI B (Int.tdiv a b) := by omega
      rw [hs]
      obtain ⟨h1, h2⟩ := tdiv_tmod_nz (Int.tmod a b * ((B ^ (p - digitsI B (Int.tdiv a b)) : Nat) : Int)) b hb
      refine ⟨p - digitsI B (Int.tdiv a b), ?_, h2, rfl, ?_⟩
      · have : a * ((B ^ (p - digitsI B (Int.tdiv a b)) : Nat) : Int) =
            Int.tdiv a b * ((B ^ (p - digitsI B (Int.tdiv a b)) : Nat) : Int) * b +
              Int.tmod a b * ((B ^ (p - digitsI B (Int.tdiv a b)) : Nat) : Int) := by
          calc a * ((B ^ (p - digitsI B (Int.tdiv a b)) : Nat) : Int)
              = (Int.tdiv a b * b + Int.tmod a b) * ((B ^ (p - digitsI B (Int.tdiv a b)) : Nat) : Int) := by
                rw [← hdec]
            _ = _ := by ring
        rw [this]
        conv_lhs => rw [h1]
        ring
      · have e1 : B ^ (p - 1) = B ^ (digitsI B (Int.tdiv a b) - 1) * B ^ (p - digitsI B (Int.tdiv a b)) := by
          rw [← Nat.pow_add]; congr 1; omega
        calc b.natAbs * B ^ (p - 1)
            = (B ^ (digitsI B (Int.tdiv a b) - 1) * b.natAbs) * B ^ (p - digitsI B (Int.tdiv a b)) := by
              rw [e1]; ring
          _ ≤ ((Int.tdiv a b).natAbs * b.natAbs) * B ^ (p - digitsI B (Int.tdiv a b)) :=
              Nat.mul_le_mul_right _ (Nat.mul_le_mul_right _ hqlo)
          _ ≤ a.natAbs * B ^ (p - digitsI B (Int.tdiv a b)) := Nat.mul_le_mul_right _ hqb
    · simp only [hsh, if_false]
      refine ⟨0, ?_, hrlt, by simp, ?_⟩
      · simp; exact hdec
      · simp only [pow_zero, mul_one]
        have hpq : p - 1 ≤ digitsI B (Int.tdiv a b) - 1 := by omega
        calc b.natAbs * B ^ (p - 1) ≤ b.natAbs * B ^ (digitsI B (Int.tdiv a b) - 1) :=
              Nat.mul_le_mul_left _ (Nat.pow_le_pow_right hB0 hpq)
          _ ≤ b.natAbs * (Int.tdiv a b).natAbs := Nat.mul_le_mul_left _ hqlo
          _ = (Int.tdiv a b).natAbs * b.natAbs := Nat.mul_comm _ _
          _ ≤ a.natAbs := hqb

theorem toRat_div (B : Nat) (hB : 0 < B) (l r : FRepr) (hr : r.signif ≠ 0) :
    l.toRat B / r.toRat B = ((l.signif : ℚ) / (r.signif : ℚ)) * bpowQ B (l.exp - r.exp) := by
  unfold FRepr.toRat
  have hu := bpowQ_pos B hB r.exp
  have hrs : (r.signif : ℚ) ≠ 0 := by exact_mod_cast hr
  have : bpowQ B l.exp = bpowQ B (l.exp - r.exp) * bpowQ B r.exp := by
    rw [← bpowQ_add B hB]; congr 1; ring
  rw [this]
  field_simp

/-- **`Context::repr_div` honours the rounding contract** (`p ≥ 1`, divisor ≠ 0; dividends of any
    length — `Context::div` additionally pre-shrinks over-long ones, which is the recorded finding) -/
theorem reprDiv_contract (B : Nat) (hB : 2 ≤ B) (m : Mode) (p : Nat) (hp : 1 ≤ p) (lhs rhs : FRepr)
    (hb : rhs.signif ≠ 0) :
    ∃ r, reprDiv B m p lhs rhs = .ok r ∧ Contract B m p (lhs.toRat B / rhs.toRat B) (r.1.toRat B) r.2 := by
  have hB0 : 0 < B := by omega
  have hp0 : p ≠ 0 := by omega
  have hbq : (rhs.signif : ℚ) ≠ 0 := by exact_mod_cast hb
  unfold reprDiv
  try simp only [shlDigits_eq, shrDigits_eq]
  simp only [hp0, hb, if_false]
  rw [toRat_div B hB0 lhs rhs hb]
  obtain ⟨hdec, _⟩ := tdiv_tmod_nz lhs.signif rhs.signif hb
  by_cases hr0 : Int.tmod lhs.signif rhs.signif = 0
  · simp only [hr0, if_true]
    refine ⟨_, rfl, ?_⟩
    rw [FRepr.new_value B hB0]
    have : (lhs.signif : ℚ) / (rhs.signif : ℚ) = (Int.tdiv lhs.signif rhs.signif : ℚ) := by
      rw [hr0, add_zero] at hdec
      conv_lhs => rw [hdec]
      push_cast; field_simp
    rw [this]
    exact contract_exact B m p _
  · simp only [hr0, if_false]
    obtain ⟨shift, hA, hlt, hexp, hulp⟩ := divAlign_spec B hB p hp lhs.signif rhs.signif hb (lhs.exp - rhs.exp) hr0
    generalize divAlign B p rhs.signif (Int.tdiv lhs.signif rhs.signif) (Int.tmod lhs.signif rhs.signif)
      (lhs.exp - rhs.exp) = t at *
    have hshift : bpowQ B (lhs.exp - rhs.exp) = ((B ^ shift : Nat) : ℚ) * bpowQ B t.2.2 := by
      rw [hexp, ← bpowQ_nat, ← bpowQ_add B hB0]; congr 1; ring
    have hAq : (lhs.signif : ℚ) * ((B ^ shift : Nat) : ℚ) = (t.1 : ℚ) * (rhs.signif : ℚ) + (t.2.1 : ℚ) := by
      exact_mod_cast hA
    by_cases ht0 : t.2.1 = 0
    · simp only [ht0, if_true]
      refine ⟨_, rfl, ?_⟩
      rw [FRepr.new_value B hB0, hshift]
      have : (lhs.signif : ℚ) / (rhs.signif : ℚ) * (((B ^ shift : Nat) : ℚ) * bpowQ B t.2.2) = (t.1 : ℚ) * bpowQ B t.2.2 := by
        rw [ht0] at hAq
        have h2 : (lhs.signif : ℚ) * ((B ^ shift : Nat) : ℚ) = (t.1 : ℚ) * (rhs.signif : ℚ) := by simpa using hAq
        calc (lhs.signif : ℚ) / (rhs.signif : ℚ) * (((B ^ shift : Nat) : ℚ) * bpowQ B t.2.2)
            = ((lhs.signif : ℚ) * ((B ^ shift : Nat) : ℚ)) / (rhs.signif : ℚ) * bpowQ B t.2.2 := by ring
          _ = ((t.1 : ℚ) * (rhs.signif : ℚ)) / (rhs.signif : ℚ) * bpowQ B t.2.2 := by rw [h2]
          _ = (t.1 : ℚ) * bpowQ B t.2.2 := by rw [mul_div_assoc, div_self hbq, mul_one]
      rw [this]
      exact contract_exact B m p _
    · simp only [ht0, if_false]
      refine ⟨_, rfl, ?_⟩
      have habs : (0 : Int) < |rhs.signif| := abs_pos.mpr hb
      have hspec := roundRatio_spec m t.1 t.2.1 rhs.signif hb ht0 hlt
      have hlo0 : t.2.1 * Int.sign rhs.signif ≠ 0 := by
        intro h
        rcases Int.mul_eq_zero.mp h with h | h
        · exact ht0 h
        · exact hb (Int.sign_eq_zero_iff_zero.mp h)
      have hlolt : |t.2.1 * Int.sign rhs.signif| < |rhs.signif| := by
        rw [abs_mul, Int.abs_sign_of_ne_zero hb, mul_one]; exact hlt
      have hic := icontract_of_spec m t.1 (t.2.1 * Int.sign rhs.signif) |rhs.signif| habs hlo0 hlolt _ hspec
      -- X = sign(b) · (a · B^shift)
      have hX : t.1 * |rhs.signif| + t.2.1 * Int.sign rhs.signif = Int.sign rhs.signif * (lhs.signif * ((B ^ shift : Nat) : Int)) := by
        rw [hA]
        have : |rhs.signif| = Int.sign rhs.signif * rhs.signif := by
          rw [Int.sign_mul_self_eq_abs]
        rw [this]; ring
      have hXabs : |t.1 * |rhs.signif| + t.2.1 * Int.sign rhs.signif| = |lhs.signif * ((B ^ shift : Nat) : Int)| := by
        rw [hX, abs_mul, Int.abs_sign_of_ne_zero hb, one_mul]
      have hulp' : |rhs.signif| * ((B ^ (p - 1) : Nat) : Int) ≤ |t.1 * |rhs.signif| + t.2.1 * Int.sign rhs.signif| := by
        rw [hXabs, abs_mul]
        have h1 : ((rhs.signif.natAbs * B ^ (p - 1) : Nat) : Int) ≤ ((lhs.signif.natAbs * B ^ shift : Nat) : Int) := by
          exact_mod_cast hulp
        push_cast at h1
        have habsB : |((B ^ shift : Nat) : Int)| = ((B ^ shift : Nat) : Int) := abs_of_nonneg (Int.natCast_nonneg _)
        rw [habsB]
        push_cast
        exact h1
      have hu : (0 : ℚ) < bpowQ B t.2.2 / ((|rhs.signif| : Int) : ℚ) := by
        apply div_pos (bpowQ_pos B hB0 _)
        exact_mod_cast habs
      have hunit : ((|rhs.signif| : Int) : ℚ) * (bpowQ B t.2.2 / ((|rhs.signif| : Int) : ℚ)) = bpowQ B t.2.2 := by
        have : ((|rhs.signif| : Int) : ℚ) ≠ 0 := by
          have := ne_of_gt habs
          exact_mod_cast this
        field_simp
      have key := contract_of_icontract' B hB m p hp _ _ _ habs _ _ hu t.2.2 hunit hic ⟨_, rfl⟩ hulp'
      -- rewrite the two values
      have habsq : ((|rhs.signif| : Int) : ℚ) ≠ 0 := by
        have := ne_of_gt habs
        exact_mod_cast this
      have hv1 : ((t.1 * |rhs.signif| + t.2.1 * Int.sign rhs.signif : Int) : ℚ) * (bpowQ B t.2.2 / ((|rhs.signif| : Int) : ℚ)) =
          (lhs.signif : ℚ) / (rhs.signif : ℚ) * bpowQ B (lhs.exp - rhs.exp) := by
        rw [hX, hshift]
        have hsb : ((Int.sign rhs.signif : Int) : ℚ) * (rhs.signif : ℚ) = ((|rhs.signif| : Int) : ℚ) := by
          have := Int.sign_mul_self_eq_abs rhs.signif
          exact_mod_cast this
        push_cast
        push_cast at hsb habsq
        field_simp
        rw [← hsb]; ring
      have hv2 : (((t.1 + rInt (roundRatio m t.1 t.2.1 rhs.signif)) * |rhs.signif| : Int) : ℚ) * (bpowQ B t.2.2 / ((|rhs.signif| : Int) : ℚ)) =
          (FRepr.new B (t.1 + rInt (roundRatio m t.1 t.2.1 rhs.signif)) t.2.2).toRat B := by
        rw [FRepr.new_value B hB0]
        push_cast
        push_cast at habsq
        field_simp
      rw [hv1, hv2] at key
      exact key

/-- `Context::div` on a dividend that is not longer than `rhs.digits() + p` (in particular every
    dividend that fits `p`): no pre-shrink, whatever the two digit estimates say -/
theorem ctxDiv_noshrink (B : Nat) (m : Mode) (c : Coarse) (dub dlb : Int → Nat) (p : Nat) (lhs rhs : FRepr)
    (h : lhs.digits B ≤ rhs.digits B + p) : ctxDiv B m c dub dlb p lhs rhs = reprDiv B m p lhs rhs := by
  unfold ctxDiv
  rw [reprRound_exact_of_fits B m c _ lhs h]
  simp

theorem reprDiv_panics (B : Nat) (m : Mode) (p : Nat) (lhs rhs : FRepr) :
    (p = 0 → reprDiv B m p lhs rhs = .error .unlimitedPrecision) ∧
    (p ≠ 0 → rhs.signif = 0 → reprDiv B m p lhs rhs = .error .divideByZero) := by
  unfold reprDiv
  try simp only [shlDigits_eq, shrDigits_eq]
  constructor
  · intro h; simp [h]
  · intro h1 h2; simp [h1, h2]

end Dashu.Model.Float
