import Dashu.Model.Float.Spec
import Mathlib.Tactic.Ring
import Mathlib.Tactic.Linarith
/-
  Digit-level lemmas for the float model: `digits` (`utils::digit_len`), `splitDigits`
  (`utils::split_digits`, all three code paths), truncating division facts.
-/
namespace Dashu.Model.Float

theorem digitsAux_zero (B fuel : Nat) : digitsAux B fuel 0 = 0 := by
  cases fuel <;> simp [digitsAux]

theorem digitsAux_spec (B : Nat) (hB : 2 ≤ B) : ∀ fuel n, 0 < n → n < 2 ^ fuel →
    0 < digitsAux B fuel n ∧ B ^ (digitsAux B fuel n - 1) ≤ n ∧ n < B ^ (digitsAux B fuel n) := by
  intro fuel
  induction fuel with
  | zero => intro n h0 h1; simp at h1; omega
  | succ fuel ih =>
    intro n h0 h1
    have hn : n ≠ 0 := by omega
    simp only [digitsAux, hn, if_false]
    have hB0 : 0 < B := by omega
    by_cases hm : n / B = 0
    · rw [hm, digitsAux_zero]
      have hlt : n < B := by
        rcases Nat.div_eq_zero_iff.mp hm with h | h
        · omega
        · exact h
      refine ⟨by omega, ?_, ?_⟩
      · simp; omega
      · simpa using hlt
    · have hmpos : 0 < n / B := Nat.pos_of_ne_zero hm
      have hle : n / B ≤ n / 2 := Nat.div_le_div_left hB (by omega)
      have h2 : n / 2 < 2 ^ fuel := by
        have : n < 2 * 2 ^ fuel := by rw [Nat.pow_succ] at h1; omega
        omega
      obtain ⟨hd, hlo, hhi⟩ := ih (n / B) hmpos (by omega)
      have hdm := Nat.div_add_mod n B
      have hmod := Nat.mod_lt n hB0
      refine ⟨by omega, ?_, ?_⟩
      · have e : 1 + digitsAux B fuel (n / B) - 1 = (digitsAux B fuel (n / B) - 1) + 1 := by omega
        rw [e, Nat.pow_succ]
        calc B ^ (digitsAux B fuel (n / B) - 1) * B ≤ (n / B) * B := Nat.mul_le_mul_right _ hlo
          _ ≤ n := Nat.div_mul_le_self n B
      · have e : 1 + digitsAux B fuel (n / B) = digitsAux B fuel (n / B) + 1 := by omega
        rw [e, Nat.pow_succ]
        have : n / B + 1 ≤ B ^ digitsAux B fuel (n / B) := hhi
        calc n < (n / B + 1) * B := by nlinarith
          _ ≤ B ^ digitsAux B fuel (n / B) * B := Nat.mul_le_mul_right _ this

theorem digits_zero (B : Nat) : digits B 0 = 0 := by
  simp [digits, digitsAux]

/-- `digit_len`: `B^(k-1) ≤ n < B^k` for `n > 0` -/
theorem digits_spec (B : Nat) (hB : 2 ≤ B) (n : Nat) (hn : 0 < n) :
    0 < digits B n ∧ B ^ (digits B n - 1) ≤ n ∧ n < B ^ (digits B n) :=
  digitsAux_spec B hB _ n hn Nat.lt_log2_self

theorem digits_lt_pow (B : Nat) (hB : 2 ≤ B) (n : Nat) : n < B ^ (digits B n) := by
  rcases Nat.eq_zero_or_pos n with h | h
  · subst h; rw [digits_zero]; simp
  · exact (digits_spec B hB n h).2.2

theorem digits_pos_iff (B : Nat) (hB : 2 ≤ B) (n : Nat) : 0 < digits B n ↔ 0 < n := by
  constructor
  · intro h; by_contra hn
    have : n = 0 := by omega
    subst this; rw [digits_zero] at h; omega
  · intro h; exact (digits_spec B hB n h).1

/-- the digit count is determined by the enclosing powers -/
theorem digits_unique (B : Nat) (hB : 2 ≤ B) (n k : Nat) (hlo : B ^ (k - 1) ≤ n) (hhi : n < B ^ k) (hk : 0 < k) :
    digits B n = k := by
  have hn : 0 < n := lt_of_lt_of_le (Nat.pow_pos (by omega)) hlo
  obtain ⟨hd, h1, h2⟩ := digits_spec B hB n hn
  have hB1 : 1 < B := by omega
  have a : digits B n - 1 < k := (Nat.pow_lt_pow_iff_right hB1).mp (lt_of_le_of_lt h1 hhi)
  have b : k - 1 < digits B n := (Nat.pow_lt_pow_iff_right hB1).mp (lt_of_le_of_lt hlo h2)
  omega

/-! ### truncating division -/

theorem tdiv_tmod_abs (v : Int) (d : Int) (hd : 0 < d) :
    v = Int.tdiv v d * d + Int.tmod v d ∧ |Int.tmod v d| < d ∧
    (0 ≤ v → 0 ≤ Int.tmod v d ∧ 0 ≤ Int.tdiv v d) ∧ (v ≤ 0 → Int.tmod v d ≤ 0 ∧ Int.tdiv v d ≤ 0) := by
  have h1 : Int.tdiv v d * d + Int.tmod v d = v := by
    rw [Int.mul_comm]; exact Int.mul_tdiv_add_tmod v d
  refine ⟨h1.symm, ?_, ?_, ?_⟩
  · have := Int.tmod_lt_of_pos v hd
    have h2 : -d < Int.tmod v d := by
      have := Int.tmod_lt_of_pos (-v) hd
      rw [Int.neg_tmod] at this
      omega
    rw [abs_lt]; exact ⟨h2, this⟩
  · intro hv
    exact ⟨Int.tmod_nonneg d hv, Int.tdiv_nonneg hv (le_of_lt hd)⟩
  · intro hv
    have hnv : 0 ≤ -v := by omega
    have a := Int.tmod_nonneg d hnv
    have b := Int.tdiv_nonneg hnv (le_of_lt hd)
    rw [Int.neg_tmod] at a
    rw [Int.neg_tdiv] at b
    constructor <;> omega

/-- uniqueness of truncating division: a decomposition with a remainder of the dividend's sign -/
theorem tdiv_unique (v d a b : Int) (hd : 0 < d) (h : v = a * d + b) (hb : |b| < d)
    (hpos : 0 ≤ v → 0 ≤ b) (hneg : v ≤ 0 → b ≤ 0) : a = Int.tdiv v d ∧ b = Int.tmod v d := by
  obtain ⟨h1, h2, h3, h4⟩ := tdiv_tmod_abs v d hd
  rw [abs_lt] at hb h2
  have key : (a - Int.tdiv v d) * d = Int.tmod v d - b := by
    have : a * d + b = Int.tdiv v d * d + Int.tmod v d := by rw [← h, ← h1]
    linarith
  have hk : a - Int.tdiv v d = 0 := by
    rcases le_total 0 v with hv | hv
    · have := hpos hv; have := (h3 hv).1
      by_contra hne
      rcases lt_or_gt_of_ne hne with hlt | hgt
      · have : (a - Int.tdiv v d) * d ≤ -d := by nlinarith
        linarith
      · have : d ≤ (a - Int.tdiv v d) * d := by nlinarith
        linarith
    · have := hneg hv; have := (h4 hv).1
      by_contra hne
      rcases lt_or_gt_of_ne hne with hlt | hgt
      · have : (a - Int.tdiv v d) * d ≤ -d := by nlinarith
        linarith
      · have : d ≤ (a - Int.tdiv v d) * d := by nlinarith
        linarith
  constructor
  · linarith
  · rw [hk] at key; linarith

theorem splitBits_spec (v : Int) (n : Nat) :
    splitBits v n = (Int.tdiv v ((2 ^ n : Nat) : Int), Int.tmod v ((2 ^ n : Nat) : Int)) := by
  have hd : (0 : Int) < ((2 ^ n : Nat) : Int) := by
    have : 0 < 2 ^ n := Nat.pow_pos (by omega)
    exact_mod_cast this
  unfold splitBits
  simp only [Nat.shiftRight_eq_div_pow]
  have hdm := Nat.div_add_mod v.natAbs (2 ^ n)
  have hmod := Nat.mod_lt v.natAbs (Nat.pow_pos (n := n) (by omega : 0 < 2))
  have hdm' : (v.natAbs : Int) = ((2 ^ n : Nat) : Int) * ((v.natAbs / 2 ^ n : Nat) : Int) + ((v.natAbs % 2 ^ n : Nat) : Int) := by
    exact_mod_cast hdm.symm
  have hmod' : ((v.natAbs % 2 ^ n : Nat) : Int) < ((2 ^ n : Nat) : Int) := by exact_mod_cast hmod
  have hm0 : (0 : Int) ≤ ((v.natAbs % 2 ^ n : Nat) : Int) := Int.natCast_nonneg _
  have hq0 : (0 : Int) ≤ ((v.natAbs / 2 ^ n : Nat) : Int) := Int.natCast_nonneg _
  by_cases hv : v < 0
  · have hab : (v.natAbs : Int) = -v := by omega
    simp only [hv, if_true]
    obtain ⟨e1, e2⟩ := tdiv_unique v _ (-1 * ((v.natAbs / 2 ^ n : Nat) : Int)) (-1 * ((v.natAbs % 2 ^ n : Nat) : Int)) hd
      (by nlinarith) (by rw [abs_lt]; constructor <;> linarith) (by intro; omega) (by intro; linarith)
    rw [e1, e2]
  · have hab : (v.natAbs : Int) = v := by omega
    simp only [hv, if_false]
    obtain ⟨e1, e2⟩ := tdiv_unique v _ (1 * ((v.natAbs / 2 ^ n : Nat) : Int)) (1 * ((v.natAbs % 2 ^ n : Nat) : Int)) hd
      (by nlinarith) (by rw [abs_lt]; constructor <;> linarith) (by intro; linarith) (by intro h; have : v = 0 := by omega
                                                                                         subst this; simp)
    rw [e1, e2]

theorem isPow2_spec (B : Nat) (h : isPow2 B = true) : B = 2 ^ B.log2 := by
  simpa [isPow2] using h

/-- `split_digits` / `split_digits_ref`: the base-10 two-step path, the power-of-two bit path and the
    generic `div_rem` path all compute the truncating quotient and remainder by `B^pos`. -/
theorem splitDigits_eq (B : Nat) (v : Int) (pos : Nat) : splitDigits B v pos = splitSpec B v pos := by
  unfold splitDigits splitSpec
  by_cases h0 : pos = 0
  · subst h0; simp
  · simp only [h0, if_false]
    by_cases h10 : B = 10
    · subst h10
      simp only [if_true]
      rw [splitBits_spec]
      have hT : (0 : Int) < ((2 ^ pos : Nat) : Int) := by
        have : 0 < 2 ^ pos := Nat.pow_pos (by omega)
        exact_mod_cast this
      have hF : (0 : Int) < ((5 ^ pos : Nat) : Int) := by
        have : 0 < 5 ^ pos := Nat.pow_pos (by omega)
        exact_mod_cast this
      have hD : ((10 ^ pos : Nat) : Int) = ((5 ^ pos : Nat) : Int) * ((2 ^ pos : Nat) : Int) := by
        have : (10 : Nat) ^ pos = 5 ^ pos * 2 ^ pos := by rw [← Nat.mul_pow]
        exact_mod_cast this
      obtain ⟨a1, a2, a3, a4⟩ := tdiv_tmod_abs v _ hT
      obtain ⟨b1, b2, b3, b4⟩ := tdiv_tmod_abs (Int.tdiv v ((2 ^ pos : Nat) : Int)) _ hF
      rw [abs_lt] at a2 b2
      generalize Int.tdiv v ((2 ^ pos : Nat) : Int) = q at *
      generalize Int.tmod v ((2 ^ pos : Nat) : Int) = r1 at *
      generalize Int.tdiv q ((5 ^ pos : Nat) : Int) = q' at *
      generalize Int.tmod q ((5 ^ pos : Nat) : Int) = r2 at *
      rw [hD]
      generalize ((2 ^ pos : Nat) : Int) = T at *
      generalize ((5 ^ pos : Nat) : Int) = F at *
      have hFT : 0 < F * T := Int.mul_pos hF hT
      obtain ⟨e1, e2⟩ := tdiv_unique v (F * T) q' (r2 * T + r1) hFT
        (by rw [a1, b1]; ring)
        (by
          rw [abs_lt]
          rcases le_total 0 v with hv | hv
          · have := a3 hv; have := b3 this.2
            constructor <;> nlinarith
          · have := a4 hv; have := b4 this.2
            constructor <;> nlinarith)
        (by intro hv; have := a3 hv; have := b3 this.2; nlinarith)
        (by intro hv; have := a4 hv; have := b4 this.2; nlinarith)
      rw [e1, e2]
    · simp only [h10, if_false]
      by_cases hp : isPow2 B = true
      · simp only [hp, if_true]
        rw [splitBits_spec]
        have e : 2 ^ (pos * B.log2) = B ^ pos := by
          conv_rhs => rw [isPow2_spec B hp]
          rw [← Nat.pow_mul, Nat.mul_comm]
        rw [e]
      · simp [hp]

/-- **`shl_digits` / `shl_digits_in_place`**: the base-2, base-10, power-of-two and generic paths all
    multiply by `B^k` -/
@[simp] theorem shlDigits_eq (B : Nat) (v : Int) (k : Nat) : shlDigits B v k = v * ((B ^ k : Nat) : Int) := by
  unfold shlDigits ishl
  by_cases h0 : k = 0
  · subst h0; simp
  · simp only [h0, if_false]
    by_cases h2 : B = 2
    · subst h2; simp
    · simp only [h2, if_false]
      by_cases h10 : B = 10
      · subst h10
        simp only [if_true]
        have : (10 : Nat) ^ k = 5 ^ k * 2 ^ k := by rw [← Nat.mul_pow]
        rw [this]; push_cast; ring
      · simp only [h10, if_false]
        by_cases hp : isPow2 B = true
        · simp only [hp, if_true]
          have e : 2 ^ (k * B.log2) = B ^ k := by
            conv_rhs => rw [isPow2_spec B hp]
            rw [← Nat.pow_mul, Nat.mul_comm]
          rw [e]
        · simp [hp]

theorem shrRef_eq (v : Int) (n : Nat) : shrRef v n = Int.tdiv v ((2 ^ n : Nat) : Int) := by
  have := congrArg Prod.fst (splitBits_spec v n)
  simpa [splitBits, shrRef] using this

/-- **`shr_digits`**: the base-2, base-10, power-of-two and generic paths all divide by `B^k` toward zero -/
@[simp] theorem shrDigits_eq (B : Nat) (v : Int) (k : Nat) : shrDigits B v k = Int.tdiv v ((B ^ k : Nat) : Int) := by
  unfold shrDigits
  by_cases h0 : k = 0
  · subst h0; simp
  · simp only [h0, if_false]
    by_cases h2 : B = 2
    · subst h2; simp only [if_true]; exact shrRef_eq v k
    · simp only [h2, if_false]
      by_cases h10 : B = 10
      · subst h10
        simp only [if_true]
        have := congrArg Prod.fst (splitDigits_eq 10 v k)
        simp only [splitDigits, h0, if_false, if_true, splitSpec] at this
        rw [shrRef_eq]
        have e : (splitBits v k).1 = Int.tdiv v ((2 ^ k : Nat) : Int) := congrArg Prod.fst (splitBits_spec v k)
        rw [e] at this
        exact this
      · simp only [h10, if_false]
        by_cases hp : isPow2 B = true
        · simp only [hp, if_true]
          rw [shrRef_eq]
          have e : 2 ^ (k * B.log2) = B ^ k := by
            conv_rhs => rw [isPow2_spec B hp]
            rw [← Nat.pow_mul, Nat.mul_comm]
          rw [e]
        · simp [hp]

/-- the decomposition delivered by `split_digits` -/
theorem splitDigits_spec (B : Nat) (hB : 2 ≤ B) (v : Int) (pos : Nat) :
    v = (splitDigits B v pos).1 * ((B ^ pos : Nat) : Int) + (splitDigits B v pos).2 ∧
    |(splitDigits B v pos).2| < ((B ^ pos : Nat) : Int) ∧
    (0 ≤ v → 0 ≤ (splitDigits B v pos).2 ∧ 0 ≤ (splitDigits B v pos).1) ∧
    (v ≤ 0 → (splitDigits B v pos).2 ≤ 0 ∧ (splitDigits B v pos).1 ≤ 0) := by
  have hD : (0 : Int) < ((B ^ pos : Nat) : Int) := by
    have : 0 < B ^ pos := Nat.pow_pos (by omega)
    exact_mod_cast this
  rw [splitDigits_eq]
  exact tdiv_tmod_abs v _ hD

end Dashu.Model.Float
