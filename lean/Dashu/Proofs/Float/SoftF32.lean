import Dashu.Proofs.Float.F32
import Dashu.Model.Float.SoftF32
/-
  The executable soft-float model (`Model/Float/SoftF32.lean`, integer arithmetic) denotes the rounding function `rne32`
  on ℝ (`Proofs/Float/F32.lean`): `rnePos num den` is `rne32 (num / den)`, hence every soft operation is `rne32` of the exact
  result.  This is what lets the per-case comparison "machine f32 = soft model" stand for the hypothesis "(IEEE) the machine
  operation is `rne32` of the exact result" of `Props/C10F32.lean`.
-/
namespace Dashu.Model.Float.SoftF32
open Dashu.Model.Float

/-- the real number a value denotes -/
noncomputable def Val.toReal (v : Val) : ℝ := (v.m : ℝ) * (2 : ℝ) ^ (v.e - 23)

theorem log2_bounds_real (n : Nat) (hn : 0 < n) :
    (2 : ℝ) ^ ((n.log2 : ℕ) : ℤ) ≤ (n : ℝ) ∧ (n : ℝ) < (2 : ℝ) ^ (((n.log2 : ℕ) : ℤ) + 1) := by
  have h1 : 2 ^ n.log2 ≤ n := Nat.log2_self_le (by omega)
  have h2 : n < 2 ^ (n.log2 + 1) := Nat.lt_log2_self
  constructor
  · rw [zpow_natCast]; exact_mod_cast h1
  · rw [show ((n.log2 : ℕ) : ℤ) + 1 = ((n.log2 + 1 : ℕ) : ℤ) by push_cast; ring, zpow_natCast]; exact_mod_cast h2

theorem shiftLeft_real (a k : Nat) : ((a <<< k : Nat) : ℝ) = (a : ℝ) * (2 : ℝ) ^ ((k : ℕ) : ℤ) := by
  rw [Nat.shiftLeft_eq, zpow_natCast]; push_cast; ring

/-- `ilog2Q num den = ⌊log₂ (num/den)⌋` -/
theorem ilog2Q_spec (num den : Nat) (hn : 0 < num) (hd : 0 < den) :
    (2 : ℝ) ^ (ilog2Q num den) ≤ (num : ℝ) / den ∧ (num : ℝ) / den < (2 : ℝ) ^ (ilog2Q num den + 1) := by
  obtain ⟨a1, a2⟩ := log2_bounds_real num hn
  obtain ⟨b1, b2⟩ := log2_bounds_real den hd
  have hdR : (0 : ℝ) < (den : ℝ) := by exact_mod_cast hd
  set A : ℤ := ((num.log2 : ℕ) : ℤ) with hA
  set Bd : ℤ := ((den.log2 : ℕ) : ℤ) with hBd
  have two_ne : (2 : ℝ) ≠ 0 := by norm_num
  -- 2^(e0−1) < num/den < 2^(e0+1)
  have lo : (2 : ℝ) ^ (A - Bd - 1) < (num : ℝ) / den := by
    rw [lt_div_iff₀ hdR]
    calc (2 : ℝ) ^ (A - Bd - 1) * den < (2 : ℝ) ^ (A - Bd - 1) * (2 : ℝ) ^ (Bd + 1) :=
          mul_lt_mul_of_pos_left b2 (by positivity)
      _ = (2 : ℝ) ^ A := by rw [← zpow_add₀ two_ne]; congr 1; ring
      _ ≤ num := a1
  have hi : (num : ℝ) / den < (2 : ℝ) ^ (A - Bd + 1) := by
    rw [div_lt_iff₀ hdR]
    calc (num : ℝ) < (2 : ℝ) ^ (A + 1) := a2
      _ = (2 : ℝ) ^ (A - Bd + 1) * (2 : ℝ) ^ Bd := by rw [← zpow_add₀ two_ne]; congr 1; ring
      _ ≤ (2 : ℝ) ^ (A - Bd + 1) * den := mul_le_mul_of_nonneg_left b1 (by positivity)
  -- the test of the code is `num/den < 2^e0`
  have test : ∀ c : Prop, (c ↔ (num : ℝ) / den < (2 : ℝ) ^ (A - Bd)) → [Decidable c] →
      (2 : ℝ) ^ ((if c then A - Bd - 1 else A - Bd : ℤ)) ≤ (num : ℝ) / den ∧
      (num : ℝ) / den < (2 : ℝ) ^ ((if c then A - Bd - 1 else A - Bd : ℤ) + 1) := by
    intro c hc _
    by_cases h : c
    · simp only [h, if_true]
      exact ⟨le_of_lt lo, by rw [show A - Bd - 1 + 1 = A - Bd by ring]; exact hc.mp h⟩
    · simp only [h, if_false]
      exact ⟨not_lt.mp (fun hh => h (hc.mpr hh)), hi⟩
  unfold ilog2Q
  simp only [← hA, ← hBd]
  by_cases h0 : 0 ≤ A - Bd
  · simp only [h0, if_true]
    apply test
    have hk : (((A - Bd).toNat : ℕ) : ℤ) = A - Bd := Int.toNat_of_nonneg h0
    rw [div_lt_iff₀ hdR, mul_comm, ← hk, ← shiftLeft_real]
    exact_mod_cast Iff.rfl
  · simp only [h0, if_false]
    apply test
    have hk : (((-(A - Bd)).toNat : ℕ) : ℤ) = -(A - Bd) := Int.toNat_of_nonneg (by omega)
    have e : (2 : ℝ) ^ (A - Bd) = ((2 : ℝ) ^ (((-(A - Bd)).toNat : ℕ) : ℤ))⁻¹ := by rw [hk, zpow_neg, inv_inv]
    have hp : (0 : ℝ) < (2 : ℝ) ^ (((-(A - Bd)).toNat : ℕ) : ℤ) := by positivity
    rw [e, div_lt_iff₀ hdR, inv_mul_eq_div, lt_div_iff₀ hp, ← shiftLeft_real]
    exact_mod_cast Iff.rfl

/-- `rheQ N D` is round-half-even of the real quotient -/
theorem rheQ_eq (N D : Nat) (hD : 0 < D) : ((rheQ N D : Nat) : ℤ) = rhe ((N : ℝ) / D) := by
  have hDR : (0 : ℝ) < (D : ℝ) := by exact_mod_cast hD
  have hdm := (Nat.div_add_mod N D).symm
  have hrlt := Nat.mod_lt N hD
  unfold rheQ
  simp only
  generalize N / D = q at *
  generalize N % D = r at *
  have hN : (N : ℝ) = (D : ℝ) * (q : ℝ) + (r : ℝ) := by exact_mod_cast hdm
  have hr : (r : ℝ) < D := by exact_mod_cast hrlt
  have hr0 : (0 : ℝ) ≤ (r : ℝ) := Nat.cast_nonneg _
  have ht : (N : ℝ) / D = (q : ℝ) + (r : ℝ) / D := by
    rw [hN]; field_simp
  have hfl : ⌊(N : ℝ) / D⌋ = (q : ℤ) := by
    rw [Int.floor_eq_iff, ht]
    push_cast
    constructor
    · have : 0 ≤ (r : ℝ) / D := div_nonneg hr0 (le_of_lt hDR)
      linarith
    · have : (r : ℝ) / D < 1 := (div_lt_one hDR).mpr hr
      linarith
  have hfr : (N : ℝ) / D - ((⌊(N : ℝ) / D⌋ : ℤ) : ℝ) = (r : ℝ) / D := by
    rw [hfl, ht]; push_cast; ring
  have c1 : (2 * r < D) ↔ (r : ℝ) / D < 1 / 2 := by
    rw [div_lt_iff₀ hDR]
    constructor
    · intro h; have : ((2 * r : Nat) : ℝ) < D := by exact_mod_cast h
      push_cast at this; linarith
    · intro h; have : ((2 * r : Nat) : ℝ) < D := by push_cast; linarith
      exact_mod_cast this
  have c2 : (D < 2 * r) ↔ 1 / 2 < (r : ℝ) / D := by
    rw [lt_div_iff₀ hDR]
    constructor
    · intro h; have : (D : ℝ) < ((2 * r : Nat) : ℝ) := by exact_mod_cast h
      push_cast at this; linarith
    · intro h; have : (D : ℝ) < ((2 * r : Nat) : ℝ) := by push_cast; linarith
      exact_mod_cast this
  have c3 : (q % 2 = 0) ↔ Even (q : ℤ) := by
    rw [Int.even_coe_nat, Nat.even_iff]
  unfold rhe
  rw [hfr, hfl]
  by_cases h1 : 2 * r < D
  · rw [if_pos h1, if_pos (c1.mp h1)]
  · rw [if_neg h1, if_neg (fun h => h1 (c1.mpr h))]
    by_cases h2 : D < 2 * r
    · rw [if_pos h2, if_pos (c2.mp h2)]; push_cast; ring
    · rw [if_neg h2, if_neg (fun h => h2 (c2.mpr h))]
      by_cases h3 : q % 2 = 0
      · rw [if_pos h3, if_pos (c3.mp h3)]
      · rw [if_neg h3, if_neg (fun h => h3 (c3.mpr h))]; push_cast; ring

/-- **the integer algorithm computes `rne32`**: for every positive fraction -/
theorem rnePos_eq (num den : Nat) (hn : 0 < num) (hd : 0 < den) :
    (rnePos num den).toReal = rne32 ((num : ℝ) / den) := by
  have hnR : (0 : ℝ) < (num : ℝ) := by exact_mod_cast hn
  have hdR : (0 : ℝ) < (den : ℝ) := by exact_mod_cast hd
  have hx : (0 : ℝ) < (num : ℝ) / den := div_pos hnR hdR
  obtain ⟨l1, l2⟩ := ilog2Q_spec num den hn hd
  have hlog := intLog_eq _ hx _ l1 l2
  set e := ilog2Q num den with he
  have hm : ∀ m : Nat, ((m : Nat) : ℤ) = rhe ((num : ℝ) / den / (2 : ℝ) ^ (e - 23)) →
      (if m = 16777216 then (⟨8388608, e + 1⟩ : Val) else ⟨m, e⟩).toReal = rne32 ((num : ℝ) / den) := by
    intro m hmz
    unfold rne32
    rw [if_pos hx]
    unfold rneAbs ulp32
    rw [hlog, ← hmz]
    by_cases h : m = 16777216
    · rw [if_pos h, h]
      unfold Val.toReal
      simp only
      rw [show e + 1 - 23 = 1 + (e - 23) by ring, zpow_add₀ (by norm_num : (2 : ℝ) ≠ 0)]
      push_cast; norm_num; ring
    · rw [if_neg h]
      unfold Val.toReal
      simp only
      push_cast; ring
  unfold rnePos
  simp only [← he]
  by_cases hs : 0 ≤ e - 23
  · simp only [hs, if_true]
    apply hm
    rw [rheQ_eq _ _ (by rw [Nat.shiftLeft_eq]; positivity)]
    congr 1
    have hk : (((e - 23).toNat : ℕ) : ℤ) = e - 23 := Int.toNat_of_nonneg hs
    rw [shiftLeft_real, hk, div_div]
  · simp only [hs, if_false]
    apply hm
    rw [rheQ_eq _ _ hd]
    congr 1
    have hk : (((-(e - 23)).toNat : ℕ) : ℤ) = -(e - 23) := Int.toNat_of_nonneg (by omega)
    rw [shiftLeft_real, hk, zpow_neg]
    field_simp

theorem rne_eq (num den : Nat) (hd : 0 < den) : (rne num den).toReal = rne32 ((num : ℝ) / den) := by
  unfold rne
  by_cases h : num = 0
  · subst h; simp [zero, Val.toReal, rne32]
  · rw [if_neg h]; exact rnePos_eq num den (Nat.pos_of_ne_zero h) hd

/-- the fraction returned by `toQ` denotes the value, with a positive denominator -/
theorem toQ_spec (v : Val) : 0 < (toQ v).2 ∧ ((toQ v).1 : ℝ) / ((toQ v).2 : ℝ) = v.toReal := by
  unfold toQ Val.toReal
  simp only
  by_cases hs : 0 ≤ v.e - 23
  · simp only [hs, if_true]
    have hk : (((v.e - 23).toNat : ℕ) : ℤ) = v.e - 23 := Int.toNat_of_nonneg hs
    refine ⟨by norm_num, ?_⟩
    rw [shiftLeft_real, hk]; simp
  · simp only [hs, if_false]
    have hk : (((-(v.e - 23)).toNat : ℕ) : ℤ) = -(v.e - 23) := Int.toNat_of_nonneg (by omega)
    refine ⟨by rw [Nat.shiftLeft_eq]; positivity, ?_⟩
    rw [shiftLeft_real, hk, zpow_neg]
    field_simp
    push_cast; ring

/-- `n as f32` -/
theorem ofNat_eq (n : Nat) : (ofNat n).toReal = rne32 (n : ℝ) := by
  have := rne_eq n 1 (by norm_num)
  simpa [ofNat] using this

/-- `a + b` is the exact sum rounded -/
theorem add_eq (a b : Val) : (add a b).toReal = rne32 (a.toReal + b.toReal) := by
  obtain ⟨ha, ea⟩ := toQ_spec a
  obtain ⟨hb, eb⟩ := toQ_spec b
  unfold add
  rw [rne_eq _ _ (Nat.mul_pos ha hb), ← ea, ← eb]
  congr 1
  have h1 : ((toQ a).2 : ℝ) ≠ 0 := by exact_mod_cast (Nat.pos_iff_ne_zero.mp ha)
  have h2 : ((toQ b).2 : ℝ) ≠ 0 := by exact_mod_cast (Nat.pos_iff_ne_zero.mp hb)
  push_cast
  field_simp

/-- `a * b` is the exact product rounded -/
theorem mul_eq (a b : Val) : (mul a b).toReal = rne32 (a.toReal * b.toReal) := by
  obtain ⟨ha, ea⟩ := toQ_spec a
  obtain ⟨hb, eb⟩ := toQ_spec b
  unfold mul
  rw [rne_eq _ _ (Nat.mul_pos ha hb), ← ea, ← eb]
  congr 1
  push_cast
  rw [div_mul_div_comm]

/-- `a / b` is the exact quotient rounded -/
theorem div_eq (a b r : Val) (h : div a b = some r) : r.toReal = rne32 (a.toReal / b.toReal) := by
  obtain ⟨ha, ea⟩ := toQ_spec a
  obtain ⟨hb, eb⟩ := toQ_spec b
  unfold div at h
  simp only at h
  by_cases h0 : (toQ b).1 = 0
  · simp [h0] at h
  · rw [if_neg h0] at h
    injection h with h
    rw [← h, rne_eq _ _ (Nat.mul_pos ha (Nat.pos_of_ne_zero h0)), ← ea, ← eb]
    congr 1
    push_cast
    rw [div_div_div_eq]

/-- `a − b` (for `b ≤ a`) is the exact difference rounded -/
theorem sub_eq (a b r : Val) (h : sub a b = some r) : r.toReal = rne32 (a.toReal - b.toReal) := by
  obtain ⟨ha, ea⟩ := toQ_spec a
  obtain ⟨hb, eb⟩ := toQ_spec b
  unfold sub at h
  simp only at h
  by_cases h0 : (toQ a).1 * (toQ b).2 < (toQ b).1 * (toQ a).2
  · simp [h0] at h
  · rw [if_neg h0] at h
    injection h with h
    rw [← h, rne_eq _ _ (Nat.mul_pos ha hb), ← ea, ← eb]
    congr 1
    have h1 : ((toQ a).2 : ℝ) ≠ 0 := by exact_mod_cast (Nat.pos_iff_ne_zero.mp ha)
    have h2 : ((toQ b).2 : ℝ) ≠ 0 := by exact_mod_cast (Nat.pos_iff_ne_zero.mp hb)
    rw [Nat.cast_sub (not_lt.mp h0)]
    push_cast
    field_simp

end Dashu.Model.Float.SoftF32
