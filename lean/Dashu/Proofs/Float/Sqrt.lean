import Dashu.Proofs.Float.Div
import Mathlib.Data.Nat.Sqrt
/-
  C03: `Context::sqrt` (as repaired by 92fc29e) honours the contract `ContractSqrt` — every
  comparison of the result with `√x` is stated on squares.
-/
namespace Dashu.Model.Float
open Dashu Dashu.Props.GenRound

/-- the six regenerated tables on a non-negative integer part and a positive low part -/
theorem table_positive (m : Mode) (n : Int) (hn : 0 ≤ n) (t : Ordering) :
    roundLowPart m n .Positive t =
      match m, t with
      | .zero, _ => .NoOp | .down, _ => .NoOp | .up, _ => .AddOne | .away, _ => .AddOne
      | .halfAway, .lt => .NoOp | .halfAway, .eq => .AddOne | .halfAway, .gt => .AddOne
      | .halfEven, .lt => .NoOp | .halfEven, .gt => .AddOne
      | .halfEven, .eq => if n % 2 = 1 then .AddOne else .NoOp := by
  have hnn : ¬ n < 0 := by omega
  cases m <;> cases t <;>
    simp [roundLowPart, Gen.round_low_part_Zero, Gen.round_low_part_Away, Gen.round_low_part_Up,
      Gen.round_low_part_Down, Gen.round_low_part_HalfAway, Gen.round_low_part_HalfEven,
      GluePrelude.is_zero, GluePrelude.sign, GluePrelude.HasSign.sign, GluePrelude.eq_, hnn, ge0, hn, bit0]
  all_goals first | (intro h; subst h; rfl) | skip

theorem then_lt (o : Ordering) : Ordering.lt.then o = .lt := rfl
theorem then_gt (o : Ordering) : Ordering.gt.then o = .gt := rfl
theorem then_eq (o : Ordering) : Ordering.eq.then o = o := rfl

/-- the half test of `sqrt`: `rem.cmp(root).then(4·low .cmp(B^k))` is the comparison of
    `4·(S·D + low)` with `(2·root+1)²·D`, i.e. of `√(S + low/D)` with `root + ½` -/
theorem sqrt_half_test (root rem low D : Int) (hD : 0 < D) (hl0 : 0 ≤ low) (hlk : low < D) (hrem : 0 ≤ rem) :
    (compare rem root).then (compare (low * 4) D) =
      compare (4 * ((root * root + rem) * D + low)) ((2 * root + 1) * (2 * root + 1) * D) := by
  have e1 : 4 * ((root * root + rem) * D + low) = 4 * (root * root * D) + 4 * (rem * D) + 4 * low := by ring
  have e2 : (2 * root + 1) * (2 * root + 1) * D = 4 * (root * root * D) + 4 * (root * D) + D := by ring
  rw [e1, e2]
  rcases lt_trichotomy rem root with h | h | h
  · rw [cmp_lt h, then_lt]
    have : (rem + 1) * D ≤ root * D := Int.mul_le_mul_of_nonneg_right (by omega) (le_of_lt hD)
    have e3 : (rem + 1) * D = rem * D + D := by ring
    rw [e3] at this
    exact (cmp_lt (by omega)).symm
  · subst h
    rw [cmp_eq rfl, then_eq]
    rcases lt_trichotomy (low * 4) D with h2 | h2 | h2
    · rw [cmp_lt h2]; exact (cmp_lt (by omega)).symm
    · rw [cmp_eq h2]; exact (cmp_eq (by omega)).symm
    · rw [cmp_gt h2]; exact (cmp_gt (by omega)).symm
  · rw [cmp_gt h, then_gt]
    have : (root + 1) * D ≤ rem * D := Int.mul_le_mul_of_nonneg_right (by omega) (le_of_lt hD)
    have e3 : (root + 1) * D = root * D + D := by ring
    rw [e3] at this
    exact (cmp_gt (by omega)).symm

theorem table_positive_facts (m : Mode) (n : Int) (hn : 0 ≤ n) (t : Ordering) :
    roundLowPart m n .Positive t ≠ .SubOne ∧
    (roundLowPart m n .Positive t = .NoOp ∨ roundLowPart m n .Positive t = .AddOne) ∧
    ((m = .zero ∨ m = .down) → roundLowPart m n .Positive t = .NoOp) ∧
    ((m = .up ∨ m = .away) → roundLowPart m n .Positive t = .AddOne) ∧
    (m.isHalf = true → (roundLowPart m n .Positive t = .NoOp → t ≠ .gt) ∧
      (roundLowPart m n .Positive t = .AddOne → t ≠ .lt)) := by
  rw [table_positive m n hn t]
  cases m <;> cases t <;> simp [Mode.isHalf] <;> split <;> simp <;> omega

theorem cmp_ne_gt {a b : Int} (h : compare a b ≠ .gt) : a ≤ b := by
  by_contra hc
  exact h (cmp_gt (by omega))

theorem cmp_ne_lt {a b : Int} (h : compare a b ≠ .lt) : b ≤ a := by
  by_contra hc
  exact h (cmp_lt (by omega))

/-- integer-level specification of the rounding step of `sqrt` (`Y = S·D + low`, `D = B^k`):
    `root²·D ≤ Y < (root+1)²·D`; the result is `root` flagged exact iff `Y = root²·D`, otherwise
    `root + a` with `a = 0` (`NoOp`) or `a = 1` (`AddOne`) as the mode prescribes -/
theorem sqrtRound_spec (B : Nat) (hB : 2 ≤ B) (m : Mode) (sr : Nat → Nat × Nat) (hsr : SqrtRemOk sr)
    (S low : Int) (k : Nat) (hS : 0 ≤ S) (hl0 : 0 ≤ low)
    (hlk : low < ((B ^ k : Nat) : Int)) :
    ∃ root : Int, 0 ≤ root ∧
      root * root * ((B ^ k : Nat) : Int) ≤ S * ((B ^ k : Nat) : Int) + low ∧
      S * ((B ^ k : Nat) : Int) + low < (root + 1) * (root + 1) * ((B ^ k : Nat) : Int) ∧
      ((sqrtRound B m sr S low k = (root, none) ∧ S * ((B ^ k : Nat) : Int) + low = root * root * ((B ^ k : Nat) : Int)) ∨
       (∃ adj : Rounding, sqrtRound B m sr S low k = (root + rInt adj, some adj) ∧
          (adj = .NoOp ∨ adj = .AddOne) ∧
          root * root * ((B ^ k : Nat) : Int) < S * ((B ^ k : Nat) : Int) + low ∧
          ((m = .zero ∨ m = .down) → adj = .NoOp) ∧ ((m = .up ∨ m = .away) → adj = .AddOne) ∧
          (m.isHalf = true →
            (adj = .NoOp → 4 * (S * ((B ^ k : Nat) : Int) + low) ≤ (2 * root + 1) * (2 * root + 1) * ((B ^ k : Nat) : Int)) ∧
            (adj = .AddOne → (2 * root + 1) * (2 * root + 1) * ((B ^ k : Nat) : Int) ≤ 4 * (S * ((B ^ k : Nat) : Int) + low))))) := by
  have hD : (0 : Int) < ((B ^ k : Nat) : Int) := by
    have : 0 < B ^ k := Nat.pow_pos (by omega)
    exact_mod_cast this
  unfold sqrtRound
  dsimp only
  generalize ((B ^ k : Nat) : Int) = D at *
  have hSn : ((S.natAbs : Nat) : Int) = S := by omega
  obtain ⟨c1, c2, c3⟩ := hsr S.natAbs
  have h1 : (((sr S.natAbs).1 * (sr S.natAbs).1 : Nat) : Int) ≤ ((S.natAbs : Nat) : Int) := by
    exact_mod_cast c1
  have h2 : ((S.natAbs : Nat) : Int) < ((((sr S.natAbs).1 + 1) * ((sr S.natAbs).1 + 1) : Nat) : Int) := by
    exact_mod_cast c2
  have h3 : ((((sr S.natAbs).1 * (sr S.natAbs).1 + (sr S.natAbs).2 : Nat)) : Int) = ((S.natAbs : Nat) : Int) := by
    exact_mod_cast c3
  push_cast at h1 h2 h3
  rw [abs_of_nonneg hS] at h1 h2 h3
  generalize hroot : (((sr S.natAbs).1 : Nat) : Int) = root at *
  have hremv : (((sr S.natAbs).2 : Nat) : Int) = S - root * root := by omega
  have hr0 : 0 ≤ root := by rw [← hroot]; exact Int.natCast_nonneg _
  have hlow : root * root * D ≤ S * D + low := by
    have := Int.mul_le_mul_of_nonneg_right h1 (le_of_lt hD); omega
  have hupp : S * D + low < (root + 1) * (root + 1) * D := by
    have h2' : S + 1 ≤ (root + 1) * (root + 1) := by omega
    have := Int.mul_le_mul_of_nonneg_right h2' (le_of_lt hD)
    have e : (S + 1) * D = S * D + D := by ring
    omega
  refine ⟨root, hr0, hlow, hupp, ?_⟩
  simp only [hremv]
  have hrem0 : 0 ≤ S - root * root := by omega
  by_cases hex : S - root * root = 0 ∧ low = 0
  · left
    simp only [hex, and_self, if_true, true_and]
    have : S = root * root := by omega
    rw [this]; ring
  · right
    simp only [hex, if_false]
    have htest := sqrt_half_test root (S - root * root) low D hD hl0 hlk hrem0
    have hY : (root * root + (S - root * root)) * D + low = S * D + low := by ring
    rw [hY] at htest
    rw [htest]
    have hstrict : root * root * D < S * D + low := by
      by_cases hz : S - root * root = 0
      · have hl : low ≠ 0 := fun h => hex ⟨hz, h⟩
        have : S = root * root := by omega
        rw [this]; omega
      · have : root * root + 1 ≤ S := by omega
        have := Int.mul_le_mul_of_nonneg_right this (le_of_lt hD)
        have e : (root * root + 1) * D = root * root * D + D := by ring
        omega
    obtain ⟨_, f2, f3, f4, f5⟩ := table_positive_facts m root hr0
      (compare (4 * (S * D + low)) ((2 * root + 1) * (2 * root + 1) * D))
    refine ⟨_, rfl, f2, hstrict, f3, f4, ?_⟩
    intro hh
    obtain ⟨g1, g2⟩ := f5 hh
    exact ⟨fun h => cmp_ne_gt (g1 h), fun h => cmp_ne_lt (g2 h)⟩

theorem tdiv_two_mul (j : Int) : Int.tdiv (2 * j) 2 = j := Int.mul_tdiv_cancel_left j (by omega)

theorem pow_le_pow_int (B : Nat) (hB : 0 < B) (a b : Nat) (h : a ≤ b) : ((B ^ a : Nat) : Int) ≤ ((B ^ b : Nat) : Int) := by
  exact_mod_cast Nat.pow_le_pow_right hB h

/-- the scaling step of `sqrt`: `x · D = (S·D + low) · (B^e)²` with `D = B^k`, `0 ≤ low < D`, and for `x ≠ 0`
    the scaled significand `S` has `2p−1` or `2p` digits -/
theorem sqrtScale_spec (B : Nat) (hB : 2 ≤ B) (p : Nat) (hp : 1 ≤ p) (x : FRepr) (hs : 0 ≤ x.signif) :
    0 ≤ (sqrtScale B p x).1 ∧ 0 ≤ (sqrtScale B p x).2.1 ∧
    (sqrtScale B p x).2.1 < ((B ^ (sqrtScale B p x).2.2.1 : Nat) : Int) ∧
    x.toRat B * ((B ^ (sqrtScale B p x).2.2.1 : Nat) : ℚ) =
      (((sqrtScale B p x).1 * ((B ^ (sqrtScale B p x).2.2.1 : Nat) : Int) + (sqrtScale B p x).2.1 : Int) : ℚ) *
        (bpowQ B (sqrtScale B p x).2.2.2 * bpowQ B (sqrtScale B p x).2.2.2) ∧
    (x.signif ≠ 0 → ((B ^ (2 * p - 2) : Nat) : Int) ≤ (sqrtScale B p x).1 ∧
      (sqrtScale B p x).1 < ((B ^ (2 * p) : Nat) : Int)) ∧
    (x.signif = 0 → (sqrtScale B p x).1 = 0 ∧ (sqrtScale B p x).2.1 = 0) := by
  have hB0 : 0 < B := by omega
  unfold sqrtScale
  try simp only [shlDigits_eq, shrDigits_eq]
  obtain ⟨d, hd⟩ : ∃ d, digitsI B x.signif = d := ⟨_, rfl⟩
  simp only [FRepr.digits, hd]
  -- the exponent after scaling is even
  obtain ⟨j, hj⟩ : ∃ j : Int, x.exp - ((p : Int) * 2 - (d : Int) - ((x.exp - (d : Int)) % 2)) = 2 * j :=
    ⟨(x.exp - (d : Int)) / 2 + d + (x.exp - (d : Int)) % 2 - p, by omega⟩
  have ht : (x.exp - (d : Int)) % 2 = 0 ∨ (x.exp - (d : Int)) % 2 = 1 := by omega
  rw [hj, tdiv_two_mul]
  have huu : bpowQ B j * bpowQ B j = bpowQ B (x.exp - ((p : Int) * 2 - (d : Int) - ((x.exp - (d : Int)) % 2))) := by
    rw [← bpowQ_add B hB0, hj]; congr 1; ring
  by_cases hsh : (p : Int) * 2 - (d : Int) - ((x.exp - (d : Int)) % 2) > 0
  · simp only [hsh, if_true]
    generalize hsn : ((p : Int) * 2 - (d : Int) - ((x.exp - (d : Int)) % 2)).toNat = sh
    have hshv : ((sh : Nat) : Int) = (p : Int) * 2 - (d : Int) - ((x.exp - (d : Int)) % 2) := by
      rw [← hsn]; exact Int.toNat_of_nonneg (by omega)
    have hpow : (0 : Int) < ((B ^ sh : Nat) : Int) := by
      have : 0 < B ^ sh := Nat.pow_pos hB0
      exact_mod_cast this
    refine ⟨Int.mul_nonneg hs (le_of_lt hpow), le_refl _, by simp, ?_, ?_, ?_⟩
    · simp only [pow_zero, Nat.cast_one, mul_one, add_zero]
      rw [huu, ← hshv]
      unfold FRepr.toRat
      have : bpowQ B x.exp = ((B ^ sh : Nat) : ℚ) * bpowQ B (x.exp - (sh : Int)) := by
        rw [← bpowQ_nat, ← bpowQ_add B hB0]; congr 1; ring
      rw [this]; push_cast; ring
    · intro hs0
      obtain ⟨hdpos, hlo, hhi⟩ := digitsI_spec B hB x.signif hs0
      rw [hd, abs_of_nonneg hs] at hlo hhi
      rw [hd] at hdpos
      constructor
      · have h1 : 2 * p - 2 ≤ (d - 1) + sh := by omega
        calc ((B ^ (2 * p - 2) : Nat) : Int) ≤ ((B ^ ((d - 1) + sh) : Nat) : Int) := pow_le_pow_int B hB0 _ _ h1
          _ = ((B ^ (d - 1) : Nat) : Int) * ((B ^ sh : Nat) : Int) := by rw [Nat.pow_add]; push_cast; ring
          _ ≤ x.signif * ((B ^ sh : Nat) : Int) := Int.mul_le_mul_of_nonneg_right hlo (le_of_lt hpow)
      · have h1 : d + sh ≤ 2 * p := by omega
        calc x.signif * ((B ^ sh : Nat) : Int) < ((B ^ d : Nat) : Int) * ((B ^ sh : Nat) : Int) :=
              Int.mul_lt_mul_of_pos_right hhi hpow
          _ = ((B ^ (d + sh) : Nat) : Int) := by rw [Nat.pow_add]; push_cast; ring
          _ ≤ ((B ^ (2 * p) : Nat) : Int) := pow_le_pow_int B hB0 _ _ h1
    · intro hs0; rw [hs0]; simp
  · simp only [hsh, if_false]
    generalize hkn : (-((p : Int) * 2 - (d : Int) - ((x.exp - (d : Int)) % 2))).toNat = k
    have hkv : ((k : Nat) : Int) = -((p : Int) * 2 - (d : Int) - ((x.exp - (d : Int)) % 2)) := by
      rw [← hkn]; exact Int.toNat_of_nonneg (by omega)
    obtain ⟨hsplit, hlt, hpos, _⟩ := splitDigits_spec B hB x.signif k
    have hnn := hpos hs
    have hpow : (0 : Int) < ((B ^ k : Nat) : Int) := by
      have : 0 < B ^ k := Nat.pow_pos hB0
      exact_mod_cast this
    have hs0 : x.signif ≠ 0 := by
      intro h0
      have : d = 0 := by rw [← hd, h0, digitsI_zero]
      omega
    refine ⟨hnn.2, hnn.1, (abs_lt.mp hlt).2, ?_, ?_, fun h => absurd h hs0⟩
    · rw [← hsplit, huu]
      unfold FRepr.toRat
      have : bpowQ B (x.exp - ((p : Int) * 2 - (d : Int) - ((x.exp - (d : Int)) % 2))) =
          ((B ^ k : Nat) : ℚ) * bpowQ B x.exp := by
        rw [← bpowQ_nat, ← bpowQ_add B hB0]; congr 1; rw [hkv]; ring
      rw [this]; ring
    · intro _
      obtain ⟨hdpos, hlo, hhi⟩ := digitsI_spec B hB x.signif hs0
      rw [hd, abs_of_nonneg hs] at hlo hhi
      rw [hd] at hdpos
      have hkd : k + 1 ≤ d := by omega
      constructor
      · -- B^(d-1) ≤ s < (hi+1)·B^k
        have h1 : ((B ^ (d - 1 - k) : Nat) : Int) * ((B ^ k : Nat) : Int) = ((B ^ (d - 1) : Nat) : Int) := by
          rw [← Nat.cast_mul, ← Nat.pow_add]; congr 2; omega
        have h2 : ((B ^ (d - 1 - k) : Nat) : Int) * ((B ^ k : Nat) : Int) <
            ((splitDigits B x.signif k).1 + 1) * ((B ^ k : Nat) : Int) := by
          rw [h1]
          have e : ((splitDigits B x.signif k).1 + 1) * ((B ^ k : Nat) : Int) =
              (splitDigits B x.signif k).1 * ((B ^ k : Nat) : Int) + ((B ^ k : Nat) : Int) := by ring
          have := (abs_lt.mp hlt).2
          omega
        have h3 := lt_of_mul_lt_mul_right h2 (le_of_lt hpow)
        have h4 : 2 * p - 2 ≤ d - 1 - k := by omega
        have := pow_le_pow_int B hB0 _ _ h4
        omega
      · have h1 : ((B ^ (d - k) : Nat) : Int) * ((B ^ k : Nat) : Int) = ((B ^ d : Nat) : Int) := by
          rw [← Nat.cast_mul, ← Nat.pow_add]; congr 2; omega
        have h2 : (splitDigits B x.signif k).1 * ((B ^ k : Nat) : Int) < ((B ^ (d - k) : Nat) : Int) * ((B ^ k : Nat) : Int) := by
          rw [h1]; omega
        have h3 := lt_of_mul_lt_mul_right h2 (le_of_lt hpow)
        have h4 : d - k ≤ 2 * p := by omega
        have := pow_le_pow_int B hB0 _ _ h4
        omega

/-! ### squares over `Rat` from integer inequalities: `x · D = Y · u²`, a candidate `z = (c/2)·u` -/

section
variable (c Y D : Int) (u xq : ℚ) (hu : 0 < u) (hD : 0 < D) (hx : xq * (D : ℚ) = (Y : ℚ) * (u * u))
include hu hD hx

theorem xq_eq : xq = (Y : ℚ) * (u * u) / (D : ℚ) := by
  have hDq : (D : ℚ) ≠ 0 := by exact_mod_cast (ne_of_gt hD)
  exact eq_div_of_mul_eq hDq hx

theorem sq_le_x (h : c * c * D ≤ 4 * Y) : ((c : ℚ) / 2 * u) * ((c : ℚ) / 2 * u) ≤ xq := by
  have hDq : (0 : ℚ) < (D : ℚ) := by exact_mod_cast hD
  rw [xq_eq Y D u xq hu hD hx, le_div_iff₀ hDq]
  have hc : ((c * c * D : Int) : ℚ) ≤ ((4 * Y : Int) : ℚ) := by exact_mod_cast h
  push_cast at hc
  have huu : 0 < u * u := by positivity
  nlinarith [mul_le_mul_of_nonneg_right hc (le_of_lt huu)]

theorem sq_lt_x (h : c * c * D < 4 * Y) : ((c : ℚ) / 2 * u) * ((c : ℚ) / 2 * u) < xq := by
  have hDq : (0 : ℚ) < (D : ℚ) := by exact_mod_cast hD
  rw [xq_eq Y D u xq hu hD hx, lt_div_iff₀ hDq]
  have hc : ((c * c * D : Int) : ℚ) < ((4 * Y : Int) : ℚ) := by exact_mod_cast h
  push_cast at hc
  have huu : 0 < u * u := by positivity
  nlinarith [mul_lt_mul_of_pos_right hc huu]

theorem x_le_sq (h : 4 * Y ≤ c * c * D) : xq ≤ ((c : ℚ) / 2 * u) * ((c : ℚ) / 2 * u) := by
  have hDq : (0 : ℚ) < (D : ℚ) := by exact_mod_cast hD
  rw [xq_eq Y D u xq hu hD hx, div_le_iff₀ hDq]
  have hc : ((4 * Y : Int) : ℚ) ≤ ((c * c * D : Int) : ℚ) := by exact_mod_cast h
  push_cast at hc
  have huu : 0 < u * u := by positivity
  nlinarith [mul_le_mul_of_nonneg_right hc (le_of_lt huu)]

theorem x_lt_sq (h : 4 * Y < c * c * D) : xq < ((c : ℚ) / 2 * u) * ((c : ℚ) / 2 * u) := by
  have hDq : (0 : ℚ) < (D : ℚ) := by exact_mod_cast hD
  rw [xq_eq Y D u xq hu hD hx, div_lt_iff₀ hDq]
  have hc : ((4 * Y : Int) : ℚ) < ((c * c * D : Int) : ℚ) := by exact_mod_cast h
  push_cast at hc
  have huu : 0 < u * u := by positivity
  nlinarith [mul_lt_mul_of_pos_right hc huu]

end

/-- from the integer-level facts about `root`, `Y = S·D + low`, to `ContractSqrt` over `Rat` -/
theorem contractSqrt_assemble (B : Nat) (hB : 2 ≤ B) (m : Mode) (p : Nat) (hp : 1 ≤ p)
    (D Y root : Int) (hD : 0 < D) (u xq : ℚ) (hu : 0 < u) (e : Int) (he : bpowQ B e = u)
    (hx : xq * (D : ℚ) = (Y : ℚ) * (u * u))
    (hr0 : 0 ≤ root) (hlow : root * root * D ≤ Y) (hupp : Y < (root + 1) * (root + 1) * D)
    (hdig : Y ≠ 0 → ((B ^ (p - 1) : Nat) : Int) * ((B ^ (p - 1) : Nat) : Int) * D ≤ Y)
    (flag : Option Rounding) (ρ : Int)
    (h : (flag = none ∧ ρ = root ∧ Y = root * root * D) ∨
      (∃ adj : Rounding, flag = some adj ∧ ρ = root + rInt adj ∧ (adj = .NoOp ∨ adj = .AddOne) ∧
        root * root * D < Y ∧ ((m = .zero ∨ m = .down) → adj = .NoOp) ∧ ((m = .up ∨ m = .away) → adj = .AddOne) ∧
        (m.isHalf = true → (adj = .NoOp → 4 * Y ≤ (2 * root + 1) * (2 * root + 1) * D) ∧
          (adj = .AddOne → (2 * root + 1) * (2 * root + 1) * D ≤ 4 * Y)))) :
    ContractSqrt B m p xq ((ρ : ℚ) * u) flag := by
  have hB0 : 0 < B := by omega
  -- atoms
  have hBq0 : 0 ≤ root * D := Int.mul_nonneg hr0 (le_of_lt hD)
  have hBq1 : 1 ≤ root → D ≤ root * D := by
    intro h1; have := Int.mul_le_mul_of_nonneg_right h1 (le_of_lt hD); omega
  have x0 : (2 * root) * (2 * root) * D = 4 * (root * root * D) := by ring
  have xm1 : (2 * root - 1) * (2 * root - 1) * D = 4 * (root * root * D) - 4 * (root * D) + D := by ring
  have xp1 : (2 * root + 1) * (2 * root + 1) * D = 4 * (root * root * D) + 4 * (root * D) + D := by ring
  have xm2 : (2 * root - 2) * (2 * root - 2) * D = 4 * (root * root * D) - 8 * (root * D) + 4 * D := by ring
  have xp2 : (2 * root + 2) * (2 * root + 2) * D = 4 * (root * root * D) + 8 * (root * D) + 4 * D := by ring
  have xp3 : (2 * root + 3) * (2 * root + 3) * D = 4 * (root * root * D) + 12 * (root * D) + 9 * D := by ring
  have xp4 : (2 * root + 4) * (2 * root + 4) * D = 4 * (root * root * D) + 16 * (root * D) + 16 * D := by ring
  have xu : (root + 1) * (root + 1) * D = root * root * D + 2 * (root * D) + D := by ring
  rw [xu] at hupp
  -- a candidate (c/2)·u
  have form : ∀ c : Int, (ρ : ℚ) * u + ((c : ℚ) / 2) * u = ((2 * ρ + c : Int) : ℚ) / 2 * u := by
    intro c; push_cast; ring
  have hr : (ρ : ℚ) * u = ((2 * ρ : Int) : ℚ) / 2 * u := by push_cast; ring
  have hrm : (ρ : ℚ) * u - u / 2 = ((2 * ρ - 1 : Int) : ℚ) / 2 * u := by push_cast; ring
  have hrp : (ρ : ℚ) * u + u / 2 = ((2 * ρ + 1 : Int) : ℚ) / 2 * u := by push_cast; ring
  have hrm2 : (ρ : ℚ) * u - u = ((2 * ρ - 2 : Int) : ℚ) / 2 * u := by push_cast; ring
  have hrp2 : (ρ : ℚ) * u + u = ((2 * ρ + 2 : Int) : ℚ) / 2 * u := by push_cast; ring
  have sle := fun c h => sq_le_x c Y D u xq hu hD hx h
  have slt := fun c h => sq_lt_x c Y D u xq hu hD hx h
  have xle := fun c h => x_le_sq c Y D u xq hu hD hx h
  have xlt := fun c h => x_lt_sq c Y D u xq hu hD hx h
  rcases h with ⟨hf, hρ, hY⟩ | ⟨adj, hf, hρ, hadj, hstrict, hzd, hua, hhalf⟩
  · -- exact
    subst hf; subst hρ
    have heq : (ρ : ℚ) * u * ((ρ : ℚ) * u) = xq := by
      rw [hr]
      exact le_antisymm (sle _ (by rw [x0]; omega)) (xle _ (by rw [x0]; omega))
    refine ⟨by positivity, by simp [heq], fun hne => absurd heq hne, ?_, by simp, by simp⟩
    unfold sideSqrtOk
    cases m <;> simp only <;> first | exact le_of_eq heq | exact le_of_eq heq.symm | trivial
  · subst hf
    have hY0 : Y ≠ 0 := by
      have : 0 ≤ root * root * D := Int.mul_nonneg (Int.mul_nonneg hr0 hr0) (le_of_lt hD)
      omega
    have hdig' := hdig hY0
    have hρ0 : 0 ≤ ρ := by rcases hadj with h | h <;> subst h <;> simp [rInt] at hρ <;> omega
    rcases hadj with hno | hadd
    · -- NoOp : ρ = root, r² < x
      subst hno
      have hρ' : ρ = root := by simpa [rInt] using hρ
      subst hρ'
      have hlt : (ρ : ℚ) * u * ((ρ : ℚ) * u) < xq := by
        rw [hr]; exact slt _ (by rw [x0]; omega)
      refine ⟨by positivity, ⟨(fun h => by cases h), fun h => absurd h (ne_of_lt hlt)⟩, fun _ => ⟨e, ?_, ?_, ⟨_, by rw [he]⟩⟩, ?_, by simp, by simp⟩
      · have : bpowQ B (e + p - 1) = ((2 * ((B ^ (p - 1) : Nat) : Int) : Int) : ℚ) / 2 * u := by
          have e1 : e + p - 1 = ((p - 1 : Nat) : Int) + e := by push_cast; omega
          rw [e1, bpowQ_add B hB0, bpowQ_nat, he]; push_cast; ring
        rw [this]
        exact sle _ (by
          have : (2 * ((B ^ (p - 1) : Nat) : Int)) * (2 * ((B ^ (p - 1) : Nat) : Int)) * D =
              4 * (((B ^ (p - 1) : Nat) : Int) * ((B ^ (p - 1) : Nat) : Int) * D) := by ring
          rw [this]; omega)
      · unfold errSqrtOk
        rw [he]
        by_cases hh : m.isHalf = true
        · simp only [hh, if_true]
          obtain ⟨g1, _⟩ := hhalf hh
          have g1 := g1 rfl
          constructor
          · unfold leSqrt
            rw [hrm]
            by_cases h0 : ρ = 0
            · left; subst h0; push_cast; linarith
            · right; exact sle _ (by rw [xm1]; have := hBq1 (by omega); omega)
          · unfold geSqrt
            rw [hrp]
            exact ⟨by positivity, xle _ (by rw [xp1]; rw [xp1] at g1; exact g1)⟩
        · simp only [hh, if_false, Bool.false_eq_true]
          constructor
          · unfold ltSqrt
            rw [hrm2]
            by_cases h0 : ρ = 0
            · left; subst h0; push_cast; linarith
            · right; exact slt _ (by rw [xm2]; have := hBq1 (by omega); omega)
          · unfold gtSqrt
            rw [hrp2]
            exact ⟨by positivity, xlt _ (by rw [xp2]; omega)⟩
      · unfold sideSqrtOk
        cases m <;> simp only <;> first | exact le_of_lt hlt | trivial | (exfalso; have := hua (by simp); cases this)
    · -- AddOne : ρ = root + 1, x < r²
      subst hadd
      have hρ' : ρ = root + 1 := by simpa [rInt] using hρ
      subst hρ'
      have e0 : 2 * (root + 1) = 2 * root + 2 := by ring
      have em1 : 2 * (root + 1) - 1 = 2 * root + 1 := by ring
      have ep1 : 2 * (root + 1) + 1 = 2 * root + 3 := by ring
      have em2 : 2 * (root + 1) - 2 = 2 * root := by ring
      have ep2 : 2 * (root + 1) + 2 = 2 * root + 4 := by ring
      have hgt : xq < ((root + 1 : Int) : ℚ) * u * (((root + 1 : Int) : ℚ) * u) := by
        rw [hr, e0]; exact xlt _ (by rw [xp2]; omega)
      refine ⟨by positivity, ⟨(fun h => by cases h), fun h => absurd h (ne_of_gt hgt)⟩, fun _ => ⟨e, ?_, ?_, ⟨_, by rw [he]⟩⟩, ?_, fun _ => hgt, by simp⟩
      · have : bpowQ B (e + p - 1) = ((2 * ((B ^ (p - 1) : Nat) : Int) : Int) : ℚ) / 2 * u := by
          have e1 : e + p - 1 = ((p - 1 : Nat) : Int) + e := by push_cast; omega
          rw [e1, bpowQ_add B hB0, bpowQ_nat, he]; push_cast; ring
        rw [this]
        exact sle _ (by
          have : (2 * ((B ^ (p - 1) : Nat) : Int)) * (2 * ((B ^ (p - 1) : Nat) : Int)) * D =
              4 * (((B ^ (p - 1) : Nat) : Int) * ((B ^ (p - 1) : Nat) : Int) * D) := by ring
          rw [this]; omega)
      · unfold errSqrtOk
        rw [he]
        by_cases hh : m.isHalf = true
        · simp only [hh, if_true]
          obtain ⟨_, g2⟩ := hhalf hh
          have g2 := g2 rfl
          constructor
          · unfold leSqrt
            rw [hrm, em1]
            right; exact sle _ g2
          · unfold geSqrt
            rw [hrp, ep1]
            exact ⟨by positivity, xle _ (by rw [xp3]; omega)⟩
        · simp only [hh, if_false, Bool.false_eq_true]
          constructor
          · unfold ltSqrt
            rw [hrm2, em2]
            right; exact slt _ (by rw [x0]; omega)
          · unfold gtSqrt
            rw [hrp2, ep2]
            exact ⟨by positivity, xlt _ (by rw [xp4]; omega)⟩
      · unfold sideSqrtOk
        cases m <;> simp only <;> first | exact le_of_lt hgt | trivial | (exfalso; have := hzd (by simp); cases this)

/-! ### the result of the rounding step fits `p` digits, so the final `repr_round` is the identity -/

theorem stripAux_int (B : Nat) : ∀ fuel (s e : Int), ∃ j : Nat, s = (stripAux B fuel s e).1 * ((B ^ j : Nat) : Int) := by
  intro fuel
  induction fuel with
  | zero => intro s e; exact ⟨0, by simp [stripAux]⟩
  | succ fuel ih =>
    intro s e
    unfold stripAux
    by_cases h : s % (B : Int) = 0
    · simp only [h, if_true]
      obtain ⟨j, hj⟩ := ih (s / (B : Int)) (e + 1)
      refine ⟨j + 1, ?_⟩
      have hs : s = (B : Int) * (s / (B : Int)) := by
        have := Int.mul_ediv_add_emod s B; omega
      conv_lhs => rw [hs, hj]
      rw [Nat.pow_succ]; push_cast; ring
    · simp only [h, if_false]
      exact ⟨0, by simp⟩

theorem digits_mono (B : Nat) (hB : 2 ≤ B) (a b : Nat) (h : a ≤ b) : digits B a ≤ digits B b := by
  rcases Nat.eq_zero_or_pos a with ha | ha
  · subst ha; rw [digits_zero]; omega
  · obtain ⟨_, h1, _⟩ := digits_spec B hB a ha
    have hb := digits_lt_pow B hB b
    have : B ^ (digits B a - 1) < B ^ digits B b := lt_of_le_of_lt h1 (lt_of_le_of_lt h hb)
    have := (Nat.pow_lt_pow_iff_right (by omega : 1 < B)).mp this
    omega

theorem digits_le_of_lt_pow (B : Nat) (hB : 2 ≤ B) (n p : Nat) (h : n < B ^ p) : digits B n ≤ p := by
  rcases Nat.eq_zero_or_pos n with hn | hn
  · subst hn; rw [digits_zero]; omega
  · obtain ⟨_, h1, _⟩ := digits_spec B hB n hn
    have : B ^ (digits B n - 1) < B ^ p := lt_of_le_of_lt h1 h
    have := (Nat.pow_lt_pow_iff_right (by omega : 1 < B)).mp this
    omega

/-- `Repr::new` of `0 ≤ t ≤ B^p` has at most `p` digits (`B^p` itself normalises to `1`) -/
theorem new_digits_le (B : Nat) (hB : 2 ≤ B) (p : Nat) (hp : 1 ≤ p) (t e : Int) (h0 : 0 ≤ t)
    (hle : t ≤ ((B ^ p : Nat) : Int)) : (FRepr.new B t e).digits B ≤ p := by
  have hB0 : 0 < B := by omega
  unfold FRepr.digits
  by_cases ht : t = 0
  · subst ht; simp [FRepr.new, digitsI_zero]
  · have hnorm := FRepr.new_normalized B hB t e
    unfold FRepr.new at hnorm ⊢
    simp only [ht, if_false] at hnorm ⊢
    obtain ⟨j, hj⟩ := stripAux_int B (t.natAbs.log2 + 1) t e
    generalize (stripAux B (t.natAbs.log2 + 1) t e).1 = n at *
    have hpowj : (0 : Int) < ((B ^ j : Nat) : Int) := by
      have : 0 < B ^ j := Nat.pow_pos hB0
      exact_mod_cast this
    have hn0 : 0 < n := by
      by_contra hc
      have : n ≤ 0 := by omega
      have : n * ((B ^ j : Nat) : Int) ≤ 0 := Int.mul_nonpos_of_nonpos_of_nonneg this (le_of_lt hpowj)
      omega
    have hnle : n ≤ t := by
      have : 1 ≤ ((B ^ j : Nat) : Int) := by omega
      have := Int.mul_le_mul_of_nonneg_left this (le_of_lt hn0)
      omega
    have hnmod : n % (B : Int) ≠ 0 := by
      rcases hnorm with h | h
      · simp only at h; omega
      · exact h
    unfold digitsI
    by_cases hlt : t < ((B ^ p : Nat) : Int)
    · apply digits_le_of_lt_pow B hB
      have : ((n.natAbs : Nat) : Int) < ((B ^ p : Nat) : Int) := by omega
      exact_mod_cast this
    · have hteq : t = ((B ^ p : Nat) : Int) := by omega
      -- n · B^j = B^p with B ∤ n forces n = 1
      have hnat : n.natAbs * B ^ j = B ^ p := by
        have : ((n.natAbs * B ^ j : Nat) : Int) = ((B ^ p : Nat) : Int) := by
          push_cast; rw [abs_of_pos hn0]
          have := hj; rw [hteq] at this; push_cast at this; exact this.symm
        exact_mod_cast this
      have hjp : j ≤ p := by
        by_contra hc
        have h1 : B ^ p < B ^ j := Nat.pow_lt_pow_right (by omega) (by omega)
        have h2 : B ^ j ≤ n.natAbs * B ^ j := Nat.le_mul_of_pos_left _ (by omega)
        omega
      have hn1 : n.natAbs = B ^ (p - j) := by
        have : B ^ p = B ^ (p - j) * B ^ j := by rw [← Nat.pow_add]; congr 1; omega
        rw [this] at hnat
        exact Nat.eq_of_mul_eq_mul_right (Nat.pow_pos hB0) hnat
      have hpj : p - j = 0 := by
        by_contra hc
        have : p - j = (p - j - 1) + 1 := by omega
        rw [this, Nat.pow_succ] at hn1
        apply hnmod
        have hnn : n = ((B ^ (p - j - 1) * B : Nat) : Int) := by
          rw [← hn1, Int.natCast_natAbs, abs_of_pos hn0]
        rw [hnn]; push_cast
        exact Int.mul_emod_left _ _
      rw [hpj] at hn1
      rw [hn1]
      simp only [pow_zero]
      have : digits B 1 = 1 := digits_unique B hB 1 1 (by simp) (by simp; omega) (by omega)
      omega

theorem andThenFlag_none (f : Option Rounding) : andThenFlag f none = f := by
  cases f <;> rfl

/-- **`Context::sqrt` honours the contract** (`p ≥ 1`, non-negative operand of any length): the result
    `r ≥ 0` is flagged `Exact` iff `r² = x`; otherwise `√x` is within one ulp (half an ulp for the nearest
    modes) of `r` on the side the mode prescribes — all comparisons on squares. -/
theorem ctxSqrt_contract (B : Nat) (hB : 2 ≤ B) (m : Mode) (c : Coarse) (sr : Nat → Nat × Nat) (hsr : SqrtRemOk sr)
    (p : Nat) (hp : 1 ≤ p) (x : FRepr) (hs : 0 ≤ x.signif) :
    ∃ r, ctxSqrt B m c sr p x = .ok r ∧ ContractSqrt B m p (x.toRat B) (r.1.toRat B) r.2 := by
  have hB0 : 0 < B := by omega
  have hp0 : p ≠ 0 := by omega
  have hneg : ¬ x.signif < 0 := by omega
  unfold ctxSqrt
  simp only [hp0, hneg, if_false]
  obtain ⟨hS0, hl0, hlk, hval, hdig, hzero⟩ := sqrtScale_spec B hB p hp x hs
  generalize sqrtScale B p x = sc at *
  obtain ⟨root, hr0, hlow, hupp, hres⟩ := sqrtRound_spec B hB m sr hsr sc.1 sc.2.1 sc.2.2.1 hS0 hl0 hlk
  have hD : (0 : Int) < ((B ^ sc.2.2.1 : Nat) : Int) := by
    have : 0 < B ^ sc.2.2.1 := Nat.pow_pos hB0
    exact_mod_cast this
  have hu := bpowQ_pos B hB0 sc.2.2.2
  -- root < B^p
  have hrootlt : root < ((B ^ p : Nat) : Int) := by
    by_cases hs0 : x.signif = 0
    · obtain ⟨h1, h2⟩ := hzero hs0
      rw [h1, h2] at hlow
      simp only [zero_mul, add_zero] at hlow
      have h3 : root * root * ((B ^ sc.2.2.1 : Nat) : Int) ≤ 0 := hlow
      have hpos : (0 : Int) < ((B ^ p : Nat) : Int) := by
        have : 0 < B ^ p := Nat.pow_pos hB0
        exact_mod_cast this
      by_contra hc
      have : 1 ≤ root := by omega
      have : 1 ≤ root * root := by nlinarith
      have := Int.mul_le_mul_of_nonneg_right this (le_of_lt hD)
      omega
    · obtain ⟨_, h2⟩ := hdig hs0
      by_contra hc
      have hge : ((B ^ p : Nat) : Int) ≤ root := by omega
      have hpp : ((B ^ (2 * p) : Nat) : Int) = ((B ^ p : Nat) : Int) * ((B ^ p : Nat) : Int) := by
        rw [← Nat.cast_mul, ← Nat.pow_add]; congr 2; omega
      have hsq : ((B ^ p : Nat) : Int) * ((B ^ p : Nat) : Int) ≤ root * root := by
        have hpos : (0 : Int) ≤ ((B ^ p : Nat) : Int) := Int.natCast_nonneg _
        nlinarith
      have h4 : root * root * ((B ^ sc.2.2.1 : Nat) : Int) ≤ sc.1 * ((B ^ sc.2.2.1 : Nat) : Int) + sc.2.1 := hlow
      have h5 : (sc.1 + 1) * ((B ^ sc.2.2.1 : Nat) : Int) ≤ root * root * ((B ^ sc.2.2.1 : Nat) : Int) :=
        Int.mul_le_mul_of_nonneg_right (by omega) (le_of_lt hD)
      have e : (sc.1 + 1) * ((B ^ sc.2.2.1 : Nat) : Int) = sc.1 * ((B ^ sc.2.2.1 : Nat) : Int) + ((B ^ sc.2.2.1 : Nat) : Int) := by ring
      omega
  have hdig' : sc.1 * ((B ^ sc.2.2.1 : Nat) : Int) + sc.2.1 ≠ 0 →
      ((B ^ (p - 1) : Nat) : Int) * ((B ^ (p - 1) : Nat) : Int) * ((B ^ sc.2.2.1 : Nat) : Int) ≤
        sc.1 * ((B ^ sc.2.2.1 : Nat) : Int) + sc.2.1 := by
    intro hne
    have hs0 : x.signif ≠ 0 := by
      intro h0
      obtain ⟨h1, h2⟩ := hzero h0
      rw [h1, h2] at hne; simp at hne
    obtain ⟨h1, _⟩ := hdig hs0
    have hpp : ((B ^ (2 * p - 2) : Nat) : Int) = ((B ^ (p - 1) : Nat) : Int) * ((B ^ (p - 1) : Nat) : Int) := by
      rw [← Nat.cast_mul, ← Nat.pow_add]; congr 2; omega
    rw [hpp] at h1
    have := Int.mul_le_mul_of_nonneg_right h1 (le_of_lt hD)
    omega
  -- the candidate significand root + a ≤ B^p: the final repr_round is the identity
  have hfit : ∀ a : Int, (a = 0 ∨ a = 1) →
      reprRound B m c p (FRepr.new B (root + a) sc.2.2.2) = (FRepr.new B (root + a) sc.2.2.2, none) := by
    intro a ha
    apply reprRound_exact_of_fits
    apply new_digits_le B hB p hp
    · omega
    · omega
  rcases hres with ⟨hexact, hY⟩ | ⟨adj, hinex, hadj, hstrict, hzd, hua, hhalf⟩
  · rw [hexact]
    have := hfit 0 (Or.inl rfl)
    simp only [add_zero] at this
    simp only [this]
    refine ⟨_, rfl, ?_⟩
    simp only [andThenFlag_none]
    rw [FRepr.new_value B hB0]
    exact contractSqrt_assemble B hB m p hp _ _ root hD _ _ hu sc.2.2.2 rfl hval hr0 hlow hupp hdig' none root
      (Or.inl ⟨rfl, rfl, hY⟩)
  · rw [hinex]
    have ha : rInt adj = 0 ∨ rInt adj = 1 := by rcases hadj with h | h <;> subst h <;> simp [rInt]
    simp only [hfit (rInt adj) ha]
    refine ⟨_, rfl, ?_⟩
    simp only [andThenFlag_none]
    rw [FRepr.new_value B hB0]
    exact contractSqrt_assemble B hB m p hp _ _ root hD _ _ hu sc.2.2.2 rfl hval hr0 hlow hupp hdig' (some adj)
      (root + rInt adj) (Or.inr ⟨adj, rfl, rfl, hadj, hstrict, hzd, hua, hhalf⟩)

/-- core `Nat.sqrt` (what the driver runs) meets the `sqrt_rem` contract -/
theorem natSqrtRem_ok : SqrtRemOk natSqrtRem := by
  intro n
  unfold natSqrtRem
  dsimp only
  have h1 := Nat.sqrt_le n
  have h2 := Nat.lt_succ_sqrt' n
  simp only [Nat.succ_eq_add_one, Nat.pow_two] at h2
  exact ⟨h1, h2, by omega⟩

end Dashu.Model.Float
