import Dashu.Model.Panic.Guards
import Dashu.Model.Int.Repr
import Mathlib.Tactic.Linarith
/-
  C16 (2): the entry guards mirrored from the code fail with kind `k` iff the documentation names `k`.
  One theorem per mirrored guard; the statements quantify over ALL arguments.
-/
namespace Dashu.Proofs.Panic
open Dashu.Spec.Panics Dashu.Model.Panic

-- ------------------------------------------------------------------ (1) the transcription only names documented kinds

theorem kind_mem_all (k : Kind) : k ∈ Kind.all := by
  cases k <;> simp [Kind.all]

/-- `documented` is a total function into the finite list of documented kinds -/
theorem documented_total (W : Nat) (op : Op) (args : List Arg) :
    documented W op args = none ∨ ∃ k ∈ Kind.all, documented W op args = some k := by
  cases h : documented W op args with
  | none => exact Or.inl rfl
  | some k => exact Or.inr ⟨k, kind_mem_all k, rfl⟩

theorem kind_name_injective : ∀ a b : Kind, a.name = b.name → a = b := by
  intro a b; cases a <;> cases b <;> simp [Kind.name]

/-- the kinds shared with the integer model's `PanicKind` print identically -/
def Kind.toPanicKind? : Kind → Option Dashu.Model.PanicKind
  | .divideByZero => some .divideByZero | .negativeUBig => some .negativeUBig | .gcdZeroZero => some .gcdZeroZero
  | .rootZeroth => some .rootZeroth | .rootNegative => some .rootNegative | .logInvalid => some .logInvalid
  | .infinite => some .infinite | .unlimitedPrecision => some .unlimitedPrecision | .invalidRadix => some .invalidRadix
  | .allocTooMuch => some .allocTooMuch | .differentRings => some .differentRings | .nonInvertible => some .nonInvertible
  | .powNegativeBase => some .powNegativeBase
  | _ => none

/-- no documented kind is the integer model's `undocumented` -/
theorem kind_never_undocumented (k : Kind) (site : String) :
    Kind.toPanicKind? k ≠ some (.undocumented site) := by
  cases k <;> simp [Kind.toPanicKind?]

theorem kind_name_agrees (k : Kind) (p : Dashu.Model.PanicKind) (h : Kind.toPanicKind? k = some p) :
    k.name = p.name := by
  cases k <;> simp [Kind.toPanicKind?] at h <;> subst h <;> rfl

-- ------------------------------------------------------------------ (2) guards ↔ documentation

theorem documented_iff (W : Nat) (op : Op) (args : List Arg) (k : Kind) :
    documented W op args = some k ↔ verdict W op args = some (.panics k) := by
  unfold documented
  split <;> simp_all

theorem firstOf_one (c : Bool) (k0 k : Kind) : firstOf [(c, k0)] = .panics k ↔ (c = true ∧ k0 = k) := by
  cases c <;> simp [firstOf]

theorem firstOf_two (c1 c2 : Bool) (k1 k2 k : Kind) :
    firstOf [(c1, k1), (c2, k2)] = .panics k ↔ ((c1 = true ∧ k1 = k) ∨ (c1 = false ∧ c2 = true ∧ k2 = k)) := by
  cases c1 <;> cases c2 <;> simp [firstOf]

theorem firstOf_three (c1 c2 c3 : Bool) (k1 k2 k3 k : Kind) :
    firstOf [(c1, k1), (c2, k2), (c3, k3)] = .panics k ↔
      ((c1 = true ∧ k1 = k) ∨ (c1 = false ∧ c2 = true ∧ k2 = k) ∨ (c1 = false ∧ c2 = false ∧ c3 = true ∧ k3 = k)) := by
  cases c1 <;> cases c2 <;> cases c3 <;> simp [firstOf]

theorem err_iff (c : Prop) [Decidable c] (k0 k : Kind) :
    ((if c then (.error k0 : G) else .ok ()) = .error k) ↔ (c ∧ k0 = k) := by
  by_cases h : c <;> simp [h]

theorem pow2W_pos (W : Nat) : 0 < 2 ^ (2 * W) := Nat.pow_pos (by decide)

theorem pow2W_ge4 (W : Nat) (h : 1 ≤ W) : 4 ≤ 2 ^ (2 * W) :=
  calc 4 = 2 ^ 2 := by decide
    _ ≤ 2 ^ (2 * W) := Nat.pow_le_pow_right (by decide) (by omega)

/-- closes `(A ∧ K) ↔ (A' ∧ K)` where `A ↔ A'` is linear arithmetic -/
macro "arith_iff" : tactic =>
  `(tactic| (constructor <;> rintro ⟨h, hk⟩ <;> exact ⟨by omega, hk⟩))

/-- `UBig - UBig`: the dispatch of `impl Sub for TypedRepr` panics with NegativeUBig iff the documentation says so -/
theorem guardUSub_iff (W a b : Nat) (k : Kind) :
    guardUSub W a b = .error k ↔ documented W .uSub [.int a, .int b] = some k := by
  have hp := pow2W_pos W
  have hv : verdict W .uSub [.int a, .int b] =
      if (a:Int) < 0 ∨ (b:Int) < 0 then none else some (firstOf [(decide ((a:Int) < b), .negativeUBig)]) := rfl
  have hn : ¬ ((a:Int) < 0 ∨ (b:Int) < 0) := by omega
  rw [documented_iff, hv, if_neg hn]
  simp only [Option.some.injEq, firstOf_one, decide_eq_true_eq]
  generalize hB : 2 ^ (2 * W) = B at hp
  unfold guardUSub isSmall
  rw [hB]
  by_cases ha : a < B <;> by_cases hb : b < B <;> simp [ha, hb]
  · by_cases h : b ≤ a <;> simp [h] <;> omega
  · intro _; omega
  · intro h; omega
  · by_cases h : a < b <;> simp [h]

theorem guardDivByZero_err (W b : Nat) (k : Kind) :
    guardDivByZero W b = .error k ↔ (b = 0 ∧ Kind.divideByZero = k) := by
  have hp := pow2W_pos W
  unfold guardDivByZero isSmall
  by_cases hb : b < 2 ^ (2 * W) <;> simp [hb]
  · by_cases h : b = 0 <;> simp [h]
  · intro h; omega

theorem divZero_iff (b : Int) (k : Kind) : divZero b = .panics k ↔ (b = 0 ∧ Kind.divideByZero = k) := by
  unfold divZero; rw [firstOf_one]; simp

/-- UBig division family (`/ % div_rem div_euclid rem_euclid div_rem_euclid is_multiple_of`) -/
theorem guardUDiv_iff (W a b : Nat) (k : Kind) (op : Op)
    (hop : op ∈ [Op.uDiv, .uRem, .uDivRem, .uDivEuclid, .uRemEuclid, .uDivRemEuclid, .uIsMultipleOf]) :
    guardDivByZero W b = .error k ↔ documented W op [.int a, .int b] = some k := by
  have hv : verdict W op [.int a, .int b] = if (a:Int) < 0 ∨ (b:Int) < 0 then none else some (divZero b) := by
    simp at hop; rcases hop with h | h | h | h | h | h | h <;> subst h <;> rfl
  have hn : ¬ ((a:Int) < 0 ∨ (b:Int) < 0) := by omega
  rw [documented_iff, hv, if_neg hn, guardDivByZero_err]
  simp only [Option.some.injEq, divZero_iff]
  arith_iff

/-- IBig division family -/
theorem guardIDiv_iff (W : Nat) (a b : Int) (k : Kind) (op : Op)
    (hop : op ∈ [Op.iDiv, .iRem, .iDivRem, .iDivEuclid, .iRemEuclid, .iDivRemEuclid, .iIsMultipleOf]) :
    guardDivByZero W b.natAbs = .error k ↔ documented W op [.int a, .int b] = some k := by
  have hv : verdict W op [.int a, .int b] = some (divZero b) := by
    simp at hop; rcases hop with h | h | h | h | h | h | h <;> subst h <;> rfl
  rw [documented_iff, hv, guardDivByZero_err]
  simp only [Option.some.injEq, divZero_iff]
  arith_iff

theorem guardGcd_err (W a b : Nat) (k : Kind) :
    guardGcd W a b = .error k ↔ ((a = 0 ∧ b = 0) ∧ Kind.gcdZeroZero = k) := by
  have hp := pow2W_pos W
  unfold guardGcd isSmall
  by_cases ha : a < 2 ^ (2 * W) <;> by_cases hb : b < 2 ^ (2 * W) <;> simp [ha, hb]
  · by_cases h : a = 0 ∧ b = 0
    · simp [h]
    · simp [h]
  all_goals (intro h1 h2; omega)

/-- `gcd` / `gcd_ext` of UBig -/
theorem guardUGcd_iff (W a b : Nat) (k : Kind) (op : Op) (hop : op ∈ [Op.uGcd, .uGcdExt]) :
    guardGcd W a b = .error k ↔ documented W op [.int a, .int b] = some k := by
  have hv : verdict W op [.int a, .int b] =
      if (a:Int) < 0 ∨ (b:Int) < 0 then none else some (firstOf [(decide ((a:Int) = 0 ∧ (b:Int) = 0), .gcdZeroZero)]) := by
    simp at hop; rcases hop with h | h <;> subst h <;> rfl
  have hn : ¬ ((a:Int) < 0 ∨ (b:Int) < 0) := by omega
  rw [documented_iff, hv, if_neg hn, guardGcd_err]
  simp only [Option.some.injEq, firstOf_one, decide_eq_true_eq]
  arith_iff

/-- `gcd` / `gcd_ext` of IBig (on the magnitudes) -/
theorem guardIGcd_iff (W : Nat) (a b : Int) (k : Kind) (op : Op) (hop : op ∈ [Op.iGcd, .iGcdExt]) :
    guardGcd W a.natAbs b.natAbs = .error k ↔ documented W op [.int a, .int b] = some k := by
  have hv : verdict W op [.int a, .int b] = some (firstOf [(decide (a = 0 ∧ b = 0), .gcdZeroZero)]) := by
    simp at hop; rcases hop with h | h <;> subst h <;> rfl
  rw [documented_iff, hv, guardGcd_err]
  simp only [Option.some.injEq, firstOf_one, decide_eq_true_eq]
  arith_iff

/-- `UBig::nth_root` -/
theorem guardUNthRoot_iff (W x n : Nat) (k : Kind) :
    guardUNthRoot n = .error k ↔ documented W .uNthRoot [.int x, .dec n] = some k := by
  have hv : verdict W .uNthRoot [.int x, .dec n] =
      if (x:Int) < 0 ∨ (n:Int) < 0 then none else some (firstOf [(decide ((n:Int) = 0), .rootZeroth)]) := rfl
  have hn : ¬ ((x:Int) < 0 ∨ (n:Int) < 0) := by omega
  rw [documented_iff, hv, if_neg hn]
  unfold guardUNthRoot
  rw [err_iff]
  simp only [Option.some.injEq, firstOf_one, decide_eq_true_eq]
  arith_iff

/-- `IBig::nth_root`: zeroth root first, then an even root of a negative number -/
theorem guardINthRoot_iff (W : Nat) (x : Int) (n : Nat) (k : Kind) :
    guardINthRoot x n = .error k ↔ documented W .iNthRoot [.int x, .dec n] = some k := by
  have hv : verdict W .iNthRoot [.int x, .dec n] =
      if (n:Int) < 0 then none
      else some (firstOf [(decide ((n:Int) = 0), .rootZeroth), (decide (x < 0 ∧ (n:Int) % 2 = 0), .rootNegative)]) := rfl
  have hn : ¬ ((n:Int) < 0) := by omega
  rw [documented_iff, hv, if_neg hn]
  simp only [Option.some.injEq, firstOf_two, decide_eq_true_eq, decide_eq_false_iff_not]
  unfold guardINthRoot
  by_cases h0 : n = 0
  · simp [h0]
  · have h0' : ¬ ((n:Int) = 0) := by omega
    simp only [h0, h0', if_false, false_and, false_or, not_false_eq_true, true_and]
    rw [err_iff]
    constructor
    · rintro ⟨⟨h1, h2⟩, h3⟩; exact ⟨⟨h1, by omega⟩, h3⟩
    · rintro ⟨⟨h1, h2⟩, h3⟩; exact ⟨⟨h1, by omega⟩, h3⟩

/-- `SquareRoot for IBig` -/
theorem guardISqrt_iff (W : Nat) (x : Int) (k : Kind) :
    guardISqrt x = .error k ↔ documented W .iSqrt [.int x] = some k := by
  have hv : verdict W .iSqrt [.int x] = some (firstOf [(decide (x < 0), .rootNegative)]) := rfl
  rw [documented_iff, hv]
  unfold guardISqrt
  rw [err_iff]
  simp only [Option.some.injEq, firstOf_one, decide_eq_true_eq]

theorem guardIlog_err (W x b : Nat) (k : Kind) (hW : 1 ≤ W) :
    guardIlog W x b = .error k ↔ ((x = 0 ∨ b < 2) ∧ Kind.logInvalid = k) := by
  have hp := pow2W_ge4 W hW
  unfold guardIlog isSmall
  by_cases hx : x = 0
  · simp [hx]
  · simp only [hx, if_false, false_or]
    rw [err_iff]
    simp only [decide_eq_true_eq]
    constructor
    · rintro ⟨⟨_, h⟩, hk⟩; exact ⟨by omega, hk⟩
    · rintro ⟨h, hk⟩
      exact ⟨⟨by omega, by omega⟩, hk⟩

/-- `UBig::ilog` -/
theorem guardUIlog_iff (W x b : Nat) (k : Kind) (hW : 1 ≤ W) :
    guardIlog W x b = .error k ↔ documented W .uIlog [.int x, .int b] = some k := by
  have hv : verdict W .uIlog [.int x, .int b] =
      if (x:Int) < 0 ∨ (b:Int) < 0 then none else some (firstOf [(decide ((x:Int) = 0 ∨ (b:Int) < 2), .logInvalid)]) := rfl
  have hn : ¬ ((x:Int) < 0 ∨ (b:Int) < 0) := by omega
  rw [documented_iff, hv, if_neg hn, guardIlog_err _ _ _ _ hW]
  simp only [Option.some.injEq, firstOf_one, decide_eq_true_eq]
  arith_iff

/-- `IBig::ilog` (logarithm of the magnitude) -/
theorem guardIIlog_iff (W : Nat) (x : Int) (b : Nat) (k : Kind) (hW : 1 ≤ W) :
    guardIlog W x.natAbs b = .error k ↔ documented W .iIlog [.int x, .int b] = some k := by
  have hv : verdict W .iIlog [.int x, .int b] =
      if (b:Int) < 0 then none else some (firstOf [(decide (x = 0 ∨ (b:Int) < 2), .logInvalid)]) := rfl
  have hn : ¬ ((b:Int) < 0) := by omega
  rw [documented_iff, hv, if_neg hn, guardIlog_err _ _ _ _ hW]
  simp only [Option.some.injEq, firstOf_one, decide_eq_true_eq]
  arith_iff

/-- `UBig::in_radix` / `IBig::in_radix` -/
theorem guardInRadix_iff (W : Nat) (x : Int) (r : Nat) (k : Kind) :
    guardInRadix r = .error k ↔ documented W .iInRadix [.int x, .dec r] = some k := by
  have hv : verdict W .iInRadix [.int x, .dec r] = some (firstOf [(!radixOk r, .invalidRadix)]) := rfl
  rw [documented_iff, hv]
  unfold guardInRadix radixOk
  rw [err_iff]
  simp only [Option.some.injEq, firstOf_one, Bool.not_eq_true', decide_eq_false_iff_not]
  arith_iff

/-- `ConstDivisor::new` -/
theorem guardCdNew_iff (W n : Nat) (k : Kind) :
    guardCdNew W n = .error k ↔ documented W .cdNew [.int n] = some k := by
  have hv : verdict W .cdNew [.int n] = if (n:Int) < 0 then none else some (divZero n) := rfl
  have hn : ¬ ((n:Int) < 0) := by omega
  rw [documented_iff, hv, if_neg hn]
  unfold guardCdNew
  rw [guardDivByZero_err]
  simp only [Option.some.injEq, divZero_iff]
  arith_iff

/-- `RBig::from_parts` / `Relaxed::from_parts` -/
theorem guardQFromParts_iff (W : Nat) (n : Int) (d : Nat) (c : Char) (k : Kind) :
    guardQFromParts d = .error k ↔ documented W .qFromParts [.int n, .int d, .kind c] = some k := by
  have hv : verdict W .qFromParts [.int n, .int d, .kind c] = if (d:Int) < 0 then none else some (divZero d) := rfl
  have hn : ¬ ((d:Int) < 0) := by omega
  rw [documented_iff, hv, if_neg hn]
  unfold guardQFromParts
  rw [err_iff]
  simp only [Option.some.injEq, divZero_iff]
  arith_iff

/-- `RBig::nearest` / `next_up` / `next_down`: the `limit.is_zero()` guard -/
theorem guardQLimit_iff (W : Nat) (n : Int) (d l : Nat) (c : Char) (k : Kind) (hd : 0 < d) (op : Op)
    (hop : op ∈ [Op.qNearest, .qNextUp, .qNextDown]) :
    guardQLimit l = .error k ↔ documented W op [.int n, .int d, .kind c, .int l] = some k := by
  have hv : verdict W op [.int n, .int d, .kind c, .int l] =
      if (d:Int) ≤ 0 ∨ (l:Int) < 0 then none else some (divZero l) := by
    simp at hop; rcases hop with h | h | h <;> subst h <;> rfl
  have hn : ¬ ((d:Int) ≤ 0 ∨ (l:Int) < 0) := by omega
  rw [documented_iff, hv, if_neg hn]
  unfold guardQLimit
  rw [err_iff]
  simp only [Option.some.injEq, divZero_iff]
  arith_iff

-- ---- floats: the guards run in the order of the code; the documentation lists the same conditions

theorem assertFiniteOperands_err (a b : FArg) (k : Kind) :
    assertFiniteOperands a b = .error k ↔ ((a.isInf = true ∨ b.isInf = true) ∧ Kind.infinite = k) := by
  unfold assertFiniteOperands; rw [err_iff]

/-- float `+` / `-` (operands canonical, exponents away from the `isize` limits) -/
theorem guardFAdd_iff (W : Nat) (a b : FArg) (k : Kind) (op : Op) (hop : op ∈ [Op.fAdd, .fSub])
    (hc : (a.canonical ∧ b.canonical ∧ sameKind a b)) (hm : (a.moderate ∧ b.moderate)) :
    guardFAdd a b = .error k ↔ documented W op [.flt a, .flt b] = some k := by
  have hv : verdict W op [.flt a, .flt b] =
      if ¬ (a.canonical ∧ b.canonical ∧ sameKind a b) then none
      else if ¬ (a.moderate ∧ b.moderate) then some .unspecified
      else some (firstOf [(a.isInf ∨ b.isInf, .infinite)]) := by
    simp at hop; rcases hop with h | h <;> subst h <;> rfl
  rw [documented_iff, hv, if_neg (by simpa using hc), if_neg (by simpa using hm)]
  unfold guardFAdd
  rw [assertFiniteOperands_err]
  simp only [Option.some.injEq, firstOf_one, decide_eq_true_eq]

/-- float `/`: finite operands, then limited precision, then a non-zero divisor — in this order -/
theorem guardFDiv_iff (W : Nat) (a b : FArg) (k : Kind)
    (hc : (a.canonical ∧ b.canonical ∧ sameKind a b)) (hm : (a.moderate ∧ b.moderate)) :
    guardFDiv W a b = .error k ↔ documented W .fDiv [.flt a, .flt b] = some k := by
  have hv : verdict W .fDiv [.flt a, .flt b] =
      if ¬ (a.canonical ∧ b.canonical ∧ sameKind a b) then none
      else if ¬ (a.moderate ∧ b.moderate) then some .unspecified
      else some (firstOf [(a.isInf ∨ b.isInf, .infinite), (maxPrec a b = 0, .unlimitedPrecision),
                          (b.isZero, .divideByZero)]) := rfl
  rw [documented_iff, hv, if_neg (by simpa using hc), if_neg (by simpa using hm)]
  simp only [Option.some.injEq, firstOf_three, decide_eq_true_eq, decide_eq_false_iff_not]
  unfold guardFDiv assertFiniteOperands assertLimitedPrecision maxPrec
  by_cases h1 : (a.isInf = true ∨ b.isInf = true)
  · simp [h1, bind, Except.bind]
  · have hbinf : b.isInf = false := by
      cases hb : b.isInf <;> simp_all
    by_cases h2 : max a.prec b.prec = 0
    · simp [h1, h2, bind, Except.bind]
    · simp only [h1, h2, if_false, bind, Except.bind, false_and, false_or, not_false_eq_true, true_and]
      rw [guardDivByZero_err]
      -- b finite: b.isZero ↔ significand = 0
      have : (b.isZero = true) ↔ b.signif.natAbs = 0 := by
        unfold FArg.isZero; unfold FArg.isInf at hbinf
        simp only [decide_eq_true_eq, decide_eq_false_iff_not] at *
        constructor
        · rintro ⟨h, _⟩; omega
        · intro h
          have hs : b.signif = 0 := by omega
          refine ⟨hs, ?_⟩
          by_cases he : b.exp = 0
          · exact he
          · exact absurd ⟨hs, he⟩ hbinf
      rw [this]

/-- float `sqrt`: finite, limited precision, non-negative -/
theorem guardFSqrt_iff (W : Nat) (a : FArg) (k : Kind) (hc : a.canonical) (hm : a.moderate) :
    guardFSqrt a = .error k ↔ documented W .fSqrt [.flt a] = some k := by
  have hv : verdict W .fSqrt [.flt a] =
      if ¬ a.canonical then none else if ¬ a.moderate then some .unspecified
      else some (firstOf [(a.isInf, .infinite), (a.prec = 0, .unlimitedPrecision), (a.isNeg, .rootNegative)]) := rfl
  rw [documented_iff, hv, if_neg (by simpa using hc), if_neg (by simpa using hm)]
  simp only [Option.some.injEq, firstOf_three, decide_eq_true_eq, decide_eq_false_iff_not]
  unfold guardFSqrt assertFinite assertLimitedPrecision
  by_cases h1 : a.isInf = true
  · simp [h1, bind, Except.bind]
  · by_cases h2 : a.prec = 0
    · simp [h1, h2, bind, Except.bind]
    · have h1' : a.isInf = false := by cases h : a.isInf <;> simp_all
      simp only [h1', h2, if_false, bind, Except.bind, Bool.false_eq_true, false_and, false_or, true_and,
        not_false_eq_true]
      rw [err_iff]
      -- finite: negative ↔ significand < 0
      have : (a.isNeg = true) ↔ a.signif < 0 := by
        unfold FArg.isNeg; unfold FArg.isInf at h1'
        simp only [decide_eq_true_eq, decide_eq_false_iff_not] at *
        constructor
        · rintro (h | ⟨hs, he⟩)
          · exact h
          · exact absurd ⟨hs, by omega⟩ h1'
        · intro h; exact Or.inl h
      rw [this]

/-- `FBig::ulp` -/
theorem guardFUlp_iff (W : Nat) (a : FArg) (k : Kind) (hc : a.canonical) (hm : a.moderate) (hp : a.prec ≤ 2 ^ 62) :
    guardFUlp a = .error k ↔ documented W .fUlp [.flt a] = some k := by
  have hv : verdict W .fUlp [.flt a] =
      if ¬ a.canonical then none else if ¬ a.moderate then some .unspecified
      else some (firstOf [(a.prec = 0, .unlimitedPrecision),
                          (¬ a.isInf ∧ a.exp + (a.digits : Int) - (a.prec : Int) < isizeMin, .exponentOverflow)]) := rfl
  rw [documented_iff, hv, if_neg (by simpa using hc), if_neg (by simpa using hm)]
  unfold guardFUlp
  rw [err_iff]
  -- with |exp| ≤ 2^61 and precision ≤ 2^62 the exponent of the ulp cannot leave isize
  have hno : (decide (¬ a.isInf = true ∧ a.exp + (a.digits : Int) - (a.prec : Int) < isizeMin)) = false := by
    rw [decide_eq_false_iff_not]
    intro ⟨hfin, hlt⟩
    unfold FArg.moderate at hm
    simp only [Bool.or_eq_true, Bool.and_eq_true, decide_eq_true_eq] at hm
    rcases hm with hinf | ⟨h1, _⟩
    · exact hfin hinf
    · have : isizeMin = -(2 ^ 63) := rfl
      rw [this] at hlt
      have hd : (0 : Int) ≤ (a.digits : Int) := Int.natCast_nonneg _
      have hp' : (a.prec : Int) ≤ 2 ^ 62 := by exact_mod_cast hp
      omega
  simp only [Option.some.injEq, firstOf, hno]
  by_cases h0 : a.prec = 0 <;> simp [h0]

/-- the hypothesis on the precision is needed: at precision 2^63 the ulp of 3·2^-5 is 2^(-3 − 2^63), below the exponent range
    (documented: ExponentOverflow); `FBig::ulp` checks nothing (`precision as isize`, unchecked subtraction) -/
theorem guardFUlp_counterexample :
    guardFUlp ⟨2, 3, -5, 2 ^ 63, 'Z'⟩ = .ok () ∧
    documented 64 .fUlp [.flt ⟨2, 3, -5, 2 ^ 63, 'Z'⟩] = some .exponentOverflow := by
  constructor <;> decide +kernel

-- ---- guards added by the fix: commits c27ca7f, 65edb1e, 0ffa05d, d9f681e, b0e87a3

theorem finite_iff (a : FArg) : a.isInf = false ↔ (a.signif = 0 → a.exp = 0) := by
  unfold FArg.isInf
  simp only [decide_eq_false_iff_not, not_and, not_not]

theorem isZero_of_finite (a : FArg) (h : a.isInf = false) : a.isZero = true ↔ a.signif = 0 := by
  rw [finite_iff] at h
  unfold FArg.isZero
  simp only [decide_eq_true_eq]
  exact ⟨fun h1 => h1.1, fun h1 => ⟨h1, h h1⟩⟩

theorem isNeg_of_finite (a : FArg) (h : a.isInf = false) : a.isNeg = true ↔ a.signif < 0 := by
  rw [finite_iff] at h
  unfold FArg.isNeg
  simp only [decide_eq_true_eq]
  constructor
  · rintro (h1 | ⟨h1, h2⟩)
    · exact h1
    · have := h h1; omega
  · intro h1; exact Or.inl h1

theorem not_inf_of (a : FArg) (h : ¬ a.isInf = true) : a.isInf = false := by
  cases h' : a.isInf <;> simp_all

/-- `UBig::is_multiple_of_const` (after c27ca7f) -/
theorem guardUIsMultipleOfConst_iff (W a d : Nat) (k : Kind) (hd : d < 2 ^ (2 * W)) :
    guardIsMultipleOfConst d = .error k ↔ documented W .uIsMultipleOfConst [.int a, .int d] = some k := by
  have hv : verdict W .uIsMultipleOfConst [.int a, .int d] =
      if (a:Int) < 0 ∨ (d:Int) < 0 ∨ (d:Int) ≥ 2 ^ (2 * W) then none else some (divZero d) := rfl
  have hd' : ¬ ((d:Int) ≥ 2 ^ (2 * W)) := by
    have : ((d:Nat):Int) < ((2 ^ (2 * W) : Nat) : Int) := by exact_mod_cast hd
    push_cast at this; omega
  have hn : ¬ ((a:Int) < 0 ∨ (d:Int) < 0 ∨ (d:Int) ≥ 2 ^ (2 * W)) := by
    intro h; rcases h with h | h | h
    · omega
    · omega
    · exact hd' h
  rw [documented_iff, hv, if_neg hn]
  unfold guardIsMultipleOfConst
  rw [err_iff]
  simp only [Option.some.injEq, divZero_iff]
  arith_iff

/-- `IBig::is_multiple_of_const` (after c27ca7f) -/
theorem guardIIsMultipleOfConst_iff (W : Nat) (a : Int) (d : Nat) (k : Kind) (hd : d < 2 ^ (2 * W)) :
    guardIsMultipleOfConst d = .error k ↔ documented W .iIsMultipleOfConst [.int a, .int d] = some k := by
  have hv : verdict W .iIsMultipleOfConst [.int a, .int d] =
      if (d:Int) < 0 ∨ (d:Int) ≥ 2 ^ (2 * W) then none else some (divZero d) := rfl
  have hd' : ¬ ((d:Int) ≥ 2 ^ (2 * W)) := by
    have : ((d:Nat):Int) < ((2 ^ (2 * W) : Nat) : Int) := by exact_mod_cast hd
    push_cast at this; omega
  have hn : ¬ ((d:Int) < 0 ∨ (d:Int) ≥ 2 ^ (2 * W)) := by
    intro h; rcases h with h | h
    · omega
    · exact hd' h
  rw [documented_iff, hv, if_neg hn]
  unfold guardIsMultipleOfConst
  rw [err_iff]
  simp only [Option.some.injEq, divZero_iff]
  arith_iff

/-- `FBig::split_at_point` (after 65edb1e) -/
theorem guardFSplitAtPoint_iff (W : Nat) (a : FArg) (k : Kind) (hc : a.canonical) (hm : a.moderate) :
    guardFSplitAtPoint a = .error k ↔ documented W .fSplitAtPoint [.flt a] = some k := by
  have hv : verdict W .fSplitAtPoint [.flt a] =
      if ¬ a.canonical then none else if ¬ a.moderate then some .unspecified
      else if a.isInf then some (.panics .infinite)
      else if a.exp ≤ 2 ^ 20 then some .returns else some .unspecified := rfl
  rw [documented_iff, hv, if_neg (by simpa using hc), if_neg (by simpa using hm)]
  unfold guardFSplitAtPoint assertFinite
  rw [err_iff]
  by_cases h1 : a.isInf = true
  · simp [h1]
  · have ha : a.isInf = false := not_inf_of a h1
    simp only [ha, Bool.false_eq_true, if_false, false_and, false_iff]
    split <;> simp

/-- float `div_euclid` / `rem_euclid` (after 0ffa05d): finite operands, then a non-zero divisor -/
theorem guardFEuclid_iff (W : Nat) (a b : FArg) (k : Kind) (op : Op) (hop : op ∈ [Op.fDivEuclid, .fRemEuclid])
    (hc : (a.canonical ∧ b.canonical ∧ sameKind a b)) (hm : (a.moderate ∧ b.moderate)) :
    guardFEuclid W a b = .error k ↔ documented W op [.flt a, .flt b] = some k := by
  have hv : verdict W op [.flt a, .flt b] =
      if ¬ (a.canonical ∧ b.canonical ∧ sameKind a b) then none
      else if ¬ (a.moderate ∧ b.moderate) then some .unspecified
      else some (firstOf [(a.isInf ∨ b.isInf, .infinite), (b.isZero, .divideByZero)]) := by
    simp at hop; rcases hop with h | h <;> subst h <;> rfl
  rw [documented_iff, hv, if_neg (by simpa using hc), if_neg (by simpa using hm)]
  simp only [Option.some.injEq, firstOf_two, decide_eq_true_eq, decide_eq_false_iff_not]
  unfold guardFEuclid assertFiniteOperands
  by_cases h1 : (a.isInf = true ∨ b.isInf = true)
  · simp [h1, bind, Except.bind]
  · have hb : b.isInf = false := not_inf_of b (fun h => h1 (Or.inr h))
    simp only [h1, if_false, bind, Except.bind, false_and, false_or, not_false_eq_true, true_and]
    rw [guardDivByZero_err, isZero_of_finite b hb]
    constructor <;> rintro ⟨h, hk⟩ <;> exact ⟨by omega, hk⟩

/-- float `powf` (after d9f681e): finite operands, limited precision, the returning shortcuts, negative base -/
theorem guardFPowf_iff (W : Nat) (a b : FArg) (k : Kind)
    (hc : (a.canonical ∧ b.canonical ∧ sameKind a b)) (hm : (a.moderate ∧ b.moderate)) :
    guardFPowf a b = .error k ↔ documented W .fPowf [.flt a, .flt b] = some k := by
  have hv : verdict W .fPowf [.flt a, .flt b] =
      if ¬ (a.canonical ∧ b.canonical ∧ sameKind a b) then none
      else if ¬ (a.moderate ∧ b.moderate) then some .unspecified
      else if a.isInf ∨ b.isInf then some (.panics .infinite)
      else if maxPrec a b = 0 then some (.panics .unlimitedPrecision)
      else if b.isZero ∨ (b.signif = 1 ∧ b.exp = 0) then some .returns
      else if a.isNeg then some (.panics .powNegativeBase)
      else if a.magAtMostPow2 (2 ^ 30) ∧ b.magAtMostPow2 30 ∧ a.exp ≥ -(2 ^ 30) then some .returns
      else some .unspecified := rfl
  rw [documented_iff, hv, if_neg (by simpa using hc), if_neg (by simpa using hm)]
  unfold guardFPowf assertFiniteOperands assertLimitedPrecision maxPrec
  by_cases h1 : (a.isInf = true ∨ b.isInf = true)
  · simp [h1, bind, Except.bind]
  · have ha : a.isInf = false := not_inf_of a (fun h => h1 (Or.inl h))
    have hb : b.isInf = false := not_inf_of b (fun h => h1 (Or.inr h))
    by_cases h2 : max a.prec b.prec = 0
    · simp [h1, h2, bind, Except.bind]
    · simp only [h1, h2, if_false, bind, Except.bind]
      by_cases h3 : b.signif = 0
      · have : b.isZero = true := (isZero_of_finite b hb).mpr h3
        simp [h3, this]
      · have hz : ¬ (b.isZero = true) := fun h => h3 ((isZero_of_finite b hb).mp h)
        by_cases h4 : b.signif = 1 ∧ b.exp = 0
        · simp [h3, h4]
        · simp only [h3, h4, hz, if_false, false_or]
          by_cases h5 : a.signif = 0
          · have : ¬ (a.isNeg = true) := fun h => by have := (isNeg_of_finite a ha).mp h; omega
            simp only [h5, this, if_true, if_false]
            repeat' split
            all_goals simp_all
          · by_cases h6 : a.signif < 0
            · have : a.isNeg = true := (isNeg_of_finite a ha).mpr h6
              simp [h5, h6, this]
            · have : ¬ (a.isNeg = true) := fun h => h6 ((isNeg_of_finite a ha).mp h)
              simp only [h5, h6, this, if_false]
              repeat' split
              all_goals simp_all

theorem canonical_base (a : FArg) (h : a.canonical = true) : a.base = 2 ∨ a.base = 10 := by
  unfold FArg.canonical at h
  simp only [Bool.and_eq_true, Bool.or_eq_true, decide_eq_true_eq] at h
  rcases h.1 with h1 | h1
  · exact Or.inl h1.1
  · exact Or.inr h1.1

/-- float `ln` (after b0e87a3): the domain guard `x ≤ 0` is now in the code -/
theorem guardFLn_iff (W : Nat) (a : FArg) (k : Kind) (hc : a.canonical) (hm : a.moderate) :
    guardFLn a = .error k ↔ documented W .fLn [.flt a] = some k := by
  have hv : verdict W .fLn [.flt a] =
      if ¬ a.canonical then none else if ¬ a.moderate then some .unspecified
      else some (firstOf [(a.isInf, .infinite), (a.prec = 0, .unlimitedPrecision),
                          (a.isZero ∨ a.isNeg, .logInvalid)]) := rfl
  rw [documented_iff, hv, if_neg (by simpa using hc), if_neg (by simpa using hm)]
  simp only [Option.some.injEq, firstOf_three, decide_eq_true_eq, decide_eq_false_iff_not]
  unfold guardFLn assertFinite assertLimitedPrecision
  by_cases h1 : a.isInf = true
  · simp [h1, bind, Except.bind]
  · have ha : a.isInf = false := not_inf_of a h1
    by_cases h2 : a.prec = 0
    · simp [h1, h2, bind, Except.bind]
    · simp only [ha, h2, if_false, bind, Except.bind, Bool.false_eq_true, false_and, false_or, true_and,
        not_false_eq_true]
      rw [isZero_of_finite a ha, isNeg_of_finite a ha]
      by_cases h3 : a.signif = 1 ∧ a.exp = 0
      · simp only [h3, and_self, if_true]
        constructor
        · intro h; cases h
        · rintro ⟨h, _⟩; omega
      · simp only [h3, if_false]
        rw [err_iff]

/-- float `ln_1p` (after b0e87a3): the domain guard `x ≤ -1` -/
theorem guardFLn1p_iff (W : Nat) (a : FArg) (k : Kind) (hc : a.canonical) (hm : a.moderate) :
    guardFLn1p a = .error k ↔ documented W .fLn1p [.flt a] = some k := by
  have hv : verdict W .fLn1p [.flt a] =
      if ¬ a.canonical then none else if ¬ a.moderate then some .unspecified
      else some (firstOf [(a.isInf, .infinite), (a.prec = 0, .unlimitedPrecision),
                          (a.isNeg ∧ (a.exp ≥ 0 ∨ a.signif.natAbs ≥ a.base ^ (-a.exp).toNat), .logInvalid)]) := rfl
  rw [documented_iff, hv, if_neg (by simpa using hc), if_neg (by simpa using hm)]
  simp only [Option.some.injEq, firstOf_three, decide_eq_true_eq, decide_eq_false_iff_not]
  unfold guardFLn1p assertFinite assertLimitedPrecision
  by_cases h1 : a.isInf = true
  · simp [h1, bind, Except.bind]
  · have ha : a.isInf = false := not_inf_of a h1
    by_cases h2 : a.prec = 0
    · simp [h1, h2, bind, Except.bind]
    · simp only [ha, h2, if_false, bind, Except.bind, Bool.false_eq_true, false_and, false_or, true_and,
        not_false_eq_true]
      rw [isNeg_of_finite a ha]
      have hbase : 1 ≤ a.base := by rcases canonical_base a hc with h | h <;> omega
      by_cases h3 : a.signif = 0
      · simp only [h3, if_true]
        constructor
        · intro h; cases h
        · rintro ⟨⟨h, _⟩, _⟩; omega
      · simp only [h3, if_false]
        rw [err_iff]
        -- leNegOne ↔ the documentation's integer formulation, for a negative significand
        have key : a.signif < 0 →
            (leNegOne a = true ↔ (a.exp ≥ 0 ∨ a.signif.natAbs ≥ a.base ^ (-a.exp).toNat)) := by
          intro hneg
          unfold leNegOne
          by_cases he : a.exp ≥ 0
          · have hp : 1 ≤ a.base ^ a.exp.toNat := Nat.one_le_pow _ _ hbase
            simp only [he, if_true, decide_eq_true_eq, true_or, iff_true]
            have hp' : (1:Int) ≤ ((a.base ^ a.exp.toNat : Nat) : Int) := by exact_mod_cast hp
            nlinarith
          · simp only [he, if_false, decide_eq_true_eq, false_or]
            omega
        constructor
        · rintro ⟨⟨hneg, hle⟩, hk⟩; exact ⟨⟨hneg, (key hneg).mp hle⟩, hk⟩
        · rintro ⟨⟨hneg, hle⟩, hk⟩; exact ⟨⟨hneg, (key hneg).mpr hle⟩, hk⟩

end Dashu.Proofs.Panic
