import Dashu.Model.Panic.GuardsMore
import Dashu.Proofs.Panic.Guards
/-
  C16 round 2: `guard = documented` for the families of `Dashu.Model.Panic.GuardsMore`.
  Where the code checks LESS than the documentation promises (unchecked exponent arithmetic, target precision of
  `with_base`) the theorem carries the weakest hypothesis that excludes the recorded finding, and a
  `…_counterexample` shows the hypothesis is needed.
-/
namespace Dashu.Proofs.Panic
open Dashu.Spec.Panics Dashu.Model.Panic

theorem assertFinite_err (a : FArg) (k : Kind) :
    assertFinite a = .error k ↔ (a.isInf = true ∧ Kind.infinite = k) := by
  unfold assertFinite; rw [err_iff]

theorem tail_ne_panics (c : Prop) [Decidable c] (k : Kind) :
    (if c then some Verdict.returns else some Verdict.unspecified) ≠ some (.panics k) := by
  split <;> simp

-- ------------------------------------------------------------------ floats

/-- `to_int / trunc / fract / ceil / floor / round`: Infinite and nothing else -/
theorem guardFFiniteOnly_iff (W : Nat) (a : FArg) (k : Kind) (op : Op)
    (hop : op ∈ [Op.fToInt, .fTrunc, .fFract, .fCeil, .fFloor, .fRound])
    (hc : a.canonical) (hm : a.moderate) :
    guardFFiniteOnly a = .error k ↔ documented W op [.flt a] = some k := by
  have hv : verdict W op [.flt a] =
      if ¬ a.canonical then none else if ¬ a.moderate then some .unspecified
      else if a.isInf then some (.panics .infinite)
      else if a.exp ≤ 2 ^ 20 then some .returns else some .unspecified := by
    simp at hop; rcases hop with h | h | h | h | h | h <;> subst h <;> rfl
  rw [documented_iff, hv, if_neg (by simpa using hc), if_neg (by simpa using hm)]
  unfold guardFFiniteOnly
  rw [assertFinite_err]
  by_cases h1 : a.isInf = true
  · simp [h1]
  · have ha : a.isInf = false := not_inf_of a h1
    simp only [ha, Bool.false_eq_true, if_false, false_and, false_iff]
    exact tail_ne_panics _ k

/-- float `*`: as long as the exponent sum stays inside `isize` (hypothesis: the documentation does not promise an
    overflow panic), the only panic is Infinite -/
theorem guardFMul_iff_partial (W : Nat) (a b : FArg) (k : Kind)
    (hc : (a.canonical ∧ b.canonical ∧ sameKind a b))
    (hexp : expApprox (a.exp + b.exp) = .returns) :
    guardFMul a b = .error k ↔ documented W .fMul [.flt a, .flt b] = some k := by
  have hv : verdict W .fMul [.flt a, .flt b] =
      if ¬ (a.canonical ∧ b.canonical ∧ sameKind a b) then none
      else if a.isInf ∨ b.isInf then some (.panics .infinite)
      else if a.isZero ∨ b.isZero then some .returns
      else some (expApprox (a.exp + b.exp)) := rfl
  rw [documented_iff, hv, if_neg (by simpa using hc), hexp]
  unfold guardFMul
  rw [assertFiniteOperands_err]
  by_cases h1 : (a.isInf = true ∨ b.isInf = true)
  · simp [h1]
  · simp only [h1, false_and, if_false, false_iff]
    split <;> simp

/-- the hypothesis is needed: `2^(2^62+2^42) · 2^(2^62+2^42)` — the code's guard passes, the documentation promises a panic -/
theorem guardFMul_counterexample :
    guardFMul ⟨2, 1, 2 ^ 62 + 2 ^ 42, 0, 'Z'⟩ ⟨2, 1, 2 ^ 62 + 2 ^ 42, 0, 'Z'⟩ = .ok () ∧
    documented 64 .fMul [.flt ⟨2, 1, 2 ^ 62 + 2 ^ 42, 0, 'Z'⟩, .flt ⟨2, 1, 2 ^ 62 + 2 ^ 42, 0, 'Z'⟩]
      = some .exponentOverflow := by
  constructor <;> decide

/-- `sqr` (`m = 2`) / `cubic` (`m = 3`) under the same kind of hypothesis -/
theorem guardFSqr_iff_partial (W : Nat) (a : FArg) (k : Kind) (hc : a.canonical)
    (hexp : expApprox (2 * a.exp) = .returns) :
    guardFSqrCubic a = .error k ↔ documented W .fSqr [.flt a] = some k := by
  have hv : verdict W .fSqr [.flt a] =
      if ¬ a.canonical then none
      else if a.isInf then some (.panics .infinite) else if a.isZero then some .returns
      else some (expApprox (2 * a.exp)) := rfl
  rw [documented_iff, hv, if_neg (by simpa using hc), hexp]
  unfold guardFSqrCubic
  rw [assertFinite_err]
  by_cases h1 : a.isInf = true
  · simp [h1]
  · have ha : a.isInf = false := not_inf_of a h1
    simp only [ha, Bool.false_eq_true, if_false, false_and, false_iff]
    split <;> simp

theorem guardFCubic_iff_partial (W : Nat) (a : FArg) (k : Kind) (hc : a.canonical)
    (hexp : expApprox (3 * a.exp) = .returns) :
    guardFSqrCubic a = .error k ↔ documented W .fCubic [.flt a] = some k := by
  have hv : verdict W .fCubic [.flt a] =
      if ¬ a.canonical then none
      else if a.isInf then some (.panics .infinite) else if a.isZero then some .returns
      else some (expApprox (3 * a.exp)) := rfl
  rw [documented_iff, hv, if_neg (by simpa using hc), hexp]
  unfold guardFSqrCubic
  rw [assertFinite_err]
  by_cases h1 : a.isInf = true
  · simp [h1]
  · have ha : a.isInf = false := not_inf_of a h1
    simp only [ha, Bool.false_eq_true, if_false, false_and, false_iff]
    split <;> simp

/-- float `%` -/
theorem guardFRem_iff (W : Nat) (a b : FArg) (k : Kind)
    (hc : (a.canonical ∧ b.canonical ∧ sameKind a b)) (hm : (a.moderate ∧ b.moderate)) :
    guardFRem W a b = .error k ↔ documented W .fRem [.flt a, .flt b] = some k := by
  have hv : verdict W .fRem [.flt a, .flt b] =
      if ¬ (a.canonical ∧ b.canonical ∧ sameKind a b) then none
      else if ¬ (a.moderate ∧ b.moderate) then some .unspecified
      else some (firstOf [(a.isInf ∨ b.isInf, .infinite), (b.isZero, .divideByZero)]) := rfl
  rw [documented_iff, hv, if_neg (by simpa using hc), if_neg (by simpa using hm)]
  simp only [Option.some.injEq, firstOf_two, decide_eq_true_eq, decide_eq_false_iff_not]
  unfold guardFRem assertFiniteOperands
  by_cases h1 : (a.isInf = true ∨ b.isInf = true)
  · simp [h1, bind, Except.bind]
  · have hb : b.isInf = false := not_inf_of b (fun h => h1 (Or.inr h))
    simp only [h1, if_false, bind, Except.bind, false_and, false_or, not_false_eq_true, true_and]
    rw [guardDivByZero_err, isZero_of_finite b hb]
    constructor <;> rintro ⟨h, hk⟩ <;> exact ⟨by omega, hk⟩

/-- float `inv` -/
theorem guardFInv_iff (W : Nat) (a : FArg) (k : Kind) (hc : a.canonical) (hm : a.moderate) :
    guardFInv W a = .error k ↔ documented W .fInv [.flt a] = some k := by
  have hv : verdict W .fInv [.flt a] =
      if ¬ a.canonical then none else if ¬ a.moderate then some .unspecified
      else some (firstOf [(a.isInf, .infinite), (a.prec = 0, .unlimitedPrecision), (a.isZero, .divideByZero)]) := rfl
  rw [documented_iff, hv, if_neg (by simpa using hc), if_neg (by simpa using hm)]
  simp only [Option.some.injEq, firstOf_three, decide_eq_true_eq, decide_eq_false_iff_not]
  unfold guardFInv assertFinite assertLimitedPrecision
  by_cases h1 : a.isInf = true
  · simp [h1, bind, Except.bind]
  · have ha : a.isInf = false := not_inf_of a h1
    by_cases h2 : a.prec = 0
    · simp [h1, h2, bind, Except.bind]
    · simp only [ha, h2, if_false, bind, Except.bind, Bool.false_eq_true, false_and, false_or, true_and,
        not_false_eq_true]
      rw [guardDivByZero_err, isZero_of_finite a ha]
      constructor <;> rintro ⟨h, hk⟩ <;> exact ⟨by omega, hk⟩

/-- `exp`, for arguments that cannot overflow (`|x| ≤ 2^61`) -/
theorem guardFExp_iff_partial (W : Nat) (a : FArg) (k : Kind) (hc : a.canonical) (hm : a.moderate)
    (h66 : a.magAtLeastPow2 66 = false) (h61 : a.magAtMostPow2 61 = true) :
    guardFExp a = .error k ↔ documented W .fExp [.flt a] = some k := by
  have hv : verdict W .fExp [.flt a] =
      if ¬ a.canonical then none else if ¬ a.moderate then some .unspecified
      else if a.isInf then some (.panics .infinite)
      else if a.prec = 0 then some (.panics .unlimitedPrecision)
      else if a.magAtLeastPow2 66 then some (.panics .exponentOverflow)
      else if a.magAtMostPow2 61 then some .returns
      else some .unspecified := rfl
  rw [documented_iff, hv, if_neg (by simpa using hc), if_neg (by simpa using hm)]
  unfold guardFExp assertFinite assertLimitedPrecision
  by_cases h1 : a.isInf = true
  · simp [h1, bind, Except.bind]
  · have ha : a.isInf = false := not_inf_of a h1
    by_cases h2 : a.prec = 0
    · simp [ha, h2, bind, Except.bind]
    · simp [ha, h2, h66, h61, bind, Except.bind]

theorem guardFExpM1_iff_partial (W : Nat) (a : FArg) (k : Kind) (hc : a.canonical) (hm : a.moderate)
    (h66 : a.magAtLeastPow2 66 = false) (h61 : a.magAtMostPow2 61 = true) :
    guardFExp a = .error k ↔ documented W .fExpM1 [.flt a] = some k := by
  have hv : verdict W .fExpM1 [.flt a] =
      if ¬ a.canonical then none else if ¬ a.moderate then some .unspecified
      else if a.isInf then some (.panics .infinite)
      else if a.prec = 0 then some (.panics .unlimitedPrecision)
      else if a.magAtLeastPow2 66 then (if a.isNeg then some .returns else some (.panics .exponentOverflow))
      else if a.magAtMostPow2 61 then some .returns
      else some .unspecified := rfl
  rw [documented_iff, hv, if_neg (by simpa using hc), if_neg (by simpa using hm)]
  unfold guardFExp assertFinite assertLimitedPrecision
  by_cases h1 : a.isInf = true
  · simp [h1, bind, Except.bind]
  · have ha : a.isInf = false := not_inf_of a h1
    by_cases h2 : a.prec = 0
    · simp [ha, h2, bind, Except.bind]
    · simp [ha, h2, h66, h61, bind, Except.bind]

/-- `powi`: Infinite; negative exponent at unlimited precision; `0^(-n)`; under the hypothesis that the result
    exponent of `(±B^k)^e` stays inside `isize` -/
theorem guardFPowi_iff_partial (W : Nat) (a : FArg) (e : Int) (k : Kind) (hc : a.canonical) (hm : a.moderate)
    (hexp : a.signif.natAbs = 1 → expApprox (a.exp * e) = .returns) :
    guardFPowi a e = .error k ↔ documented W .fPowi [.flt a, .int e] = some k := by
  have hv : verdict W .fPowi [.flt a, .int e] =
      if ¬ a.canonical then none
      else if ¬ a.moderate ∧ a.signif.natAbs ≠ 1 then some .unspecified
      else if a.isInf then some (.panics .infinite)
      else if e < 0 ∧ a.prec = 0 then some (.panics .unlimitedPrecision)
      else if e < 0 ∧ a.isZero then some (.panics .divideByZero)
      else if a.isZero ∨ e = 0 then some .returns
      else if a.signif.natAbs = 1 then some (expApprox (a.exp * e))
      else if e.natAbs ≤ 2 ^ 10 ∧ a.exp.natAbs ≤ 2 ^ 30 then some .returns
      else some .unspecified := rfl
  have hm' : ¬ (¬ a.moderate = true ∧ a.signif.natAbs ≠ 1) := fun h => h.1 hm
  rw [documented_iff, hv, if_neg (by simpa using hc), if_neg hm']
  unfold guardFPowi assertFinite assertLimitedPrecision
  by_cases h1 : a.isInf = true
  · simp [h1, bind, Except.bind]
  · have ha : a.isInf = false := not_inf_of a h1
    simp only [ha, Bool.false_eq_true, if_false, bind, Except.bind]
    by_cases he : e < 0
    · by_cases h2 : a.prec = 0
      · simp [he, h2]
      · have hz := isZero_of_finite a ha
        by_cases h3 : a.signif = 0
        · have : a.isZero = true := hz.mpr h3
          simp [he, h2, h3, this]
        · have : ¬ (a.isZero = true) := fun h => h3 (hz.mp h)
          have he0 : ¬ e = 0 := by omega
          simp only [he, h2, h3, this, true_and, if_false, if_true, false_or, he0, and_false]
          by_cases h4 : a.signif.natAbs = 1
          · simp [h4, hexp h4]
          · simp only [h4, if_false]
            constructor
            · intro h; cases h
            · intro h; exact absurd h (tail_ne_panics _ k)
    · simp only [he, false_and, if_false]
      constructor
      · intro h; cases h
      · intro h
        exfalso
        by_cases h5 : (a.isZero = true ∨ e = 0)
        · simp [h5] at h
        · simp only [h5, if_false] at h
          by_cases h4 : a.signif.natAbs = 1
          · simp [h4, hexp h4] at h
          · simp only [h4, if_false] at h
            exact tail_ne_panics _ k h

/-- `<<` on floats, as long as the shifted exponent stays inside `isize` -/
theorem guardFShl_iff_partial (W : Nat) (a : FArg) (n : Int) (k : Kind) (hc : a.canonical)
    (hn : isizeMin ≤ n ∧ n ≤ isizeMax) (hexp : expExact (a.exp + n) = .returns) :
    guardFShift a = .error k ↔ documented W .fShl [.flt a, .dec n] = some k := by
  have hv : verdict W .fShl [.flt a, .dec n] =
      if ¬ a.canonical ∨ n < isizeMin ∨ n > isizeMax then none
      else if a.isInf then some (.panics .infinite) else if a.isZero then some .returns
      else some (expExact (a.exp + n)) := rfl
  have hn' : ¬ (¬ a.canonical = true ∨ n < isizeMin ∨ n > isizeMax) := by
    intro h; rcases h with h | h | h
    · exact h hc
    · omega
    · omega
  rw [documented_iff, hv, if_neg hn', hexp]
  unfold guardFShift
  rw [assertFinite_err]
  by_cases h1 : a.isInf = true
  · simp [h1]
  · have ha : a.isInf = false := not_inf_of a h1
    simp only [ha, Bool.false_eq_true, if_false, false_and, false_iff]
    split <;> simp

theorem guardFShr_iff_partial (W : Nat) (a : FArg) (n : Int) (k : Kind) (hc : a.canonical)
    (hn : isizeMin ≤ n ∧ n ≤ isizeMax) (hexp : expExact (a.exp - n) = .returns) :
    guardFShift a = .error k ↔ documented W .fShr [.flt a, .dec n] = some k := by
  have hv : verdict W .fShr [.flt a, .dec n] =
      if ¬ a.canonical ∨ n < isizeMin ∨ n > isizeMax then none
      else if a.isInf then some (.panics .infinite) else if a.isZero then some .returns
      else some (expExact (a.exp - n)) := rfl
  have hn' : ¬ (¬ a.canonical = true ∨ n < isizeMin ∨ n > isizeMax) := by
    intro h; rcases h with h | h | h
    · exact h hc
    · omega
    · omega
  rw [documented_iff, hv, if_neg hn', hexp]
  unfold guardFShift
  rw [assertFinite_err]
  by_cases h1 : a.isInf = true
  · simp [h1]
  · have ha : a.isInf = false := not_inf_of a h1
    simp only [ha, Bool.false_eq_true, if_false, false_and, false_iff]
    split <;> simp

/-- the hypothesis is needed: `1 << isize::MAX` applied to `2^30` -/
theorem guardFShl_counterexample :
    guardFShift ⟨2, 1, 30, 0, 'Z'⟩ = .ok () ∧
    documented 64 .fShl [.flt ⟨2, 1, 30, 0, 'Z'⟩, .dec (2 ^ 63 - 1)] = some .exponentOverflow := by
  constructor <;> decide

theorem two_pow_lt_ten (p : Nat) : 2 ^ p < 10 ↔ p ≤ 3 := by
  constructor
  · intro h
    by_cases hp : p ≤ 3
    · exact hp
    · exfalso
      have : 2 ^ 4 ≤ 2 ^ p := Nat.pow_le_pow_right (by decide) (by omega)
      omega
  · intro h
    have : p = 0 ∨ p = 1 ∨ p = 2 ∨ p = 3 := by omega
    rcases this with h | h | h | h <;> subst h <;> decide

theorem ten_pow_lt_two (p : Nat) : 10 ^ p < 2 ↔ p = 0 := by
  constructor
  · intro h
    by_cases hp : p = 0
    · exact hp
    · exfalso
      have : 10 ^ 1 ≤ 10 ^ p := Nat.pow_le_pow_right (by decide) (by omega)
      omega
  · intro h; subst h; decide

/-- `to_binary` (decimal or binary source): UnlimitedPrecision exactly when the documentation says so -/
theorem guardFToBinary_iff (W : Nat) (a : FArg) (k : Kind) (hc : a.canonical) (he : a.exp.natAbs ≤ 2 ^ 20) :
    guardFConvertBase a 2 = .error k ↔ documented W .fToBinary [.flt a] = some k := by
  have hv : verdict W .fToBinary [.flt a] =
      if ¬ a.canonical then none
      else if a.isInf then some .returns
      else if a.exp.natAbs > 2 ^ 20 then some .unspecified
      else some (firstOf [(a.base ≠ 2 ∧ a.prec = 0, .unlimitedPrecision)]) := rfl
  rw [documented_iff, hv, if_neg (by simpa using hc)]
  unfold guardFConvertBase
  rcases canonical_base a hc with hb | hb
  · simp [hb]
    split
    · simp
    · split <;> simp [firstOf]
  · have hb2 : ¬ a.base = 2 := by omega
    by_cases h1 : a.isInf = true
    · simp [hb2, h1]
    · have ha : a.isInf = false := not_inf_of a h1
      have he' : ¬ (a.exp.natAbs > 2 ^ 20) := by omega
      simp only [hb2, ha, he', if_false, Bool.false_eq_true, Option.some.injEq, firstOf_one, decide_eq_true_eq]
      rw [err_iff, hb, ten_pow_lt_two]
      simp

/-- `to_decimal` of a binary float: the code derives the TARGET precision `⌊p·log10 2⌋`, which is 0 for `p ≤ 3`;
    outside that range (hypothesis) guard and documentation agree -/
theorem guardFToDecimal_iff_partial (W : Nat) (a : FArg) (k : Kind) (hc : a.canonical) (he : a.exp.natAbs ≤ 2 ^ 20)
    (hp : a.base = 2 → (a.prec = 0 ∨ 4 ≤ a.prec)) :
    guardFConvertBase a 10 = .error k ↔ documented W .fToDecimal [.flt a] = some k := by
  have hv : verdict W .fToDecimal [.flt a] =
      if ¬ a.canonical then none
      else if a.isInf then some .returns
      else if a.exp.natAbs > 2 ^ 20 then some .unspecified
      else some (firstOf [(a.base ≠ 10 ∧ a.prec = 0, .unlimitedPrecision)]) := rfl
  rw [documented_iff, hv, if_neg (by simpa using hc)]
  unfold guardFConvertBase
  rcases canonical_base a hc with hb | hb
  · have hb10 : ¬ a.base = 10 := by omega
    by_cases h1 : a.isInf = true
    · simp [hb10, h1]
    · have ha : a.isInf = false := not_inf_of a h1
      have he' : ¬ (a.exp.natAbs > 2 ^ 20) := by omega
      simp only [hb10, ha, he', if_false, Bool.false_eq_true, Option.some.injEq, firstOf_one, decide_eq_true_eq]
      rw [err_iff, hb, two_pow_lt_ten]
      have := hp hb
      constructor
      · rintro ⟨h, hk⟩; exact ⟨⟨by omega, by omega⟩, hk⟩
      · rintro ⟨⟨_, h⟩, hk⟩; exact ⟨by omega, hk⟩
  · simp [hb]
    split
    · simp
    · split <;> simp [firstOf]

/-- the hypothesis is needed (the recorded finding): a binary float of precision 1 -/
theorem guardFToDecimal_counterexample :
    guardFConvertBase ⟨2, 1, 0, 1, 'Z'⟩ 10 = .error .unlimitedPrecision ∧
    documented 64 .fToDecimal [.flt ⟨2, 1, 0, 1, 'Z'⟩] = none := by
  constructor <;> decide

/-- `FBig::from_repr`: the debug assertion is the documented condition -/
theorem guardFFromRepr_iff (W : Nat) (dbg : Int) (a : FArg) (k : Kind) (hd : dbg = 0 ∨ dbg = 1)
    (hb : (a.base = 2 ∧ a.mode = 'Z') ∨ (a.base = 10 ∧ a.mode = 'H')) (hm : a.moderate) :
    guardFFromRepr (dbg = 1) a = .error k ↔ documented W .fFromRepr [.dec dbg, .flt a] = some k := by
  have hv : verdict W .fFromRepr [.dec dbg, .flt a] =
      if ¬ (dbg = 0 ∨ dbg = 1) ∨ ¬ ((a.base = 2 ∧ a.mode = 'Z') ∨ (a.base = 10 ∧ a.mode = 'H')) then none
      else if ¬ a.moderate then some .unspecified
      else some (firstOf [(dbg = 1 ∧ ¬ a.isInf ∧ a.prec ≠ 0 ∧ a.normDigits > a.prec, .precisionExceeded)]) := rfl
  have h0 : ¬ (¬ (dbg = 0 ∨ dbg = 1) ∨ ¬ ((a.base = 2 ∧ a.mode = 'Z') ∨ (a.base = 10 ∧ a.mode = 'H'))) := by
    intro h; rcases h with h | h
    · exact h hd
    · exact h hb
  rw [documented_iff, hv, if_neg h0, if_neg (by simpa using hm)]
  unfold guardFFromRepr
  rw [err_iff]
  simp only [Option.some.injEq, firstOf_one, decide_eq_true_eq]
  constructor
  · rintro ⟨⟨h1, h2⟩, hk⟩
    refine ⟨⟨h1, ?_, ?_, ?_⟩, hk⟩
    · intro h; exact h2 (Or.inl h)
    · intro h; exact h2 (Or.inr (Or.inl h))
    · by_cases h : a.normDigits ≤ a.prec
      · exact absurd (Or.inr (Or.inr h)) h2
      · omega
  · rintro ⟨⟨h1, h2, h3, h4⟩, hk⟩
    refine ⟨⟨h1, ?_⟩, hk⟩
    rintro (h | h | h)
    · exact h2 h
    · exact h3 h
    · omega

-- ------------------------------------------------------------------ rationals

theorem guardQFromPartsSigned_iff (W : Nat) (n d : Int) (c : Char) (k : Kind) :
    guardQFromPartsSigned d = .error k ↔ documented W .qFromPartsSigned [.int n, .int d, .kind c] = some k := by
  have hv : verdict W .qFromPartsSigned [.int n, .int d, .kind c] = some (divZero d) := rfl
  rw [documented_iff, hv]
  unfold guardQFromPartsSigned
  rw [err_iff]
  simp only [Option.some.injEq, divZero_iff]

theorem guardQInv_iff (W : Nat) (n : Int) (d : Nat) (c : Char) (k : Kind) (hd : 0 < d) :
    guardQInv n = .error k ↔ documented W .qInv [.int n, .int d, .kind c] = some k := by
  have hv : verdict W .qInv [.int n, .int d, .kind c] = if (d:Int) ≤ 0 then none else some (divZero n) := rfl
  have hn : ¬ ((d:Int) ≤ 0) := by omega
  rw [documented_iff, hv, if_neg hn]
  unfold guardQInv
  rw [err_iff]
  simp only [Option.some.injEq, divZero_iff]

/-- rational `/`, `%`, `div_euclid`: a zero divisor -/
theorem guardQDiv_iff (W : Nat) (n n2 : Int) (d d2 : Nat) (c : Char) (k : Kind) (hd : 0 < d) (hd2 : 0 < d2) (op : Op)
    (hop : op ∈ [Op.qDiv, .qRem, .qDivEuclid]) :
    guardQDiv n2 = .error k ↔ documented W op [.int n, .int d, .kind c, .int n2, .int d2] = some k := by
  have hv : verdict W op [.int n, .int d, .kind c, .int n2, .int d2] =
      if (d:Int) ≤ 0 ∨ (d2:Int) ≤ 0 then none else some (divZero n2) := by
    simp at hop; rcases hop with h | h | h <;> subst h <;> rfl
  have hn : ¬ ((d:Int) ≤ 0 ∨ (d2:Int) ≤ 0) := by omega
  rw [documented_iff, hv, if_neg hn]
  unfold guardQDiv
  rw [err_iff]
  simp only [Option.some.injEq, divZero_iff]

theorem guardQDivInt_iff (W : Nat) (n i : Int) (d : Nat) (c : Char) (k : Kind) (hd : 0 < d) :
    guardQDivInt i = .error k ↔ documented W .qDivInt [.int n, .int d, .kind c, .int i] = some k := by
  have hv : verdict W .qDivInt [.int n, .int d, .kind c, .int i] =
      if (d:Int) ≤ 0 then none else some (divZero i) := rfl
  have hn : ¬ ((d:Int) ≤ 0) := by omega
  rw [documented_iff, hv, if_neg hn]
  unfold guardQDivInt
  rw [err_iff]
  simp only [Option.some.injEq, divZero_iff]

-- ------------------------------------------------------------------ ConstDivisor / Reduced / chunks / radix

theorem guardCdFromWord_iff (W x : Nat) (k : Kind) (hx : x < 2 ^ W) :
    guardCdFromPrim x = .error k ↔ documented W .cdFromWord [.int x] = some k := by
  have hv : verdict W .cdFromWord [.int x] = if (x:Int) < 0 ∨ (x:Int) ≥ 2 ^ W then none else some (divZero x) := rfl
  have hx' : ¬ ((x:Int) ≥ 2 ^ W) := by
    have : ((x:Nat):Int) < ((2 ^ W : Nat) : Int) := by exact_mod_cast hx
    push_cast at this; omega
  have hn : ¬ ((x:Int) < 0 ∨ (x:Int) ≥ 2 ^ W) := by
    intro h; rcases h with h | h
    · omega
    · exact hx' h
  rw [documented_iff, hv, if_neg hn]
  unfold guardCdFromPrim
  rw [err_iff]
  simp only [Option.some.injEq, divZero_iff]
  arith_iff

theorem guardCdFromDword_iff (W x : Nat) (k : Kind) (hx : x < 2 ^ (2 * W)) :
    guardCdFromPrim x = .error k ↔ documented W .cdFromDword [.int x] = some k := by
  have hv : verdict W .cdFromDword [.int x] =
      if (x:Int) < 0 ∨ (x:Int) ≥ 2 ^ (2 * W) then none else some (divZero x) := rfl
  have hx' : ¬ ((x:Int) ≥ 2 ^ (2 * W)) := by
    have : ((x:Nat):Int) < ((2 ^ (2 * W) : Nat) : Int) := by exact_mod_cast hx
    push_cast at this; omega
  have hn : ¬ ((x:Int) < 0 ∨ (x:Int) ≥ 2 ^ (2 * W)) := by
    intro h; rcases h with h | h
    · omega
    · exact hx' h
  rw [documented_iff, hv, if_neg hn]
  unfold guardCdFromPrim
  rw [err_iff]
  simp only [Option.some.injEq, divZero_iff]
  arith_iff

/-- `x / &ConstDivisor::new(m)`, `ring.reduce(a).inv()`, `.pow(e)`: the constructor's zero test -/
theorem guardCdUse_iff (W m : Nat) (x e : Int) (k : Kind) (he : 0 ≤ e) :
    (guardCdNew W m = .error k ↔ documented W .cdDivRem [.int x, .int m] = some k) ∧
    (guardCdNew W m = .error k ↔ documented W .mInv [.int m, .int x] = some k) ∧
    (guardCdNew W m = .error k ↔ documented W .mPow [.int m, .int x, .int e] = some k) := by
  have hv1 : verdict W .cdDivRem [.int x, .int m] = if (m:Int) < 0 then none else some (divZero m) := rfl
  have hv2 : verdict W .mInv [.int m, .int x] = if (m:Int) < 0 then none else some (divZero m) := rfl
  have hv3 : verdict W .mPow [.int m, .int x, .int e] = if (m:Int) < 0 ∨ e < 0 then none else some (divZero m) := rfl
  have hn : ¬ ((m:Int) < 0) := by omega
  have hn3 : ¬ ((m:Int) < 0 ∨ e < 0) := by omega
  unfold guardCdNew
  refine ⟨?_, ?_, ?_⟩
  · rw [documented_iff, hv1, if_neg hn, guardDivByZero_err]; simp only [Option.some.injEq, divZero_iff]; arith_iff
  · rw [documented_iff, hv2, if_neg hn, guardDivByZero_err]; simp only [Option.some.injEq, divZero_iff]; arith_iff
  · rw [documented_iff, hv3, if_neg hn3, guardDivByZero_err]; simp only [Option.some.injEq, divZero_iff]; arith_iff

theorem guardCdNew_eq (W m : Nat) :
    guardCdNew W m = if m = 0 then .error .divideByZero else .ok () := by
  have hp := pow2W_pos W
  unfold guardCdNew guardDivByZero isSmall
  by_cases h : m < 2 ^ (2 * W)
  · simp [h]
  · have : m ≠ 0 := by omega
    simp [h, this]

/-- operators on `Reduced` values of two `ConstDivisor` instances: DivideByZero from a constructor, else
    DifferentRings — never a result -/
theorem guardMDiff_iff (W : Nat) (f : String) (m1 m2 : Nat) (x y : Int) (k : Kind)
    (hf : f ∈ ["add", "sub", "mul", "div", "eq"]) :
    guardMDiff W m1 m2 = .error k ↔ documented W .mDiff [.fn f, .int m1, .int x, .int m2, .int y] = some k := by
  have hv : verdict W .mDiff [.fn f, .int m1, .int x, .int m2, .int y] =
      if (m1:Int) < 0 ∨ (m2:Int) < 0 ∨ ¬ (f ∈ ["add", "sub", "mul", "div", "eq"]) then none
      else some (firstOf [((m1:Int) = 0 ∨ (m2:Int) = 0, .divideByZero), (true, .differentRings)]) := rfl
  have hn : ¬ ((m1:Int) < 0 ∨ (m2:Int) < 0 ∨ ¬ (f ∈ ["add", "sub", "mul", "div", "eq"])) := by
    intro h; rcases h with h | h | h
    · omega
    · omega
    · exact h hf
  rw [documented_iff, hv, if_neg hn]
  simp only [Option.some.injEq, firstOf_two, decide_eq_true_eq, decide_eq_false_iff_not, true_and]
  unfold guardMDiff
  rw [guardCdNew_eq, guardCdNew_eq]
  by_cases h1 : m1 = 0
  · simp [h1, bind, Except.bind]
  · by_cases h2 : m2 = 0
    · simp [h1, h2, bind, Except.bind]
    · simp only [h1, h2, if_false, bind, Except.bind]
      constructor
      · intro h; right; refine ⟨by omega, ?_⟩; injection h
      · rintro (⟨h, _⟩ | ⟨_, h⟩)
        · omega
        · rw [h]

theorem guardToChunks_iff (W x kb : Nat) (k : Kind) :
    guardChunkBits kb = .error k ↔ documented W .uToChunks [.int x, .dec kb] = some k := by
  have hv : verdict W .uToChunks [.int x, .dec kb] =
      if (x:Int) < 0 ∨ (kb:Int) < 0 then none else some (firstOf [(decide ((kb:Int) = 0), .zeroChunkBits)]) := rfl
  have hn : ¬ ((x:Int) < 0 ∨ (kb:Int) < 0) := by omega
  rw [documented_iff, hv, if_neg hn]
  unfold guardChunkBits
  rw [err_iff]
  simp only [Option.some.injEq, firstOf_one, decide_eq_true_eq]
  arith_iff

theorem guardUInRadix_iff (W x r : Nat) (k : Kind) :
    guardInRadix r = .error k ↔ documented W .uInRadix [.int x, .dec r] = some k := by
  have hv : verdict W .uInRadix [.int x, .dec r] =
      if (x:Int) < 0 then none else some (firstOf [(!radixOk r, .invalidRadix)]) := rfl
  have hn : ¬ ((x:Int) < 0) := by omega
  rw [documented_iff, hv, if_neg hn]
  unfold guardInRadix radixOk
  rw [err_iff]
  simp only [Option.some.injEq, firstOf_one, Bool.not_eq_true', decide_eq_false_iff_not]
  arith_iff

end Dashu.Proofs.Panic
