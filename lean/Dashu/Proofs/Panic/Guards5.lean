import Dashu.Proofs.Panic.AllocGuards
import Dashu.Proofs.Panic.NoPanic
import Dashu.Model.Panic.Guards5
/-
  C16 round 5: the size reservations of pow / from_chunks, the bare assert of the rational to_float, the folds.
  The reservations are UPPER BOUNDS of the result size, so what holds between them and the documentation is
    (S1) documented AllocTooMuch  →  the reservation is refused (with AllocTooMuch), and
    (S2) reservation refused      →  the documentation does not say `returns`
  (the code never hangs or computes where the result cannot exist, and never refuses a result that fits) — plus
  counterexamples showing that the converse of (S1) fails (recorded findings pow_dword_estimate,
  from_chunks_size_arithmetic) and that a base of ≥ 3 words has no reservation at all (pow_large_base_no_precheck).
-/
namespace Dashu.Proofs.Panic
open Dashu.Spec.Panics Dashu.Model.Panic

-- ------------------------------------------------------------------ arithmetic helpers

theorem lt_pow_bitLen (n : Nat) : n < 2 ^ bitLen n := by
  unfold bitLen
  by_cases h : n = 0
  · simp [h]
  · simp only [h, if_false]; exact Nat.lt_log2_self

theorem pow_bitLen_le (n : Nat) (h : n ≠ 0) : 2 ^ (bitLen n - 1) ≤ n := by
  unfold bitLen
  simp only [h, if_false, Nat.add_sub_cancel]
  exact Nat.log2_self_le h

theorem alloc_returns (W bits : Nat) (h : alloc W bits = .returns) : bits ≤ memLoBits := by
  unfold alloc at h
  split at h
  · cases h
  · split at h
    · cases h
    · split at h
      · assumption
      · cases h

theorem allocRange_atm (W lo hi : Nat) (h : allocRange W lo hi = .panics .allocTooMuch) :
    alloc W lo = .panics .allocTooMuch := by
  unfold allocRange at h
  split at h
  · exact h
  · cases h

theorem allocRange_returns (W lo hi : Nat) (h : allocRange W lo hi = .returns) : alloc W lo = .returns := by
  unfold allocRange at h
  split at h
  · exact h
  · cases h

-- ------------------------------------------------------------------ max_exp_in_word

theorem maxExpLoop_inv (W base : Nat) : ∀ (fuel e p : Nat), p = base ^ e → p < 2 ^ W →
    (maxExpLoop W base fuel e p).2 = base ^ (maxExpLoop W base fuel e p).1 ∧
    (maxExpLoop W base fuel e p).2 < 2 ^ W ∧ e ≤ (maxExpLoop W base fuel e p).1 := by
  intro fuel
  induction fuel with
  | zero => intro e p hp hlt; exact ⟨hp, hlt, Nat.le_refl _⟩
  | succ f ih =>
    intro e p hp hlt
    unfold maxExpLoop
    by_cases h : p * base < 2 ^ W
    · simp only [h, if_true]
      have := ih (e + 1) (p * base) (by rw [hp, Nat.pow_succ]) h
      exact ⟨this.1, this.2.1, by omega⟩
    · simp only [h, if_false]; exact ⟨hp, hlt, Nat.le_refl _⟩

/-- `max_exp_in_word(base) = (k, base^k)` with `base^k ≤ Word::MAX` and `k ≥ 1`, for `2 ≤ base ≤ Word::MAX` -/
theorem maxExpInWord_spec (W base : Nat) (hb : 2 ≤ base) (hW : base < 2 ^ W) :
    (maxExpInWord W base).2 = base ^ (maxExpInWord W base).1 ∧ (maxExpInWord W base).2 < 2 ^ W ∧
    1 ≤ (maxExpInWord W base).1 := by
  unfold maxExpInWord
  by_cases h : base > 2 ^ (W / 2) - 1
  · simp only [h, if_true]; exact ⟨by simp, hW, Nat.le_refl _⟩
  · simp only [h, if_false]
    have hL1 : 1 ≤ bitLen base := bitLen_pos base (by omega)
    have hp2 : 0 < 2 ^ (W / 2) := Nat.pow_pos (by decide)
    have hL2 : bitLen base ≤ W / 2 := bitLen_le base (W / 2) (by omega)
    have he1 : 1 ≤ W / bitLen base := by
      apply (Nat.le_div_iff_mul_le (by omega)).mpr; omega
    have hlt : base ^ (W / bitLen base) < 2 ^ W := by
      have h1 : base ^ (W / bitLen base) < (2 ^ bitLen base) ^ (W / bitLen base) :=
        Nat.pow_lt_pow_left (lt_pow_bitLen base) (by omega)
      have h2 : (2 ^ bitLen base) ^ (W / bitLen base) ≤ 2 ^ W := by
        rw [← Nat.pow_mul]
        exact Nat.pow_le_pow_right (by decide) (Nat.mul_div_le W (bitLen base))
      omega
    have := maxExpLoop_inv W base W (W / bitLen base) (base ^ (W / bitLen base)) rfl hlt
    exact ⟨this.1, this.2.1, by omega⟩

/-- the exponent that fits a word times the bit length of the base minus one stays below the word size -/
theorem maxExp_mul_lt (W base : Nat) (hb : 2 ≤ base) (hW : base < 2 ^ W) :
    (bitLen base - 1) * (maxExpInWord W base).1 < W := by
  have hs := maxExpInWord_spec W base hb hW
  have h1 : 2 ^ (bitLen base - 1) ≤ base := pow_bitLen_le base (by omega)
  have h2 : (2 ^ (bitLen base - 1)) ^ (maxExpInWord W base).1 ≤ base ^ (maxExpInWord W base).1 :=
    Nat.pow_le_pow_left h1 _
  rw [← Nat.pow_mul] at h2
  have h3 : 2 ^ ((bitLen base - 1) * (maxExpInWord W base).1) < 2 ^ W := by
    rw [← hs.1] at h2; omega
  exact (Nat.pow_lt_pow_iff_right (by decide)).mp h3

-- ------------------------------------------------------------------ pow: word base

/-- (S1), arithmetic core: `k·wexp < 64` and a lower bound `k·e + 1` bits of the result beyond MAX_CAPACITY words
    force the reservation `e / wexp + 1` beyond MAX_CAPACITY -/
theorem word_request_exceeds (k wexp e : Nat) (hk : 1 ≤ k) (hw : 1 ≤ wexp) (hkw : k * wexp < 64)
    (hdoc : (k * e + 1 + 64 - 1) / 64 > 288230376151711743) :
    ¬ (e < 2 * wexp) ∧ e / wexp + 1 > 288230376151711743 := by
  have h1 : 64 * 288230376151711743 ≤ k * e := by omega
  have h2 : 288230376151711743 * wexp ≤ e := by
    apply Nat.le_of_not_lt
    intro hlt
    have h3 : k * e < k * (288230376151711743 * wexp) := Nat.mul_lt_mul_of_pos_left hlt (by omega)
    have h4 : k * (288230376151711743 * wexp) = 288230376151711743 * (k * wexp) := by
      rw [Nat.mul_left_comm]
    have h5 : 288230376151711743 * (k * wexp) ≤ 288230376151711743 * 63 := Nat.mul_le_mul_left _ (by omega)
    omega
  have h6 : 288230376151711743 ≤ e / wexp := (Nat.le_div_iff_mul_le (by omega)).mpr h2
  constructor
  · intro hlt
    have : 2 * wexp ≤ 288230376151711743 * wexp := Nat.mul_le_mul_right _ (by decide)
    omega
  · omega

theorem tz2_odd (n : Nat) (h : n % 2 = 1) : tz2 n = 0 := by
  unfold tz2 tz2Aux
  have : ¬ (n % 2 = 0 ∧ n ≠ 0) := by omega
  simp [this]

theorem powVerdict_atm_cases (W mag e : Nat) (hodd : mag >>> tz2 mag ≠ 1)
    (h : powVerdict W mag e = .panics .allocTooMuch) :
    alloc W ((bitLen (mag >>> tz2 mag) - 1) * e + 1) = .panics .allocTooMuch ∨
    alloc W ((bitLen (mag >>> tz2 mag) - 1) * e + 1 + tz2 mag * e) = .panics .allocTooMuch := by
  unfold powVerdict at h
  split at h
  · cases h
  · simp only [hodd, if_false] at h
    split at h
    · exact Or.inr (allocRange_atm _ _ _ h)
    · exact Or.inl (allocRange_atm _ _ _ h)

theorem powVerdict_returns_lo (W mag e : Nat) (hm : ¬ (mag ≤ 1 ∨ e ≤ 1)) (hodd : mag >>> tz2 mag ≠ 1)
    (h : powVerdict W mag e = .returns) :
    alloc W ((bitLen (mag >>> tz2 mag) - 1) * e + 1) = .returns := by
  unfold powVerdict at h
  simp only [hm, hodd, if_false] at h
  split at h
  · rename_i h1; exact allocRange_returns _ _ _ h1
  · exact allocRange_returns _ _ _ h

theorem verdict_uPow (W x e : Nat) :
    verdict W .uPow [.int x, .dec e] = some (powVerdict W x e) := by
  have hv : verdict W .uPow [.int x, .dec e] =
      if (x:Int) < 0 ∨ (e:Int) < 0 then none else some (powVerdict W (x:Int).natAbs (e:Int).toNat) := rfl
  have hn : ¬ ((x:Int) < 0 ∨ (e:Int) < 0) := by omega
  rw [hv, if_neg hn, Int.toNat_natCast, Int.natAbs_natCast]

/-- (S1) `pow_word_base`: an odd one-word base `b ≥ 3`, `e > 2`.  If the documentation says AllocTooMuch (even the lower
    bound `(L−1)·e + 1` bits of the result needs more than MAX_CAPACITY words) the reservation `e / wexp + 1` is refused. -/
theorem pow_word_reservation_sound (b e : Nat) (hb3 : 3 ≤ b) (hbW : b < 2 ^ 64) (hodd : b % 2 = 1) (he : 2 < e)
    (hdoc : documented 64 .uPow [.int b, .dec e] = some .allocTooMuch) :
    guardPowOdd 64 b e = .error .allocTooMuch := by
  rw [documented_iff, verdict_uPow, Option.some.injEq] at hdoc
  have hz := tz2_odd b hodd
  have hsh : b >>> tz2 b = b := by rw [hz]; rfl
  have hne : b >>> tz2 b ≠ 1 := by rw [hsh]; omega
  have hc := powVerdict_atm_cases 64 b e hne hdoc
  rw [hsh, hz, Nat.zero_mul, Nat.add_zero, or_self, alloc_atm, maxCap64] at hc
  have hL : 2 ≤ bitLen b := by
    have := lt_pow_bitLen b
    by_cases h2 : bitLen b ≤ 1
    · have : (2:Nat) ^ bitLen b ≤ 2 ^ 1 := Nat.pow_le_pow_right (by decide) h2
      omega
    · omega
  have hspec := maxExpInWord_spec 64 b (by omega) hbW
  have hkw := maxExp_mul_lt 64 b (by omega) hbW
  have hreq := word_request_exceeds (bitLen b - 1) (maxExpInWord 64 b).1 e (by omega) hspec.2.2 hkw hc
  unfold guardPowOdd typedPowRequest powWordRequest
  rw [hsh]
  have h1 : ¬ (e ≤ 2) := by omega
  have h2 : ¬ (b ≤ 1) := by omega
  simp only [h1, hbW, h2, hreq.1, if_false, if_true, guardRequest]
  rw [guardAllocWords_atm, maxCap64]
  exact hreq.2

/-- (S2) a refused `pow_word_base` reservation never belongs to a call the documentation says returns -/
theorem pow_word_refused_not_returns (b e : Nat) (hb3 : 3 ≤ b) (hbW : b < 2 ^ 64) (hodd : b % 2 = 1) (he : 2 < e)
    (hg : guardPowOdd 64 b e = .error .allocTooMuch) :
    verdict 64 .uPow [.int b, .dec e] ≠ some .returns := by
  rw [verdict_uPow]
  intro hr
  rw [Option.some.injEq] at hr
  have hz := tz2_odd b hodd
  have hsh : b >>> tz2 b = b := by rw [hz]; rfl
  have hne : b >>> tz2 b ≠ 1 := by rw [hsh]; omega
  have hlo := alloc_returns _ _ (powVerdict_returns_lo 64 b e (by omega) hne hr)
  rw [hsh] at hlo
  have hspec := maxExpInWord_spec 64 b (by omega) hbW
  unfold guardPowOdd typedPowRequest powWordRequest at hg
  rw [hsh] at hg
  have h1 : ¬ (e ≤ 2) := by omega
  have h2 : ¬ (b ≤ 1) := by omega
  simp only [h1, hbW, h2, if_false, if_true] at hg
  split at hg
  · cases hg
  · simp only [guardRequest] at hg
    rw [guardAllocWords_atm, maxCap64] at hg
    have hdiv : e / (maxExpInWord 64 b).1 ≤ e := Nat.div_le_self _ _
    have hL : 2 ≤ bitLen b := by
      have := lt_pow_bitLen b
      by_cases h2 : bitLen b ≤ 1
      · have : (2:Nat) ^ bitLen b ≤ 2 ^ 1 := Nat.pow_le_pow_right (by decide) h2
        omega
      · omega
    have hmul : 1 * e ≤ (bitLen b - 1) * e := Nat.mul_le_mul_right _ (by omega)
    have : memLoBits = 1073741824 := by decide
    omega

-- ------------------------------------------------------------------ pow: double-word base

theorem bitLen_ge (x k : Nat) (h : 2 ^ k ≤ x) : k + 1 ≤ bitLen x := by
  have := lt_pow_bitLen x
  by_cases h2 : bitLen x ≤ k
  · have : (2:Nat) ^ bitLen x ≤ 2 ^ k := Nat.pow_le_pow_right (by decide) h2
    omega
  · omega

/-- (S1) `pow_dword_base`: an odd two-word base, `e > 2`: documented AllocTooMuch ⇒ the reservation `2·e` is refused -/
theorem pow_dword_reservation_sound (b e : Nat) (hlo : 2 ^ 64 ≤ b) (hhi : b < 2 ^ 128) (hodd : b % 2 = 1) (he : 2 < e)
    (hdoc : documented 64 .uPow [.int b, .dec e] = some .allocTooMuch) :
    guardPowOdd 64 b e = .error .allocTooMuch := by
  rw [documented_iff, verdict_uPow, Option.some.injEq] at hdoc
  have hz := tz2_odd b hodd
  have hsh : b >>> tz2 b = b := by rw [hz]; rfl
  have hne : b >>> tz2 b ≠ 1 := by rw [hsh]; omega
  have hc := powVerdict_atm_cases 64 b e hne hdoc
  rw [hsh, hz, Nat.zero_mul, Nat.add_zero, or_self, alloc_atm, maxCap64] at hc
  have hL : bitLen b ≤ 128 := bitLen_le b 128 hhi
  have hmul : (bitLen b - 1) * e ≤ 127 * e := Nat.mul_le_mul_right _ (by omega)
  unfold guardPowOdd typedPowRequest powDwordRequest
  rw [hsh]
  have h1 : ¬ (e ≤ 2) := by omega
  have h2 : ¬ (b < 2 ^ 64) := by omega
  have h3 : b < 2 ^ (2 * 64) := hhi
  simp only [h1, h2, h3, if_false, if_true, guardRequest]
  rw [guardAllocWords_atm, maxCap64]
  omega

/-- (S2) for the double-word base -/
theorem pow_dword_refused_not_returns (b e : Nat) (hlo : 2 ^ 64 ≤ b) (hhi : b < 2 ^ 128) (hodd : b % 2 = 1)
    (he : 2 < e) (hg : guardPowOdd 64 b e = .error .allocTooMuch) :
    verdict 64 .uPow [.int b, .dec e] ≠ some .returns := by
  rw [verdict_uPow]
  intro hr
  rw [Option.some.injEq] at hr
  have hz := tz2_odd b hodd
  have hsh : b >>> tz2 b = b := by rw [hz]; rfl
  have hne : b >>> tz2 b ≠ 1 := by rw [hsh]; omega
  have hlo' := alloc_returns _ _ (powVerdict_returns_lo 64 b e (by omega) hne hr)
  rw [hsh] at hlo'
  unfold guardPowOdd typedPowRequest powDwordRequest at hg
  rw [hsh] at hg
  have h1 : ¬ (e ≤ 2) := by omega
  have h2 : ¬ (b < 2 ^ 64) := by omega
  have h3 : b < 2 ^ (2 * 64) := hhi
  simp only [h1, h2, h3, if_false, if_true, guardRequest] at hg
  rw [guardAllocWords_atm, maxCap64] at hg
  have hL := bitLen_ge b 64 hlo
  have hmul : 64 * e ≤ (bitLen b - 1) * e := Nat.mul_le_mul_right _ (by omega)
  have : memLoBits = 1073741824 := by decide
  omega

/-- the converse of (S1) FAILS for the double-word base (recorded finding pow_dword_estimate): `(2^64+1)^(2^57)` has
    2^57 words (out of memory, but addressable) and the reservation of `2·exp` words is refused as AllocTooMuch -/
theorem pow_dword_band_counterexample :
    guardPowOdd 64 (2 ^ 64 + 1) (2 ^ 57) = .error .allocTooMuch ∧
    documented 64 .uPow [.int (2 ^ 64 + 1), .dec (2 ^ 57)] = some .outOfMemory := by
  constructor <;> decide +kernel

/-- a base of ≥ 3 words has NO reservation (recorded finding pow_large_base_no_precheck): `(2^200+1)^(2^57)` cannot
    exist (documented AllocTooMuch) and the code starts squaring -/
theorem pow_large_no_reservation :
    guardPowOdd 64 (2 ^ 200 + 1) (2 ^ 57) = .ok () ∧ guardPow 64 (2 ^ 200 + 1) (2 ^ 57) = none ∧
    documented 64 .uPow [.int (2 ^ 200 + 1), .dec (2 ^ 57)] = some .allocTooMuch := by
  refine ⟨?_, ?_, ?_⟩ <;> decide +kernel

-- ------------------------------------------------------------------ pow: power of two

/-- a power of two `x = 2^s` (odd part 1), `e ≥ 2`: `exp.checked_mul(shift)` and the `1 << n` reservation refuse the
    call IFF the documentation says AllocTooMuch (the request `n/64 + 1` is exact) -/
theorem pow_two_reservation (x e : Nat) (hx : 1 < x) (hodd : x >>> tz2 x = 1) (he : 2 ≤ e) :
    guardPowTwoShift 64 (tz2 x) e = .error .allocTooMuch ↔
      documented 64 .uPow [.int x, .dec e] = some .allocTooMuch := by
  rw [documented_iff, verdict_uPow, Option.some.injEq]
  have hm : ¬ (x ≤ 1 ∨ e ≤ 1) := by omega
  unfold powVerdict
  simp only [hm, hodd, if_false, if_true]
  rw [alloc_atm, maxCap64]
  unfold guardPowTwoShift shlRequest isSmall
  have hu : usizeMax = 18446744073709551615 := by decide
  have hb1 : bitLen 1 = 1 := by decide
  rw [Nat.mul_comm (tz2 x) e, hu, hb1]
  generalize e * tz2 x = n
  by_cases h1 : n > 18446744073709551615
  · simp only [h1, if_true, true_iff]; omega
  · simp only [h1, if_false]
    have hs : (1:Nat) < 2 ^ (2 * 64) := by decide
    simp only [hs, decide_true, if_true]
    by_cases h2 : 1 + n ≤ 2 * 64
    · simp only [h2, if_true, guardRequest]
      constructor
      · intro h; cases h
      · intro h; omega
    · simp only [h2, if_false, guardRequest]
      rw [guardAllocWords_atm, maxCap64]
      omega

-- ------------------------------------------------------------------ from_chunks

theorem foldl_max_ge_init (l : List Nat) : ∀ a, a ≤ l.foldl max a := by
  induction l with
  | nil => intro a; exact Nat.le_refl _
  | cons x r ih => intro a; exact Nat.le_trans (Nat.le_max_left a x) (ih (max a x))

theorem foldl_max_mono (l : List Nat) : ∀ a b, a ≤ b → l.foldl max a ≤ l.foldl max b := by
  induction l with
  | nil => intro a b h; exact h
  | cons x r ih => intro a b h; exact ih _ _ (by omega)

theorem foldl_max_ge_mem (l : List Nat) : ∀ a x, x ∈ l → x ≤ l.foldl max a := by
  induction l with
  | nil => intro a x h; cases h
  | cons y r ih =>
    intro a x h
    rcases List.mem_cons.mp h with h | h
    · subst h; exact Nat.le_trans (Nat.le_max_right a x) (foldl_max_ge_init r _)
    · exact ih _ _ h

theorem bitLen_le_wordLen (n : Nat) : bitLen n ≤ 64 * wordLen 64 n := by
  unfold wordLen; omega

/-- chunk `j` of the list starts at bit `k·(i+j)`: the total is at most `k·(i + len − 1)` plus the longest chunk -/
theorem chunksBits_le (k : Nat) (m : Nat) : ∀ (l : List Int) (i : Nat), l ≠ [] →
    (∀ c ∈ l, wordLen 64 c.natAbs ≤ m) → chunksBits k i l ≤ k * (i + l.length - 1) + 64 * m := by
  intro l
  induction l with
  | nil => intro i h; exact absurd rfl h
  | cons c r ih =>
    intro i _ hm
    unfold chunksBits
    have hc : bitLen c.natAbs ≤ 64 * m :=
      Nat.le_trans (bitLen_le_wordLen _) (Nat.mul_le_mul_left _ (hm c (List.mem_cons_self ..)))
    have hki : k * i ≤ k * (i + (c :: r).length - 1) := Nat.mul_le_mul_left _ (by simp)
    by_cases hr : r = []
    · subst hr; simp [chunksBits] <;> omega
    · have := ih (i + 1) hr (fun c' hc' => hm c' (List.mem_cons_of_mem _ hc'))
      have hlen : i + 1 + r.length - 1 = i + (c :: r).length - 1 := by simp <;> omega
      rw [hlen] at this
      omega

theorem chunksBits_ge (k : Nat) : ∀ (l : List Int) (i : Nat), l ≠ [] → k * (i + l.length - 1) ≤ chunksBits k i l := by
  intro l
  induction l with
  | nil => intro i h; exact absurd rfl h
  | cons c r ih =>
    intro i _
    unfold chunksBits
    by_cases hr : r = []
    · subst hr; simp [chunksBits] <;> omega
    · have := ih (i + 1) hr
      have hlen : i + 1 + r.length - 1 = i + (c :: r).length - 1 := by simp <;> omega
      rw [hlen] at this
      omega

theorem verdict_uFromChunks (W k : Nat) (l : List Nat) (hk : k ≠ 0) :
    verdict W .uFromChunks (.dec k :: l.map (fun (c : Nat) => Arg.int (c : Int))) =
      some (alloc W (chunksBits k 0 (l.map (fun (c : Nat) => (c : Int))))) := by
  have ha : ∀ l : List Nat, allInts (l.map (fun (c : Nat) => Arg.int (c : Int))) = some (l.map (fun (c : Nat) => (c : Int))) := by
    intro l; induction l with
    | nil => rfl
    | cons c r ih => simp [allInts, ih]
  have hv : verdict W .uFromChunks (.dec k :: l.map (fun (c : Nat) => Arg.int (c : Int))) =
      match allInts (l.map (fun (c : Nat) => Arg.int (c : Int))) with
      | none => none
      | some l' =>
        if (k:Int) < 0 ∨ l'.any (· < 0) then none
        else some (if (k:Int) = 0 then .panics .zeroChunkBits else alloc W (chunksBits (k:Int).toNat 0 l')) := rfl
  rw [hv, ha]
  have hn : ¬ ((k:Int) < 0 ∨ (l.map (fun (c : Nat) => (c : Int))).any (· < 0) = true) := by
    intro h
    rcases h with h | h
    · omega
    · simp at h
      obtain ⟨x, _, hx⟩ := h
      omega
  have hk' : ¬ ((k:Int) = 0) := by omega
  simp only [hn, hk', if_false, Int.toNat_natCast]

theorem fromChunks_words_le (k : Nat) (l : List Nat) (hl : l ≠ []) :
    (chunksBits k 0 (l.map (fun (c : Nat) => (c : Int))) + 64 - 1) / 64 < fromChunksLen 64 k l := by
  have hne : l.map (fun (c : Nat) => (c : Int)) ≠ [] := by simpa using hl
  have hm : ∀ c ∈ l.map (fun (c : Nat) => (c : Int)), wordLen 64 c.natAbs ≤ (l.map (wordLen 64)).foldl max 0 := by
    intro c hc
    rcases List.mem_map.mp hc with ⟨n, hn, rfl⟩
    rw [Int.natAbs_natCast]
    exact foldl_max_ge_mem _ 0 _ (List.mem_map.mpr ⟨n, hn, rfl⟩)
  have h := chunksBits_le k _ (l.map (fun (c : Nat) => (c : Int))) 0 hne hm
  unfold fromChunksLen
  rw [List.length_map, Nat.zero_add] at h
  rw [Nat.mul_comm (l.length - 1) k]
  generalize k * (l.length - 1) = X at *
  generalize (l.map (wordLen 64)).foldl max 0 = Y at *
  omega

/-- (S1) `from_chunks`: when the unchecked size arithmetic stays inside `usize`, a result the documentation calls
    AllocTooMuch is refused by `Buffer::allocate(result_len)` -/
theorem from_chunks_reservation_sound (k : Nat) (l : List Nat) (hk : k ≠ 0) (hl : l ≠ [])
    (hfit : ¬ (fromChunksLen 64 k l > usizeMax))
    (hdoc : documented 64 .uFromChunks (.dec k :: l.map (fun (c : Nat) => Arg.int (c : Int))) = some .allocTooMuch) :
    guardFromChunksSize 64 k l = some (.error .allocTooMuch) := by
  rw [documented_iff, verdict_uFromChunks 64 k l hk, Option.some.injEq, alloc_atm, maxCap64] at hdoc
  have := fromChunks_words_le k l hl
  unfold guardFromChunksSize
  simp only [hk, hl, hfit, if_false, Option.some.injEq]
  rw [guardAllocWords_atm, maxCap64]
  omega

/-- (S2) a refused `from_chunks` reservation (chunks of at most 2^32 words) is never a call documented to return -/
theorem from_chunks_refused_not_returns (k : Nat) (l : List Nat) (hk : k ≠ 0) (hl : l ≠ [])
    (hsmall : (l.map (wordLen 64)).foldl max 0 ≤ 2 ^ 32)
    (hg : guardFromChunksSize 64 k l = some (.error .allocTooMuch)) :
    verdict 64 .uFromChunks (.dec k :: l.map (fun (c : Nat) => Arg.int (c : Int))) ≠ some .returns := by
  rw [verdict_uFromChunks 64 k l hk]
  intro hr
  rw [Option.some.injEq] at hr
  have hlo := alloc_returns _ _ hr
  have hne : l.map (fun (c : Nat) => (c : Int)) ≠ [] := by simpa using hl
  have hge := chunksBits_ge k (l.map (fun (c : Nat) => (c : Int))) 0 hne
  rw [List.length_map, Nat.zero_add] at hge
  unfold guardFromChunksSize at hg
  simp only [hk, hl, if_false] at hg
  split at hg
  · cases hg
  · rw [Option.some.injEq, guardAllocWords_atm, maxCap64] at hg
    unfold fromChunksLen at hg
    rw [Nat.mul_comm (l.length - 1) k] at hg
    have : memLoBits = 1073741824 := by decide
    generalize k * (l.length - 1) = X at *
    generalize (l.map (wordLen 64)).foldl max 0 = Y at *
    omega

/-- the converse of (S1) FAILS (recorded finding from_chunks_size_arithmetic): two chunks `[0, 1]` of 2^58 bits give a
    result of 2^58 + 1 bits = 2^52 words (out of memory, addressable) while `result_len` counts 2^58 + 2 WORDS -/
theorem from_chunks_overallocation_counterexample :
    guardFromChunksSize 64 (2 ^ 58) [0, 1] = some (.error .allocTooMuch) ∧
    documented 64 .uFromChunks [.dec (2 ^ 58), .int 0, .int 1] = some .outOfMemory := by
  constructor <;> decide +kernel

/-- and for `chunk_bits` near `usize::MAX` the arithmetic itself leaves `usize` (no guard value: debug builds panic
    with an arithmetic overflow, release builds wrap) although the documentation says AllocTooMuch -/
theorem from_chunks_arithmetic_unchecked :
    guardFromChunksSize 64 (2 ^ 64 - 1) [1, 0, 255] = none ∧
    documented 64 .uFromChunks [.dec (2 ^ 64 - 1), .int 1, .int 0, .int 255] = some .allocTooMuch := by
  constructor <;> decide +kernel

-- ------------------------------------------------------------------ rational to_float

/-- `RBig/Relaxed::to_float(precision)`: the bare `assert!(precision > 0)` fails exactly where the documentation names
    UnlimitedPrecision (the call does stop at once; its MESSAGE is not the documented one: finding to_float_zero_precision) -/
theorem qToFloat_assert_iff (W : Nat) (n d : Int) (c : Char) (p : Nat) (hd : 0 < d) :
    qToFloatAssertFails p = true ↔
      documented W .qToFloat [.int n, .int d, .kind c, .dec p] = some .unlimitedPrecision := by
  have hv : verdict W .qToFloat [.int n, .int d, .kind c, .dec p] =
      if d ≤ 0 ∨ (p:Int) < 0 then none
      else if (p:Int) > 2 ^ 20 then some .unspecified
      else some (firstOf [(decide ((p:Int) = 0), .unlimitedPrecision)]) := rfl
  have hn : ¬ (d ≤ 0 ∨ (p:Int) < 0) := by omega
  rw [documented_iff, hv, if_neg hn]
  unfold qToFloatAssertFails
  by_cases hp : (p:Int) > 2 ^ 20
  · simp only [hp, if_true]
    constructor
    · intro h; simp at h; omega
    · intro h; cases h
  · simp only [hp, if_false, Option.some.injEq, firstOf_one]
    simp

/-- the same for the one-base op, for EVERY precision (`q.to_float_b`) -/
theorem qToFloatB_assert_iff (W : Nat) (n d : Int) (c : Char) (p : Nat) (b : Int) (hd : 0 < d) (hb : b = 2 ∨ b = 10) :
    qToFloatAssertFails p = true ↔
      documented W .qToFloatB [.int n, .int d, .kind c, .dec p, .dec b] = some .unlimitedPrecision := by
  have hv : verdict W .qToFloatB [.int n, .int d, .kind c, .dec p, .dec b] =
      if d ≤ 0 ∨ (p:Int) < 0 ∨ ¬ (b = 2 ∨ b = 10) then none
      else if (p:Int) = 0 then some (.panics .unlimitedPrecision)
      else if n = 0 ∨ (p:Int) ≤ 2 ^ 20 then some .returns
      else if terminatesIn b.toNat (d.natAbs / Nat.gcd n.natAbs d.natAbs) then some .returns
      else some (allocRange W ((p:Int).toNat * Nat.log2 b.toNat) ((p:Int).toNat * FArg.log2Ceil b.toNat)) := rfl
  have hn : ¬ (d ≤ 0 ∨ (p:Int) < 0 ∨ ¬ (b = 2 ∨ b = 10)) := by omega
  rw [documented_iff, hv, if_neg hn]
  unfold qToFloatAssertFails
  by_cases hp : (p:Int) = 0
  · simp only [hp, if_true]; simp; omega
  · simp only [hp, if_false]
    have hp' : ¬ (p = 0) := by omega
    simp only [hp', decide_false, Bool.false_eq_true, false_iff]
    intro h
    split at h
    · cases h
    · split at h
      · cases h
      · rw [Option.some.injEq] at h
        unfold allocRange at h
        split at h
        · rename_i he
          unfold alloc at h
          split at h
          · cases h
          · split at h
            · cases h
            · split at h <;> cases h
        · cases h

-- ------------------------------------------------------------------ folds

theorem allFlts_map (l : List FArg) : allFlts (l.map Arg.flt) = some l := by
  induction l with
  | nil => rfl
  | cons a r ih => simp [allFlts, ih]

theorem guardFFold_iff (l : List FArg) (k : Kind) :
    guardFFold l = .error k ↔ (l.any (·.isInf) = true ∧ k = .infinite) := by
  induction l with
  | nil => simp [guardFFold]
  | cons a r ih =>
    unfold guardFFold assertFinite
    by_cases h : a.isInf = true
    · simp only [h, if_true, List.any_cons, Bool.true_or, true_and]
      constructor
      · intro h'; cases h'; rfl
      · intro h'; subst h'; rfl
    · have hf : a.isInf = false := by simpa using h
      simp only [hf, List.any_cons, Bool.false_or, Bool.false_eq_true, if_false]
      exact ih

/-- `Sum` for FBig: the fold stops with Infinite at the first infinite element IFF the documentation says so -/
theorem fSum_guard_iff (W : Nat) (l : List FArg) (k : Kind) (hok : fListOk l = true)
    (hsmall : l.all (fun a => a.isInf ∨ (a.exp.natAbs ≤ 2 ^ 20)) = true) :
    guardFFold l = .error k ↔ documented W .fSum (l.map Arg.flt) = some k := by
  have hv : verdict W .fSum (l.map Arg.flt) =
      match allFlts (l.map Arg.flt) with
      | none => none
      | some l =>
        if ¬ fListOk l then none
        else if ¬ l.all (fun a => a.isInf ∨ (a.exp.natAbs ≤ 2 ^ 20)) then some .unspecified
        else some (firstOf [(l.any (·.isInf), .infinite)]) := by
    cases l <;> rfl
  rw [documented_iff, hv, allFlts_map]
  simp only [hok, hsmall, not_true_eq_false, if_false, Option.some.injEq]
  rw [firstOf_one, guardFFold_iff]
  constructor <;> (intro h; exact ⟨h.1, h.2.symm⟩)

/-- `Product` for FBig, short lists of small exponents (no exponent overflow possible) -/
theorem fProduct_guard_iff (W : Nat) (l : List FArg) (k : Kind) (hok : fListOk l = true)
    (hsmall : (l.length ≤ 2 ^ 10 ∧ l.all (fun a => a.isInf ∨ (a.exp.natAbs ≤ 2 ^ 40)) = true)) :
    guardFFold l = .error k ↔ documented W .fProduct (l.map Arg.flt) = some k := by
  have hv : verdict W .fProduct (l.map Arg.flt) =
      match allFlts (l.map Arg.flt) with
      | none => none
      | some l =>
        if ¬ fListOk l then none
        else if ¬ (l.length ≤ 2 ^ 10 ∧ l.all (fun a => a.isInf ∨ (a.exp.natAbs ≤ 2 ^ 40))) then some .unspecified
        else some (firstOf [(l.any (·.isInf), .infinite)]) := by
    cases l <;> rfl
  rw [documented_iff, hv, allFlts_map]
  simp only [hok, hsmall, and_self, not_true_eq_false, if_false, Option.some.injEq]
  rw [firstOf_one, guardFFold_iff]
  constructor <;> (intro h; exact ⟨h.1, h.2.symm⟩)

/-- integer `Sum` / `Product` and the `Hash` impls: the documentation names no panic, for all argument lists -/
theorem no_panic_int_fold (W : Nat) (cs : List Arg) (op : Op)
    (hop : op ∈ [Op.uSum, .iSum, .uProduct, .iProduct]) : documented W op cs = none := by
  simp at hop
  rcases hop with h | h | h | h <;> subst h <;>
    (rw [documented_none_iff]; intro k; dsimp only [verdict];
     cases allInts cs <;> simp <;> (try split) <;> (try split) <;> simp)

theorem no_panic_hash (W : Nat) (x n d : Int) (c : Char) :
    documented W .uHash [.int x] = none ∧ documented W .iHash [.int x] = none ∧
    documented W .qHash [.int n, .int d, .kind c] = none := by
  refine ⟨?_, ?_, ?_⟩ <;> no_panic

end Dashu.Proofs.Panic
