import Dashu.Model.Panic.Loops
import Mathlib.Algebra.Order.Field.Rat
import Mathlib.Algebra.Order.Field.Basic
import Mathlib.Tactic.Linarith
import Mathlib.Tactic.Positivity
import Mathlib.Tactic.Ring
/-
  C16 (3b): the series loop of `ln_internal` (float/src/log.rs:289-300).

  The loop stops only through the magnitude test `|z^k / k| ≤ sub_ulp(sum)`.  The code guards the input with
  `assert_finite` and `assert_limited_precision` and NOTHING ELSE (the `debug_assert!(x_scaled >= 1)` exists in
  debug builds only).
    * For `x > 0` the scaling gives `1 ≤ x_scaled < 2`, hence `0 ≤ z < 1/3`, `z² ≤ 1/9`: the terms shrink by a
      factor 9 per iteration and the loop stops after logarithmically many iterations (`lnLoop_terminates`).
    * For `x < 0` the same scaling gives `-2 ≤ x_scaled < -1`, hence `z ≥ 2`: every term is at least 2 and the
      stopping test is never satisfied (`lnLoop_diverges`, `lnSeries_diverges`): the release build hangs — the
      finding recorded for C16; the missing guard is `x > 0`.
-/
namespace Dashu.Proofs.Panic
open Dashu.Model.Panic

/-- TERMINATION for `0 ≤ z² ≤ 1/9`: `n + 1` iterations suffice as soon as `pow ≤ 9^(n+1) · eps` -/
theorem lnLoop_terminates (z2 eps : Rat) (hz0 : 0 ≤ z2) (hz : z2 ≤ 1 / 9) (he : 0 < eps) :
    ∀ (n : Nat) (pow sum : Rat) (k : Nat), 0 ≤ pow → 1 ≤ k → pow ≤ 9 ^ (n + 1) * eps →
      lnLoop z2 eps (n + 1) pow sum k ≠ none := by
  intro n
  induction n with
  | zero =>
    intro pow sum k hp hk hb
    have hk' : (1 : Rat) ≤ (k : Rat) := by exact_mod_cast hk
    have hp' : 0 ≤ pow * z2 := mul_nonneg hp hz0
    have hb' : pow ≤ 9 * eps := by simpa using hb
    have hm : pow * z2 ≤ pow * (1 / 9) := mul_le_mul_of_nonneg_left hz hp
    have h9 : pow * z2 ≤ eps := by linarith
    have hinc : pow * z2 / (k : Rat) ≤ pow * z2 := div_le_self hp' hk'
    have hinc0 : 0 ≤ pow * z2 / (k : Rat) := div_nonneg hp' (by linarith)
    simp only [lnLoop]
    have : pow * z2 / (k : Rat) ≤ eps ∧ -(pow * z2 / (k : Rat)) ≤ eps := ⟨by linarith, by linarith⟩
    simp [this]
  | succ n ih =>
    intro pow sum k hp hk hb
    have hk' : (1 : Rat) ≤ (k : Rat) := by exact_mod_cast hk
    have hp' : 0 ≤ pow * z2 := mul_nonneg hp hz0
    have h9 : pow * z2 ≤ 9 ^ (n + 1) * eps := by
      have : pow * z2 ≤ pow * (1 / 9) := mul_le_mul_of_nonneg_left hz hp
      have e : (9 : Rat) ^ (n + 1 + 1) * eps = 9 * (9 ^ (n + 1) * eps) := by ring
      rw [e] at hb
      linarith
    simp only [lnLoop]
    split
    · simp
    · exact ih (pow * z2) _ (k + 2) hp' (by omega) h9

/-- NON-TERMINATION for `z² ≥ 4`: with `k ≤ 2·pow` every term `pow·z²/k` is at least 2, and the invariant is
    preserved, so the magnitude test (against any `eps < 1`) never succeeds -/
theorem lnLoop_diverges (z2 eps : Rat) (hz : 4 ≤ z2) (he : eps < 1) :
    ∀ (fuel : Nat) (pow sum : Rat) (k : Nat), 1 ≤ k → (k : Rat) ≤ 2 * pow →
      lnLoop z2 eps fuel pow sum k = none := by
  intro fuel
  induction fuel with
  | zero => intro pow sum k _ _; rfl
  | succ n ih =>
    intro pow sum k hk hb
    have hk' : (1 : Rat) ≤ (k : Rat) := by exact_mod_cast hk
    have hkpos : (0 : Rat) < (k : Rat) := by linarith
    have hpow : 0 < pow := by linarith
    have h2k : 2 * (k : Rat) ≤ pow * z2 := by nlinarith
    have hinc : 2 ≤ pow * z2 / (k : Rat) := by
      rw [le_div_iff₀ hkpos]; linarith
    simp only [lnLoop]
    have hno : ¬ (pow * z2 / (k : Rat) ≤ eps ∧ -(pow * z2 / (k : Rat)) ≤ eps) := by
      intro h; linarith [h.1]
    simp only [hno, if_false]
    apply ih _ _ (k + 2) (by omega)
    push_cast
    linarith

/-- positive input: after scaling `1 ≤ x_scaled ≤ 2`, the series loop terminates; the number of iterations is
    logarithmic in `1/eps` (`z ≤ 9^N · eps`) -/
theorem lnSeries_terminates (x eps : Rat) (h1 : 1 ≤ x) (h2 : x ≤ 2) (he : 0 < eps) (N : Nat)
    (hN : (x - 1) / (x + 1) ≤ 9 ^ (N + 1) * eps) :
    lnSeries x eps (N + 1) ≠ none := by
  unfold lnSeries
  have hx1 : 0 < x + 1 := by linarith
  have hz0 : 0 ≤ (x - 1) / (x + 1) := div_nonneg (by linarith) (by linarith)
  have hz3 : (x - 1) / (x + 1) ≤ 1 / 3 := by
    rw [div_le_div_iff₀ hx1 (by norm_num)]; linarith
  apply lnLoop_terminates _ eps (mul_nonneg hz0 hz0) _ he N _ _ 3 hz0 (by omega) hN
  nlinarith

/-- negative input (the guard the code does not have): after the same scaling `-2 ≤ x_scaled < -1`, the stopping
    test is never satisfied — for EVERY amount of fuel the loop is still running -/
theorem lnSeries_diverges (x eps : Rat) (h1 : -2 ≤ x) (h2 : x < -1) (he : eps < 1) :
    ∀ fuel, lnSeries x eps fuel = none := by
  intro fuel
  unfold lnSeries
  have hx1 : x + 1 < 0 := by linarith
  have hz : 2 ≤ (x - 1) / (x + 1) := by
    rw [le_div_iff_of_neg hx1]; linarith
  apply lnLoop_diverges _ eps _ he fuel _ _ 3 (by omega)
  · push_cast; linarith
  · nlinarith

end Dashu.Proofs.Panic
