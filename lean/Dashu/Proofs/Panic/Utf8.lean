/-
  C16 (4): the float parser `Repr::from_str_native` (float/src/parse.rs:27-140) slices its input by BYTE offsets:
  `&src[pos + 1..]`, `&src[..pos]` (pos = `rfind` of a scale marker `e E @ p P b B o O h H`), `&src[..dot]`,
  `&src[dot + 1..]` (dot = `find('.')`), `&src[2..]` / `&int_str[2..]` (after `starts_with("0x" | "0X")`).
  `str` slicing panics when an offset is not a char boundary.  Every offset used is `p` or `p + 1` for a position
  `p` that holds an ASCII byte; this file proves that in well-formed UTF-8 such offsets are always char boundaries
  (Rust's `str::is_char_boundary`), so the slicing cannot panic on arbitrary (multi-byte) input.
  Core Lean only.
-/
namespace Dashu.Proofs.Panic

/-- a UTF-8 continuation byte `10xxxxxx` -/
def isCont (b : UInt8) : Prop := 128 ≤ b.toNat ∧ b.toNat < 192

instance (b : UInt8) : Decidable (isCont b) := by unfold isCont; infer_instance

/-- well-formed UTF-8 (a superset: lead bytes are only required to be ≥ 0xC0 / 0xE0 / 0xF0) -/
inductive Utf8 : List UInt8 → Prop
  | nil : Utf8 []
  | c1 (b : UInt8) (rest : List UInt8) : b.toNat < 128 → Utf8 rest → Utf8 (b :: rest)
  | c2 (b0 b1 : UInt8) (rest : List UInt8) : 192 ≤ b0.toNat → isCont b1 → Utf8 rest → Utf8 (b0 :: b1 :: rest)
  | c3 (b0 b1 b2 : UInt8) (rest : List UInt8) :
      224 ≤ b0.toNat → isCont b1 → isCont b2 → Utf8 rest → Utf8 (b0 :: b1 :: b2 :: rest)
  | c4 (b0 b1 b2 b3 : UInt8) (rest : List UInt8) :
      240 ≤ b0.toNat → isCont b1 → isCont b2 → isCont b3 → Utf8 rest → Utf8 (b0 :: b1 :: b2 :: b3 :: rest)

/-- `str::is_char_boundary(i)`: `i == 0 || i == len || (bytes[i] as i8) >= -0x40` -/
def isCharBoundary (bs : List UInt8) (i : Nat) : Prop :=
  i = 0 ∨ i = bs.length ∨ ∃ b, bs[i]? = some b ∧ ¬ isCont b

/-- the first byte of a well-formed string is not a continuation byte -/
theorem utf8_head (bs : List UInt8) (h : Utf8 bs) (b : UInt8) (hb : bs[0]? = some b) : ¬ isCont b := by
  cases h with
  | nil => simp at hb
  | c1 b' rest h1 _ => simp at hb; subst hb; unfold isCont; omega
  | c2 b0 b1 rest h1 _ _ => simp at hb; subst hb; unfold isCont; omega
  | c3 b0 b1 b2 rest h1 _ _ _ => simp at hb; subst hb; unfold isCont; omega
  | c4 b0 b1 b2 b3 rest h1 _ _ _ _ => simp at hb; subst hb; unfold isCont; omega

/-- after an ASCII byte at position `p` a new character starts (or the string ends) -/
theorem after_ascii (bs : List UInt8) (h : Utf8 bs) :
    ∀ (p : Nat) (b : UInt8), bs[p]? = some b → b.toNat < 128 →
      p + 1 = bs.length ∨ ∃ c, bs[p + 1]? = some c ∧ ¬ isCont c := by
  induction h with
  | nil => intro p b hb; simp at hb
  | c1 b' rest h1 hrest ih =>
    intro p b hb hlt
    cases p with
    | zero =>
      cases hr : rest with
      | nil => left; simp
      | cons c rest' =>
        right
        refine ⟨c, by simp, ?_⟩
        exact utf8_head rest hrest c (by simp [hr])
    | succ p =>
      have hb' : rest[p]? = some b := by simpa using hb
      rcases ih p b hb' hlt with h | ⟨c, hc, hnc⟩
      · left; simp; omega
      · right; exact ⟨c, by simpa using hc, hnc⟩
  | c2 b0 b1 rest h0 h1 hrest ih =>
    intro p b hb hlt
    match p with
    | 0 => simp at hb; subst hb; omega
    | 1 => simp at hb; subst hb; unfold isCont at h1; omega
    | p + 2 =>
      have hb' : rest[p]? = some b := by simpa using hb
      rcases ih p b hb' hlt with h | ⟨c, hc, hnc⟩
      · left; simp; omega
      · right; exact ⟨c, by simpa using hc, hnc⟩
  | c3 b0 b1 b2 rest h0 h1 h2 hrest ih =>
    intro p b hb hlt
    match p with
    | 0 => simp at hb; subst hb; omega
    | 1 => simp at hb; subst hb; unfold isCont at h1; omega
    | 2 => simp at hb; subst hb; unfold isCont at h2; omega
    | p + 3 =>
      have hb' : rest[p]? = some b := by simpa using hb
      rcases ih p b hb' hlt with h | ⟨c, hc, hnc⟩
      · left; simp; omega
      · right; exact ⟨c, by simpa using hc, hnc⟩
  | c4 b0 b1 b2 b3 rest h0 h1 h2 h3 hrest ih =>
    intro p b hb hlt
    match p with
    | 0 => simp at hb; subst hb; omega
    | 1 => simp at hb; subst hb; unfold isCont at h1; omega
    | 2 => simp at hb; subst hb; unfold isCont at h2; omega
    | 3 => simp at hb; subst hb; unfold isCont at h3; omega
    | p + 4 =>
      have hb' : rest[p]? = some b := by simpa using hb
      rcases ih p b hb' hlt with h | ⟨c, hc, hnc⟩
      · left; simp; omega
      · right; exact ⟨c, by simpa using hc, hnc⟩

/-- both cut offsets around an ASCII byte are char boundaries: `&src[..p]`, `&src[p..]`, `&src[..p+1]`,
    `&src[p+1..]` cannot panic -/
theorem ascii_cuts_are_boundaries (bs : List UInt8) (h : Utf8 bs) (p : Nat) (b : UInt8)
    (hb : bs[p]? = some b) (hlt : b.toNat < 128) :
    isCharBoundary bs p ∧ isCharBoundary bs (p + 1) := by
  refine ⟨Or.inr (Or.inr ⟨b, hb, by unfold isCont; omega⟩), ?_⟩
  rcases after_ascii bs h p b hb hlt with h1 | ⟨c, hc, hnc⟩
  · exact Or.inr (Or.inl h1)
  · exact Or.inr (Or.inr ⟨c, hc, hnc⟩)

/-- first index `≥ i` (offset `i` = position of the head) whose byte satisfies `p`: `str::find` for an ASCII pattern -/
def findFrom (p : UInt8 → Bool) : List UInt8 → Nat → Option Nat
  | [], _ => none
  | b :: r, i => if p b then some i else findFrom p r (i + 1)

/-- last such index: `str::rfind` for ASCII patterns -/
def rfindFrom (p : UInt8 → Bool) : List UInt8 → Nat → Option Nat → Option Nat
  | [], _, last => last
  | b :: r, i, last => rfindFrom p r (i + 1) (if p b then some i else last)

theorem findFrom_spec (p : UInt8 → Bool) :
    ∀ (bs : List UInt8) (i j : Nat), findFrom p bs i = some j → i ≤ j ∧ ∃ b, bs[j - i]? = some b ∧ p b = true := by
  intro bs
  induction bs with
  | nil => intro i j h; simp [findFrom] at h
  | cons b r ih =>
    intro i j h
    unfold findFrom at h
    by_cases hp : p b = true
    · simp [hp] at h; subst h; exact ⟨Nat.le_refl _, b, by simp, hp⟩
    · simp [hp] at h
      obtain ⟨hle, c, hc, hpc⟩ := ih (i + 1) j h
      refine ⟨by omega, c, ?_, hpc⟩
      have : j - i = (j - (i + 1)) + 1 := by omega
      rw [this]; simpa using hc

theorem rfindFrom_spec (p : UInt8 → Bool) :
    ∀ (bs : List UInt8) (i : Nat) (last : Option Nat) (j : Nat),
      rfindFrom p bs i last = some j →
      (last = some j) ∨ (i ≤ j ∧ ∃ b, bs[j - i]? = some b ∧ p b = true) := by
  intro bs
  induction bs with
  | nil => intro i last j h; left; simpa [rfindFrom] using h
  | cons b r ih =>
    intro i last j h
    unfold rfindFrom at h
    rcases ih (i + 1) _ j h with h1 | ⟨hle, c, hc, hpc⟩
    · by_cases hp : p b = true
      · simp [hp] at h1; subst h1; right; exact ⟨Nat.le_refl _, b, by simp, hp⟩
      · simp [hp] at h1; left; exact h1
    · right
      refine ⟨by omega, c, ?_, hpc⟩
      have : j - i = (j - (i + 1)) + 1 := by omega
      rw [this]; simpa using hc

/-- the scale markers of all bases and the radix point: all ASCII -/
def isMarker (b : UInt8) : Bool :=
  b = 101 || b = 69 || b = 64 || b = 112 || b = 80 || b = 98 || b = 66 || b = 111 || b = 79 || b = 104 || b = 72

def isDot (b : UInt8) : Bool := b = 46

theorem marker_ascii (b : UInt8) (h : isMarker b = true) : b.toNat < 128 := by
  unfold isMarker at h
  simp only [Bool.or_eq_true, decide_eq_true_eq] at h
  rcases h with ((((((((((h | h) | h) | h) | h) | h) | h) | h) | h) | h) | h) <;> subst h <;> decide

theorem dot_ascii (b : UInt8) (h : isDot b = true) : b.toNat < 128 := by
  unfold isDot at h; simp only [decide_eq_true_eq] at h; subst h; decide

/-- the byte offsets at which `from_str_native` cuts its input: around the last scale marker (`rfind`), around
    the first `.` (`find`), and after a `0x`/`0X` prefix -/
def parserCuts (bs : List UInt8) : List Nat :=
  (match findFrom isDot bs 0 with | some d => [d, d + 1] | none => []) ++
  (match rfindFrom isMarker bs 0 none with | some m => [m, m + 1] | none => []) ++
  (if bs[0]? = some 48 ∧ (bs[1]? = some 120 ∨ bs[1]? = some 88) then [2] else [])

/-- every offset at which the float parser slices a well-formed UTF-8 string is a char boundary: the slicing in
    `from_str_native` cannot panic, whatever multi-byte characters surround the markers -/
theorem parserCuts_are_boundaries (bs : List UInt8) (h : Utf8 bs) :
    ∀ i ∈ parserCuts bs, isCharBoundary bs i := by
  intro i hi
  unfold parserCuts at hi
  simp only [List.mem_append] at hi
  rcases hi with (hi | hi) | hi
  · cases hd : findFrom isDot bs 0 with
    | none => simp [hd] at hi
    | some d =>
      obtain ⟨_, b, hb, hp⟩ := findFrom_spec isDot bs 0 d hd
      have hcut := ascii_cuts_are_boundaries bs h d b (by simpa using hb) (dot_ascii b hp)
      simp [hd] at hi
      rcases hi with rfl | rfl
      · exact hcut.1
      · exact hcut.2
  · cases hm : rfindFrom isMarker bs 0 none with
    | none => simp [hm] at hi
    | some m =>
      rcases rfindFrom_spec isMarker bs 0 none m hm with h0 | ⟨_, b, hb, hp⟩
      · simp at h0
      · have hcut := ascii_cuts_are_boundaries bs h m b (by simpa using hb) (marker_ascii b hp)
        simp [hm] at hi
        rcases hi with rfl | rfl
        · exact hcut.1
        · exact hcut.2
  · by_cases hx : bs[0]? = some 48 ∧ (bs[1]? = some 120 ∨ bs[1]? = some 88)
    · simp [hx] at hi
      subst hi
      rcases hx.2 with h1 | h1
      · exact (ascii_cuts_are_boundaries bs h 1 120 h1 (by decide)).2
      · exact (ascii_cuts_are_boundaries bs h 1 88 h1 (by decide)).2
    · simp [hx] at hi

end Dashu.Proofs.Panic
