import Dashu.Model.Panic.Loops
import Mathlib.Tactic.Ring
import Mathlib.Tactic.Linarith
/-
  C16 (3a): `RBig::farey_neighbors` terminates, within `limit` iterations — and needs that many.
  The code checks nothing but `next.denominator > limit`; the proof needs the Farey invariant
  `right.num · left.den − left.num · right.den = 1` (true for the two starting intervals), which makes every
  mediant already reduced, so that the denominators' sum grows by at least 1 per iteration.
-/
namespace Dashu.Proofs.Panic
open Dashu.Model.Panic

/-- the Farey-neighbour invariant of the interval `(l, r)` -/
def FareyInv (l r : Fr) : Prop :=
  r.num * l.den - l.num * r.den = 1 ∧ 1 ≤ l.den ∧ 1 ≤ r.den

theorem fareyStart_inv (x : Fr) : FareyInv (fareyStart x).1 (fareyStart x).2 := by
  unfold fareyStart FareyInv
  split <;> simp

/-- under the invariant the mediant is in lowest terms: `reduce` does nothing -/
theorem mediant_reduced (l r : Fr) (h : FareyInv l r) :
    (⟨l.num + r.num, l.den + r.den⟩ : Fr).reduce = ⟨l.num + r.num, l.den + r.den⟩ := by
  obtain ⟨hdet, hl, hr⟩ := h
  have hg : Int.gcd (l.num + r.num) ((l.den + r.den : Nat) : Int) = 1 := by
    have h1 : ((Int.gcd (l.num + r.num) ((l.den + r.den : Nat) : Int) : Nat) : Int) ∣ (l.num + r.num) :=
      Int.gcd_dvd_left _ _
    have h2 : ((Int.gcd (l.num + r.num) ((l.den + r.den : Nat) : Int) : Nat) : Int) ∣ ((l.den + r.den : Nat) : Int) :=
      Int.gcd_dvd_right _ _
    have h3 : ((Int.gcd (l.num + r.num) ((l.den + r.den : Nat) : Int) : Nat) : Int) ∣
        (l.num + r.num) * l.den - l.num * ((l.den + r.den : Nat) : Int) :=
      Int.dvd_sub (Dvd.dvd.mul_right h1 _) (Dvd.dvd.mul_left h2 _)
    have h4 : (l.num + r.num) * l.den - l.num * ((l.den + r.den : Nat) : Int) = 1 := by
      push_cast; linarith [hdet]
    rw [h4] at h3
    have := Int.eq_one_of_dvd_one (Int.natCast_nonneg _) h3
    exact_mod_cast this
  unfold Fr.reduce
  simp only [hg]
  simp

theorem inv_left (l r : Fr) (h : FareyInv l r) : FareyInv l ⟨l.num + r.num, l.den + r.den⟩ := by
  obtain ⟨hdet, hl, hr⟩ := h
  refine ⟨?_, hl, by simp; omega⟩
  simp only; push_cast; linarith [hdet]

theorem inv_right (l r : Fr) (h : FareyInv l r) : FareyInv ⟨l.num + r.num, l.den + r.den⟩ r := by
  obtain ⟨hdet, hl, hr⟩ := h
  refine ⟨?_, by simp; omega, hr⟩
  simp only; push_cast; linarith [hdet]

/-- one iteration, given the invariant: either it returns, or it continues on an interval that satisfies the
    invariant and whose denominators' sum is strictly larger -/
theorem fareyLoop_step (x : Fr) (limit n : Nat) (l r : Fr) (h : FareyInv l r) :
    (limit < l.den + r.den ∧ fareyLoop x limit (n + 1) l r = some (l, r)) ∨
    (l.den + r.den ≤ limit ∧
      (fareyLoop x limit (n + 1) l r = fareyLoop x limit n l ⟨l.num + r.num, l.den + r.den⟩ ∨
       fareyLoop x limit (n + 1) l r = fareyLoop x limit n ⟨l.num + r.num, l.den + r.den⟩ r)) := by
  by_cases hd : limit < l.den + r.den
  · left
    refine ⟨hd, ?_⟩
    simp only [fareyLoop, mediant_reduced l r h]
    simp [hd]
  · right
    refine ⟨by omega, ?_⟩
    simp only [fareyLoop, gt_iff_lt, hd, if_false]
    by_cases hg : (⟨l.num + r.num, l.den + r.den⟩ : Fr).gt x = true
    · left; simp [hg]
    · right; simp [hg]

/-- TERMINATION: under the Farey invariant, `limit + 2 − (left.den + right.den)` iterations are enough
    (at least one) -/
theorem fareyLoop_terminates (x : Fr) (limit : Nat) :
    ∀ (n : Nat) (l r : Fr), FareyInv l r → limit + 1 ≤ n + (l.den + r.den) →
      fareyLoop x limit (n + 1) l r ≠ none := by
  intro n
  induction n with
  | zero =>
    intro l r h hf
    rcases fareyLoop_step x limit 0 l r h with ⟨_, hs⟩ | ⟨hle, _⟩
    · rw [hs]; simp
    · omega
  | succ n ih =>
    intro l r h hf
    rcases fareyLoop_step x limit (n + 1) l r h with ⟨_, hs⟩ | ⟨hle, hs | hs⟩
    · rw [hs]; simp
    · rw [hs]
      obtain ⟨_, hl, hr⟩ := h
      exact ih l _ (inv_left l r ⟨‹_›, hl, hr⟩) (by simp only; omega)
    · rw [hs]
      obtain ⟨_, hl, hr⟩ := h
      exact ih _ r (inv_right l r ⟨‹_›, hl, hr⟩) (by simp only; omega)

/-- `farey_neighbors(x, limit)` returns within `limit` iterations (for `limit ≥ 1`; the callers exclude 0) -/
theorem fareyNeighbors_terminates (x : Fr) (limit : Nat) (hl : 1 ≤ limit) :
    ∃ fuel, fuel ≤ limit ∧ fareyNeighbors x limit fuel ≠ none := by
  refine ⟨(limit - 1) + 1, by omega, ?_⟩
  unfold fareyNeighbors
  apply fareyLoop_terminates x limit (limit - 1) _ _ (fareyStart_inv x)
  have : (fareyStart x).1.den + (fareyStart x).2.den = 2 := by
    unfold fareyStart; split <;> rfl
  omega

/-- … and the bound is sharp: on `x = 1/(limit+1)` the walk visits `1/1, 1/2, …, 1/limit`; with fewer than
    `limit` iterations it has not returned.  The running time of `nearest` / `next_up` / `next_down` is therefore
    LINEAR in `limit` (exponential in its bit length): the finding recorded for C16. -/
theorem farey_walk_linear (L : Nat) :
    ∀ (fuel k : Nat), fuel + k < L →
      fareyLoop ⟨1, L + 1⟩ L fuel ⟨0, 1⟩ ⟨1, k + 1⟩ = none := by
  intro fuel
  induction fuel with
  | zero => intro k _; rfl
  | succ n ih =>
    intro k hk
    have h1 : ¬ (1 + (k + 1) > L) := by omega
    simp only [fareyLoop, h1, if_false]
    have hg : (⟨(0:Int) + 1, 1 + (k + 1)⟩ : Fr).gt ⟨1, L + 1⟩ = true := by
      unfold Fr.gt; simp; omega
    simp only [hg, if_true]
    have := ih (k + 1) (by omega)
    simpa [Nat.add_comm, Nat.add_left_comm, Nat.add_assoc] using this

theorem farey_needs_limit_steps (L fuel : Nat) (h : fuel < L) :
    fareyNeighbors ⟨1, L + 1⟩ L fuel = none := by
  unfold fareyNeighbors fareyStart
  simp only [show ¬ ((1:Int) < 0) by decide, if_false]
  exact farey_walk_linear L fuel 0 (by omega)

end Dashu.Proofs.Panic
