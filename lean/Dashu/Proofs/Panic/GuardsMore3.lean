import Dashu.Model.Panic.GuardsMore3
import Dashu.Proofs.Panic.AllocGuards
namespace Dashu.Proofs.Panic
open Dashu.Spec.Panics Dashu.Model.Panic

/-- `f.info` (`digits`, `precision`, `into_parts` …): Infinite for an infinity, nothing else -/
theorem guardFInfo_iff (W : Nat) (a : FArg) (k : Kind) (hc : a.canonical) (hm : a.moderate) :
    guardFInfo a = .error k ↔ documented W .fInfo [.flt a] = some k := by
  have hv : verdict W .fInfo [.flt a] =
      if ¬ a.canonical then none else if ¬ a.moderate then some .unspecified
      else if a.isInf then some (.panics .infinite)
      else if a.exp.natAbs ≤ 2 ^ 20 then some .returns else some .unspecified := rfl
  rw [documented_iff, hv, if_neg (by simpa using hc), if_neg (by simpa using hm)]
  unfold guardFInfo
  rw [assertFinite_err]
  by_cases h1 : a.isInf = true
  · simp [h1]
  · have ha : a.isInf = false := not_inf_of a h1
    simp only [ha, Bool.false_eq_true, if_false, false_and, false_iff]
    exact tail_ne_panics _ k

/-- operators on two `Reduced` values of the SAME ring (modulus ≥ 2): DivideByZero never, NonInvertible exactly when
    the divisor shares a factor with the modulus -/
theorem guardMSame_iff (W : Nat) (f : String) (m : Nat) (x b : Int) (k : Kind)
    (hf : f ∈ ["add", "sub", "mul", "div", "eq"]) (hm : m ≠ 1) :
    guardMSame W f m b = .error k ↔ documented W .mSame [.fn f, .int m, .int x, .int b] = some k := by
  have hv : verdict W .mSame [.fn f, .int m, .int x, .int b] =
      if (m:Int) < 0 ∨ ¬ (f ∈ ["add", "sub", "mul", "div", "eq"]) then none
      else if (m:Int) = 0 then some (.panics .divideByZero)
      else if f = "div" then
        (if (m:Int) = 1 then some .unspecified
         else some (firstOf [(Nat.gcd (b % (m:Int)).natAbs (m:Int).natAbs ≠ 1, .nonInvertible)]))
      else some .returns := rfl
  have hn : ¬ ((m:Int) < 0 ∨ ¬ (f ∈ ["add", "sub", "mul", "div", "eq"])) := by
    intro h; rcases h with h | h
    · omega
    · exact h hf
  rw [documented_iff, hv, if_neg hn]
  unfold guardMSame
  rw [guardCdNew_eq]
  by_cases h0 : m = 0
  · simp [h0, bind, Except.bind]
  · have h0' : ¬ ((m:Int) = 0) := by omega
    have h1' : ¬ ((m:Int) = 1) := by omega
    simp only [h0, h0', h1', if_false, bind, Except.bind, Int.natAbs_natCast]
    by_cases hd : f = "div"
    · simp only [hd, if_true, Option.some.injEq, firstOf_one, decide_eq_true_eq]
      by_cases hg : Nat.gcd (b % (m:Int)).natAbs m = 1
      · simp [hg]
      · simp [hg]
    · simp [hd]

/-- `from_chunks`: the zero-`chunk_bits` assertion (the allocation part is the recorded sizing finding) -/
theorem guardFromChunks_zero (W : Nat) (cs : List Arg) (l : List Int) (hl : allInts cs = some l)
    (hpos : ¬ l.any (· < 0)) (k : Kind) :
    guardFromChunks 0 = .error k ↔ documented W .uFromChunks (.dec 0 :: cs) = some k := by
  have hv : verdict W .uFromChunks (.dec 0 :: cs) =
      match allInts cs with
      | none => none
      | some l =>
        if (0:Int) < 0 ∨ l.any (· < 0) then none
        else some (if (0:Int) = 0 then .panics .zeroChunkBits else alloc W (chunksBits (0:Int).toNat 0 l)) := rfl
  rw [documented_iff, hv, hl]
  have hn : ¬ ((0:Int) < 0 ∨ l.any (· < 0) = true) := by
    intro h; rcases h with h | h
    · omega
    · exact hpos h
  simp only [if_neg hn]
  unfold guardFromChunks guardChunkBits
  simp

/-- `IBig << n`: the same request as for the magnitude -/
theorem ishl_alloc_guard (x : Int) (n : Nat) (hx0 : x ≠ 0)
    (hband : (bitLen x.natAbs + n + 63) / 64 + 2 ≤ maxCapacity 64 ∨ (bitLen x.natAbs + n + 63) / 64 > maxCapacity 64) :
    guardRequest 64 (shlRequest 64 x.natAbs n) = .error .allocTooMuch ↔
      documented 64 .iShl [.int x, .dec n] = some .allocTooMuch := by
  have hu := shl_alloc_guard x.natAbs n (by omega) hband
  rw [hu]
  have hv1 : verdict 64 .uShl [.int (x.natAbs : Int), .dec n] =
      if ((x.natAbs:Nat):Int) < 0 ∨ (n:Int) < 0 then none
      else some (if ((x.natAbs:Nat):Int) = 0 then .returns
                 else alloc 64 (bitLen ((x.natAbs:Nat):Int).natAbs + (n:Int).toNat)) := rfl
  have hv2 : verdict 64 .iShl [.int x, .dec n] =
      if (n:Int) < 0 then none
      else some (if x = 0 then .returns else alloc 64 (bitLen x.natAbs + (n:Int).toNat)) := rfl
  rw [documented_iff, documented_iff, hv1, hv2]
  have h1 : ¬ (((x.natAbs:Nat):Int) < 0 ∨ (n:Int) < 0) := by omega
  have h2 : ¬ ((n:Int) < 0) := by omega
  have h3 : ¬ (((x.natAbs:Nat):Int) = 0) := by omega
  rw [if_neg h1, if_neg h2, if_neg h3, if_neg hx0, Int.natAbs_natCast]

/-- `from_parts`: there is no guard; the documentation promises an overflow panic when the normalised exponent
    leaves `isize` — equivalence only where it does not (recorded finding float_exponent_unchecked) -/
theorem guardFFromParts_iff_partial (W : Nat) (s e : Int) (z : FArg) (k : Kind) (hz : z.canonical)
    (he : isizeMin ≤ e ∧ e ≤ isizeMax)
    (hexp : s ≠ 0 → expExact (e + (FArg.trailingZeros z.base s.natAbs : Int)) = .returns) :
    guardFFromParts = .error k ↔ documented W .fFromParts [.int s, .dec e, .flt z] = some k := by
  have hv : verdict W .fFromParts [.int s, .dec e, .flt z] =
      if ¬ z.canonical ∨ e < isizeMin ∨ e > isizeMax then none
      else if s = 0 then some .returns
      else some (expExact (e + (FArg.trailingZeros z.base s.natAbs : Int))) := rfl
  have hn : ¬ (¬ z.canonical = true ∨ e < isizeMin ∨ e > isizeMax) := by
    intro h; rcases h with h | h | h
    · exact h hz
    · omega
    · omega
  rw [documented_iff, hv, if_neg hn]
  unfold guardFFromParts
  by_cases h0 : s = 0
  · simp [h0]
  · simp [h0, hexp h0]

theorem guardFFromParts_counterexample :
    guardFFromParts = .ok () ∧
    documented 64 .fFromParts [.int 2, .dec (2 ^ 63 - 1), .flt ⟨2, 0, 0, 1, 'Z'⟩] = some .exponentOverflow := by
  constructor <;> decide

end Dashu.Proofs.Panic
