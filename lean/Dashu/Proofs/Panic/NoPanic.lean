import Dashu.Proofs.Panic.Guards
/-
  C16 round 3: the operations for which the documentation names NO panic for any input (fallible constructors /
  parsers return `Err`, inspectors and conversions are total).  These have no guard in the code either: the mirrored
  guard is the constant `.ok ()`, so `guard = documented` is the statement `documented … = none`, for ALL arguments
  of the operation's shape.  (That the code really never panics on them is what the correspondence run observes.)
-/
namespace Dashu.Proofs.Panic
open Dashu.Spec.Panics Dashu.Model.Panic

theorem documented_none_iff (W : Nat) (op : Op) (args : List Arg) :
    documented W op args = none ↔ ∀ k, verdict W op args ≠ some (.panics k) := by
  constructor
  · intro h k hv
    have := (documented_iff W op args k).mpr hv
    rw [h] at this; cases this
  · intro h
    cases hd : documented W op args with
    | none => rfl
    | some k => exact absurd ((documented_iff W op args k).mp hd) (h k)

/-- closes `documented W op args = none` when the verdict is an if-chain ending in `none` / `returns` / `unspecified` -/
macro "no_panic" : tactic =>
  `(tactic| (rw [documented_none_iff]; intro k; dsimp only [verdict];
             (try split) <;> (try split) <;> (try split) <;> (try split) <;> simp))

theorem no_panic_parse_radix (W : Nat) (s : List UInt8) (r : Int) (op : Op)
    (hop : op ∈ [Op.uFromStrRadix, .iFromStrRadix, .uFromStrDefault, .iFromStrDefault]) :
    documented W op [.str s, .dec r] = none := by
  simp at hop; rcases hop with h | h | h | h <;> subst h <;> no_panic

theorem no_panic_parse (W : Nat) (s : List UInt8) (op : Op)
    (hop : op ∈ [Op.uFromStrPrefix, .iFromStrPrefix, .uFromStr, .iFromStr]) :
    documented W op [.str s] = none := by
  simp at hop; rcases hop with h | h | h | h <;> subst h <;> no_panic

theorem no_panic_unary_int (W : Nat) (x : Int) (op : Op)
    (hop : op ∈ [Op.uFmt, .iFmt, .uSqrt, .uCbrt, .iCbrt, .uBitInfo, .iBitInfo, .uToPrims, .iToPrims, .uBytes,
                 .iBytes, .uTryFromI]) :
    documented W op [.int x] = none := by
  simp at hop
  rcases hop with h | h | h | h | h | h | h | h | h | h | h | h <;> subst h <;> no_panic

theorem no_panic_int_index (W : Nat) (x n : Int) (op : Op)
    (hop : op ∈ [Op.uShr, .iShr, .uClearBit, .uBit, .iBit, .uSplitBits, .uClearHighBits]) :
    documented W op [.int x, .dec n] = none := by
  simp at hop
  rcases hop with h | h | h | h | h | h | h <;> subst h <;> no_panic

theorem no_panic_remove (W : Nat) (x f : Int) : documented W .uRemove [.int x, .int f] = none := by no_panic

theorem no_panic_from_ieee (W : Nat) (b : Int) (op : Op)
    (hop : op ∈ [Op.uTryFromF64, .iTryFromF64, .uTryFromF32, .iTryFromF32, .qFromF64]) :
    documented W op [.dec b] = none := by
  simp at hop
  rcases hop with h | h | h | h | h <;> subst h <;> no_panic

theorem no_panic_float_cmp (W : Nat) (a b : FArg) : documented W .fCmp [.flt a, .flt b] = none := by no_panic

theorem no_panic_float_conv (W : Nat) (a : FArg) (op : Op)
    (hop : op ∈ [Op.fToF32, .fToF64, .fNegAbs, .fToIntTry, .fToRatio, .fFmt]) :
    documented W op [.flt a] = none := by
  simp at hop
  rcases hop with h | h | h | h | h | h <;> subst h <;> no_panic

theorem no_panic_with_precision (W : Nat) (a : FArg) (p : Int) :
    documented W .fWithPrecision [.flt a, .dec p] = none := by no_panic

theorem no_panic_float_ctor (W : Nat) (s : List UInt8) (i p b : Int) (z : FArg) :
    documented W .fParse [.str s, .flt z] = none ∧
    documented W .fFromInt [.int i, .dec p, .flt z] = none ∧
    documented W .fFromF64 [.dec b, .flt z] = none := by
  refine ⟨?_, ?_, ?_⟩ <;> no_panic

theorem no_panic_ratio_parse (W : Nat) (s : List UInt8) (r : Int) (c : Char) :
    documented W .qParse [.str s, .kind c] = none ∧
    documented W .qFromStrPrefix [.str s, .kind c] = none ∧
    documented W .qFromStrRadix [.str s, .dec r, .kind c] = none := by
  refine ⟨?_, ?_, ?_⟩ <;> no_panic

theorem no_panic_ratio_unary (W : Nat) (n d : Int) (c : Char) (op : Op)
    (hop : op ∈ [Op.qSqrCubic, .qRounding, .qToFloats, .qSign, .qFmt, .qToIntTry]) :
    documented W op [.int n, .int d, .kind c] = none := by
  simp at hop
  rcases hop with h | h | h | h | h | h <;> subst h <;> no_panic

theorem no_panic_ratio_binary (W : Nat) (n d n2 d2 : Int) (c : Char) (op : Op)
    (hop : op ∈ [Op.qAdd, .qSub, .qMul, .qCmp, .qSimplestIn]) :
    documented W op [.int n, .int d, .kind c, .int n2, .int d2] = none := by
  simp at hop
  rcases hop with h | h | h | h | h <;> subst h <;> no_panic

end Dashu.Proofs.Panic
