import Dashu.Proofs.Panic.GuardsMore
/-
  C16 round 2: the ALLOCATION guards.  Since fixes 52b4fc5 / ada6bea `Buffer::allocate(n)` and `Buffer::reallocate(n)`
  panic with AllocTooMuch iff `n > MAX_CAPACITY`.  The documentation's rule is about the RESULT: more than
  `MAX_CAPACITY` words.  These theorems relate the number of words the code REQUESTS (mirrored in
  `onesRequest / setBitRequest / shlRequest`) to the result size, for 64-bit words: the request exceeds the result
  by at most 2 words, so the guard fires iff the documentation says AllocTooMuch — except in the band of at most
  two word counts right below `MAX_CAPACITY` (hypothesis `hband`; there the code reports AllocTooMuch for a result
  that would merely be out of memory).
-/
namespace Dashu.Proofs.Panic
open Dashu.Spec.Panics Dashu.Model.Panic

theorem maxCap64 : maxCapacity 64 = 288230376151711743 := by decide

theorem alloc_atm (W bits : Nat) :
    alloc W bits = .panics .allocTooMuch ↔ (bits + W - 1) / W > maxCapacity W := by
  unfold alloc
  by_cases h : (bits + W - 1) / W > maxCapacity W
  · simp [h]
  · simp only [h, if_false, iff_false]
    split
    · simp
    · split <;> simp

theorem guardAllocWords_atm (W r : Nat) :
    guardAllocWords W r = .error .allocTooMuch ↔ r > maxCapacity W := by
  unfold guardAllocWords
  by_cases h : r > maxCapacity W <;> simp [h]

theorem bitLen_pos (x : Nat) (h : x ≠ 0) : 1 ≤ bitLen x := by
  unfold bitLen; simp [h]

theorem bitLen_le (x k : Nat) (h : x < 2 ^ k) : bitLen x ≤ k := by
  unfold bitLen
  by_cases h0 : x = 0
  · simp [h0]
  · simp only [h0, if_false]
    have := (Nat.log2_lt h0).mpr h
    omega

/-- `UBig::ones(n)` -/
theorem ones_alloc_guard (n : Nat) (hband : ¬ (n % 64 = 0 ∧ n / 64 = maxCapacity 64)) :
    guardRequest 64 (onesRequest 64 n) = .error .allocTooMuch ↔
      documented 64 .uOnes [.dec n] = some .allocTooMuch := by
  have hv : verdict 64 .uOnes [.dec n] = if (n:Int) < 0 then none else some (alloc 64 (n:Int).toNat) := rfl
  have hn : ¬ ((n:Int) < 0) := by omega
  rw [documented_iff, hv, if_neg hn, Int.toNat_natCast, Option.some.injEq, alloc_atm]
  rw [maxCap64] at *
  unfold onesRequest guardRequest
  by_cases h : n ≤ 2 * 64
  · simp only [h, if_true]
    constructor
    · intro h'; cases h'
    · intro h'; omega
  · simp only [h, if_false]
    rw [guardAllocWords_atm, maxCap64]
    omega

/-- `UBig::set_bit(n)` on a value that exists (at most `MAX_CAPACITY` words) -/
theorem set_bit_alloc_guard (x n : Nat) (hx : (bitLen x + 63) / 64 ≤ maxCapacity 64) :
    guardRequest 64 (setBitRequest 64 x n) = .error .allocTooMuch ↔
      documented 64 .uSetBit [.int x, .dec n] = some .allocTooMuch := by
  have hv : verdict 64 .uSetBit [.int x, .dec n] =
      if (x:Int) < 0 ∨ (n:Int) < 0 then none
      else some (alloc 64 (max (bitLen (x:Int).natAbs) ((n:Int).toNat + 1))) := rfl
  have hn : ¬ ((x:Int) < 0 ∨ (n:Int) < 0) := by omega
  rw [documented_iff, hv, if_neg hn, Int.toNat_natCast, Int.natAbs_natCast, Option.some.injEq, alloc_atm]
  rw [maxCap64] at *
  unfold setBitRequest guardRequest isSmall
  by_cases hs : x < 2 ^ (2 * 64)
  · have hL := bitLen_le x (2 * 64) hs
    simp only [hs, decide_true, if_true]
    by_cases h : n < 2 * 64
    · simp only [h, if_true]
      constructor
      · intro h'; cases h'
      · intro h'; omega
    · simp only [h, if_false]
      rw [guardAllocWords_atm, maxCap64]
      omega
  · simp only [hs, decide_false, Bool.false_eq_true, if_false]
    by_cases h : n / 64 < (bitLen x + 64 - 1) / 64
    · simp only [h, if_true]
      constructor
      · intro h'; cases h'
      · intro h'; omega
    · simp only [h, if_false]
      rw [guardAllocWords_atm, maxCap64]
      omega

/-- `UBig << n` / `IBig << n` (`x ≠ 0`): outside the band of two word counts below `MAX_CAPACITY` -/
theorem shl_alloc_guard (x n : Nat) (hx0 : x ≠ 0)
    (hband : (bitLen x + n + 63) / 64 + 2 ≤ maxCapacity 64 ∨ (bitLen x + n + 63) / 64 > maxCapacity 64) :
    guardRequest 64 (shlRequest 64 x n) = .error .allocTooMuch ↔
      documented 64 .uShl [.int x, .dec n] = some .allocTooMuch := by
  have hv : verdict 64 .uShl [.int x, .dec n] =
      if (x:Int) < 0 ∨ (n:Int) < 0 then none
      else some (if (x:Int) = 0 then .returns else alloc 64 (bitLen (x:Int).natAbs + (n:Int).toNat)) := rfl
  have hn : ¬ ((x:Int) < 0 ∨ (n:Int) < 0) := by omega
  have hx0' : ¬ ((x:Int) = 0) := by omega
  rw [documented_iff, hv, if_neg hn, if_neg hx0', Int.toNat_natCast, Int.natAbs_natCast, Option.some.injEq, alloc_atm]
  rw [maxCap64] at *
  have hL1 := bitLen_pos x hx0
  unfold shlRequest guardRequest isSmall
  by_cases hs : x < 2 ^ (2 * 64)
  · have hL := bitLen_le x (2 * 64) hs
    simp only [hs, decide_true, if_true]
    by_cases h : bitLen x + n ≤ 2 * 64
    · simp only [h, if_true]
      constructor
      · intro h'; cases h'
      · intro h'; omega
    · simp only [h, if_false]
      by_cases h1 : x = 1
      · have : bitLen x = 1 := by subst h1; decide
        simp only [h1, if_true]
        rw [guardAllocWords_atm, maxCap64]
        subst h1
        omega
      · simp only [h1, if_false]
        rw [guardAllocWords_atm, maxCap64]
        omega
  · simp only [hs, decide_false, Bool.false_eq_true, if_false]
    rw [guardAllocWords_atm, maxCap64]
    omega

/-- inside the band the code reports AllocTooMuch for a result that still has `≤ MAX_CAPACITY` words: `3 << (2^64-100)` -/
theorem shl_alloc_band_counterexample :
    guardRequest 64 (shlRequest 64 3 (2 ^ 64 - 100)) = .error .allocTooMuch ∧
    documented 64 .uShl [.int 3, .dec (2 ^ 64 - 100)] = some .outOfMemory := by
  constructor <;> decide

end Dashu.Proofs.Panic
