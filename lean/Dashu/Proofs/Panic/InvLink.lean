import Dashu.Proofs.Panic.GuardsMore3
import Dashu.Props.C13
/-
  C16 round 8 — link theorem: the `NonInvertible` guard of `Reduced ÷ Reduced` (C16 took `inv()` at its
  specification "Some iff gcd(residue, modulus) = 1") decides exactly what C13's MODELLED `inv` / `div`
  (extended-gcd kernels, proved in Props/C13 `inv_spec`, `div_spec`) do — for every word size, every modulus
  (single / double / multi-word ring), every operand.  Pure statement about existing definitions.
-/
namespace Dashu.Proofs.Panic.InvLink
open Dashu.Model Dashu.Model.Panic Dashu.Model.NT Dashu.Spec.Panics

theorem ring_new_m {W id m : Nat} {r : Ring} (h : Ring.new W id m = .ok r) : r.m = m ∧ m ≠ 0 := by
  unfold Ring.new at h
  split at h
  · cases h
  rename_i hm
  split at h
  · cases h; exact ⟨rfl, hm⟩
  split at h
  · cases h; exact ⟨rfl, hm⟩
  · cases h; exact ⟨rfl, hm⟩

theorem natAbs_emod_eq_res (m : Nat) (hm : m ≠ 0) (b : Int) : (b % (m : Int)).natAbs = res m b := by
  unfold res
  have h0 : 0 ≤ b % (m : Int) := Int.emod_nonneg _ (by omega)
  omega

theorem guardCdNew_ok (W m : Nat) (hm : m ≠ 0) : guardCdNew W m = .ok () := by
  unfold guardCdNew guardDivByZero
  split <;> simp

theorem guardCdNew_zero (W : Nat) : guardCdNew W 0 = .error .divideByZero := by
  unfold guardCdNew guardDivByZero isSmall
  simp

theorem guardMSame_div_eq (W m : Nat) (hm : m ≠ 0) (b : Int) :
    guardMSame W "div" m b = (if Nat.gcd (res m b) m = 1 then .ok () else .error .nonInvertible) := by
  unfold guardMSame
  rw [guardCdNew_ok W m hm, natAbs_emod_eq_res m hm b]
  rfl

/-- the constructor half: the guard reports DivideByZero exactly when C13's `ConstDivisor::new` does -/
theorem ctor_link (W id m : Nat) (f : String) (b : Int) :
    guardMSame W f m b = .error .divideByZero ↔ Ring.new W id m = .error .divideByZero := by
  by_cases hm : m = 0
  · subst hm
    constructor
    · intro _; simp [Ring.new]
    · intro _; unfold guardMSame; rw [guardCdNew_zero]; rfl
  · constructor
    · intro h
      unfold guardMSame at h
      rw [guardCdNew_ok W m hm] at h
      simp only [bind, Except.bind] at h
      split at h
      · split at h <;> cases h
      · cases h
    · intro h
      unfold Ring.new at h
      rw [if_neg hm] at h
      split at h
      · cases h
      split at h <;> cases h

/-- the `inv` half: guard passes ⇔ the modelled `inv()` returns `Some`;
    guard says NonInvertible ⇔ the modelled `/` ends in `NonInvertible` (whatever the dividend) -/
theorem inv_link (W id m : Nat) (hW : 0 < W) (r : Ring) (hr : Ring.new W id m = .ok r) (x b : Int) :
    (guardMSame W "div" m b = .ok () ↔ ((reduceInt W r b).inv).isSome) ∧
    (guardMSame W "div" m b = .error .nonInvertible ↔
        (reduceInt W r x).div W (reduceInt W r b) = .error .nonInvertible) ∧
    (guardMSame W "div" m b = .ok () ↔ ∃ q, (reduceInt W r x).div W (reduceInt W r b) = .ok q) := by
  have hwf := Ring.new_wf hW hr
  obtain ⟨hrm, hm⟩ := ring_new_m hr
  have hinv := (Dashu.Props.C13.inv_spec W r hwf b).1
  obtain ⟨hd1, hd2⟩ := Dashu.Props.C13.div_spec W r hwf x b
  rw [hrm] at hinv hd1 hd2
  rw [guardMSame_div_eq W m hm b]
  by_cases hg : Nat.gcd (res m b) m = 1
  · rw [if_pos hg]
    obtain ⟨q, hq, _⟩ := hd2 hg
    refine ⟨⟨fun _ => hinv.2 hg, fun _ => rfl⟩, ⟨(fun h => by cases h), fun h => ?_⟩, ⟨fun _ => ⟨q, hq⟩, fun _ => rfl⟩⟩
    rw [hq] at h; cases h
  · rw [if_neg hg]
    have hd := hd1 hg
    refine ⟨⟨(fun h => by cases h), fun h => absurd (hinv.1 h) hg⟩, ⟨fun _ => hd, fun _ => rfl⟩,
      ⟨(fun h => by cases h), fun ⟨q, hq⟩ => ?_⟩⟩
    rw [hd] at hq; cases hq

/-- guard passes ⇔ the documentation names no panic (from the `∀ k` equivalence `guardMSame_iff`) -/
theorem guardMSame_ok_iff (W : Nat) (f : String) (m : Nat) (x b : Int)
    (hf : f ∈ ["add", "sub", "mul", "div", "eq"]) (hm : m ≠ 1) :
    guardMSame W f m b = .ok () ↔ documented W .mSame [.fn f, .int m, .int x, .int b] = none := by
  have key := fun k => Dashu.Proofs.Panic.guardMSame_iff W f m x b k hf hm
  constructor
  · intro h
    cases hdoc : documented W .mSame [.fn f, .int m, .int x, .int b] with
    | none => rfl
    | some k => have := (key k).2 hdoc; rw [h] at this; cases this
  · intro h
    cases hg : guardMSame W f m b with
    | ok u => rfl
    | error k => have := (key k).1 hg; rw [h] at this; cases this

/-- documentation ⇔ C13's modelled code, for `Reduced ÷ Reduced` in one ring of any size (modulus ≠ 1):
    the rustdoc names `NonInvertible` exactly when the modelled `/` (extended-gcd `inv` kernels, then `mul`) ends in
    `NonInvertible`; it names no panic exactly when the modelled `/` returns a value; it names `DivideByZero`
    exactly when the modelled constructor refuses the modulus. -/
theorem documented_div_link (W id m : Nat) (hW : 0 < W) (hm1 : m ≠ 1) (x b : Int) :
    (documented W .mSame [.fn "div", .int m, .int x, .int b] = some .divideByZero ↔
        Ring.new W id m = .error .divideByZero) ∧
    (∀ r, Ring.new W id m = .ok r →
      (documented W .mSame [.fn "div", .int m, .int x, .int b] = some .nonInvertible ↔
          (reduceInt W r x).div W (reduceInt W r b) = .error .nonInvertible) ∧
      (documented W .mSame [.fn "div", .int m, .int x, .int b] = none ↔
          ∃ q, (reduceInt W r x).div W (reduceInt W r b) = .ok q)) := by
  have hf : "div" ∈ ["add", "sub", "mul", "div", "eq"] := by decide
  refine ⟨?_, fun r hr => ?_⟩
  · rw [← Dashu.Proofs.Panic.guardMSame_iff W "div" m x b _ hf hm1]; exact ctor_link W id m "div" b
  · obtain ⟨_, h2, h3⟩ := inv_link W id m hW r hr x b
    exact ⟨by rw [← Dashu.Proofs.Panic.guardMSame_iff W "div" m x b _ hf hm1]; exact h2,
           by rw [← guardMSame_ok_iff W "div" m x b hf hm1]; exact h3⟩

/-- non-vacuity (single-word ring, 12 | gcd 3): the documentation names NonInvertible, hence the modelled `/` panics so -/
example : ∃ r, Ring.new 64 0 12 = .ok r ∧
    (reduceInt 64 r 5).div 64 (reduceInt 64 r 3) = .error .nonInvertible :=
  ⟨_, rfl, ((documented_div_link 64 0 12 (by decide) (by decide) 5 3).2 _ rfl).1.1 (by decide +kernel)⟩
/-- non-vacuity (3-word ring 2^190+7, divisor 3 coprime): no panic documented, hence the modelled `/` returns -/
example : ∃ r, Ring.new 64 0 (2 ^ 190 + 7) = .ok r ∧ r.kind = .large ∧
    ∃ q, (reduceInt 64 r (-5)).div 64 (reduceInt 64 r 3) = .ok q :=
  ⟨_, rfl, rfl, ((documented_div_link 64 0 (2 ^ 190 + 7) (by decide) (by decide) (-5) 3).2 _ rfl).2.1 (by decide +kernel)⟩
/-- non-vacuity (modulus 0): DivideByZero on both sides -/
example : Ring.new 64 0 0 = .error .divideByZero ∧
    documented 64 .mSame [.fn "div", .int (0 : Nat), .int 5, .int 3] = some .divideByZero :=
  ⟨rfl, (documented_div_link 64 0 0 (by decide) (by decide) 5 3).1.2 rfl⟩

end Dashu.Proofs.Panic.InvLink
