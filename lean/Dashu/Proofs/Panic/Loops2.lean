import Dashu.Model.Panic.Loops2
import Mathlib.Algebra.Order.Field.Rat
import Mathlib.Algebra.Order.Field.Basic
import Mathlib.Algebra.Order.AbsoluteValue.Basic
import Mathlib.Tactic.Linarith
import Mathlib.Tactic.Positivity
import Mathlib.Tactic.Ring
/-
  C16 round 3: termination of the loops of `Dashu.Model.Panic.Loops2`, each under the condition the CODE
  establishes before entering the loop.
-/
namespace Dashu.Proofs.Panic
open Dashu.Model.Panic

-- ------------------------------------------------------------------ exp: Maclaurin loop

/-- `exp_internal` reduces the argument to `|r| < B^-n ≤ 1/2` before the loop; then every term is at most half the
    previous one and `n + 1` iterations suffice once `|pow| ≤ 2^(n+1) · eps · factorial` -/
theorem expLoop_terminates (r eps : Rat) (hr : |r| ≤ 1 / 2) (he : 0 < eps) :
    ∀ (n : Nat) (factorial pow sum : Rat) (k : Nat), 0 < factorial → 1 ≤ k →
      |pow| ≤ 2 ^ (n + 1) * eps * factorial →
      expLoop r eps (n + 1) factorial pow sum k ≠ none := by
  intro n
  induction n with
  | zero =>
    intro factorial pow sum k hf hk hb
    have hk' : (1 : Rat) ≤ (k : Rat) := by exact_mod_cast hk
    have hf' : 0 < factorial * (k : Rat) := by positivity
    have hpow : |pow * r| ≤ |pow| * (1 / 2) := by
      rw [abs_mul]; exact mul_le_mul_of_nonneg_left hr (abs_nonneg _)
    have hb' : |pow| ≤ 2 * eps * factorial := by simpa using hb
    have hinc : |pow * r / (factorial * (k : Rat))| ≤ eps := by
      rw [abs_div, abs_of_pos hf', div_le_iff₀ hf']
      have : eps * factorial ≤ eps * (factorial * (k : Rat)) := by
        have : factorial ≤ factorial * (k : Rat) := by nlinarith
        exact mul_le_mul_of_nonneg_left this (le_of_lt he)
      linarith
    have h2 := abs_le.mp hinc
    simp only [expLoop]
    have : pow * r / (factorial * (k : Rat)) ≤ eps ∧ -(pow * r / (factorial * (k : Rat))) ≤ eps :=
      ⟨h2.2, by linarith [h2.1]⟩
    simp [this]
  | succ n ih =>
    intro factorial pow sum k hf hk hb
    have hk' : (1 : Rat) ≤ (k : Rat) := by exact_mod_cast hk
    have hf' : 0 < factorial * (k : Rat) := by positivity
    have hpow : |pow * r| ≤ |pow| * (1 / 2) := by
      rw [abs_mul]; exact mul_le_mul_of_nonneg_left hr (abs_nonneg _)
    have hle : factorial ≤ factorial * (k : Rat) := by nlinarith
    have h9 : |pow * r| ≤ 2 ^ (n + 1) * eps * (factorial * (k : Rat)) := by
      have e : (2 : Rat) ^ (n + 1 + 1) * eps * factorial = 2 * (2 ^ (n + 1) * eps * factorial) := by ring
      rw [e] at hb
      have hpos : 0 ≤ (2 : Rat) ^ (n + 1) * eps := by positivity
      have : 2 ^ (n + 1) * eps * factorial ≤ 2 ^ (n + 1) * eps * (factorial * (k : Rat)) :=
        mul_le_mul_of_nonneg_left hle hpos
      linarith
    simp only [expLoop]
    split
    · simp
    · exact ih (factorial * (k : Rat)) (pow * r) _ (k + 1) hf' (by omega) h9

/-- the whole series (`factorial = 1`, `pow = r`, `k = 2`): logarithmically many iterations in `1/eps` -/
theorem expSeries_terminates (r eps : Rat) (hr : |r| ≤ 1 / 2) (he : 0 < eps) (N : Nat)
    (hN : |r| ≤ 2 ^ (N + 1) * eps) : expSeries r eps (N + 1) ≠ none := by
  unfold expSeries
  exact expLoop_terminates r eps hr he N 1 r _ 2 (by norm_num) (by omega) (by simpa using hN)

-- ------------------------------------------------------------------ iacoth

theorem iacothLoop_terminates (inv2 eps : Rat) (h0 : 0 ≤ inv2) (h4 : inv2 ≤ 1 / 4) (he : 0 < eps) :
    ∀ (n : Nat) (pow sum : Rat) (k : Nat), 0 ≤ pow → 1 ≤ k → pow < 4 ^ (n + 1) * eps →
      iacothLoop inv2 eps (n + 1) pow sum k ≠ none := by
  intro n
  induction n with
  | zero =>
    intro pow sum k hp hk hb
    have hk' : (1 : Rat) ≤ (k : Rat) := by exact_mod_cast hk
    have hp' : 0 ≤ pow * inv2 := mul_nonneg hp h0
    have hb' : pow < 4 * eps := by simpa using hb
    have hm : pow * inv2 ≤ pow * (1 / 4) := mul_le_mul_of_nonneg_left h4 hp
    have hinc : pow * inv2 / (k : Rat) ≤ pow * inv2 := div_le_self hp' hk'
    simp only [iacothLoop]
    have : pow * inv2 / (k : Rat) < eps := by linarith
    simp [this]
  | succ n ih =>
    intro pow sum k hp hk hb
    have hp' : 0 ≤ pow * inv2 := mul_nonneg hp h0
    have hm : pow * inv2 ≤ pow * (1 / 4) := mul_le_mul_of_nonneg_left h4 hp
    have h9 : pow * inv2 < 4 ^ (n + 1) * eps := by
      have e : (4 : Rat) ^ (n + 1 + 1) * eps = 4 * (4 ^ (n + 1) * eps) := by ring
      rw [e] at hb
      linarith
    simp only [iacothLoop]
    split
    · simp
    · exact ih (pow * inv2) _ (k + 2) hp' (by omega) h9

/-- `iacoth(n)` for `n ≥ 2` (the code calls it with 6, 99, 26, 4801, 8749) -/
theorem iacothSeries_terminates (n : Nat) (hn : 2 ≤ n) (eps : Rat) (he : 0 < eps) (N : Nat)
    (hN : 1 / (n : Rat) < 4 ^ (N + 1) * eps) : iacothSeries n eps (N + 1) ≠ none := by
  unfold iacothSeries
  have hn' : (2 : Rat) ≤ (n : Rat) := by exact_mod_cast hn
  have hpos : (0 : Rat) < (n : Rat) := by linarith
  have hinv0 : (0 : Rat) ≤ 1 / (n : Rat) := by positivity
  have hinv : 1 / (n : Rat) ≤ 1 / 2 := by
    rw [div_le_div_iff₀ hpos (by norm_num)]; linarith
  apply iacothLoop_terminates _ eps (mul_nonneg hinv0 hinv0) _ he N _ _ 3 hinv0 (by omega) hN
  nlinarith

-- ------------------------------------------------------------------ integer log: estimate fixing

theorem logFixLoop_succ (target base : Nat) (ovf : Option Nat) (fuel est estPow : Nat) :
    logFixLoop target base ovf (fuel + 1) est estPow =
      if ovfHit ovf (estPow * base) = true then some (est, estPow)
      else if estPow * base < target then logFixLoop target base ovf fuel (est + 1) (estPow * base)
      else if estPow * base = target then some (est + 1, estPow * base)
      else some (est, estPow) := rfl

theorem logFixLoop_terminates (target base : Nat) (ovf : Option Nat) (hb : 2 ≤ base) :
    ∀ (k est estPow : Nat), 0 < estPow → target < estPow * base ^ k →
      logFixLoop target base ovf (k + 1) est estPow ≠ none := by
  intro k
  induction k with
  | zero =>
    intro est estPow hp ht
    rw [logFixLoop_succ]
    by_cases h1 : ovfHit ovf (estPow * base) = true
    · rw [if_pos h1]; simp
    · rw [if_neg h1]
      have h2 : ¬ (estPow * base < target) := by
        have : estPow ≤ estPow * base := Nat.le_mul_of_pos_right _ (by omega)
        simp at ht; omega
      rw [if_neg h2]
      by_cases h3 : estPow * base = target
      · rw [if_pos h3]; simp
      · rw [if_neg h3]; simp
  | succ k ih =>
    intro est estPow hp ht
    rw [logFixLoop_succ]
    by_cases h1 : ovfHit ovf (estPow * base) = true
    · rw [if_pos h1]; simp
    · rw [if_neg h1]
      by_cases h2 : estPow * base < target
      · rw [if_pos h2]
        apply ih (est + 1) (estPow * base) (Nat.mul_pos hp (by omega))
        calc target < estPow * base ^ (k + 1) := ht
          _ = estPow * base * base ^ k := by rw [Nat.pow_succ]; ring
      · rw [if_neg h2]
        by_cases h3 : estPow * base = target
        · rw [if_pos h3]; simp
        · rw [if_neg h3]; simp

/-- whatever the (positive) estimate, the fixing loop returns: at most `target + 1` iterations -/
theorem logFix_returns (target base : Nat) (ovf : Option Nat) (hb : 2 ≤ base) (est estPow : Nat) (hp : 0 < estPow) :
    ∃ fuel, logFixLoop target base ovf fuel est estPow ≠ none := by
  refine ⟨target + 1, logFixLoop_terminates target base ovf hb target est estPow hp ?_⟩
  have h1 : target < base ^ target := Nat.lt_pow_self (by omega)
  calc target < base ^ target := h1
    _ ≤ estPow * base ^ target := Nat.le_mul_of_pos_left _ hp

-- ------------------------------------------------------------------ remove: first stage

theorem removeUpLoop_terminates :
    ∀ (fuel q exp : Nat) (pows : List Nat), 0 < q → q < 2 ^ fuel → (∀ p ∈ pows, 2 ≤ p) →
      removeUpLoop fuel q exp pows ≠ none := by
  intro fuel
  induction fuel with
  | zero => intro q exp pows hq h; simp at h; omega
  | succ n ih =>
    intro q exp pows hq hlt hp
    cases pows with
    | nil => simp [removeUpLoop]
    | cons last rest =>
      simp only [removeUpLoop]
      split
      · simp
      · rename_i hdiv
        have hl : 2 ≤ last := hp last (by simp)
        have hdvd : q % last = 0 := by
          by_contra h; exact hdiv h
        have hq' : 0 < q / last := by
          apply Nat.div_pos
          · exact Nat.le_of_dvd hq (Nat.dvd_of_mod_eq_zero hdvd)
          · omega
        have hle : q / last ≤ q / 2 := Nat.div_le_div_left hl (by decide)
        have hlt' : q / last < 2 ^ n := by
          have : q < 2 * 2 ^ n := by rw [Nat.pow_succ] at hlt; omega
          omega
        apply ih (q / last) _ _ hq' hlt'
        intro p hpm
        simp at hpm
        rcases hpm with h | h | h
        · subst h; nlinarith
        · subst h; exact hl
        · exact hp p (by simp [h])

/-- `remove` (first stage) returns for every `self ≠ 0` and `factor ≥ 2`: at most `bit_len(self)` iterations -/
theorem removeUp_returns (q factor : Nat) (hq : 0 < q) (hf : 2 ≤ factor) :
    ∃ fuel, fuel ≤ Nat.log2 q + 1 ∧ removeUpLoop fuel q 1 [factor * factor] ≠ none := by
  refine ⟨Nat.log2 q + 1, Nat.le_refl _, ?_⟩
  apply removeUpLoop_terminates _ q 1 _ hq (Nat.lt_log2_self)
  intro p hp
  simp at hp
  subst hp
  nlinarith

-- ------------------------------------------------------------------ binary exponentiation

theorem powBitLoop_succ (exp fuel p sq mu : Nat) :
    powBitLoop exp (fuel + 1) p (sq, mu) =
      if p = 0 then some (sq, if exp.testBit p then mu + 1 else mu)
      else powBitLoop exp fuel (p - 1) (sq + 1, if exp.testBit p then mu + 1 else mu) := rfl

/-- the bit loop of `pow` / `powi` runs exactly `p + 1` times -/
theorem powBitLoop_terminates (exp : Nat) : ∀ (p : Nat) (acc : Nat × Nat), powBitLoop exp (p + 1) p acc ≠ none := by
  intro p
  induction p with
  | zero => intro acc; obtain ⟨sq, mu⟩ := acc; rw [powBitLoop_succ]; simp
  | succ p ih =>
    intro acc
    obtain ⟨sq, mu⟩ := acc
    rw [powBitLoop_succ, if_neg (Nat.succ_ne_zero p), Nat.add_sub_cancel]
    exact ih _

end Dashu.Proofs.Panic
