import Dashu.Proofs.Panic.Guards
/-
  C16 round 7: `FBig::ulp` — the hypothesis `precision ≤ 2^62` of `fbig_ulp_guard_partial` weakened to the weakest one
  possible.  `FBig::ulp` (float/src/fbig.rs) checks only `precision = 0`; the documentation (transcribed in
  `Spec/Panics.lean`, op `fUlp`) additionally names ExponentOverflow when the exponent of the unit in the last place,
  `exp + digits − precision`, is below `isize::MIN`.  So the guard is equivalent to the documentation EXACTLY on the
  inputs on which that clause is silent (`ulpClauseSilent`), and on every other canonical moderate input the two differ
  (guard `ok`, documentation ExponentOverflow) — the class of finding float_precision_isize_cast (f.ulp half), as a theorem.
-/
namespace Dashu.Proofs.Panic
open Dashu.Spec.Panics Dashu.Model.Panic

/-- the documented underflow clause of `ulp` does not apply: unlimited precision (reported first), an infinity, or the
    exponent of the ulp stays inside `isize` -/
def ulpClauseSilent (a : FArg) : Prop :=
  a.prec = 0 ∨ a.isInf = true ∨ isizeMin ≤ a.exp + (a.digits : Int) - (a.prec : Int)

instance (a : FArg) : Decidable (ulpClauseSilent a) := by unfold ulpClauseSilent; exact inferInstance

private theorem verdict_fUlp (W : Nat) (a : FArg) (hc : a.canonical) (hm : a.moderate) :
    verdict W .fUlp [.flt a] =
      some (firstOf [(a.prec = 0, .unlimitedPrecision),
                     (¬ a.isInf ∧ a.exp + (a.digits : Int) - (a.prec : Int) < isizeMin, .exponentOverflow)]) := by
  have hv : verdict W .fUlp [.flt a] =
      if ¬ a.canonical then none else if ¬ a.moderate then some .unspecified
      else some (firstOf [(a.prec = 0, .unlimitedPrecision),
                          (¬ a.isInf ∧ a.exp + (a.digits : Int) - (a.prec : Int) < isizeMin, .exponentOverflow)]) := rfl
  rw [hv, if_neg (by simpa using hc), if_neg (by simpa using hm)]

/-- SHARP form of `guardFUlp_iff`: every precision up to `usize::MAX`, hypothesis = the clause is silent -/
theorem guardFUlp_iff_sharp (W : Nat) (a : FArg) (k : Kind) (hc : a.canonical) (hm : a.moderate)
    (hs : ulpClauseSilent a) :
    guardFUlp a = .error k ↔ documented W .fUlp [.flt a] = some k := by
  rw [documented_iff, verdict_fUlp W a hc hm]
  unfold guardFUlp
  rw [err_iff]
  by_cases h0 : a.prec = 0
  · simp [firstOf, h0]
  · have hno : (decide (¬ a.isInf = true ∧ a.exp + (a.digits : Int) - (a.prec : Int) < isizeMin)) = false := by
      rw [decide_eq_false_iff_not]
      intro ⟨hfin, hlt⟩
      rcases hs with h | h | h
      · exact h0 h
      · exact hfin h
      · omega
    simp only [Option.some.injEq, firstOf, hno]
    simp [h0]

/-- the hypothesis of `guardFUlp_iff_sharp` is NECESSARY on every input (not only at one witness): outside it the code
    returns (no check) where ExponentOverflow is documented -/
theorem guardFUlp_not_silent (W : Nat) (a : FArg) (hc : a.canonical) (hm : a.moderate) (hs : ¬ ulpClauseSilent a) :
    guardFUlp a = .ok () ∧ documented W .fUlp [.flt a] = some .exponentOverflow := by
  unfold ulpClauseSilent at hs
  have h0 : ¬ a.prec = 0 := fun h => hs (Or.inl h)
  have hfin : ¬ a.isInf = true := fun h => hs (Or.inr (Or.inl h))
  have hlt : a.exp + (a.digits : Int) - (a.prec : Int) < isizeMin := by
    have : ¬ isizeMin ≤ a.exp + (a.digits : Int) - (a.prec : Int) := fun h => hs (Or.inr (Or.inr h))
    omega
  constructor
  · unfold guardFUlp; simp [h0]
  · rw [documented_iff, verdict_fUlp W a hc hm]
    have hyes : (decide (¬ a.isInf = true ∧ a.exp + (a.digits : Int) - (a.prec : Int) < isizeMin)) = true := by
      rw [decide_eq_true_eq]; exact ⟨hfin, hlt⟩
    simp only [firstOf, hyes]
    simp [h0]

/-- the two together: on canonical moderate operands, guard ≡ documentation (for all kinds) iff the clause is silent -/
theorem guardFUlp_iff_exactly (W : Nat) (a : FArg) (hc : a.canonical) (hm : a.moderate) :
    (∀ k : Kind, guardFUlp a = .error k ↔ documented W .fUlp [.flt a] = some k) ↔ ulpClauseSilent a := by
  constructor
  · intro h
    by_cases hs : ulpClauseSilent a
    · exact hs
    · obtain ⟨hok, hdoc⟩ := guardFUlp_not_silent W a hc hm hs
      have := (h .exponentOverflow).mpr hdoc
      rw [hok] at this
      exact absurd this (by simp)
  · intro hs k
    exact guardFUlp_iff_sharp W a k hc hm hs

/-- a closed-form sufficient bound: moderate exponent (≥ −2^61) and precision ≤ 2^63 − 2^61 = 3·2^61 (was 2^62) -/
theorem ulpClauseSilent_of_prec_le (a : FArg) (hm : a.moderate) (hp : a.prec ≤ 3 * 2 ^ 61) : ulpClauseSilent a := by
  unfold ulpClauseSilent
  unfold FArg.moderate at hm
  simp only [Bool.or_eq_true, Bool.and_eq_true, decide_eq_true_eq] at hm  -- (same normal form as guardFUlp_iff)
  rcases hm with hinf | ⟨h1, _⟩
  · exact Or.inr (Or.inl hinf)
  · refine Or.inr (Or.inr ?_)
    have : isizeMin = -(2 ^ 63) := rfl
    rw [this]
    have hd : (0 : Int) ≤ (a.digits : Int) := Int.natCast_nonneg _
    have hp' : (a.prec : Int) ≤ 3 * 2 ^ 61 := by exact_mod_cast hp
    omega

end Dashu.Proofs.Panic
