import Dashu.Proofs.Ratio.FBigModel
/-
  C18 FBig clause: `simplest_from_float` (required behaviour, `Quirks.none`): the result rounds
  back to the float and is the simplest fraction that does.
-/
namespace Dashu.Model.Ratio
open Dashu.Model

/-- number of base-`b` digits: `b^(k-1) ≤ n < b^k` -/
theorem digitsB_spec (b : ℕ) (hb : 2 ≤ b) : ∀ (n fuel : ℕ), 0 < n → n ≤ fuel →
    b ^ (digitsB b fuel n - 1) ≤ n ∧ n < b ^ (digitsB b fuel n) ∧ 1 ≤ digitsB b fuel n := by
  intro n
  induction n using Nat.strong_induction_on with
  | _ n ih =>
    intro fuel hn hf
    obtain ⟨f, rfl⟩ : ∃ f, fuel = f + 1 := ⟨fuel - 1, by omega⟩
    rw [digitsB, if_neg (by omega)]
    by_cases hq : n / b = 0
    · have hlt : n < b := by
        by_contra hc
        have : 1 ≤ n / b := Nat.div_pos (by omega) (by omega)
        omega
      have : digitsB b f (n / b) = 0 := by
        rw [hq]; cases f <;> simp [digitsB]
      rw [this]
      exact ⟨by simp; omega, by simpa using hlt, by omega⟩
    · have hlt : n / b < n := Nat.div_lt_self hn (by omega)
      obtain ⟨h1, h2, h3⟩ := ih (n / b) hlt f (Nat.pos_of_ne_zero hq) (by omega)
      set k := digitsB b f (n / b) with hk
      have hdm := Nat.div_add_mod n b
      have hmod := Nat.mod_lt n (by omega : 0 < b)
      refine ⟨?_, ?_, by omega⟩
      · have e : 1 + k - 1 = (k - 1) + 1 := by omega
        rw [e, pow_succ]
        calc b ^ (k - 1) * b ≤ (n / b) * b := Nat.mul_le_mul_right b h1
          _ ≤ n := by rw [Nat.mul_comm]; omega
      · have e : 1 + k = k + 1 := by omega
        rw [e, pow_succ]
        have h5 : n / b + 1 ≤ b ^ k := h2
        have h6 : (n / b + 1) * b ≤ b ^ k * b := Nat.mul_le_mul_right b h5
        have h7 : (n / b + 1) * b = b * (n / b) + b := by ring
        omega

/-- value of `scaleQ` -/
theorem scaleQ_val (m : ℤ) (b : ℕ) (hb : 2 ≤ b) (e : ℤ) :
    (scaleQ m b e).val = (m : ℚ) * (b : ℚ) ^ e ∧ 0 < (scaleQ m b e).den := by
  unfold scaleQ
  have hb0 : (b : ℚ) ≠ 0 := by exact_mod_cast (by omega : b ≠ 0)
  split
  · rename_i h
    refine ⟨?_, by simp⟩
    simp only [Q.val_def, Nat.cast_one, div_one]
    push_cast
    rw [← zpow_natCast, Int.toNat_of_nonneg h]
  · rename_i h
    refine ⟨?_, Nat.pow_pos (by omega)⟩
    simp only [Q.val_def]
    push_cast
    rw [← zpow_natCast, Int.toNat_of_nonneg (by omega), zpow_neg]
    field_simp

/-- the model's set (integer table scaled by `b^(e-1)/2`) is `FSet` of the mode's window -/
theorem modelSet_iff_FSet (mode : RMode) (b p : ℕ) (hb : 2 ≤ b) (neg : Bool) (S : ℕ) (odd : Bool)
    (e : ℤ) (y : ℚ) :
    let r := roundingSet Quirks.none mode b p neg S odd
    let sc : ℚ := (b : ℚ) ^ (e - 1) / 2
    ((r.1 : ℚ) * sc ≤ y ∧ y ≤ (r.2.1 : ℚ) * sc ∧ (y = (r.1 : ℚ) * sc → r.2.2.1 = true) ∧
      (y = (r.2.1 : ℚ) * sc → r.2.2.2 = true)) ↔ FSet (windowOf mode.toF neg) b p S e y := by
  intro r sc
  obtain ⟨h1, h2, h3, h4⟩ := roundingSet_window mode b p neg S odd
  have hb0 : (b : ℚ) ≠ 0 := by exact_mod_cast (by omega : b ≠ 0)
  have hU : (b : ℚ) ^ e = (b : ℚ) ^ (e - 1) * b := by
    have : e = (e - 1) + 1 := by ring
    conv_lhs => rw [this]
    rw [zpow_add_one₀ hb0]
  unfold FSet
  dsimp only
  have elo : (r.1 : ℚ) * sc =
      (if S = b ^ (p - 1) then (S : ℚ) * (b : ℚ) ^ e - (windowOf mode.toF neg).dlo * ((b : ℚ) ^ e / b)
       else (S : ℚ) * (b : ℚ) ^ e - (windowOf mode.toF neg).dlo * (b : ℚ) ^ e) := by
    rw [h1, hU]
    split <;> (simp only [sc]; field_simp)
  have ehi : (r.2.1 : ℚ) * sc = (S : ℚ) * (b : ℚ) ^ e + (windowOf mode.toF neg).dhi * (b : ℚ) ^ e := by
    rw [h2, hU]; simp only [sc]; field_simp
  rw [elo, ehi, h3, h4]

end Dashu.Model.Ratio

namespace Dashu.Model.Ratio
open Dashu.Model

theorem roundsTo_ne_zero {b : ℕ} (hb : 2 ≤ b) {m : FMode} {p : ℕ} {x v : ℚ}
    (h : RoundsTo b m p x v) : x ≠ 0 := by
  obtain ⟨t, h1, _, _⟩ := h
  intro h0
  rw [h0, abs_zero] at h1
  exact absurd h1 (not_le.mpr (bpow_pos b hb _))

/-- **`RBig::simplest_from_float`, required behaviour** (`Quirks.none`), every base `b ≥ 2`,
    mode and precision `p ≥ 1`: for a non-zero float `signif·b^exp` with at most `p` digits the
    result is a reduced fraction that ROUNDS BACK to exactly that float at `p` digits under the
    mode (`RoundsTo`, builder-float's `roundInt`), and EVERY fraction that rounds to the float is at
    most as simple. -/
theorem simplestFromFBig_exact (mode : RMode) (b : ℕ) (hb : 2 ≤ b)
    (signif exp : ℤ) (p : ℕ) (hs : signif ≠ 0) (hp : 1 ≤ p)
    (hdig : digitsB b (signif.natAbs + 1) signif.natAbs ≤ p) :
    ∃ r, simplestFromFBig Quirks.none simplerSpec mode b signif exp p = .ok (some r) ∧
      Reduced r ∧ RoundsTo b mode.toF p r.val ((signif : ℚ) * (b : ℚ) ^ exp) ∧
      ∀ (p' : ℤ) (s' : ℕ), 0 < s' →
        RoundsTo b mode.toF p ((p' : ℚ) / s') ((signif : ℚ) * (b : ℚ) ^ exp) →
        AsSimple r ⟨p', s'⟩ := by
  have hb0 : (b : ℚ) ≠ 0 := by exact_mod_cast (by omega : b ≠ 0)
  have hapos : 0 < signif.natAbs := Int.natAbs_pos.mpr hs
  obtain ⟨hd1, hd2, hd3⟩ := digitsB_spec b hb signif.natAbs (signif.natAbs + 1) hapos (by omega)
  set n := digitsB b (signif.natAbs + 1) signif.natAbs with hn
  set S := signif.natAbs * b ^ (p - n) with hS
  set e : ℤ := exp - ((p - n : ℕ) : ℤ) with he
  set neg : Bool := decide (signif < 0) with hneg
  -- S is a p-digit significand
  have hS1 : b ^ (p - 1) ≤ S := by
    have : b ^ (p - 1) = b ^ (n - 1) * b ^ (p - n) := by rw [← pow_add]; congr 1; omega
    rw [this]; exact Nat.mul_le_mul_right _ hd1
  have hS2 : S < b ^ p := by
    have : b ^ p = b ^ n * b ^ (p - n) := by rw [← pow_add]; congr 1; omega
    rw [this]; exact Nat.mul_lt_mul_of_pos_right hd2 (Nat.pow_pos (by omega))
  -- the float's value
  have hfval : (signif : ℚ) * (b : ℚ) ^ exp = (if neg then -(S : ℚ) else (S : ℚ)) * (b : ℚ) ^ e := by
    have hexp : exp = e + ((p - n : ℕ) : ℤ) := by rw [he]; ring
    have hSq : (S : ℚ) = (signif.natAbs : ℚ) * (b : ℚ) ^ ((p - n : ℕ) : ℤ) := by
      rw [hS, zpow_natCast]; push_cast; ring
    have habs : ((signif.natAbs : ℕ) : ℚ) = |(signif : ℚ)| := by
      rw [← Int.cast_natCast, Int.natCast_natAbs, Int.cast_abs]
    rw [hexp, zpow_add₀ hb0, hSq, habs]
    by_cases hlt : signif < 0
    · have : neg = true := by simp [hneg, hlt]
      rw [this, if_pos rfl, abs_of_neg (by exact_mod_cast hlt)]; ring
    · have : neg = false := by simp [hneg, hlt]
      rw [this]; simp only [Bool.false_eq_true, if_false]
      rw [abs_of_nonneg (by exact_mod_cast (not_lt.mp hlt))]; ring
  -- the integer table and its window form
  set odd : Bool := decide (signif.natAbs % 2 = 1)
  obtain ⟨w1, w2, w3, w4⟩ := roundingSet_window mode b p neg S odd
  have hW := windowOf_ok mode.toF neg
  set W := windowOf mode.toF neg
  set rs := roundingSet Quirks.none mode b p neg S odd with hrs
  have hSq1 : (1 : ℚ) ≤ S := by
    have : 1 ≤ S := lt_of_lt_of_le (Nat.pow_pos (by omega)) hS1
    exact_mod_cast this
  have hbq : (2 : ℚ) ≤ b := by exact_mod_cast hb
  have hdlo1 : W.dlo ≤ 1 := by linarith [hW.sum, hW.hi_nonneg]
  have hlopos : (0 : ℚ) < (rs.1 : ℚ) := by
    rw [w1]
    by_cases hpow : S = b ^ (p - 1)
    · rw [if_pos hpow]; nlinarith [hW.lo_nonneg]
    · rw [if_neg hpow]
      have : b ^ (p - 1) + 1 ≤ S := by omega
      have h2 : (2 : ℚ) ≤ S := by
        have : 2 ≤ S := by have := Nat.pow_pos (n := p - 1) (by omega : 0 < b); omega
        exact_mod_cast this
      nlinarith [hW.lo_nonneg]
  have hlohi : (rs.1 : ℚ) < (rs.2.1 : ℚ) := by
    rw [w1, w2]
    have hs := hW.sum
    by_cases hpow : S = b ^ (p - 1)
    · rw [if_pos hpow]; nlinarith [hW.lo_nonneg, hW.hi_nonneg]
    · rw [if_neg hpow]; nlinarith [hW.lo_nonneg, hW.hi_nonneg]
  -- the two end points as pairs
  set sc : ℚ := (b : ℚ) ^ (e - 1) / 2 with hsc
  have hscpos : 0 < sc := div_pos (bpow_pos b hb _) (by norm_num)
  have hmk : ∀ num : ℤ, 0 < (⟨(scaleQ num b (e - 1)).num, (scaleQ num b (e - 1)).den * 2⟩ : Q).den ∧
      (⟨(scaleQ num b (e - 1)).num, (scaleQ num b (e - 1)).den * 2⟩ : Q).val = (num : ℚ) * sc := by
    intro num
    obtain ⟨hv, hdp⟩ := scaleQ_val num b hb (e - 1)
    refine ⟨by simp only; omega, ?_⟩
    have hd0 : ((scaleQ num b (e - 1)).den : ℚ) ≠ 0 := by exact_mod_cast hdp.ne'
    rw [Q.val_def] at hv
    simp only [Q.val_def, hsc]
    push_cast
    rw [← div_div, hv]; ring
  obtain ⟨hld, hlv⟩ := hmk rs.1
  obtain ⟨hhd, hhv⟩ := hmk rs.2.1
  obtain ⟨lo, hlo1, hlo2, hlo3⟩ := reduce_spec _ hld
  obtain ⟨hi, hhi1, hhi2, hhi3⟩ := reduce_spec _ hhd
  rw [hlv] at hlo3; rw [hhv] at hhi3
  have hlonum : 0 < lo.num := (val_pos_iff lo hlo2.den_pos).1 (by rw [hlo3]; exact mul_pos hlopos hscpos)
  obtain ⟨sres, hpick, hsred, hspos, hs1, hs2, hs3, hs4, hsint, hslo, hshi⟩ :=
    pickSimplest_spec lo hi hlo2 hhi2 hlonum (by rw [hlo3, hhi3]; exact mul_lt_mul_of_pos_right hlohi hscpos)
      rs.2.2.1 rs.2.2.2
  -- the model's result
  have hres : simplestFromFBig Quirks.none simplerSpec mode b signif exp p =
      .ok (some (mulSign sres neg)) := by
    unfold simplestFromFBig
    simp only [if_neg hs, if_neg (by omega : ¬ p = 0), ← hn, if_neg (by omega : ¬ n > p)]
    simp only [← hS, ← he, ← hneg, ← hrs]
    show (do
      let lo ← reduce _
      let hi ← reduce _
      match ← pickSimplest simplerSpec lo hi _ _ with
        | none => pure none
        | some s => pure (some (mulSign s neg))) = _
    rw [hlo1]; simp only [bind_ok']
    rw [hhi1]; simp only [bind_ok']
    rw [hpick]; rfl
  -- membership of a magnitude in the model's set ⇔ FSet
  have hset : ∀ y : ℚ, ((rs.1 : ℚ) * sc ≤ y ∧ y ≤ (rs.2.1 : ℚ) * sc ∧
      (y = (rs.1 : ℚ) * sc → rs.2.2.1 = true) ∧ (y = (rs.2.1 : ℚ) * sc → rs.2.2.2 = true)) ↔
      FSet W b p S e y := fun y => modelSet_iff_FSet mode b p hb neg S odd e y
  obtain ⟨hrred, hrval⟩ := mulSign_spec sres neg hsred
  have hrnum : (mulSign sres neg).num.natAbs = sres.num.natAbs := by
    unfold mulSign; cases neg <;> simp
  have hsval_pos : 0 < sres.val := (val_pos_iff sres hsred.den_pos).2 hspos
  refine ⟨mulSign sres neg, hres, hrred, ?_, ?_⟩
  · -- rounds back
    rw [hfval]
    have hx0 : (mulSign sres neg).val ≠ 0 := by
      rw [hrval]; cases neg <;> simp <;> linarith
    apply (fbig_rounding_set mode.toF b p S hb hp hS1 hS2 e neg _ hx0).2
    have habs : |(mulSign sres neg).val| = sres.val := by
      rw [hrval]; cases neg
      · simp only [Bool.false_eq_true, if_false]; exact abs_of_pos hsval_pos
      · simp only [if_true, abs_neg]; exact abs_of_pos hsval_pos
    refine ⟨?_, ?_⟩
    · rw [hrval]; cases neg <;> simp <;> linarith
    · rw [habs, ← hset]
      exact ⟨by rw [← hlo3]; exact hs1, by rw [← hhi3]; exact hs2,
        fun h => hs3 (by rw [hlo3]; exact h), fun h => hs4 (by rw [hhi3]; exact h)⟩
  · -- optimality
    intro p' s' hs' hround
    have hx0 := roundsTo_ne_zero hb hround
    rw [hfval] at hround
    obtain ⟨_, hin⟩ := (fbig_rounding_set mode.toF b p S hb hp hS1 hS2 e neg _ hx0).1 hround
    rw [← hset] at hin
    obtain ⟨q1, q2, q3, q4⟩ := hin
    rw [← hlo3] at q1 q3; rw [← hhi3] at q2 q4
    have hs'q : (0 : ℚ) < s' := by exact_mod_cast hs'
    have hcast : |(p' : ℚ) / s'| = (((p'.natAbs : ℤ) : ℤ) : ℚ) / s' := by
      rw [abs_div, abs_of_pos hs'q, Int.cast_natCast]
      congr 1
      rw [← Int.cast_abs, ← Int.natCast_natAbs, Int.cast_natCast]
    rw [hcast] at q1 q2 q3 q4
    have hgoal : AsSimple sres ⟨(p'.natAbs : ℤ), s'⟩ → AsSimple (mulSign sres neg) ⟨p', s'⟩ := by
      intro h
      unfold AsSimple at h ⊢
      have hden : (mulSign sres neg).den = sres.den := rfl
      simp only [hrnum, hden, Int.natAbs_natCast] at h ⊢
      exact h
    apply hgoal
    rcases lt_or_eq_of_le q1 with hlt1 | heq1
    · rcases lt_or_eq_of_le q2 with hlt2 | heq2
      · exact hsint _ s' hs' hlt1 hlt2
      · have hmin := reduced_minimal hi hhi2 (p'.natAbs : ℤ) s' hs' heq2.symm
        have h1 : AsSimple hi ⟨(p'.natAbs : ℤ), s'⟩ := by
          unfold AsSimple; simp only [Int.natAbs_natCast]
          have h2 := hmin.2; simp only [Int.natAbs_natCast] at h2
          have h3 := hmin.1
          omega
        exact (hshi (q4 heq2)).trans h1
    · have hmin := reduced_minimal lo hlo2 (p'.natAbs : ℤ) s' hs' heq1
      have h1 : AsSimple lo ⟨(p'.natAbs : ℤ), s'⟩ := by
        unfold AsSimple; simp only [Int.natAbs_natCast]
        have h2 := hmin.2; simp only [Int.natAbs_natCast] at h2
        have h3 := hmin.1
        omega
      exact (hslo (q3 heq1.symm)).trans h1

end Dashu.Model.Ratio
