import Dashu.Proofs.Ratio.FloatSpec
/-
  C18 float clause, part 4: `floatDecode` yields a canonical float, the rounding set is
  `roundingInterval`, and the composed statement for `simplest_from_f32/f64`.
-/
namespace Dashu.Model.Ratio
open Dashu.Model Dashu.Model.Conv

theorem bits_decompose (eb mb bits : ℕ) :
    bits = (bits / 2 ^ (eb + mb)) * 2 ^ (eb + mb) + ((bits / 2 ^ mb) % 2 ^ eb) * 2 ^ mb +
      bits % 2 ^ mb := by
  have h1 := Nat.div_add_mod bits (2 ^ mb)
  have h2 := Nat.div_add_mod (bits / 2 ^ mb) (2 ^ eb)
  have h3 : bits / 2 ^ mb / 2 ^ eb = bits / 2 ^ (eb + mb) := by
    rw [Nat.div_div_eq_div_mul, ← pow_add, Nat.add_comm]
  rw [h3] at h2
  have e : 2 ^ (eb + mb) = 2 ^ eb * 2 ^ mb := pow_add 2 eb mb
  calc bits = 2 ^ mb * (bits / 2 ^ mb) + bits % 2 ^ mb := h1.symm
    _ = 2 ^ mb * (2 ^ eb * (bits / 2 ^ (eb + mb)) + bits / 2 ^ mb % 2 ^ eb) + bits % 2 ^ mb := by
        rw [h2]
    _ = _ := by rw [e]; ring

/-- a finite non-zero bit pattern decodes to a canonical float, and is its sign bit plus
    `magBits` -/
theorem floatDecode_canon (F : Ieee) (hF : F.Ok) (bits : ℕ) (hbits : bits < 2 ^ (F.EB + F.MB + 1))
    (man exp : ℤ) (hdec : floatDecode F.EB F.MB bits = some (man, exp)) (hman : man ≠ 0) :
    Canon F man.natAbs exp ∧ exp + F.MB ≤ F.emax ∧
      bits = (if man < 0 then F.signBit else 0) + magBits F man.natAbs exp := by
  have hdecomp := bits_decompose F.EB F.MB bits
  have hB := F.B_ge hF
  have h2B := F.two_B hF
  have hq1 := F.qmin_eq
  have hq2 := F.emax_eq
  have hqmin : F.qmin = 1 - (2 ^ (F.EB - 1) - 1 : ℤ) - F.MB := by
    unfold Ieee.qmin Ieee.emin Ieee.bias; ring
  have hfin_sub : F.qmin + F.MB ≤ F.emax := by omega
  have hfin_norm : ∀ e : ℕ, e + 2 ≤ 2 ^ F.EB → F.qmin + e - 1 + F.MB ≤ F.emax := by
    intro e he; omega
  unfold floatDecode at hdec
  simp only [Nat.shiftRight_eq_div_pow] at hdec
  set sg := bits / 2 ^ (F.EB + F.MB) with hsg
  set e := (bits / 2 ^ F.MB) % 2 ^ F.EB with he
  set mant := bits % 2 ^ F.MB with hmant
  have hmantlt : mant < 2 ^ F.MB := Nat.mod_lt _ (Nat.two_pow_pos _)
  have helt : e < 2 ^ F.EB := Nat.mod_lt _ (Nat.two_pow_pos _)
  have hsglt : sg < 2 := by
    rw [hsg, Nat.div_lt_iff_lt_mul (Nat.two_pow_pos _)]
    calc bits < 2 ^ (F.EB + F.MB + 1) := hbits
      _ = 2 * 2 ^ (F.EB + F.MB) := by rw [pow_succ]; ring
  have hP2 : 2 ^ (F.MB + 1) = 2 * 2 ^ F.MB := by rw [pow_succ]; ring
  clear_value sg e mant
  clear hsg he hmant
  unfold Canon magBits Ieee.signBit
  by_cases hinf : e = 2 ^ F.EB - 1
  · rw [if_pos hinf] at hdec; exact absurd hdec (by simp)
  rw [if_neg hinf] at hdec
  -- the decoded magnitude M and exponent
  obtain ⟨M, hM, hMex⟩ : ∃ M : ℕ, (man = if sg % 2 = 1 then -(M : ℤ) else (M : ℤ)) ∧
      ((e = 0 ∧ M = mant ∧ exp = F.qmin) ∨ (e ≠ 0 ∧ M = mant + 2 ^ F.MB ∧ exp = F.qmin + e - 1)) := by
    by_cases he0 : e = 0
    · simp only [he0, if_true, Option.some.injEq, Prod.mk.injEq] at hdec
      exact ⟨mant, hdec.1.symm, Or.inl ⟨he0, rfl, by rw [hqmin, ← hdec.2]⟩⟩
    · simp only [he0, if_false, Option.some.injEq, Prod.mk.injEq] at hdec
      exact ⟨mant + 2 ^ F.MB, hdec.1.symm, Or.inr ⟨he0, rfl, by rw [hqmin, ← hdec.2]; ring⟩⟩
  have hMabs : man.natAbs = M := by
    rw [hM]; split
    · rw [Int.natAbs_neg, Int.natAbs_natCast]
    · rw [Int.natAbs_natCast]
  have hM0 : M ≠ 0 := by
    intro h0; apply hman; rw [hM, h0]; simp
  have hneg : (man < 0) ↔ sg % 2 = 1 := by
    have hMpos : (0 : ℤ) < M := by exact_mod_cast Nat.pos_of_ne_zero hM0
    rw [hM]; split
    · rename_i h; constructor
      · intro _; exact h
      · intro _; omega
    · rename_i h; constructor
      · intro hh; omega
      · intro hh; exact absurd hh h
  rw [hMabs]
  -- the sign part of the bit pattern
  have hsign : (if man < 0 then 2 ^ (F.EB + F.MB) else 0) = sg * 2 ^ (F.EB + F.MB) := by
    by_cases hs : sg % 2 = 1
    · rw [if_pos (hneg.2 hs)]; have : sg = 1 := by omega
      rw [this, Nat.one_mul]
    · rw [if_neg (fun h => hs (hneg.1 h))]; have : sg = 0 := by omega
      rw [this, Nat.zero_mul]
  rw [hsign]
  rcases hMex with ⟨he0, hMm, hexq⟩ | ⟨he0, hMm, hexq⟩
  · refine ⟨Or.inr ⟨by omega, by omega, hexq⟩, by rw [hexq]; exact hfin_sub, ?_⟩
    rw [hexq, sub_self, Int.toNat_zero, Nat.zero_mul, Nat.zero_add, hMm]
    rw [he0, Nat.zero_mul, Nat.add_zero] at hdecomp
    exact hdecomp
  · have hele : e + 2 ≤ 2 ^ F.EB := by omega
    refine ⟨Or.inl ⟨by omega, by omega, by omega⟩, by rw [hexq]; exact hfin_norm e hele, ?_⟩
    have hk : (exp - F.qmin).toNat = e - 1 := by omega
    rw [hk, hMm]
    have hcode : (e - 1) * 2 ^ F.MB + (mant + 2 ^ F.MB) = e * 2 ^ F.MB + mant := by
      obtain ⟨j, hj⟩ : ∃ j, e = j + 1 := ⟨e - 1, by omega⟩
      rw [hj]; simp only [Nat.add_sub_cancel]; ring
    rw [hcode]
    omega

/-- values of the end points of `roundingInterval` -/
theorem roundingInterval_val (mb : ℕ) (minExp : ℤ) (m : ℕ) (exp : ℤ) :
    (roundingInterval mb minExp m exp).1.val =
      ((if m = 2 ^ mb ∧ exp > minExp then 4 * (m : ℤ) - 1 else 4 * (m : ℤ) - 2 : ℤ) : ℚ) *
        (2 : ℚ) ^ (exp - 2) ∧
    (roundingInterval mb minExp m exp).2.val = ((4 * (m : ℤ) + 2 : ℤ) : ℚ) * (2 : ℚ) ^ (exp - 2) := by
  unfold roundingInterval
  simp only
  split
  · rename_i h
    have e : (2 : ℚ) ^ (exp - 2) = (((2 : ℤ) ^ (exp - 2).toNat : ℤ) : ℚ) := by
      rw [← zpow_toNat_two (exp - 2) h]; push_cast; rfl
    constructor <;> simp only [Q.val_def, Nat.cast_one, div_one, e] <;> push_cast <;> ring
  · rename_i h
    have h' : 0 ≤ -(exp - 2) := by omega
    have e : (2 : ℚ) ^ (exp - 2) = 1 / ((2 ^ (-(exp - 2)).toNat : ℕ) : ℚ) := by
      rw [zpow_toNat_two _ h', zpow_neg]; simp
    constructor <;> simp only [Q.val_def, e] <;> ring

/-- the rounding set of the core is the closed `roundingInterval` with the parity rule -/
theorem inSet_iff_interval (F : Ieee) (m : ℕ) (exp : ℤ) (x : ℚ) :
    InSet F m exp x ↔
      ((roundingInterval F.MB F.qmin m exp).1.val ≤ x ∧ x ≤ (roundingInterval F.MB F.qmin m exp).2.val ∧
       (x = (roundingInterval F.MB F.qmin m exp).1.val → m % 2 = 0) ∧
       (x = (roundingInterval F.MB F.qmin m exp).2.val → m % 2 = 0)) := by
  obtain ⟨h1, h2⟩ := roundingInterval_val F.MB F.qmin m exp
  have hU : (2 : ℚ) ^ exp = 4 * (2 : ℚ) ^ (exp - 2) := by
    rw [two_zpow_pred exp, two_zpow_pred (exp - 1)]
    have : exp - 1 - 1 = exp - 2 := by ring
    rw [this]; ring
  have elo : (if m = 2 ^ F.MB ∧ F.qmin < exp then (m : ℚ) * (2 : ℚ) ^ exp - (2 : ℚ) ^ exp / 4
      else (m : ℚ) * (2 : ℚ) ^ exp - (2 : ℚ) ^ exp / 2) = (roundingInterval F.MB F.qmin m exp).1.val := by
    rw [h1, hU]
    by_cases hc : m = 2 ^ F.MB ∧ F.qmin < exp
    · rw [if_pos hc, if_pos (by exact ⟨hc.1, hc.2⟩)]; push_cast; ring
    · rw [if_neg hc, if_neg (by intro h; exact hc ⟨h.1, h.2⟩)]; push_cast; ring
  have ehi : (m : ℚ) * (2 : ℚ) ^ exp + (2 : ℚ) ^ exp / 2 = (roundingInterval F.MB F.qmin m exp).2.val := by
    rw [h2, hU]; push_cast; ring
  unfold InSet
  dsimp only
  rw [elo, ehi]

end Dashu.Model.Ratio

namespace Dashu.Model.Ratio
open Dashu.Model Dashu.Model.Conv

/-- **`simplest_from_f32/f64`, full statement** (for any IEEE binary format `F`; the model is
    `simplestFromFloat`, the required behaviour — since fix 3d8de53 also the code's): for a finite
    non-zero float given by its bit pattern the result is a reduced fraction that ROUNDS BACK to
    exactly that float (round-to-nearest-even of a rational, builder-conv's `ieeeRoundRat`), and
    EVERY fraction `p/s` that rounds to that float is at most as simple (its denominator is not
    smaller, and for an equal denominator its numerator magnitude is not smaller). -/
theorem simplestFromFloat_exact (F : Ieee) (hF : F.Ok) (bits : ℕ)
    (hbits : bits < 2 ^ (F.EB + F.MB + 1)) (man exp : ℤ)
    (hdec : floatDecode F.EB F.MB bits = some (man, exp)) (hman : man ≠ 0) :
    ∃ r, simplestFromFloat simplerSpec F.EB F.MB bits = .ok (some (some r)) ∧ Reduced r ∧
      (ieeeRoundRat F .halfEven r.num r.den).1 = bits ∧
      ∀ (p : ℤ) (s : ℕ), 0 < s → (ieeeRoundRat F .halfEven p s).1 = bits → AsSimple r ⟨p, s⟩ := by
  obtain ⟨hcanon, hfin, hbitsEq⟩ := floatDecode_canon F hF bits hbits man exp hdec hman
  obtain ⟨lo, hi, sres, hlo1, hhi1, hlov, hhiv, hres, hset⟩ :=
    ((simplestFromFloat_spec F.EB F.MB bits).2 man exp hdec).2 hman
  have hqmin : (1 - (2 ^ (F.EB - 1) - 1) - (F.MB : ℤ)) = F.qmin := by
    unfold Ieee.qmin Ieee.emin Ieee.bias; ring
  rw [hqmin] at hlov hhiv
  obtain ⟨hsred, hspos, hs1, hs2, hs3, hs4, hsint, hslo, hshi⟩ := hset
  simp only [decide_eq_true_eq] at hs3 hs4 hslo hshi
  set m := man.natAbs with hm
  set neg : Bool := decide (man < 0) with hneg
  have hround := fun (num : ℤ) (den : ℕ) (hden : 0 < den) =>
    round_iff F hF neg m exp hcanon hfin num den hden
  have hbits' : bits = (if neg = true then F.signBit else 0) + magBits F m exp := by
    rw [hbitsEq]; simp only [hneg, decide_eq_true_eq]
  obtain ⟨hrred, hrval⟩ := mulSign_spec sres neg hsred
  have hrnum : (mulSign sres neg).num.natAbs = sres.num.natAbs := by
    unfold mulSign; cases neg <;> simp
  have hrden : (mulSign sres neg).den = sres.den := rfl
  have hsnat : ((sres.num.natAbs : ℕ) : ℚ) / sres.den = sres.val := by
    rw [Q.val_def]; congr 1
    have : (sres.num.natAbs : ℤ) = sres.num := Int.natAbs_of_nonneg hspos.le
    rw [← Int.cast_natCast, this]
  refine ⟨mulSign sres neg, hres, hrred, ?_, ?_⟩
  · -- rounds back
    rw [hbits']
    apply (hround _ _ hrred.den_pos).2
    refine ⟨?_, ?_, ?_⟩
    · unfold mulSign; cases neg <;> simp <;> omega
    · unfold mulSign; cases neg <;> simp <;> omega
    · rw [hrnum, hrden, hsnat, inSet_iff_interval, ← hlov, ← hhiv]
      exact ⟨hs1, hs2, hs3, hs4⟩
  · -- every fraction that rounds to the float is at most as simple
    intro p s hs hp
    rw [hbits'] at hp
    obtain ⟨hp0, _, hpin⟩ := (hround p s hs).1 hp
    rw [inSet_iff_interval, ← hlov, ← hhiv] at hpin
    obtain ⟨q1, q2, q3, q4⟩ := hpin
    have hgoal : AsSimple sres ⟨(p.natAbs : ℤ), s⟩ → AsSimple (mulSign sres neg) ⟨p, s⟩ := by
      intro h
      unfold AsSimple at h ⊢
      simp only [hrnum, hrden, Int.natAbs_natCast] at h ⊢
      exact h
    apply hgoal
    have hcast : (((p.natAbs : ℤ) : ℤ) : ℚ) / s = ((p.natAbs : ℕ) : ℚ) / s := by rw [Int.cast_natCast]
    rcases lt_or_eq_of_le q1 with hlt1 | heq1
    · rcases lt_or_eq_of_le q2 with hlt2 | heq2
      · exact hsint (p.natAbs : ℤ) s hs (by rw [hcast]; exact hlt1) (by rw [hcast]; exact hlt2)
      · -- the upper end point itself
        have hmin := reduced_minimal hi (by
            obtain ⟨_, h, _⟩ := reduce_spec _ (roundingInterval_pos F.MB F.qmin m exp
              (Int.natAbs_pos.mpr hman)).2.1
            obtain ⟨r', hr', hr2, _⟩ := reduce_spec (roundingInterval F.MB
              (1 - (2 ^ (F.EB - 1) - 1) - F.MB) m exp).2 (by
                rw [hqmin]; exact (roundingInterval_pos F.MB F.qmin m exp
                  (Int.natAbs_pos.mpr hman)).2.1)
            rw [hhi1] at hr'; cases hr'; exact hr2)
          (p.natAbs : ℤ) s hs (by rw [hcast]; exact heq2.symm)
        have h1 : AsSimple hi ⟨(p.natAbs : ℤ), s⟩ := by
          unfold AsSimple; simp only [Int.natAbs_natCast]
          have := hmin.2; simp only [Int.natAbs_natCast] at this
          omega
        exact (hshi (q4 heq2)).trans h1
    · have hmin := reduced_minimal lo (by
          obtain ⟨r', hr', hr2, _⟩ := reduce_spec (roundingInterval F.MB
            (1 - (2 ^ (F.EB - 1) - 1) - F.MB) m exp).1 (by
              rw [hqmin]; exact (roundingInterval_pos F.MB F.qmin m exp
                (Int.natAbs_pos.mpr hman)).1)
          rw [hlo1] at hr'; cases hr'; exact hr2)
        (p.natAbs : ℤ) s hs (by rw [hcast]; exact heq1)
      have h1 : AsSimple lo ⟨(p.natAbs : ℤ), s⟩ := by
        unfold AsSimple; simp only [Int.natAbs_natCast]
        have := hmin.2; simp only [Int.natAbs_natCast] at this
        omega
      exact (hslo (q3 heq1.symm)).trans h1

end Dashu.Model.Ratio
