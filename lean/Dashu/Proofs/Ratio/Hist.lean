import Dashu.Proofs.Ratio.Extra
import Dashu.Proofs.Ratio.Const
/-
  C04 round 5: history-level `Relaxed = RBig`, the reduce2 invariant over Relaxed-only histories,
  and the sign corners of `pow` / `inv`.
-/
namespace Dashu.Model.Ratio
open Dashu.Model

/-- canonicalising any pair with positive denominator that denotes the same number as a reduced pair
    gives exactly that reduced pair (`Relaxed::canonicalize` lands on the stored RBig) -/
theorem reduce_eq_of_val_eq {x r : Q} (hd : 0 < x.den) (hr : Reduced r) (hv : x.val = r.val) :
    reduce x = .ok r := by
  obtain ⟨c, hc1, hc2, hc3⟩ := reduce_spec x hd
  rw [hc1, Reduced.ext hc2 hr (hc3.trans hv)]

theorem Reg.Inv.den_pos {r : Reg} (h : r.Inv) : 0 < r.q.den :=
  Kind.Inv.den_pos ((Reg.inv_iff r).1 h)

/-- **history theorem, Relaxed = RBig**: the same program run on two register files denoting the
    same numbers (e.g. one all-`Relaxed`, one all-`RBig`) — as long as neither run is malformed —
    stops at the same step in the same way and every register ever produced denotes the same
    number in both runs. -/
theorem run_vals_agree (ops : List Op) (e1 e2 : List Reg) (h1 : ∀ r ∈ e1, r.Inv) (h2 : ∀ r ∈ e2, r.Inv)
    (hv : e1.map Reg.val = e2.map Reg.val)
    (nb1 : (run ops e1).2 ≠ .bad) (nb2 : (run ops e2).2 ≠ .bad) :
    (run ops e1).1.map Reg.val = (run ops e2).1.map Reg.val ∧
    (((run ops e1).2 = .done ∧ (run ops e2).2 = .done) ∨
     ((run ops e1).2 = .panic .divideByZero ∧ (run ops e2).2 = .panic .divideByZero)) := by
  have a := run_vals ops e1 h1
  have b := run_vals ops e2 h2
  rw [hv] at a
  cases s1 : (run ops e1).2 with
  | bad => exact absurd s1 nb1
  | done =>
    cases s2 : (run ops e2).2 with
    | bad => exact absurd s2 nb2
    | done =>
      rw [s1] at a; rw [s2] at b; simp only at a b
      have := a.symm.trans b
      exact ⟨(Prod.mk.inj this).1, .inl ⟨rfl, rfl⟩⟩
    | panic k =>
      rw [s1] at a; rw [s2] at b; simp only at a b
      have := a.symm.trans b.2
      exact absurd (Prod.mk.inj this).2 (by simp)
  | panic k =>
    cases s2 : (run ops e2).2 with
    | bad => exact absurd s2 nb2
    | done =>
      rw [s1] at a; rw [s2] at b; simp only at a b
      have := a.2.symm.trans b
      exact absurd (Prod.mk.inj this).2 (by simp)
    | panic k' =>
      rw [s1] at a; rw [s2] at b; simp only at a b
      have := a.2.symm.trans b.2
      exact ⟨(Prod.mk.inj this).1, .inr ⟨by rw [a.1], by rw [b.1]⟩⟩

/-- … and register by register: wherever the second run holds an `RBig`, canonicalising the
    corresponding register of the first run (`Relaxed::canonicalize`) gives exactly the stored
    numerator/denominator of that `RBig`. -/
theorem run_canonicalize_agree (ops : List Op) (e1 e2 : List Reg) (h1 : ∀ r ∈ e1, r.Inv)
    (h2 : ∀ r ∈ e2, r.Inv) (hv : e1.map Reg.val = e2.map Reg.val)
    (nb1 : (run ops e1).2 ≠ .bad) (nb2 : (run ops e2).2 ≠ .bad)
    (i : Nat) (r1 r2 : Reg) (g1 : (run ops e1).1[i]? = some r1) (g2 : (run ops e2).1[i]? = some r2)
    (hk : r2.kind = .R) : reduce r1.q = .ok r2.q := by
  have hl := (run_vals_agree ops e1 e2 h1 h2 hv nb1 nb2).1
  have i1 : r1.Inv := run_inv ops e1 h1 r1 (List.mem_of_getElem? g1)
  have i2 : r2.Inv := run_inv ops e2 h2 r2 (List.mem_of_getElem? g2)
  have hr : Reduced r2.q := by
    have := (Reg.inv_iff r2).1 i2; rw [hk] at this; exact this
  have e : r1.val = r2.val := by
    have a : ((run ops e1).1.map Reg.val)[i]? = some r1.val := by rw [List.getElem?_map, g1]; rfl
    have b : ((run ops e2).1.map Reg.val)[i]? = some r2.val := by rw [List.getElem?_map, g2]; rfl
    rw [hl] at a
    exact Option.some.inj (a.symm.trans b)
  exact reduce_eq_of_val_eq i1.den_pos hr e

/-- an operation that keeps the register type (`canonicalize` is the only `Relaxed → RBig` step) -/
def Op.noCanon : Op → Prop
  | .un .canon _ => False
  | _ => True

theorem step_kind_X (env : List Reg) (op : Op) (hk : ∀ r ∈ env, r.kind = .X) (hop : op.noCanon)
    (r : Reg) (hs : step env op = .ok r) : r.kind = .X := by
  cases op with
  | bin o i j =>
    simp only [step] at hs
    cases hi : env[i]? with
    | none => simp [hi] at hs
    | some a =>
      cases hj : env[j]? with
      | none => simp [hi, hj] at hs
      | some b =>
        simp only [hi, hj] at hs
        split at hs
        · have ka := hk a (List.mem_of_getElem? hi)
          cases he : evalBin o a.kind a.q b.q with
          | ok q => rw [he] at hs; simp only [liftQ] at hs; cases hs; exact ka
          | error e => rw [he] at hs; simp [liftQ] at hs
        · cases hs
  | un o i =>
    simp only [step] at hs
    cases hi : env[i]? with
    | none => simp [hi] at hs
    | some a =>
      simp only [hi] at hs
      have ka := hk a (List.mem_of_getElem? hi)
      cases o with
      | canon => exact absurd hop (by simp [Op.noCanon])
      | inv =>
        simp only [evalUn] at hs
        cases he : inv a.q with
        | ok q => rw [he] at hs; simp only [Except.map, liftR] at hs; cases hs; exact ka
        | error e => rw [he] at hs; simp [Except.map, liftR] at hs
      | fract =>
        simp only [evalUn] at hs
        cases he : fract a.q with
        | ok q => rw [he] at hs; simp only [Except.map, liftR] at hs; cases hs; exact ka
        | error e => rw [he] at hs; simp [Except.map, liftR] at hs
      | neg => simp only [evalUn, liftR] at hs; cases hs; exact ka
      | abs => simp only [evalUn, liftR] at hs; cases hs; exact ka
      | sqr => simp only [evalUn, liftR] at hs; cases hs; exact ka
      | cubic => simp only [evalUn, liftR] at hs; cases hs; exact ka
      | signum => simp only [evalUn, liftR] at hs; cases hs; exact ka
      | relax => simp only [evalUn, liftR] at hs; cases hs; rfl
  | pow i n =>
    simp only [step] at hs
    cases hi : env[i]? with
    | none => simp [hi] at hs
    | some a => simp only [hi] at hs; cases hs; exact hk a (List.mem_of_getElem? hi)
  | mulSign i s =>
    simp only [step] at hs
    cases hi : env[i]? with
    | none => simp [hi] at hs
    | some a => simp only [hi] at hs; cases hs; exact hk a (List.mem_of_getElem? hi)
  | intR o i z =>
    simp only [step] at hs
    cases hi : env[i]? with
    | none => simp [hi] at hs
    | some a =>
      simp only [hi] at hs
      cases he : evalIntR o a.kind a.q z with
      | ok q => rw [he] at hs; simp only [liftQ] at hs; cases hs; exact hk a (List.mem_of_getElem? hi)
      | error e => rw [he] at hs; simp [liftQ] at hs
  | intL o z i =>
    simp only [step] at hs
    cases hi : env[i]? with
    | none => simp [hi] at hs
    | some a =>
      simp only [hi] at hs
      cases he : evalIntL o a.kind z a.q with
      | ok q => rw [he] at hs; simp only [liftQ] at hs; cases hs; exact hk a (List.mem_of_getElem? hi)
      | error e => rw [he] at hs; simp [liftQ] at hs

theorem run_kind_X (ops : List Op) (env : List Reg) (hk : ∀ r ∈ env, r.kind = .X)
    (hops : ∀ op ∈ ops, op.noCanon) : ∀ r ∈ (run ops env).1, r.kind = .X := by
  induction ops generalizing env with
  | nil => simpa [run] using hk
  | cons op ops ih =>
    unfold run
    cases hs : step env op with
    | ok r =>
      simp only
      apply ih
      · intro r' hr'
        rcases List.mem_append.mp hr' with h | h
        · exact hk r' h
        · rw [List.mem_singleton.mp h]
          exact step_kind_X env op hk (hops op List.mem_cons_self) r hs
      · intro o ho; exact hops o (List.mem_cons_of_mem _ ho)
    | panic k => simpa using hk
    | bad => simpa using hk

/-- **Relaxed history theorem** (the `reduce2` invariant over all histories): in every finite program
    over `Relaxed` registers that never canonicalises, every register ever produced is a `Relaxed`
    whose stored pair has a positive denominator and is not even/even — i.e. it is a fixed point of
    `Repr::reduce2` unless it is a zero with denominator ≠ 1 (which `reduce2` maps to 0/1). -/
theorem run_relaxed_inv (ops : List Op) (env : List Reg) (hk : ∀ r ∈ env, r.kind = .X)
    (henv : ∀ r ∈ env, RelaxedInv r.q) (hops : ∀ op ∈ ops, op.noCanon) :
    ∀ r ∈ (run ops env).1, r.kind = .X ∧ RelaxedInv r.q ∧ (r.q.num ≠ 0 → reduce2 r.q = .ok r.q) := by
  intro r hr
  have k := run_kind_X ops env hk hops r hr
  have hinv : ∀ r ∈ env, r.Inv := by
    intro r hr; rw [Reg.inv_iff, hk r hr]; exact henv r hr
  have i := run_inv ops env hinv r hr
  rw [Reg.inv_iff, k] at i
  have i' : RelaxedInv r.q := i
  refine ⟨k, i', ?_⟩
  intro hn
  have hd : r.q.den ≠ 0 := i'.1.ne'
  unfold reduce2
  rw [if_neg hn, if_neg hd]
  have hz : min (tz r.q.num.natAbs) (tz r.q.den) = 0 := by
    by_contra hne
    have hpos : 0 < min (tz r.q.num.natAbs) (tz r.q.den) := Nat.pos_of_ne_zero hne
    have ha : 0 < tz r.q.num.natAbs := lt_of_lt_of_le hpos (Nat.min_le_left _ _)
    have hb : 0 < tz r.q.den := lt_of_lt_of_le hpos (Nat.min_le_right _ _)
    have hna : r.q.num.natAbs ≠ 0 := by simpa using hn
    have d1 := (tz_spec _ hna).1
    have d2 := (tz_spec _ hd).1
    have e1 : 2 ∣ r.q.num.natAbs := Dvd.dvd.trans (dvd_pow_self 2 ha.ne') d1
    have e2 : 2 ∣ r.q.den := Dvd.dvd.trans (dvd_pow_self 2 hb.ne') d2
    apply i'.2
    constructor <;> omega
  simp [hz]

-- ------------------------------------------------------------------ sign corners of inv / pow

/-- `Inverse for Repr`: the sign moves to the numerator, the new denominator is `|numerator|` — positive
    for either sign of the operand (both types share the body) -/
theorem inv_sign (x : Q) (hn : x.num ≠ 0) :
    ∃ r, inv x = .ok r ∧ r.den = x.num.natAbs ∧ 0 < r.den ∧ r.num.natAbs = x.den ∧
      (0 < x.den → (r.num < 0 ↔ x.num < 0)) := by
  refine ⟨⟨sgn x.num * x.den, x.num.natAbs⟩, by simp [inv, hn], rfl, Int.natAbs_pos.mpr hn, ?_, ?_⟩
  · unfold sgn; split <;> simp
  · intro hd
    have : (0 : Int) < x.den := by exact_mod_cast hd
    unfold sgn
    split
    · constructor
      · intro _; assumption
      · intro _; simp only; nlinarith
    · constructor
      · intro h; simp only at h; nlinarith
      · intro h; omega

/-- `inv` is an involution on stored pairs with positive denominator (no re-reduction needed) -/
theorem inv_inv (x : Q) (hd : 0 < x.den) (hn : x.num ≠ 0) : (inv x >>= inv) = .ok x := by
  obtain ⟨a, b⟩ := x
  simp only at hd hn
  have hb : (0 : Int) < b := by exact_mod_cast hd
  have h1 : inv ⟨a, b⟩ = .ok ⟨sgn a * b, a.natAbs⟩ := by simp [inv, hn]
  have hne : sgn a * (b : Int) ≠ 0 := by unfold sgn; split <;> omega
  rw [h1]
  show inv ⟨sgn a * b, a.natAbs⟩ = _
  unfold inv
  simp only [if_neg hne]
  congr 1
  have e1 : sgn (sgn a * (b : Int)) = sgn a := by
    unfold sgn
    by_cases h : a < 0
    · simp only [if_pos h]; rw [if_pos (by omega)]
    · simp only [if_neg h]; rw [if_neg (by omega)]
  rw [e1]
  have e2 : (sgn a * (b : Int)).natAbs = b := by
    unfold sgn; split <;> simp
  rw [e2]
  congr 1
  unfold sgn
  split <;> omega

/-- `x.inv()` is `1 / x` also as a stored pair: the same numerator/denominator as `RBig::ONE / x`,
    and the same `DivideByZero` panic for zero -/
theorem rbig_inv_eq_one_div (x : Q) (hx : Reduced x) : inv x = R.div Q.one x := by
  have h1 := inv_spec x hx
  have h2 := R.div_spec Q.one x (by decide) hx
  by_cases hn : x.num = 0
  · rw [h1.1 hn, h2.1 hn]
  · obtain ⟨r, e1, r1, v1⟩ := h1.2 hn
    obtain ⟨r', e2, r2, v2⟩ := h2.2 hn
    rw [e1, e2]
    have : (Q.one).val = 1 := by simp [Q.one, Q.val_def]
    rw [this] at v2
    rw [Reduced.ext r1 r2 (v1.trans v2.symm)]

/-- `pow(0)` is 1/1 for every operand, also `0^0` -/
theorem pow_zero_exp (x : Q) : pow x 0 = Q.one := by simp [pow_def, Q.one]

theorem pow_one_exp (x : Q) : pow x 1 = x := by simp [pow_def]

/-- zero stays 0/1 under every positive power -/
theorem pow_zero_base (n : Nat) (hn : 0 < n) : pow Q.zero n = Q.zero := by
  simp [pow_def, Q.zero, Nat.ne_of_gt hn]

/-- `(-1)^n` and `1^n` for every `n` (the values driven with extreme `usize` exponents) -/
theorem pow_neg_one (n : Nat) : pow Q.negOne n = ⟨if n % 2 = 0 then 1 else -1, 1⟩ := by
  simp only [pow_def, Q.negOne, one_pow]
  congr 1
  rcases Nat.even_or_odd n with h | h
  · rw [h.neg_one_pow, if_pos (Nat.even_iff.mp h)]
  · rw [h.neg_one_pow, if_neg (by have := Nat.odd_iff.mp h; omega)]

theorem pow_one_base (n : Nat) : pow Q.one n = Q.one := by simp [pow_def, Q.one]

/-- sign of a power: the denominator stays positive, the numerator is negative exactly for a negative
    base and an odd exponent -/
theorem pow_sign (x : Q) (n : Nat) (hd : 0 < x.den) :
    0 < (pow x n).den ∧ ((pow x n).num < 0 ↔ (x.num < 0 ∧ n % 2 = 1)) := by
  rw [pow_def]
  refine ⟨Nat.pow_pos hd, ?_⟩
  simp only
  constructor
  · intro h
    have hneg : x.num < 0 := by
      by_contra hc
      have : 0 ≤ x.num ^ n := pow_nonneg (not_lt.mp hc) n
      omega
    refine ⟨hneg, ?_⟩
    rcases Nat.even_or_odd n with he | ho
    · have := he.pow_nonneg x.num; omega
    · exact Nat.odd_iff.mp ho
  · rintro ⟨hneg, ho⟩
    exact (Nat.odd_iff.mpr ho).pow_neg hneg

/-- `pow` agrees with repeated `RBig *` as stored pairs: `x^(n+1)` is exactly `x^n * x` -/
theorem rbig_pow_succ (x : Q) (n : Nat) (hx : Reduced x) : R.mul (pow x n) x = .ok (pow x (n + 1)) := by
  have hp := pow_spec x n hx
  obtain ⟨r, e, hr, hv⟩ := R.mul_spec (pow x n) x hp.1 hx
  have hp' := pow_spec x (n + 1) hx
  rw [e, Reduced.ext hr hp'.1 (by rw [hv, hp.2, hp'.2, pow_succ])]

-- ------------------------------------------------------------------ predicates (rbig.rs, sign.rs)

/-- `is_zero` and `sign` of both types read the value off the numerator -/
theorem preds_val (x : Q) (hd : 0 < x.den) :
    (isZero x = true ↔ x.val = 0) ∧ (isNegative x = true ↔ x.val < 0) := by
  have hb : (0 : ℚ) < (x.den : ℚ) := by exact_mod_cast hd
  constructor
  · rw [val_eq_zero_iff hd]; simp [isZero]
  · rw [Q.val_def, div_lt_iff₀ hb, zero_mul]
    simp [isNegative]

/-- `Relaxed::is_one` (`denominator == numerator`) is "the value is 1" for any stored pair -/
theorem relaxed_isOne_val (x : Q) (hd : 0 < x.den) : X.isOne x = true ↔ x.val = 1 := by
  have hb : (x.den : ℚ) ≠ 0 := by exact_mod_cast hd.ne'
  rw [Q.val_def, div_eq_one_iff_eq hb]
  simp only [X.isOne, decide_eq_true_eq]
  constructor
  · intro h; rw [← h]; push_cast; rfl
  · intro h; exact_mod_cast h.symm

/-- `RBig::is_one` / `RBig::is_int` on a reduced pair -/
theorem rbig_isOne_isInt_val (x : Q) (hx : Reduced x) :
    (R.isOne x = true ↔ x.val = 1) ∧ (R.isInt x = true ↔ x.val.den = 1) := by
  have hnd := hx.num_den_eq
  constructor
  · simp only [R.isOne, Bool.and_eq_true, decide_eq_true_eq]
    constructor
    · rintro ⟨h1, h2⟩
      rw [Q.val_def, h1, h2]; norm_num
    · intro h
      have e1 : x.val.num = 1 := by rw [h]; rfl
      have e2 : x.val.den = 1 := by rw [h]; rfl
      exact ⟨hnd.1 ▸ e1, hnd.2 ▸ e2⟩
  · simp only [R.isInt, decide_eq_true_eq]
    rw [hnd.2]

end Dashu.Model.Ratio
