import Dashu.Proofs.Ratio.FBigSet
/-
  C18 FBig clause: the model's `roundingSet Quirks.none` (required behaviour of
  `simplest_from_float`) is the rounding set `FSet` of the mode's window.
-/
namespace Dashu.Model.Ratio
open Dashu.Model

/-- the modes of the rational model as builder-float's modes -/
def RMode.toF : RMode → FMode
  | .zero => .zero | .away => .away | .up => .up | .down => .down
  | .halfAway => .halfAway | .halfEven => .halfEven

/-- the integer table `roundingSet Quirks.none` in terms of the window of the mode -/
theorem roundingSet_window (mode : RMode) (b p : ℕ) (neg : Bool) (S : ℕ) (odd : Bool) :
    let W := windowOf mode.toF neg
    let r := roundingSet Quirks.none mode b p neg S odd
    let below : ℚ := if S = b ^ (p - 1) then 2 else 2 * b
    (r.1 : ℚ) = 2 * b * S - below * W.dlo ∧ (r.2.1 : ℚ) = 2 * b * S + 2 * b * W.dhi ∧
      r.2.2.1 = (if S = b ^ (p - 1) then W.inclLo (b ^ p) else W.inclLo S) ∧
      r.2.2.2 = W.inclHi S := by
  have hdiv : ((2 * (b : ℤ)) / 2 : ℤ) = b := by omega
  have h22 : ((2 : ℤ) / 2 : ℤ) = 1 := by decide
  by_cases hpow : S = b ^ (p - 1)
  · cases mode <;> cases neg <;>
      simp [roundingSet, Quirks.none, RMode.toF, windowOf, wToward, wAway, wHalfAway, wHalfEven,
        hpow, hdiv, h22] <;> (try ring)
  · cases mode <;> cases neg <;>
      simp [roundingSet, Quirks.none, RMode.toF, windowOf, wToward, wAway, wHalfAway, wHalfEven,
        hpow, hdiv, h22] <;> (try ring)

end Dashu.Model.Ratio
